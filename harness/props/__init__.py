"""Per-property check configuration: one JSON file per property (CXX.json) in this directory.

Keys: title, level (exploration|fault_enumeration), rule (how cases are generated and what
makes one distinct/non-trivial), assumptions[], floor_q / floor_t (minimum distinct
non-trivial cases; fewer => inconclusive), required_counters[] (evidence counters that must be
non-zero), jobs[]: {name, pkg (package dir relative to /repo, "./x/y"), run (-test.run regexp),
race (bool), shards_q, shards_t, timeout_q, timeout_t (wall-clock watchdog, seconds; firing =>
inconclusive), tiers (default both)}.
"""
import glob
import json
import os

PROPS = {}
for _p in sorted(glob.glob(os.path.join(os.path.dirname(__file__), "C*.json"))):
    _d = json.load(open(_p))
    PROPS[os.path.basename(_p)[:-5]] = _d

SELFTEST = []
_st = os.path.join(os.path.dirname(__file__), "selftest.json")
if os.path.exists(_st):
    SELFTEST = json.load(open(_st))
