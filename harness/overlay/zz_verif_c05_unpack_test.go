package quic

// C05 parts (1)/(2) at the packer / unpacker: sample offset, packet number bytes, key phase bit.
//
// Runtime monitor: the real packetPacker seals Initial packets with the real Initial sealer
// (handshake.NewInitialAEAD) and 1-RTT packets with a sealer whose primitives are the wiretap
// reference (the packer decides *where* the sample is taken and which bytes are masked); the real
// packetUnpacker opens packets produced by the packer and packets produced by the reference.
// Oracle: wiretap (independent RFC 9001/9369 implementation): every packed packet must open under
// the reference at the packet number offset the reference parser finds, to the packet number /
// length / key phase the packer was told to use; every reference packet must be unpacked to
// exactly the protected header fields and payload; every modified packet must be refused.

import (
	"bytes"
	"fmt"
	"math/rand/v2"
	"testing"

	"github.com/refraction-networking/uquic/internal/ackhandler"
	"github.com/refraction-networking/uquic/internal/handshake"
	"github.com/refraction-networking/uquic/internal/monotime"
	"github.com/refraction-networking/uquic/internal/protocol"
	"github.com/refraction-networking/uquic/internal/utils"
	"github.com/refraction-networking/uquic/internal/verif/evlog"
	"github.com/refraction-networking/uquic/internal/verif/wiretap"
	"github.com/refraction-networking/uquic/internal/wire"
)

type c05uPN struct {
	pn protocol.PacketNumber
	l  protocol.PacketNumberLen
}

func (m *c05uPN) PeekPacketNumber(protocol.EncryptionLevel) (protocol.PacketNumber, protocol.PacketNumberLen) {
	return m.pn, m.l
}
func (m *c05uPN) PopPacketNumber(protocol.EncryptionLevel) protocol.PacketNumber {
	pn := m.pn
	m.pn++
	return pn
}

// c05uShort: 1-RTT sealer and opener whose primitives are the reference implementation.
type c05uShort struct {
	k       *wiretap.Keys
	kp      protocol.KeyPhaseBit
	largest int64
}

func (s *c05uShort) Seal(dst, src []byte, pn protocol.PacketNumber, ad []byte) []byte {
	return append(dst, s.k.Seal(uint64(pn), ad, src)...)
}
func (s *c05uShort) mask(sample []byte, firstByte *byte, pnBytes []byte) {
	m := s.k.Mask(sample)
	*firstByte ^= m[0] & 0x1f
	for i := range pnBytes {
		pnBytes[i] ^= m[1+i]
	}
}
func (s *c05uShort) EncryptHeader(sample []byte, fb *byte, pnBytes []byte) { s.mask(sample, fb, pnBytes) }
func (s *c05uShort) DecryptHeader(sample []byte, fb *byte, pnBytes []byte) { s.mask(sample, fb, pnBytes) }
func (s *c05uShort) Overhead() int                                         { return 16 }
func (s *c05uShort) KeyPhase() protocol.KeyPhaseBit                        { return s.kp }
func (s *c05uShort) DecodePacketNumber(w protocol.PacketNumber, l protocol.PacketNumberLen) protocol.PacketNumber {
	return protocol.PacketNumber(wiretap.DecodePN(s.largest, uint64(w), 8*uint(l)))
}
func (s *c05uShort) Open(dst, src []byte, _ monotime.Time, pn protocol.PacketNumber, kp protocol.KeyPhaseBit, ad []byte) ([]byte, error) {
	if kp != s.kp {
		return nil, handshake.ErrDecryptionFailed
	}
	pt, err := s.k.Open(uint64(pn), ad, src)
	if err != nil {
		return nil, handshake.ErrDecryptionFailed
	}
	return append(dst, pt...), nil
}

type c05uCS struct {
	handshake.CryptoSetup // nil: the packer and the unpacker only use the getters below
	initS                 handshake.LongHeaderSealer
	initO                 handshake.LongHeaderOpener
	short                 *c05uShort
}

func (c *c05uCS) GetInitialSealer() (handshake.LongHeaderSealer, error) {
	if c.initS == nil {
		return nil, handshake.ErrKeysDropped
	}
	return c.initS, nil
}
func (c *c05uCS) GetInitialOpener() (handshake.LongHeaderOpener, error) {
	if c.initO == nil {
		return nil, handshake.ErrKeysDropped
	}
	return c.initO, nil
}
func (c *c05uCS) GetHandshakeSealer() (handshake.LongHeaderSealer, error) {
	return nil, handshake.ErrKeysNotYetAvailable
}
func (c *c05uCS) GetHandshakeOpener() (handshake.LongHeaderOpener, error) {
	return nil, handshake.ErrKeysNotYetAvailable
}
func (c *c05uCS) Get0RTTSealer() (handshake.LongHeaderSealer, error) {
	return nil, handshake.ErrKeysNotYetAvailable
}
func (c *c05uCS) Get0RTTOpener() (handshake.LongHeaderOpener, error) {
	return nil, handshake.ErrKeysNotYetAvailable
}
func (c *c05uCS) Get1RTTSealer() (handshake.ShortHeaderSealer, error) {
	if c.short == nil {
		return nil, handshake.ErrKeysNotYetAvailable
	}
	return c.short, nil
}
func (c *c05uCS) Get1RTTOpener() (handshake.ShortHeaderOpener, error) {
	if c.short == nil {
		return nil, handshake.ErrKeysNotYetAvailable
	}
	return c.short, nil
}

type c05uFramer struct {
	frames []ackhandler.Frame
	stream []ackhandler.StreamFrame
}

func (f *c05uFramer) HasData() bool { return len(f.frames)+len(f.stream) > 0 }
func (f *c05uFramer) Append(fr []ackhandler.Frame, sf []ackhandler.StreamFrame, _ protocol.ByteCount, _ monotime.Time, v protocol.Version) ([]ackhandler.Frame, []ackhandler.StreamFrame, protocol.ByteCount) {
	var n protocol.ByteCount
	for _, x := range f.frames {
		n += x.Frame.Length(v)
	}
	for _, x := range f.stream {
		n += x.Frame.Length(v)
	}
	fr, sf = append(fr, f.frames...), append(sf, f.stream...)
	f.frames, f.stream = nil, nil
	return fr, sf, n
}

type c05uAcks struct{ ack map[protocol.EncryptionLevel]*wire.AckFrame }

func (a *c05uAcks) GetAckFrame(l protocol.EncryptionLevel, _ monotime.Time, _ bool) *wire.AckFrame {
	f := a.ack[l]
	delete(a.ack, l)
	return f
}

func c05uBytes(rng *rand.Rand, n int) []byte {
	b := make([]byte, n)
	for i := range b {
		b[i] = byte(rng.Uint32())
	}
	return b
}

type c05uResult struct {
	sig, detail, fp string
	trace          map[string]any
	tampers        int64
}

func c05uVer(v protocol.Version) string {
	if v == protocol.Version2 {
		return "v2"
	}
	return "v1"
}

// c05uTamper feeds modified copies of pkt to open (which must fail on every one).
func c05uTamper(rng *rand.Rand, pkt []byte, hdrBits int, open func([]byte) (string, bool)) (string, int64) {
	var bits []int
	if len(pkt) <= 64 {
		for b := 0; b < len(pkt)*8; b++ {
			bits = append(bits, b)
		}
	} else {
		for b := 0; b < min(hdrBits, len(pkt)*8); b++ {
			bits = append(bits, b)
		}
		for j := 0; j < 96; j++ {
			bits = append(bits, rng.IntN(len(pkt)*8))
		}
	}
	for _, b := range bits {
		mp := append([]byte(nil), pkt...)
		mp[b/8] ^= 1 << (7 - b%8)
		if got, ok := open(mp); ok {
			return fmt.Sprintf("bit %d flipped: %s", b, got), int64(len(bits))
		}
	}
	n := int64(len(bits))
	for _, cut := range []int{1, 2, 15, 16, 17, len(pkt) / 2, len(pkt) - 1} {
		if cut <= 0 || cut >= len(pkt) {
			continue
		}
		n++
		if got, ok := open(pkt[:len(pkt)-cut]); ok {
			return fmt.Sprintf("truncated by %d bytes: %s", cut, got), n
		}
	}
	return "", n
}

func c05uOne(rng *rand.Rand, short bool) (res c05uResult) {
	v := []protocol.Version{protocol.Version1, protocol.Version2}[rng.IntN(2)]
	pnLen := 1 + rng.IntN(4)
	hwin := int64(1) << (8*pnLen - 1)
	largest := int64(-1)
	switch rng.IntN(3) {
	case 1:
		largest = rng.Int64N(1<<31 - 2000)
	case 2:
		largest = rng.Int64N(1 << 40)
	}
	pn := largest + 1 + rng.Int64N(min(hwin, 1000))
	dcid := c05uBytes(rng, []int{0, 1, 4, 8, 20, rng.IntN(21)}[rng.IntN(6)])
	pnm := &c05uPN{pn: protocol.PacketNumber(pn), l: protocol.PacketNumberLen(pnLen)}
	now := monotime.Time(1 << 40)
	res.trace = map[string]any{"version": c05uVer(v), "pn": pn, "pn_len": pnLen, "receiver_largest": largest, "dcid": fmt.Sprintf("%x", dcid), "short": short}
	fail := func(sig, f string, a ...any) c05uResult {
		res.sig, res.detail = sig, fmt.Sprintf(f, a...)
		return res
	}
	framer := &c05uFramer{}
	acks := &c05uAcks{ack: map[protocol.EncryptionLevel]*wire.AckFrame{}}
	destCID := protocol.ParseConnectionID(dcid)

	if short {
		suite := []uint16{wiretap.SuiteAES128, wiretap.SuiteAES256, wiretap.SuiteChaCha}[rng.IntN(3)]
		secret := c05uBytes(rng, map[uint16]int{wiretap.SuiteAES128: 32, wiretap.SuiteAES256: 48, wiretap.SuiteChaCha: 32}[suite])
		wk, err := wiretap.NewKeys(uint32(v), suite, secret)
		if err != nil {
			return fail("", "%v", err)
		}
		kpBit := rng.IntN(2)
		kp := []protocol.KeyPhaseBit{protocol.KeyPhaseZero, protocol.KeyPhaseOne}[kpBit]
		snd := &c05uCS{short: &c05uShort{k: wk, kp: kp}}
		pp := newPacketPacker(protocol.ParseConnectionID([]byte{9, 8, 7, 6}), func() protocol.ConnectionID { return destCID },
			newInitialCryptoStream(false), newCryptoStream(), pnm, newRetransmissionQueue(), snd, framer, acks,
			newDatagramQueue(func() {}, utils.DefaultLogger), protocol.PerspectiveServer)
		var marker []byte
		kind := rng.IntN(3)
		switch kind {
		case 0: // smallest possible packet: one PING
			framer.frames = []ackhandler.Frame{{Frame: &wire.PingFrame{}}}
			marker = []byte{0x01}
		case 1:
			marker = c05uBytes(rng, 1+rng.IntN(40))
			framer.stream = []ackhandler.StreamFrame{{Frame: &wire.StreamFrame{StreamID: 4, Data: marker, DataLenPresent: true}}}
		default:
			marker = c05uBytes(rng, 40+rng.IntN(1100))
			framer.stream = []ackhandler.StreamFrame{{Frame: &wire.StreamFrame{StreamID: 4, Offset: 7, Data: marker, DataLenPresent: true}}}
		}
		buf := getPacketBuffer()
		_, err = pp.AppendPacket(buf, 1400, now, v)
		if err != nil {
			return fail("", "AppendPacket: %v", err)
		}
		pkt := append([]byte(nil), buf.Data...)
		res.trace["packet"] = fmt.Sprintf("%x", pkt)
		res.trace["suite"], res.trace["secret"], res.trace["key_phase"] = suite, fmt.Sprintf("%x", secret), kpBit
		res.fp = fmt.Sprintf("short/%s/%#04x/pl%d/k%d/kp%d/cid%d", c05uVer(v), suite, pnLen, kind, kpBit, min(len(dcid), 9))
		pnOff := 1 + len(dcid)
		hdr, gpn, gl, payload, err := wk.Unprotect(pkt, pnOff, largest)
		switch {
		case err != nil:
			return fail("C05|packer|short|reference-rejects-packed-packet", "packet %x (pn offset %d) does not open under the reference: %v", pkt, pnOff, err)
		case int64(gpn) != pn || gl != pnLen || wiretap.KeyPhase(hdr[0]) != kpBit || hdr[0]&0xc0 != 0x40 || !bytes.Equal(hdr[1:pnOff], dcid):
			return fail("C05|packer|short|header-fields-differ", "packed with pn=%d len=%d kp=%d dcid=%x; on the wire: pn=%d len=%d first byte %#x header %x", pn, pnLen, kpBit, dcid, gpn, gl, hdr[0], hdr)
		case !bytes.Contains(payload, marker):
			return fail("C05|packer|short|payload-differs", "payload %x does not contain the frame data %x", payload, marker)
		}
		rcv := &c05uShort{k: wk, kp: kp, largest: largest}
		un := newPacketUnpacker(&c05uCS{short: rcv}, len(dcid))
		check := func(what string, wire []byte, wantPayload []byte) *c05uResult {
			upn, ul, ukp, data, err := un.UnpackShortHeader(now, append([]byte(nil), wire...))
			if err != nil {
				r := fail("C05|unpacker|short|valid-packet-rejected|"+what, "%s packet %x: %v", what, wire, err)
				return &r
			}
			if int64(upn) != pn || int(ul) != pnLen || ukp != kp || !bytes.Equal(data, wantPayload) {
				r := fail("C05|unpacker|short|opened-to-different-plaintext|"+what, "%s packet pn=%d len=%d kp=%v payload=%x unpacked as pn=%d len=%d kp=%v payload=%x", what, pn, pnLen, kp, wantPayload, upn, ul, ukp, data)
				return &r
			}
			return nil
		}
		if r := check("packed", pkt, payload); r != nil {
			return *r
		}
		other := c05uBytes(rng, len(payload))
		ref := wk.ProtectPacket(hdr, pnLen, uint64(pn), other)
		if r := check("reference", ref, other); r != nil {
			return *r
		}
		what, n := c05uTamper(rng, ref, (pnOff+4+16)*8, func(mp []byte) (string, bool) {
			upn, ul, ukp, data, err := un.UnpackShortHeader(now, mp)
			return fmt.Sprintf("unpacked without error as pn=%d len=%d kp=%v payload=%x", upn, ul, ukp, data), err == nil
		})
		res.tampers = n
		if what != "" {
			res.trace["reference_packet"] = fmt.Sprintf("%x", ref)
			return fail("C05|unpacker|short|modified-packet-accepted", "%s (original pn=%d payload=%x)", what, pn, other)
		}
		return res
	}

	// ---- Initial
	sender := []protocol.Perspective{protocol.PerspectiveClient, protocol.PerspectiveServer}[rng.IntN(2)]
	odcid := c05uBytes(rng, rng.IntN(21))
	res.trace["odcid"], res.trace["sender"] = fmt.Sprintf("%x", odcid), sender.String()
	sealer, _ := handshake.NewInitialAEAD(protocol.ParseConnectionID(odcid), sender, v)
	_, opener := handshake.NewInitialAEAD(protocol.ParseConnectionID(odcid), sender.Opposite(), v)
	cs, ss := wiretap.InitialSecrets(uint32(v), odcid)
	if sender == protocol.PerspectiveServer {
		cs = ss
	}
	wk, err := wiretap.NewKeys(uint32(v), wiretap.SuiteAES128, cs)
	if err != nil {
		return fail("", "%v", err)
	}
	initial := newInitialCryptoStream(sender == protocol.PerspectiveClient)
	initial.DisableScrambling()
	rq := newRetransmissionQueue()
	pp := newPacketPacker(protocol.ParseConnectionID(c05uBytes(rng, rng.IntN(21))), func() protocol.ConnectionID { return destCID },
		initial, newCryptoStream(), pnm, rq, &c05uCS{initS: sealer}, framer, acks,
		newDatagramQueue(func() {}, utils.DefaultLogger), sender)
	if sender == protocol.PerspectiveClient && rng.IntN(2) == 0 {
		pp.SetToken(c05uBytes(rng, 1+rng.IntN(50)))
	}
	kind := rng.IntN(3)
	onlyAck := false
	var marker []byte
	switch kind {
	case 0: // small: ACK only
		onlyAck = true
		acks.ack[protocol.EncryptionInitial] = &wire.AckFrame{AckRanges: []wire.AckRange{{Smallest: 0, Largest: protocol.PacketNumber(rng.IntN(60))}}}
		marker = []byte{0x02}
	case 1:
		rq.addInitial(&wire.PingFrame{})
		marker = []byte{0x01}
	default:
		marker = c05uBytes(rng, 1+rng.IntN(900))
		if _, err := initial.Write(marker); err != nil {
			return fail("", "initial.Write: %v", err)
		}
	}
	cp, err := pp.PackCoalescedPacket(onlyAck, 1252, now, v)
	if err != nil || cp == nil || len(cp.longHdrPackets) != 1 {
		return fail("", "PackCoalescedPacket: %v %v", cp, err)
	}
	dgram := append([]byte(nil), cp.buffer.Data...)
	res.trace["datagram"] = fmt.Sprintf("%x", dgram)
	res.fp = fmt.Sprintf("initial/%s/%s/pl%d/k%d/cid%d/odcid%d", c05uVer(v), sender, pnLen, kind, min(len(dcid), 9), min(len(odcid), 9))
	pkts, _, err := wiretap.SplitDatagram(dgram, nil)
	if err != nil || len(pkts) != 1 || pkts[0].Kind != wiretap.KindInitial {
		return fail("C05|packer|initial|reference-cannot-parse-datagram", "%v (%d packets) datagram %x", err, len(pkts), dgram)
	}
	rp := pkts[0]
	hdr, gpn, gl, payload, err := wk.Unprotect(rp.Data, rp.PNOffset, largest)
	switch {
	case err != nil:
		return fail("C05|packer|initial|reference-rejects-packed-packet", "packet %x (pn offset %d) does not open under the reference: %v", rp.Data, rp.PNOffset, err)
	case int64(gpn) != pn || gl != pnLen || rp.Version != uint32(v) || !bytes.Equal(rp.DCID, dcid):
		return fail("C05|packer|initial|header-fields-differ", "packed with pn=%d len=%d dcid=%x version %s; on the wire: pn=%d len=%d header %x", pn, pnLen, dcid, v, gpn, gl, hdr)
	case !bytes.Contains(payload, marker):
		return fail("C05|packer|initial|payload-differs", "payload %x does not contain the frame data %x", payload, marker)
	}
	// the real unpacker at the other end; its Initial opener starts with largest received 0
	if largest > 0 {
		// bring the opener's packet number expansion to "largest": open a reference packet with a 4-byte pn
		// (reachable from 0 only below 2^31; otherwise skip the unpacker part of this case)
		if largest >= 1<<31 {
			return res
		}
		ph := append(append([]byte(nil), hdr[:rp.PNOffset]...), byte(largest>>24), byte(largest>>16), byte(largest>>8), byte(largest))
		ph[0] = ph[0]&^3 | 3
		// the Length field stays as it is: the priming packet gets the same total length
		plen := len(rp.Data) - rp.PNOffset - 4 - 16
		if plen < 1 {
			return res
		}
		prime := wk.ProtectPacket(ph, 4, uint64(largest), make([]byte, plen))
		h0, d0, _, perr := wire.ParsePacket(prime)
		if perr != nil {
			return fail("C05|unpacker|initial|valid-packet-rejected|priming", "ParsePacket(%x): %v", prime, perr)
		}
		un0 := newPacketUnpacker(&c05uCS{initO: opener}, 0)
		if _, perr = un0.UnpackLongHeader(h0, d0); perr != nil {
			return fail("C05|unpacker|initial|valid-packet-rejected|priming", "reference packet pn=%d (4-byte) %x: %v", largest, prime, perr)
		}
	}
	un := newPacketUnpacker(&c05uCS{initO: opener}, 0)
	unpack := func(w []byte) (*unpackedPacket, error) {
		h, d, _, err := wire.ParsePacket(append([]byte(nil), w...))
		if err != nil {
			return nil, err
		}
		return un.UnpackLongHeader(h, d)
	}
	check := func(what string, w []byte, wantPayload []byte) *c05uResult {
		up, err := unpack(w)
		if err != nil {
			r := fail("C05|unpacker|initial|valid-packet-rejected|"+what, "%s packet %x: %v", what, w, err)
			return &r
		}
		if int64(up.hdr.PacketNumber) != pn || int(up.hdr.PacketNumberLen) != pnLen || up.encryptionLevel != protocol.EncryptionInitial ||
			!bytes.Equal(up.hdr.DestConnectionID.Bytes(), dcid) || up.hdr.Version != v || !bytes.Equal(up.data, wantPayload) {
			r := fail("C05|unpacker|initial|opened-to-different-plaintext|"+what, "%s packet pn=%d len=%d payload=%x unpacked as pn=%d len=%d level=%v payload=%x", what, pn, pnLen, wantPayload, up.hdr.PacketNumber, up.hdr.PacketNumberLen, up.encryptionLevel, up.data)
			return &r
		}
		return nil
	}
	if r := check("packed", rp.Data, payload); r != nil {
		return *r
	}
	other := c05uBytes(rng, len(payload))
	ref := wk.ProtectPacket(hdr, pnLen, uint64(pn), other)
	if r := check("reference", ref, other); r != nil {
		return *r
	}
	what, n := c05uTamper(rng, ref, (rp.PNOffset+4+16)*8, func(mp []byte) (string, bool) {
		up, err := unpack(mp)
		if err != nil {
			return "", false
		}
		return fmt.Sprintf("unpacked without error as pn=%d len=%d payload=%x", up.hdr.PacketNumber, up.hdr.PacketNumberLen, up.data), true
	})
	res.tampers = n
	if what != "" {
		res.trace["reference_packet"] = fmt.Sprintf("%x", ref)
		return fail("C05|unpacker|initial|modified-packet-accepted", "%s (original pn=%d payload=%x)", what, pn, other)
	}
	return res
}

func TestVerifC05Packer(t *testing.T) {
	l := evlog.Open("C05")
	defer l.Close()
	n := l.Pick(4000, 150000)
	const batch = 100
	for bi := 0; bi*batch < n; bi++ {
		if !l.Mine(bi) {
			continue
		}
		id := fmt.Sprintf("C05/packer/%05d", bi)
		c := l.Begin(id, map[string]any{"batch": bi, "n": batch})
		if c == nil {
			continue
		}
		rng := l.Rand(id)
		reported := map[string]bool{}
		for k := 0; k < batch; k++ {
			short := k%2 == 0
			r := c05uOne(rng, short)
			c.Eval(r.fp)
			if short {
				l.Count("packer_short_packets", 1)
			} else {
				l.Count("packer_initial_packets", 1)
			}
			l.Count("unpacker_tampered_packets", r.tampers)
			if r.detail != "" && r.sig == "" {
				l.Count("packer_setup_failures", 1)
				if !reported["setup"] {
					reported["setup"] = true
					c.Inconclusive("case could not be set up: " + r.detail)
				}
			}
			if r.sig != "" && !reported[r.sig] {
				reported[r.sig] = true
				c.Violation(r.sig, r.detail, r.trace)
			}
		}
		c.End()
	}
}
