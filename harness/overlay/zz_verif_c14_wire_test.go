package quic_test

// C14 (b): anti-amplification on the wire.  Handshakes with long certificate chains (the server
// wants to send much more than 3x the client's first flight), with and without Retry, under loss
// of client datagrams; the wire observer evaluates the 3x bound before every server datagram.

import (
	"os"
	"context"
	"fmt"
	"testing"
	"testing/synctest"
	"time"

	tls "github.com/refraction-networking/utls"

	quic "github.com/refraction-networking/uquic"

	"github.com/refraction-networking/uquic/internal/verif/evlog"
	"github.com/refraction-networking/uquic/internal/verif/quicworld"
	"github.com/refraction-networking/uquic/internal/verif/simworld"
	"github.com/refraction-networking/uquic/internal/verif/wiretap"
)

func TestVerifC14Wire(t *testing.T) {
	l := evlog.Open("C14")
	defer l.Close()
	var cases []*quicworld.ConnCase
	idx := 0
	acts := []simworld.Action{{Kind: "drop"}, {Kind: "dup"}, {Kind: "trunc", N: -2}, {Kind: "flip", Pos: -40}}
	for _, cl := range []string{"plain", "unil", "Chrome_115_IPv4", "Firefox_116A", "Chrome_146_IPv4"} {
		for _, chain := range []int{0, 16} {
			for _, retry := range []bool{false, true} {
				mk := func(name string, fs []simworld.Fault) {
					cc := &quicworld.ConnCase{Name: fmt.Sprintf("%s/%s/chain%d/retry=%v", name, cl, chain, retry), Client: cl, Retry: retry, CertChain: chain,
						Schedule: simworld.Schedule{Faults: fs}, Transfer: quicworld.Scenario("S1", uint64(idx)), ConnIdx: idx, RTTms: 10}
					idx++
					cases = append(cases, cc)
				}
				mk("clean", nil)
				n := l.Pick(5, 10)
				for o := 0; o < n; o++ {
					for ai, a := range acts {
						mk(fmt.Sprintf("k1/c2s-o%d-f%d", o, ai), []simworld.Fault{{Dir: wiretap.C2S, Ordinal: o, Action: a}})
					}
				}
				if l.Thorough() {
					for o := 0; o < 8; o++ {
						for o2 := o + 1; o2 < 8; o2++ {
							mk(fmt.Sprintf("k2/c2s-o%d-o%d", o, o2), []simworld.Fault{{Dir: wiretap.C2S, Ordinal: o, Action: acts[0]}, {Dir: wiretap.C2S, Ordinal: o2, Action: acts[0]}})
						}
					}
				}
			}
		}
	}
	// blackouts: the client's first flight arrives, everything it sends afterwards is lost for a while, so
	// the server runs into PTOs while the address is unvalidated (probe packets are subject to the limit
	// too).  Chain lengths vary the size of the server's flight, hence which probe of a PTO pair crosses 3x.
	for _, cl := range []string{"plain", "unil", "Chrome_115_IPv4", "Firefox_116A", "Chrome_146_IPv4"} {
		for _, chain := range []int{0, 1, 2, 3, 4, 5, 6, 8, 10, 12, 14, 16} {
			for _, from := range []int{1, 2, 3} {
				for _, n := range []int{5, 9} {
					if !l.Thorough() && (chain+from+n)%2 == 1 {
						continue
					}
					var fs []simworld.Fault
					for o := from; o < from+n; o++ {
						fs = append(fs, simworld.Fault{Dir: wiretap.C2S, Ordinal: o, Action: acts[0]})
					}
					cases = append(cases, &quicworld.ConnCase{Name: fmt.Sprintf("blackout/c2s-o%d+%d/%s/chain%d", from, n, cl, chain), Client: cl, CertChain: chain,
						Schedule: simworld.Schedule{Faults: fs}, Transfer: quicworld.Scenario("S1", uint64(idx)), ConnIdx: idx, RTTms: 10})
					idx++
				}
			}
		}
	}
	// seeded schedules of 1..4 faults of any kind on the client's first datagrams (what the server has received
	// decides what it may send), certificate chains of every length, both directions' losses for the rest
	rng := l.Rand("c14wire")
	cls := []string{"plain", "unil", "Chrome_115_IPv4", "Firefox_116A", "Chrome_146_IPv4", "Firefox_116C"}
	for i := 0; i < l.Pick(600, 30000); i++ {
		var fs []simworld.Fault
		for k := 1 + rng.IntN(4); k > 0; k-- {
			a := acts[rng.IntN(len(acts))]
			if rng.IntN(4) == 0 {
				a = simworld.Action{Kind: "delay", Delay: time.Duration(1+rng.IntN(400)) * time.Millisecond}
			}
			d := wiretap.C2S
			if rng.IntN(4) == 0 {
				d = wiretap.S2C
			}
			fs = append(fs, simworld.Fault{Dir: d, Ordinal: rng.IntN(12), Action: a})
		}
		cl, chain, retry := cls[rng.IntN(len(cls))], rng.IntN(17), rng.IntN(5) == 0
		cases = append(cases, &quicworld.ConnCase{Name: fmt.Sprintf("rand/%05d/%s/chain%d/retry=%v", i, cl, chain, retry), Client: cl, Retry: retry, CertChain: chain,
			Schedule: simworld.Schedule{Faults: fs}, Transfer: quicworld.Scenario("S1", uint64(idx)), ConnIdx: idx, RTTms: []int{10, 10, 40, 200}[rng.IntN(4)]})
		idx++
	}
	quicworld.RunSuite(t, l, cases, func(c *evlog.Case, cc *quicworld.ConnCase, r *quicworld.CaseResult) {
		var checks, crossing int64
		if os.Getenv("VERIF_TRACE") != "" {
			fmt.Printf("TRACE dial=%v accept=%v\n", r.DialErr, r.AcceptErr)
		}
		for _, tp := range r.Taps {
			checks += tp.Counts["c14_amplification_checks"]
			crossing += tp.Counts["c14_datagrams_crossing_limit"]
			for _, a := range tp.Anomalies {
				if a.Prop == "C14" {
					c.Violation(a.Sig, a.Detail, map[string]any{"wire": tp.Describe(30), "router": r.RouterLog})
				}
			}
		}
		fp := ""
		if checks > 0 {
			fp = cc.Name
		}
		c.Eval(fp)
		l.Count("amplification_checks_on_wire", checks)
		l.Count("server_datagrams_reaching_the_limit", crossing)
		if crossing > 0 {
			c.Sample("limit-reached", map[string]any{"case": cc.Name, "checks": checks, "datagrams_crossing_limit": crossing})
		}
	})
}

// ---- 0-RTT arrivals before the ClientHello is complete ---------------------------------------
//
// A resuming client sends 0-RTT packets right behind its Initial packets.  When the second half of the
// ClientHello is late, the server cannot decrypt the 0-RTT packets yet, buffers them, and processes them
// again once the keys exist.  Those datagrams were received once: they count once towards three times the
// bytes received.  The client then stays silent (everything it sends later is lost), the certificate
// chain is long: the server runs into the limit, and the observer checks it before every datagram.

type c14EarlyCase struct {
	Name    string `json:"name"`
	Client  string `json:"client"`
	Chain   int    `json:"chain"`
	DelayMs int    `json:"delay_ms"` // of the client's second Initial datagram
	Payload int    `json:"payload"`  // bytes written as 0-RTT data
}

func TestVerifC14WireEarlyData(t *testing.T) {
	l := evlog.Open("C14")
	defer l.Close()
	var cases []c14EarlyCase
	for _, cl := range []string{"plain", "unil"} {
		for _, chain := range []int{2, 6, 10, 13} {
			for _, delay := range []int{0, 12, 30, 80} {
				for _, pl := range []int{1000, 5000, 12000, 30000} {
					if !l.Thorough() && (chain/2+delay+pl/1000)%2 == 1 {
						continue
					}
					cases = append(cases, c14EarlyCase{Name: fmt.Sprintf("early/%s/chain%d/delay%d/payload%d", cl, chain, delay, pl), Client: cl, Chain: chain, DelayMs: delay, Payload: pl})
				}
			}
		}
	}
	for i, cs := range cases {
		if !l.Mine(i) {
			continue
		}
		c := l.Begin("C14/"+cs.Name, cs)
		if c == nil {
			continue
		}
		synctest.Test(t, func(t *testing.T) { runC14Early(l, c, &cs) })
		c.End()
	}
}

func runC14Early(l *evlog.Log, c *evlog.Case, cs *c14EarlyCase) {
	cache := tls.NewLRUClientSessionCache(4)
	opt := quicworld.Options{RTT: 10 * time.Millisecond, Early: true, CertIntermediates: cs.Chain,
		ClientTLS:  func(c *tls.Config) { c.ClientSessionCache = cache },
		// long handshake time-outs: the server's PTO probes (two full-size datagrams each, with back-off) go on
		// until the limit stops them
		ServerConf: &quic.Config{Allow0RTT: true, MaxIdleTimeout: 20 * time.Second, HandshakeIdleTimeout: 300 * time.Second},
		ClientConf: &quic.Config{MaxIdleTimeout: 20 * time.Second, HandshakeIdleTimeout: 300 * time.Second}}
	if cs.Client == "unil" {
		opt.ClientKind = "unil"
	}
	w, err := quicworld.New(opt)
	if err != nil {
		c.Violation("C14|harness|world", err.Error(), nil)
		return
	}
	defer func() {
		w.Close()
		time.Sleep(700 * time.Second)
	}()
	bg := context.Background()
	// priming connection: session ticket
	{
		ctx, cancel := context.WithTimeout(bg, 20*time.Second)
		done := make(chan *quic.Conn, 1)
		go func() {
			sc, _ := w.Accept(ctx)
			done <- sc
		}()
		cc, err := w.Dial(ctx)
		sc := <-done
		if err != nil || sc == nil {
			cancel()
			c.Violation("C14|harness|priming-failed", fmt.Sprint(err), nil)
			return
		}
		select {
		case <-cc.HandshakeComplete():
		case <-time.After(2 * time.Second):
		}
		time.Sleep(300 * time.Millisecond)
		cc.CloseWithError(0, "")
		sc.CloseWithError(0, "")
		cancel()
		time.Sleep(time.Second)
	}
	w.Wire.ResetOrdinals()
	// the measured dial: the second client datagram is late, and nothing the client sends after its first
	// burst (Initial datagrams and 0-RTT data, all emitted at once) arrives
	t0 := w.Router.Now()
	w.Router.SetOnEmit(func(d *wiretap.DatagramInfo) *simworld.Action {
		if d.Dir != wiretap.C2S {
			return nil
		}
		switch {
		case w.Router.Now()-t0 > time.Millisecond:
			return &simworld.Action{Kind: "drop"}
		case d.Ordinal == 1 && cs.DelayMs > 0:
			return &simworld.Action{Kind: "delay", Delay: time.Duration(cs.DelayMs) * time.Millisecond}
		}
		return nil
	})
	ctx, cancel := context.WithTimeout(bg, 400*time.Second)
	defer cancel()
	accCh := make(chan *quic.Conn, 1)
	go func() {
		sc, _ := w.Accept(ctx)
		accCh <- sc
	}()
	cc, err := w.DialEarly(ctx)
	if err == nil {
		if s, err := cc.OpenStreamSync(ctx); err == nil {
			s.Write(make([]byte, cs.Payload))
		}
	}
	// let the server run into its limit
	time.Sleep(250 * time.Second)
	if cc != nil {
		cc.CloseWithError(0, "")
	}
	cancel()
	if sc := <-accCh; sc != nil {
		sc.CloseWithError(0, "")
	}
	var checks, crossing, zero int64
	for _, tp := range w.Wire.Snapshot() {
		checks += tp.Counts["c14_amplification_checks"]
		crossing += tp.Counts["c14_datagrams_crossing_limit"]
		zero += tp.Counts["pkt_c->s_0-RTT"]
		for _, a := range tp.Anomalies {
			if a.Prop == "C14" {
				c.Violation(a.Sig+"|early-data", a.Detail, map[string]any{"case": cs, "wire": tp.Describe(40)})
			}
		}
	}
	fp := ""
	if checks > 0 && zero > 0 {
		fp = cs.Name
	}
	c.Eval(fp)
	l.Count("early_amplification_checks_on_wire", checks)
	l.Count("early_server_datagrams_reaching_the_limit", crossing)
	l.Count("early_client_0rtt_packets", zero)
}
