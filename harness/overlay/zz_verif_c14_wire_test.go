package quic_test

// C14 (b): anti-amplification on the wire.  Handshakes with long certificate chains (the server
// wants to send much more than 3x the client's first flight), with and without Retry, under loss
// of client datagrams; the wire observer evaluates the 3x bound before every server datagram.

import (
	"fmt"
	"testing"

	"github.com/refraction-networking/uquic/internal/verif/evlog"
	"github.com/refraction-networking/uquic/internal/verif/quicworld"
	"github.com/refraction-networking/uquic/internal/verif/simworld"
	"github.com/refraction-networking/uquic/internal/verif/wiretap"
)

func TestVerifC14Wire(t *testing.T) {
	l := evlog.Open("C14")
	defer l.Close()
	var cases []*quicworld.ConnCase
	idx := 0
	acts := []simworld.Action{{Kind: "drop"}, {Kind: "dup"}, {Kind: "trunc", N: -2}, {Kind: "flip", Pos: -40}}
	for _, cl := range []string{"plain", "unil", "Chrome_115_IPv4", "Firefox_116A", "Chrome_146_IPv4"} {
		for _, chain := range []int{0, 16} {
			for _, retry := range []bool{false, true} {
				mk := func(name string, fs []simworld.Fault) {
					cc := &quicworld.ConnCase{Name: fmt.Sprintf("%s/%s/chain%d/retry=%v", name, cl, chain, retry), Client: cl, Retry: retry, CertChain: chain,
						Schedule: simworld.Schedule{Faults: fs}, Transfer: quicworld.Scenario("S1", uint64(idx)), ConnIdx: idx, RTTms: 10}
					idx++
					cases = append(cases, cc)
				}
				mk("clean", nil)
				n := l.Pick(5, 10)
				for o := 0; o < n; o++ {
					for ai, a := range acts {
						mk(fmt.Sprintf("k1/c2s-o%d-f%d", o, ai), []simworld.Fault{{Dir: wiretap.C2S, Ordinal: o, Action: a}})
					}
				}
				if l.Thorough() {
					for o := 0; o < 8; o++ {
						for o2 := o + 1; o2 < 8; o2++ {
							mk(fmt.Sprintf("k2/c2s-o%d-o%d", o, o2), []simworld.Fault{{Dir: wiretap.C2S, Ordinal: o, Action: acts[0]}, {Dir: wiretap.C2S, Ordinal: o2, Action: acts[0]}})
						}
					}
				}
			}
		}
	}
	// blackouts: the client's first flight arrives, everything it sends afterwards is lost for a while, so
	// the server runs into PTOs while the address is unvalidated (probe packets are subject to the limit
	// too).  Chain lengths vary the size of the server's flight, hence which probe of a PTO pair crosses 3x.
	for _, cl := range []string{"plain", "unil", "Chrome_115_IPv4", "Firefox_116A", "Chrome_146_IPv4"} {
		for _, chain := range []int{0, 1, 2, 3, 4, 5, 6, 8, 10, 12, 14, 16} {
			for _, from := range []int{1, 2, 3} {
				for _, n := range []int{5, 9} {
					if !l.Thorough() && (chain+from+n)%2 == 1 {
						continue
					}
					var fs []simworld.Fault
					for o := from; o < from+n; o++ {
						fs = append(fs, simworld.Fault{Dir: wiretap.C2S, Ordinal: o, Action: acts[0]})
					}
					cases = append(cases, &quicworld.ConnCase{Name: fmt.Sprintf("blackout/c2s-o%d+%d/%s/chain%d", from, n, cl, chain), Client: cl, CertChain: chain,
						Schedule: simworld.Schedule{Faults: fs}, Transfer: quicworld.Scenario("S1", uint64(idx)), ConnIdx: idx, RTTms: 10})
					idx++
				}
			}
		}
	}
	quicworld.RunSuite(t, l, cases, func(c *evlog.Case, cc *quicworld.ConnCase, r *quicworld.CaseResult) {
		var checks, crossing int64
		for _, tp := range r.Taps {
			checks += tp.Counts["c14_amplification_checks"]
			crossing += tp.Counts["c14_datagrams_crossing_limit"]
			for _, a := range tp.Anomalies {
				if a.Prop == "C14" {
					c.Violation(a.Sig, a.Detail, map[string]any{"wire": tp.Describe(30), "router": r.RouterLog})
				}
			}
		}
		fp := ""
		if checks > 0 {
			fp = cc.Name
		}
		c.Eval(fp)
		l.Count("amplification_checks_on_wire", checks)
		l.Count("server_datagrams_reaching_the_limit", crossing)
		if crossing > 0 {
			c.Sample("limit-reached", map[string]any{"case": cc.Name, "checks": checks, "datagrams_crossing_limit": crossing})
		}
	})
}
