package quic

// C03 — stream and CRYPTO reassembly delivers exactly the sent byte sequence.
//
// Runtime monitor: the real frameSorter / ReceiveStream (+ real stream flow controller) /
// cryptoStream are driven with enumerated and generated segment histories next to a byte-array
// reference model.  Every buffer handed in is a distinct allocation whose recycle callback
// poisons it (or, for pool frames, the H1 pool sanitizer does), so recycling a buffer whose
// bytes are still to be delivered shows up as a byte mismatch, and recycling twice as a count.

import (
	"errors"
	"fmt"
	"io"
	"testing"
	"time"

	"github.com/refraction-networking/uquic/internal/flowcontrol"
	"github.com/refraction-networking/uquic/internal/monotime"
	"github.com/refraction-networking/uquic/internal/protocol"
	"github.com/refraction-networking/uquic/internal/qerr"
	"github.com/refraction-networking/uquic/internal/utils"
	"github.com/refraction-networking/uquic/internal/verif/evlog"
	"github.com/refraction-networking/uquic/internal/verifhook"
	"github.com/refraction-networking/uquic/internal/wire"
)

type c03Seg struct {
	Off, Len int
	Fin      bool
}

func c03Base(n int, salt uint64) []byte {
	b := make([]byte, n)
	x := salt*0x9E3779B97F4A7C15 + 0x1234567
	for i := range b {
		x ^= x << 13
		x ^= x >> 7
		x ^= x << 17
		v := byte(x >> 32)
		if v == verifhookPoison {
			v ^= 0x55 // the reference string never contains the poison value, so poison is unambiguous
		}
		b[i] = v
	}
	return b
}

const verifhookPoison = 0xDB

// ---------------------------------------------------------------------------------------
// frameSorter

type c03Buf struct {
	id     int
	data   []byte
	calls  int
	popped bool // handed to the reader by Pop; the reader invokes the callback after consuming
}

type c03SorterRun struct {
	base   []byte
	s      *frameSorter
	have   []bool
	rdPos  int
	bufs   []*c03Buf
	err    string // first oracle failure
	sig    string
	gapErr bool
}

func (r *c03SorterRun) fail(sig, f string, a ...any) {
	if r.err == "" {
		r.sig = sig
		r.err = fmt.Sprintf(f, a...)
	}
}

func (r *c03SorterRun) modelGaps() int {
	// number of maximal missing intervals at or after rdPos, counting the infinite tail
	g := 0
	in := false
	for i := r.rdPos; i < len(r.have); i++ {
		if !r.have[i] {
			if !in {
				g++
				in = true
			}
		} else {
			in = false
		}
	}
	if !in {
		g++ // the tail [len, inf)
	}
	return g
}

func (r *c03SorterRun) push(off, n int) {
	b := &c03Buf{id: len(r.bufs), data: append([]byte(nil), r.base[off:off+n]...)}
	r.bufs = append(r.bufs, b)
	cb := func() {
		b.calls++
		if b.calls > 1 {
			r.fail("C03|sorter|double-recycle", "buffer %d (off %d len %d) recycled %d times", b.id, off, n, b.calls)
		}
		for i := range b.data {
			b.data[i] = verifhookPoison
		}
	}
	err := r.s.Push(b.data, protocol.ByteCount(off), cb)
	for i := off; i < off+n; i++ {
		if i >= r.rdPos {
			r.have[i] = true
		}
	}
	want := r.modelGaps() > protocol.MaxStreamFrameSorterGaps
	if err != nil {
		r.gapErr = true
		if !want {
			r.fail("C03|sorter|spurious-error", "Push(off=%d,len=%d) returned %v with %d gaps", off, n, err, r.modelGaps())
		}
	} else if want {
		r.fail("C03|sorter|gap-limit-not-enforced", "Push(off=%d,len=%d) accepted with %d gaps (limit %d)", off, n, r.modelGaps(), protocol.MaxStreamFrameSorterGaps)
	}
}

// pop pops one entry and checks it; returns false if nothing was available.
func (r *c03SorterRun) pop() bool {
	off, data, cb := r.s.Pop()
	if int(off) != r.rdPos {
		r.fail("C03|sorter|pop-offset", "Pop offset %d, reference read position %d", off, r.rdPos)
		return false
	}
	avail := 0
	for i := r.rdPos; i < len(r.have) && r.have[i]; i++ {
		avail++
	}
	if data == nil {
		if avail > 0 {
			r.fail("C03|sorter|stall", "Pop returned nothing at %d although %d contiguous bytes were pushed", r.rdPos, avail)
		}
		return false
	}
	if len(data) > avail {
		r.fail("C03|sorter|overrun", "Pop returned %d bytes at %d, only %d contiguous bytes were pushed", len(data), r.rdPos, avail)
		return false
	}
	for i, v := range data {
		if v != r.base[r.rdPos+i] {
			what := "wrong-byte"
			if v == verifhookPoison {
				what = "use-after-recycle"
			}
			r.fail("C03|sorter|"+what, "Pop at %d: byte %d is %#x, want %#x", r.rdPos, i, v, r.base[r.rdPos+i])
			break
		}
	}
	r.rdPos += len(data)
	if cb != nil {
		cb() // the reader is done with the data
	}
	return true
}

func (r *c03SorterRun) peekCheck(n int) {
	avail := 0
	for i := r.rdPos; i < len(r.have) && r.have[i]; i++ {
		avail++
	}
	p := make([]byte, n)
	err := r.s.Peek(protocol.ByteCount(r.rdPos), p)
	if n <= avail {
		if err != nil {
			r.fail("C03|sorter|peek-spurious-error", "Peek(%d,%d): %v with %d available", r.rdPos, n, err, avail)
			return
		}
		for i := range p {
			if p[i] != r.base[r.rdPos+i] {
				r.fail("C03|sorter|peek-wrong-byte", "Peek(%d,%d): byte %d is %#x want %#x", r.rdPos, n, i, p[i], r.base[r.rdPos+i])
				return
			}
		}
	} else if err == nil {
		r.fail("C03|sorter|peek-overrun", "Peek(%d,%d) succeeded with only %d available", r.rdPos, n, avail)
	}
}

func newC03SorterRun(base []byte) *c03SorterRun {
	return &c03SorterRun{base: base, s: newFrameSorter(), have: make([]bool, len(base))}
}

func (r *c03SorterRun) finish() {
	// drain what is available, then: every buffer recycled at most once (checked online)
	for r.pop() {
	}
}

func TestVerifC03Sorter(t *testing.T) {
	l := evlog.Open("C03")
	defer l.Close()

	// ---- exhaustive over a 4-cell lattice
	cellSets := [][4]int{{1, 1, 1, 1}, {2, 3, 1, 2}, {127, 128, 129, 1}, {128, 1, 127, 129}, {129, 127, 1, 128}, {1, 129, 128, 127},
		{128, 128, 128, 128}, {127, 127, 127, 127}, {129, 129, 129, 129}, {1, 128, 1, 128}, {200, 100, 300, 50}, {127, 1, 129, 128}}
	maxLen := l.Pick(4, 5)
	type cellSeg struct{ a, b int }
	var segs []cellSeg
	for a := 0; a < 4; a++ {
		for b := a; b < 4; b++ {
			segs = append(segs, cellSeg{a, b})
		}
	}
	idx := 0
	for ci, cells := range cellSets {
		for n := 1; n <= maxLen; n++ {
			if !l.Mine(idx) {
				idx++
				continue
			}
			idx++
			id := fmt.Sprintf("C03/sorter/exh/cells%d/len%d", ci, n)
			c := l.Begin(id, map[string]any{"cells": cells, "len": n})
			if c == nil {
				continue
			}
			var offs [5]int
			for i := 0; i < 4; i++ {
				offs[i+1] = offs[i] + cells[i]
			}
			base := c03Base(offs[4], uint64(ci))
			total := 1
			for i := 0; i < n; i++ {
				total *= len(segs)
			}
			seq := make([]int, n)
			for k := 0; k < total; k++ {
				x := k
				for i := 0; i < n; i++ {
					seq[i] = x % len(segs)
					x /= len(segs)
				}
				// pop masks: pop everything available after step i iff bit i set; also a peek variant
				for mask := 0; mask < 1<<n; mask++ {
					r := newC03SorterRun(base)
					for i := 0; i < n; i++ {
						sg := segs[seq[i]]
						r.push(offs[sg.a], offs[sg.b+1]-offs[sg.a])
						if mask&(1<<i) != 0 {
							if i&1 == 1 {
								r.peekCheck(1)
								r.peekCheck(offs[4] - r.rdPos)
							}
							for r.pop() {
							}
						}
					}
					r.finish()
					fp := ""
					if n > 1 {
						fp = fmt.Sprintf("exh/%d/%v/%d", ci, seq, mask)
					}
					c.Eval(fp)
					if r.err != "" {
						c.Violation(r.sig, r.err, map[string]any{"cells": cells, "segments": seq, "popmask": mask})
					}
				}
			}
			if n == maxLen {
				c.Sample("sorter-exhaustive", map[string]any{"cells": cells, "segments_per_sequence": n, "sequences": total, "pop_masks": 1 << n})
			}
			c.End()
		}
	}

	// ---- random long histories
	nRand := l.Pick(6000, 400000)
	const batch = 250
	for bi := 0; bi*batch < nRand; bi++ {
		if !l.Mine(bi) {
			continue
		}
		id := fmt.Sprintf("C03/sorter/rand/%06d", bi)
		c := l.Begin(id, map[string]any{"batch": bi, "n": batch})
		if c == nil {
			continue
		}
		rng := l.Rand(id)
		for k := 0; k < batch; k++ {
			size := 1 + rng.IntN(4000)
			mode := rng.IntN(5)
			if mode == 4 {
				size = 2100 + rng.IntN(300) // enough room for > 1000 gaps
			}
			base := c03Base(size, rng.Uint64())
			r := newC03SorterRun(base)
			nseg := 1 + rng.IntN(60)
			if mode == 4 {
				nseg = 900 + rng.IntN(300)
			}
			var hist []c03Seg
			maxGaps := 0
			for i := 0; i < nseg && r.err == "" && !r.gapErr; i++ {
				var off, n int
				switch mode {
				case 0: // arbitrary
					off = rng.IntN(size)
					n = 1 + rng.IntN(min(size-off, 300))
				case 1: // around the copy threshold
					off = rng.IntN(size)
					n = min(size-off, 120+rng.IntN(20))
				case 2: // mostly in order with retransmissions
					off = min(size-1, r.rdPos+rng.IntN(200))
					if rng.IntN(4) == 0 {
						off = rng.IntN(size)
					}
					n = 1 + rng.IntN(min(size-off, 500))
				case 3: // tiny
					off = rng.IntN(size)
					n = 1 + rng.IntN(min(size-off, 3))
				case 4: // gap builder: single bytes at even offsets
					off = 2 * i
					n = 1
					if off >= size {
						off = rng.IntN(size)
					}
				}
				hist = append(hist, c03Seg{Off: off, Len: n})
				r.push(off, n)
				if g := r.modelGaps(); g > maxGaps {
					maxGaps = g
				}
				if mode != 4 && rng.IntN(3) == 0 {
					if rng.IntN(2) == 0 {
						r.peekCheck(1 + rng.IntN(64))
					}
					for j := rng.IntN(4); j >= 0 && r.pop(); j-- {
					}
				}
			}
			if !r.gapErr {
				r.finish()
			}
			recycled := 0
			for _, b := range r.bufs {
				recycled += b.calls
			}
			c.Eval(fmt.Sprintf("rand/m%d/n%d/g%d/e%v/r%d", mode, len(hist)/8, min(maxGaps, 1002)/50, r.gapErr, recycled*8/max(1, len(r.bufs))))
			l.Count("sorter_segments", int64(len(hist)))
			l.Count("sorter_recycle_callbacks", int64(recycled))
			if r.gapErr {
				l.Count("sorter_gap_limit_errors", 1)
			}
			if r.err != "" {
				c.Violation(r.sig, r.err, map[string]any{"size": size, "mode": mode, "history": hist})
			}
		}
		c.End()
	}
}

// ---------------------------------------------------------------------------------------
// ReceiveStream with the real stream flow controller, pool frames and the H1 sanitizer

type c03NullSender struct{ completed int }

func (s *c03NullSender) onHasConnectionData()                                                {}
func (s *c03NullSender) onHasStreamData(protocol.StreamID, *SendStream)                      {}
func (s *c03NullSender) onHasStreamControlFrame(protocol.StreamID, streamControlFrameGetter) {}
func (s *c03NullSender) onStreamCompleted(protocol.StreamID)                                 { s.completed++ }

type c03Op struct {
	Kind string // "frame" "read" "peek" "reset" "cancel"
	Off  int
	Len  int
	Fin  bool
	Rel  int // reliable size for resets
}

type c03StreamModel struct {
	base    []byte
	have    []bool
	rdPos   int
	final   int // -1 unknown
	highest int
	window  int
	reset   bool
	relSize int
	cancel  bool
	eofSeen bool
	errSeen bool
}

func c03ErrCode(err error) (qerr.TransportErrorCode, bool) {
	var te *qerr.TransportError
	if errors.As(err, &te) {
		return te.ErrorCode, true
	}
	return 0, false
}

// runC03Stream drives one history; returns (violation signature, detail, fingerprint).
func runC03Stream(base []byte, window int, ops []c03Op) (sig, detail, fp string) {
	sender := &c03NullSender{}
	rtt := &utils.RTTStats{}
	cfc := flowcontrol.NewConnectionFlowController(protocol.ByteCount(1<<30), protocol.ByteCount(1<<30), func(protocol.ByteCount) bool { return true }, rtt, utils.DefaultLogger)
	sfc := flowcontrol.NewStreamFlowController(4, cfc, protocol.ByteCount(window), protocol.ByteCount(window), 1<<20, rtt, utils.DefaultLogger)
	str := newReceiveStream(4, sender, sfc)
	// a deadline in the past makes Read/Peek non-blocking: (n, errDeadline) when no data is available
	str.SetReadDeadline(time.Now().Add(-time.Hour))
	m := &c03StreamModel{base: base, have: make([]bool, len(base)+1), final: -1, window: window}
	now := monotime.Now()
	fail := func(s, f string, a ...any) (string, string, string) {
		return s, fmt.Sprintf(f, a...), ""
	}
	var kinds [6]int
	for oi, op := range ops {
		switch op.Kind {
		case "frame":
			kinds[0]++
			f := wire.GetStreamFrame()
			f.StreamID = 4
			f.Offset = protocol.ByteCount(op.Off)
			f.Data = f.Data[:op.Len]
			copy(f.Data, base[op.Off:op.Off+op.Len])
			f.Fin = op.Fin
			end := op.Off + op.Len
			// reference verdict
			var want []qerr.TransportErrorCode
			if m.final >= 0 {
				if (op.Fin && end != m.final) || end > m.final {
					want = append(want, qerr.FinalSizeError)
				}
			} else if op.Fin && end < m.highest {
				want = append(want, qerr.FinalSizeError)
			}
			if end > m.window {
				want = append(want, qerr.FlowControlError)
			}
			err := str.handleStreamFrame(f, now)
			if len(want) == 0 {
				if err != nil {
					return fail("C03|stream|admissible-frame-rejected", "op %d %+v: %v", oi, op, err)
				}
			} else {
				code, ok := c03ErrCode(err)
				if err == nil {
					return fail(fmt.Sprintf("C03|stream|contradicting-frame-accepted|want=%v", want[0]), "op %d %+v accepted; final=%d highest=%d window=%d", oi, op, m.final, m.highest, m.window)
				}
				match := false
				for _, w := range want {
					if ok && w == code {
						match = true
					}
				}
				if !match {
					return fail("C03|stream|wrong-error-code", "op %d %+v: got %v, want one of %v", oi, op, err, want)
				}
				kinds[5]++
				return "", "", fmt.Sprintf("err%v/%v", want, kinds)
			}
			if end > m.highest {
				m.highest = end
			}
			if op.Fin {
				m.final = end
			}
			if !m.cancel {
				for i := op.Off; i < end; i++ {
					if i >= m.rdPos {
						m.have[i] = true
					}
				}
			}
		case "reset":
			kinds[1]++
			var want []qerr.TransportErrorCode
			if m.final >= 0 && op.Off != m.final {
				want = append(want, qerr.FinalSizeError)
			} else if m.final < 0 && op.Off < m.highest {
				want = append(want, qerr.FinalSizeError)
			}
			if op.Off > m.window {
				want = append(want, qerr.FlowControlError)
			}
			err := str.handleResetStreamFrame(&wire.ResetStreamFrame{StreamID: 4, ErrorCode: 7, FinalSize: protocol.ByteCount(op.Off), ReliableSize: protocol.ByteCount(op.Rel)}, now)
			if len(want) == 0 {
				if err != nil {
					return fail("C03|stream|admissible-reset-rejected", "op %d %+v: %v", oi, op, err)
				}
			} else {
				code, ok := c03ErrCode(err)
				if err == nil {
					return fail(fmt.Sprintf("C03|stream|contradicting-reset-accepted|want=%v", want[0]), "op %d %+v accepted; final=%d highest=%d", oi, op, m.final, m.highest)
				}
				match := false
				for _, w := range want {
					if ok && w == code {
						match = true
					}
				}
				if !match {
					return fail("C03|stream|wrong-error-code", "op %d %+v: got %v, want one of %v", oi, op, err, want)
				}
				kinds[5]++
				return "", "", fmt.Sprintf("rerr%v/%v", want, kinds)
			}
			m.final = op.Off
			if op.Off > m.highest {
				m.highest = op.Off
			}
			if !m.reset || op.Rel < m.relSize {
				m.relSize = op.Rel
			}
			if !m.cancel {
				m.reset = true
			}
		case "cancel":
			kinds[2]++
			str.CancelRead(9)
			if !m.eofSeen && !m.errSeen {
				m.cancel = true
			}
		case "read", "peek":
			p := make([]byte, op.Len)
			avail := 0
			for i := m.rdPos; i < len(m.base) && i < len(m.have) && m.have[i]; i++ {
				avail++
			}
			if m.final >= 0 && m.rdPos+avail > m.final {
				avail = m.final - m.rdPos
			}
			done := m.cancel || m.eofSeen || m.errSeen || (m.final >= 0 && m.rdPos >= m.final) || (m.reset && m.rdPos >= m.relSize)
			var n int
			var err error
			if op.Kind == "peek" {
				// Peek is all-or-nothing: only call it where the reference model says it cannot block
				if !(done || avail >= op.Len || (m.final >= 0 && m.rdPos+avail >= m.final)) || (m.reset && !done) {
					continue
				}
				kinds[4]++
				str.SetReadDeadline(time.Now().Add(10 * time.Second))
				n, err = str.Peek(p)
			} else {
				kinds[3]++
				if done || avail > 0 {
					str.SetReadDeadline(time.Now().Add(10 * time.Second))
				} else {
					// nothing to deliver: a deadline in the past makes Read return instead of blocking
					str.SetReadDeadline(time.Now().Add(-time.Hour))
				}
				n, err = str.Read(p)
			}
			if n > avail {
				return fail("C03|stream|read-overrun", "op %d %s(%d) returned %d bytes at %d, only %d contiguous bytes received (final %d)", oi, op.Kind, op.Len, n, m.rdPos, avail, m.final)
			}
			for i := 0; i < n; i++ {
				if p[i] != base[m.rdPos+i] {
					what := "wrong-byte"
					if p[i] == verifhookPoison {
						what = "use-after-recycle"
					}
					return fail("C03|stream|"+what, "op %d %s at %d: byte %d is %#x want %#x", oi, op.Kind, m.rdPos, i, p[i], base[m.rdPos+i])
				}
			}
			if op.Kind == "peek" {
				if err == io.EOF && !(m.final >= 0 && m.rdPos+n == m.final) {
					return fail("C03|stream|early-eof", "op %d Peek: EOF at %d+%d, final size %d", oi, m.rdPos, n, m.final)
				}
				if errors.Is(err, errDeadline) {
					return fail("C03|stream|stall", "op %d Peek(%d) at %d blocked with %d available (final %d)", oi, op.Len, m.rdPos, avail, m.final)
				}
				continue
			}
			m.rdPos += n
			switch {
			case err == io.EOF:
				if m.final < 0 || m.rdPos != m.final {
					return fail("C03|stream|early-eof", "op %d Read: EOF at %d, final size %d (reset=%v cancel=%v)", oi, m.rdPos, m.final, m.reset, m.cancel)
				}
				m.eofSeen = true
			case errors.Is(err, errDeadline):
				if done || avail > 0 {
					return fail("C03|stream|stall", "op %d Read(%d) at %d blocked with %d available (final %d reset=%v cancel=%v)", oi, op.Len, m.rdPos, avail, m.final, m.reset, m.cancel)
				}
			case err == nil:
				if n == 0 {
					return fail("C03|stream|empty-read", "op %d Read(%d) returned (0, nil) at %d", oi, op.Len, m.rdPos)
				}
				// (n>0, nil) at the final size is legal io.Reader behaviour; the next Read is then "done" in the
				// reference model and must return io.EOF instead of blocking (checked as stall / empty-read).
			default:
				var se *StreamError
				if !errors.As(err, &se) {
					return fail("C03|stream|unexpected-read-error", "op %d Read: %v", oi, err)
				}
				if se.Remote {
					if !m.reset {
						return fail("C03|stream|reset-error-without-reset", "op %d Read: %v", oi, err)
					}
					if !m.cancel && m.rdPos < m.relSize {
						return fail("C03|stream|reset-before-reliable-size", "op %d Read: reset error at %d, reliable size %d", oi, m.rdPos, m.relSize)
					}
				} else if !m.cancel {
					return fail("C03|stream|cancel-error-without-cancel", "op %d Read: %v", oi, err)
				}
				m.errSeen = true
			}
		}
		for _, v := range verifhook.TakePoolViolations() {
			return fail("C03|stream|"+v.What, "after op %d %+v: %s", oi, op, v.String())
		}
	}
	return "", "", fmt.Sprintf("k%v/eof%v/err%v/rs%v/c%v", [6]int{min(kinds[0], 9), min(kinds[1], 2), min(kinds[2], 1), min(kinds[3], 9) / 3, min(kinds[4], 3), 0}, m.eofSeen, m.errSeen, m.reset, m.cancel)
}

func TestVerifC03Stream(t *testing.T) {
	if !verifhook.Enabled {
		t.Fatal("built without -tags verif")
	}
	l := evlog.Open("C03")
	defer l.Close()

	// ---- exhaustive: 3 cells, all segments x fin, sequences up to 3 (quick) / 4 (thorough), reads after each step
	cellSets := [][3]int{{1, 1, 1}, {127, 128, 129}, {129, 1, 128}, {128, 127, 1}}
	type sg struct {
		a, b int
		fin  bool
	}
	var segs []sg
	for a := 0; a < 3; a++ {
		for b := a; b < 3; b++ {
			segs = append(segs, sg{a, b, false}, sg{a, b, true})
		}
	}
	// empty FIN frames at each cell boundary: encoded as a > b
	for a := 1; a <= 3; a++ {
		segs = append(segs, sg{a, a - 1, true})
	}
	// plus resets with final size at each cell boundary (reliable size 0 or first cell) and a local cancel
	nAlpha := len(segs) + 4 + 1
	maxLen := l.Pick(3, 4)
	idx := 0
	for ci, cells := range cellSets {
		for readSz := range 3 { // read sizes: 1, first cell, all
			if !l.Mine(idx) {
				idx++
				continue
			}
			idx++
			id := fmt.Sprintf("C03/stream/exh/cells%d/read%d", ci, readSz)
			c := l.Begin(id, map[string]any{"cells": cells, "read_size_class": readSz, "maxlen": maxLen})
			if c == nil {
				continue
			}
			offs := [4]int{0, cells[0], cells[0] + cells[1], cells[0] + cells[1] + cells[2]}
			base := c03Base(offs[3], uint64(ci)+77)
			rs := []int{1, cells[0], offs[3] + 1}[readSz]
			for n := 1; n <= maxLen; n++ {
				total := 1
				for i := 0; i < n; i++ {
					total *= nAlpha
				}
				for k := 0; k < total; k++ {
					x := k
					var ops []c03Op
					for i := 0; i < n; i++ {
						a := x % nAlpha
						x /= nAlpha
						switch {
						case a < len(segs):
							s := segs[a]
							ops = append(ops, c03Op{Kind: "frame", Off: offs[s.a], Len: offs[s.b+1] - offs[s.a], Fin: s.fin})
						case a < len(segs)+4:
							j := a - len(segs)
							ops = append(ops, c03Op{Kind: "reset", Off: offs[1+j%3], Rel: []int{0, offs[1]}[j/3]})
						default:
							ops = append(ops, c03Op{Kind: "cancel"})
						}
						ops = append(ops, c03Op{Kind: "peek", Len: rs}, c03Op{Kind: "read", Len: rs})
					}
					// final drain
					for j := 0; j < 4; j++ {
						ops = append(ops, c03Op{Kind: "read", Len: offs[3] + 1})
					}
					sig, detail, fp := runC03Stream(base, offs[3]+10, ops)
					c.Eval(fp)
					if sig != "" {
						c.Violation(sig, detail, map[string]any{"cells": cells, "ops": ops})
					}
				}
			}
			c.End()
		}
	}

	// ---- random histories on long strings
	nRand := l.Pick(12000, 600000)
	const batch = 200
	for bi := 0; bi*batch < nRand; bi++ {
		if !l.Mine(bi) {
			continue
		}
		id := fmt.Sprintf("C03/stream/rand/%06d", bi)
		c := l.Begin(id, map[string]any{"batch": bi, "n": batch})
		if c == nil {
			continue
		}
		rng := l.Rand(id)
		for k := 0; k < batch; k++ {
			size := 1 + rng.IntN(20000)
			base := c03Base(size+2000, rng.Uint64())
			window := size
			if rng.IntN(4) == 0 {
				window = size - rng.IntN(min(size, 50)) // sometimes the stream does not fit the window
			} else if rng.IntN(2) == 0 {
				window = size + rng.IntN(1000)
			}
			var ops []c03Op
			nops := 1 + rng.IntN(80)
			covered := 0
			violating := rng.IntN(6) == 0
			for i := 0; i < nops; i++ {
				switch x := rng.IntN(20); {
				case x < 11:
					if rng.IntN(40) == 0 {
						ops = append(ops, c03Op{Kind: "frame", Off: size, Len: 0, Fin: true})
						continue
					}
					off := rng.IntN(size)
					if rng.IntN(2) == 0 {
						off = min(size-1, covered)
					}
					n := 1 + rng.IntN(min(size-off, 1452))
					if rng.IntN(3) == 0 {
						n = min(size-off, 120+rng.IntN(20))
					}
					fin := off+n == size && rng.IntN(2) == 0
					if violating && rng.IntN(10) == 0 {
						fin = rng.IntN(2) == 0
						n = min(n+rng.IntN(40), 1452)
					}
					if off+n > covered && off <= covered {
						covered = off + n
					}
					ops = append(ops, c03Op{Kind: "frame", Off: off, Len: n, Fin: fin})
				case x < 17:
					ops = append(ops, c03Op{Kind: "read", Len: 1 + rng.IntN(3000)})
				case x < 18:
					ops = append(ops, c03Op{Kind: "peek", Len: 1 + rng.IntN(300)})
				case x < 19:
					if rng.IntN(4) == 0 {
						fs := size
						if violating && rng.IntN(2) == 0 {
							fs = rng.IntN(size + 100)
						}
						ops = append(ops, c03Op{Kind: "reset", Off: fs, Rel: rng.IntN(fs + 1)})
					}
				default:
					if rng.IntN(6) == 0 {
						ops = append(ops, c03Op{Kind: "cancel"})
					}
				}
			}
			if rng.IntN(2) == 0 {
				// complete the stream and drain
				for off := 0; off < size; {
					n := min(size-off, 1+rng.IntN(1452))
					ops = append(ops, c03Op{Kind: "frame", Off: off, Len: n, Fin: off+n == size})
					off += n
				}
				for j := 0; j < 3+size/3000; j++ {
					ops = append(ops, c03Op{Kind: "read", Len: 1 + rng.IntN(6000)})
				}
				ops = append(ops, c03Op{Kind: "read", Len: size + 1})
			}
			sig, detail, fp := runC03Stream(base, window, ops)
			c.Eval(fp)
			l.Count("stream_ops", int64(len(ops)))
			if sig != "" {
				c.Violation(sig, detail, map[string]any{"size": size, "window": window, "ops": ops})
			}
		}
		c.End()
	}
	g, p := verifhook.PoolStats()
	l.Count("pool_gets", int64(g))
	l.Count("pool_puts", int64(p))
}

// ---------------------------------------------------------------------------------------
// CRYPTO stream reassembly

func TestVerifC03Crypto(t *testing.T) {
	l := evlog.Open("C03")
	defer l.Close()
	nRand := l.Pick(20000, 1000000)
	const batch = 500
	for bi := 0; bi*batch < nRand; bi++ {
		if !l.Mine(bi) {
			continue
		}
		id := fmt.Sprintf("C03/crypto/rand/%06d", bi)
		c := l.Begin(id, map[string]any{"batch": bi, "n": batch})
		if c == nil {
			continue
		}
		rng := l.Rand(id)
		for k := 0; k < batch; k++ {
			initial := rng.IntN(2) == 0
			var hcf interface {
				HandleCryptoFrame(*wire.CryptoFrame) error
				GetCryptoData() []byte
				Finish() error
			}
			if initial {
				hcf = newInitialCryptoStream(rng.IntN(2) == 0)
			} else {
				hcf = newCryptoStream()
			}
			size := 1 + rng.IntN(int(protocol.MaxCryptoStreamOffset)+200)
			if rng.IntN(3) == 0 {
				size = 1 + rng.IntN(3000)
			}
			base := c03Base(size, rng.Uint64())
			have := make([]bool, size)
			rd := 0
			highest := 0
			finished := false
			var hist []c03Op
			sig, detail := "", ""
			nops := 1 + rng.IntN(40)
			sawErr := ""
			for i := 0; i < nops && sig == "" && sawErr == ""; i++ {
				switch x := rng.IntN(10); {
				case x < 6:
					off := rng.IntN(size)
					if rng.IntN(2) == 0 {
						off = min(rd, size-1)
					}
					n := 1 + rng.IntN(min(size-off, 1200))
					hist = append(hist, c03Op{Kind: "frame", Off: off, Len: n})
					err := hcf.HandleCryptoFrame(&wire.CryptoFrame{Offset: protocol.ByteCount(off), Data: append([]byte(nil), base[off:off+n]...)})
					end := off + n
					var want qerr.TransportErrorCode
					switch {
					case end > int(protocol.MaxCryptoStreamOffset):
						want = qerr.CryptoBufferExceeded
					case finished && end > highest:
						want = qerr.ProtocolViolation
					}
					if want != 0 {
						code, ok := c03ErrCode(err)
						if err == nil {
							sig, detail = fmt.Sprintf("C03|crypto|bad-frame-accepted|want=%v", want), fmt.Sprintf("frame off=%d len=%d accepted (finished=%v highest=%d)", off, n, finished, highest)
						} else if !ok || code != want {
							sig, detail = "C03|crypto|wrong-error-code", fmt.Sprintf("frame off=%d len=%d: got %v want %v", off, n, err, want)
						}
						sawErr = want.String()
						continue
					}
					if err != nil {
						sig, detail = "C03|crypto|admissible-frame-rejected", fmt.Sprintf("frame off=%d len=%d: %v", off, n, err)
						continue
					}
					if !finished {
						highest = max(highest, end)
						for j := off; j < end; j++ {
							if j >= rd {
								have[j] = true
							}
						}
					}
				case x < 9:
					hist = append(hist, c03Op{Kind: "read"})
					d := hcf.GetCryptoData()
					avail := 0
					for j := rd; j < size && have[j]; j++ {
						avail++
					}
					if d == nil {
						if avail > 0 {
							sig, detail = "C03|crypto|stall", fmt.Sprintf("GetCryptoData returned nil at %d with %d available", rd, avail)
						}
						continue
					}
					if len(d) > avail {
						sig, detail = "C03|crypto|read-overrun", fmt.Sprintf("GetCryptoData returned %d bytes at %d, %d available", len(d), rd, avail)
						continue
					}
					for j := range d {
						if d[j] != base[rd+j] {
							sig, detail = "C03|crypto|wrong-byte", fmt.Sprintf("GetCryptoData at %d: byte %d is %#x want %#x", rd, j, d[j], base[rd+j])
							break
						}
					}
					rd += len(d)
				default:
					hist = append(hist, c03Op{Kind: "finish"})
					err := hcf.Finish()
					pending := false
					for j := rd; j < size; j++ {
						if have[j] {
							pending = true
							break
						}
					}
					if pending {
						code, ok := c03ErrCode(err)
						if err == nil || !ok || code != qerr.ProtocolViolation {
							sig, detail = "C03|crypto|finish-with-pending-data", fmt.Sprintf("Finish() = %v with undelivered data queued (read pos %d)", err, rd)
						}
						sawErr = "finish"
					} else if err != nil {
						sig, detail = "C03|crypto|finish-rejected", fmt.Sprintf("Finish() = %v with nothing queued", err)
					} else {
						finished = true
					}
				}
			}
			c.Eval(fmt.Sprintf("crypto/i%v/n%d/fin%v/e%s/big%v", initial, len(hist)/6, finished, sawErr, size > 3000))
			if sig != "" {
				c.Violation(sig, detail, map[string]any{"size": size, "initial": initial, "history": hist})
			}
		}
		c.End()
	}
}
