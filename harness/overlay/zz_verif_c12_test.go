package quic_test

// C12 — a spec-driven client enforces exactly the limits it advertises.
//
// The independent wire observer reads the transport parameters the client really put on the
// wire; an in-tree server, which is flow-controlled by exactly those values, drives each limit
// up to its boundary and not beyond.  The client must not raise a local error and must deliver
// everything.  One synctest bubble per case.

import (
	"context"
	"errors"
	"fmt"
	"io"
	"sort"
	"strings"
	"sync"
	"testing"
	"testing/synctest"
	"time"

	quic "github.com/refraction-networking/uquic"
	"github.com/refraction-networking/uquic/internal/verif/evlog"
	"github.com/refraction-networking/uquic/internal/verif/quicworld"
	"github.com/refraction-networking/uquic/internal/verif/specgen"
	"github.com/refraction-networking/uquic/internal/verif/wiretap"
	"github.com/refraction-networking/uquic/qlog"
	"github.com/refraction-networking/uquic/qlogwriter"
	tls "github.com/refraction-networking/utls"
)

type c12Case struct {
	Name   string `json:"name"`
	QUICID string `json:"quicid,omitempty"` // built-in parrot, or "" for a generated list
	Gen    *c12P  `json:"generated,omitempty"`
	Driver string `json:"driver"`
	Config string `json:"config"`
	// parameters of the spec that SuppressTransportParameters keeps off the wire (and thereby out of what the
	// client has advertised)
	Suppress []uint64 `json:"suppress,omitempty"`
}

// c12P is a generated transport parameter list (0 = parameter absent)
type c12P struct {
	MaxData, BidiLocal, BidiRemote, Uni uint64
	StreamsBidi, StreamsUni             uint64
	CIDLimit                            uint64
	Datagram                            uint64
	IdleMs                              uint64
}

func (p *c12P) list() tls.TransportParameters {
	l := tls.TransportParameters{tls.MaxUDPPayloadSize(1472)}
	if p.IdleMs > 0 {
		l = append(l, tls.MaxIdleTimeout(p.IdleMs))
	}
	l = append(l, tls.InitialMaxData(p.MaxData), tls.InitialMaxStreamDataBidiLocal(p.BidiLocal), tls.InitialMaxStreamDataBidiRemote(p.BidiRemote),
		tls.InitialMaxStreamDataUni(p.Uni), tls.InitialMaxStreamsBidi(p.StreamsBidi), tls.InitialMaxStreamsUni(p.StreamsUni))
	if p.CIDLimit > 0 {
		l = append(l, tls.ActiveConnectionIDLimit(p.CIDLimit))
	}
	if p.Datagram > 0 {
		l = append(l, tls.MaxDatagramFrameSize(p.Datagram))
	}
	return append(l, tls.InitialSourceConnectionID([]byte{}))
}

var c12Drivers = []string{"stream-uni", "stream-bidi-remote", "stream-bidi-local", "conn-data", "max-streams-bidi", "max-streams-uni", "cids", "datagram", "idle"}
var c12Configs = []string{"default", "small-windows", "idle5s", "idle90s", "datagrams-on", "streams10", "streams1000"}

func c12UserConfig(name string) *quic.Config {
	c := &quic.Config{HandshakeIdleTimeout: 10 * time.Second}
	switch name {
	case "small-windows":
		c.InitialStreamReceiveWindow, c.MaxStreamReceiveWindow = 16<<10, 32<<10
		c.InitialConnectionReceiveWindow, c.MaxConnectionReceiveWindow = 24<<10, 48<<10
	case "idle5s":
		c.MaxIdleTimeout = 5 * time.Second
	case "idle90s":
		c.MaxIdleTimeout = 90 * time.Second
	case "datagrams-on":
		c.EnableDatagrams = true
	case "streams10":
		c.MaxIncomingStreams, c.MaxIncomingUniStreams = 10, 10
	case "streams1000":
		c.MaxIncomingStreams, c.MaxIncomingUniStreams = 1000, 1000
	}
	return c
}

func TestVerifC12Limits(t *testing.T) {
	l := evlog.Open("C12")
	defer l.Close()
	var cases []c12Case
	for _, id := range quicworld.QUICIDNames {
		for _, d := range c12Drivers {
			cases = append(cases, c12Case{Name: fmt.Sprintf("%s/%s/default", id, d), QUICID: id, Driver: d, Config: "default"})
		}
	}
	// user Config values crossed with the drivers on two parrots
	for _, id := range []string{"Chrome_115_IPv4", "Firefox_116A"} {
		for _, cf := range c12Configs[1:] {
			for _, d := range c12Drivers {
				cases = append(cases, c12Case{Name: fmt.Sprintf("%s/%s/%s", id, d, cf), QUICID: id, Driver: d, Config: cf})
			}
		}
	}
	// parameters the spec lists but SuppressTransportParameters keeps off the wire: what was not sent is not
	// advertised (idle timeout disabled, default connection ID limit, no datagrams)
	for _, id := range []string{"Chrome_115_IPv4", "Firefox_116A", "Chrome_146_IPv4"} {
		for _, sup := range [][]uint64{{0x01}, {0x20}, {0x0e}, {0x01, 0x20, 0x0e, 0x03, 0x0b}} {
			for _, d := range []string{"idle", "datagram", "cids", "stream-uni", "max-streams-bidi"} {
				for _, cf := range []string{"default", "idle90s", "datagrams-on"} {
					cases = append(cases, c12Case{Name: fmt.Sprintf("%s/%s/%s/suppress%v", id, d, cf, sup), QUICID: id, Driver: d, Config: cf, Suppress: sup})
				}
			}
		}
	}
	rng := l.Rand("c12gen")
	ngen := l.Pick(4000, 150000)
	for i := 0; i < ngen; i++ {
		pick := func(v ...uint64) uint64 { return v[rng.IntN(len(v))] }
		p := &c12P{
			BidiLocal: pick(1<<10, 16<<10, 300<<10, 2<<20), BidiRemote: pick(1<<10, 16<<10, 300<<10, 2<<20), Uni: pick(1<<10, 16<<10, 300<<10, 2<<20),
			StreamsBidi: pick(1, 3, 16, 100, 150), StreamsUni: pick(1, 3, 16, 103, 150), CIDLimit: pick(0, 2, 3, 4, 6, 8), Datagram: pick(0, 0, 1200, 65535), IdleMs: pick(0, 3000, 30000, 120000),
		}
		p.MaxData = pick(4<<10, 64<<10, 1<<20, 4<<20)
		d := c12Drivers[rng.IntN(len(c12Drivers))]
		cf := c12Configs[rng.IntN(len(c12Configs))]
		gc := c12Case{Name: fmt.Sprintf("gen/%04d/%s/%s", i, d, cf), Gen: p, Driver: d, Config: cf}
		if rng.IntN(3) == 0 {
			for _, id := range []uint64{0x01, 0x03, 0x0e, 0x20} {
				if rng.IntN(2) == 0 {
					gc.Suppress = append(gc.Suppress, id)
				}
			}
		}
		cases = append(cases, gc)
	}
	for i, cs := range cases {
		if !l.Mine(i) {
			continue
		}
		c := l.Begin("C12/"+cs.Name, cs)
		if c == nil {
			continue
		}
		synctest.Test(t, func(t *testing.T) { runC12(l, c, &cs, i) })
		c.End()
	}
}

// c12Trace captures the qlog events of the client connection: "transport:parameters_set" with
// initiator local is the connection's own record of the parameters it sent.
type c12Trace struct {
	mu     sync.Mutex
	events []qlogwriter.Event
}

func (t *c12Trace) AddProducer() qlogwriter.Recorder { return &c12Recorder{t} }
func (t *c12Trace) SupportsSchemas(string) bool      { return true }

type c12Recorder struct{ t *c12Trace }

func (r *c12Recorder) RecordEvent(e qlogwriter.Event) {
	r.t.mu.Lock()
	r.t.events = append(r.t.events, e)
	r.t.mu.Unlock()
}
func (r *c12Recorder) Close() error { return nil }

func c12LocalErr(err error) (string, bool) {
	var te *quic.TransportError
	var ie *quic.IdleTimeoutError
	var ae *quic.ApplicationError
	switch {
	case err == nil:
		return "", false
	case errors.As(err, &te):
		return fmt.Sprintf("%s(remote=%v)", te.ErrorCode, te.Remote), !te.Remote
	case errors.As(err, &ie):
		return "idle-timeout", true
	case errors.As(err, &ae):
		return fmt.Sprintf("application-error(remote=%v,%#x)", ae.Remote, uint64(ae.ErrorCode)), false
	}
	return fmt.Sprintf("%T", err), true
}

func runC12(l *evlog.Log, c *evlog.Case, cs *c12Case, idx int) {
	specName := cs.QUICID
	if specName == "" {
		specName = "generated"
	}
	var world *quicworld.World
	viol := func(sig, f string, a ...any) {
		tr := map[string]any{"case": cs}
		if world != nil {
			if taps := world.Wire.Snapshot(); len(taps) > 0 {
				tr["wire_tail"] = taps[len(taps)-1].Describe(20)
			}
		}
		c.Violation(fmt.Sprintf("C12|spec=%s|driver=%s|config=%s|%s", specName, cs.Driver, cs.Config, sig), fmt.Sprintf(f, a...), tr)
	}
	var spec quic.QUICSpec
	if cs.QUICID != "" {
		s, err := quic.QUICID2Spec(quicworld.QUICIDs[cs.QUICID])
		if err != nil {
			viol("harness", "%v", err)
			return
		}
		spec = s
	} else {
		spec = quic.QUICSpec{ClientHelloSpec: specgen.HelloSpec("small", cs.Gen.list())}
	}
	spec.SuppressTransportParameters = cs.Suppress
	// the server side: huge limits of its own, so that only the client's advertised values bound it
	sconf := &quic.Config{MaxIdleTimeout: 10 * time.Minute, EnableDatagrams: true, MaxIncomingStreams: 5000, MaxIncomingUniStreams: 5000,
		InitialStreamReceiveWindow: 8 << 20, MaxStreamReceiveWindow: 16 << 20, InitialConnectionReceiveWindow: 16 << 20, MaxConnectionReceiveWindow: 32 << 20, HandshakeIdleTimeout: 10 * time.Second}
	trace := &c12Trace{}
	cconf := c12UserConfig(cs.Config)
	cconf.Tracer = func(context.Context, bool, quic.ConnectionID) qlogwriter.Trace { return trace }
	opt := quicworld.Options{RTT: 10 * time.Millisecond, ClientKind: "spec", Spec: &spec, ClientConf: cconf, ServerConf: sconf}
	w, err := quicworld.New(opt)
	if err != nil {
		viol("harness", "world: %v", err)
		return
	}
	world = w
	defer func() {
		w.Close()
		time.Sleep(time.Minute)
		synctest.Wait()
		if lk := quicworld.BubbleGoroutines(); len(lk) > 0 {
			viol("leak|goroutines-alive-after-close", "%s", lk[0])
		}
	}()
	ctx, cancel := context.WithTimeout(context.Background(), 5*time.Minute)
	defer cancel()
	type acc struct {
		c   *quic.Conn
		err error
	}
	accCh := make(chan acc, 1)
	go func() {
		sc, err := w.Accept(ctx)
		accCh <- acc{sc, err}
	}()
	cc, err := w.Dial(ctx)
	if err != nil {
		cancel()
		<-accCh
		viol("dial-failed", "%v", err)
		return
	}
	a := <-accCh
	if a.err != nil {
		cc.CloseWithError(0, "")
		viol("accept-failed", "%v", a.err)
		return
	}
	sc := a.c
	defer func() {
		cc.CloseWithError(0, "")
		sc.CloseWithError(0, "")
	}()
	// what did the client really advertise?
	taps := w.Wire.Snapshot()
	if len(taps) == 0 || taps[len(taps)-1].ClientTP == nil {
		viol("harness|no-client-transport-parameters-observed", "")
		return
	}
	w.Wire.Lock()
	tp := taps[len(taps)-1].ClientTP
	adv := c12P{
		MaxData: tp.Int(wiretap.TPInitialMaxData, 0), BidiLocal: tp.Int(wiretap.TPInitialMaxStreamDataBL, 0), BidiRemote: tp.Int(wiretap.TPInitialMaxStreamDataBR, 0),
		Uni: tp.Int(wiretap.TPInitialMaxStreamDataU, 0), StreamsBidi: tp.Int(wiretap.TPInitialMaxStreamsBidi, 0), StreamsUni: tp.Int(wiretap.TPInitialMaxStreamsUni, 0),
		CIDLimit: tp.Int(wiretap.TPActiveConnIDLimit, 2), Datagram: tp.Int(wiretap.TPMaxDatagramFrameSize, 0), IdleMs: tp.Int(wiretap.TPMaxIdleTimeout, 0),
	}
	w.Wire.Unlock()
	l.Count("advertised_parameter_sets_read", 1)

	// ---- the connection's own record of its parameters equals the bytes it sent
	trace.mu.Lock()
	var rec *qlog.ParametersSet
	for _, e := range trace.events {
		if ps, ok := e.(qlog.ParametersSet); ok && ps.Initiator == qlog.InitiatorLocal && !ps.Restore {
			rec = &ps
			break
		}
	}
	trace.mu.Unlock()
	if rec == nil {
		viol("own-parameter-record-missing", "the client connection recorded no transport:parameters_set event for its own parameters")
	} else {
		w.Wire.Lock()
		cmp := []struct {
			name string
			id   uint64
			got  uint64
		}{
			{"max_idle_timeout", wiretap.TPMaxIdleTimeout, uint64(rec.MaxIdleTimeout / time.Millisecond)},
			{"max_udp_payload_size", wiretap.TPMaxUDPPayloadSize, uint64(rec.MaxUDPPayloadSize)},
			{"initial_max_data", wiretap.TPInitialMaxData, uint64(rec.InitialMaxData)},
			{"initial_max_stream_data_bidi_local", wiretap.TPInitialMaxStreamDataBL, uint64(rec.InitialMaxStreamDataBidiLocal)},
			{"initial_max_stream_data_bidi_remote", wiretap.TPInitialMaxStreamDataBR, uint64(rec.InitialMaxStreamDataBidiRemote)},
			{"initial_max_stream_data_uni", wiretap.TPInitialMaxStreamDataU, uint64(rec.InitialMaxStreamDataUni)},
			{"initial_max_streams_bidi", wiretap.TPInitialMaxStreamsBidi, uint64(rec.InitialMaxStreamsBidi)},
			{"initial_max_streams_uni", wiretap.TPInitialMaxStreamsUni, uint64(rec.InitialMaxStreamsUni)},
			{"ack_delay_exponent", wiretap.TPAckDelayExponent, uint64(rec.AckDelayExponent)},
			{"max_ack_delay", wiretap.TPMaxAckDelay, uint64(rec.MaxAckDelay / time.Millisecond)},
			{"active_connection_id_limit", wiretap.TPActiveConnIDLimit, rec.ActiveConnectionIDLimit},
			{"max_datagram_frame_size", wiretap.TPMaxDatagramFrameSize, uint64(rec.MaxDatagramFrameSize)},
		}
		var diffs []string
		for _, x := range cmp {
			if !tp.Has(x.id) {
				// not on the wire: the record must show the parameter as not set (zero) or with the protocol's default for an absent parameter
				def, known := map[uint64]uint64{wiretap.TPMaxIdleTimeout: 0, wiretap.TPMaxUDPPayloadSize: 65527, wiretap.TPInitialMaxData: 0,
					wiretap.TPInitialMaxStreamDataBL: 0, wiretap.TPInitialMaxStreamDataBR: 0, wiretap.TPInitialMaxStreamDataU: 0, wiretap.TPInitialMaxStreamsBidi: 0,
					wiretap.TPInitialMaxStreamsUni: 0, wiretap.TPAckDelayExponent: 3, wiretap.TPMaxAckDelay: 25, wiretap.TPActiveConnIDLimit: 2}[x.id]
				if x.id == wiretap.TPMaxDatagramFrameSize {
					if rec.MaxDatagramFrameSize > 0 {
						diffs = append(diffs, fmt.Sprintf("%s: not on the wire, record %d", x.name, rec.MaxDatagramFrameSize))
					}
				} else if known && x.got != def && x.got != 0 { // 0: the record's way of saying "not set"
					diffs = append(diffs, fmt.Sprintf("%s: not on the wire (default %d), record %d", x.name, def, x.got))
				}
				l.Count("own_record_absent_fields_compared", 1)
				continue
			}
			if want := tp.Int(x.id, 0); want != x.got {
				diffs = append(diffs, fmt.Sprintf("%s: wire %d, record %d", x.name, want, x.got))
			}
			l.Count("own_record_fields_compared", 1)
		}
		if tp.Has(wiretap.TPDisableActiveMigration) != rec.DisableActiveMigration {
			diffs = append(diffs, fmt.Sprintf("disable_active_migration: wire %v, record %v", tp.Has(wiretap.TPDisableActiveMigration), rec.DisableActiveMigration))
		}
		w.Wire.Unlock()
		if len(diffs) > 0 {
			sort.Strings(diffs)
			names := ""
			for _, d := range diffs {
				names += d[:strings.Index(d, ":")] + ","
			}
			c.Violation(fmt.Sprintf("C12|spec=%s|own-parameter-record-differs-from-wire|%s", specName, names), fmt.Sprint(diffs), map[string]any{"case": cs})
		}
	}

	// the client must stay alive and error-free while the server uses what was advertised
	check := func(stage string) bool {
		if cc.Context().Err() == nil {
			return true
		}
		cause := context.Cause(cc.Context())
		cls, local := c12LocalErr(cause)
		if local {
			viol("local-error|"+cls, "%s: client closed the connection with %v although the peer stayed within the advertised transport parameters %+v", stage, cause, adv)
		} else {
			viol("connection-ended|"+cls, "%s: %v", stage, cause)
		}
		return false
	}
	fill := func(n int) []byte { return make([]byte, n) }
	// never be silent for longer than a fraction of the idle timeout the client advertised
	patience := 2 * time.Second
	if adv.IdleMs > 0 && time.Duration(adv.IdleMs)*time.Millisecond/5 < patience {
		patience = time.Duration(adv.IdleMs) * time.Millisecond / 5
	}
	var wg sync.WaitGroup
	defer wg.Wait()
	verified := int64(0)
	// writes n bytes (or until blocked for `patience` of virtual time) and reports how many were accepted
	writeUntilBlocked := func(s io.Writer, setDeadline func(time.Time) error, n uint64) uint64 {
		var done uint64
		buf := fill(32 << 10)
		for done < n {
			setDeadline(time.Now().Add(patience))
			m, err := s.Write(buf[:min(uint64(len(buf)), n-done)])
			done += uint64(m)
			if err != nil {
				break
			}
		}
		return done
	}
	readAll := func(s io.Reader) uint64 {
		var n uint64
		buf := make([]byte, 64<<10)
		for {
			m, err := s.Read(buf)
			n += uint64(m)
			if err != nil {
				return n
			}
		}
	}
	switch cs.Driver {
	case "stream-uni", "stream-bidi-remote", "stream-bidi-local":
		var limit uint64
		var sw interface {
			io.Writer
			SetWriteDeadline(time.Time) error
			Close() error
		}
		var cr io.Reader
		switch cs.Driver {
		case "stream-uni":
			limit = adv.Uni
			if adv.StreamsUni == 0 {
				c.Eval("")
				return
			}
			s, err := sc.OpenUniStreamSync(ctx)
			if err != nil {
				viol("harness|open", "%v", err)
				return
			}
			sw = s
			s.Write([]byte{1})
			rs, err := cc.AcceptUniStream(ctx)
			if err != nil {
				check("accepting the stream")
				return
			}
			cr = rs
			limit--
		case "stream-bidi-remote":
			limit = adv.BidiRemote
			if adv.StreamsBidi == 0 {
				c.Eval("")
				return
			}
			s, err := sc.OpenStreamSync(ctx)
			if err != nil {
				viol("harness|open", "%v", err)
				return
			}
			sw = s
			s.Write([]byte{1})
			rs, err := cc.AcceptStream(ctx)
			if err != nil {
				check("accepting the stream")
				return
			}
			cr = rs
			limit--
		case "stream-bidi-local":
			limit = adv.BidiLocal
			s, err := cc.OpenStreamSync(ctx)
			if err != nil {
				viol("harness|open", "%v", err)
				return
			}
			s.Write([]byte{1})
			ss, err := sc.AcceptStream(ctx)
			if err != nil {
				viol("harness|accept", "%v", err)
				return
			}
			sw, cr = ss, s
		}
		limit = min(limit, adv.MaxData-1)
		// the client application reads nothing: the server can send exactly up to the advertised limit
		want := limit + 200<<10
		sent := writeUntilBlocked(sw, sw.SetWriteDeadline, want)
		if !check("server filled the advertised stream window while the client read nothing") {
			return
		}
		if sent < limit {
			viol("advertised-window-not-usable", "server could only send %d bytes on the stream, the client advertised %d", sent, limit)
		}
		// now the client reads; everything must arrive
		wg.Add(1)
		var got uint64
		go func() { defer wg.Done(); got = readAll(cr) }()
		sw.SetWriteDeadline(time.Now().Add(time.Minute))
		rest := fill(int(want - sent))
		if _, err := sw.Write(rest); err != nil {
			check("server writes the rest while the client reads")
			viol("transfer-failed", "server write: %v", err)
			return
		}
		sw.Close()
		time.Sleep(patience)
		if !check("client read the stream") {
			return
		}
		wg.Wait()
		if got != want && got != want+1 {
			viol("data-lost", "client read %d of %d bytes", got, want+1)
		}
		verified = int64(got)
	case "conn-data":
		// many streams at once, nobody reads: the sum may reach initial_max_data
		per := max(adv.Uni, 1)
		n := int(min(adv.StreamsUni, adv.MaxData/per+2, 200))
		if n == 0 {
			c.Eval("")
			return
		}
		var total uint64
		var streams []*quic.SendStream
		for i := 0; i < n; i++ {
			s, err := sc.OpenUniStreamSync(ctx)
			if err != nil {
				break
			}
			streams = append(streams, s)
			n := writeUntilBlocked(s, s.SetWriteDeadline, per)
			total += n
			if n < per {
				break // blocked on the connection window: every further stream would be, too
			}
		}
		if !check("server filled the advertised connection window") {
			return
		}
		lim := min(adv.MaxData, uint64(len(streams))*per)
		if total < lim {
			viol("advertised-window-not-usable", "server could only send %d bytes on %d streams, the client advertised initial_max_data %d / stream window %d", total, len(streams), adv.MaxData, per)
		}
		for range streams {
			wg.Add(1)
			go func() {
				defer wg.Done()
				rs, err := cc.AcceptUniStream(ctx)
				if err != nil {
					return
				}
				readAll(rs)
			}()
		}
		for _, s := range streams {
			s.Close()
		}
		time.Sleep(patience)
		if !check("client drained the streams") {
			return
		}
		verified = int64(total)
	case "max-streams-bidi", "max-streams-uni":
		limit := adv.StreamsBidi
		if cs.Driver == "max-streams-uni" {
			limit = adv.StreamsUni
		}
		opened := uint64(0)
		var closers []interface{ Close() error }
		for opened < limit+5 {
			octx, ocancel := context.WithTimeout(ctx, 500*time.Millisecond)
			var err error
			if cs.Driver == "max-streams-uni" {
				var s *quic.SendStream
				s, err = sc.OpenUniStreamSync(octx)
				if err == nil {
					s.Write([]byte{byte(opened)})
					closers = append(closers, s)
				}
			} else {
				var s *quic.Stream
				s, err = sc.OpenStreamSync(octx)
				if err == nil {
					s.Write([]byte{byte(opened)})
					closers = append(closers, s)
				}
			}
			ocancel()
			if err != nil {
				break
			}
			opened++
		}
		time.Sleep(time.Second)
		if !check(fmt.Sprintf("server opened %d concurrent streams", opened)) {
			return
		}
		if opened < limit {
			viol("advertised-stream-count-not-usable", "server could only open %d streams, the client advertised %d", opened, limit)
		}
		if opened > limit {
			viol("harness|server-exceeded-limit", "opened %d > %d", opened, limit)
		}
		// the client accepts all of them
		for i := uint64(0); i < opened; i++ {
			actx, acancel := context.WithTimeout(ctx, 2*time.Second)
			var err error
			if cs.Driver == "max-streams-uni" {
				_, err = cc.AcceptUniStream(actx)
			} else {
				_, err = cc.AcceptStream(actx)
			}
			acancel()
			if err != nil {
				check("accepting streams")
				viol("stream-not-delivered", "client accepted only %d of %d streams: %v", i, opened, err)
				return
			}
		}
		for _, cl := range closers {
			cl.Close()
		}
		verified = int64(opened)
	case "cids":
		// the in-tree server issues connection IDs up to min(advertised limit, its own cap) by itself
		time.Sleep(2 * time.Second)
		if !check("server issued connection IDs") {
			return
		}
		w.Wire.Lock()
		n := len(taps[len(taps)-1].IssuedCIDs[wiretap.S2C])
		w.Wire.Unlock()
		l.Max("max:connection_ids_issued_by_server", int64(n))
		verified = int64(n)
		// The in-tree server stops at its own cap.  A peer that uses the advertised limit to the full: further
		// NEW_CONNECTION_ID frames (forged on the server's behalf with the connection's 1-RTT keys) until
		// exactly `limit` IDs are active, then a rotation that is legal at the limit (RFC 9000 5.1.1): one more
		// ID whose Retire Prior To retires the lowest active one.  None of it may raise a local error.
		limit := uint64(adv.CIDLimit)
		if limit < 2 {
			limit = 2 // the default when the parameter is absent
		}
		tap := taps[len(taps)-1]
		w.Wire.Lock()
		var maxSeq, lowest uint64
		retired := tap.RetiredSeqs[wiretap.C2S]
		for seq := range tap.IssuedCIDs[wiretap.S2C] {
			maxSeq = max(maxSeq, seq)
		}
		for retired[lowest] {
			lowest++
		}
		active := maxSeq + 1 - uint64(len(retired))
		cidLen := len(tap.ServerSCID)
		w.Wire.Unlock()
		if cidLen == 0 || active > limit {
			break
		}
		mkCID := func(seq uint64) ([]byte, [16]byte) {
			cid := make([]byte, cidLen)
			var tok [16]byte
			for i := range cid {
				cid[i] = byte(0xA0 + seq + uint64(i)*7)
			}
			for i := range tok {
				tok[i] = byte(seq*13 + uint64(i))
			}
			return cid, tok
		}
		var payload []byte
		next := maxSeq + 1
		for ; active < limit; active++ {
			cid, tok := mkCID(next)
			payload = append(payload, wiretap.NewConnectionIDFrame(next, 0, cid, tok)...)
			next++
		}
		// the genuine server must not see the client's reaction to packets it never sent (it would close the
		// connection for an acknowledgement of an unsent packet): from here on nothing reaches it
		w.Router.SetBlackhole(wiretap.C2S, true)
		inject := func(payload []byte, what string) bool {
			pkt, err := tap.ForgeShort(wiretap.S2C, payload)
			if err != nil {
				viol("harness|forge", "%v", err)
				return false
			}
			w.Router.Inject(wiretap.S2C, quicworld.ServerAddr, quicworld.ClientAddr, pkt, 0)
			time.Sleep(100 * time.Millisecond)
			return check(what)
		}
		if len(payload) > 0 && !inject(payload, fmt.Sprintf("NEW_CONNECTION_ID frames up to sequence number %d: %d active connection IDs, advertised limit %d", next-1, limit, limit)) {
			return
		}
		cid, tok := mkCID(next)
		if !inject(wiretap.NewConnectionIDFrame(next, lowest+1, cid, tok), fmt.Sprintf("NEW_CONNECTION_ID(seq %d, Retire Prior To %d) with %d active connection IDs, advertised limit %d", next, lowest+1, limit, limit)) {
			return
		}
		l.Count("cid_limit_used_to_the_full", 1)
		verified = int64(limit)
	case "datagram":
		if adv.Datagram == 0 {
			// not advertised: the server must not be able to send any; nothing to exercise
			c.Eval("")
			return
		}
		// largest datagram the server's own API lets through (bounded by the advertised size and the MTU)
		lo, hi := 1, 1500
		for lo < hi {
			mid := (lo + hi + 1) / 2
			err := sc.SendDatagram(fill(mid))
			var tooLarge *quic.DatagramTooLargeError
			if errors.As(err, &tooLarge) {
				hi = mid - 1
			} else if err != nil {
				viol("harness|send-datagram", "%v", err)
				return
			} else {
				lo = mid
			}
		}
		sent := 0
		for i := 0; i < 5; i++ {
			if err := sc.SendDatagram(fill(lo)); err == nil {
				sent++
			}
		}
		time.Sleep(time.Second)
		if !check(fmt.Sprintf("server sent DATAGRAM frames of %d bytes (advertised max_datagram_frame_size %d)", lo, adv.Datagram)) {
			return
		}
		rctx, rcancel := context.WithTimeout(ctx, time.Second)
		d, err := cc.ReceiveDatagram(rctx)
		rcancel()
		if err != nil {
			viol("datagram-not-delivered", "the client advertised max_datagram_frame_size %d, the server sent datagrams, ReceiveDatagram: %v", adv.Datagram, err)
			return
		}
		verified = int64(len(d))
	case "idle":
		if adv.IdleMs == 0 {
			// no idle timeout advertised: there is no advertised value a peer could rely on
			c.Eval("")
			return
		}
		idle := time.Duration(adv.IdleMs) * time.Millisecond
		// a stream the client opened (the server's own limits are huge): the server can always write on it
		cs1, err := cc.OpenStreamSync(ctx)
		if err != nil {
			viol("harness|open", "%v", err)
			return
		}
		cs1.Write([]byte{1})
		ss1, err := sc.AcceptStream(ctx)
		if err != nil {
			viol("harness|accept", "%v", err)
			return
		}
		// make sure there was recent traffic, then total silence just below the advertised timeout
		ss1.Write([]byte{1})
		time.Sleep(50 * time.Millisecond)
		t0 := time.Now()
		w.Router.SetBlackhole(wiretap.C2S, true)
		w.Router.SetBlackhole(wiretap.S2C, true)
		time.Sleep(idle - 300*time.Millisecond)
		w.Router.SetBlackhole(wiretap.C2S, false)
		w.Router.SetBlackhole(wiretap.S2C, false)
		if !check(fmt.Sprintf("silence of %s (advertised max_idle_timeout %s)", time.Since(t0), idle)) {
			return
		}
		// one packet from the server, and the connection goes on
		ss1.Write([]byte{2})
		time.Sleep(min(time.Second, idle/3))
		if !check("after the silence") {
			return
		}
		buf := make([]byte, 8)
		cs1.SetReadDeadline(time.Now().Add(time.Second))
		if n, _ := io.ReadAtLeast(cs1, buf, 2); n != 2 {
			viol("data-lost", "the client read %d of the 2 bytes the server wrote around the silence", n)
		}
		verified = int64(adv.IdleMs)
	}
	fpSpec := specName
	if cs.Gen != nil {
		fpSpec = fmt.Sprintf("gen%+v", *cs.Gen)
	}
	c.Eval(fmt.Sprintf("%s/%s/%s/%v", fpSpec, cs.Driver, cs.Config, verified > 0))
	l.Count("driver_"+cs.Driver, 1)
	c.Sample(cs.Driver, map[string]any{"case": cs.Name, "advertised": adv, "exercised": verified})
}
