package quic

// C03 with genuinely blocked readers.  The sequential stream job calls Read / Peek with a deadline in the
// past, so no call ever waits; what a woken reader does (and what the wake-up signal it consumed means for
// the next call) is only reached when calls block.  Here a reader goroutine runs a script of blocking
// Read(n) / Peek(n) calls inside a synctest bubble while the main goroutine delivers the segments of a
// byte string in a seeded order (duplicates, overlaps, FIN anywhere consistent).  After every delivery
// synctest.Wait makes "still blocked" decidable: the pending call must be one the reference model says
// cannot complete yet; completed calls must have returned exactly the bytes at the read position.

import (
	"bytes"
	"fmt"
	"io"
	"math/rand/v2"
	"sync"
	"testing"
	"testing/synctest"

	"github.com/refraction-networking/uquic/internal/flowcontrol"
	"github.com/refraction-networking/uquic/internal/monotime"
	"github.com/refraction-networking/uquic/internal/protocol"
	"github.com/refraction-networking/uquic/internal/utils"
	"github.com/refraction-networking/uquic/internal/verif/evlog"
	"github.com/refraction-networking/uquic/internal/wire"
)

type c03bCall struct {
	peek bool
	n    int
	got  []byte
	err  error
	done bool
}

func TestVerifC03Blocking(t *testing.T) {
	l := evlog.Open("C03")
	defer l.Close()
	n := l.Pick(80000, 3000000)
	const batch = 500
	for bi := 0; bi*batch < n; bi++ {
		if !l.Mine(bi) {
			continue
		}
		id := fmt.Sprintf("C03/blocking/batch%d", bi)
		c := l.Begin(id, map[string]any{"histories": batch})
		if c == nil {
			continue
		}
		rng := l.Rand(id)
		nv := 0
		for i := 0; i < batch; i++ {
			seed := rng.Uint64()
			var sig, detail, fp string
			synctest.Test(t, func(t *testing.T) { sig, detail, fp = runC03Blocking(seed) })
			c.Eval(fp)
			if sig != "" {
				if nv++; nv <= 3 {
					c.Violation(sig, detail, map[string]any{"history_seed": seed})
				}
			}
		}
		l.Count("blocking_histories", batch)
		c.End()
	}
}

func runC03Blocking(seed uint64) (sig, detail, fp string) {
	rng := rand.New(rand.NewPCG(seed, 3))
	L := 1 + rng.IntN(400)
	base := make([]byte, L)
	for i := range base {
		base[i] = byte(rng.Uint32())
	}
	// segments: cut points, then a delivery order with some duplicates and overlapping re-cuts
	type seg struct{ off, end int }
	var segs []seg
	for off := 0; off < L; {
		end := min(L, off+1+rng.IntN(1+L/(1+rng.IntN(6))))
		segs = append(segs, seg{off, end})
		off = end
	}
	order := rng.Perm(len(segs))
	if rng.IntN(3) == 0 { // in order
		for i := range order {
			order[i] = i
		}
	}
	var deliveries []seg
	for _, i := range order {
		deliveries = append(deliveries, segs[i])
		if rng.IntN(5) == 0 {
			a := rng.IntN(L)
			deliveries = append(deliveries, seg{a, min(L, a+1+rng.IntN(40))}) // an overlapping retransmission
		}
	}
	sender := &c03NullSender{}
	rtt := &utils.RTTStats{}
	cfc := flowcontrol.NewConnectionFlowController(1<<30, 1<<30, func(protocol.ByteCount) bool { return true }, rtt, utils.DefaultLogger)
	sfc := flowcontrol.NewStreamFlowController(4, cfc, 1<<20, 1<<20, 1<<20, rtt, utils.DefaultLogger)
	str := newReceiveStream(4, sender, sfc)

	// the reader's script
	var mu sync.Mutex
	var calls []*c03bCall
	for i := 0; i < 3*L+8; i++ {
		// the last L+1 calls are Reads, so that the script always gets to the end of the stream
		calls = append(calls, &c03bCall{peek: i < 2*L+7 && rng.IntN(3) == 0, n: 1 + rng.IntN(1+L/(1+rng.IntN(8)))})
	}
	readerDone := make(chan struct{})
	go func() {
		defer close(readerDone)
		for _, cl := range calls {
			buf := make([]byte, cl.n)
			var n int
			var err error
			if cl.peek {
				n, err = str.Peek(buf)
			} else {
				n, err = str.Read(buf)
			}
			mu.Lock()
			cl.got, cl.err, cl.done = buf[:n], err, true
			mu.Unlock()
			if err != nil && !cl.peek {
				return
			}
			if err != nil && cl.peek && err != io.EOF {
				return
			}
		}
	}()
	have := make([]bool, L)
	finalKnown := false
	rdPos, next := 0, 0 // model read position; index of the first call not yet verified
	nPeek, nBlockedWakeups := 0, 0
	avail := func() int {
		n := 0
		for rdPos+n < L && have[rdPos+n] {
			n++
		}
		return n
	}
	check := func(stage string) bool {
		synctest.Wait()
		mu.Lock()
		defer mu.Unlock()
		for next < len(calls) && calls[next].done {
			cl := calls[next]
			a := avail()
			eofReachable := finalKnown && rdPos+a == L
			switch {
			case cl.peek:
				nPeek++
				want := min(cl.n, L-rdPos)
				switch {
				case cl.err == nil && (len(cl.got) != cl.n || a < cl.n):
					sig, detail = "C03|blocking|peek-overrun", fmt.Sprintf("%s: Peek(%d) at %d returned %d bytes without error with %d available", stage, cl.n, rdPos, len(cl.got), a)
				case cl.err == io.EOF && !(eofReachable && len(cl.got) == want && want < cl.n || eofReachable && rdPos == L && len(cl.got) == 0):
					sig, detail = "C03|blocking|early-eof", fmt.Sprintf("%s: Peek(%d) at %d returned %d bytes and EOF; %d available, final known %v, length %d", stage, cl.n, rdPos, len(cl.got), a, finalKnown, L)
				case cl.err != nil && cl.err != io.EOF:
					sig, detail = "C03|blocking|spurious-error", fmt.Sprintf("%s: Peek: %v", stage, cl.err)
				case !bytes.Equal(cl.got, base[rdPos:rdPos+len(cl.got)]):
					sig, detail = "C03|blocking|wrong-bytes", fmt.Sprintf("%s: Peek(%d) at %d returned other bytes", stage, cl.n, rdPos)
				}
			default:
				k := len(cl.got)
				switch {
				case cl.err != nil && cl.err != io.EOF:
					sig, detail = "C03|blocking|spurious-error", fmt.Sprintf("%s: Read: %v", stage, cl.err)
				case k > a || k > cl.n:
					sig, detail = "C03|blocking|read-overrun", fmt.Sprintf("%s: Read(%d) at %d returned %d bytes with %d available", stage, cl.n, rdPos, k, a)
				case k == 0 && cl.err == nil:
					sig, detail = "C03|blocking|empty-read", fmt.Sprintf("%s: Read(%d) at %d returned (0, nil)", stage, cl.n, rdPos)
				case cl.err == io.EOF && !(finalKnown && rdPos+k == L):
					sig, detail = "C03|blocking|early-eof", fmt.Sprintf("%s: Read(%d) at %d returned %d bytes and EOF; final known %v, length %d", stage, cl.n, rdPos, k, finalKnown, L)
				case !bytes.Equal(cl.got, base[rdPos:rdPos+k]):
					sig, detail = "C03|blocking|wrong-bytes", fmt.Sprintf("%s: Read(%d) at %d returned other bytes", stage, cl.n, rdPos)
				}
				rdPos += k
			}
			if sig != "" {
				return false
			}
			next++
			if cl.err == io.EOF && !cl.peek {
				next = len(calls)
			}
		}
		if next < len(calls) {
			// the pending call must be one that cannot complete yet
			cl := calls[next]
			a := avail()
			eofReachable := finalKnown && rdPos+a == L
			canComplete := a >= 1 || eofReachable
			if cl.peek {
				canComplete = a >= cl.n || eofReachable
			}
			if canComplete {
				kind := "Read"
				if cl.peek {
					kind = "Peek"
				}
				sig, detail = "C03|blocking|stall", fmt.Sprintf("%s: %s(%d) at %d is still blocked with %d contiguous bytes available (final size known: %v, length %d); call %d of the script", stage, kind, cl.n, rdPos, a, finalKnown, L, next)
				return false
			}
			nBlockedWakeups++
		}
		return true
	}
	ok := check("before any delivery")
	now := monotime.Now()
	finAt := rng.IntN(len(deliveries)) // the FIN travels with (a copy of) the last segment, delivered at this point at the latest
	for di, d := range deliveries {
		if !ok {
			break
		}
		f := wire.GetStreamFrame()
		f.StreamID = 4
		f.Offset = protocol.ByteCount(d.off)
		f.Data = f.Data[:d.end-d.off]
		copy(f.Data, base[d.off:d.end])
		f.Fin = d.end == L
		if err := str.handleStreamFrame(f, now); err != nil {
			sig, detail = "C03|blocking|admissible-frame-rejected", fmt.Sprintf("delivery %d [%d,%d): %v", di, d.off, d.end, err)
			ok = false
			break
		}
		for i := d.off; i < d.end; i++ {
			have[i] = true
		}
		if f.Fin {
			finalKnown = true
		}
		if di == finAt && !finalKnown {
			// an empty FIN-only frame announces the final size early
			e := wire.GetStreamFrame()
			e.StreamID, e.Offset, e.Data, e.Fin = 4, protocol.ByteCount(L), e.Data[:0], true
			if err := str.handleStreamFrame(e, now); err != nil {
				sig, detail = "C03|blocking|admissible-frame-rejected", fmt.Sprintf("FIN at %d: %v", L, err)
				ok = false
				break
			}
			finalKnown = true
		}
		ok = check(fmt.Sprintf("after delivery %d of %d", di+1, len(deliveries)))
	}
	if ok {
		mu.Lock()
		if rdPos != L || next < len(calls) {
			sig, detail = "C03|blocking|not-finished", fmt.Sprintf("everything delivered (length %d): reader at %d, %d calls of the script pending", L, rdPos, len(calls)-next)
		}
		mu.Unlock()
	}
	// let the reader go whatever happened
	str.closeForShutdown(io.ErrClosedPipe)
	<-readerDone
	return sig, detail, fmt.Sprintf("blocking l%d s%d d%d p%v w%v", c03Bucket(L), c03Bucket(len(segs)), c03Bucket(len(deliveries)), nPeek > 0, c03Bucket(nBlockedWakeups))
}

func c03Bucket(n int) int {
	switch {
	case n < 4:
		return n
	case n < 16:
		return 4 + n/4
	case n < 128:
		return 8 + n/16
	}
	return 16 + n/128
}
