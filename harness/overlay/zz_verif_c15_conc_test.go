package quic

// C15, part 3 (E4): real goroutines, real time, -race.  One goroutine plays the connection's run
// loop (peer frames, MAX_STREAMS, some completions), the others are application goroutines calling
// Open / OpenSync / Accept and completing (DeleteStream) the streams they obtained.  Calls and
// returns are stamped with one atomic counter; the history is checked with porcupine against the
// sequential map model, per (direction, stream type).  Schedule points in AcceptStream and
// OpenStreamSync (between the unlock and the wait) get random delays.

import (
	"context"
	"fmt"
	"math/bits"
	"math/rand/v2"
	"runtime"
	"sort"
	"sync"
	"sync/atomic"
	"testing"
	"time"

	"github.com/anishathalye/porcupine"

	"github.com/refraction-networking/uquic/internal/flowcontrol"
	"github.com/refraction-networking/uquic/internal/monotime"
	"github.com/refraction-networking/uquic/internal/protocol"
	"github.com/refraction-networking/uquic/internal/utils"
	"github.com/refraction-networking/uquic/internal/verif/evlog"
	"github.com/refraction-networking/uquic/internal/verifhook"
	"github.com/refraction-networking/uquic/internal/wire"
)

const (
	c15KOpen = iota
	c15KSync
	c15KMax
	c15KDelOut
	c15KFrame
	c15KAccept
	c15KDelIn
)

var c15KNames = [...]string{"Open", "OpenSync", "MAX_STREAMS", "Delete(out)", "Frame", "Accept", "Delete(in)"}

// c15CIn is the input of one operation; Part = 2*direction + type (direction 0 = outgoing).
type c15CIn struct {
	Part   int
	Kind   int
	N      int  // stream number / limit
	Lim    int  // configured incoming limit (incoming partitions)
	NoSync bool // Open: no OpenStreamSync call of that type overlaps this call
}

type c15COut struct {
	OK  bool
	N   int    // stream number obtained
	Cls string // frames: error class
}

// c15CState: outgoing: A = opened, B = peer's limit, Mask = live streams;
// incoming: A = opened by the peer, B = accepted, Mask = deleted (completed) streams.
type c15CState struct {
	A, B int
	Mask uint32
}

func c15Advertised(s c15CState, lim int) int {
	low := uint32(1)<<uint(s.B+1) - 2 // bits 1..B
	return lim + bits.OnesCount32(s.Mask&low)
}

var c15ConcModel = porcupine.Model{
	Partition: func(h []porcupine.Operation) [][]porcupine.Operation {
		parts := make([][]porcupine.Operation, 4)
		for _, o := range h {
			p := o.Input.(c15CIn).Part
			parts[p] = append(parts[p], o)
		}
		return parts
	},
	Init: func() any { return c15CState{} },
	Step: func(state, input, output any) (bool, any) {
		s, in, out := state.(c15CState), input.(c15CIn), output.(c15COut)
		switch in.Kind {
		case c15KOpen, c15KSync:
			if !out.OK {
				// failing is legal when the limit is reached, or (Open) while callers are queued
				return in.Kind == c15KSync || !in.NoSync || s.A >= s.B, s
			}
			if out.N != s.A+1 || s.A >= s.B || out.N > 31 {
				return false, s
			}
			s.A++
			s.Mask |= 1 << uint(out.N)
			return true, s
		case c15KMax:
			s.B = max(s.B, in.N)
			return true, s
		case c15KDelOut:
			if !out.OK || s.Mask&(1<<uint(in.N)) == 0 {
				return false, s
			}
			s.Mask &^= 1 << uint(in.N)
			return true, s
		case c15KFrame:
			adv := c15Advertised(s, in.Lim)
			switch out.Cls {
			case "nil":
				if in.N > adv {
					return false, s // the concurrency limit was exceeded
				}
				s.A = max(s.A, in.N)
				return true, s
			case "limit":
				return in.N > adv, s
			}
			return false, s
		case c15KAccept:
			if !out.OK {
				return true, s // cancelled
			}
			if out.N != s.B+1 || s.B >= s.A {
				return false, s // not opened, twice, skipped or out of order
			}
			s.B++
			return true, s
		case c15KDelIn:
			if !out.OK || in.N > s.A || s.Mask&(1<<uint(in.N)) != 0 {
				return false, s
			}
			s.Mask |= 1 << uint(in.N)
			return true, s
		}
		return false, s
	},
	DescribeOperation: func(input, output any) string {
		in, out := input.(c15CIn), output.(c15COut)
		return fmt.Sprintf("%s(%d) -> ok=%v n=%d %s", c15KNames[in.Kind], in.N, out.OK, out.N, out.Cls)
	},
}

type c15CFrame struct {
	ts  int64
	max bool
	t   int
	val int
}

type c15Conc struct {
	server bool
	lim    [2]int
	m      *streamsMap
	clock  atomic.Int64

	mu     sync.Mutex
	ops    []porcupine.Operation
	frames []c15CFrame
	// per incoming stream (type, number): call stamps of the DeleteStream and of the Accept that returned it
	delCall [2]map[int]int64
	accCall [2]map[int]int64
	badID   string
	// OpenStreamSync callers: goroutine id -> record (the enqueue stamp is taken at the schedule
	// point streams.openSync.beforeWait, i.e. after the caller queued itself and released the lock)
	syncers     sync.Map
	syncOps     []*c15Syncer
	cancelStamp int64
}

// c15Syncer is one OpenStreamSync call as seen from outside.
type c15Syncer struct {
	t          int
	call, ret  int64
	enq        atomic.Int64 // 0: never seen waiting
	ok         bool
	n          int
	ownTimeout bool // the caller's own context may have been cancelled before cancelAll
}

var c15CurConc atomic.Pointer[c15Conc]

// c15GoID returns the id of the calling goroutine (from the first line of its stack trace).
func c15GoID() uint64 {
	var buf [40]byte
	b := buf[:runtime.Stack(buf[:], false)]
	var id uint64
	for _, ch := range b[len("goroutine "):] {
		if ch < '0' || ch > '9' {
			break
		}
		id = id*10 + uint64(ch-'0')
	}
	return id
}

// c15NoteWaiting runs at streams.openSync.beforeWait in the caller's goroutine.
func c15NoteWaiting() {
	c := c15CurConc.Load()
	if c == nil {
		return
	}
	if v, ok := c.syncers.Load(c15GoID()); ok {
		sy := v.(*c15Syncer)
		if sy.enq.Load() == 0 {
			sy.enq.Store(c.clock.Add(1))
		}
	}
}

func (c *c15Conc) first(t int, self bool) int {
	f := 0
	if t == c15Uni {
		f = 2
	}
	if c.server == self {
		f++
	}
	return f
}

func (c *c15Conc) sid(t int, self bool, n int) protocol.StreamID {
	return protocol.StreamID(c.first(t, self) + 4*(n-1))
}

func (c *c15Conc) num(t int, self bool, id protocol.StreamID) int {
	f := c.first(t, self)
	if int(id) < f || (int(id)-f)%4 != 0 {
		c.mu.Lock()
		c.badID = fmt.Sprintf("stream ID %d is not of type %d / initiator self=%v", id, t, self)
		c.mu.Unlock()
		return 30
	}
	return (int(id)-f)/4 + 1
}

// advertised is what the peer has been told so far.
func (c *c15Conc) advertised(t int) int {
	c.mu.Lock()
	defer c.mu.Unlock()
	adv := c.lim[t]
	for _, f := range c.frames {
		if f.max && f.t == t && f.val > adv {
			adv = f.val
		}
	}
	return adv
}

func (c *c15Conc) record(client int, in c15CIn, call int64, out c15COut) {
	ret := c.clock.Add(1)
	c.mu.Lock()
	c.ops = append(c.ops, porcupine.Operation{ClientId: client, Input: in, Call: call, Output: out, Return: ret})
	c.mu.Unlock()
}

func (c *c15Conc) del(client, t int, self bool, n int) {
	kind, part := c15KDelIn, 2+t
	if self {
		kind, part = c15KDelOut, t
	}
	call := c.clock.Add(1)
	if !self {
		c.mu.Lock()
		c.delCall[t][n] = call
		c.mu.Unlock()
	}
	err := c.m.DeleteStream(c.sid(t, self, n))
	c.record(client, c15CIn{Part: part, Kind: kind, N: n, Lim: c.lim[t]}, call, c15COut{OK: err == nil})
}

type c15ConcResult struct {
	sig, detail string
	trace       any
	inconcl     string
	fp          string
}

// c15Spin yields n times.  (time.Sleep is avoided for short pauses: on this kind of machine its
// granularity is about a millisecond, which would make a round take 100 ms.)
func c15Spin(n int) {
	for i := 0; i < n; i++ {
		runtime.Gosched()
	}
}

func c15Pause(rng *rand.Rand) {
	switch rng.IntN(8) {
	case 0, 1:
	case 2, 3, 4:
		c15Spin(1 + rng.IntN(4))
	case 5, 6:
		c15Spin(5 + rng.IntN(40))
	default:
		if rng.IntN(8) == 0 {
			time.Sleep(time.Microsecond) // a long descheduling, rarely
		} else {
			c15Spin(50 + rng.IntN(150))
		}
	}
}

// runC15Conc executes one concurrent round and checks it.
//
// A well-behaved peer (hostile == false) uses only the stream credit it was given: the initial
// limit and the MAX_STREAMS frames queued so far.  A hostile peer also names streams beyond it,
// concurrently with the application's completions.
func runC15Conc(seed uint64, hostile bool, st c15Stats) (res c15ConcResult) {
	rng := rand.New(rand.NewPCG(seed, 15))
	c := &c15Conc{server: rng.IntN(2) == 0}
	c.lim[c15Uni], c.lim[c15Bidi] = 1+rng.IntN(3), 1+rng.IntN(3)
	for t := 0; t < 2; t++ {
		c.delCall[t], c.accCall[t] = map[int]int64{}, map[int]int64{}
	}
	pers := protocol.PerspectiveClient
	if c.server {
		pers = protocol.PerspectiveServer
	}
	rtt := &utils.RTTStats{}
	cfc := flowcontrol.NewConnectionFlowController(1<<30, 1<<30, func(protocol.ByteCount) bool { return true }, rtt, utils.DefaultLogger)
	c.m = newStreamsMap(context.Background(), &c15Sender{&c15Run{}},
		func(f wire.Frame) {
			ts := c.clock.Add(1)
			c.mu.Lock()
			switch f := f.(type) {
			case *wire.MaxStreamsFrame:
				c.frames = append(c.frames, c15CFrame{ts, true, int(f.Type) & 1, int(f.MaxStreamNum)})
			case *wire.StreamsBlockedFrame:
				c.frames = append(c.frames, c15CFrame{ts, false, int(f.Type) & 1, int(f.StreamLimit)})
			}
			c.mu.Unlock()
		},
		func(id protocol.StreamID) flowcontrol.StreamFlowController {
			return flowcontrol.NewStreamFlowController(id, cfc, 1<<16, 1<<16, 1<<16, rtt, utils.DefaultLogger)
		},
		uint64(c.lim[c15Bidi]), uint64(c.lim[c15Uni]), pers)

	c15CurConc.Store(c)
	defer c15CurConc.Store(nil)
	ctxAll, cancelAll := context.WithCancel(context.Background())
	defer cancelAll()
	var wg sync.WaitGroup
	var finished atomic.Int32
	client := 0
	spawn := func(f func(id int, rng *rand.Rand)) {
		id := client
		client++
		grng := rand.New(rand.NewPCG(seed, uint64(1000+id)))
		wg.Add(1)
		go func() {
			defer wg.Done()
			defer finished.Add(1)
			f(id, grng)
		}()
	}

	// the streams the run loop completes itself, right after they were opened (before they are accepted)
	// A type is "static" in a round if its incoming streams are never completed: then no credit is
	// issued, and the peer may be hostile for that type in every job.
	early := [2]map[int]bool{{}, {}}
	var static [2]bool
	for t := 0; t < 2; t++ {
		static[t] = !hostile && rng.IntN(3) == 0
		for n := 1; n <= 8 && !static[t]; n++ {
			if rng.IntN(3) == 0 {
				early[t][n] = true
			}
		}
	}

	// ---- the run loop: peer frames, MAX_STREAMS, early completions
	type ev struct {
		kind, t, n int
	}
	var lists [][]ev
	for t := 0; t < 2; t++ {
		var fr, mx []ev
		total := c.lim[t] + 1 + rng.IntN(3) // stream numbers the peer will try to use
		for n := 1; n <= total; n++ {
			for k := 1 + rng.IntN(2); k > 0; k-- {
				fr = append(fr, ev{c15KFrame, t, n})
			}
			if rng.IntN(5) == 0 {
				fr = append(fr, ev{c15KFrame, t, n + 1 + rng.IntN(2)}) // skipping ahead
			}
		}
		credit := 0
		for k := 2 + rng.IntN(3); k > 0; k-- {
			credit += rng.IntN(3)
			mx = append(mx, ev{c15KMax, t, credit})
			if rng.IntN(4) == 0 {
				mx = append(mx, ev{c15KMax, t, rng.IntN(credit + 1)}) // a stale frame
			}
		}
		lists = append(lists, fr, mx)
	}
	var script []ev
	for len(lists) > 0 { // random merge keeping the order within each list
		i := rng.IntN(len(lists))
		script = append(script, lists[i][0])
		if lists[i] = lists[i][1:]; len(lists[i]) == 0 {
			lists = append(lists[:i], lists[i+1:]...)
		}
	}
	loopDone := make(chan struct{})
	spawn(func(id int, rng *rand.Rand) {
		defer close(loopDone)
		var highest [2]int
		now := monotime.Now()
		for _, e := range script {
			c15Pause(rng)
			switch e.kind {
			case c15KMax:
				call := c.clock.Add(1)
				c.m.HandleMaxStreamsFrame(&wire.MaxStreamsFrame{Type: protocol.StreamType(e.t), MaxStreamNum: protocol.StreamNum(e.n)})
				c.record(id, c15CIn{Part: e.t, Kind: c15KMax, N: e.n}, call, c15COut{OK: true})
			case c15KFrame:
				if !hostile && !static[e.t] {
					ok := false
					for try := 0; try < 40 && !ok; try++ {
						if ok = e.n <= c.advertised(e.t); !ok {
							c15Spin(10)
						}
					}
					if !ok {
						st["conc_frames_withheld"]++
						continue
					}
				}
				call := c.clock.Add(1)
				var err error
				sid := c.sid(e.t, false, e.n)
				if e.n%2 == 0 {
					err = c.m.HandleStreamFrame(&wire.StreamFrame{StreamID: sid}, now)
				} else {
					err = c.m.HandleStreamDataBlockedFrame(&wire.StreamDataBlockedFrame{StreamID: sid})
				}
				cls := c15ErrClass(err)
				c.record(id, c15CIn{Part: 2 + e.t, Kind: c15KFrame, N: e.n, Lim: c.lim[e.t]}, call, c15COut{OK: err == nil, Cls: cls})
				if err == nil && e.n > highest[e.t] {
					for n := highest[e.t] + 1; n <= e.n; n++ {
						if early[e.t][n] {
							c.del(id, e.t, false, n)
						}
					}
					highest[e.t] = e.n
				}
			}
		}
	})

	// ---- application goroutines
	for t := 0; t < 2; t++ {
		nOpen := 3 + rng.IntN(3)
		for k := 0; k < nOpen; k++ {
			mode := rng.IntN(4) // 0 Open, 1-2 OpenSync, 3 OpenSync with a short timeout
			spawn(func(id int, rng *rand.Rand) {
				c15Pause(rng)
				ctx := ctxAll
				if mode == 3 {
					var cancel context.CancelFunc
					ctx, cancel = context.WithCancel(ctxAll)
					defer cancel()
					n := 5 + rng.IntN(300)
					wg.Add(1)
					go func() {
						defer wg.Done()
						c15Spin(n)
						cancel()
					}()
				}
				kind := c15KSync
				if mode == 0 {
					kind = c15KOpen
				}
				var sy *c15Syncer
				if mode != 0 {
					sy = &c15Syncer{t: t, ownTimeout: mode == 3}
					c.syncers.Store(c15GoID(), sy)
				}
				call := c.clock.Add(1)
				var sid protocol.StreamID
				var err error
				switch {
				case mode == 0 && t == c15Bidi:
					var s *Stream
					if s, err = c.m.OpenStream(); err == nil {
						sid = s.StreamID()
					}
				case mode == 0:
					var s *SendStream
					if s, err = c.m.OpenUniStream(); err == nil {
						sid = s.StreamID()
					}
				case t == c15Bidi:
					var s *Stream
					if s, err = c.m.OpenStreamSync(ctx); err == nil {
						sid = s.StreamID()
					}
				default:
					var s *SendStream
					if s, err = c.m.OpenUniStreamSync(ctx); err == nil {
						sid = s.StreamID()
					}
				}
				out := c15COut{OK: err == nil}
				if err == nil {
					out.N = c.num(t, true, sid)
				}
				if sy != nil {
					c.syncers.Delete(c15GoID())
					sy.call, sy.ret, sy.ok, sy.n = call, c.clock.Add(1), err == nil, out.N
					c.mu.Lock()
					c.syncOps = append(c.syncOps, sy)
					c.mu.Unlock()
				}
				c.record(id, c15CIn{Part: t, Kind: kind}, call, out)
				if err == nil {
					c15Pause(rng)
					c.del(id, t, true, out.N)
				}
			})
		}
		nAcc := 2 + rng.IntN(3)
		for k := 0; k < nAcc; k++ {
			spawn(func(id int, rng *rand.Rand) {
				c15Pause(rng)
				for round := 0; round < 2; round++ {
					call := c.clock.Add(1)
					var sid protocol.StreamID
					var err error
					if t == c15Bidi {
						var s *Stream
						if s, err = c.m.AcceptStream(ctxAll); err == nil {
							sid = s.StreamID()
						}
					} else {
						var s *ReceiveStream
						if s, err = c.m.AcceptUniStream(ctxAll); err == nil {
							sid = s.StreamID()
						}
					}
					out := c15COut{OK: err == nil}
					if err == nil {
						out.N = c.num(t, false, sid)
						c.mu.Lock()
						c.accCall[t][out.N] = call
						c.mu.Unlock()
					}
					c.record(id, c15CIn{Part: 2 + t, Kind: c15KAccept, Lim: c.lim[t]}, call, out)
					if err != nil {
						return
					}
					c15Pause(rng)
					if !early[t][out.N] && !static[t] {
						c.del(id, t, false, out.N)
					}
					if rng.IntN(2) == 0 {
						return
					}
				}
			})
		}
	}

	// ---- let it run: until the run loop is through and the application goroutines have had
	// time to react, then cancel everything that is still blocked
	<-loopDone
	for i := 0; i < 3000 && int(finished.Load()) < client; i++ {
		runtime.Gosched()
	}
	c.cancelStamp = c.clock.Add(1)
	cancelAll()
	wg.Wait()
	// quiescent: the limit as the map enforces it now must be the one the history explains
	for t := 0; t < 2; t++ {
		adv := c.advertised(t)
		for _, n := range []int{adv + 1, adv} {
			if n < 1 {
				continue
			}
			call := c.clock.Add(1)
			err := c.m.HandleStreamDataBlockedFrame(&wire.StreamDataBlockedFrame{StreamID: c.sid(t, false, n)})
			c.record(client, c15CIn{Part: 2 + t, Kind: c15KFrame, N: n, Lim: c.lim[t]}, call, c15COut{OK: err == nil, Cls: c15ErrClass(err)})
		}
	}
	c.m.CloseWithError(c15CloseErr)

	return c.check(st)
}

func (c *c15Conc) check(st c15Stats) (res c15ConcResult) {
	fail := func(sig, f string, a ...any) {
		if res.sig == "" {
			res.sig, res.detail = sig, fmt.Sprintf(f, a...)
		}
	}
	describe := func(ops []porcupine.Operation) []string {
		sort.Slice(ops, func(i, j int) bool { return ops[i].Call < ops[j].Call })
		var out []string
		for _, o := range ops {
			out = append(out, fmt.Sprintf("[%d,%d] g%d %s", o.Call, o.Return, o.ClientId, c15ConcModel.DescribeOperation(o.Input, o.Output)))
		}
		return out
	}
	if c.badID != "" {
		fail("C15|conc|wrong-id", "%s", c.badID)
	}
	// Open: does an OpenStreamSync call overlap it?
	for i := range c.ops {
		in := c.ops[i].Input.(c15CIn)
		if in.Kind != c15KOpen {
			continue
		}
		in.NoSync = true
		for j := range c.ops {
			x := c.ops[j].Input.(c15CIn)
			if x.Kind == c15KSync && x.Part == in.Part && c.ops[j].Call <= c.ops[i].Return && c.ops[j].Return >= c.ops[i].Call {
				in.NoSync = false
			}
		}
		c.ops[i].Input = in
	}
	// drop the operations that are legal in every state (cancelled / failed blocking calls)
	var ops []porcupine.Operation
	var kinds [7][2]int
	for _, o := range c.ops {
		in, out := o.Input.(c15CIn), o.Output.(c15COut)
		b := 0
		if out.OK {
			b = 1
		}
		kinds[in.Kind][b]++
		st[fmt.Sprintf("conc_%s_ok%d", c15KNames[in.Kind], b)]++
		if !out.OK && (in.Kind == c15KSync || in.Kind == c15KAccept || (in.Kind == c15KOpen && !in.NoSync)) {
			continue
		}
		ops = append(ops, o)
	}
	st["conc_ops"] += int64(len(c.ops))
	parts := c15ConcModel.Partition(ops)
	for p, part := range parts {
		if len(part) == 0 {
			continue
		}
		st["max:conc_partition_ops"] = max(st["max:conc_partition_ops"], int64(len(part)))
		m := c15ConcModel
		m.Partition = nil
		switch porcupine.CheckOperationsTimeout(m, part, 20*time.Second) {
		case porcupine.Illegal:
			side := [...]string{"outgoing", "outgoing", "incoming", "incoming"}[p]
			fail("C15|conc|not-linearizable|"+side, "history of %s streams of type %d (limit %d) has no linearization in the sequential map model", side, p&1, c.lim[p&1])
			if res.trace == nil {
				res.trace = map[string]any{"server": c.server, "limits": c.lim, "partition": p, "ops": describe(part)}
			}
		case porcupine.Unknown:
			res.inconcl = fmt.Sprintf("porcupine timeout on a partition of %d operations", len(part))
		}
	}
	// arrival order: caller A was seen waiting (queued, lock released) before caller B even called.
	// Then B can only get a stream after A left the queue: A holds a lower stream number, or A's
	// own context was cancelled.  (B's fast path needs an empty queue; B's place is behind A.)
	for _, a := range c.syncOps {
		ea := a.enq.Load()
		if ea == 0 {
			continue
		}
		st["conc_sync_seen_waiting"]++
		for _, b := range c.syncOps {
			if b == a || b.t != a.t || !b.ok || b.call < ea {
				continue
			}
			st["conc_sync_ordered_pairs"]++
			switch {
			case a.ok && a.n > b.n:
				fail("C15|conc|sync-order", "OpenStreamSync caller seen waiting at stamp %d got stream number %d, a caller that arrived later (call stamp %d) got the lower number %d (type %d)", ea, a.n, b.call, b.n, a.t)
			case !a.ok && !a.ownTimeout && b.ret < c.cancelStamp:
				fail("C15|conc|sync-order", "OpenStreamSync caller seen waiting at stamp %d (no cancellation before stamp %d) never got a stream, a caller that arrived later (call stamp %d, returned %d) got stream number %d (type %d)", ea, c.cancelStamp, b.call, b.ret, b.n, a.t)
			}
		}
	}
	// control frames (stamped in the callback, which runs under the map's mutex)
	sort.Slice(c.frames, func(i, j int) bool { return c.frames[i].ts < c.frames[j].ts })
	var nMax [2]int
	blocked := map[[2]int]int{}
	for _, f := range c.frames {
		if !f.max {
			st["conc_streams_blocked"]++
			blocked[[2]int{f.t, f.val}]++
			if blocked[[2]int{f.t, f.val}] > 1 {
				fail("C15|conc|streams-blocked-duplicate", "STREAMS_BLOCKED(type %d, limit %d) queued twice", f.t, f.val)
			}
			continue
		}
		st["conc_max_streams"]++
		nMax[f.t]++
		if want := c.lim[f.t] + nMax[f.t]; f.val != want {
			sig := "C15|conc|credit-without-completion"
			if f.val < want {
				sig = "C15|conc|max-streams-sequence"
			}
			fail(sig, "MAX_STREAMS(type %d) number %d carries %d, expected %d (limit %d)", f.t, nMax[f.t], f.val, want, c.lim[f.t])
		}
		// at least nMax streams must have been both deleted and accepted by calls that started before the frame
		complete := 0
		for n, d := range c.delCall[f.t] {
			if a, ok := c.accCall[f.t][n]; ok && d < f.ts && a < f.ts {
				complete++
			}
		}
		if complete < nMax[f.t] {
			fail("C15|conc|credit-without-completion", "MAX_STREAMS(type %d) %d queued when only %d streams were accepted and completed", f.t, f.val, complete)
		}
	}
	for t := 0; t < 2; t++ {
		complete := 0
		for n := range c.delCall[t] {
			if _, ok := c.accCall[t][n]; ok {
				complete++
			}
		}
		st["conc_completed_in"] += int64(complete)
		if complete != nMax[t] {
			fail("C15|conc|credit-not-issued", "%d incoming streams of type %d accepted and completed, %d MAX_STREAMS frames queued", complete, t, nMax[t])
		}
	}
	if res.sig != "" && res.trace == nil {
		res.trace = map[string]any{"server": c.server, "limits": c.lim, "ops": describe(c.ops), "frames": fmt.Sprint(c.frames)}
	}
	res.fp = fmt.Sprintf("conc %v", c.server)
	for k := range kinds {
		res.fp += fmt.Sprintf(" %d/%d", c15Bucket(kinds[k][0]), c15Bucket(kinds[k][1]))
	}
	res.fp += fmt.Sprintf(" f%d b%d", c15Bucket(nMax[0]+nMax[1]), c15Bucket(len(blocked)))
	return res
}

func TestVerifC15Conc(t *testing.T)        { c15ConcTest(t, false) }
func TestVerifC15ConcHostile(t *testing.T) { c15ConcTest(t, true) }

func c15ConcTest(t *testing.T, hostile bool) {
	if !verifhook.Enabled {
		t.Fatal("built without -tags verif")
	}
	l := evlog.Open("C15")
	defer l.Close()
	var hookCtr atomic.Uint64
	delay := func(string) {
		x := hookCtr.Add(1) * 0x9E3779B97F4A7C15
		switch (x >> 40) % 16 {
		case 0, 1, 2:
		case 3, 4, 5, 6, 7:
			c15Spin(1 + int((x>>20)%4))
		case 8, 9, 10, 11, 12:
			c15Spin(5 + int((x>>20)%60))
		case 13, 14:
			c15Spin(60 + int((x>>20)%200))
		default:
			time.Sleep(time.Microsecond)
		}
	}
	verifhook.SetAction("streams.accept.beforeWait", delay)
	verifhook.SetAction("streams.openSync.beforeWait", func(n string) { c15NoteWaiting(); delay(n) })
	verifhook.SetAction("streams.openSync.afterWake", delay)
	defer verifhook.ClearActions()

	rounds, batch, name := l.Pick(3000, 60000), 50, "conc"
	if hostile {
		rounds, batch, name = l.Pick(300, 6000), 10, "conc-hostile"
	}
	for bi := 0; bi*batch < rounds; bi++ {
		if !l.Mine(bi) {
			continue
		}
		id := fmt.Sprintf("C15/%s/batch%d", name, bi)
		cs := l.Begin(id, map[string]any{"rounds": batch})
		if cs == nil {
			continue
		}
		seedRng := l.Rand(id)
		st := c15Stats{}
		nv := 0
		for i := 0; i < batch; i++ {
			seed := seedRng.Uint64()
			res := runC15Conc(seed, hostile, st)
			cs.Eval(res.fp)
			if res.inconcl != "" {
				cs.Inconclusive(res.inconcl)
			}
			if res.sig != "" {
				if nv++; nv <= 3 {
					cs.Violation(res.sig, res.detail, map[string]any{"round_seed": seed, "round": res.trace})
				}
			}
		}
		st[name+"_rounds"] += int64(batch)
		c15Flush(l, st)
		cs.End()
	}
	for k, v := range verifhook.Hits() {
		if k == "streams.accept.beforeWait" || k == "streams.openSync.beforeWait" || k == "streams.openSync.afterWake" {
			l.Count("hook_hits_"+k, int64(v))
		}
	}
}
