package quicvarint

// C08 — varint codec: total, exact consumption, round trip, predicted length.
//
// Every 1- and 2-byte string exhaustively, every width boundary +-1 in every encodable width,
// and random strings are decoded with Parse, Read (ByteReader and plain io.Reader) and Peek next to
// an independent reference decoder; Append / AppendWithLen / Len are checked against each other.

import (
	"bytes"
	"encoding/hex"
	"fmt"
	"io"
	"testing"

	"github.com/refraction-networking/uquic/internal/verif/evlog"
)

type c08Peeker struct{ b []byte }

func (p *c08Peeker) Peek(b []byte) (int, error) {
	n := copy(b, p.b)
	if n < len(b) {
		return n, io.EOF
	}
	return n, nil
}

// c08Slow is an io.Reader without ReadByte that returns one byte per call and (0, nil) in between.
type c08Slow struct {
	b    []byte
	tick bool
}

func (s *c08Slow) Read(p []byte) (int, error) {
	s.tick = !s.tick
	if s.tick || len(p) == 0 {
		return 0, nil
	}
	if len(s.b) == 0 {
		return 0, io.EOF
	}
	p[0] = s.b[0]
	s.b = s.b[1:]
	return 1, nil
}

func c08Ref(b []byte) (v uint64, n int, ok bool) {
	if len(b) == 0 {
		return 0, 0, false
	}
	n = 1 << (b[0] >> 6)
	if len(b) < n {
		return 0, 0, false
	}
	v = uint64(b[0] & 0x3f)
	for _, c := range b[1:n] {
		v = v<<8 | uint64(c)
	}
	return v, n, true
}

func c08RefLen(v uint64) int {
	switch {
	case v < 1<<6:
		return 1
	case v < 1<<14:
		return 2
	case v < 1<<30:
		return 4
	}
	return 8
}

type c08VX struct {
	l    *evlog.Log
	c    *evlog.Case
	seen map[string]int
}

func (x *c08VX) viol(sig, detail string, in []byte) {
	x.seen[sig]++
	if x.seen[sig] > 3 {
		return
	}
	x.c.Violation(sig, detail, map[string]any{"hex": hex.EncodeToString(in)})
}

func c08Panics(fn func()) (pv any) {
	defer func() { pv = recover() }()
	fn()
	return nil
}

// check decodes one byte string with every entry point and returns the fingerprint.
func (x *c08VX) check(b []byte) string {
	want, wantN, ok := c08Ref(b)
	fp := ""
	pv := c08Panics(func() {
		v, n, err := Parse(b)
		if ok != (err == nil) || (ok && (v != want || n != wantN)) || (!ok && n != 0) || n < 0 || n > len(b) {
			x.viol("C08|varint|Parse-differs", fmt.Sprintf("Parse = (%d, %d, %v), reference (%d, %d, ok=%v)", v, n, err, want, wantN, ok), b)
		}
		br := bytes.NewReader(b)
		v, err = Read(br)
		if ok != (err == nil) || (ok && (v != want || len(b)-br.Len() != wantN)) {
			x.viol("C08|varint|Read-differs", fmt.Sprintf("Read = (%d, %v) consuming %d, reference (%d, %d, ok=%v)", v, err, len(b)-br.Len(), want, wantN, ok), b)
		}
		slow := &c08Slow{b: b}
		v, err = Read(NewReader(slow))
		if ok != (err == nil) || (ok && (v != want || len(b)-len(slow.b) != wantN)) {
			x.viol("C08|varint|Read-differs|io.Reader", fmt.Sprintf("Read = (%d, %v) consuming %d, reference (%d, %d, ok=%v)", v, err, len(b)-len(slow.b), want, wantN, ok), b)
		}
		v, err = Peek(&c08Peeker{b})
		if ok != (err == nil) || (ok && v != want) {
			x.viol("C08|varint|Peek-differs", fmt.Sprintf("Peek = (%d, %v), reference (%d, ok=%v)", v, err, want, ok), b)
		}
		if !ok {
			fp = fmt.Sprintf("trunc|w%d|have%d", 1<<(firstOr(b)>>6), len(b))
			return
		}
		x.l.Count(fmt.Sprintf("varints_decoded_w%d", wantN), 1)
		// encoders
		enc := Append(nil, want)
		if len(enc) != Len(want) || Len(want) != c08RefLen(want) {
			x.viol("C08|varint|length-mismatch", fmt.Sprintf("Len(%d)=%d, Append wrote %d bytes, minimal is %d", want, Len(want), len(enc), c08RefLen(want)), b)
		}
		if v2, n2, ok2 := c08Ref(enc); !ok2 || v2 != want || n2 != len(enc) {
			x.viol("C08|varint|roundtrip-differs", fmt.Sprintf("Append(%d) = %x", want, enc), b)
		}
		if wantN == c08RefLen(want) && !bytes.Equal(enc, b[:wantN]) {
			x.viol("C08|varint|roundtrip-differs", fmt.Sprintf("minimal input %x re-encoded as %x", b[:wantN], enc), b)
		}
		pre := []byte{0xaa, 0xbb}
		if got := Append(append([]byte(nil), pre...), want); !bytes.Equal(got, append(append([]byte(nil), pre...), enc...)) {
			x.viol("C08|varint|append-clobbers-prefix", fmt.Sprintf("%x", got), b)
		}
		for _, w := range []int{1, 2, 4, 8} {
			if w < c08RefLen(want) {
				if c08Panics(func() { AppendWithLen(nil, want, w) }) == nil {
					x.viol("C08|varint|AppendWithLen-truncates", fmt.Sprintf("AppendWithLen(%d, %d) did not refuse", want, w), b)
				}
				continue
			}
			e := AppendWithLen(nil, want, w)
			v2, n2, ok2 := c08Ref(e)
			if len(e) != w || !ok2 || v2 != want || n2 != w {
				x.viol("C08|varint|AppendWithLen-differs", fmt.Sprintf("AppendWithLen(%d, %d) = %x", want, w, e), b)
			}
			if w == wantN && !bytes.Equal(e, b[:wantN]) {
				x.viol("C08|varint|AppendWithLen-differs", fmt.Sprintf("AppendWithLen(%d, %d) = %x, input was %x", want, w, e, b[:wantN]), b)
			}
		}
		fp = fmt.Sprintf("ok|w%d|min%d|more%v", wantN, c08RefLen(want), len(b) > wantN)
	})
	if pv != nil {
		x.viol("C08|varint|panic", fmt.Sprintf("panic: %v", pv), b)
		fp = "panic"
	}
	return fp
}

func firstOr(b []byte) byte {
	if len(b) == 0 {
		return 0
	}
	return b[0]
}

func TestVerifC08Varint(t *testing.T) {
	l := evlog.Open("C08")
	defer l.Close()
	x := &c08VX{l: l, seen: map[string]int{}}
	idx := 0
	next := func(id string) bool {
		mine := l.Mine(idx)
		idx++
		if !mine {
			return false
		}
		x.c = l.Begin(id, nil)
		return x.c != nil
	}
	if next("varint/exhaustive-1-byte") {
		x.c.Eval(x.check(nil))
		for a := 0; a < 256; a++ {
			x.c.Eval(x.check([]byte{byte(a)}))
			l.Count("varint_strings_1byte", 1)
		}
		x.c.End()
	}
	for part := 0; part < 4; part++ {
		if !next(fmt.Sprintf("varint/exhaustive-2-byte/%d", part)) {
			continue
		}
		for a := part * 64; a < part*64+64; a++ {
			for b := 0; b < 256; b++ {
				x.c.Eval(x.check([]byte{byte(a), byte(b)}))
				l.Count("varint_strings_2byte", 1)
			}
		}
		x.c.End()
	}
	if next("varint/boundaries") {
		var vals []uint64
		for _, s := range []uint{6, 8, 14, 16, 24, 30, 32, 48, 56, 62} {
			for d := uint64(0); d < 3; d++ {
				vals = append(vals, 1<<s-d-1+1, 1<<s-d-1, 1<<s+d)
			}
		}
		vals = append(vals, 0, 1, 2)
		for _, v := range vals {
			if v > Max {
				if c08Panics(func() { Append(nil, v) }) == nil || c08Panics(func() { Len(v) }) == nil {
					x.viol("C08|varint|out-of-range-accepted", fmt.Sprintf("Append/Len accepted %d > 2^62-1", v), nil)
				}
				l.Count("varint_over_max_refused", 1)
				continue
			}
			for _, w := range []int{1, 2, 4, 8} {
				if w < c08RefLen(v) {
					continue
				}
				e := AppendWithLen(nil, v, w)
				for cut := 0; cut <= len(e); cut++ {
					x.c.Eval(x.check(e[:cut]))
				}
				x.c.Eval(x.check(append(e, 0xff, 0x01)))
				l.Count("varint_boundary_encodings", 1)
			}
		}
		x.c.End()
	}
	for bi := range l.Pick(8, 160) {
		id := fmt.Sprintf("varint/random/%d", bi)
		if !next(id) {
			continue
		}
		r := l.Rand(id)
		for range 5000 {
			b := make([]byte, r.IntN(12))
			for i := range b {
				b[i] = byte(r.Uint32())
			}
			if len(b) > 0 && r.IntN(2) == 0 {
				b[0] = b[0]&0x3f | byte(r.IntN(4))<<6
			}
			x.c.Eval(x.check(b))
			l.Count("varint_strings_random", 1)
		}
		x.c.End()
	}
}
