package quic

// C16 — connection IDs: limits honoured both ways, retirements reported, routing clean
// (component level, engine E2; the Transport-routing / after-close part is built with the
// network simulator elsewhere).
//
// Runtime monitor: the real connIDManager (peer-issued IDs) and connIDGenerator (own IDs) are
// driven the way connection.go / u_connection.go drive them, with recording callbacks, next to
// a reference model.  The manager is observed black-box only (Get, GetConnIDForPath,
// IsActiveStatelessResetToken, the queued control frames and the reset-token callbacks).
//
// Model parameter "advertised": the active_connection_id_limit the endpoint itself put on the
// wire: protocol.MaxActiveConnectionIDs for ordinary connections, the value of the spec's
// transport parameter for spec-driven (uQUIC) clients, handed to the manager exactly like
// u_connection.go does (SetConnectionIDLimit(params.ActiveConnectionIDLimit)).

import (
	"errors"
	"fmt"
	"math/rand/v2"
	"sort"
	"strings"
	"testing"
	"time"

	"github.com/refraction-networking/uquic/internal/monotime"
	"github.com/refraction-networking/uquic/internal/protocol"
	"github.com/refraction-networking/uquic/internal/qerr"
	"github.com/refraction-networking/uquic/internal/verif/evlog"
	"github.com/refraction-networking/uquic/internal/wire"
	tls "github.com/refraction-networking/utls"
)

// ---------------------------------------------------------------------------------------
// deterministic contents

func c16CID(seq uint64, variant int, n int) protocol.ConnectionID {
	if n == 0 {
		return protocol.ConnectionID{}
	}
	b := make([]byte, n)
	x := seq*0x9E3779B97F4A7C15 + uint64(variant)*0x1000193 + 0xC16
	for i := range b {
		x ^= x << 13
		x ^= x >> 7
		x ^= x << 17
		b[i] = byte(x >> 24)
	}
	// make collisions between (seq, variant) pairs impossible for the lengths used (n >= 3)
	b[0] = byte(seq)
	if n > 1 {
		b[1] = byte(seq>>8)<<2 | byte(variant&3)
	}
	return protocol.ParseConnectionID(b)
}

func c16Tok(seq uint64, variant int) protocol.StatelessResetToken {
	var t protocol.StatelessResetToken
	x := seq*0xD1B54A32D192ED03 + uint64(variant)*7919 + 0x16C
	for i := range t {
		x ^= x << 13
		x ^= x >> 7
		x ^= x << 17
		t[i] = byte(x >> 16)
	}
	t[0] = byte(seq)
	t[1] = byte(seq>>8)<<2 | byte(variant&3)
	t[2] = 0x16
	return t
}

// ---------------------------------------------------------------------------------------
// connIDManager (IDs issued by the peer)

type c16Frame struct {
	Seq, RPT uint64
	CV, TV   int // content variants of the connection ID / of the token (0 = what the peer really issued)
}

func (f c16Frame) String() string {
	s := fmt.Sprintf("ncid(seq=%d,rpt=%d", f.Seq, f.RPT)
	if f.CV != 0 || f.TV != 0 {
		s += fmt.Sprintf(",cid'%d,tok'%d", f.CV, f.TV)
	}
	return s + ")"
}

type c16MRun struct {
	m *connIDManager

	adv        int  // limit the endpoint advertised itself
	specDriven bool // manager set up like u_connection.go
	cidLen     int

	// observations
	reg        map[protocol.StatelessResetToken]bool // registered tokens (set semantics, like packetHandlerMap)
	reported   map[uint64]int                        // RETIRE_CONNECTION_ID frames queued, by sequence number
	nRetire    int
	otherFrame string

	// reference model
	known       map[uint64]c16Frame // first content accepted per sequence number (0 = the handshake ID)
	tok0        bool                // the peer gave a stateless reset token for sequence number 0
	cidSeq      map[protocol.ConnectionID]uint64
	tokSeq      map[protocol.StatelessResetToken]uint64
	active      uint64
	activeKnown bool
	probing     map[pathID]uint64
	maxRPT      uint64
	fuzzyTokens bool // conflicting contents were accepted: which token belongs to a seq is ambiguous
	// input classes of the two known weaknesses around highestProbingID (see add): per sequence number
	everProbed   map[uint64]bool // handed to a probing path at some time
	dupProbed    map[uint64]bool // a duplicate NEW_CONNECTION_ID arrived while/after the seq was bound to a probing path
	dupActiveLow map[uint64]bool // a duplicate arrived while the seq was the active one and a higher seq was bound to a path
	errored      bool
	closed       bool
	outcome      string

	rotations, rotByCount, lenient int

	trace []string
	sig   string
	err   string
}

func (r *c16MRun) fail(sig, f string, a ...any) {
	if r.err == "" {
		r.sig = sig
		r.err = fmt.Sprintf(f, a...)
	}
}

func (r *c16MRun) log(f string, a ...any) { r.trace = append(r.trace, fmt.Sprintf(f, a...)) }

func newC16MRun(adv int, specDriven bool, cidLen int) *c16MRun {
	r := &c16MRun{
		adv: adv, specDriven: specDriven, cidLen: cidLen,
		reg:      map[protocol.StatelessResetToken]bool{},
		reported: map[uint64]int{},
		known:    map[uint64]c16Frame{},
		cidSeq:   map[protocol.ConnectionID]uint64{},
		tokSeq:   map[protocol.StatelessResetToken]uint64{},
		probing:  map[pathID]uint64{},

		everProbed: map[uint64]bool{}, dupProbed: map[uint64]bool{}, dupActiveLow: map[uint64]bool{},
	}
	init := c16CID(0, 0, cidLen)
	r.known[0] = c16Frame{}
	r.cidSeq[init] = 0
	r.activeKnown = true
	r.m = newConnIDManager(
		init,
		func(t protocol.StatelessResetToken) { r.reg[t] = true },
		func(t protocol.StatelessResetToken) { delete(r.reg, t) },
		func(f wire.Frame) {
			if rf, ok := f.(*wire.RetireConnectionIDFrame); ok {
				r.reported[rf.SequenceNumber]++
				r.nRetire++
				return
			}
			r.otherFrame = fmt.Sprintf("%T", f)
		},
	)
	return r
}

func (r *c16MRun) tokenOf(seq uint64) (protocol.StatelessResetToken, bool) {
	if seq == 0 {
		return c16Tok(0, 0), r.tok0
	}
	f, ok := r.known[seq]
	if !ok {
		return protocol.StatelessResetToken{}, false
	}
	return c16Tok(seq, f.TV), true
}

// unretired returns the sequence numbers received from the peer and not reported as retired,
// and how many of them are bound to a probing path.
func (r *c16MRun) unretired() (all int, onPaths int) {
	for s := range r.known {
		if r.reported[s] == 0 {
			all++
		}
	}
	seen := map[uint64]bool{}
	for _, s := range r.probing {
		if r.reported[s] == 0 && !seen[s] {
			seen[s] = true
			onPaths++
		}
	}
	return
}

// suffix gives the input class for a violation that concerns sequence number s.
func (r *c16MRun) suffix(s uint64) string {
	switch {
	case r.dupProbed[s]:
		return "|duplicate-ncid-for-path-probing-id"
	case r.dupActiveLow[s]:
		return "|duplicate-ncid-for-active-id-below-probing-id"
	}
	// not about a sequence number that was hit itself: the history is polluted if either class occurred
	// before (two thirds of the histories are generated without them, see NoDupInUse)
	return r.anySuffix()
}

func (r *c16MRun) anySuffix() string {
	if len(r.dupProbed) > 0 {
		return "|duplicate-ncid-for-path-probing-id"
	}
	if len(r.dupActiveLow) > 0 {
		return "|duplicate-ncid-for-active-id-below-probing-id"
	}
	return ""
}

// dupInUse: would delivering a (duplicate) frame for seq hit one of the two input classes?
func (r *c16MRun) dupInUse(seq uint64) bool {
	if r.everProbed[seq] {
		return true
	}
	if _, ok := r.known[seq]; ok && (!r.activeKnown || r.active == seq) {
		for s := range r.everProbed {
			if s > seq {
				return true
			}
		}
	}
	return false
}

// checkTokens: stateless-reset tokens registered exactly for the peer IDs in use.
func (r *c16MRun) checkTokens(where string) {
	if r.closed {
		return
	}
	// (a) registration equals the manager's own notion of "active" tokens
	for t := range r.reg {
		if !r.m.IsActiveStatelessResetToken(t) {
			r.fail("C16|connIDManager|reset-token-registered-for-id-not-in-use"+r.suffix(r.tokSeq[t]), "%s: token of seq %d is registered but IsActiveStatelessResetToken is false", where, r.tokSeq[t])
		}
	}
	for t, s := range r.tokSeq {
		if r.m.IsActiveStatelessResetToken(t) && !r.reg[t] {
			r.fail("C16|connIDManager|reset-token-missing-for-id-in-use"+r.suffix(s), "%s: token of seq %d is active for the manager but not registered", where, s)
		}
	}
	// (b) registration equals the model's set of IDs in use
	want := map[protocol.StatelessResetToken]uint64{}
	for _, s := range r.probing {
		if t, ok := r.tokenOf(s); ok {
			want[t] = s
		}
	}
	if r.fuzzyTokens {
		// only demand that nothing belonging to a retired, unused sequence number is registered
		for t := range r.reg {
			s, ok := r.tokSeq[t]
			if !ok {
				r.fail("C16|connIDManager|reset-token-registered-for-id-not-in-use", "%s: unknown token registered", where)
				continue
			}
			inUse := false
			for _, p := range r.probing {
				inUse = inUse || p == s
			}
			if r.reported[s] > 0 && !inUse && !(r.activeKnown && r.active == s) {
				r.extraToken(where, t, "token of retired seq still registered")
			}
		}
		return
	}
	if r.activeKnown {
		if t, ok := r.tokenOf(r.active); ok {
			want[t] = r.active
		}
		for t, s := range want {
			if !r.reg[t] {
				r.fail("C16|connIDManager|reset-token-missing-for-id-in-use"+r.suffix(s), "%s: seq %d is in use (active=%d, paths=%v) but its token is not registered", where, s, r.active, r.probing)
			}
		}
		for t := range r.reg {
			if _, ok := want[t]; !ok {
				r.extraToken(where, t, fmt.Sprintf("in use are active=%d paths=%v", r.active, r.probing))
			}
		}
		return
	}
	// active ID changed inside Add (Retire Prior To) and was not observed yet
	extra := 0
	for t, s := range want {
		if !r.reg[t] {
			r.fail("C16|connIDManager|reset-token-missing-for-id-in-use"+r.suffix(s), "%s: seq %d is in use on a path but its token is not registered", where, s)
		}
	}
	for t := range r.reg {
		if _, ok := want[t]; ok {
			continue
		}
		extra++
		s, ok := r.tokSeq[t]
		if !ok || r.reported[s] > 0 {
			r.extraToken(where, t, "token of retired/unknown seq registered")
		}
	}
	if extra > 1 {
		r.fail("C16|connIDManager|reset-token-registered-for-id-not-in-use"+r.anySuffix(), "%s: %d tokens registered besides those of the probing paths", where, extra)
	}
}

// extraToken reports a registered token that belongs to no ID in use.  If the sequence number was
// reported as retired and the manager itself still calls the token active, the finding is that a
// retired ID is in use (again), not that a token was forgotten.
func (r *c16MRun) extraToken(where string, t protocol.StatelessResetToken, what string) {
	s, ok := r.tokSeq[t]
	if ok && r.reported[s] > 0 && r.m.IsActiveStatelessResetToken(t) {
		r.fail("C16|connIDManager|retired-id-used-again"+r.suffix(s), "%s: seq %d was reported with RETIRE_CONNECTION_ID, but its reset token is registered and active for the manager: the ID is in use (%s)", where, s, what)
		return
	}
	r.fail("C16|connIDManager|reset-token-registered-for-id-not-in-use"+r.suffix(s), "%s: token of seq %d registered (%s)", where, s, what)
}

// inferActive: after Add made the manager leave the active ID, the new one is identified without
// side effects as the only sequence number whose token the manager calls active and that is not bound
// to a probing path.
func (r *c16MRun) inferActive() {
	onPath := map[uint64]bool{}
	for _, s := range r.probing {
		onPath[s] = true
	}
	cands := map[uint64]bool{}
	for t, s := range r.tokSeq {
		if !onPath[s] && r.m.IsActiveStatelessResetToken(t) {
			cands[s] = true
		}
	}
	if len(cands) != 1 {
		return
	}
	for s := range cands {
		r.active = s
		r.activeKnown = true
		if r.reported[s] > 0 {
			r.fail("C16|connIDManager|retired-id-used-again"+r.suffix(s), "seq %d was reported with RETIRE_CONNECTION_ID, but it is (still or again) the active connection ID", s)
		}
	}
}

func (r *c16MRun) checkFrames(where string) {
	if r.otherFrame != "" {
		r.fail("C16|connIDManager|unexpected-frame", "%s: manager queued a %s", where, r.otherFrame)
	}
	for s := range r.reported {
		if _, ok := r.known[s]; !ok {
			r.fail("C16|connIDManager|retire-of-never-received-seq", "%s: RETIRE_CONNECTION_ID for seq %d which the peer never sent", where, s)
		}
	}
	if r.cidLen == 0 && r.nRetire > 0 {
		r.fail("C16|connIDManager|retire-with-zero-length-ids", "%s: RETIRE_CONNECTION_ID queued although zero-length IDs are in use", where)
	}
}

// handedOut checks an ID returned by Get / GetConnIDForPath.
func (r *c16MRun) handedOut(where string, cid protocol.ConnectionID) (uint64, bool) {
	s, ok := r.cidSeq[cid]
	if !ok {
		r.fail("C16|connIDManager|unknown-connection-id-used", "%s returned %s, which the peer never issued", where, cid)
		return 0, false
	}
	return s, true
}

func (r *c16MRun) get() {
	if r.closed {
		return
	}
	before := r.nRetire
	cid := r.m.Get()
	if r.cidLen == 0 {
		if cid.Len() != 0 {
			r.fail("C16|connIDManager|unknown-connection-id-used", "Get returned %s with zero-length IDs in use", cid)
		}
		r.log("get")
		r.checkFrames("get")
		r.checkTokens("get")
		return
	}
	s, ok := r.handedOut("Get", cid)
	if !ok {
		return
	}
	r.log("get=>%d", s)
	if !r.activeKnown || s != r.active {
		old := r.active
		if r.reported[old] == 0 {
			r.fail("C16|connIDManager|retired-without-RETIRE_CONNECTION_ID|rotation", "active ID changed from seq %d to %d, but seq %d was not reported with RETIRE_CONNECTION_ID", old, s, old)
		}
		if r.nRetire > before {
			r.rotations++
		}
		// an ID reported as retired must not come back into use
		if r.reported[s] > 0 {
			r.fail("C16|connIDManager|retired-id-used-again"+r.suffix(s), "Get returned the ID of seq %d, which was already reported with RETIRE_CONNECTION_ID", s)
		}
		r.active = s
		r.activeKnown = true
	}
	if s < r.maxRPT {
		r.fail("C16|connIDManager|retire-prior-to-ignored", "Get returned seq %d, below the peer's Retire Prior To %d", s, r.maxRPT)
	}
	r.checkFrames("get")
	r.checkTokens("get")
}

func (r *c16MRun) frame(f c16Frame) *wire.NewConnectionIDFrame {
	return &wire.NewConnectionIDFrame{
		SequenceNumber:      f.Seq,
		RetirePriorTo:       f.RPT,
		ConnectionID:        c16CID(f.Seq, f.CV, r.cidLenPeer()),
		StatelessResetToken: c16Tok(f.Seq, f.TV),
	}
}

// the peer's IDs are never zero-length in NEW_CONNECTION_ID frames (wire format: 1..20)
func (r *c16MRun) cidLenPeer() int {
	if r.cidLen == 0 {
		return 4
	}
	return r.cidLen
}

func (r *c16MRun) learn(f c16Frame) {
	wf := r.frame(f)
	if _, ok := r.cidSeq[wf.ConnectionID]; !ok {
		r.cidSeq[wf.ConnectionID] = f.Seq
	}
	if _, ok := r.tokSeq[wf.StatelessResetToken]; !ok {
		r.tokSeq[wf.StatelessResetToken] = f.Seq
	}
}

// add delivers one NEW_CONNECTION_ID frame.
func (r *c16MRun) add(f c16Frame) {
	if r.closed || r.errored {
		return
	}
	r.learn(f)
	if r.everProbed[f.Seq] {
		r.dupProbed[f.Seq] = true
	} else if r.activeKnown && r.active == f.Seq && r.dupInUse(f.Seq) {
		r.dupActiveLow[f.Seq] = true
	}
	prev, dup := r.known[f.Seq]
	conflict := dup && f.Seq != 0 && (prev.CV != f.CV || prev.TV != f.TV)
	if f.Seq == 0 {
		conflict = true // the peer never issues sequence number 0 in a frame with contents of its own
	}
	err := r.m.Add(r.frame(f))
	r.log("%s=>%v", f, err)
	if r.cidLen == 0 {
		// property does not say what must happen; the connection is closed if an error came back
		if err != nil {
			r.errored = true
			r.outcome = "zero-len-error"
		}
		r.checkFrames("add")
		r.checkTokens("add")
		return
	}
	if err != nil {
		r.errored = true
		var te *qerr.TransportError
		if errors.As(err, &te) && te.ErrorCode == qerr.ConnectionIDLimitError {
			// count the frame as received: the limit applies after processing it
			if !dup {
				r.known[f.Seq] = f
			}
			// What counts against the limit are the connection IDs at or above the highest Retire Prior To
			// the peer has sent, this frame's included (RFC 9000, 5.1.1: a peer may exceed the limit
			// temporarily if the same frame requires the retirement of the excess), minus those the
			// endpoint has already reported as retired.
			rpt := max(r.maxRPT, f.RPT)
			n := 0
			for s := range r.known {
				if r.reported[s] == 0 && s >= rpt {
					n++
				}
			}
			r.outcome = "limit-error"
			if n <= r.adv {
				// Input class: a queue polluted by re-queued duplicates (see suffix) explains the error if
				// the phantom entries make up the difference; otherwise the enforced limit itself is
				// smaller than the advertised one.
				phantoms := len(r.dupProbed) + len(r.dupActiveLow)
				cls := "advertised<=4"
				if r.adv > protocol.MaxActiveConnectionIDs {
					cls = fmt.Sprintf("advertised=%d", r.adv)
				}
				if phantoms > 0 && n+phantoms > r.adv {
					cls = strings.TrimPrefix(r.anySuffix(), "|")
				}
				r.fail("C16|connIDManager|within-advertised-limit-rejected|"+cls,
					"CONNECTION_ID_LIMIT_ERROR for %s although only %d connection IDs are unretired and the endpoint advertised active_connection_id_limit=%d (spec-driven: %v)", f, n, r.adv, r.specDriven)
			}
			return
		}
		r.outcome = "other-error"
		if !conflict && !r.fuzzyTokens {
			r.fail("C16|connIDManager|spurious-error", "%s rejected with %v (no conflicting contents were ever delivered)", f, err)
		}
		return
	}
	if !dup {
		r.known[f.Seq] = f
	} else if conflict {
		r.fuzzyTokens = true
	}
	if f.RPT > r.maxRPT {
		r.maxRPT = f.RPT
	}
	// every sequence number below Retire Prior To is reported
	for s := range r.known {
		if s < r.maxRPT && r.reported[s] == 0 {
			r.fail("C16|connIDManager|retired-without-RETIRE_CONNECTION_ID|retire-prior-to", "after %s: seq %d is below Retire Prior To %d but no RETIRE_CONNECTION_ID was queued for it", f, s, r.maxRPT)
		}
	}
	for p, s := range r.probing {
		if s < r.maxRPT {
			delete(r.probing, p)
		}
	}
	if r.activeKnown && r.reported[r.active] > 0 {
		r.activeKnown = false // switched inside Add (Retire Prior To); observed at the next Get, or inferred
		r.inferActive()
	}
	// the endpoint does not store IDs without bound
	n, onPaths := r.unretired()
	if lim := max(r.adv, protocol.MaxActiveConnectionIDs); n-onPaths > lim {
		r.fail("C16|connIDManager|limit-not-enforced", "%s accepted although %d connection IDs (not counting %d bound to probing paths) are unretired; advertised limit %d", f, n-onPaths, onPaths, r.adv)
	} else if n > r.adv {
		r.lenient++
	}
	r.checkFrames("add")
	r.checkTokens("add")
}

func (r *c16MRun) pathGet(id pathID) bool {
	if r.closed {
		return false
	}
	cid, ok := r.m.GetConnIDForPath(id)
	if r.cidLen == 0 {
		r.log("path+(%d)", id)
		if !ok || cid.Len() != 0 {
			r.fail("C16|connIDManager|unknown-connection-id-used", "GetConnIDForPath returned (%s,%v) with zero-length IDs in use", cid, ok)
		}
		r.checkFrames("path+")
		r.checkTokens("path+")
		return false
	}
	if !ok {
		r.log("path+(%d)=>none", id)
		r.checkFrames("path+")
		r.checkTokens("path+")
		return false
	}
	s, found := r.handedOut("GetConnIDForPath", cid)
	if !found {
		return false
	}
	r.log("path+(%d)=>%d", id, s)
	old, had := r.probing[id]
	if !had || old != s {
		if had && r.reported[old] == 0 {
			r.fail("C16|connIDManager|retired-without-RETIRE_CONNECTION_ID|path-probing", "path %d switched from seq %d to %d without RETIRE_CONNECTION_ID for %d", id, old, s, old)
		}
		if r.reported[s] > 0 {
			r.fail("C16|connIDManager|retired-id-used-again"+r.suffix(s), "GetConnIDForPath returned the ID of seq %d, which was already reported with RETIRE_CONNECTION_ID", s)
		}
		if s < r.maxRPT {
			r.fail("C16|connIDManager|retire-prior-to-ignored", "GetConnIDForPath returned seq %d, below the peer's Retire Prior To %d", s, r.maxRPT)
		}
	}
	r.probing[id] = s
	r.everProbed[s] = true
	r.checkFrames("path+")
	r.checkTokens("path+")
	return true
}

func (r *c16MRun) pathRetire(id pathID) {
	if r.closed {
		return
	}
	s, had := r.probing[id]
	r.m.RetireConnIDForPath(id)
	r.log("path-(%d)", id)
	if had {
		if r.reported[s] == 0 {
			r.fail("C16|connIDManager|retired-without-RETIRE_CONNECTION_ID|path-probing", "path %d given up: seq %d not reported with RETIRE_CONNECTION_ID", id, s)
		}
		delete(r.probing, id)
	}
	r.checkFrames("path-")
	r.checkTokens("path-")
}

func (r *c16MRun) sent(n int) {
	for i := 0; i < n; i++ {
		r.m.SentPacket()
	}
	r.log("sent(%d)", n)
}

// finish drains the manager (every ID the peer issued is in use, handed out, or reported as
// retired), closes it and checks that nothing stays registered.
func (r *c16MRun) finish() {
	if !r.errored && r.cidLen != 0 {
		r.get()
		for i := 0; ; i++ {
			if i > 64 {
				r.fail("C16|connIDManager|limit-not-enforced", "more than 64 connection IDs stored")
				break
			}
			if !r.pathGet(pathID(1000 + i)) {
				break
			}
		}
		var lost []uint64
		for s := range r.known {
			inUse := r.activeKnown && r.active == s
			for _, p := range r.probing {
				inUse = inUse || p == s
			}
			if !inUse && r.reported[s] == 0 {
				lost = append(lost, s)
			}
		}
		if len(lost) > 0 {
			sort.Slice(lost, func(i, j int) bool { return lost[i] < lost[j] })
			r.fail("C16|connIDManager|retired-without-RETIRE_CONNECTION_ID|dropped", "sequence numbers %v were received, are neither in use nor available any more, and were never reported with RETIRE_CONNECTION_ID", lost)
		}
	} else if r.errored {
		// the CONNECTION_CLOSE packet is packed with Get() before the manager is closed
		if r.cidLen != 0 {
			cid := r.m.Get()
			if s, ok := r.handedOut("Get", cid); ok {
				r.log("get=>%d", s)
			}
		} else {
			r.m.Get()
		}
	}
	r.m.Close()
	r.closed = true
	r.log("close")
	if len(r.reg) > 0 {
		var seqs []uint64
		for t := range r.reg {
			seqs = append(seqs, r.tokSeq[t])
		}
		r.fail("C16|connIDManager|reset-token-left-after-close"+r.anySuffix(), "after Close %d stateless reset tokens are still registered (seqs %v)", len(r.reg), seqs)
	}
}

// c16Peer is the model of the peer that issues connection IDs.
type c16Peer struct {
	limit    int // how many unretired IDs it allows itself (= advertised limit for a conformant peer)
	nextSeq  uint64
	rpt      uint64
	issued   []uint64 // sequence numbers it issued (0 included)
	retired  map[uint64]bool
	inflight []c16Frame
	done     []c16Frame
}

func (p *c16Peer) activeFrom(rpt uint64) int {
	n := 0
	for _, s := range p.issued {
		if s >= rpt && !p.retired[s] {
			n++
		}
	}
	return n
}

type c16MParams struct {
	Adv        int
	SpecDriven bool
	CIDLen     int
	Client     bool
	PeerKind   int // 0 conformant, 1 exceeds the limit, 2 conflicting contents, 3 skips sequence numbers
	GetAlways  bool
	NOps       int
	// NoDupInUse: the network does not deliver a duplicate NEW_CONNECTION_ID for a sequence number that
	// is or was bound to a probing path, or that is active below such a number (the input classes of
	// the two known findings), so that these histories exercise everything else to the end.
	NoDupInUse bool
}

// c16RunManagerHistory generates and executes one history.
func c16RunManagerHistory(rng *rand.Rand, p c16MParams) (r *c16MRun, fp string, cnt map[string]int64) {
	cnt = map[string]int64{}
	r = newC16MRun(p.Adv, p.SpecDriven, p.CIDLen)
	defer func() {
		if e := recover(); e != nil {
			r.fail("C16|connIDManager|panic", "panic: %v", e)
			fp = "panic"
		}
	}()
	if p.SpecDriven {
		// u_connection.go: s.connIDManager.SetConnectionIDLimit(params.ActiveConnectionIDLimit)
		r.m.SetConnectionIDLimit(uint64(p.Adv))
		r.log("SetConnectionIDLimit(%d)", p.Adv)
	}
	peer := &c16Peer{limit: p.Adv, nextSeq: 1, issued: []uint64{0}, retired: map[uint64]bool{}}
	if p.PeerKind == 1 {
		peer.limit = p.Adv + 1 + rng.IntN(2)
	}
	after := func() {
		if p.GetAlways && !r.errored {
			r.get()
		}
	}
	// --- handshake phase
	r.get()
	if p.Client && p.CIDLen != 0 {
		for i := rng.IntN(3); i > 0; i-- {
			// Retry / first packet from the server: new destination connection ID
			nc := c16CID(0, i, p.CIDLen)
			r.m.ChangeInitialConnID(nc)
			delete(r.cidSeq, c16CID(0, 0, p.CIDLen))
			r.cidSeq[nc] = 0
			r.log("ChangeInitialConnID")
			cnt["mgr_change_initial"]++
			r.get()
		}
	}
	r.sent(1 + rng.IntN(5))
	if p.Client {
		if rng.IntN(10) < 7 {
			r.tok0 = true
			r.tokSeq[c16Tok(0, 0)] = 0
			r.m.SetStatelessResetToken(c16Tok(0, 0))
			r.log("SetStatelessResetToken")
			cnt["mgr_token_from_tp"]++
			r.checkTokens("tp")
		}
		if p.CIDLen != 0 && rng.IntN(10) == 0 {
			f := c16Frame{Seq: 1}
			r.learn(f)
			r.known[1] = f
			if err := r.m.AddFromPreferredAddress(c16CID(1, 0, p.CIDLen), c16Tok(1, 0)); err != nil {
				r.fail("C16|connIDManager|spurious-error", "AddFromPreferredAddress: %v", err)
			}
			r.log("AddFromPreferredAddress")
			cnt["mgr_preferred_address"]++
			peer.issued = append(peer.issued, 1)
			peer.nextSeq = 2
		}
	}
	hsAt := rng.IntN(6)
	hs := false
	maxDelivered := uint64(0)
	nPaths := 0
	var nDeliv, nDup, nReord, nRPT, nConf, nProbe, nUnprobe int
	for i := 0; i < p.NOps && !r.errored && r.err == ""; i++ {
		if !hs && i >= hsAt {
			r.m.SetHandshakeComplete()
			hs = true
			r.log("hs")
			after()
			continue
		}
		x := rng.IntN(100)
		switch {
		case x < 22: // the peer issues a new ID
			if peer.nextSeq > 60 {
				continue
			}
			seq := peer.nextSeq
			if p.PeerKind == 3 && rng.IntN(3) == 0 {
				seq += uint64(1 + rng.IntN(3))
			}
			rpt := peer.rpt
			if rng.IntN(4) == 0 {
				rpt += uint64(1 + rng.IntN(int(seq-rpt)))
				if rng.IntN(3) == 0 {
					rpt = seq
				}
			}
			for rpt < seq && peer.activeFrom(rpt)+1 > peer.limit && rng.IntN(2) == 0 {
				rpt++ // make room by asking for retirements
			}
			if peer.activeFrom(rpt)+1 > peer.limit {
				// no room: wait for RETIRE_CONNECTION_ID frames
				for s := range r.reported {
					peer.retired[s] = true
				}
				continue
			}
			if rpt > peer.rpt {
				nRPT++
				peer.rpt = rpt
			}
			peer.nextSeq = seq + 1
			peer.issued = append(peer.issued, seq)
			peer.inflight = append(peer.inflight, c16Frame{Seq: seq, RPT: rpt})
		case x < 50: // a frame arrives (any order)
			if len(peer.inflight) == 0 {
				continue
			}
			k := rng.IntN(len(peer.inflight))
			if rng.IntN(3) > 0 {
				k = 0
			}
			f := peer.inflight[k]
			if p.NoDupInUse && r.dupInUse(f.Seq) {
				continue
			}
			if rng.IntN(5) > 0 {
				peer.inflight = append(peer.inflight[:k], peer.inflight[k+1:]...)
				peer.done = append(peer.done, f)
			}
			if p.PeerKind == 2 && rng.IntN(6) == 0 {
				if rng.IntN(2) == 0 {
					f.CV = 1 + rng.IntN(2)
				} else {
					f.TV = 1 + rng.IntN(2)
				}
				nConf++
			}
			if _, dup := r.known[f.Seq]; dup {
				nDup++
			} else if f.Seq < maxDelivered {
				nReord++
			}
			maxDelivered = max(maxDelivered, f.Seq)
			nDeliv++
			r.add(f)
			after()
		case x < 58: // retransmission of a frame that arrived before
			if len(peer.done) == 0 {
				continue
			}
			f := peer.done[rng.IntN(len(peer.done))]
			if p.NoDupInUse && r.dupInUse(f.Seq) {
				continue
			}
			if p.PeerKind == 2 && rng.IntN(4) == 0 {
				if rng.IntN(2) == 0 {
					f.CV = 1 + rng.IntN(2)
				} else {
					f.TV = 1 + rng.IntN(2)
				}
				nConf++
			}
			nDup++
			nDeliv++
			r.add(f)
			after()
		case x < 66: // RETIRE_CONNECTION_ID frames reach the peer
			for s := range r.reported {
				peer.retired[s] = true
			}
		case x < 78:
			r.get()
		case x < 82:
			r.sent(1 + rng.IntN(40))
		case x < 88: // enough packets for a rotation, by counting
			if !hs {
				continue
			}
			r.sent(protocol.PacketsPerConnectionID + protocol.PacketsPerConnectionID/2)
			before := r.rotations
			r.get()
			if r.rotations > before {
				r.rotByCount++
			}
		case x < 95:
			if !hs {
				continue
			}
			var id pathID
			if nPaths > 0 && rng.IntN(3) == 0 {
				id = pathID(1 + rng.IntN(nPaths))
			} else {
				nPaths++
				id = pathID(nPaths)
			}
			nProbe++
			r.pathGet(id)
			after()
		default:
			if nPaths == 0 {
				continue
			}
			nUnprobe++
			r.pathRetire(pathID(1 + rng.IntN(nPaths)))
			after()
		}
	}
	r.finish()

	cnt["mgr_ncid_delivered"] += int64(nDeliv)
	cnt["mgr_ncid_duplicate"] += int64(nDup)
	cnt["mgr_ncid_reordered"] += int64(nReord)
	cnt["mgr_retire_prior_to_raised"] += int64(nRPT)
	cnt["mgr_ncid_conflicting"] += int64(nConf)
	cnt["mgr_retire_frames_queued"] += int64(r.nRetire)
	cnt["mgr_rotations"] += int64(r.rotations)
	cnt["mgr_rotations_by_packet_count"] += int64(r.rotByCount)
	cnt["mgr_path_get"] += int64(nProbe)
	cnt["mgr_path_retire"] += int64(nUnprobe)
	cnt["mgr_accepted_beyond_advertised_limit(lenient)"] += int64(r.lenient)
	if len(r.dupProbed) > 0 {
		cnt["mgr_histories_with_duplicate_ncid_for_probing_id"]++
	}
	if len(r.dupActiveLow) > 0 {
		cnt["mgr_histories_with_duplicate_ncid_for_active_id_below_probing_id"]++
	}
	switch r.outcome {
	case "limit-error":
		cnt["mgr_limit_errors"]++
	case "other-error", "zero-len-error":
		cnt["mgr_other_errors"]++
	}
	if p.CIDLen == 0 {
		cnt["mgr_zero_length_histories"]++
	}
	cnt[fmt.Sprintf("mgr_histories_advertised_%d", p.Adv)]++
	b := func(n int) int {
		switch {
		case n <= 2:
			return n
		case n <= 5:
			return 3
		case n <= 10:
			return 4
		default:
			return 5
		}
	}
	if nDeliv > 0 {
		fp = fmt.Sprintf("m/%d/%v/%v/k%d/d%d/u%d/r%d/p%d/c%d/rot%d/pp%d/%d/%s", p.Adv, p.SpecDriven, p.CIDLen == 0, p.PeerKind,
			b(nDeliv), min(nDup, 2), min(nReord, 2), min(nRPT, 2), min(nConf, 1), min(r.rotations, 2), min(nProbe, 1), min(nUnprobe, 1), r.outcome)
	}
	return r, fp, cnt
}

func c16MParamsDraw(rng *rand.Rand, specDriven bool) c16MParams {
	p := c16MParams{Adv: protocol.MaxActiveConnectionIDs, SpecDriven: specDriven}
	if specDriven {
		p.Adv = 2 + rng.IntN(7)
		p.Client = true
	} else {
		p.Client = rng.IntN(2) == 0
	}
	p.CIDLen = []int{0, 4, 4, 8, 8, 20, 5, 16, 3, 4}[rng.IntN(10)]
	p.PeerKind = []int{0, 0, 0, 0, 0, 1, 1, 2, 2, 3}[rng.IntN(10)]
	p.GetAlways = rng.IntN(2) == 0
	p.NOps = 8 + rng.IntN(70)
	p.NoDupInUse = rng.IntN(3) > 0
	return p
}

// c16Witness: at most four witnesses per signature and process are logged (the evidence log keeps
// 200 violations per process; a frequent signature must not crowd out a new one).
var c16Witnesses = map[string]int{}

func c16Witness(sig string) bool {
	c16Witnesses[sig]++
	return c16Witnesses[sig] <= 4
}

func c16Report(c *evlog.Case, r *c16MRun, p any) {
	if r.err != "" {
		c.Violation(r.sig, r.err, map[string]any{"params": p, "history": r.trace})
	}
}

// TestVerifC16Manager: ordinary connections (advertised limit = protocol.MaxActiveConnectionIDs).
func TestVerifC16Manager(t *testing.T) {
	l := evlog.Open("C16")
	defer l.Close()
	c16ManagerBatches(l, false, l.Pick(120, 8000))
}

// TestVerifC16SpecDriven: the uQUIC spec-driven client; the advertised limit comes from the spec.
func TestVerifC16SpecDriven(t *testing.T) {
	l := evlog.Open("C16")
	defer l.Close()

	// ---- the real parrots: the limit on the wire, the way it is handed to the manager, and a
	// conformant peer that issues exactly as many IDs as the limit allows, in order.
	ids := []struct {
		name string
		id   QUICID
	}{
		{"Firefox_116A", QUICFirefox_116A}, {"Firefox_116B", QUICFirefox_116B}, {"Firefox_116C", QUICFirefox_116C},
		{"Chrome_115_IPv4", QUICChrome_115_IPv4}, {"Chrome_115_IPv6", QUICChrome_115_IPv6},
		{"Chrome_146_IPv4", QUICChrome_146_IPv4}, {"Chrome_146_IPv6", QUICChrome_146_IPv6},
	}
	for i, e := range ids {
		if !l.Mine(i) {
			continue
		}
		c := l.Begin("C16/spec/parrot/"+e.name, map[string]any{"parrot": e.name})
		if c == nil {
			continue
		}
		func() {
			defer c.End()
			spec, err := QUICID2Spec(e.id)
			if err != nil {
				c.Inconclusive("QUICID2Spec: " + err.Error())
				return
			}
			var ext *tls.QUICTransportParametersExtension
			for _, x := range spec.ClientHelloSpec.Extensions {
				if q, ok := x.(*tls.QUICTransportParametersExtension); ok {
					ext = q
					break
				}
			}
			if ext == nil {
				c.Inconclusive("spec has no QUICTransportParametersExtension")
				return
			}
			// what u_connection.go does with the spec
			params := &wire.TransportParameters{InitialSourceConnectionID: protocol.ParseConnectionID([]byte{1, 2, 3})}
			params.PopulateFromUQUIC(ext.TransportParameters)
			// what the server reads from the wire
			var onWire wire.TransportParameters
			adv := 0
			if err := onWire.Unmarshal(params.ClientOverride, protocol.PerspectiveClient); err == nil {
				adv = int(onWire.ActiveConnectionIDLimit)
			} else {
				adv = protocol.DefaultActiveConnectionIDLimit
				for _, tp := range ext.TransportParameters {
					if v, ok := tp.(tls.ActiveConnectionIDLimit); ok {
						adv = int(v)
					}
				}
			}
			l.Count(fmt.Sprintf("spec_parrot_advertised_%d", adv), 1)
			c.Sample("parrot-advertised-limit", map[string]any{"parrot": e.name, "on_wire": adv, "passed_to_SetConnectionIDLimit": params.ActiveConnectionIDLimit})
			for _, cidLen := range []int{4, 8, 20} {
				for _, withGet := range []bool{false, true} {
					r := newC16MRun(adv, true, cidLen)
					func() {
						defer func() {
							if e := recover(); e != nil {
								r.fail("C16|connIDManager|panic", "panic: %v", e)
							}
						}()
						r.m.SetConnectionIDLimit(params.ActiveConnectionIDLimit)
						r.log("SetConnectionIDLimit(%d)", params.ActiveConnectionIDLimit)
						r.get()
						r.tok0 = true
						r.tokSeq[c16Tok(0, 0)] = 0
						r.m.SetStatelessResetToken(c16Tok(0, 0))
						r.log("SetStatelessResetToken")
						if withGet {
							r.m.SetHandshakeComplete()
							r.log("hs")
						}
						for s := 1; s < adv; s++ {
							r.add(c16Frame{Seq: uint64(s)})
							if withGet {
								r.get()
							}
						}
						r.finish()
					}()
					c.Eval(fmt.Sprintf("parrot/%s/%d/%v/%s", e.name, cidLen, withGet, r.outcome))
					c16Report(c, r, map[string]any{"parrot": e.name, "advertised": adv, "cid_len": cidLen})
				}
			}
		}()
	}

	c16ManagerBatches(l, true, l.Pick(80, 5000))
}

func c16ManagerBatches(l *evlog.Log, specDriven bool, batches int) {
	const perBatch = 400
	kind := "ordinary"
	if specDriven {
		kind = "spec"
	}
	for b := 0; b < batches; b++ {
		if !l.Mine(b) {
			continue
		}
		id := fmt.Sprintf("C16/mgr/%s/b%d", kind, b)
		c := l.Begin(id, map[string]any{"histories": perBatch, "spec_driven": specDriven})
		if c == nil {
			continue
		}
		rng := l.Rand(id)
		tot := map[string]int64{}
		for h := 0; h < perBatch; h++ {
			p := c16MParamsDraw(rng, specDriven)
			r, fp, cnt := c16RunManagerHistory(rng, p)
			c.Eval(fp)
			for k, v := range cnt {
				tot[k] += v
			}
			if r.err != "" {
				if c16Witness(r.sig) {
					c16Report(c, r, p)
				} else {
					tot["violations_not_logged_same_signature"]++
				}
			}
		}
		for k, v := range tot {
			l.Count(k, v)
		}
		c.End()
	}
}

// ---------------------------------------------------------------------------------------
// connIDGenerator (IDs issued by this endpoint)

type c16IDSource struct {
	n      int
	length int
	failAt int // the failAt-th call fails (0 = never)
}

func (g *c16IDSource) GenerateConnectionID() (ConnectionID, error) {
	g.n++
	if g.failAt != 0 && g.n == g.failAt {
		return ConnectionID{}, errors.New("c16: connection ID source failed")
	}
	return c16CID(uint64(1000+g.n), 3, g.length), nil
}

func (g *c16IDSource) ConnectionIDLen() int { return g.length }

type c16Routed struct {
	set      map[protocol.ConnectionID]bool
	adds     int
	removes  int
	replaced [][]protocol.ConnectionID
}

func (x *c16Routed) callbacks() connRunnerCallbacks {
	return connRunnerCallbacks{
		AddConnectionID:    func(c protocol.ConnectionID) { x.adds++; x.set[c] = true },
		RemoveConnectionID: func(c protocol.ConnectionID) { x.removes++; delete(x.set, c) },
		ReplaceWithClosed: func(ids []protocol.ConnectionID, _ []byte, _ time.Duration) {
			x.replaced = append(x.replaced, append([]protocol.ConnectionID(nil), ids...))
		},
	}
}

type c16Pending struct {
	cid    protocol.ConnectionID
	expiry monotime.Time
}

type c16GRun struct {
	g   *connIDGenerator
	src *c16IDSource

	peerLimit int // latest active_connection_id_limit of the peer (0 = not known yet)
	cidLen    int

	r1, r2    *c16Routed
	hasRunner bool // second transport added

	// model
	issued     map[uint64]protocol.ConnectionID // every ID ever issued (0 = handshake ID)
	unretired  map[uint64]bool
	pending    []c16Pending // retired by the peer, expiry not reached at the last RemoveRetiredConnIDs
	initialDst *protocol.ConnectionID
	highest    uint64
	now        monotime.Time
	errored    bool

	nIssued, nExpired int

	trace []string
	sig   string
	err   string
}

func (r *c16GRun) fail(sig, f string, a ...any) {
	if r.err == "" {
		r.sig = sig
		r.err = fmt.Sprintf(f, a...)
	}
}
func (r *c16GRun) log(f string, a ...any) { r.trace = append(r.trace, fmt.Sprintf(f, a...)) }

func (r *c16GRun) onFrame(f wire.Frame) {
	nf, ok := f.(*wire.NewConnectionIDFrame)
	if !ok {
		r.fail("C16|connIDGenerator|unexpected-frame", "generator queued a %T", f)
		return
	}
	r.nIssued++
	if _, dup := r.issued[nf.SequenceNumber]; dup {
		r.fail("C16|connIDGenerator|sequence-number-reused", "NEW_CONNECTION_ID with sequence number %d issued twice", nf.SequenceNumber)
		return
	}
	for s, c := range r.issued {
		if c == nf.ConnectionID {
			r.fail("C16|connIDGenerator|connection-id-reused", "seq %d carries the same connection ID as seq %d", nf.SequenceNumber, s)
		}
	}
	r.issued[nf.SequenceNumber] = nf.ConnectionID
	r.unretired[nf.SequenceNumber] = true
	r.highest = max(r.highest, nf.SequenceNumber)
	r.log("  ->ncid(seq=%d)", nf.SequenceNumber)
}

func (r *c16GRun) live() map[protocol.ConnectionID]string {
	m := map[protocol.ConnectionID]string{}
	for s := range r.unretired {
		m[r.issued[s]] = fmt.Sprintf("seq %d (unretired)", s)
	}
	for _, p := range r.pending {
		m[p.cid] = "retired, not expired"
	}
	if r.initialDst != nil {
		m[*r.initialDst] = "client's initial destination ID"
	}
	return m
}

// check: limits and routed set, after every step
func (r *c16GRun) check(where string) {
	lim := r.peerLimit
	if lim == 0 {
		lim = protocol.DefaultActiveConnectionIDLimit
	}
	if n := len(r.unretired); n > lim {
		r.fail("C16|connIDGenerator|more-ids-issued-than-peer-limit", "%s: %d connection IDs issued and not retired by the peer, its active_connection_id_limit is %d", where, n, lim)
	}
	live := r.live()
	for c, why := range live {
		if !r.r1.set[c] {
			r.fail("C16|connIDGenerator|live-id-not-routed", "%s: %s (%s) is not routed", where, c, why)
		}
	}
	for c := range r.r1.set {
		if _, ok := live[c]; !ok {
			r.fail("C16|connIDGenerator|expired-id-still-routed", "%s: %s is routed but neither unretired nor within its expiry", where, c)
		}
	}
	if r.hasRunner {
		for s := range r.unretired {
			if !r.r2.set[r.issued[s]] {
				r.fail("C16|connIDGenerator|live-id-not-routed|second-transport", "%s: seq %d not routed on the second transport", where, s)
			}
		}
		for c := range r.r2.set {
			if _, ok := live[c]; !ok {
				r.fail("C16|connIDGenerator|expired-id-still-routed|second-transport", "%s: %s routed on the second transport but not live", where, c)
			}
		}
	}
}

type c16GParams struct {
	PeerLimit  int
	FirstLimit int // limit remembered from a session ticket (0-RTT), 0 = none
	CIDLen     int
	Server     bool
	FailAt     int
	NOps       int
	CloseKind  int // 0 RemoveAll, 1 ReplaceWithClosed(nil), 2 ReplaceWithClosed(packet)
}

func c16RunGeneratorHistory(rng *rand.Rand, p c16GParams) (r *c16GRun, fp string, cnt map[string]int64) {
	cnt = map[string]int64{}
	r = &c16GRun{
		cidLen:    p.CIDLen,
		src:       &c16IDSource{length: p.CIDLen, failAt: p.FailAt},
		r1:        &c16Routed{set: map[protocol.ConnectionID]bool{}},
		r2:        &c16Routed{set: map[protocol.ConnectionID]bool{}},
		issued:    map[uint64]protocol.ConnectionID{},
		unretired: map[uint64]bool{0: true},
		now:       monotime.Now().Add(time.Hour), // ahead of the real clock: code that consults the real clock instead of the time it is given sees nothing as expired
	}
	defer func() {
		if e := recover(); e != nil {
			r.fail("C16|connIDGenerator|panic", "panic: %v", e)
			fp = "panic"
		}
	}()
	src := c16CID(900, 3, p.CIDLen)
	r.issued[0] = src
	r.r1.set[src] = true // the transport routes the handshake ID itself
	var dst *protocol.ConnectionID
	if p.Server {
		d := c16CID(901, 3, 8)
		dst = &d
		r.initialDst = &d
		r.r1.set[d] = true
	}
	r.g = newConnIDGenerator(&packetHandlerMap{}, src, dst, newStatelessResetter(&StatelessResetKey{1, 6}), r.r1.callbacks(), r.onFrame, r.src)
	r.check("start")

	var nValid, nDup, nUnissued, nSentWith, nTick, nErr int
	hs := false
	pickLive := func(not protocol.ConnectionID) protocol.ConnectionID {
		var cands []protocol.ConnectionID
		var seqs []uint64
		for s := range r.unretired {
			seqs = append(seqs, s)
		}
		sort.Slice(seqs, func(i, j int) bool { return seqs[i] < seqs[j] })
		for _, s := range seqs {
			if r.issued[s] != not {
				cands = append(cands, r.issued[s])
			}
		}
		for _, pe := range r.pending {
			if pe.cid != not {
				cands = append(cands, pe.cid)
			}
		}
		if len(cands) == 0 {
			return c16CID(999, 3, max(p.CIDLen, 4))
		}
		return cands[rng.IntN(len(cands))]
	}
	setMax := func(lim int) {
		err := r.g.SetMaxActiveConnIDs(uint64(lim))
		r.log("SetMaxActiveConnIDs(%d)=>%v", lim, err)
		r.peerLimit = lim
		if err != nil {
			r.errored = true
			nErr++
		}
		r.check("SetMaxActiveConnIDs")
	}
	if p.FirstLimit != 0 {
		setMax(p.FirstLimit)
	}
	if !r.errored {
		setMax(p.PeerLimit)
	}
	for i := 0; i < p.NOps && !r.errored && r.err == ""; i++ {
		x := rng.IntN(100)
		switch {
		case x < 45: // RETIRE_CONNECTION_ID
			var seq uint64
			kind := rng.IntN(50)
			var sentWith protocol.ConnectionID
			var seqs []uint64
			for s := range r.unretired {
				seqs = append(seqs, s)
			}
			sort.Slice(seqs, func(i, j int) bool { return seqs[i] < seqs[j] })
			switch {
			case kind < 38 && len(seqs) > 0: // valid
				seq = seqs[rng.IntN(len(seqs))]
				sentWith = pickLive(r.issued[seq])
			case kind < 48: // duplicate / already retired
				var old []uint64
				for s := range r.issued {
					if !r.unretired[s] {
						old = append(old, s)
					}
				}
				if len(old) == 0 {
					continue
				}
				sort.Slice(old, func(i, j int) bool { return old[i] < old[j] })
				seq = old[rng.IntN(len(old))]
				sentWith = pickLive(protocol.ConnectionID{})
			case kind < 49 && len(seqs) > 0: // for the ID the packet was sent to
				seq = seqs[rng.IntN(len(seqs))]
				sentWith = r.issued[seq]
			default: // never issued
				seq = r.highest + 1 + uint64(rng.IntN(3))
				sentWith = pickLive(protocol.ConnectionID{})
			}
			pto := time.Duration(1+rng.IntN(300_000))*time.Microsecond + 1 // odd number of ns: never equal to a tick
			expiry := r.now.Add(3 * pto)
			cid, wasIssued := r.issued[seq]
			wasUnretired := r.unretired[seq]
			err := r.g.Retire(seq, sentWith, expiry)
			r.log("Retire(seq=%d,sentWith=%s,expiry=+%s)=>%v", seq, sentWith, 3*pto, err)
			switch {
			case err != nil:
				r.errored = true
				nErr++
				switch {
				case !wasIssued:
					nUnissued++
				case wasUnretired && cid == sentWith:
					nSentWith++
				}
			case wasIssued && wasUnretired:
				delete(r.unretired, seq)
				r.pending = append(r.pending, c16Pending{cid, expiry})
				if cid == sentWith {
					cnt["gen_retire_of_packet_dcid_accepted"]++
				} else {
					nValid++
				}
			case wasIssued:
				nDup++
			default:
				cnt["gen_retire_of_unissued_accepted"]++
			}
			r.check("Retire")
		case x < 55 && !hs:
			pto := time.Duration(1+rng.IntN(300_000))*time.Microsecond + 1
			expiry := r.now.Add(3 * pto)
			r.g.SetHandshakeComplete(expiry)
			hs = true
			r.log("SetHandshakeComplete(expiry=+%s)", 3*pto)
			if r.initialDst != nil {
				r.pending = append(r.pending, c16Pending{*r.initialDst, expiry})
				r.initialDst = nil
			}
			r.check("SetHandshakeComplete")
		case x < 90: // run loop iteration
			r.now = r.now.Add(time.Duration(rng.IntN(200_000)) * 2 * time.Microsecond)
			if rng.IntN(6) == 0 {
				r.now = r.now.Add(2 * time.Second)
			}
			r.g.RemoveRetiredConnIDs(r.now)
			nTick++
			keep := r.pending[:0]
			for _, pe := range r.pending {
				if pe.expiry.After(r.now) {
					keep = append(keep, pe)
				} else {
					r.nExpired++
				}
			}
			r.pending = keep
			r.log("RemoveRetiredConnIDs(now=%s)", time.Duration(r.now))
			r.check("RemoveRetiredConnIDs")
		case x < 94 && !r.hasRunner:
			r.g.AddConnRunner(&packetHandlerMap{}, r.r2.callbacks())
			r.hasRunner = true
			r.log("AddConnRunner")
			cnt["gen_second_transport"]++
			r.check("AddConnRunner")
		default:
			// the peer's limit cannot change during a connection; a repeated call is harmless
			setMax(r.peerLimit)
		}
	}
	// ---- close
	if r.err == "" {
		live := r.live()
		switch p.CloseKind {
		case 0:
			r.g.RemoveAll()
			r.log("RemoveAll")
			cnt["gen_close_remove_all"]++
			for c := range r.r1.set {
				r.fail("C16|connIDGenerator|close-leaves-routed-id", "after RemoveAll %s (%s) is still routed", c, live[c])
			}
			for c := range r.r2.set {
				r.fail("C16|connIDGenerator|close-leaves-routed-id|second-transport", "after RemoveAll %s (%s) is still routed on the second transport", c, live[c])
			}
		default:
			var pkt []byte
			if p.CloseKind == 2 {
				pkt = []byte("close")
			}
			r.g.ReplaceWithClosed(pkt, 3*time.Second)
			r.log("ReplaceWithClosed")
			cnt["gen_close_replace_with_closed"]++
			chk := func(x *c16Routed, cls string) {
				if len(x.replaced) != 1 {
					r.fail("C16|connIDGenerator|close-leaves-routed-id"+cls, "ReplaceWithClosed callback invoked %d times", len(x.replaced))
					return
				}
				got := map[protocol.ConnectionID]bool{}
				for _, c := range x.replaced[0] {
					got[c] = true
					if !x.set[c] && cls == "" { // a second transport may be told about IDs it never routed (harmless)
						r.fail("C16|connIDGenerator|close-replaces-unrouted-id"+cls, "ReplaceWithClosed names %s, which is not routed to this connection", c)
					}
				}
				for c := range x.set {
					if !got[c] {
						r.fail("C16|connIDGenerator|close-leaves-routed-id"+cls, "ReplaceWithClosed omits %s (%s): it stays routed to the closed connection for ever", c, live[c])
					}
				}
			}
			chk(r.r1, "")
			if r.hasRunner {
				chk(r.r2, "|second-transport")
			}
		}
	}
	cnt["gen_ncid_issued"] += int64(r.nIssued)
	cnt["gen_retire_valid"] += int64(nValid)
	cnt["gen_retire_duplicate"] += int64(nDup)
	cnt["gen_retire_unissued_rejected"] += int64(nUnissued)
	cnt["gen_retire_of_packet_dcid_rejected"] += int64(nSentWith)
	cnt["gen_ids_removed_after_expiry"] += int64(r.nExpired)
	cnt["gen_errors"] += int64(nErr)
	cnt[fmt.Sprintf("gen_histories_peer_limit_%d", min(p.PeerLimit, 9))]++
	if p.CIDLen == 0 {
		cnt["gen_zero_length_histories"]++
	}
	b := func(n int) int {
		switch {
		case n <= 2:
			return n
		case n <= 5:
			return 3
		case n <= 10:
			return 4
		default:
			return 5
		}
	}
	if nValid+nDup+nUnissued+nSentWith > 0 || r.nIssued > 0 {
		fp = fmt.Sprintf("g/%d/%v/%v/%v/f%v/v%d/d%d/u%d/s%d/x%d/r%v/hs%v/c%d", min(p.PeerLimit, 9), p.FirstLimit != 0, p.CIDLen == 0, p.Server, p.FailAt != 0,
			b(nValid), min(nDup, 2), nUnissued, nSentWith, min(r.nExpired, 2), r.hasRunner, hs, p.CloseKind)
	}
	return r, fp, cnt
}

func TestVerifC16Generator(t *testing.T) {
	l := evlog.Open("C16")
	defer l.Close()
	const perBatch = 400
	batches := l.Pick(100, 5000)
	for b := 0; b < batches; b++ {
		if !l.Mine(b) {
			continue
		}
		id := fmt.Sprintf("C16/gen/b%d", b)
		c := l.Begin(id, map[string]any{"histories": perBatch})
		if c == nil {
			continue
		}
		rng := l.Rand(id)
		tot := map[string]int64{}
		for h := 0; h < perBatch; h++ {
			p := c16GParams{
				PeerLimit: 2 + rng.IntN(7),
				CIDLen:    []int{0, 4, 4, 8, 8, 20, 5, 16}[rng.IntN(8)],
				Server:    rng.IntN(2) == 0,
				NOps:      4 + rng.IntN(50),
				CloseKind: rng.IntN(3),
			}
			if rng.IntN(12) == 0 {
				p.PeerLimit = 9 + rng.IntN(24) // beyond the 2..8 of the property: the local cap applies
			}
			if rng.IntN(6) == 0 {
				p.FirstLimit = 2 + rng.IntN(p.PeerLimit-1) // remembered limit <= new limit
			}
			if rng.IntN(15) == 0 {
				p.FailAt = 1 + rng.IntN(8)
			}
			r, fp, cnt := c16RunGeneratorHistory(rng, p)
			c.Eval(fp)
			for k, v := range cnt {
				tot[k] += v
			}
			if r.err != "" {
				if c16Witness(r.sig) {
					c.Violation(r.sig, r.err, map[string]any{"params": p, "history": r.trace})
				} else {
					tot["violations_not_logged_same_signature"]++
				}
			}
		}
		for k, v := range tot {
			l.Count(k, v)
		}
		c.End()
	}
}
