package quic

// C17, lock contract of the close path.  handleCloseError closes the streams map under the map's mutex
// and, from there, every stream under the stream's mutex (closeForShutdown).  A stream reports its
// completion to the connection (streamSender.onStreamCompleted -> streamsMap.DeleteStream, which takes the
// map's mutex) and must therefore do so *without* holding the mutex that closeForShutdown takes (the
// interface says so): otherwise an API call that completes a stream while the connection is ending
// deadlocks the close, and no blocked caller ever returns.
//
// The monitor drives real ReceiveStream / SendStream / Stream objects (real flow controllers) through
// single-threaded scripts that complete them in every way (Read to EOF, reset after a partial read,
// CancelRead then RESET_STREAM, Close then acknowledgements, CancelWrite, STOP_SENDING, retransmissions),
// and at every completion callback tries the stream's mutex: in a single-threaded script a mutex that
// cannot be taken is held by the caller.

import (
	"runtime"
	"context"
	"fmt"
	"io"
	"sync"
	"testing"

	"github.com/refraction-networking/uquic/internal/ackhandler"
	"github.com/refraction-networking/uquic/internal/flowcontrol"
	"github.com/refraction-networking/uquic/internal/monotime"
	"github.com/refraction-networking/uquic/internal/protocol"
	"github.com/refraction-networking/uquic/internal/utils"
	"github.com/refraction-networking/uquic/internal/verif/evlog"
	"github.com/refraction-networking/uquic/internal/wire"
)

type c17Contract struct {
	locks     []*sync.Mutex // the mutexes closeForShutdown takes for the stream under test
	completed int
	held      int
}

func (s *c17Contract) onHasConnectionData()                                                {}
func (s *c17Contract) onHasStreamData(protocol.StreamID, *SendStream)                      {}
func (s *c17Contract) onHasStreamControlFrame(protocol.StreamID, streamControlFrameGetter) {}
func (s *c17Contract) onStreamCompleted(protocol.StreamID) {
	s.completed++
	for _, m := range s.locks {
		if m.TryLock() {
			m.Unlock()
		} else {
			s.held++
		}
	}
}

type c17ContractScript struct {
	Kind   string `json:"kind"`   // recv | send | bidi
	Size   int    `json:"size"`   // bytes on the stream
	Chunk  int    `json:"chunk"`  // frame / read size
	Ending string `json:"ending"` // how the stream completes
}

func TestVerifC17CompletionContract(t *testing.T) {
	l := evlog.Open("C17")
	defer l.Close()
	var scripts []c17ContractScript
	for _, size := range []int{0, 1, 100, 3000} {
		for _, chunk := range []int{1, 64, 5000} {
			if chunk == 1 && size > 200 {
				continue
			}
			for _, e := range []string{"read-to-eof", "read-to-eof-separate-fin", "reset-after-partial-read", "cancel-then-reset", "reset-then-read", "reset-at-then-read"} {
				scripts = append(scripts, c17ContractScript{"recv", size, chunk, e})
			}
			for _, e := range []string{"close-then-acks", "cancel-write-then-ack", "stop-sending-then-ack", "close-loss-retransmit-ack"} {
				scripts = append(scripts, c17ContractScript{"send", size, chunk, e})
			}
			for _, e := range []string{"echo", "send-first", "cancel-both"} {
				scripts = append(scripts, c17ContractScript{"bidi", size, chunk, e})
			}
		}
	}
	for i, sc := range scripts {
		if !l.Mine(i) {
			continue
		}
		c := l.Begin(fmt.Sprintf("C17/contract/%s/%s/size%d/chunk%d", sc.Kind, sc.Ending, sc.Size, sc.Chunk), sc)
		if c == nil {
			continue
		}
		ct, note := runC17Contract(sc)
		fp := ""
		if ct.completed > 0 {
			fp = fmt.Sprintf("%s/%s/%d/%d", sc.Kind, sc.Ending, sc.Size, sc.Chunk)
		}
		c.Eval(fp)
		l.Count("completion_callbacks_checked", int64(ct.completed))
		if ct.held > 0 {
			c.Violation("C17|contract|completion-reported-under-stream-mutex|"+sc.Kind, fmt.Sprintf("the %s stream reported its completion to the connection while holding the mutex that closeForShutdown takes (%d of %d callbacks): a call that completes a stream while the connection is closing deadlocks the close path", sc.Kind, ct.held, ct.completed), map[string]any{"script": sc})
		}
		if ct.completed == 0 {
			l.Count("contract_scripts_without_completion", 1)
			c.Sample("no-completion/"+sc.Kind+"/"+sc.Ending, map[string]any{"script": sc, "note": note})
		}
		c.End()
	}
}

func runC17Contract(sc c17ContractScript) (*c17Contract, string) {
	ct := &c17Contract{}
	rtt := &utils.RTTStats{}
	cfc := flowcontrol.NewConnectionFlowController(1<<30, 1<<30, func(protocol.ByteCount) bool { return true }, rtt, utils.DefaultLogger)
	cfc.UpdateSendWindow(1 << 30)
	now := monotime.Now()
	data := make([]byte, sc.Size)
	for i := range data {
		data[i] = byte(i)
	}

	// ---- helpers on a receive half
	feed := func(rs interface {
		handleStreamFrame(*wire.StreamFrame, monotime.Time) error
	}, id protocol.StreamID, upto int, fin bool, separateFin bool) {
		for off := 0; off < upto || (off == 0 && upto == 0); off += sc.Chunk {
			end := min(off+sc.Chunk, upto)
			f := &wire.StreamFrame{StreamID: id, Offset: protocol.ByteCount(off), Data: data[off:end], Fin: fin && end == upto && !separateFin}
			rs.handleStreamFrame(f, now)
			if upto == 0 {
				break
			}
		}
		if fin && separateFin {
			rs.handleStreamFrame(&wire.StreamFrame{StreamID: id, Offset: protocol.ByteCount(upto), Fin: true}, now)
		}
	}
	// readN reads exactly n bytes (which the script has made available: Read does not block)
	readN := func(r io.Reader, n int) {
		buf := make([]byte, max(sc.Chunk, 1))
		for n > 0 {
			m, err := r.Read(buf[:min(len(buf), n)])
			n -= m
			if err != nil || m == 0 {
				return
			}
		}
	}
	// readAll reads the whole stream and then once more: the script has delivered the end (FIN or reset)
	readAll := func(r io.Reader) {
		readN(r, sc.Size)
		r.Read(make([]byte, 1))
	}
	// ---- helpers on a send half: pop everything, then acknowledge (or lose) it
	type popper interface {
		popStreamFrame(protocol.ByteCount, protocol.Version) (ackhandler.StreamFrame, *wire.StreamDataBlockedFrame, bool)
		getControlFrame(monotime.Time) (ackhandler.Frame, bool, bool)
	}
	pop := func(s popper) (frames []ackhandler.StreamFrame, ctrl []ackhandler.Frame) {
		for k := 0; k < sc.Size+10; k++ {
			f, _, _ := s.popStreamFrame(protocol.ByteCount(min(max(sc.Chunk, 30), 1200)), protocol.Version1)
			if f.Frame == nil {
				break
			}
			frames = append(frames, f)
		}
		for k := 0; k < 4; k++ {
			f, ok, _ := s.getControlFrame(now)
			if !ok {
				break
			}
			ctrl = append(ctrl, f)
		}
		return
	}
	ackAll := func(frames []ackhandler.StreamFrame, ctrl []ackhandler.Frame) {
		for _, f := range frames {
			f.Handler.OnAcked(f.Frame)
		}
		for _, f := range ctrl {
			if f.Handler != nil {
				f.Handler.OnAcked(f.Frame)
			}
		}
	}

	switch sc.Kind {
	case "recv":
		const id = 3
		sfc := flowcontrol.NewStreamFlowController(id, cfc, 1<<20, 1<<20, 1<<20, rtt, utils.DefaultLogger)
		rs := newReceiveStream(id, ct, sfc)
		ct.locks = []*sync.Mutex{&rs.mutex}
		switch sc.Ending {
		case "read-to-eof":
			feed(rs, id, sc.Size, true, false)
			readAll(rs)
		case "read-to-eof-separate-fin":
			feed(rs, id, sc.Size, false, false)
			readN(rs, sc.Size)
			rs.handleStreamFrame(&wire.StreamFrame{StreamID: id, Offset: protocol.ByteCount(sc.Size), Fin: true}, now)
			readAll(rs)
		case "reset-after-partial-read":
			feed(rs, id, sc.Size, false, false)
			readN(rs, sc.Size/2)
			rs.handleResetStreamFrame(&wire.ResetStreamFrame{StreamID: id, ErrorCode: 1, FinalSize: protocol.ByteCount(sc.Size)}, now)
			readAll(rs)
		case "cancel-then-reset":
			feed(rs, id, sc.Size, false, false)
			rs.CancelRead(2)
			rs.handleResetStreamFrame(&wire.ResetStreamFrame{StreamID: id, ErrorCode: 1, FinalSize: protocol.ByteCount(sc.Size)}, now)
			feed(rs, id, sc.Size, true, false)
		case "reset-then-read":
			rs.handleResetStreamFrame(&wire.ResetStreamFrame{StreamID: id, ErrorCode: 1, FinalSize: protocol.ByteCount(sc.Size)}, now)
			readAll(rs)
		case "reset-at-then-read":
			feed(rs, id, sc.Size, false, false)
			rs.handleResetStreamFrame(&wire.ResetStreamFrame{StreamID: id, ErrorCode: 1, FinalSize: protocol.ByteCount(sc.Size), ReliableSize: protocol.ByteCount(sc.Size / 2)}, now)
			readN(rs, sc.Size/2)
			rs.Read(make([]byte, 1))
		}
		return ct, "receive"
	case "send":
		const id = 2
		sfc := flowcontrol.NewStreamFlowController(id, cfc, 1<<20, 1<<20, 1<<20, rtt, utils.DefaultLogger)
		ss := newSendStream(context.Background(), id, ct, sfc, true)
		ct.locks = []*sync.Mutex{&ss.mutex}
		write := func() {
			// Write blocks until the data is popped: feed it from a second goroutine and pop here
			done := make(chan struct{})
			go func() { defer close(done); ss.Write(data) }()
			var all []ackhandler.StreamFrame
			// keep popping until the writer has returned, however the two goroutines are scheduled
			for finished := false; !finished; {
				select {
				case <-done:
					finished = true
				default:
				}
				f, _, _ := ss.popStreamFrame(protocol.ByteCount(min(max(sc.Chunk, 30), 1200)), protocol.Version1)
				if f.Frame != nil {
					all = append(all, f)
				} else if !finished {
					runtime.Gosched()
				}
			}
			for _, f := range all {
				f.Handler.OnAcked(f.Frame)
			}
		}
		switch sc.Ending {
		case "close-then-acks":
			write()
			ss.Close()
			ackAll(pop(ss))
		case "cancel-write-then-ack":
			write()
			ss.CancelWrite(3)
			ackAll(pop(ss))
		case "stop-sending-then-ack":
			write()
			ss.handleStopSendingFrame(&wire.StopSendingFrame{StreamID: id, ErrorCode: 4})
			ackAll(pop(ss))
		case "close-loss-retransmit-ack":
			write()
			ss.Close()
			fr, ctrl := pop(ss)
			for _, f := range fr {
				f.Handler.OnLost(f.Frame)
			}
			ackAll(nil, ctrl)
			ackAll(pop(ss))
		}
		return ct, "send"
	default:
		const id = 4
		sfc := flowcontrol.NewStreamFlowController(id, cfc, 1<<20, 1<<20, 1<<20, rtt, utils.DefaultLogger)
		st := newStream(context.Background(), id, ct, sfc, true)
		ct.locks = []*sync.Mutex{&st.sendStr.mutex, &st.receiveStr.mutex}
		sendSide := func(cancel bool) {
			if cancel {
				st.CancelWrite(5)
			} else {
				st.Close()
			}
			ackAll(pop(st))
		}
		recvSide := func(cancel bool) {
			feed(st, id, sc.Size, true, false)
			if cancel {
				st.CancelRead(6)
			} else {
				readAll(st)
			}
		}
		switch sc.Ending {
		case "echo":
			recvSide(false)
			sendSide(false)
		case "send-first":
			sendSide(false)
			recvSide(false)
		case "cancel-both":
			sendSide(true)
			recvSide(true)
		}
		return ct, "bidi"
	}
}
