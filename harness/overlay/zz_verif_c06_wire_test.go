package quic_test

// C06, connection level (E1): "an ACK for a packet number that was never sent, or was deliberately
// skipped, is a PROTOCOL_VIOLATION".  A real client and a real server over the simulated network; the
// victim first sends enough data for its packet number generator to skip a number.  The packet numbers
// the victim really put on the wire are known to the wire observer.  Then a correctly protected 1-RTT
// packet carrying an ACK frame is forged on behalf of the peer: one that acknowledges only numbers that
// were sent must leave the connection up; one that covers a number above the largest sent, or a number
// the victim skipped, must end the connection with PROTOCOL_VIOLATION at the API and on the wire.

import (
	"context"
	"errors"
	"fmt"
	"io"
	"net"
	"testing"
	"testing/synctest"
	"time"

	quic "github.com/refraction-networking/uquic"
	"github.com/refraction-networking/uquic/internal/verif/evlog"
	"github.com/refraction-networking/uquic/internal/verif/quicworld"
	"github.com/refraction-networking/uquic/internal/verif/wiretap"
)

type c06wCase struct {
	Name   string `json:"name"`
	Client string `json:"client"`
	Victim string `json:"victim"`
	KB     int    `json:"kb"`    // sent by the victim before the probe
	Probe  string `json:"probe"` // unsent+K | skipped-alone | skipped-in-range | sent-only
	K      uint64 `json:"k,omitempty"`
	Ranges int    `json:"ranges"` // additional valid ranges below the probed one
}

func TestVerifC06Wire(t *testing.T) {
	l := evlog.Open("C06")
	defer l.Close()
	var cases []c06wCase
	clients := []string{"plain", "unil", "Chrome_115_IPv4", "Firefox_116A"}
	rng := l.Rand("c06wire")
	n := l.Pick(400, 6000)
	for i := 0; i < n; i++ {
		cs := c06wCase{Client: clients[rng.IntN(len(clients))], Victim: []string{"client", "server"}[rng.IntN(2)], KB: []int{0, 20, 700, 700, 1500}[rng.IntN(5)],
			Probe: []string{"unsent", "skipped-alone", "skipped-in-range", "sent-only"}[rng.IntN(4)], Ranges: rng.IntN(4)}
		if cs.Probe == "unsent" {
			cs.K = []uint64{1, 1, 2, 3, 50, 1 << 20, 1 << 40}[rng.IntN(7)]
		} else if cs.Probe != "sent-only" {
			cs.KB = []int{700, 1500}[rng.IntN(2)]
		}
		cs.Name = fmt.Sprintf("%04d/%s/%s/%dk/%s%d/r%d", i, cs.Client, cs.Victim, cs.KB, cs.Probe, cs.K, cs.Ranges)
		cases = append(cases, cs)
	}
	for i, cs := range cases {
		if !l.Mine(i) {
			continue
		}
		c := l.Begin("C06/wire/"+cs.Name, cs)
		if c == nil {
			continue
		}
		synctest.Test(t, func(t *testing.T) { runC06Wire(l, c, &cs) })
		c.End()
	}
}

func runC06Wire(l *evlog.Log, c *evlog.Case, cs *c06wCase) {
	var world *quicworld.World
	kind := cs.Client
	if kind != "plain" && kind != "unil" {
		kind = "parrot"
	}
	viol := func(sig, f string, a ...any) {
		tr := map[string]any{"case": cs}
		if world != nil {
			if taps := world.Wire.Snapshot(); len(taps) > 0 {
				tr["wire_tail"] = taps[len(taps)-1].Describe(12)
			}
		}
		c.Violation(fmt.Sprintf("C06|wire|%s|%s|%s", sig, kind, cs.Victim), fmt.Sprintf(f, a...), tr)
	}
	victimIsClient := cs.Victim == "client"
	opt, err := quicworld.OptionsFor(&quicworld.ConnCase{Client: cs.Client, RTTms: 10})
	if err != nil {
		viol("harness", "%v", err)
		return
	}
	opt.ClientConf.MaxIdleTimeout, opt.ServerConf.MaxIdleTimeout = 5*time.Minute, 5*time.Minute
	w, err := quicworld.New(opt)
	if err != nil {
		viol("harness", "world: %v", err)
		return
	}
	world = w
	defer func() {
		w.Close()
		time.Sleep(time.Minute)
		synctest.Wait()
		if lk := quicworld.BubbleGoroutines(); len(lk) > 0 {
			viol("leak|goroutines-alive-after-close", "%s", lk[0])
		}
	}()
	ctx, cancel := context.WithTimeout(context.Background(), 5*time.Minute)
	defer cancel()
	type acc struct {
		c   *quic.Conn
		err error
	}
	accCh := make(chan acc, 1)
	go func() {
		sc, err := w.Accept(ctx)
		accCh <- acc{sc, err}
	}()
	cc, err := w.Dial(ctx)
	if err != nil {
		cancel()
		<-accCh
		viol("dial-failed", "%v", err)
		return
	}
	a := <-accCh
	if a.err != nil {
		cc.CloseWithError(0, "")
		viol("accept-failed", "%v", a.err)
		return
	}
	sc := a.c
	victim, peer := sc, cc
	vdir := wiretap.S2C
	if victimIsClient {
		victim, peer = cc, sc
		vdir = wiretap.C2S
	}
	pdir := vdir.Other()
	defer func() {
		cc.CloseWithError(0, "")
		sc.CloseWithError(0, "")
	}()
	if cs.KB > 0 {
		errc := make(chan error, 2)
		go func() {
			s, err := victim.OpenUniStreamSync(ctx)
			if err != nil {
				errc <- err
				return
			}
			if _, err := s.Write(make([]byte, cs.KB<<10)); err != nil {
				errc <- err
				return
			}
			errc <- s.Close()
		}()
		go func() {
			s, err := peer.AcceptUniStream(ctx)
			if err != nil {
				errc <- err
				return
			}
			_, err = io.Copy(io.Discard, s)
			errc <- err
		}()
		for i := 0; i < 2; i++ {
			if err := <-errc; err != nil {
				viol("harness", "transfer: %v", err)
				return
			}
		}
	}
	time.Sleep(500 * time.Millisecond)
	synctest.Wait()
	taps := w.Wire.Snapshot()
	if len(taps) == 0 {
		viol("harness", "no tap")
		return
	}
	tap := taps[len(taps)-1]
	largest, skipped := tap.EmittedPacketNumbers(vdir)
	if largest < 0 {
		viol("harness", "no 1-RTT packet of the victim observed")
		return
	}
	l.Count("wire_victim_packets_seen", largest+1-int64(len(skipped)))
	l.Count("wire_skipped_numbers_seen", int64(len(skipped)))
	isSkipped := map[uint64]bool{}
	for _, pn := range skipped {
		isSkipped[pn] = true
	}
	// valid ranges below `below`: single sent packet numbers, two apart at least
	validBelow := func(below uint64, n int) []wiretap.AckRange {
		var out []wiretap.AckRange
		pn := int64(below) - 2
		for len(out) < n && pn >= 0 {
			if !isSkipped[uint64(pn)] {
				out = append(out, wiretap.AckRange{Smallest: uint64(pn), Largest: uint64(pn)})
				pn -= 2
			} else {
				pn--
			}
		}
		return out
	}
	var ranges []wiretap.AckRange
	wantClose := true
	switch cs.Probe {
	case "unsent":
		top := uint64(largest) + cs.K
		ranges = append([]wiretap.AckRange{{Smallest: top, Largest: top}}, validBelow(uint64(largest), cs.Ranges)...)
	case "skipped-alone", "skipped-in-range":
		if len(skipped) == 0 {
			c.Eval("")
			l.Count("wire_no_number_skipped", 1)
			return
		}
		pn := skipped[len(skipped)-1]
		r := wiretap.AckRange{Smallest: pn, Largest: pn}
		if cs.Probe == "skipped-in-range" {
			r = wiretap.AckRange{Smallest: pn - min(pn, 3), Largest: min(pn+3, uint64(largest))}
		}
		ranges = append([]wiretap.AckRange{r}, validBelow(r.Smallest, cs.Ranges)...)
	case "sent-only":
		wantClose = false
		top := uint64(largest)
		ranges = append([]wiretap.AckRange{{Smallest: top, Largest: top}}, validBelow(top, cs.Ranges)...)
	}
	w.Router.SetBlackhole(vdir, true)
	defer w.Router.SetBlackhole(vdir, false)
	from, to := net.Addr(quicworld.ServerAddr), net.Addr(quicworld.ClientAddr)
	if !victimIsClient {
		from, to = to, from
	}
	pkt, err := tap.ForgeShort(pdir, wiretap.AckFrame(ranges, 0))
	if err != nil {
		viol("harness", "forge: %v", err)
		return
	}
	w.Router.Inject(pdir, from, to, pkt, 0)
	time.Sleep(300 * time.Millisecond)
	synctest.Wait()
	c.Eval(fmt.Sprintf("%s|%s|%s|k%d|r%d|kb%d", kind, cs.Victim, cs.Probe, min(cs.K, 4), len(ranges), cs.KB))
	if !wantClose {
		w.Wire.Lock()
		nClose := len(tap.Closes[vdir])
		w.Wire.Unlock()
		if victim.Context().Err() != nil || nClose > 0 {
			viol("ack-of-sent-packets-rejected", "ACK %v names only packet numbers the victim sent (largest %d, skipped %v), the victim closed the connection: %v", ranges, largest, skipped, context.Cause(victim.Context()))
			return
		}
		l.Count("wire_ack_of_sent_packets_accepted", 1)
		return
	}
	if victim.Context().Err() == nil {
		viol("ack-of-"+cs.Probe+"-packet-accepted", "ACK %v (largest packet number sent %d, skipped %v): the victim's connection is still up 300 ms later", ranges, largest, skipped)
		return
	}
	cause := context.Cause(victim.Context())
	var te *quic.TransportError
	if !errors.As(cause, &te) || te.Remote || te.ErrorCode != quic.ProtocolViolation {
		viol("wrong-error-for-ack-of-"+cs.Probe+"-packet", "ACK %v (largest sent %d, skipped %v): the victim ended with %v, want a local PROTOCOL_VIOLATION", ranges, largest, skipped, cause)
		return
	}
	w.Wire.Lock()
	good := len(tap.Closes[vdir]) > 0 && tap.Closes[vdir][0].Type == wiretap.FtConnClose && tap.Closes[vdir][0].ErrorCode == 0xa
	w.Wire.Unlock()
	if !good {
		viol("peer-not-told-protocol-violation", "no transport CONNECTION_CLOSE with PROTOCOL_VIOLATION (0xa) emitted by the victim")
		return
	}
	if cs.Probe == "unsent" {
		l.Count("wire_ack_unsent_protocol_violation", 1)
	} else {
		l.Count("wire_ack_skipped_protocol_violation", 1)
	}
}
