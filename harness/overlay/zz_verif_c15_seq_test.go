package quic

// C15, parts 1 and 2: sequential histories (exhaustive over small limits, and random) and the
// arrival-order workload, all executed by the engine in zz_verif_c15_model_test.go inside
// testing/synctest bubbles.

import (
	"fmt"
	"math/rand/v2"
	"sort"
	"strings"
	"testing"
	"testing/synctest"

	"github.com/refraction-networking/uquic/internal/verif/evlog"
)

type c15Result struct {
	fp     string
	sig    string
	detail string
	trace  map[string]any
	sample map[string]any
}

func (r *c15Run) trace() map[string]any {
	h := make([]string, len(r.hist))
	for i, o := range r.hist {
		h[i] = o.String()
	}
	return map[string]any{
		"perspective":       map[bool]string{true: "server", false: "client"}[r.server],
		"max_incoming_bidi": r.maxIn[c15Bidi], "max_incoming_uni": r.maxIn[c15Uni],
		"ops": r.hist, "history": strings.Join(h, " "),
	}
}

func (r *c15Run) classFP() string {
	keys := make([]string, 0, len(r.cls))
	for k := range r.cls {
		keys = append(keys, k)
	}
	sort.Strings(keys)
	var b strings.Builder
	if r.server {
		b.WriteString("S")
	} else {
		b.WriteString("C")
	}
	for _, k := range keys {
		fmt.Fprintf(&b, " %s%d", k, c15Bucket(r.cls[k]))
	}
	return b.String()
}

func c15Flush(l *evlog.Log, st c15Stats) {
	for k, v := range st {
		if strings.HasPrefix(k, "max:") {
			l.Max(k, v)
		} else {
			l.Count(k, v)
		}
	}
}

func c15Report(c *evlog.Case, res []c15Result) {
	nv := 0
	for _, x := range res {
		c.Eval(x.fp)
		if x.sig != "" {
			if nv++; nv <= 5 {
				c.Violation(x.sig, x.detail, x.trace)
			} else {
				c.Count("violations_not_logged", 1)
			}
		}
	}
}

// ---------------------------------------------------------------------------------------
// exhaustive enumeration over symbolic alphabets

type c15Sym struct {
	name string
	gen  func(r *c15Run) (c15Op, bool)
}

func c15OutAlphabet(t int) []c15Sym {
	lowestLive := func(r *c15Run) int {
		best := 0
		for n := range r.out[t].live {
			if best == 0 || n < best {
				best = n
			}
		}
		return best
	}
	return []c15Sym{
		{"open", func(r *c15Run) (c15Op, bool) { return c15Op{K: "open", T: t}, true }},
		{"sync", func(r *c15Run) (c15Op, bool) { return c15Op{K: "sync", T: t}, true }},
		{"max+1", func(r *c15Run) (c15Op, bool) { return c15Op{K: "max", T: t, N: r.out[t].peerMax + 1}, true }},
		{"max+2", func(r *c15Run) (c15Op, bool) { return c15Op{K: "max", T: t, N: r.out[t].peerMax + 2}, true }},
		{"max=", func(r *c15Run) (c15Op, bool) { return c15Op{K: "max", T: t, N: r.out[t].peerMax}, true }},
		{"cancel-first", func(r *c15Run) (c15Op, bool) { return c15Op{K: "csync", T: t, W: 0}, true }},
		{"cancel-last", func(r *c15Run) (c15Op, bool) {
			n := len(r.out[t].waiters)
			return c15Op{K: "csync", T: t, W: n - 1}, n >= 2
		}},
		{"race+1", func(r *c15Run) (c15Op, bool) { return c15Op{K: "race", T: t, N: 1, W: len(r.hist) & 1}, true }},
		{"jump+1", func(r *c15Run) (c15Op, bool) { return c15Op{K: "jump", T: t, N: 1}, true }},
		{"jsync+1", func(r *c15Run) (c15Op, bool) { return c15Op{K: "jsync", T: t, N: 1}, true }},
		{"del", func(r *c15Run) (c15Op, bool) { return c15Op{K: "del", T: t, I: 1, N: lowestLive(r)}, true }},
		{"self-valid", func(r *c15Run) (c15Op, bool) {
			return c15Op{K: "frame", T: t, I: 1, F: c15FMaxData, N: r.out[t].opened}, r.out[t].opened > 0
		}},
		{"self-unopened", func(r *c15Run) (c15Op, bool) {
			return c15Op{K: "frame", T: t, I: 1, F: c15FStopSending, N: r.out[t].opened + 1}, true
		}},
		{"self-recv", func(r *c15Run) (c15Op, bool) {
			// bidi: STREAM for the next, never opened, local stream; uni: STREAM for an opened send-only stream
			n := r.out[t].opened + 1
			if t == c15Uni {
				n = max(1, r.out[t].opened)
			}
			return c15Op{K: "frame", T: t, I: 1, F: c15FStream, N: n}, true
		}},
	}
}

func c15InAlphabet(t int) []c15Sym {
	live := func(r *c15Run) (lo, hi, n int) {
		in := &r.in[t]
		for k := 1; k <= in.opened; k++ {
			if !in.deleted[k] {
				if lo == 0 {
					lo = k
				}
				hi = k
				n++
			}
		}
		return
	}
	return []c15Sym{
		{"next", func(r *c15Run) (c15Op, bool) {
			return c15Op{K: "frame", T: t, F: c15FStream, N: r.in[t].opened + 1}, true
		}},
		{"skip", func(r *c15Run) (c15Op, bool) {
			return c15Op{K: "frame", T: t, F: c15FReset, N: r.in[t].opened + 2}, true
		}},
		{"at-limit", func(r *c15Run) (c15Op, bool) {
			return c15Op{K: "frame", T: t, F: c15FDataBlocked, N: r.in[t].advertised}, r.in[t].advertised > 0
		}},
		{"beyond", func(r *c15Run) (c15Op, bool) {
			return c15Op{K: "frame", T: t, F: c15FStream, N: r.in[t].advertised + 1}, true
		}},
		{"first", func(r *c15Run) (c15Op, bool) { return c15Op{K: "frame", T: t, F: c15FReset, N: 1}, r.in[t].opened > 0 }},
		{"send-side", func(r *c15Run) (c15Op, bool) {
			// bidi: opens the stream implicitly; uni: wrong direction
			return c15Op{K: "frame", T: t, F: c15FStopSending, N: r.in[t].opened + 1}, true
		}},
		{"acc", func(r *c15Run) (c15Op, bool) { return c15Op{K: "acc", T: t}, true }},
		{"bacc", func(r *c15Run) (c15Op, bool) { return c15Op{K: "bacc", T: t}, true }},
		{"cacc", func(r *c15Run) (c15Op, bool) { return c15Op{K: "cacc", T: t}, true }},
		{"del-lo", func(r *c15Run) (c15Op, bool) {
			lo, _, _ := live(r)
			return c15Op{K: "del", T: t, N: lo}, true
		}},
		{"del-hi", func(r *c15Run) (c15Op, bool) {
			_, hi, n := live(r)
			return c15Op{K: "del", T: t, N: hi}, n >= 2
		}},
	}
}

// c15Enumerate runs every applicable symbol sequence of length L that starts with symbol `first`.
// A sequence whose i-th symbol is not applicable (or which has already failed) is cut at i.
func c15Enumerate(alpha []c15Sym, L, first int, mk func() *c15Run, visit func(r *c15Run, names []string)) {
	seq := make([]int, L)
	seq[0] = first
	names := make([]string, 0, L)
	for {
		r := mk()
		names = names[:0]
		cut := -1
		for i := 0; i < L; i++ {
			op, ok := alpha[seq[i]].gen(r)
			if !ok || !r.step(op) {
				cut = i
				break
			}
			names = append(names, alpha[seq[i]].name)
			if r.sig != "" {
				cut = i
				break
			}
		}
		r.finish()
		if cut < 0 || r.sig != "" {
			visit(r, names)
		}
		// next sequence: increment at the cut position (skipping the whole subtree), or at the end
		pos := L - 1
		if cut >= 0 {
			pos = cut
			for j := cut + 1; j < L; j++ {
				seq[j] = 0
			}
		}
		for pos >= 1 {
			seq[pos]++
			if seq[pos] < len(alpha) {
				break
			}
			seq[pos] = 0
			pos--
		}
		if pos < 1 {
			return
		}
	}
}

func TestVerifC15Seq(t *testing.T) {
	l := evlog.Open("C15")
	defer l.Close()

	// ---- exhaustive: one side (outgoing / incoming) of one stream type, both perspectives
	type exhCfg struct {
		side   string
		server bool
		t      int
		lim    int // outgoing: initial peer limit; incoming: configured limit
	}
	var cfgs []exhCfg
	for _, server := range []bool{false, true} {
		for _, ty := range []int{c15Bidi, c15Uni} {
			for _, lim := range []int{0, 1, 2} {
				cfgs = append(cfgs, exhCfg{"out", server, ty, lim}, exhCfg{"in", server, ty, lim})
			}
		}
	}
	L := l.Pick(5, 7)
	idx := 0
	for _, cfg := range cfgs {
		alpha := c15OutAlphabet(cfg.t)
		if cfg.side == "in" {
			alpha = c15InAlphabet(cfg.t)
		}
		// quick: length 5 everywhere, 6 for the client with limit 1; thorough: 7, 6 for limit 2
		// (limit 2 is reachable from limit 1 anyway)
		length := L
		if l.Quick() && cfg.lim == 1 && !cfg.server {
			length = L + 1
		}
		if l.Thorough() && cfg.lim == 2 {
			length = L - 1
		}
		for first := range alpha {
			if !l.Mine(idx) {
				idx++
				continue
			}
			idx++
			id := fmt.Sprintf("C15/seq/exh/%s/server=%v/type%d/lim%d/%s", cfg.side, cfg.server, cfg.t, cfg.lim, alpha[first].name)
			c := l.Begin(id, map[string]any{"cfg": fmt.Sprint(cfg), "len": length})
			if c == nil {
				continue
			}
			st := c15Stats{}
			var res []c15Result
			var evals, nontrivial int64
			synctest.Test(t, func(t *testing.T) {
				mk := func() *c15Run {
					var r *c15Run
					if cfg.side == "out" {
						r = newC15Run(cfg.server, 1, 1, st)
						if cfg.lim > 0 {
							r.step(c15Op{K: "tp", N: cfg.lim, W: cfg.lim})
						}
					} else {
						r = newC15Run(cfg.server, cfg.lim, cfg.lim, st)
					}
					return r
				}
				c15Enumerate(alpha, length, first, mk, func(r *c15Run, names []string) {
					evals++
					x := c15Result{fp: id + " " + strings.Join(names, ","), sig: r.sig, detail: r.detail}
					if r.sig != "" {
						x.trace = r.trace()
						res = append(res, x)
					} else {
						// keep memory flat: evaluate right away (evlog is safe to use from the bubble)
						c.Eval(x.fp)
						nontrivial++
					}
				})
			})
			c15Report(c, res)
			st["exhaustive_histories"] += evals
			c15Flush(l, st)
			c.End()
		}
	}

	// ---- random histories over the whole map
	c15RandomPart(t, l, "mix", l.Pick(200000, 4000000))
}

func TestVerifC15Fifo(t *testing.T) {
	l := evlog.Open("C15")
	defer l.Close()
	c15RandomPart(t, l, "fifo", l.Pick(20000, 600000))
}

func c15RandomPart(t *testing.T, l *evlog.Log, prof string, n int) {
	const batch = 500
	for bi := 0; bi*batch < n; bi++ {
		if !l.Mine(bi) {
			continue
		}
		id := fmt.Sprintf("C15/seq/%s/batch%d", prof, bi)
		c := l.Begin(id, map[string]any{"profile": prof, "histories": batch})
		if c == nil {
			continue
		}
		rng := l.Rand(id)
		st := c15Stats{}
		var res []c15Result
		synctest.Test(t, func(t *testing.T) {
			for i := 0; i < batch; i++ {
				r := c15RandomHistory(rng, prof, st)
				x := c15Result{fp: prof + " " + r.classFP(), sig: r.sig, detail: r.detail}
				if r.sig != "" {
					x.trace = r.trace()
				}
				if i == 0 {
					x.sample = map[string]any{"history": r.trace()["history"], "classes": r.classFP()}
				}
				res = append(res, x)
			}
		})
		c15Report(c, res)
		for _, x := range res {
			if x.sample != nil {
				c.Sample(prof+"-history", x.sample)
				break
			}
		}
		st["random_histories_"+prof] += batch
		c15Flush(l, st)
		c.End()
	}
}

func c15PickLimit(rng *rand.Rand) int {
	switch x := rng.IntN(100); {
	case x < 6:
		return 0
	case x < 65:
		return 1 + rng.IntN(3)
	}
	return 4 + rng.IntN(5)
}

type c15Weighted struct {
	k string
	w int
}

var c15Profiles = map[string][]c15Weighted{
	"mix": {{"open", 8}, {"sync", 8}, {"csync", 4}, {"race", 2}, {"jump", 1}, {"jsync", 1}, {"max", 9}, {"tp", 1}, {"acc", 8}, {"bacc", 3}, {"cacc", 2},
		{"frame", 24}, {"del", 13}, {"reset0", 1}, {"usereset", 2}, {"close", 1}},
	"fifo": {{"open", 5}, {"sync", 32}, {"csync", 9}, {"race", 9}, {"jump", 5}, {"jsync", 6}, {"max", 26}, {"tp", 1}, {"frame", 4}, {"del", 8}},
}

func c15RandomHistory(rng *rand.Rand, prof string, st c15Stats) *c15Run {
	r := newC15Run(rng.IntN(2) == 0, c15PickLimit(rng), c15PickLimit(rng), st)
	if prof == "fifo" {
		if rng.IntN(2) == 0 {
			r.step(c15Op{K: "tp", N: rng.IntN(3), W: rng.IntN(3)})
		}
	} else if rng.IntN(100) < 85 {
		r.step(c15Op{K: "tp", N: c15PickLimit(rng), W: c15PickLimit(rng)})
	}
	weights := c15Profiles[prof]
	total := 0
	for _, w := range weights {
		total += w.w
	}
	n := 10 + rng.IntN(71)
	for i := 0; i < n && r.sig == ""; i++ {
		for try := 0; try < 8; try++ {
			x := rng.IntN(total)
			k := ""
			for _, w := range weights {
				if x < w.w {
					k = w.k
					break
				}
				x -= w.w
			}
			if (k == "close" || k == "reset0") && rng.IntN(4) != 0 {
				continue // rare: they end / restart the interesting part of a history
			}
			if r.step(c15RandomOp(rng, r, k, prof)) {
				break
			}
		}
	}
	r.finish()
	return r
}

func c15RandomOp(rng *rand.Rand, r *c15Run, k, prof string) c15Op {
	t := rng.IntN(2)
	o, in := &r.out[t], &r.in[t]
	op := c15Op{K: k, T: t}
	switch k {
	case "tp":
		op.N, op.W = r.out[c15Bidi].peerMax+rng.IntN(3), r.out[c15Uni].peerMax+rng.IntN(3)
		if rng.IntN(4) == 0 {
			op.N, op.W = c15PickLimit(rng), c15PickLimit(rng)
		}
	case "max":
		switch x := rng.IntN(100); {
		case x < 45:
			op.N = o.peerMax + 1
		case x < 70:
			op.N = o.peerMax + 2 + rng.IntN(3)
		case x < 80:
			op.N = o.peerMax
		case x < 95:
			op.N = rng.IntN(o.peerMax + 1)
		default:
			op.N = o.peerMax + 8
		}
	case "csync":
		if len(o.waiters) == 0 {
			t = 1 - t
			op.T, o = t, &r.out[t]
		}
		if len(o.waiters) > 0 {
			op.W = rng.IntN(len(o.waiters))
		}
	case "jump", "jsync":
		if len(o.waiters) == 0 {
			t = 1 - t
			op.T, o = t, &r.out[t]
		}
		if len(o.waiters) > 0 {
			op.N = 1 + rng.IntN(len(o.waiters))
		}
	case "race":
		if len(o.waiters) == 0 {
			t = 1 - t
			op.T, o = t, &r.out[t]
		}
		op.W = rng.IntN(2)
		op.N = 1 + rng.IntN(3)
		if rng.IntN(3) == 0 && len(o.waiters) > 0 {
			op.N = len(o.waiters) - 1 + rng.IntN(2) // around "just enough for the rest"
			if op.N < 1 {
				op.N = 1
			}
		}
	case "cacc":
		if in.acceptor == nil {
			op.T = 1 - t
		}
	case "frame":
		op.F = rng.IntN(5)
		if prof == "fifo" || rng.IntN(4) == 0 {
			op.I = 1
			switch x := rng.IntN(10); {
			case x < 6 && o.opened > 0:
				op.N = 1 + rng.IntN(o.opened)
			case x < 9:
				op.N = o.opened + 1
			default:
				op.N = o.opened + 3
			}
		} else {
			switch x := rng.IntN(100); {
			case x < 40:
				op.N = in.opened + 1
			case x < 55:
				op.N = in.opened + 2 + rng.IntN(2)
			case x < 65 && in.advertised > 0:
				op.N = in.advertised
			case x < 80:
				op.N = in.advertised + 1
			case x < 95 && in.opened > 0:
				op.N = 1 + rng.IntN(in.opened)
			default:
				op.N = in.advertised + 2 + rng.IntN(3)
			}
		}
	case "del":
		op.I = rng.IntN(2)
		if prof == "fifo" {
			op.I = 1
		}
		var live []int
		if op.I == 1 {
			for n := range o.live {
				live = append(live, n)
			}
			sort.Ints(live)
		} else {
			for n := 1; n <= in.opened; n++ {
				if !in.deleted[n] {
					live = append(live, n)
				}
			}
		}
		if len(live) > 0 {
			op.N = live[rng.IntN(len(live))]
		}
	}
	return op
}
