package quic_test

// C15, connection level (E1): "an attempt beyond the advertised MAX_STREAMS is answered with
// STREAM_LIMIT_ERROR, and further credit is issued monotonically and only as streams fully complete".
// A real client and a real server over the simulated network.  The limit the victim advertised is read
// from the wire (initial_max_streams_* of its transport parameters, raised by the MAX_STREAMS frames it
// emitted).  Optionally k streams are opened by the peer and completed by both applications first, so
// that the victim issues further credit.  Then correctly protected packets are forged on behalf of the
// peer: a frame naming the last stream the advertised limit allows must be accepted (the connection
// stays up), a frame naming the first stream beyond it must end the connection with STREAM_LIMIT_ERROR,
// both at the victim's API and in the CONNECTION_CLOSE it puts on the wire.

import (
	"context"
	"errors"
	"fmt"
	"io"
	"net"
	"testing"
	"testing/synctest"
	"time"

	quic "github.com/refraction-networking/uquic"
	"github.com/refraction-networking/uquic/internal/verif/evlog"
	"github.com/refraction-networking/uquic/internal/verif/quicworld"
	"github.com/refraction-networking/uquic/internal/verif/simworld"
	"github.com/refraction-networking/uquic/internal/verif/specgen"
	"github.com/refraction-networking/uquic/internal/verif/wiretap"
	tls "github.com/refraction-networking/utls"
)

type c15wCase struct {
	Name     string `json:"name"`
	Client   string `json:"client"`            // plain | unil | a QUICID | gen
	GenBidi  uint64 `json:"gen_bidi,omitempty"` // generated spec: advertised stream counts
	GenUni   uint64 `json:"gen_uni,omitempty"`
	ConfBidi int64  `json:"conf_bidi"` // the victim's Config.MaxIncomingStreams / MaxIncomingUniStreams (0: default)
	ConfUni  int64  `json:"conf_uni"`
	Victim   string `json:"victim"` // client | server
	Uni      bool   `json:"uni"`
	Complete int    `json:"complete"` // streams opened by the peer and completed before the probe (-1: as many as the limit allows)
	Frame    string `json:"frame"`    // frame kind naming the stream
	Far      bool   `json:"far"`      // the stream beyond the limit is far beyond it
}

var c15wFramesUni = []string{"stream", "reset", "blocked"}
var c15wFramesBidi = []string{"stream", "reset", "blocked", "max-stream-data", "stop-sending"}

func c15wFrame(kind string, id uint64) []byte {
	switch kind {
	case "reset":
		b := []byte{0x04}
		b = wiretap.AppendVarint(b, id)
		b = wiretap.AppendVarint(b, 7)
		return wiretap.AppendVarint(b, 0)
	case "blocked":
		b := []byte{0x15}
		b = wiretap.AppendVarint(b, id)
		return wiretap.AppendVarint(b, 1)
	case "max-stream-data":
		b := []byte{0x11}
		b = wiretap.AppendVarint(b, id)
		return wiretap.AppendVarint(b, 1<<20)
	case "stop-sending":
		b := []byte{0x05}
		b = wiretap.AppendVarint(b, id)
		return wiretap.AppendVarint(b, 9)
	}
	return wiretap.StreamFrame(id, 0, []byte("x"), false)
}

func TestVerifC15WireLimit(t *testing.T) {
	l := evlog.Open("C15")
	defer l.Close()
	var cases []c15wCase
	clients := append([]string{"plain", "unil"}, quicworld.QUICIDNames...)
	rng := l.Rand("c15wire")
	n := l.Pick(3000, 60000)
	confs := []int64{0, 0, 1, 2, 3, 7, 10, 100, 150}
	for i := 0; i < n; i++ {
		cs := c15wCase{Client: clients[rng.IntN(len(clients))], Victim: []string{"client", "server"}[rng.IntN(2)], Uni: rng.IntN(2) == 0,
			ConfBidi: confs[rng.IntN(len(confs))], ConfUni: confs[rng.IntN(len(confs))], Far: rng.IntN(5) == 0}
		if rng.IntN(3) == 0 {
			cs.Client = "gen"
			pick := []uint64{1, 2, 3, 5, 16, 100, 103}
			cs.GenBidi, cs.GenUni = pick[rng.IntN(len(pick))], pick[rng.IntN(len(pick))]
		}
		switch rng.IntN(4) {
		case 0:
			cs.Complete = 0
		case 1:
			cs.Complete = 1 + rng.IntN(3)
		case 2:
			cs.Complete = -1
		case 3:
			cs.Complete = 1 + rng.IntN(40)
		}
		fr := c15wFramesBidi
		if cs.Uni {
			fr = c15wFramesUni
		}
		cs.Frame = fr[rng.IntN(len(fr))]
		ty := "bidi"
		if cs.Uni {
			ty = "uni"
		}
		cs.Name = fmt.Sprintf("%04d/%s/%s/%s/k%d/%s", i, cs.Client, cs.Victim, ty, cs.Complete, cs.Frame)
		cases = append(cases, cs)
	}
	for i, cs := range cases {
		if !l.Mine(i) {
			continue
		}
		c := l.Begin("C15/wire/"+cs.Name, cs)
		if c == nil {
			continue
		}
		synctest.Test(t, func(t *testing.T) { runC15Wire(l, c, &cs) })
		c.End()
	}
}

func runC15Wire(l *evlog.Log, c *evlog.Case, cs *c15wCase) {
	var world *quicworld.World
	ty := "bidi"
	if cs.Uni {
		ty = "uni"
	}
	kind := cs.Client
	if kind != "plain" && kind != "unil" && kind != "gen" {
		kind = "parrot"
	}
	viol := func(sig, f string, a ...any) {
		tr := map[string]any{"case": cs}
		if world != nil {
			if taps := world.Wire.Snapshot(); len(taps) > 0 {
				tr["wire_tail"] = taps[len(taps)-1].Describe(20)
			}
		}
		c.Violation(fmt.Sprintf("C15|wire|%s|%s|%s|%s", sig, kind, cs.Victim, ty), fmt.Sprintf(f, a...), tr)
	}
	victimIsClient := cs.Victim == "client"
	vconf := &quic.Config{HandshakeIdleTimeout: 10 * time.Second, MaxIdleTimeout: 5 * time.Minute, MaxIncomingStreams: cs.ConfBidi, MaxIncomingUniStreams: cs.ConfUni}
	pconf := &quic.Config{HandshakeIdleTimeout: 10 * time.Second, MaxIdleTimeout: 5 * time.Minute, MaxIncomingStreams: 50, MaxIncomingUniStreams: 50}
	opt := quicworld.Options{RTT: 10 * time.Millisecond, ClientKind: cs.Client}
	if victimIsClient {
		opt.ClientConf, opt.ServerConf = vconf, pconf
	} else {
		opt.ClientConf, opt.ServerConf = pconf, vconf
	}
	var spec quic.QUICSpec
	switch cs.Client {
	case "plain", "unil":
	case "gen":
		spec = quic.QUICSpec{ClientHelloSpec: specgen.HelloSpec("small", tls.TransportParameters{tls.MaxUDPPayloadSize(1472), tls.MaxIdleTimeout(300000),
			tls.InitialMaxData(1 << 20), tls.InitialMaxStreamDataBidiLocal(64 << 10), tls.InitialMaxStreamDataBidiRemote(64 << 10), tls.InitialMaxStreamDataUni(64 << 10),
			tls.InitialMaxStreamsBidi(cs.GenBidi), tls.InitialMaxStreamsUni(cs.GenUni), tls.InitialSourceConnectionID([]byte{})})}
		opt.ClientKind, opt.Spec = "spec", &spec
	default:
		s, err := quic.QUICID2Spec(quicworld.QUICIDs[cs.Client])
		if err != nil {
			viol("harness", "%v", err)
			return
		}
		spec = s
		opt.ClientKind, opt.Spec = "spec", &spec
	}
	w, err := quicworld.New(opt)
	if err != nil {
		viol("harness", "world: %v", err)
		return
	}
	world = w
	defer func() {
		w.Close()
		time.Sleep(time.Minute)
		synctest.Wait()
		if lk := quicworld.BubbleGoroutines(); len(lk) > 0 {
			viol("leak|goroutines-alive-after-close", "%s", lk[0])
		}
	}()
	ctx, cancel := context.WithTimeout(context.Background(), 5*time.Minute)
	defer cancel()
	type acc struct {
		c   *quic.Conn
		err error
	}
	accCh := make(chan acc, 1)
	go func() {
		sc, err := w.Accept(ctx)
		accCh <- acc{sc, err}
	}()
	cc, err := w.Dial(ctx)
	if err != nil {
		cancel()
		<-accCh
		viol("dial-failed", "%v", err)
		return
	}
	a := <-accCh
	if a.err != nil {
		cc.CloseWithError(0, "")
		viol("accept-failed", "%v", a.err)
		return
	}
	sc := a.c
	victim, peer := sc, cc
	vdir := wiretap.S2C // direction of what the victim emits
	if victimIsClient {
		victim, peer = cc, sc
		vdir = wiretap.C2S
	}
	defer func() {
		cc.CloseWithError(0, "")
		sc.CloseWithError(0, "")
	}()
	time.Sleep(200 * time.Millisecond)
	synctest.Wait()
	taps := w.Wire.Snapshot()
	if len(taps) == 0 {
		viol("harness", "no tap")
		return
	}
	tap := taps[len(taps)-1]
	advertised := func() (uint64, bool) {
		w.Wire.Lock()
		defer w.Wire.Unlock()
		tp := tap.ServerTP
		if victimIsClient {
			tp = tap.ClientTP
		}
		if tp == nil {
			return 0, false
		}
		id, ti := uint64(wiretap.TPInitialMaxStreamsBidi), 0
		if cs.Uni {
			id, ti = wiretap.TPInitialMaxStreamsUni, 1
		}
		return max(tp.Int(id, 0), tap.MaxStreams[vdir][ti]), true
	}
	initial, ok := advertised()
	if !ok {
		viol("harness", "the victim's transport parameters were not observed")
		return
	}
	l.Count("wire_advertised_limits_read", 1)

	// ---- optionally: the peer opens k streams, both sides complete them, the victim issues credit
	k := cs.Complete
	if k < 0 || uint64(k) > initial {
		k = int(min(initial, 120))
	}
	if k > 0 {
		done := make(chan error, 2)
		go func() { // peer
			for i := 0; i < k; i++ {
				octx, ocancel := context.WithTimeout(ctx, 30*time.Second)
				if cs.Uni {
					s, err := peer.OpenUniStreamSync(octx)
					ocancel()
					if err != nil {
						done <- fmt.Errorf("peer OpenUniStreamSync %d: %w", i, err)
						return
					}
					s.Write([]byte("hello"))
					s.Close()
				} else {
					s, err := peer.OpenStreamSync(octx)
					ocancel()
					if err != nil {
						done <- fmt.Errorf("peer OpenStreamSync %d: %w", i, err)
						return
					}
					s.Write([]byte("hello"))
					s.Close()
					if _, err := io.ReadAll(s); err != nil {
						done <- fmt.Errorf("peer read %d: %w", i, err)
						return
					}
				}
			}
			done <- nil
		}()
		go func() { // victim
			for i := 0; i < k; i++ {
				actx, acancel := context.WithTimeout(ctx, 60*time.Second)
				if cs.Uni {
					s, err := victim.AcceptUniStream(actx)
					acancel()
					if err != nil {
						done <- fmt.Errorf("victim AcceptUniStream %d: %w", i, err)
						return
					}
					if _, err := io.ReadAll(s); err != nil {
						done <- fmt.Errorf("victim read %d: %w", i, err)
						return
					}
				} else {
					s, err := victim.AcceptStream(actx)
					acancel()
					if err != nil {
						done <- fmt.Errorf("victim AcceptStream %d: %w", i, err)
						return
					}
					if _, err := io.ReadAll(s); err != nil {
						done <- fmt.Errorf("victim read %d: %w", i, err)
						return
					}
					s.Write([]byte("bye"))
					s.Close()
				}
			}
			done <- nil
		}()
		for i := 0; i < 2; i++ {
			if err := <-done; err != nil {
				viol("streams-within-limit-failed", "%v (advertised limit %d, %d streams wanted)", err, initial, k)
				return
			}
		}
		time.Sleep(500 * time.Millisecond)
		synctest.Wait()
		l.Count("wire_streams_completed", int64(k))
	}
	limit, _ := advertised()
	// credit only as streams fully complete: the advertised limit never exceeds initial + completed
	if limit > initial+uint64(k) {
		viol("credit-exceeds-completed-streams", "advertised limit %d after %d completed streams, initial limit %d", limit, k, initial)
		return
	}
	if limit < initial {
		viol("harness", "limit went down")
		return
	}
	if k > 0 {
		if limit == initial+uint64(k) {
			l.Count("wire_credit_fully_reissued", 1)
		} else {
			// the victim's sending side of a bidirectional stream is complete only when its FIN is acknowledged,
			// so the last credit may lag; it must not lag for good
			viol("credit-not-reissued", "advertised limit %d, expected %d 500 ms after %d streams were completed by both applications", limit, initial+uint64(k), k)
			return
		}
	}
	if limit == 0 {
		c.Eval(fmt.Sprintf("%s|%s|%s|zero-limit", kind, cs.Victim, ty))
	}

	// ---- the probes.  Nothing the victim sends reaches the peer any more (the peer would otherwise see
	// acknowledgements for packets it never sent).
	w.Router.SetBlackhole(vdir, true)
	defer w.Router.SetBlackhole(vdir, false)
	toVictim := wiretap.Dir(1 - vdir)
	from, to := net.Addr(quicworld.ServerAddr), net.Addr(quicworld.ClientAddr)
	if !victimIsClient {
		from, to = to, from
	}
	typeBits := uint64(0) // initiated by the peer
	if victimIsClient {
		typeBits = 1
	}
	if cs.Uni {
		typeBits |= 2
	}
	closesSeen := func() int {
		w.Wire.Lock()
		defer w.Wire.Unlock()
		return len(tap.Closes[vdir])
	}
	if limit > 0 {
		id := 4*(limit-1) + typeBits
		pkt, err := tap.ForgeShort(toVictim, c15wFrame(cs.Frame, id))
		if err != nil {
			viol("harness", "forge: %v", err)
			return
		}
		w.Router.Inject(toVictim, from, to, pkt, 0)
		time.Sleep(300 * time.Millisecond)
		synctest.Wait()
		if victim.Context().Err() != nil || closesSeen() > 0 {
			viol("stream-within-limit-rejected", "%s frame for stream %d (number %d of an advertised limit of %d): the victim closed the connection: %v", cs.Frame, id, limit, limit, context.Cause(victim.Context()))
			return
		}
		l.Count("wire_last_allowed_stream_accepted", 1)
	}
	beyond := limit
	if cs.Far {
		beyond = limit + 1 + uint64(len(cs.Name))*977
	}
	id := 4*beyond + typeBits
	pkt, err := tap.ForgeShort(toVictim, c15wFrame(cs.Frame, id))
	if err != nil {
		viol("harness", "forge: %v", err)
		return
	}
	w.Router.Inject(toVictim, from, to, pkt, 0)
	time.Sleep(300 * time.Millisecond)
	synctest.Wait()
	c.Eval(fmt.Sprintf("%s|%s|%s|%s|k%d|lim%d|far%v", kind, cs.Victim, ty, cs.Frame, min(k, 3), min(limit, 4), cs.Far))
	if victim.Context().Err() == nil {
		viol("stream-beyond-limit-accepted", "%s frame for stream %d (number %d, advertised limit %d): the victim's connection is still up 300 ms later", cs.Frame, id, beyond+1, limit)
		return
	}
	cause := context.Cause(victim.Context())
	var te *quic.TransportError
	if !errors.As(cause, &te) || te.Remote || te.ErrorCode != quic.StreamLimitError {
		viol("wrong-error-for-stream-beyond-limit", "%s frame for stream %d (number %d, advertised limit %d): the victim ended with %v, want a local STREAM_LIMIT_ERROR", cs.Frame, id, beyond+1, limit, cause)
		return
	}
	w.Wire.Lock()
	var onWire string
	for _, f := range tap.Closes[vdir] {
		onWire += fmt.Sprintf("type=%#x code=%#x; ", f.Type, f.ErrorCode)
	}
	good := len(tap.Closes[vdir]) > 0 && tap.Closes[vdir][0].Type == wiretap.FtConnClose && tap.Closes[vdir][0].ErrorCode == 0x4
	w.Wire.Unlock()
	if !good {
		viol("peer-not-told-stream-limit-error", "CONNECTION_CLOSE frames emitted by the victim: [%s], want a transport CONNECTION_CLOSE with STREAM_LIMIT_ERROR (0x4)", onWire)
		return
	}
	l.Count("wire_stream_limit_errors_verified", 1)
	_ = peer
}

// The passive wire invariant under faults: transfers that need far more streams than the limits allow at
// once (44 streams against 6 / 3, one stream at a time against a limit of 1, cancellations), with each of
// the first datagrams of either direction dropped once, so that MAX_STREAMS / STREAMS_BLOCKED rounds are
// lost and repeated: a stream opened by an endpoint never has a number beyond the largest stream count
// its peer had put on the wire by then.
func TestVerifC15WireFaults(t *testing.T) {
	l := evlog.Open("C15")
	defer l.Close()
	var cases []*quicworld.ConnCase
	for _, cl := range []string{"plain", "unil", "Firefox_116A", "Chrome_115_IPv4"} {
		for _, sc := range []string{"S7", "S9", "S10"} {
			for d := 0; d < 2; d++ {
				for o := 0; o < l.Pick(40, 200); o++ {
					lim := 0
					if sc == "S9" {
						lim = 1
					}
					cases = append(cases, &quicworld.ConnCase{Name: fmt.Sprintf("limits/%s/%s/d%d-o%d-drop", sc, cl, d, o), Client: cl, SmallLimits: sc == "S7", StreamLimit: lim, RTTms: 10, ConnIdx: len(cases),
						Schedule: simworld.Schedule{Faults: []simworld.Fault{{Dir: wiretap.Dir(d), Ordinal: o, Action: simworld.Action{Kind: "drop"}}}}, Transfer: quicworld.Scenario(sc, uint64(len(cases)))})
				}
			}
		}
	}
	quicworld.RunSuite(t, l, cases, func(c *evlog.Case, cc *quicworld.ConnCase, r *quicworld.CaseResult) {
		fp := ""
		var checks int64
		for _, tp := range r.Taps {
			checks += tp.Counts["c15_stream_count_checks"]
		}
		if checks > 0 {
			fp = cc.Name
		}
		c.Eval(fp)
		l.Count("wire_stream_count_checks", checks)
		for _, tp := range r.Taps {
			for _, a := range tp.Anomalies {
				if a.Prop == "C15" {
					c.Violation(a.Sig, a.Detail, map[string]any{"wire": tp.Describe(40), "router": r.RouterLog})
				}
			}
		}
	})
}
