package quic

// C16, path probing: "reports every sequence number it retires (because of ... path probing) ... and
// stateless-reset tokens are registered exactly for the peer IDs in use".  The server-side path manager
// binds one of the peer's connection IDs to every path it probes and gives it back when the path is given
// up (lost PATH_CHALLENGE, eviction of an idle path, switch to another path).  The real pathManager is
// wired to the real connIDManager exactly as connection.go wires them, and seeded histories of packets
// from new and known addresses (with and without PATH_CHALLENGE), lost and answered challenges, idle
// periods, path switches and new connection IDs from the peer are run.  After every step, at a quiescent
// point: the connection IDs bound to paths are exactly those of the paths the path manager still tracks;
// every known sequence number is in exactly one place (reported retired - once -, waiting in the queue,
// active, bound to a path); the registered stateless reset tokens are exactly those of the active and
// the path-bound IDs.

import (
	"fmt"
	"math/rand/v2"
	"net"
	"sort"
	"testing"
	"time"

	"github.com/refraction-networking/uquic/internal/ackhandler"
	"github.com/refraction-networking/uquic/internal/monotime"
	"github.com/refraction-networking/uquic/internal/protocol"
	"github.com/refraction-networking/uquic/internal/utils"
	"github.com/refraction-networking/uquic/internal/verif/evlog"
	"github.com/refraction-networking/uquic/internal/wire"
)

func TestVerifC16Paths(t *testing.T) {
	l := evlog.Open("C16")
	defer l.Close()
	n := l.Pick(20000, 400000)
	const batch = 500
	for bi := 0; bi*batch < n; bi++ {
		if !l.Mine(bi) {
			continue
		}
		id := fmt.Sprintf("C16/paths/batch%d", bi)
		c := l.Begin(id, map[string]any{"histories": batch})
		if c == nil {
			continue
		}
		rng := l.Rand(id)
		nv := 0
		for i := 0; i < batch; i++ {
			seed := rng.Uint64()
			sig, detail, fp := runC16Paths(seed)
			c.Eval(fp)
			if sig != "" {
				if nv++; nv <= 3 {
					c.Violation(sig, detail, map[string]any{"history_seed": seed})
				}
			}
		}
		l.Count("path_histories", batch)
		c.End()
	}
}

func runC16Paths(seed uint64) (sig, detail, fp string) {
	rng := rand.New(rand.NewPCG(seed, 16))
	tokens := map[protocol.StatelessResetToken]int{}
	var retired []uint64
	tok := func(seq uint64) protocol.StatelessResetToken {
		return protocol.StatelessResetToken{byte(seq), byte(seq >> 8), 7, 7, 7, 7, 7, 7, 7, 7, 7, 7, 7, 7, 7, 7}
	}
	cid := func(seq uint64) protocol.ConnectionID {
		return protocol.ParseConnectionID([]byte{byte(seq), byte(seq >> 8), 0xc1, 0x6c})
	}
	m := newConnIDManager(cid(0),
		func(t protocol.StatelessResetToken) { tokens[t]++ },
		func(t protocol.StatelessResetToken) { tokens[t]-- },
		func(f wire.Frame) {
			if r, ok := f.(*wire.RetireConnectionIDFrame); ok {
				retired = append(retired, r.SequenceNumber)
			}
		})
	m.SetStatelessResetToken(tok(0))
	m.SetHandshakeComplete()
	pm := newPathManager(m.GetConnIDForPath, m.RetireConnIDForPath, utils.DefaultLogger)
	now := monotime.Now()
	known := map[uint64]bool{0: true}
	nextSeq := uint64(1)
	type probe struct {
		f    ackhandler.Frame
		addr net.Addr
	}
	var probes []probe
	addrs := []net.Addr{}
	for i := 0; i < 6; i++ {
		addrs = append(addrs, &net.UDPAddr{IP: net.IPv4(10, 0, 0, byte(1+i)), Port: 1000 + i})
	}
	var nAdd, nPkt, nLost, nResp, nSwitch, nEvictable int
	check := func(step int, what string) bool {
		// (a) path-bound IDs <-> paths the path manager tracks
		tracked := map[pathID]bool{}
		for _, p := range pm.paths {
			tracked[p.id] = true
		}
		for id := range m.pathProbing {
			if !tracked[id] {
				sig, detail = "C16|paths|id-bound-to-a-path-that-was-given-up", fmt.Sprintf("step %d (%s): connection ID seq %d is still bound to path %d, which the path manager no longer tracks (never retired, token still registered)", step, what, m.pathProbing[id].SequenceNumber, id)
				return false
			}
		}
		for id := range tracked {
			if _, ok := m.pathProbing[id]; !ok {
				sig, detail = "C16|paths|tracked-path-lost-its-id", fmt.Sprintf("step %d (%s): path %d is tracked but its connection ID was retired", step, what, id)
				return false
			}
		}
		// (b) every known sequence number in exactly one place
		where := map[uint64][]string{}
		seen := map[uint64]bool{}
		for _, s := range retired {
			if seen[s] {
				sig, detail = "C16|paths|retired-twice", fmt.Sprintf("step %d (%s): RETIRE_CONNECTION_ID for seq %d queued twice", step, what, s)
				return false
			}
			seen[s] = true
			where[s] = append(where[s], "retired")
		}
		for _, e := range m.queue {
			where[e.SequenceNumber] = append(where[e.SequenceNumber], "queue")
		}
		where[m.activeSequenceNumber] = append(where[m.activeSequenceNumber], "active")
		for _, e := range m.pathProbing {
			where[e.SequenceNumber] = append(where[e.SequenceNumber], "path")
		}
		for s := range known {
			if len(where[s]) != 1 {
				sig, detail = "C16|paths|sequence-number-not-in-exactly-one-place", fmt.Sprintf("step %d (%s): seq %d is in %v", step, what, s, where[s])
				return false
			}
		}
		// (c) tokens: exactly the active ID's and the path-bound IDs'
		want := map[protocol.StatelessResetToken]bool{tok(m.activeSequenceNumber): true}
		for _, e := range m.pathProbing {
			want[tok(e.SequenceNumber)] = true
		}
		for t, n := range tokens {
			if n < 0 || n > 1 || (n == 1) != want[t] {
				sig, detail = "C16|paths|reset-tokens-differ-from-ids-in-use", fmt.Sprintf("step %d (%s): token of seq %d registered %d times, in use: %v", step, what, uint64(t[0])|uint64(t[1])<<8, n, want[t])
				return false
			}
		}
		for t := range want {
			if tokens[t] != 1 {
				sig, detail = "C16|paths|reset-tokens-differ-from-ids-in-use", fmt.Sprintf("step %d (%s): token of seq %d (in use) is not registered", step, what, uint64(t[0])|uint64(t[1])<<8)
				return false
			}
		}
		return true
	}
	steps := 10 + rng.IntN(60)
	for step := 0; step < steps; step++ {
		what := ""
		switch x := rng.IntN(100); {
		case x < 25: // the peer issues a connection ID (within the limit it was given)
			unretired := 0
			for s := range known {
				r := false
				for _, q := range retired {
					if q == s {
						r = true
					}
				}
				if !r {
					unretired++
				}
			}
			if unretired >= protocol.MaxActiveConnectionIDs {
				continue
			}
			what = fmt.Sprintf("NEW_CONNECTION_ID seq %d", nextSeq)
			if err := m.Add(&wire.NewConnectionIDFrame{SequenceNumber: nextSeq, ConnectionID: cid(nextSeq), StatelessResetToken: tok(nextSeq)}); err != nil {
				return "C16|paths|conformant-id-rejected", fmt.Sprintf("step %d: %v", step, err), ""
			}
			known[nextSeq] = true
			nextSeq++
			nAdd++
		case x < 60: // a packet from some address
			a := addrs[rng.IntN(len(addrs))]
			var pc *wire.PathChallengeFrame
			if rng.IntN(4) == 0 {
				pc = &wire.PathChallengeFrame{Data: [8]byte{byte(step), 1}}
			}
			what = fmt.Sprintf("packet from %s", a)
			_, frames, _ := pm.HandlePacket(a, now, pc, rng.IntN(2) == 0)
			for _, f := range frames {
				if _, ok := f.Frame.(*wire.PathChallengeFrame); ok {
					probes = append(probes, probe{f, a})
				}
			}
			nPkt++
		case x < 75 && len(probes) > 0: // a PATH_CHALLENGE is declared lost
			i := rng.IntN(len(probes))
			what = fmt.Sprintf("PATH_CHALLENGE for %s lost", probes[i].addr)
			probes[i].f.Handler.OnLost(probes[i].f.Frame)
			probes = append(probes[:i], probes[i+1:]...)
			nLost++
		case x < 85 && len(probes) > 0: // a PATH_RESPONSE arrives
			i := rng.IntN(len(probes))
			what = fmt.Sprintf("PATH_RESPONSE from %s", probes[i].addr)
			pm.HandlePathResponseFrame(&wire.PathResponseFrame{Data: probes[i].f.Frame.(*wire.PathChallengeFrame).Data})
			nResp++
		case x < 90 && len(pm.paths) > 0: // the connection switches to a path
			p := pm.paths[rng.IntN(len(pm.paths))]
			what = fmt.Sprintf("switch to %s", p.addr)
			// connection.go: the connection ID of the new path becomes the active one, then the path manager forgets the others
			m.RetireConnIDForPath(-99) // (a path that does not exist: must be a no-op)
			pm.SwitchToPath(p.addr)
			// the path switched to keeps its ID bound in the manager (connection.go does not retire it either): give it up
			// the way the path manager does for the others, so that the invariant speaks about the same set
			m.RetireConnIDForPath(p.id)
			probes = nil
			nSwitch++
		default:
			d := time.Duration(rng.IntN(7000)) * time.Millisecond
			what = fmt.Sprintf("idle %s", d)
			now = now.Add(d)
			if d > pathTimeout {
				nEvictable++
			}
		}
		if what == "" {
			continue
		}
		if !check(step, what) {
			return sig, detail, ""
		}
	}
	ids := []int{nAdd, nPkt, nLost, nResp, nSwitch, nEvictable, len(retired)}
	sort.Ints(ids[:0])
	b := func(n int) int { return min(n, 3) }
	return "", "", fmt.Sprintf("paths a%d p%d l%d r%d s%d e%d ret%d", b(nAdd), b(nPkt/4), b(nLost), b(nResp), b(nSwitch), b(nEvictable), b(len(retired)/2))
}
