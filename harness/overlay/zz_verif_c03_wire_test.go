package quic_test

// C03, connection level (E1): "frames that contradict an established final size, or exceed ... crypto-buffer
// limits, are rejected with the corresponding transport error instead of corrupting delivered data".
// A real client and a real server over the simulated network.  The peer genuinely sends F bytes and a FIN
// on a stream (the victim's application reads fewer than F bytes, so the stream stays alive); then
// correctly protected packets are forged on behalf of the peer: an identical retransmission of the last
// byte with the FIN, or a RESET_STREAM with the same final size, must leave the connection up (and the
// bytes the application reads afterwards must be the original ones); data or a FIN beyond the final size,
// a FIN below it, or a RESET_STREAM with another final size must end the connection with FINAL_SIZE_ERROR;
// a CRYPTO frame ending exactly at the crypto buffer limit must be tolerated, one byte beyond must yield
// CRYPTO_BUFFER_EXCEEDED - at the victim's API and in the CONNECTION_CLOSE it puts on the wire.

import (
	"context"
	"errors"
	"fmt"
	"io"
	"net"
	"testing"
	"testing/synctest"
	"time"

	quic "github.com/refraction-networking/uquic"
	"github.com/refraction-networking/uquic/internal/verif/evlog"
	"github.com/refraction-networking/uquic/internal/verif/quicworld"
	"github.com/refraction-networking/uquic/internal/verif/wiretap"
)

type c03wCase struct {
	Name   string `json:"name"`
	Client string `json:"client"`
	Victim string `json:"victim"`
	Stream string `json:"stream"` // peer-bidi | peer-uni | own-bidi
	F      int    `json:"final_size"`
	Read   int    `json:"read"` // bytes the victim's application reads before the probe (< F)
	Probe  string `json:"probe"`
}

var c03wProbes = []string{"dup-fin", "reset-same", "beyond", "fin-larger", "fin-smaller", "reset-larger", "reset-smaller", "crypto-at-limit", "crypto-beyond"}

func c03wByte(i int) byte { return byte(i*7 + 3) }

func TestVerifC03Wire(t *testing.T) {
	l := evlog.Open("C03")
	defer l.Close()
	var cases []c03wCase
	clients := []string{"plain", "unil", "Chrome_115_IPv4", "Firefox_116A", "Firefox_116A~asym"}
	rng := l.Rand("c03wire")
	n := l.Pick(1500, 30000)
	for i := 0; i < n; i++ {
		cs := c03wCase{Client: clients[rng.IntN(len(clients))], Victim: []string{"client", "server"}[rng.IntN(2)], Stream: []string{"peer-bidi", "peer-uni", "own-bidi"}[rng.IntN(3)],
			F: []int{1, 2, 17, 1000, 4000}[rng.IntN(5)], Probe: c03wProbes[rng.IntN(len(c03wProbes))]}
		cs.Read = rng.IntN(cs.F)
		cs.Name = fmt.Sprintf("%05d/%s/%s/%s/f%d-r%d/%s", i, cs.Client, cs.Victim, cs.Stream, cs.F, cs.Read, cs.Probe)
		cases = append(cases, cs)
	}
	for i, cs := range cases {
		if !l.Mine(i) {
			continue
		}
		c := l.Begin("C03/wire/"+cs.Name, cs)
		if c == nil {
			continue
		}
		synctest.Test(t, func(t *testing.T) { runC03Wire(l, c, &cs) })
		c.End()
	}
}

func runC03Wire(l *evlog.Log, c *evlog.Case, cs *c03wCase) {
	var world *quicworld.World
	kind := cs.Client
	if kind != "plain" && kind != "unil" {
		kind = "parrot"
	}
	viol := func(sig, f string, a ...any) {
		tr := map[string]any{"case": cs}
		if world != nil {
			if taps := world.Wire.Snapshot(); len(taps) > 0 {
				tr["wire_tail"] = taps[len(taps)-1].Describe(12)
			}
		}
		c.Violation(fmt.Sprintf("C03|wire|%s|%s|%s|%s", sig, kind, cs.Victim, cs.Stream), fmt.Sprintf(f, a...), tr)
	}
	victimIsClient := cs.Victim == "client"
	opt, err := quicworld.OptionsFor(&quicworld.ConnCase{Client: cs.Client, RTTms: 10})
	if err != nil {
		viol("harness", "%v", err)
		return
	}
	opt.ClientConf.MaxIdleTimeout, opt.ServerConf.MaxIdleTimeout = 5*time.Minute, 5*time.Minute
	w, err := quicworld.New(opt)
	if err != nil {
		viol("harness", "world: %v", err)
		return
	}
	world = w
	defer func() {
		w.Close()
		time.Sleep(time.Minute)
		synctest.Wait()
		if lk := quicworld.BubbleGoroutines(); len(lk) > 0 {
			viol("leak|goroutines-alive-after-close", "%s", lk[0])
		}
	}()
	ctx, cancel := context.WithTimeout(context.Background(), 5*time.Minute)
	defer cancel()
	type acc struct {
		c   *quic.Conn
		err error
	}
	accCh := make(chan acc, 1)
	go func() {
		sc, err := w.Accept(ctx)
		accCh <- acc{sc, err}
	}()
	cc, err := w.Dial(ctx)
	if err != nil {
		cancel()
		<-accCh
		viol("dial-failed", "%v", err)
		return
	}
	a := <-accCh
	if a.err != nil {
		cc.CloseWithError(0, "")
		viol("accept-failed", "%v", a.err)
		return
	}
	sc := a.c
	victim, peer := sc, cc
	vdir := wiretap.S2C
	if victimIsClient {
		victim, peer = cc, sc
		vdir = wiretap.C2S
	}
	pdir := vdir.Other()
	defer func() {
		cc.CloseWithError(0, "")
		sc.CloseWithError(0, "")
	}()

	// ---- the genuine stream: F bytes and a FIN from the peer; the victim reads cs.Read of them
	payload := make([]byte, cs.F)
	for i := range payload {
		payload[i] = c03wByte(i)
	}
	var rd io.Reader
	var id uint64
	peerBits, ownBits := uint64(0), uint64(1)
	if victimIsClient {
		peerBits, ownBits = 1, 0
	}
	errc := make(chan error, 2)
	rdc := make(chan io.Reader, 1)
	go func() { // victim
		var r io.Reader
		switch cs.Stream {
		case "own-bidi":
			s, err := victim.OpenStream()
			if err != nil {
				errc <- err
				return
			}
			s.Write([]byte("q"))
			r = s
		case "peer-bidi":
			s, err := victim.AcceptStream(ctx)
			if err != nil {
				errc <- err
				return
			}
			r = s
		default:
			s, err := victim.AcceptUniStream(ctx)
			if err != nil {
				errc <- err
				return
			}
			r = s
		}
		got := make([]byte, cs.Read)
		if _, err := io.ReadFull(r, got); err != nil {
			errc <- err
			return
		}
		for i, b := range got {
			if b != c03wByte(i) {
				errc <- fmt.Errorf("byte %d read as %#x before any forged frame", i, b)
				return
			}
		}
		rdc <- r
		errc <- nil
	}()
	go func() { // peer
		switch cs.Stream {
		case "own-bidi":
			s, err := peer.AcceptStream(ctx)
			if err != nil {
				errc <- err
				return
			}
			s.Write(payload)
			errc <- s.Close()
		case "peer-bidi":
			s, err := peer.OpenStreamSync(ctx)
			if err != nil {
				errc <- err
				return
			}
			s.Write(payload)
			errc <- s.Close()
		default:
			s, err := peer.OpenUniStreamSync(ctx)
			if err != nil {
				errc <- err
				return
			}
			s.Write(payload)
			errc <- s.Close()
		}
	}()
	for i := 0; i < 2; i++ {
		select {
		case err := <-errc:
			if err != nil {
				viol("harness", "genuine stream: %v", err)
				return
			}
		case <-time.After(time.Minute):
			viol("harness", "genuine stream not delivered within a minute")
			return
		}
	}
	rd = <-rdc
	switch cs.Stream {
	case "peer-bidi":
		id = peerBits
	case "peer-uni":
		id = peerBits | 2
	default:
		id = ownBits
	}
	time.Sleep(300 * time.Millisecond)
	synctest.Wait()
	taps := w.Wire.Snapshot()
	if len(taps) == 0 {
		viol("harness", "no tap")
		return
	}
	tap := taps[len(taps)-1]

	F := uint64(cs.F)
	var frame []byte
	wantCode := uint64(0) // 0: the connection must stay up
	reset := func(final uint64) []byte {
		b := []byte{0x04}
		b = wiretap.AppendVarint(b, id)
		b = wiretap.AppendVarint(b, 5)
		return wiretap.AppendVarint(b, final)
	}
	switch cs.Probe {
	case "dup-fin":
		frame = wiretap.StreamFrame(id, F-1, []byte{c03wByte(cs.F - 1)}, true)
	case "reset-same":
		frame = reset(F)
	case "beyond":
		frame, wantCode = wiretap.StreamFrame(id, F, []byte("z"), false), 0x6
	case "fin-larger":
		frame, wantCode = wiretap.StreamFrame(id, F, []byte("z"), true), 0x6
	case "fin-smaller":
		frame, wantCode = wiretap.StreamFrame(id, F-1, nil, true), 0x6
	case "reset-larger":
		frame, wantCode = reset(F+1), 0x6
	case "reset-smaller":
		frame, wantCode = reset(F-1), 0x6
	case "crypto-at-limit":
		frame = wiretap.CryptoFrame(16*1024-1, []byte{0})
	case "crypto-beyond":
		frame, wantCode = wiretap.CryptoFrame(16*1024, []byte{0}), 0xd
	}
	w.Router.SetBlackhole(vdir, true)
	defer w.Router.SetBlackhole(vdir, false)
	from, to := net.Addr(quicworld.ServerAddr), net.Addr(quicworld.ClientAddr)
	if !victimIsClient {
		from, to = to, from
	}
	pkt, err := tap.ForgeShort(pdir, frame)
	if err != nil {
		viol("harness", "forge: %v", err)
		return
	}
	w.Router.Inject(pdir, from, to, pkt, 0)
	time.Sleep(300 * time.Millisecond)
	synctest.Wait()
	c.Eval(fmt.Sprintf("%s|%s|%s|%s|f%d|read%v", kind, cs.Victim, cs.Stream, cs.Probe, min(cs.F, 18), cs.Read > 0))
	if wantCode == 0 {
		w.Wire.Lock()
		nClose := len(tap.Closes[vdir])
		w.Wire.Unlock()
		if victim.Context().Err() != nil || nClose > 0 {
			viol("consistent-frame-rejected|"+cs.Probe, "final size %d, probe %s: the victim closed the connection: %v", F, cs.Probe, context.Cause(victim.Context()))
			return
		}
		// what the application reads afterwards is still the original byte sequence (or the reset)
		rest, rerr := io.ReadAll(rd)
		if cs.Probe == "reset-same" {
			var se *quic.StreamError
			if rerr == nil && len(rest) == cs.F-cs.Read {
				l.Count("wire_reset_after_complete_data_read_to_eof", 1)
			} else if !errors.As(rerr, &se) {
				viol("read-after-reset", "after RESET_STREAM with the established final size the reader got %d bytes and %v", len(rest), rerr)
				return
			}
		} else {
			if rerr != nil || len(rest) != cs.F-cs.Read {
				viol("bytes-lost-or-added", "after probe %s the reader got %d more bytes and %v, want %d and EOF", cs.Probe, len(rest), rerr, cs.F-cs.Read)
				return
			}
		}
		for i, b := range rest {
			if b != c03wByte(cs.Read+i) {
				viol("bytes-corrupted", "after probe %s byte %d reads %#x, want %#x", cs.Probe, cs.Read+i, b, c03wByte(cs.Read+i))
				return
			}
		}
		l.Count("wire_consistent_frames_accepted", 1)
		return
	}
	if victim.Context().Err() == nil {
		viol("contradicting-frame-accepted|"+cs.Probe, "final size %d, probe %s: the victim's connection is still up 300 ms later", F, cs.Probe)
		return
	}
	cause := context.Cause(victim.Context())
	var te *quic.TransportError
	if !errors.As(cause, &te) || te.Remote || uint64(te.ErrorCode) != wantCode {
		viol("wrong-error|"+cs.Probe, "final size %d, probe %s: the victim ended with %v, want a local transport error %#x", F, cs.Probe, cause, wantCode)
		return
	}
	w.Wire.Lock()
	good := len(tap.Closes[vdir]) > 0 && tap.Closes[vdir][0].Type == wiretap.FtConnClose && tap.Closes[vdir][0].ErrorCode == wantCode
	w.Wire.Unlock()
	if !good {
		viol("peer-not-told|"+cs.Probe, "no transport CONNECTION_CLOSE with code %#x emitted by the victim", wantCode)
		return
	}
	if wantCode == 0x6 {
		l.Count("wire_final_size_errors_verified", 1)
	} else {
		l.Count("wire_crypto_buffer_exceeded_verified", 1)
	}
}
