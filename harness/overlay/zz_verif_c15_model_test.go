package quic

// C15 — stream concurrency limits and stream ID discipline.
//
// Runtime monitor, common part: the real streamsMap (newStreamsMap, real Stream / SendStream /
// ReceiveStream objects, real stream flow controllers) is driven the way connection.go drives it
// (Handle*Frame from the run loop, HandleTransportParameters, DeleteStream on completion,
// ResetFor0RTT / UseResetMaps, CloseWithError, Open*/Accept* from the application) next to a
// reference model of the four maps.  The control-frame queue and the stream constructor are
// recording stubs.  Blocking calls (OpenStreamSync, AcceptStream) run in goroutines inside a
// testing/synctest bubble; synctest.Wait() after every event makes "is blocked" / "has returned"
// an observable fact, so that the history is sequential at the API boundary and the arrival
// order of blocked callers is defined.
//
// Numbers in ops are 1-based stream *numbers* (the n-th stream of its type and initiator); the
// monitor computes stream IDs itself (bidi client 0, bidi server 1, uni client 2, uni server 3,
// step 4) and never uses protocol.StreamNum.StreamID for its expectations.

import (
	"context"
	"errors"
	"fmt"
	"slices"
	"sync"
	"sync/atomic"
	"testing/synctest"
	"time"

	"github.com/refraction-networking/uquic/internal/flowcontrol"
	"github.com/refraction-networking/uquic/internal/monotime"
	"github.com/refraction-networking/uquic/internal/protocol"
	"github.com/refraction-networking/uquic/internal/qerr"
	"github.com/refraction-networking/uquic/internal/utils"
	"github.com/refraction-networking/uquic/internal/verifhook"
	"github.com/refraction-networking/uquic/internal/wire"
)

const (
	c15Uni  = 0 // numerically equal to protocol.StreamTypeUni
	c15Bidi = 1 // numerically equal to protocol.StreamTypeBidi
)

// frame kinds of a "frame" op
const (
	c15FStream      = 0 // STREAM (empty, no FIN)                 -> getReceiveStream
	c15FReset       = 1 // RESET_STREAM (final size 0)            -> getReceiveStream
	c15FDataBlocked = 2 // STREAM_DATA_BLOCKED                    -> getReceiveStream
	c15FMaxData     = 3 // MAX_STREAM_DATA                        -> getSendStream
	c15FStopSending = 4 // STOP_SENDING                           -> getSendStream
)

var c15FrameNames = [...]string{"STREAM", "RESET_STREAM", "STREAM_DATA_BLOCKED", "MAX_STREAM_DATA", "STOP_SENDING"}

// c15Op is one event of a history.
//
//	tp      HandleTransportParameters{MaxBidiStreamNum: N, MaxUniStreamNum: W}
//	max     HandleMaxStreamsFrame{Type: T, MaxStreamNum: N}
//	open    Open[Uni]Stream
//	sync    Open[Uni]StreamSync in a new goroutine (stays blocked if there is no credit)
//	csync   cancel the context of the W-th oldest blocked OpenStreamSync caller of type T
//	race    cancel the oldest blocked caller and deliver MAX_STREAMS(+N) without waiting in between
//	        (W=1: MAX_STREAMS first, then the cancellation)
//	jump    deliver MAX_STREAMS(+N), N <= number of blocked callers, and call Open[Uni]Stream at once
//	acc     Accept[Uni]Stream; if it blocks, its context is cancelled right away ("try accept")
//	bacc    Accept[Uni]Stream in a new goroutine, left blocked
//	cacc    cancel the blocked Accept caller of type T
//	frame   peer frame of kind F for the N-th stream of type T initiated by the peer (I=0) or by us (I=1)
//	del     DeleteStream of the N-th stream of type T initiated by peer (I=0) / us (I=1): the stream completed
//	reset0  ResetFor0RTT;  usereset  UseResetMaps;  close  CloseWithError
type c15Op struct {
	K string `json:"k"`
	T int    `json:"t"`
	N int    `json:"n,omitempty"`
	I int    `json:"i,omitempty"`
	F int    `json:"f,omitempty"`
	W int    `json:"w,omitempty"`
}

func (o c15Op) String() string {
	ty := [...]string{"uni", "bidi"}[o.T&1]
	switch o.K {
	case "tp":
		return fmt.Sprintf("tp(bidi=%d,uni=%d)", o.N, o.W)
	case "max", "jump", "jsync":
		return fmt.Sprintf("%s(%s,%d)", o.K, ty, o.N)
	case "race":
		return fmt.Sprintf("race(%s,%d,%s)", ty, o.N, [...]string{"cancel-first", "credit-first"}[o.W&1])
	case "csync":
		return fmt.Sprintf("csync(%s,#%d)", ty, o.W)
	case "frame":
		return fmt.Sprintf("%s(%s,%s,%d)", c15FrameNames[o.F], ty, [...]string{"peer", "self"}[o.I&1], o.N)
	case "del":
		return fmt.Sprintf("del(%s,%s,%d)", ty, [...]string{"peer", "self"}[o.I&1], o.N)
	case "reset0", "usereset", "close":
		return o.K
	}
	return fmt.Sprintf("%s(%s)", o.K, ty)
}

type c15Caller struct {
	typ    int
	accept bool
	cancel context.CancelFunc
	done   atomic.Bool
	ok     bool
	id     protocol.StreamID
	err    error
	seq    int
}

type c15Out struct {
	opened      int
	peerMax     int
	waiters     []*c15Caller // arrival order
	blockedSent map[int]int  // limit -> number of STREAMS_BLOCKED frames seen for it (this epoch)
	live        map[int]bool
}

type c15In struct {
	maxNum     int
	advertised int // initial limit, then the highest MAX_STREAMS value actually queued
	opened     int
	accepted   int
	gone       int // accepted and deleted
	deleted    map[int]bool
	acceptor   *c15Caller
}

type c15Stats map[string]int64

type c15Run struct {
	server bool
	pers   protocol.Perspective
	maxIn  [2]int
	m      *streamsMap
	rtt    *utils.RTTStats
	cfc    flowcontrol.ConnectionFlowController

	mu        sync.Mutex
	frames    []wire.Frame
	created   []protocol.StreamID
	completed int

	out       [2]c15Out
	in        [2]c15In
	resetFlag bool
	closed    bool
	nCallers  int // spawned and not yet reaped
	seq       int

	hist   []c15Op
	sig    string
	detail string
	st     c15Stats
	// behaviour classes seen in this history (for the fingerprint)
	cls map[string]int
}

type c15Sender struct{ r *c15Run }

func (s *c15Sender) onHasConnectionData()                                                {}
func (s *c15Sender) onHasStreamData(protocol.StreamID, *SendStream)                      {}
func (s *c15Sender) onHasStreamControlFrame(protocol.StreamID, streamControlFrameGetter) {}
func (s *c15Sender) onStreamCompleted(protocol.StreamID) {
	// never expected: the monitor's frames do not complete a stream by themselves
	s.r.mu.Lock()
	s.r.completed++
	s.r.mu.Unlock()
}

var c15CloseErr = errors.New("c15: connection closed")

func newC15Run(server bool, maxInBidi, maxInUni int, st c15Stats) *c15Run {
	r := &c15Run{server: server, st: st, cls: map[string]int{}}
	r.pers = protocol.PerspectiveClient
	if server {
		r.pers = protocol.PerspectiveServer
	}
	r.maxIn[c15Bidi] = maxInBidi
	r.maxIn[c15Uni] = maxInUni
	r.rtt = &utils.RTTStats{}
	r.cfc = flowcontrol.NewConnectionFlowController(1<<30, 1<<30, func(protocol.ByteCount) bool { return true }, r.rtt, utils.DefaultLogger)
	r.m = newStreamsMap(
		context.Background(),
		&c15Sender{r},
		func(f wire.Frame) {
			r.mu.Lock()
			r.frames = append(r.frames, f)
			r.mu.Unlock()
		},
		func(id protocol.StreamID) flowcontrol.StreamFlowController {
			r.mu.Lock()
			r.created = append(r.created, id)
			r.mu.Unlock()
			return flowcontrol.NewStreamFlowController(id, r.cfc, 1<<16, 1<<16, 1<<16, r.rtt, utils.DefaultLogger)
		},
		uint64(maxInBidi),
		uint64(maxInUni),
		r.pers,
	)
	r.initModel()
	return r
}

func (r *c15Run) initModel() {
	for t := 0; t < 2; t++ {
		r.out[t] = c15Out{blockedSent: map[int]int{}, live: map[int]bool{}}
		r.in[t] = c15In{maxNum: r.maxIn[t], advertised: r.maxIn[t], deleted: map[int]bool{}}
	}
}

func (r *c15Run) fail(sig, f string, a ...any) {
	if r.sig == "" {
		r.sig = sig
		r.detail = fmt.Sprintf(f, a...)
	}
}

func (r *c15Run) cnt(k string) { r.st[k]++ }

// sid is the monitor's own stream ID arithmetic.
func (r *c15Run) sid(t int, self bool, num int) protocol.StreamID {
	first := 0
	if t == c15Uni {
		first = 2
	}
	if r.server == self { // initiated by the server
		first++
	}
	return protocol.StreamID(first + 4*(num-1))
}

func (r *c15Run) stype(t int) protocol.StreamType {
	if t == c15Uni {
		return protocol.StreamTypeUni
	}
	return protocol.StreamTypeBidi
}

func (r *c15Run) settle() {
	if r.nCallers > 0 {
		synctest.Wait()
	}
}

func (r *c15Run) spawn(t int, accept bool) *c15Caller {
	ctx, cancel := context.WithCancel(context.Background())
	r.seq++
	c := &c15Caller{typ: t, accept: accept, cancel: cancel, seq: r.seq}
	r.nCallers++
	m := r.m
	go func() {
		switch {
		case accept && t == c15Bidi:
			s, err := m.AcceptStream(ctx)
			if c.err = err; err == nil {
				c.ok, c.id = true, s.StreamID()
			}
		case accept:
			s, err := m.AcceptUniStream(ctx)
			if c.err = err; err == nil {
				c.ok, c.id = true, s.StreamID()
			}
		case t == c15Bidi:
			s, err := m.OpenStreamSync(ctx)
			if c.err = err; err == nil {
				c.ok, c.id = true, s.StreamID()
			}
		default:
			s, err := m.OpenUniStreamSync(ctx)
			if c.err = err; err == nil {
				c.ok, c.id = true, s.StreamID()
			}
		}
		c.done.Store(true)
	}()
	synctest.Wait()
	return c
}

// reap marks a caller that has returned as no longer outstanding.
func (r *c15Run) reap(c *c15Caller) {
	c.cancel()
	r.nCallers--
}

// kill cancels a caller that is (unexpectedly or at the end of the history) still blocked.
func (r *c15Run) kill(c *c15Caller) {
	c.cancel()
	synctest.Wait()
	if !c.done.Load() {
		r.fail("C15|harness|caller-stuck-after-cancel", "caller (accept=%v type=%d) still blocked after its context was cancelled", c.accept, c.typ)
		return // the bubble will report the leak
	}
	r.nCallers--
}

// c15WantFrame is a control frame the reference model demands (or, if optional, allows) for one event.
type c15WantFrame struct {
	max      bool // MAX_STREAMS (else STREAMS_BLOCKED)
	t        int
	val      int
	optional bool
	seen     bool
}

type c15Want struct {
	frames  []c15WantFrame
	created []protocol.StreamID
}

func (w *c15Want) add(o c15Want) {
	w.frames = append(w.frames, o.frames...)
	w.created = append(w.created, o.created...)
}

func c15WantBlocked(t, lim int, optional bool) c15Want {
	return c15Want{frames: []c15WantFrame{{t: t, val: lim, optional: optional}}}
}

func c15WantMax(t, val int) c15Want {
	return c15Want{frames: []c15WantFrame{{max: true, t: t, val: val}}}
}

func (w *c15Want) find(isMax bool, t int) *c15WantFrame {
	for i := range w.frames {
		if f := &w.frames[i]; f.max == isMax && f.t == t && !f.seen {
			return f
		}
	}
	return nil
}

// checkEffects compares the control frames and stream constructions recorded since the last
// event with what the reference model demands, and folds them into the model.
func (r *c15Run) checkEffects(w c15Want) {
	r.mu.Lock()
	frames, created, completed := r.frames, r.created, r.completed
	r.frames, r.created, r.completed = nil, nil, 0
	r.mu.Unlock()
	if completed != 0 {
		r.st["unexpected_completion_callbacks"] += int64(completed)
	}
	for _, f := range frames {
		switch f := f.(type) {
		case *wire.StreamsBlockedFrame:
			r.cnt("frames_streams_blocked")
			t := int(f.Type) & 1
			lim := int(f.StreamLimit)
			o := &r.out[t]
			o.blockedSent[lim]++
			wf := w.find(false, t)
			switch {
			case o.blockedSent[lim] > 1:
				r.fail("C15|outgoing|streams-blocked-duplicate", "STREAMS_BLOCKED(type %d, limit %d) queued %d times", t, lim, o.blockedSent[lim])
			case wf == nil:
				r.fail("C15|outgoing|streams-blocked-spurious", "STREAMS_BLOCKED(type %d, limit %d) queued although no caller became blocked by the limit (%d) in this event", t, lim, o.peerMax)
			case lim != wf.val:
				r.fail("C15|outgoing|streams-blocked-wrong-limit", "STREAMS_BLOCKED(type %d, limit %d) queued, the peer's limit is %d", t, lim, wf.val)
			}
			if wf != nil {
				wf.seen = true
			}
		case *wire.MaxStreamsFrame:
			r.cnt("frames_max_streams")
			t := int(f.Type) & 1
			v := int(f.MaxStreamNum)
			in := &r.in[t]
			wf := w.find(true, t)
			switch {
			case v < in.advertised:
				r.fail("C15|incoming|max-streams-decreased", "MAX_STREAMS(type %d) %d after %d", t, v, in.advertised)
			case v > in.maxNum+in.gone:
				r.fail("C15|incoming|credit-without-completion", "MAX_STREAMS(type %d) %d with configured limit %d and %d fully completed streams (%d open)", t, v, in.maxNum, in.gone, in.opened-in.gone)
			case wf == nil:
				r.fail("C15|incoming|max-streams-spurious", "MAX_STREAMS(type %d) %d queued although no stream of that type completed in this event", t, v)
			case v != wf.val:
				r.fail("C15|incoming|credit-not-issued", "MAX_STREAMS(type %d) %d queued, %d streams fully completed: expected %d", t, v, in.gone, wf.val)
			}
			if wf != nil {
				wf.seen = true
			}
			if v > in.advertised {
				in.advertised = v
			}
		default:
			r.fail("C15|frames|unexpected-control-frame", "control frame %T queued by the streams map", f)
		}
	}
	for _, wf := range w.frames {
		if wf.seen || wf.optional {
			continue
		}
		if wf.max {
			r.fail("C15|incoming|credit-not-issued", "stream of type %d fully completed (%d in total, limit %d), but no MAX_STREAMS was queued", wf.t, r.in[wf.t].gone, r.in[wf.t].maxNum)
		} else {
			r.fail("C15|outgoing|streams-blocked-missing", "a caller is blocked by limit %d of type %d, but no STREAMS_BLOCKED was queued for it", wf.val, wf.t)
		}
	}
	// stream constructions: per ID class (type x initiator) in order; different classes may be
	// constructed by different goroutines, so their relative order is not defined
	var got, exp [4][]protocol.StreamID
	for _, id := range created {
		got[id&3] = append(got[id&3], id)
	}
	for _, id := range w.created {
		exp[id&3] = append(exp[id&3], id)
	}
	for k := 0; k < 4; k++ {
		if !slices.Equal(got[k], exp[k]) {
			r.fail("C15|streams|created-ids", "streams constructed %v, expected %v", created, w.created)
			break
		}
	}
	for t := 0; t < 2; t++ {
		in := &r.in[t]
		if in.opened-in.gone > in.maxNum {
			r.fail("C15|incoming|concurrency-exceeded", "%d incoming streams of type %d open concurrently, configured limit %d", in.opened-in.gone, t, in.maxNum)
		}
		if in.advertised != in.maxNum+in.gone {
			r.fail("C15|incoming|credit-not-issued", "advertised limit %d of type %d, configured %d + %d fully completed", in.advertised, t, in.maxNum, in.gone)
		}
	}
}

func (r *c15Run) lenient() bool { return r.closed || r.resetFlag }

// wantBlockedFrame: a caller is blocked by (or failed at) the current limit of type t.
func (r *c15Run) wantBlockedFrame(t int) c15Want {
	o := &r.out[t]
	if o.blockedSent[o.peerMax] > 0 {
		return c15Want{}
	}
	return c15WantBlocked(t, o.peerMax, false)
}

// openedOK folds a successful local open into the model.
func (r *c15Run) openedOK(t int, id protocol.StreamID, what string) {
	o := &r.out[t]
	if o.opened >= o.peerMax {
		r.fail("C15|outgoing|limit-exceeded", "%s returned stream %d: %d streams of type %d opened, peer's limit is %d", what, id, o.opened+1, t, o.peerMax)
	}
	if want := r.sid(t, true, o.opened+1); id != want {
		r.fail("C15|outgoing|wrong-id", "%s returned stream %d, the next stream of type %d is %d", what, id, t, want)
	}
	o.opened++
	o.live[o.opened] = true
	r.cnt("opened_out")
}

// serveWaiters checks that exactly the first min(#waiters, credit) blocked OpenStreamSync callers
// of type t have returned, with consecutive IDs in arrival order, and that all others are still blocked.
func (r *c15Run) serveWaiters(t int) (created []protocol.StreamID) {
	o := &r.out[t]
	credit := max(0, o.peerMax-o.opened)
	if r.lenient() {
		credit = 0
	}
	k := min(len(o.waiters), credit)
	var okIdx []int
	for i, w := range o.waiters {
		if w.done.Load() && w.ok {
			okIdx = append(okIdx, i)
		}
	}
	prefix := true
	for j, i := range okIdx {
		if i != j {
			prefix = false
		}
	}
	switch {
	case len(okIdx) > credit:
		w := o.waiters[okIdx[len(okIdx)-1]]
		r.fail("C15|outgoing|limit-exceeded", "%d blocked OpenStreamSync callers returned streams (last: %d) with %d opened and peer's limit %d", len(okIdx), w.id, o.opened, o.peerMax)
	case !prefix:
		r.fail("C15|outgoing|sync-order", "blocked OpenStreamSync callers served out of arrival order: callers %v of %d returned streams, credit for %d", okIdx, len(o.waiters), credit)
	case len(okIdx) < k:
		w := o.waiters[len(okIdx)]
		if w.done.Load() {
			r.fail("C15|outgoing|sync-spurious-error", "blocked OpenStreamSync caller #%d returned %v although credit arrived and its context is live", len(okIdx), w.err)
		} else {
			r.fail("C15|outgoing|waiter-not-served", "OpenStreamSync caller #%d of type %d still blocked with %d opened and peer's limit %d", len(okIdx), t, o.opened+len(okIdx), o.peerMax)
		}
	}
	if r.sig != "" {
		return nil
	}
	for i := 0; i < k; i++ {
		w := o.waiters[i]
		if want := r.sid(t, true, o.opened+1); w.id != want {
			inSet := false
			for j := 0; j < k; j++ {
				if w.id == r.sid(t, true, o.opened+1+j-i) {
					inSet = true
				}
			}
			if inSet {
				r.fail("C15|outgoing|sync-order", "OpenStreamSync caller #%d (arrival order) got stream %d, expected %d", i, w.id, want)
				return created
			}
		}
		created = append(created, w.id)
		r.openedOK(t, w.id, "OpenStreamSync")
		r.cnt("waiters_served")
		r.reap(w)
	}
	o.waiters = o.waiters[k:]
	// the rest must still be blocked (or, when closed / reset, may have failed)
	var rest []*c15Caller
	for _, w := range o.waiters {
		if w.done.Load() {
			if !r.lenient() {
				r.fail("C15|outgoing|sync-spurious-error", "blocked OpenStreamSync caller returned %v without credit, cancellation or close", w.err)
			}
			r.reap(w)
			continue
		}
		rest = append(rest, w)
	}
	o.waiters = rest
	return created
}

func c15ErrClass(err error) string {
	if err == nil {
		return "nil"
	}
	var te *qerr.TransportError
	if errors.As(err, &te) {
		switch te.ErrorCode {
		case qerr.StreamLimitError:
			return "limit"
		case qerr.StreamStateError:
			return "state"
		}
		return "transport:" + te.ErrorCode.String()
	}
	return "other"
}

// applicable reports whether op makes sense in the current model state (drivers skip others).
func (r *c15Run) applicable(op c15Op) bool {
	t := op.T & 1
	switch op.K {
	case "open", "sync":
		return true
	case "acc", "bacc":
		return r.in[t].acceptor == nil
	case "cacc":
		return r.in[t].acceptor != nil
	case "csync":
		return op.W >= 0 && op.W < len(r.out[t].waiters)
	case "race":
		return !r.closed && len(r.out[t].waiters) > 0 && op.N > 0
	case "jump", "jsync":
		return !r.lenient() && op.N > 0 && op.N <= len(r.out[t].waiters)
	case "tp", "max", "frame":
		return !r.closed
	case "del":
		if r.closed || op.N < 1 {
			return false
		}
		if op.I == 1 {
			return r.out[t].live[op.N]
		}
		return op.N <= r.in[t].opened && !r.in[t].deleted[op.N]
	case "reset0":
		return !r.closed && !r.server && !r.resetFlag
	case "usereset":
		return !r.closed && r.resetFlag
	case "close":
		return !r.closed
	}
	return false
}

// step executes one event against the real map and the model.  It returns false if the event is
// not applicable in the current state (nothing was executed).
func (r *c15Run) step(op c15Op) bool {
	if r.sig != "" || !r.applicable(op) {
		return false
	}
	op.T &= 1
	t := op.T
	r.hist = append(r.hist, op)
	r.cnt("op_" + op.K)
	r.cls[op.K]++
	o, in := &r.out[t], &r.in[t]
	switch op.K {
	case "tp":
		r.m.HandleTransportParameters(&wire.TransportParameters{
			MaxBidiStreamNum: protocol.StreamNum(op.N), MaxUniStreamNum: protocol.StreamNum(op.W),
			InitialMaxStreamDataBidiRemote: 1 << 16, InitialMaxStreamDataUni: 1 << 16,
		})
		r.settle()
		var w c15Want
		w.add(r.credit(c15Bidi, op.N))
		w.add(r.credit(c15Uni, op.W))
		r.checkEffects(w)
	case "max":
		r.m.HandleMaxStreamsFrame(&wire.MaxStreamsFrame{Type: r.stype(t), MaxStreamNum: protocol.StreamNum(op.N)})
		r.settle()
		r.checkEffects(r.credit(t, op.N))
	case "open":
		var id protocol.StreamID
		var err error
		if t == c15Bidi {
			var s *Stream
			if s, err = r.m.OpenStream(); err == nil {
				id = s.StreamID()
			}
		} else {
			var s *SendStream
			if s, err = r.m.OpenUniStream(); err == nil {
				id = s.StreamID()
			}
		}
		r.settle()
		var w c15Want
		switch {
		case err != nil && r.lenient():
			r.cls["open-fail-closed"]++
		case err != nil:
			if len(o.waiters) == 0 && o.opened < o.peerMax {
				r.fail("C15|outgoing|open-failed-below-limit", "OpenStream(type %d) failed with %v: %d opened, peer's limit %d, no caller queued", t, err, o.opened, o.peerMax)
			}
			w = r.wantBlockedFrame(t)
			r.cnt("open_limit_failures")
			r.cls["open-fail"]++
		default:
			if len(o.waiters) > 0 {
				r.fail("C15|outgoing|sync-order", "OpenStream returned stream %d while %d OpenStreamSync callers are queued", id, len(o.waiters))
			}
			r.openedOK(t, id, "OpenStream")
			w.created = []protocol.StreamID{id}
		}
		r.checkEffects(w)
	case "sync":
		c := r.spawn(t, false)
		var w c15Want
		switch {
		case c.done.Load() && c.ok:
			if len(o.waiters) > 0 {
				r.fail("C15|outgoing|sync-order", "OpenStreamSync returned stream %d at once while %d earlier callers are queued", c.id, len(o.waiters))
			}
			r.openedOK(t, c.id, "OpenStreamSync")
			w.created = []protocol.StreamID{c.id}
			r.reap(c)
		case c.done.Load():
			if !r.lenient() {
				r.fail("C15|outgoing|sync-spurious-error", "OpenStreamSync with a live context returned %v", c.err)
			}
			r.cls["sync-fail-closed"]++
			r.reap(c)
		default:
			if !r.lenient() && len(o.waiters) == 0 && o.opened < o.peerMax {
				r.fail("C15|outgoing|open-failed-below-limit", "OpenStreamSync(type %d) blocks: %d opened, peer's limit %d, no caller queued", t, o.opened, o.peerMax)
				r.kill(c)
				break
			}
			o.waiters = append(o.waiters, c)
			w = r.wantBlockedFrame(t)
			r.cnt("sync_blocked")
			r.cls["sync-blocked"]++
			r.st["max:queue"] = max(r.st["max:queue"], int64(len(o.waiters)))
		}
		r.checkEffects(w)
	case "csync":
		c := o.waiters[op.W]
		c.cancel()
		r.settle()
		if !c.done.Load() {
			r.fail("C15|harness|caller-stuck-after-cancel", "OpenStreamSync caller #%d still blocked after its context was cancelled", op.W)
			return true
		}
		if c.ok {
			r.fail("C15|outgoing|limit-exceeded", "cancelled OpenStreamSync caller returned stream %d with %d opened and limit %d", c.id, o.opened, o.peerMax)
		}
		o.waiters = append(append([]*c15Caller(nil), o.waiters[:op.W]...), o.waiters[op.W+1:]...)
		r.reap(c)
		r.cnt("sync_cancelled")
		created := r.serveWaiters(t)
		r.checkEffects(c15Want{created: created})
	case "race":
		head := o.waiters[0]
		preW, preOpened := len(o.waiters), o.opened
		newMax := o.peerMax + op.N
		if op.W&1 == 0 {
			head.cancel()
		}
		r.m.HandleMaxStreamsFrame(&wire.MaxStreamsFrame{Type: r.stype(t), MaxStreamNum: protocol.StreamNum(newMax)})
		if op.W&1 == 1 {
			head.cancel()
		}
		r.settle()
		o.peerMax = newMax
		if !head.done.Load() {
			r.fail("C15|harness|caller-stuck-after-cancel", "OpenStreamSync caller #0 still blocked after its context was cancelled (race with MAX_STREAMS)")
			return true
		}
		var created []protocol.StreamID
		if head.ok {
			created = append(created, head.id)
			r.openedOK(t, head.id, "OpenStreamSync")
			r.cls["race-served"]++
			r.cnt("race_head_served")
		} else {
			r.cls["race-cancelled"]++
			r.cnt("race_head_cancelled")
		}
		o.waiters = o.waiters[1:]
		r.reap(head)
		created = append(created, r.serveWaiters(t)...)
		w := c15Want{created: created}
		if len(o.waiters) > 0 {
			w.add(c15WantBlocked(t, newMax, false))
		} else if newMax < preOpened+preW {
			// the limit did not cover the queue as it was when MAX_STREAMS arrived, if the
			// cancellation had not been processed yet: the frame is legitimate, not required
			w.add(c15WantBlocked(t, newMax, true))
		}
		r.checkEffects(w)
	case "jump":
		// Credit for (some of) the queued callers arrives and Open is called before they can have
		// been woken.  The queued callers came first: Open must fail, whether it finds them still
		// queued or already served (N <= number of callers, so no credit is left over).
		newMax := o.peerMax + op.N
		r.m.HandleMaxStreamsFrame(&wire.MaxStreamsFrame{Type: r.stype(t), MaxStreamNum: protocol.StreamNum(newMax)})
		var id protocol.StreamID
		var err error
		if t == c15Bidi {
			var s *Stream
			if s, err = r.m.OpenStream(); err == nil {
				id = s.StreamID()
			}
		} else {
			var s *SendStream
			if s, err = r.m.OpenUniStream(); err == nil {
				id = s.StreamID()
			}
		}
		r.settle()
		o.peerMax = newMax
		r.cnt("credit_raised")
		if err == nil {
			r.fail("C15|outgoing|sync-order", "OpenStream returned stream %d right after MAX_STREAMS(+%d) although %d OpenStreamSync callers were queued before it", id, op.N, len(o.waiters))
			break
		}
		w := c15Want{created: r.serveWaiters(t)}
		// Either SetMaxStream (callers remain blocked) or the failing Open reports the new limit, once.
		w.add(c15WantBlocked(t, newMax, false))
		r.checkEffects(w)
	case "jsync":
		// Credit for (some of) the queued callers arrives, and a new OpenStreamSync caller arrives while
		// the woken head caller has not yet taken the map's lock again (it is parked at the schedule
		// point streams.openSync.afterWake for 1 ms of virtual time).  The newcomer came last: it
		// must queue behind all of them (N <= number of callers, so no credit is left over for it).
		newMax := o.peerMax + op.N
		verifhook.SetAction("streams.openSync.afterWake", func(string) { time.Sleep(time.Millisecond) })
		r.m.HandleMaxStreamsFrame(&wire.MaxStreamsFrame{Type: r.stype(t), MaxStreamNum: protocol.StreamNum(newMax)})
		c := r.spawn(t, false)
		early := c.done.Load() && c.ok
		time.Sleep(time.Duration(len(o.waiters)+3) * time.Millisecond)
		verifhook.SetAction("streams.openSync.afterWake", nil)
		synctest.Wait()
		o.peerMax = newMax
		r.cnt("credit_raised")
		r.cnt("sync_arrived_in_wake_window")
		if early {
			r.fail("C15|outgoing|sync-order", "OpenStreamSync arriving right after MAX_STREAMS(+%d) returned stream %d at once although %d OpenStreamSync callers were queued before it", op.N, c.id, len(o.waiters))
			r.reap(c)
			break
		}
		o.waiters = append(o.waiters, c)
		r.st["max:queue"] = max(r.st["max:queue"], int64(len(o.waiters)))
		w := c15Want{created: r.serveWaiters(t)}
		// Either SetMaxStream (callers remain blocked) or the queued newcomer reports the new limit, once.
		w.add(c15WantBlocked(t, newMax, false))
		r.checkEffects(w)
	case "acc", "bacc":
		c := r.spawn(t, true)
		avail := in.accepted < in.opened
		var w c15Want
		switch {
		case c.done.Load() && c.ok:
			w = r.acceptedOK(t, c.id)
			r.reap(c)
		case c.done.Load():
			if !r.lenient() {
				r.fail("C15|incoming|accept-spurious-error", "AcceptStream with a live context returned %v", c.err)
			}
			r.cls["acc-fail-closed"]++
			r.reap(c)
		default:
			if avail && !r.lenient() {
				r.fail("C15|incoming|accept-missing", "AcceptStream(type %d) blocks although stream number %d was opened by the peer and not yet accepted", t, in.accepted+1)
				r.kill(c)
				break
			}
			if op.K == "acc" {
				c.cancel()
				synctest.Wait()
				if !c.done.Load() {
					r.fail("C15|harness|caller-stuck-after-cancel", "AcceptStream still blocked after its context was cancelled")
					return true
				}
				if c.ok {
					w = r.acceptedOK(t, c.id)
				}
				r.reap(c)
				r.cls["acc-empty"]++
			} else {
				in.acceptor = c
				r.cls["acc-blocked"]++
				r.cnt("accept_blocked")
			}
		}
		r.checkEffects(w)
	case "cacc":
		c := in.acceptor
		c.cancel()
		r.settle()
		if !c.done.Load() {
			r.fail("C15|harness|caller-stuck-after-cancel", "AcceptStream still blocked after its context was cancelled")
			return true
		}
		var w c15Want
		if c.ok {
			w = r.acceptedOK(t, c.id)
		}
		in.acceptor = nil
		r.reap(c)
		r.checkEffects(w)
	case "frame":
		r.frame(op)
	case "del":
		id := r.sid(t, op.I == 1, op.N)
		err := r.m.DeleteStream(id)
		r.settle()
		if err != nil {
			r.fail("C15|delete|unexpected-error", "DeleteStream(%d) of a live stream returned %v", id, err)
		}
		var w c15Want
		if op.I == 1 {
			delete(o.live, op.N)
			r.cnt("deleted_out")
		} else {
			in.deleted[op.N] = true
			if op.N <= in.accepted {
				in.gone++
				w = c15WantMax(t, in.maxNum+in.gone)
				r.cls["del-accepted"]++
			} else {
				r.cls["del-unaccepted"]++
				r.cnt("deleted_before_accept")
			}
			r.cnt("deleted_in")
		}
		r.checkEffects(w)
	case "reset0", "close":
		if op.K == "reset0" {
			r.m.ResetFor0RTT()
		} else {
			r.m.CloseWithError(c15CloseErr)
		}
		r.settle()
		var all []*c15Caller
		for tt := 0; tt < 2; tt++ {
			all = append(all, r.out[tt].waiters...)
			if r.in[tt].acceptor != nil {
				all = append(all, r.in[tt].acceptor)
			}
			r.out[tt].waiters = nil
			r.in[tt].acceptor = nil
		}
		for _, c := range all {
			if !c.done.Load() {
				r.cnt("callers_blocked_after_" + op.K) // not a C15 matter (C17); clean up
				r.kill(c)
				continue
			}
			if c.ok {
				r.fail("C15|outgoing|limit-exceeded", "blocked caller (accept=%v) returned stream %d on %s", c.accept, c.id, op.K)
			}
			r.reap(c)
			r.cnt("callers_released_by_" + op.K)
		}
		if op.K == "reset0" {
			r.initModel()
			r.resetFlag = true
		} else {
			r.closed = true
		}
		r.checkEffects(c15Want{})
	case "usereset":
		r.m.UseResetMaps()
		r.resetFlag = false
		r.checkEffects(c15Want{})
	}
	return true
}

// credit folds a new peer limit n for outgoing streams of type t into the model.
func (r *c15Run) credit(t, n int) c15Want {
	o := &r.out[t]
	changed := n > o.peerMax
	if changed {
		o.peerMax = n
		r.cnt("credit_raised")
	} else {
		r.cnt("credit_stale")
	}
	w := c15Want{created: r.serveWaiters(t)}
	if changed && len(o.waiters) > 0 {
		w.add(c15WantBlocked(t, o.peerMax, false))
	}
	return w
}

func (r *c15Run) acceptedOK(t int, id protocol.StreamID) (w c15Want) {
	in := &r.in[t]
	if in.accepted >= in.opened {
		r.fail("C15|incoming|accept-unopened", "AcceptStream returned stream %d, but only %d streams of type %d were opened by the peer and %d already accepted", id, in.opened, t, in.accepted)
		return
	}
	if want := r.sid(t, false, in.accepted+1); id != want {
		r.fail("C15|incoming|accept-order", "AcceptStream returned stream %d, the next stream to accept of type %d is %d", id, t, want)
		return
	}
	in.accepted++
	r.cnt("accepted")
	if in.deleted[in.accepted] {
		in.gone++
		w = c15WantMax(t, in.maxNum+in.gone)
		r.cls["acc-deleted"]++
		r.cnt("accepted_after_delete")
	} else {
		r.cls["acc-ok"]++
	}
	return
}

func (r *c15Run) frame(op c15Op) {
	t := op.T
	self := op.I == 1
	id := r.sid(t, self, op.N)
	recvSide := op.F <= c15FDataBlocked
	now := monotime.Now()
	var err error
	switch op.F {
	case c15FStream:
		err = r.m.HandleStreamFrame(&wire.StreamFrame{StreamID: id}, now)
	case c15FReset:
		err = r.m.HandleResetStreamFrame(&wire.ResetStreamFrame{StreamID: id, ErrorCode: 7}, now)
	case c15FDataBlocked:
		err = r.m.HandleStreamDataBlockedFrame(&wire.StreamDataBlockedFrame{StreamID: id})
	case c15FMaxData:
		err = r.m.HandleMaxStreamDataFrame(&wire.MaxStreamDataFrame{StreamID: id, MaximumStreamData: 1 << 17})
	case c15FStopSending:
		err = r.m.HandleStopSendingFrame(&wire.StopSendingFrame{StreamID: id, ErrorCode: 9})
	}
	r.settle()
	got := c15ErrClass(err)
	want := "nil"
	opens := false
	in := &r.in[t]
	switch {
	case self && t == c15Uni && recvSide:
		want = "state" // our own unidirectional stream is send-only
		r.cls["f-wrongdir"]++
	case self:
		if op.N > r.out[t].opened {
			want = "state" // never opened
			r.cls["f-unopened"]++
		} else {
			r.cls["f-self"]++
		}
	case t == c15Uni && !recvSide:
		want = "state" // the peer's unidirectional stream is receive-only
		r.cls["f-wrongdir"]++
	default:
		if op.N > in.advertised {
			want = "limit"
			r.cls["f-limit"]++
		} else {
			opens = true
		}
	}
	r.cnt("frame_" + want)
	if got != want {
		switch {
		case want == "limit":
			r.fail("C15|incoming|limit-not-enforced", "%v: stream number %d beyond the advertised limit %d, got %v", op, op.N, in.advertised, err)
		case got == "limit":
			r.fail("C15|incoming|spurious-limit-error", "%v: stream number %d within the advertised limit %d (configured %d, %d completed), got %v", op, op.N, in.advertised, in.maxNum, in.gone, err)
		case want == "state":
			r.fail("C15|frames|state-error-missing", "%v (stream %d): expected STREAM_STATE_ERROR, got %v", op, id, err)
		case got == "state":
			r.fail("C15|frames|spurious-state-error", "%v (stream %d): valid frame answered with %v", op, id, err)
		default:
			r.fail("C15|frames|unexpected-error", "%v (stream %d): got %v, expected %s", op, id, err, want)
		}
		if got == "nil" && want == "limit" {
			opens = true // follow the real map, so that the concurrency check sees the stream
		}
	}
	var w c15Want
	if opens && got == "nil" {
		for n := in.opened + 1; n <= op.N; n++ {
			w.created = append(w.created, r.sid(t, false, n))
			r.cnt("opened_in")
		}
		if op.N > in.opened {
			if op.N > in.opened+1 {
				r.cls["f-open-skip"]++
			} else {
				r.cls["f-open"]++
			}
			in.opened = op.N
		} else if in.deleted[op.N] {
			r.cls["f-deleted"]++
		} else {
			r.cls["f-existing"]++
		}
		if c := in.acceptor; c != nil && in.accepted < in.opened {
			if !c.done.Load() {
				r.fail("C15|incoming|accept-missing", "blocked AcceptStream(type %d) not served although the peer opened stream number %d", t, in.accepted+1)
			} else if !c.ok {
				r.fail("C15|incoming|accept-spurious-error", "blocked AcceptStream returned %v when a stream was opened", c.err)
				r.reap(c)
			} else {
				w.add(r.acceptedOK(t, c.id))
				r.reap(c)
				r.cnt("acceptor_served")
			}
			in.acceptor = nil
		}
	}
	r.checkEffects(w)
}

// finish releases everything that is still blocked.
func (r *c15Run) finish() {
	for t := 0; t < 2; t++ {
		for _, c := range r.out[t].waiters {
			if c.done.Load() {
				if c.ok && r.sig == "" {
					r.fail("C15|outgoing|limit-exceeded", "blocked OpenStreamSync caller returned stream %d without credit", c.id)
				}
				r.reap(c)
			} else {
				r.kill(c)
			}
		}
		r.out[t].waiters = nil
		if c := r.in[t].acceptor; c != nil {
			if c.done.Load() {
				r.reap(c)
			} else {
				r.kill(c)
			}
			r.in[t].acceptor = nil
		}
	}
	if !r.closed {
		r.m.CloseWithError(c15CloseErr)
		r.closed = true
	}
}

func c15Bucket(n int) int {
	switch {
	case n == 0:
		return 0
	case n == 1:
		return 1
	case n <= 3:
		return 2
	case n <= 8:
		return 3
	}
	return 4
}
