package quic_test

// C07 wire layer: the independent wire observer checks every decrypted packet of real
// connections under fault schedules (see internal/verif/wiretap/tap.go for the oracle).

import (
	"testing"

	"github.com/refraction-networking/uquic/internal/verif/evlog"
	"github.com/refraction-networking/uquic/internal/verif/quicworld"
)

func TestVerifC07Wire(t *testing.T) {
	l := evlog.Open("C07")
	defer l.Close()
	clients := []quicworld.ClientSel{{Client: "plain"}, {Client: "plain", V2: true}, {Client: "unil"}, {Client: "Chrome_115_IPv4"}, {Client: "Firefox_116A"}}
	var cases []*quicworld.ConnCase
	if l.Quick() {
		cases = quicworld.FaultSuite(l, clients, []string{"S2"}, 3, 250, 100, 150)
	} else {
		cases = quicworld.FaultSuite(l, clients, []string{"S2", "S4"}, 8, 4000, 3000, 3000)
	}
	quicworld.RunSuite(t, l, cases, quicworld.WireReporter(l, "C07"))
}
