package quic_test

// C08, connection level (sanitizer run): the wire codecs are total on a live connection too.  A real client
// and a real server over the simulated network, built with the race detector (which implies checkptr).
// Correctly protected 1-RTT packets whose payload is hostile - random bytes, random frame types followed
// by random varints, valid frames cut short, valid frames with every length field lying - are forged on
// behalf of the peer.  Whatever the payload: no panic, no data race, no hang; the victim either stays
// responsive (a later Write / CloseWithError works and the context ends with the application's own cause)
// or has ended with a transport error it raised itself, and nothing leaks afterwards.

import (
	"context"
	"errors"
	"fmt"
	"math/rand/v2"
	"net"
	"testing"
	"testing/synctest"
	"time"

	quic "github.com/refraction-networking/uquic"
	"github.com/refraction-networking/uquic/internal/verif/evlog"
	"github.com/refraction-networking/uquic/internal/verif/quicworld"
	"github.com/refraction-networking/uquic/internal/verif/wiretap"
)

type c08wCase struct {
	Name    string `json:"name"`
	Client  string `json:"client"`
	Victim  string `json:"victim"`
	Kind    string `json:"kind"` // random | typed | truncated | lying-length
	Packets int    `json:"packets"`
	Seed    uint64 `json:"seed"`
}

func c08wPayload(rng *rand.Rand, kind string) []byte {
	varint := func(b []byte) []byte {
		switch rng.IntN(6) {
		case 0:
			return wiretap.AppendVarint(b, uint64(rng.IntN(64)))
		case 1:
			return wiretap.AppendVarint(b, uint64(rng.IntN(16384)))
		case 2:
			return wiretap.AppendVarint(b, rng.Uint64()>>2)
		case 3:
			return wiretap.AppendVarint(b, 1<<62-1)
		case 4:
			return append(b, 0xc0|byte(rng.IntN(64)), byte(rng.Uint32()), byte(rng.Uint32()), byte(rng.Uint32())) // an 8-byte varint cut short
		}
		return wiretap.AppendVarint(b, uint64(rng.IntN(4)))
	}
	valid := func() []byte {
		switch rng.IntN(8) {
		case 0:
			return wiretap.StreamFrame(uint64(rng.IntN(16)), uint64(rng.IntN(5000)), make([]byte, rng.IntN(300)), rng.IntN(2) == 0)
		case 1:
			return wiretap.CryptoFrame(uint64(rng.IntN(5000)), make([]byte, rng.IntN(300)))
		case 2:
			return wiretap.AckFrame([]wiretap.AckRange{{Smallest: 0, Largest: uint64(rng.IntN(3))}}, uint64(rng.IntN(1000)))
		case 3:
			var tok [16]byte
			return wiretap.NewConnectionIDFrame(uint64(2+rng.IntN(5)), 0, make([]byte, 1+rng.IntN(20)), tok)
		case 4:
			return wiretap.ConnectionCloseFrame(uint64(rng.IntN(20)), "garbage")
		case 5:
			b := []byte{0x30 | byte(rng.IntN(2))} // DATAGRAM
			if b[0]&1 == 1 {
				b = wiretap.AppendVarint(b, uint64(rng.IntN(100)))
			}
			return append(b, make([]byte, rng.IntN(100))...)
		case 6:
			b := []byte{0x04}
			b = wiretap.AppendVarint(b, uint64(rng.IntN(16)))
			b = wiretap.AppendVarint(b, uint64(rng.IntN(100)))
			return wiretap.AppendVarint(b, uint64(rng.IntN(5000)))
		}
		return []byte{0x01}
	}
	switch kind {
	case "random":
		b := make([]byte, 1+rng.IntN(1100))
		for i := range b {
			b[i] = byte(rng.Uint32())
		}
		return b
	case "typed":
		var b []byte
		for n := 1 + rng.IntN(4); n > 0; n-- {
			if rng.IntN(4) == 0 {
				b = wiretap.AppendVarint(b, uint64(rng.IntN(1<<14))) // multi-byte frame type
			} else {
				b = append(b, byte(rng.IntN(0x42)))
			}
			for k := rng.IntN(7); k > 0; k-- {
				b = varint(b)
			}
			b = append(b, make([]byte, rng.IntN(40))...)
		}
		return b
	case "truncated":
		b := valid()
		if len(b) > 1 {
			b = b[:1+rng.IntN(len(b)-1)]
		}
		return b
	default: // lying-length: a valid frame whose bytes after the type are perturbed
		b := valid()
		for k := 1 + rng.IntN(3); k > 0 && len(b) > 1; k-- {
			i := 1 + rng.IntN(min(len(b)-1, 12))
			b[i] = byte(rng.Uint32())
		}
		return b
	}
}

func TestVerifC08WireGarbage(t *testing.T) {
	l := evlog.Open("C08")
	defer l.Close()
	var cases []c08wCase
	clients := []string{"plain", "unil", "Chrome_115_IPv4", "Firefox_116A"}
	rng := l.Rand("c08garbage")
	n := l.Pick(400, 8000)
	for i := 0; i < n; i++ {
		cs := c08wCase{Client: clients[rng.IntN(len(clients))], Victim: []string{"client", "server"}[rng.IntN(2)],
			Kind: []string{"random", "typed", "truncated", "lying-length"}[rng.IntN(4)], Packets: 1 + rng.IntN(12), Seed: rng.Uint64()}
		cs.Name = fmt.Sprintf("%05d/%s/%s/%s/p%d", i, cs.Client, cs.Victim, cs.Kind, cs.Packets)
		cases = append(cases, cs)
	}
	for i, cs := range cases {
		if !l.Mine(i) {
			continue
		}
		c := l.Begin("C08/garbage/"+cs.Name, cs)
		if c == nil {
			continue
		}
		synctest.Test(t, func(t *testing.T) { runC08Garbage(l, c, &cs) })
		c.End()
	}
}

func runC08Garbage(l *evlog.Log, c *evlog.Case, cs *c08wCase) {
	var world *quicworld.World
	kind := cs.Client
	if kind != "plain" && kind != "unil" {
		kind = "parrot"
	}
	viol := func(sig, f string, a ...any) {
		tr := map[string]any{"case": cs}
		if world != nil {
			if taps := world.Wire.Snapshot(); len(taps) > 0 {
				tr["wire_tail"] = taps[len(taps)-1].Describe(8)
			}
		}
		c.Violation(fmt.Sprintf("C08|garbage|%s|%s|%s", sig, cs.Kind, cs.Victim), fmt.Sprintf(f, a...), tr)
	}
	victimIsClient := cs.Victim == "client"
	opt, err := quicworld.OptionsFor(&quicworld.ConnCase{Client: cs.Client, RTTms: 10})
	if err != nil {
		viol("harness", "%v", err)
		return
	}
	opt.ClientConf.MaxIdleTimeout, opt.ServerConf.MaxIdleTimeout = 5*time.Minute, 5*time.Minute
	w, err := quicworld.New(opt)
	if err != nil {
		viol("harness", "world: %v", err)
		return
	}
	world = w
	defer func() {
		w.Close()
		time.Sleep(time.Minute)
		synctest.Wait()
		if lk := quicworld.BubbleGoroutines(); len(lk) > 0 {
			viol("leak|goroutines-alive-after-close", "%s", lk[0])
		}
	}()
	ctx, cancel := context.WithTimeout(context.Background(), 5*time.Minute)
	defer cancel()
	type acc struct {
		c   *quic.Conn
		err error
	}
	accCh := make(chan acc, 1)
	go func() {
		sc, err := w.Accept(ctx)
		accCh <- acc{sc, err}
	}()
	cc, err := w.Dial(ctx)
	if err != nil {
		cancel()
		<-accCh
		viol("dial-failed", "%v", err)
		return
	}
	a := <-accCh
	if a.err != nil {
		cc.CloseWithError(0, "")
		viol("accept-failed", "%v", a.err)
		return
	}
	sc := a.c
	victim, peer := sc, cc
	vdir := wiretap.S2C
	if victimIsClient {
		victim, peer = cc, sc
		vdir = wiretap.C2S
	}
	pdir := vdir.Other()
	defer func() {
		cc.CloseWithError(0, "")
		sc.CloseWithError(0, "")
	}()
	// the victim's application has a stream open and datagrams enabled are not needed: frames for unknown
	// streams, closed streams and every other state are part of the hostile input
	s0, err := victim.OpenUniStream()
	if err == nil {
		s0.Write([]byte("hello"))
	}
	time.Sleep(300 * time.Millisecond)
	synctest.Wait()
	taps := w.Wire.Snapshot()
	if len(taps) == 0 {
		viol("harness", "no tap")
		return
	}
	tap := taps[len(taps)-1]
	w.Router.SetBlackhole(vdir, true)
	defer w.Router.SetBlackhole(vdir, false)
	from, to := net.Addr(quicworld.ServerAddr), net.Addr(quicworld.ClientAddr)
	if !victimIsClient {
		from, to = to, from
	}
	rng := rand.New(rand.NewPCG(cs.Seed, 8))
	sent := 0
	for i := 0; i < cs.Packets && victim.Context().Err() == nil; i++ {
		pkt, err := tap.ForgeShort(pdir, c08wPayload(rng, cs.Kind))
		if err != nil {
			viol("harness", "forge: %v", err)
			return
		}
		w.Router.Inject(pdir, from, to, pkt, 0)
		sent++
		time.Sleep(30 * time.Millisecond)
	}
	time.Sleep(300 * time.Millisecond)
	synctest.Wait()
	l.Count("garbage_packets_delivered", int64(sent))
	if victim.Context().Err() != nil {
		cause := context.Cause(victim.Context())
		var te *quic.TransportError
		var ae *quic.ApplicationError
		switch {
		case errors.As(cause, &te) && !te.Remote:
			c.Eval(fmt.Sprintf("%s|%s|%s|closed|%#x", kind, cs.Victim, cs.Kind, uint64(te.ErrorCode)))
			l.Count(fmt.Sprintf("garbage_closed_with_%#x", uint64(te.ErrorCode)), 1)
			if te.ErrorCode == quic.InternalError {
				c.Sample("internal-error", map[string]any{"case": cs.Name, "message": te.ErrorMessage})
			}
		case errors.As(cause, &ae) && ae.Remote:
			// the garbage happened to be a well-formed CONNECTION_CLOSE of the application kind
			c.Eval(fmt.Sprintf("%s|%s|%s|closed-by-forged-close", kind, cs.Victim, cs.Kind))
			l.Count("garbage_forged_close_accepted", 1)
		case errors.As(cause, &te) && te.Remote:
			c.Eval(fmt.Sprintf("%s|%s|%s|closed-by-forged-close", kind, cs.Victim, cs.Kind))
			l.Count("garbage_forged_close_accepted", 1)
		default:
			viol("unexpected-end", "after %d hostile packets the victim ended with %v (neither a transport error of its own nor a close frame it received)", sent, cause)
		}
		return
	}
	// still up: it must still work
	done := make(chan error, 1)
	go func() {
		s, err := victim.OpenUniStream()
		if err == nil {
			_, err = s.Write([]byte("still here"))
		}
		if err == nil {
			err = victim.CloseWithError(0x77, "done")
		}
		done <- err
	}()
	select {
	case err := <-done:
		var sle *quic.StreamLimitReachedError
		if err != nil && !errors.As(err, &sle) && victim.Context().Err() == nil {
			viol("unresponsive", "after %d hostile packets: %v", sent, err)
			return
		}
		if err != nil {
			victim.CloseWithError(0x77, "done")
		}
	case <-time.After(10 * time.Second):
		viol("hang", "after %d hostile packets a stream write and CloseWithError did not return within 10 s (virtual)", sent)
		return
	}
	select {
	case <-victim.Context().Done():
	case <-time.After(10 * time.Second):
		viol("hang", "the connection context is not cancelled 10 s (virtual) after CloseWithError")
		return
	}
	c.Eval(fmt.Sprintf("%s|%s|%s|survived|%d", kind, cs.Victim, cs.Kind, min(sent, 3)))
	l.Count("garbage_connections_survived", 1)
	_ = peer
}
