package quic_test

// C05 wire layer: every datagram of real connections (with frequent key updates) must be
// opened by the independent observer with keys derived from the TLS key log; packet numbers are
// never reused and always encoded long enough (see internal/verif/wiretap/tap.go).

import (
	"testing"

	"github.com/refraction-networking/uquic/internal/handshake"
	"github.com/refraction-networking/uquic/internal/verif/evlog"
	"github.com/refraction-networking/uquic/internal/verif/quicworld"
)

func TestVerifC05Wire(t *testing.T) {
	l := evlog.Open("C05")
	defer l.Close()
	handshake.FirstKeyUpdateInterval = 3
	defer handshake.SetKeyUpdateInterval(20)()
	clients := []quicworld.ClientSel{{Client: "plain"}, {Client: "plain", V2: true}, {Client: "unil", V2: true}, {Client: "Chrome_115_IPv4"}, {Client: "Firefox_116A"}}
	var cases []*quicworld.ConnCase
	if l.Quick() {
		cases = quicworld.FaultSuite(l, clients, []string{"S2"}, 3, 250, 100, 150)
	} else {
		cases = quicworld.FaultSuite(l, clients, []string{"S2", "S4"}, 8, 4000, 3000, 3000)
	}
	quicworld.RunSuite(t, l, cases, quicworld.WireReporter(l, "C05"))
}
