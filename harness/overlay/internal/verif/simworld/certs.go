package simworld

import (
	"crypto/ecdsa"
	"crypto/elliptic"
	"crypto/rand"
	"crypto/x509"
	"crypto/x509/pkix"
	"fmt"
	"math/big"
	"sync"
	"time"
)

// CertChain is an ECDSA P-256 certificate chain valid from 1990 to 2100 (the synctest fake clock
// starts in the year 2000), as raw DER plus the leaf key; callers wrap it in the tls package they use.
type CertChain struct {
	DER     [][]byte // leaf first
	Key     *ecdsa.PrivateKey
	RootDER []byte
}

var (
	certOnce  sync.Once
	certCache map[int]*CertChain
	certMu    sync.Mutex
)

// Certs returns a (process-wide cached) chain with the given number of intermediates for the host "localhost".
func Certs(intermediates int) *CertChain {
	certMu.Lock()
	defer certMu.Unlock()
	if certCache == nil {
		certCache = map[int]*CertChain{}
	}
	if c, ok := certCache[intermediates]; ok {
		return c
	}
	notBefore := time.Date(1990, 1, 1, 0, 0, 0, 0, time.UTC)
	notAfter := time.Date(2100, 1, 1, 0, 0, 0, 0, time.UTC)
	mk := func(serial int64, cn string, ca bool, parent *x509.Certificate, parentKey *ecdsa.PrivateKey, pad int) (*x509.Certificate, []byte, *ecdsa.PrivateKey) {
		key, err := ecdsa.GenerateKey(elliptic.P256(), rand.Reader)
		if err != nil {
			panic(err)
		}
		t := &x509.Certificate{
			SerialNumber: big.NewInt(serial), Subject: pkix.Name{CommonName: cn}, NotBefore: notBefore, NotAfter: notAfter,
			BasicConstraintsValid: true, IsCA: ca, KeyUsage: x509.KeyUsageDigitalSignature,
		}
		if ca {
			t.KeyUsage |= x509.KeyUsageCertSign
		} else {
			t.DNSNames = []string{"localhost"}
			for i := 0; i < 16; i++ { // names by which simultaneous dials are told apart (see quicworld.RunDialsSimultaneous)
				t.DNSNames = append(t.DNSNames, fmt.Sprintf("c%d.test", i))
			}
			t.ExtKeyUsage = []x509.ExtKeyUsage{x509.ExtKeyUsageServerAuth}
		}
		if pad > 0 {
			org := make([]byte, pad)
			for i := range org {
				org[i] = 'a' + byte(i%26)
			}
			t.Subject.Organization = []string{string(org)}
		}
		if parent == nil {
			parent, parentKey = t, key
		}
		der, err := x509.CreateCertificate(rand.Reader, t, parent, &key.PublicKey, parentKey)
		if err != nil {
			panic(err)
		}
		c, err := x509.ParseCertificate(der)
		if err != nil {
			panic(err)
		}
		return c, der, key
	}
	root, rootDER, rootKey := mk(1, "verif root", true, nil, nil, 0)
	parent, parentKey := root, rootKey
	var chain [][]byte
	for i := 0; i < intermediates; i++ {
		c, der, k := mk(int64(10+i), "verif intermediate", true, parent, parentKey, 300)
		chain = append([][]byte{der}, chain...)
		parent, parentKey = c, k
	}
	_, leafDER, leafKey := mk(2, "localhost", false, parent, parentKey, 0)
	chain = append([][]byte{leafDER}, chain...)
	c := &CertChain{DER: chain, Key: leafKey, RootDER: rootDER}
	certCache[intermediates] = c
	return c
}
