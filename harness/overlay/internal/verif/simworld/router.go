// Package simworld is the simulated network used by the end-to-end monitors: a fault router
// for testutils/simnet connections that applies a per-datagram schedule and shows every datagram
// to the independent wire observer (package wiretap) both at emission and at delivery.
// It imports no package of the repository except testutils/simnet.
package simworld

import (
	"container/heap"
	"fmt"
	"math/rand/v2"
	"net"
	"os"
	"sync"
	"time"

	"github.com/refraction-networking/uquic/internal/verif/wiretap"
	"github.com/refraction-networking/uquic/testutils/simnet"
)

// Action is what the network does to one datagram.
type Action struct {
	Kind  string        `json:"kind"`            // pass drop dup delay flip trunc
	Delay time.Duration `json:"delay,omitempty"` // extra delay for "delay"; for "dup" the delay of the copy
	Pos   int           `json:"pos,omitempty"`   // flip: byte index, negative = from the end
	N     int           `json:"n,omitempty"`     // trunc: new length
}

var Pass = Action{Kind: "pass"}

// Fault is an action applied to the datagram with the given ordinal in the given direction.
type Fault struct {
	Dir     wiretap.Dir `json:"dir"`
	Ordinal int         `json:"ord"`
	Action  Action      `json:"act"`
}

// Rate is a random fault process that is active until virtual time Until.
type Rate struct {
	Seed     uint64        `json:"seed"`
	PDrop    float64       `json:"p_drop"`
	PDup     float64       `json:"p_dup"`
	PDelay   float64       `json:"p_delay"`
	PCorrupt float64       `json:"p_corrupt"`
	Until    time.Duration `json:"until"`
}

// Schedule = explicit faults + optional random process.
type Schedule struct {
	Faults []Fault `json:"faults,omitempty"`
	Rate   *Rate   `json:"rate,omitempty"`
}

type delivery struct {
	at   time.Duration
	seq  int
	pkt  simnet.Packet
	info *wiretap.DatagramInfo
	mod  wiretap.Mod
	raw  bool // injected by the attacker: not shown to the tap
}

type dheap []*delivery

func (h dheap) Len() int { return len(h) }
func (h dheap) Less(i, j int) bool {
	return h[i].at < h[j].at || (h[i].at == h[j].at && h[i].seq < h[j].seq)
}
func (h dheap) Swap(i, j int) { h[i], h[j] = h[j], h[i] }
func (h *dheap) Push(x any)   { *h = append(*h, x.(*delivery)) }
func (h *dheap) Pop() any     { o := *h; n := len(o); x := o[n-1]; *h = o[:n-1]; return x }

// Event is one line of the router's log.
type Event struct {
	T       time.Duration `json:"t"`
	Dir     wiretap.Dir   `json:"dir"`
	Ordinal int           `json:"ord"`
	Len     int           `json:"len"`
	Action  string        `json:"act"`
}

// Router implements simnet.Router with per-datagram faults, fixed one-way latency and FIFO
// delivery per direction (except where a fault delays a datagram).
type Router struct {
	mu         sync.Mutex
	nodes      map[string]simnet.PacketReceiver
	ServerAddr string
	Latency    time.Duration
	Wire       *wiretap.Wire
	start      time.Time

	faults    map[[2]int]Action
	rate      *Rate
	rng       *rand.Rand
	applied   int // number of scheduled faults that hit an existing datagram
	lastFault time.Duration

	// OnEmit, if set, is consulted after the schedule; it may return a non-pass action for the datagram.
	OnEmit func(d *wiretap.DatagramInfo) *Action
	// OnDeliver is called (without the router lock) right before a datagram is handed to its receiver.
	OnDeliver func(d *wiretap.DatagramInfo, mod wiretap.Mod)

	queue     [2]dheap
	wake      [2]chan struct{}
	seq       int
	closed    bool
	done      chan struct{}
	wg        sync.WaitGroup
	Log       []Event
	KeepLog   bool
	Blackhole [2]bool // drop everything in that direction (dead peer)
	suspended bool    // the schedule (explicit faults and random process) is switched off
}

// SuspendFaults switches the fault schedule off (true) or on again (false); hooks, blackholes and
// injections are not affected.
func (r *Router) SuspendFaults(off bool) {
	r.mu.Lock()
	r.suspended = off
	r.mu.Unlock()
}

// traceDatagrams (environment variable VERIF_TRACE): print every datagram with the router's decision; a debugging aid.
var traceDatagrams = os.Getenv("VERIF_TRACE") != ""

// NewRouter creates a router and starts its two delivery goroutines (stop them with Close).
func NewRouter(serverAddr net.Addr, latency time.Duration, wire *wiretap.Wire, sched Schedule) *Router {
	r := &Router{nodes: map[string]simnet.PacketReceiver{}, ServerAddr: serverAddr.String(), Latency: latency, Wire: wire,
		start: time.Now(), faults: map[[2]int]Action{}, done: make(chan struct{}), KeepLog: true}
	for _, f := range sched.Faults {
		r.faults[[2]int{int(f.Dir), f.Ordinal}] = f.Action
	}
	if sched.Rate != nil {
		r.rate = sched.Rate
		r.rng = rand.New(rand.NewPCG(sched.Rate.Seed, 0x5eed))
	}
	for d := 0; d < 2; d++ {
		r.wake[d] = make(chan struct{}, 1)
		r.wg.Add(1)
		go r.run(d)
	}
	return r
}

// SetOnEmit installs (or removes, with nil) the OnEmit hook; safe while the router is running.
func (r *Router) SetOnEmit(f func(d *wiretap.DatagramInfo) *Action) {
	r.mu.Lock()
	r.OnEmit = f
	r.mu.Unlock()
}

// GetOnEmit returns the current OnEmit hook.
func (r *Router) GetOnEmit() func(d *wiretap.DatagramInfo) *Action {
	r.mu.Lock()
	defer r.mu.Unlock()
	return r.OnEmit
}

// SetOnDeliver installs (or removes) the OnDeliver hook; safe while the router is running.
func (r *Router) SetOnDeliver(f func(d *wiretap.DatagramInfo, mod wiretap.Mod)) {
	r.mu.Lock()
	r.OnDeliver = f
	r.mu.Unlock()
}

// Now is the virtual time since the router was created.
func (r *Router) Now() time.Duration { return time.Since(r.start) }

func (r *Router) AddNode(addr net.Addr, rcv simnet.PacketReceiver) {
	r.mu.Lock()
	r.nodes[addr.String()] = rcv
	r.mu.Unlock()
}

func (r *Router) RemoveNode(addr net.Addr) {
	r.mu.Lock()
	delete(r.nodes, addr.String())
	r.mu.Unlock()
}

// FaultsApplied returns how many scheduled faults hit a datagram that existed, and the
// virtual time of the last fault of any kind.
// LogCopy returns a copy of the event log taken under the router's lock (for use while traffic goes on).
func (r *Router) LogCopy() []Event {
	r.mu.Lock()
	defer r.mu.Unlock()
	return append([]Event(nil), r.Log...)
}

func (r *Router) FaultsApplied() (int, time.Duration) {
	r.mu.Lock()
	defer r.mu.Unlock()
	return r.applied, r.lastFault
}

// SetBlackhole makes the router drop everything sent in direction d from now on.
func (r *Router) SetBlackhole(d wiretap.Dir, on bool) {
	r.mu.Lock()
	r.Blackhole[d] = on
	r.mu.Unlock()
}

func (r *Router) SendPacket(p simnet.Packet) error {
	now := r.Now()
	dir := wiretap.S2C
	clientAddr := p.To.String()
	if p.To.String() == r.ServerAddr {
		dir = wiretap.C2S
		clientAddr = p.From.String()
	}
	data := append([]byte(nil), p.Data...)
	p.Data = data
	var info *wiretap.DatagramInfo
	if r.Wire != nil {
		info = r.Wire.Emitted(dir, clientAddr, now, data)
	} else {
		info = &wiretap.DatagramInfo{Dir: dir, Raw: data}
	}
	r.mu.Lock()
	if r.closed {
		r.mu.Unlock()
		return nil
	}
	act, scheduled := r.faults[[2]int{int(dir), info.Ordinal}]
	if !scheduled || r.suspended {
		act, scheduled = Pass, false
	}
	if r.rate != nil && !scheduled && !r.suspended && now < r.rate.Until {
		x := r.rng.Float64()
		switch {
		case x < r.rate.PDrop:
			act = Action{Kind: "drop"}
		case x < r.rate.PDrop+r.rate.PDup:
			act = Action{Kind: "dup", Delay: time.Duration(r.rng.IntN(30)) * time.Millisecond}
		case x < r.rate.PDrop+r.rate.PDup+r.rate.PDelay:
			act = Action{Kind: "delay", Delay: time.Duration(1+r.rng.IntN(60)) * time.Millisecond}
		case x < r.rate.PDrop+r.rate.PDup+r.rate.PDelay+r.rate.PCorrupt:
			if r.rng.IntN(2) == 0 {
				act = Action{Kind: "flip", Pos: r.rng.IntN(len(data))}
			} else {
				act = Action{Kind: "trunc", N: r.rng.IntN(len(data))}
			}
		}
	}
	cb := r.OnEmit
	r.mu.Unlock()
	if cb != nil && act.Kind == "pass" {
		if a := cb(info); a != nil {
			act = *a
		}
	}
	r.mu.Lock()
	defer r.mu.Unlock()
	if r.Blackhole[dir] {
		act = Action{Kind: "drop"}
	}
	if traceDatagrams {
		fmt.Printf("TRACE %s -> %s\n", info.Text(), act.Kind)
	}
	if act.Kind != "pass" {
		r.applied++
		r.lastFault = now
	}
	if r.KeepLog {
		r.Log = append(r.Log, Event{now, dir, info.Ordinal, len(data), act.Kind})
	}
	at := now + r.Latency
	mod := wiretap.NoMod
	switch act.Kind {
	case "drop":
		return nil
	case "dup":
		r.push(dir, &delivery{at: at, pkt: p, info: info, mod: mod})
		r.push(dir, &delivery{at: at + act.Delay, pkt: p, info: info, mod: mod})
		return nil
	case "delay":
		at += act.Delay
	case "flip":
		pos := act.Pos
		if pos < 0 {
			pos += len(data)
		}
		if pos >= 0 && pos < len(data) {
			nd := append([]byte(nil), data...)
			nd[pos] ^= 0x01 << uint(pos%8)
			p.Data = nd
			mod.FlipAt = pos
		}
	case "trunc":
		n := act.N
		if n < 0 {
			n = len(data) / -n // negative: a fraction of the datagram
		}
		if n >= 0 && n < len(data) {
			p.Data = append([]byte(nil), data[:n]...)
			mod.TruncTo = n
		}
	}
	r.push(dir, &delivery{at: at, pkt: p, info: info, mod: mod})
	return nil
}

// Inject hands an attacker-crafted datagram to the receiver of direction dir after delay
// (plus nothing else: the attacker is on path at the receiver's side).  fromAddr is the spoofed source.
func (r *Router) Inject(dir wiretap.Dir, from, to net.Addr, data []byte, delay time.Duration) {
	r.mu.Lock()
	defer r.mu.Unlock()
	if r.closed {
		return
	}
	if traceDatagrams {
		fmt.Printf("TRACE inject %s %d bytes to %s in %s (closed=%v)\n", dir, len(data), to, delay, r.closed)
	}
	r.push(dir, &delivery{at: r.Now() + delay, pkt: simnet.Packet{From: from, To: to, Data: append([]byte(nil), data...)}, raw: true})
}

func (r *Router) push(dir wiretap.Dir, d *delivery) {
	r.seq++
	d.seq = r.seq
	heap.Push(&r.queue[dir], d)
	select {
	case r.wake[dir] <- struct{}{}:
	default:
	}
}

func (r *Router) run(d int) {
	defer r.wg.Done()
	timer := time.NewTimer(time.Hour)
	defer timer.Stop()
	for {
		r.mu.Lock()
		var next *delivery
		var wait time.Duration = -1
		if len(r.queue[d]) > 0 {
			if w := r.queue[d][0].at - r.Now(); w <= 0 {
				next = heap.Pop(&r.queue[d]).(*delivery)
			} else {
				wait = w
			}
		}
		var rcv simnet.PacketReceiver
		if next != nil {
			rcv = r.nodes[next.pkt.To.String()]
		}
		odl := r.OnDeliver
		r.mu.Unlock()
		if next != nil {
			if rcv != nil {
				if !next.raw && r.Wire != nil && next.info != nil {
					r.Wire.Delivered(next.info, next.mod, r.Now())
				}
				if odl != nil && !next.raw {
					odl(next.info, next.mod)
				}
				if traceDatagrams && next.raw {
					fmt.Printf("TRACE deliver injected %d bytes to %s at %s\n", len(next.pkt.Data), next.pkt.To, r.Now())
				}
				rcv.RecvPacket(next.pkt)
			}
			continue
		}
		if wait < 0 {
			select {
			case <-r.wake[d]:
			case <-r.done:
				return
			}
			continue
		}
		timer.Reset(wait)
		select {
		case <-timer.C:
		case <-r.wake[d]:
		case <-r.done:
			return
		}
	}
}

// Close stops the delivery goroutines; queued datagrams are discarded.
func (r *Router) Close() {
	r.mu.Lock()
	if r.closed {
		r.mu.Unlock()
		return
	}
	r.closed = true
	close(r.done)
	r.mu.Unlock()
	r.wg.Wait()
}

func (a Action) String() string {
	switch a.Kind {
	case "delay", "dup":
		return fmt.Sprintf("%s(%s)", a.Kind, a.Delay)
	case "flip":
		return fmt.Sprintf("flip(%d)", a.Pos)
	case "trunc":
		return fmt.Sprintf("trunc(%d)", a.N)
	}
	return a.Kind
}
