package wiretap

import (
	"errors"
	"fmt"
)

type Kind int

const (
	KindInitial Kind = iota
	KindZeroRTT
	KindHandshake
	KindRetry
	KindVN
	KindOneRTT
)

func (k Kind) String() string {
	return [...]string{"Initial", "0-RTT", "Handshake", "Retry", "VersionNegotiation", "1-RTT"}[k]
}

// Space is the packet number space of a packet kind (0 Initial, 1 Handshake, 2 application).
func (k Kind) Space() int {
	switch k {
	case KindInitial:
		return 0
	case KindHandshake:
		return 1
	default:
		return 2
	}
}

// RawPacket is one (still protected) QUIC packet inside a datagram.
type RawPacket struct {
	Kind     Kind
	Version  uint32
	DCID     []byte
	SCID     []byte
	Token    []byte   // Initial token or Retry token
	Tag      []byte   // Retry integrity tag
	Versions []uint32 // Version Negotiation
	PNOffset int      // offset of the (protected) packet number inside Data
	Data     []byte   // the whole packet
	Offset   int      // offset of the packet inside the datagram
}

func longType(version uint32, bits byte) Kind {
	if version == Version2 {
		return [...]Kind{KindRetry, KindInitial, KindZeroRTT, KindHandshake}[bits]
	}
	return [...]Kind{KindInitial, KindZeroRTT, KindHandshake, KindRetry}[bits]
}

// LongTypeBits returns the two long-header type bits for a packet kind.
func LongTypeBits(version uint32, k Kind) byte {
	if version == Version2 {
		return [...]byte{1, 2, 3, 0}[k]
	}
	return [...]byte{0, 1, 2, 3}[k]
}

var ErrNotQUIC = errors.New("wiretap: fixed bit not set")

// SplitDatagram splits a datagram into its coalesced packets without decrypting anything.
// shortDCIDLen tells the connection ID length of a short-header packet (b starts at the first byte
// of that packet); it may return -1 for "unknown".  Trailing garbage (e.g. zero padding after the
// last packet) is returned as rest.
func SplitDatagram(d []byte, shortDCIDLen func(b []byte) int) (pkts []RawPacket, rest []byte, err error) {
	off := 0
	for off < len(d) {
		b := d[off:]
		if b[0]&0x80 == 0 {
			if b[0]&0x40 == 0 {
				return pkts, b, nil // not a QUIC packet (padding)
			}
			n := -1
			if shortDCIDLen != nil {
				n = shortDCIDLen(b)
			}
			if n < 0 || len(b) < 1+n {
				return pkts, b, fmt.Errorf("wiretap: short header packet with unknown connection ID")
			}
			pkts = append(pkts, RawPacket{Kind: KindOneRTT, DCID: b[1 : 1+n], PNOffset: 1 + n, Data: b, Offset: off})
			return pkts, nil, nil
		}
		r := reader{b: b, pos: 1}
		version := r.u32()
		dcid := r.bytes(uint64(r.byte()))
		scid := r.bytes(uint64(r.byte()))
		if r.err != nil {
			return pkts, b, r.err
		}
		p := RawPacket{Version: version, DCID: dcid, SCID: scid, Offset: off}
		if version == 0 {
			p.Kind = KindVN
			for r.left() >= 4 {
				p.Versions = append(p.Versions, r.u32())
			}
			p.Data = b
			pkts = append(pkts, p)
			return pkts, nil, nil
		}
		if b[0]&0x40 == 0 {
			return pkts, b, ErrNotQUIC
		}
		p.Kind = longType(version, (b[0]>>4)&3)
		if p.Kind == KindRetry {
			if r.left() < 16 {
				return pkts, b, ErrShort
			}
			p.Token = b[r.pos : len(b)-16]
			p.Tag = b[len(b)-16:]
			p.Data = b
			pkts = append(pkts, p)
			return pkts, nil, nil
		}
		if p.Kind == KindInitial {
			p.Token = r.bytes(r.varint())
		}
		length := r.varint()
		if r.err != nil {
			return pkts, b, r.err
		}
		if length > uint64(r.left()) {
			return pkts, b, ErrShort
		}
		p.PNOffset = r.pos
		p.Data = b[:r.pos+int(length)]
		pkts = append(pkts, p)
		off += len(p.Data)
	}
	return pkts, nil, nil
}

// KeyPhase returns the key phase bit of an unprotected short header first byte.
func KeyPhase(first byte) int { return int(first>>2) & 1 }
