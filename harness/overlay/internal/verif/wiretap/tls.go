package wiretap

import (
	"fmt"
)

// TLS handshake message types
const (
	hsClientHello         = 1
	hsServerHello         = 2
	hsNewSessionTicket    = 4
	hsEncryptedExtensions = 8
)

const (
	ExtSNI                 = 0
	ExtALPN                = 16
	ExtSupportedVersions   = 43
	ExtKeyShare            = 51
	ExtQUICTransportParams = 0x39
	ExtEarlyData           = 42
	ExtPreSharedKey        = 41
	ExtPadding             = 21
	ExtECH                 = 0xfe0d
)

type Extension struct {
	Type uint16
	Data []byte
}

type ClientHello struct {
	Raw          []byte
	Version      uint16
	Random       []byte
	SessionID    []byte
	CipherSuites []uint16
	Compression  []byte
	Extensions   []Extension
}

type ServerHello struct {
	Random      []byte
	CipherSuite uint16
	Extensions  []Extension
	IsHRR       bool
}

func (c *ClientHello) Ext(t uint16) ([]byte, bool) {
	for _, e := range c.Extensions {
		if e.Type == t {
			return e.Data, true
		}
	}
	return nil, false
}

func parseExtensions(r *reader) []Extension {
	if r.left() == 0 {
		return nil
	}
	total := r.u16()
	sub := reader{b: r.bytes(uint64(total))}
	var out []Extension
	for sub.left() > 0 && sub.err == nil {
		t := sub.u16()
		d := sub.bytes(uint64(sub.u16()))
		if sub.err == nil {
			out = append(out, Extension{t, d})
		}
	}
	if sub.err != nil {
		r.err = sub.err
	}
	return out
}

// HandshakeMessage is one TLS handshake message cut from a CRYPTO stream.
type HandshakeMessage struct {
	Type byte
	Body []byte
	Raw  []byte
}

// SplitHandshake cuts complete handshake messages from a contiguous CRYPTO stream prefix and
// returns them with the number of bytes consumed.
func SplitHandshake(b []byte) (msgs []HandshakeMessage, consumed int) {
	for len(b)-consumed >= 4 {
		p := b[consumed:]
		n := int(p[1])<<16 | int(p[2])<<8 | int(p[3])
		if len(p) < 4+n {
			break
		}
		msgs = append(msgs, HandshakeMessage{Type: p[0], Body: p[4 : 4+n], Raw: p[:4+n]})
		consumed += 4 + n
	}
	return
}

// ParseClientHello parses a ClientHello handshake message (including its 4-byte header).
func ParseClientHello(msg []byte) (*ClientHello, error) {
	if len(msg) < 4 || msg[0] != hsClientHello {
		return nil, fmt.Errorf("wiretap: not a ClientHello")
	}
	n := int(msg[1])<<16 | int(msg[2])<<8 | int(msg[3])
	if len(msg) < 4+n {
		return nil, ErrShort
	}
	r := reader{b: msg[4 : 4+n]}
	c := &ClientHello{Raw: msg[:4+n]}
	c.Version = r.u16()
	c.Random = r.bytes(32)
	c.SessionID = r.bytes(uint64(r.byte()))
	cs := reader{b: r.bytes(uint64(r.u16()))}
	for cs.left() >= 2 {
		c.CipherSuites = append(c.CipherSuites, cs.u16())
	}
	c.Compression = r.bytes(uint64(r.byte()))
	c.Extensions = parseExtensions(&r)
	if r.err != nil {
		return nil, r.err
	}
	return c, nil
}

var hrrRandom = []byte{0xCF, 0x21, 0xAD, 0x74, 0xE5, 0x9A, 0x61, 0x11, 0xBE, 0x1D, 0x8C, 0x02, 0x1E, 0x65, 0xB8, 0x91, 0xC2, 0xA2, 0x11, 0x16, 0x7A, 0xBB, 0x8C, 0x5E, 0x07, 0x9E, 0x09, 0xE2, 0xC8, 0xA8, 0x33, 0x9C}

func ParseServerHello(body []byte) (*ServerHello, error) {
	r := reader{b: body}
	s := &ServerHello{}
	r.u16()
	s.Random = r.bytes(32)
	r.bytes(uint64(r.byte()))
	s.CipherSuite = r.u16()
	r.byte()
	s.Extensions = parseExtensions(&r)
	if r.err != nil {
		return nil, r.err
	}
	s.IsHRR = string(s.Random) == string(hrrRandom)
	return s, nil
}

// ParseEncryptedExtensions returns the extensions of an EncryptedExtensions body.
func ParseEncryptedExtensions(body []byte) ([]Extension, error) {
	r := reader{b: body}
	e := parseExtensions(&r)
	return e, r.err
}

// ParseALPN decodes an ALPN extension body.
func ParseALPN(d []byte) []string {
	r := reader{b: d}
	l := reader{b: r.bytes(uint64(r.u16()))}
	var out []string
	for l.left() > 0 && l.err == nil {
		out = append(out, string(l.bytes(uint64(l.byte()))))
	}
	return out
}

// ParseSNI decodes the first host name of a server_name extension body.
func ParseSNI(d []byte) string {
	r := reader{b: d}
	l := reader{b: r.bytes(uint64(r.u16()))}
	for l.left() > 0 && l.err == nil {
		t := l.byte()
		n := l.bytes(uint64(l.u16()))
		if t == 0 {
			return string(n)
		}
	}
	return ""
}

// TransportParameter is one (id, value) pair in wire order.
type TransportParameter struct {
	ID    uint64
	Value []byte
}

// Transport parameter IDs (RFC 9000 §18.2, RFC 9221, RFC 9368, RFC 9287)
const (
	TPOriginalDCID           = 0x00
	TPMaxIdleTimeout         = 0x01
	TPStatelessResetToken    = 0x02
	TPMaxUDPPayloadSize      = 0x03
	TPInitialMaxData         = 0x04
	TPInitialMaxStreamDataBL = 0x05
	TPInitialMaxStreamDataBR = 0x06
	TPInitialMaxStreamDataU  = 0x07
	TPInitialMaxStreamsBidi  = 0x08
	TPInitialMaxStreamsUni   = 0x09
	TPAckDelayExponent       = 0x0a
	TPMaxAckDelay            = 0x0b
	TPDisableActiveMigration = 0x0c
	TPPreferredAddress       = 0x0d
	TPActiveConnIDLimit      = 0x0e
	TPInitialSCID            = 0x0f
	TPRetrySCID              = 0x10
	TPVersionInformation     = 0x11
	TPMaxDatagramFrameSize   = 0x20
	TPGreaseQuicBit          = 0x2ab2
)

// ParseTransportParameters decodes the quic_transport_parameters extension body in wire order.
func ParseTransportParameters(d []byte) ([]TransportParameter, error) {
	r := reader{b: d}
	var out []TransportParameter
	for r.left() > 0 {
		id := r.varint()
		v := r.bytes(r.varint())
		if r.err != nil {
			return out, r.err
		}
		out = append(out, TransportParameter{id, v})
	}
	return out, nil
}

// TPSet is a decoded view of the parameters that matter to the monitors.
type TPSet struct {
	List []TransportParameter
	m    map[uint64][]byte
}

func NewTPSet(l []TransportParameter) *TPSet {
	s := &TPSet{List: l, m: map[uint64][]byte{}}
	for _, p := range l {
		if _, dup := s.m[p.ID]; !dup {
			s.m[p.ID] = p.Value
		}
	}
	return s
}

func (s *TPSet) Has(id uint64) bool     { _, ok := s.m[id]; return ok }
func (s *TPSet) Bytes(id uint64) []byte { return s.m[id] }

// Int returns the varint value of parameter id, or def if absent/malformed.
func (s *TPSet) Int(id uint64, def uint64) uint64 {
	v, ok := s.m[id]
	if !ok {
		return def
	}
	x, n, err := ReadVarint(v)
	if err != nil || n != len(v) {
		return def
	}
	return x
}
