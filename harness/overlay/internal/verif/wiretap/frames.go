package wiretap

import "fmt"

// Frame types (RFC 9000 §19, RFC 9221, draft-ietf-quic-reliable-stream-reset)
const (
	FtPadding         = 0x00
	FtPing            = 0x01
	FtAck             = 0x02
	FtAckECN          = 0x03
	FtResetStream     = 0x04
	FtStopSending     = 0x05
	FtCrypto          = 0x06
	FtNewToken        = 0x07
	FtStream          = 0x08 // ..0x0f
	FtMaxData         = 0x10
	FtMaxStreamData   = 0x11
	FtMaxStreamsBidi  = 0x12
	FtMaxStreamsUni   = 0x13
	FtDataBlocked     = 0x14
	FtStreamDataBlkd  = 0x15
	FtStreamsBlkdBidi = 0x16
	FtStreamsBlkdUni  = 0x17
	FtNewConnID       = 0x18
	FtRetireConnID    = 0x19
	FtPathChallenge   = 0x1a
	FtPathResponse    = 0x1b
	FtConnClose       = 0x1c
	FtConnCloseApp    = 0x1d
	FtHandshakeDone   = 0x1e
	FtResetStreamAt   = 0x24
	FtDatagram        = 0x30
	FtDatagramLen     = 0x31
)

type AckRange struct{ Smallest, Largest uint64 }

// Frame is a decoded frame; which fields are meaningful depends on Type.
type Frame struct {
	Type  uint64
	Count int // PADDING: run length

	// ACK
	LargestAcked uint64
	AckDelay     uint64
	Ranges       []AckRange // descending
	ECN          [3]uint64
	RangesValid  bool // false if a range underflowed

	StreamID uint64
	Offset   uint64
	Data     []byte
	Fin      bool

	Value        uint64 // MAX_DATA, MAX_STREAM_DATA, MAX_STREAMS, *_BLOCKED limit, RETIRE seq
	ErrorCode    uint64
	FinalSize    uint64
	ReliableSize uint64

	Seq           uint64
	RetirePriorTo uint64
	CID           []byte
	ResetToken    []byte

	FrameType uint64 // CONNECTION_CLOSE
	Reason    string

	Token []byte
	Len   int // encoded length
}

func (f *Frame) IsStream() bool { return f.Type >= 0x08 && f.Type <= 0x0f }

// AckEliciting reports whether the frame makes its packet ack-eliciting.
func (f *Frame) AckEliciting() bool {
	switch f.Type {
	case FtPadding, FtAck, FtAckECN, FtConnClose, FtConnCloseApp:
		return false
	}
	return true
}

func (f *Frame) Name() string {
	switch {
	case f.IsStream():
		return "STREAM"
	}
	switch f.Type {
	case FtPadding:
		return "PADDING"
	case FtPing:
		return "PING"
	case FtAck, FtAckECN:
		return "ACK"
	case FtResetStream:
		return "RESET_STREAM"
	case FtStopSending:
		return "STOP_SENDING"
	case FtCrypto:
		return "CRYPTO"
	case FtNewToken:
		return "NEW_TOKEN"
	case FtMaxData:
		return "MAX_DATA"
	case FtMaxStreamData:
		return "MAX_STREAM_DATA"
	case FtMaxStreamsBidi, FtMaxStreamsUni:
		return "MAX_STREAMS"
	case FtDataBlocked:
		return "DATA_BLOCKED"
	case FtStreamDataBlkd:
		return "STREAM_DATA_BLOCKED"
	case FtStreamsBlkdBidi, FtStreamsBlkdUni:
		return "STREAMS_BLOCKED"
	case FtNewConnID:
		return "NEW_CONNECTION_ID"
	case FtRetireConnID:
		return "RETIRE_CONNECTION_ID"
	case FtPathChallenge:
		return "PATH_CHALLENGE"
	case FtPathResponse:
		return "PATH_RESPONSE"
	case FtConnClose, FtConnCloseApp:
		return "CONNECTION_CLOSE"
	case FtHandshakeDone:
		return "HANDSHAKE_DONE"
	case FtResetStreamAt:
		return "RESET_STREAM_AT"
	case FtDatagram, FtDatagramLen:
		return "DATAGRAM"
	}
	return fmt.Sprintf("UNKNOWN(%#x)", f.Type)
}

// ParseFrames decodes all frames of a packet payload.
func ParseFrames(payload []byte) ([]Frame, error) {
	var out []Frame
	r := reader{b: payload}
	for r.left() > 0 {
		start := r.pos
		if payload[r.pos] == 0 {
			n := 0
			for r.pos < len(payload) && payload[r.pos] == 0 {
				r.pos++
				n++
			}
			out = append(out, Frame{Type: FtPadding, Count: n, Len: n})
			continue
		}
		f := Frame{Type: r.varint()}
		switch {
		case f.Type == FtPing, f.Type == FtHandshakeDone:
		case f.Type == FtAck || f.Type == FtAckECN:
			f.LargestAcked = r.varint()
			f.AckDelay = r.varint()
			n := r.varint()
			first := r.varint()
			f.RangesValid = first <= f.LargestAcked
			small := f.LargestAcked - first
			f.Ranges = append(f.Ranges, AckRange{small, f.LargestAcked})
			for i := uint64(0); i < n && r.err == nil; i++ {
				gap := r.varint()
				l := r.varint()
				if small < gap+2 {
					f.RangesValid = false
					break
				}
				largest := small - gap - 2
				if l > largest {
					f.RangesValid = false
					break
				}
				small = largest - l
				f.Ranges = append(f.Ranges, AckRange{small, largest})
			}
			if f.Type == FtAckECN {
				f.ECN[0], f.ECN[1], f.ECN[2] = r.varint(), r.varint(), r.varint()
			}
		case f.Type == FtResetStream:
			f.StreamID, f.ErrorCode, f.FinalSize = r.varint(), r.varint(), r.varint()
		case f.Type == FtResetStreamAt:
			f.StreamID, f.ErrorCode, f.FinalSize, f.ReliableSize = r.varint(), r.varint(), r.varint(), r.varint()
		case f.Type == FtStopSending:
			f.StreamID, f.ErrorCode = r.varint(), r.varint()
		case f.Type == FtCrypto:
			f.Offset = r.varint()
			f.Data = r.bytes(r.varint())
		case f.Type == FtNewToken:
			f.Token = r.bytes(r.varint())
		case f.IsStream():
			f.StreamID = r.varint()
			if f.Type&0x04 != 0 {
				f.Offset = r.varint()
			}
			if f.Type&0x02 != 0 {
				f.Data = r.bytes(r.varint())
			} else {
				f.Data = r.bytes(uint64(r.left()))
			}
			f.Fin = f.Type&0x01 != 0
		case f.Type == FtMaxData, f.Type == FtDataBlocked, f.Type == FtMaxStreamsBidi, f.Type == FtMaxStreamsUni,
			f.Type == FtStreamsBlkdBidi, f.Type == FtStreamsBlkdUni, f.Type == FtRetireConnID:
			f.Value = r.varint()
		case f.Type == FtMaxStreamData, f.Type == FtStreamDataBlkd:
			f.StreamID, f.Value = r.varint(), r.varint()
		case f.Type == FtNewConnID:
			f.Seq, f.RetirePriorTo = r.varint(), r.varint()
			f.CID = r.bytes(uint64(r.byte()))
			f.ResetToken = r.bytes(16)
		case f.Type == FtPathChallenge, f.Type == FtPathResponse:
			f.Data = r.bytes(8)
		case f.Type == FtConnClose:
			f.ErrorCode, f.FrameType = r.varint(), r.varint()
			f.Reason = string(r.bytes(r.varint()))
		case f.Type == FtConnCloseApp:
			f.ErrorCode = r.varint()
			f.Reason = string(r.bytes(r.varint()))
		case f.Type == FtDatagram:
			f.Data = r.bytes(uint64(r.left()))
		case f.Type == FtDatagramLen:
			f.Data = r.bytes(r.varint())
		default:
			return out, fmt.Errorf("wiretap: unknown frame type %#x at offset %d", f.Type, start)
		}
		if r.err != nil {
			return out, fmt.Errorf("wiretap: %s frame at offset %d: %w", f.Name(), start, r.err)
		}
		f.Len = r.pos - start
		out = append(out, f)
	}
	return out, nil
}
