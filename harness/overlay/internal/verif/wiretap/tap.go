package wiretap

import (
	"bytes"
	"encoding/hex"
	"fmt"
	"sort"
	"strings"
	"sync"
	"time"
)

// Dir is the direction of a datagram.
type Dir int

const (
	C2S Dir = 0
	S2C Dir = 1
)

func (d Dir) String() string { return [...]string{"c->s", "s->c"}[d] }
func (d Dir) Other() Dir     { return 1 - d }

// KeyLog collects NSS key log lines from both endpoints (tls.Config.KeyLogWriter).
type KeyLog struct {
	mu      sync.Mutex
	buf     []byte
	secrets map[string]map[string][]byte // client random (hex) -> label -> secret
	Lines   []string
}

func NewKeyLog() *KeyLog { return &KeyLog{secrets: map[string]map[string][]byte{}} }

func (k *KeyLog) Write(p []byte) (int, error) {
	k.mu.Lock()
	defer k.mu.Unlock()
	k.buf = append(k.buf, p...)
	for {
		i := bytes.IndexByte(k.buf, '\n')
		if i < 0 {
			break
		}
		line := string(k.buf[:i])
		k.buf = k.buf[i+1:]
		f := strings.Fields(line)
		if len(f) != 3 {
			continue
		}
		sec, err := hex.DecodeString(f[2])
		if err != nil {
			continue
		}
		m := k.secrets[f[1]]
		if m == nil {
			m = map[string][]byte{}
			k.secrets[f[1]] = m
		}
		if _, ok := m[f[0]]; !ok {
			m[f[0]] = sec
			k.Lines = append(k.Lines, line)
		}
	}
	return len(p), nil
}

func (k *KeyLog) get(random []byte, label string) []byte {
	k.mu.Lock()
	defer k.mu.Unlock()
	return k.secrets[hex.EncodeToString(random)][label]
}

// PacketInfo is one packet of an observed datagram, decrypted if keys were available.
type PacketInfo struct {
	Kind     Kind
	Version  uint32
	DCID     []byte
	SCID     []byte
	Token    []byte
	Start    int // byte range inside the datagram
	End      int
	Opened   bool
	Err      string
	PN       uint64
	PNLen    int
	KeyPhase int // 1-RTT: key generation (number of key updates so far), not the bit
	Frames   []Frame
	Payload  []byte
	Hdr      []byte
	AckElic  bool
	Versions []uint32 // VN
	Tag      []byte   // Retry
}

// DatagramInfo is what the tap knows about one emitted datagram.
type DatagramInfo struct {
	Dir      Dir
	Ordinal  int // per direction and client address, counted from 0
	Time     time.Duration
	Raw      []byte
	Packets  []PacketInfo
	Trailing int
	Conn     *ConnTap
	SplitErr string
}

type byteRange struct{ lo, hi uint64 }

type rangeSet struct{ r []byteRange }

// add inserts [lo,hi) and returns the number of bytes that were already present.
func (s *rangeSet) add(lo, hi uint64) (overlap uint64) {
	if hi <= lo {
		return 0
	}
	var out []byteRange
	nlo, nhi := lo, hi
	for _, x := range s.r {
		if x.hi < nlo || x.lo > nhi {
			out = append(out, x)
			continue
		}
		l, h := max(x.lo, lo), min(x.hi, hi)
		if h > l {
			overlap += h - l
		}
		nlo, nhi = min(nlo, x.lo), max(nhi, x.hi)
	}
	out = append(out, byteRange{nlo, nhi})
	sort.Slice(out, func(i, j int) bool { return out[i].lo < out[j].lo })
	s.r = out
	return overlap
}

type cryptoReasm struct {
	buf  []byte
	have rangeSet
}

func (c *cryptoReasm) add(off uint64, d []byte) {
	end := off + uint64(len(d))
	if end > 1<<20 {
		return
	}
	if uint64(len(c.buf)) < end {
		c.buf = append(c.buf, make([]byte, end-uint64(len(c.buf)))...)
	}
	copy(c.buf[off:], d)
	c.have.add(off, end)
}

func (c *cryptoReasm) prefix() []byte {
	if len(c.have.r) == 0 || c.have.r[0].lo != 0 {
		return nil
	}
	return c.buf[:c.have.r[0].hi]
}

// StreamView is what one side has sent on one stream.
type StreamView struct {
	HighWater     uint64
	FinAt         int64 // -1 unknown
	Sent          rangeSet
	RetxBytes     uint64
	ResetSeen     bool
	MaxStreamData uint64 // largest MAX_STREAM_DATA the *receiver* of this stream's data has emitted (0 none)
}

// Anomaly is a wire-level observation that refutes a property.
type Anomaly struct {
	Prop   string
	Sig    string
	Detail string
}

// ConnTap is the observer state for one QUIC connection.
type ConnTap struct {
	w          *Wire
	ID         int
	ClientAddr string
	Version    uint32
	ODCID      []byte
	initDCID   []byte
	ClientSCID []byte
	ServerSCID []byte
	cids       [2]map[string]bool // connection IDs usable as DCID by datagrams travelling in direction d
	Suite      uint16

	initKeys map[string][2]*Keys // version|dcid -> [client, server]
	hsKeys   [2]*Keys
	zeroRTT  *Keys
	oneRTT   [2][]*Keys // key generations per sender
	largest  [2][3]int64
	crypto   [2][3]*cryptoReasm

	CH        *ClientHello
	CHs       []*ClientHello
	SH        *ServerHello
	ClientTP  *TPSet
	ServerTP  *TPSet
	ALPN      string
	RetrySeen int
	VNSeen    int

	// ---- monitor state
	EmittedPN    [2][3]map[uint64]int
	DeliveredPN  [2][3]map[uint64]bool // PNs of sender d delivered (intact) to the other side
	AckLargestTo [2][3]int64           // largest acknowledged PN delivered TO sender d (upper bound on what d knows)
	Streams      [2]map[uint64]*StreamView
	MaxData      [2]uint64 // largest MAX_DATA emitted BY side d
	MaxStreams   [2][2]uint64
	IssuedCIDs   [2]map[uint64][]byte // seq -> cid issued by side d
	ResetTokens  [2]map[uint64][]byte // seq -> stateless reset token issued by side d (server seq 0: transport parameter)
	LastDCID     [2][]byte            // DCID of the last 1-RTT packet sent by side d
	RetiredSeqs  [2]map[uint64]bool   // seqs (of the peer's CIDs) retired by side d
	forged       [2]uint64            // packets forged so far on behalf of side d (ForgeShort)
	RetirePrior  [2]uint64
	retireDeliv  [2]map[uint64]bool // RETIRE_CONNECTION_ID sequence numbers delivered TO side d (intact)
	Closes       [2][]Frame
	Counts       map[string]int64
	BytesEmitted [2]int64
	BytesDeliv   [2]int64
	// C14: counters frozen when the first client Handshake packet is delivered to the server
	ClientHSDelivered bool
	// an Initial carrying the token of a Retry the server really sent was delivered to the server
	RetryTokenDelivered bool
	RetryTokens         [][]byte
	NewTokens           [][]byte // tokens from NEW_TOKEN frames sent by the server
	KeyPhases           [2]int
	Anomalies           []Anomaly
	FirstFlight         []*DatagramInfo // client datagrams emitted before the first server datagram was delivered
	serverDelivered     bool
	Datagrams           []*DatagramInfo
	HandshakeDoneSeen   bool
	Unopened            int
	// C07 timeliness: ack-eliciting 1-RTT packets delivered (intact, for the first time, in order, after the
	// handshake was done) to side r, by packet number, with the time of delivery; removed once side r covers
	// them with an ACK, emits a CONNECTION_CLOSE, or is found overdue
	awaitAck     [2]map[uint64]time.Duration
	maxDeliv1RTT [2]int64
	now          time.Duration // emission time of the datagram being observed
	pktBytes            map[string][]byte
}

// Wire demultiplexes datagrams to connection taps.
type Wire struct {
	mu       sync.Mutex
	KeyLog   *KeyLog
	Conns    []*ConnTap
	ordinals map[string]*[2]int
	// KeepRaw keeps a copy of each datagram's bytes in DatagramInfo.Raw (default true)
	KeepRaw bool
	// ServerCIDLen is a hint used for short header packets that match no known connection ID
	Unmatched int
}

func NewWire() *Wire {
	return &Wire{KeyLog: NewKeyLog(), ordinals: map[string]*[2]int{}, KeepRaw: true}
}

func (w *Wire) newConn(clientAddr string, version uint32, dcid, scid []byte) *ConnTap {
	c := &ConnTap{w: w, ID: len(w.Conns), ClientAddr: clientAddr, Version: version, ODCID: append([]byte(nil), dcid...),
		initDCID: append([]byte(nil), dcid...), ClientSCID: append([]byte(nil), scid...), initKeys: map[string][2]*Keys{}, Counts: map[string]int64{}}
	for d := 0; d < 2; d++ {
		c.cids[d] = map[string]bool{}
		c.Streams[d] = map[uint64]*StreamView{}
		c.IssuedCIDs[d] = map[uint64][]byte{}
		c.ResetTokens[d] = map[uint64][]byte{}
		c.RetiredSeqs[d] = map[uint64]bool{}
		c.retireDeliv[d] = map[uint64]bool{}
		c.awaitAck[d] = map[uint64]time.Duration{}
		c.maxDeliv1RTT[d] = -1
		for s := 0; s < 3; s++ {
			c.largest[d][s] = -1
			c.AckLargestTo[d][s] = -1
			c.crypto[d][s] = &cryptoReasm{}
			c.EmittedPN[d][s] = map[uint64]int{}
			c.DeliveredPN[d][s] = map[uint64]bool{}
		}
	}
	c.cids[C2S][string(dcid)] = true
	c.cids[S2C][string(scid)] = true
	w.Conns = append(w.Conns, c)
	return c
}

func (c *ConnTap) anomaly(prop, sig, f string, a ...any) {
	if len(c.Anomalies) < 50 {
		c.Anomalies = append(c.Anomalies, Anomaly{prop, sig, fmt.Sprintf(f, a...)})
	}
}

func (c *ConnTap) initialKeys(version uint32, dcid []byte) [2]*Keys {
	k := fmt.Sprintf("%x|%x", version, dcid)
	if v, ok := c.initKeys[k]; ok {
		return v
	}
	cs, ss := InitialSecrets(version, dcid)
	ck, _ := NewKeys(version, SuiteAES128, cs)
	sk, _ := NewKeys(version, SuiteAES128, ss)
	v := [2]*Keys{ck, sk}
	c.initKeys[k] = v
	return v
}

func (w *Wire) findConn(dir Dir, clientAddr string, first []byte) *ConnTap {
	// long header: match on DCID; short header: prefix match on a known connection ID
	if len(first) == 0 {
		return nil
	}
	if first[0]&0x80 != 0 {
		if len(first) < 6 {
			return nil
		}
		n := int(first[5])
		if len(first) < 6+n {
			return nil
		}
		dcid := string(first[6 : 6+n])
		for i := len(w.Conns) - 1; i >= 0; i-- {
			c := w.Conns[i]
			if c.ClientAddr == clientAddr && c.cids[dir][dcid] {
				return c
			}
		}
		return nil
	}
	var best *ConnTap
	bestLen := -1
	for i := len(w.Conns) - 1; i >= 0; i-- {
		c := w.Conns[i]
		if c.ClientAddr != clientAddr {
			continue
		}
		for cid := range c.cids[dir] {
			if len(cid) > bestLen && len(first) >= 1+len(cid) && string(first[1:1+len(cid)]) == cid {
				best, bestLen = c, len(cid)
			}
		}
	}
	return best
}

// Emitted records a datagram as it leaves its sender (before any fault is applied) and returns
// what the tap could read of it.
func (w *Wire) Emitted(dir Dir, clientAddr string, now time.Duration, data []byte) *DatagramInfo {
	w.mu.Lock()
	defer w.mu.Unlock()
	ord := w.ordinals[clientAddr]
	if ord == nil {
		ord = new([2]int)
		w.ordinals[clientAddr] = ord
	}
	d := &DatagramInfo{Dir: dir, Ordinal: ord[dir], Time: now}
	ord[dir]++
	if w.KeepRaw {
		d.Raw = append([]byte(nil), data...)
	} else {
		d.Raw = data
	}
	c := w.findConn(dir, clientAddr, data)
	if c == nil && dir == C2S && len(data) > 6 && data[0]&0x80 != 0 {
		// a client Initial for an unknown DCID: a new connection, or the same one after Retry / version negotiation
		pk, _, err := SplitDatagram(data, nil)
		if err == nil && len(pk) > 0 && (pk[0].Kind == KindInitial || pk[0].Kind == KindZeroRTT) {
			for i := len(w.Conns) - 1; i >= 0; i-- {
				o := w.Conns[i]
				if o.ClientAddr == clientAddr && !o.HandshakeDoneSeen && o.oneRTT[0] == nil && bytes.Equal(o.ClientSCID, pk[0].SCID) && (o.RetrySeen > 0 || o.VNSeen > 0) && len(o.Closes[0]) == 0 {
					c = o
					c.cids[C2S][string(pk[0].DCID)] = true
					break
				}
			}
			if c == nil {
				c = w.newConn(clientAddr, pk[0].Version, pk[0].DCID, pk[0].SCID)
			}
		}
	}
	if c == nil {
		w.Unmatched++
		d.SplitErr = "no connection"
		return d
	}
	d.Conn = c
	c.observe(d)
	c.Datagrams = append(c.Datagrams, d)
	return d
}

func (c *ConnTap) shortLen(dir Dir) func(b []byte) int {
	return func(b []byte) int {
		best := -1
		for cid := range c.cids[dir] {
			if len(cid) > best && len(b) >= 1+len(cid) && string(b[1:1+len(cid)]) == cid {
				best = len(cid)
			}
		}
		return best
	}
}

func (c *ConnTap) observe(d *DatagramInfo) {
	dir := d.Dir
	c.now = d.Time
	// ---- C14 wire layer: until the client's address is validated (a client Handshake packet was
	// delivered to the server, or an Initial carrying the token of a genuine Retry), the server may only
	// send while what it has sent so far is below three times what was delivered to it; the datagram
	// that crosses the limit is the "one packet that was already permitted".
	if dir == S2C && !c.ClientHSDelivered && !c.RetryTokenDelivered {
		c.Counts["c14_amplification_checks"]++
		if c.BytesEmitted[S2C] >= 3*c.BytesDeliv[C2S] {
			// reported at the end of observe, when the datagram's content is known
			sent, rcvd := c.BytesEmitted[S2C], c.BytesDeliv[C2S]
			defer func() {
				sig := "C14|wire|amplification-limit-exceeded"
				onlyClose := len(d.Packets) > 0
				for i := range d.Packets {
					p := &d.Packets[i]
					if !p.Opened && strings.HasPrefix(p.Err, "post-close server packet") {
						continue
					}
					if !p.Opened || len(p.Frames) == 0 {
						onlyClose = false
					}
					for _, f := range p.Frames {
						if f.Type != FtConnClose && f.Type != FtConnCloseApp && f.Type != FtPadding {
							onlyClose = false
						}
					}
				}
				if onlyClose {
					sig += "|connection-close"
				}
				c.anomaly("C14", sig, "server sends a %d-byte datagram to an unvalidated address after %d bytes sent and only %d bytes received (limit %d)", len(d.Raw), sent, rcvd, 3*rcvd)
			}()
		}
		if c.BytesEmitted[S2C]+int64(len(d.Raw)) > 3*c.BytesDeliv[C2S] {
			c.Counts["c14_datagrams_crossing_limit"]++
		}
	}
	c.BytesEmitted[dir] += int64(len(d.Raw))
	pk, rest, err := SplitDatagram(d.Raw, c.shortLen(dir))
	if err != nil {
		d.SplitErr = err.Error()
	}
	d.Trailing = len(rest)
	ghost := false // coalesced packets all belong to the same connection instance
	for _, rp := range pk {
		pi := PacketInfo{Kind: rp.Kind, Version: rp.Version, DCID: rp.DCID, SCID: rp.SCID, Token: rp.Token, Start: rp.Offset, End: rp.Offset + len(rp.Data), Versions: rp.Versions, Tag: rp.Tag}
		c.Counts["pkt_"+dir.String()+"_"+rp.Kind.String()]++
		switch rp.Kind {
		case KindVN:
			c.VNSeen++
		case KindRetry:
			c.RetrySeen++
			c.RetryTokens = append(c.RetryTokens, append([]byte(nil), rp.Token...))
			// a Retry changes the DCID the client uses, and thereby the Initial keys
			c.cids[C2S][string(rp.SCID)] = true
		default:
			if ghost {
				pi.Err = "post-close server packet (another connection instance)"
				c.Counts["post_close_server_long_header_packets"]++
			} else {
				c.open(dir, &rp, &pi)
				ghost = !pi.Opened && strings.HasPrefix(pi.Err, "post-close server packet")
			}
		}
		d.Packets = append(d.Packets, pi)
	}
	if dir == C2S && !c.serverDelivered {
		c.FirstFlight = append(c.FirstFlight, d)
	}
	// ---- C07 wire layer, timeliness: a side that goes on sending 1-RTT packets after max_ack_delay has
	// passed since an ack-eliciting packet was delivered to it must have acknowledged that packet
	if len(c.awaitAck[dir]) > 0 {
		if len(c.Closes[dir]) > 0 {
			c.awaitAck[dir] = map[uint64]time.Duration{}
			return
		}
		sends1RTT := false
		for i := range d.Packets {
			if d.Packets[i].Opened && d.Packets[i].Kind == KindOneRTT {
				sends1RTT = true
			}
		}
		if sends1RTT {
			for pn, at := range c.awaitAck[dir] {
				if late := d.Time - at; late > c.ackBound(dir) {
					delete(c.awaitAck[dir], pn)
					c.Counts["c07_ack_delays_checked"]++
					c.anomaly("C07", "C07|wire|ack-overdue", "%s sends a 1-RTT packet %v after ack-eliciting 1-RTT packet %d was delivered to it, without having acknowledged it (bound %v)", dir, late, pn, c.ackBound(dir))
				}
			}
		}
	}
}

func (c *ConnTap) candidateKeys(dir Dir, rp *RawPacket) []*Keys {
	switch rp.Kind {
	case KindInitial:
		var out []*Keys
		out = append(out, c.initialKeys(rp.Version, c.initDCID)[dir])
		if dir == C2S && !bytes.Equal(rp.DCID, c.initDCID) {
			out = append(out, c.initialKeys(rp.Version, rp.DCID)[dir])
		}
		// Late answers to delayed duplicates of earlier Initials (before a Retry, or with another
		// version) are protected with the keys of that earlier attempt.
		for _, ks := range c.initKeys {
			if ks[dir] != out[0] && (len(out) < 2 || ks[dir] != out[1]) {
				out = append(out, ks[dir])
			}
		}
		return out
	case KindHandshake:
		if c.hsKeys[dir] == nil && c.CH != nil {
			label := "CLIENT_HANDSHAKE_TRAFFIC_SECRET"
			if dir == S2C {
				label = "SERVER_HANDSHAKE_TRAFFIC_SECRET"
			}
			if sec := c.w.KeyLog.get(c.CH.Random, label); sec != nil {
				c.hsKeys[dir] = c.keysFromSecret(rp.Version, sec)
			}
		}
		if c.hsKeys[dir] != nil {
			return []*Keys{c.hsKeys[dir]}
		}
	case KindZeroRTT:
		if c.zeroRTT == nil && c.CH != nil {
			if sec := c.w.KeyLog.get(c.CH.Random, "CLIENT_EARLY_TRAFFIC_SECRET"); sec != nil {
				c.zeroRTT = c.keysFromSecret(rp.Version, sec)
			}
		}
		if c.zeroRTT != nil {
			return []*Keys{c.zeroRTT}
		}
	}
	return nil
}

func (c *ConnTap) keysFromSecret(version uint32, sec []byte) *Keys {
	suite := c.Suite
	if suite == 0 {
		// not known yet (0-RTT): infer from the secret length, AES-128 unless told otherwise
		suite = SuiteAES128
		if len(sec) == 48 {
			suite = SuiteAES256
		}
	}
	k, err := NewKeys(version, suite, sec)
	if err != nil {
		return nil
	}
	return k
}

func (c *ConnTap) open(dir Dir, rp *RawPacket, pi *PacketInfo) {
	space := rp.Kind.Space()
	if dir == S2C && rp.Kind != KindOneRTT && ((len(c.Closes[0]) > 0 || len(c.Closes[1]) > 0) ||
		(c.SH != nil && !bytes.Equal(rp.SCID, c.ServerSCID))) {
		// Long-header packets from the server after the connection was closed, or with a source connection
		// ID other than the one the handshake was made with, belong to another server-side connection
		// instance, created for a delayed duplicate of the client's Initial once the original destination
		// connection ID was no longer routed (same DCID, hence same Initial keys, but its own handshake).
		pi.Err = "post-close server packet (another connection instance)"
		c.Counts["post_close_server_long_header_packets"]++
		return
	}
	if rp.Kind == KindOneRTT {
		c.openShort(dir, rp, pi)
	} else {
		cands := c.candidateKeys(dir, rp)
		if rp.Kind == KindZeroRTT && len(cands) == 1 && c.Suite == 0 {
			// suite unknown: also try ChaCha20 with the same secret
			if k, err := NewKeys(rp.Version, SuiteChaCha, cands[0].Secret); err == nil {
				cands = append(cands, k)
			}
		}
		if len(cands) == 0 {
			pi.Err = "no keys"
		}
		for i, k := range cands {
			hdr, pn, pnLen, payload, err := k.Unprotect(rp.Data, rp.PNOffset, c.largest[dir][space])
			if err != nil {
				pi.Err = err.Error()
				continue
			}
			pi.Opened, pi.Err, pi.Hdr, pi.PN, pi.PNLen, pi.Payload = true, "", hdr, pn, pnLen, payload
			if rp.Kind == KindInitial && i == 1 && dir == C2S && !bytes.Equal(rp.DCID, c.initDCID) {
				// Initial keys changed (Retry): the CRYPTO stream restarts
				c.initDCID = append([]byte(nil), rp.DCID...)
				c.crypto[C2S][0] = &cryptoReasm{}
				c.crypto[S2C][0] = &cryptoReasm{}
				for s := 0; s < 1; s++ {
					c.largest[S2C][s] = -1
				}
			}
			if rp.Kind == KindZeroRTT && i == 1 {
				c.zeroRTT = k
			}
			break
		}
	}
	if !pi.Opened {
		c.Unopened++
		c.Counts["unopened_"+dir.String()+"_"+rp.Kind.String()]++
		return
	}
	if dir == S2C && rp.Kind != KindOneRTT && len(c.ServerSCID) == 0 && len(rp.SCID) > 0 {
		c.ServerSCID = append([]byte(nil), rp.SCID...)
	}
	if dir == S2C && rp.Kind != KindOneRTT {
		c.cids[C2S][string(rp.SCID)] = true
		if rp.Version != c.Version && rp.Kind == KindInitial {
			c.Version = rp.Version
		}
	}
	if dir == C2S && rp.Kind == KindInitial && rp.Version != c.Version && c.SH == nil {
		c.Version = rp.Version // after version negotiation
	}
	frames, ferr := ParseFrames(pi.Payload)
	pi.Frames = frames
	// A server answers an Initial it does not want to serve (listener closed, invalid token) statelessly,
	// outside of any connection, with an Initial packet that carries only CONNECTION_CLOSE
	// (CONNECTION_REFUSED / INVALID_TOKEN) and its own packet number: not part of the connection's number space.
	if dir == S2C && rp.Kind == KindInitial && len(frames) >= 1 && frames[0].Type == FtConnClose && (frames[0].ErrorCode == 0x2 || frames[0].ErrorCode == 0xb) {
		only := true
		for _, f := range frames[1:] {
			if f.Type != FtPadding {
				only = false
			}
		}
		if only {
			c.Counts["stateless_reject_packets"]++
			c.Closes[dir] = append(c.Closes[dir], frames[0])
			return
		}
	}
	// ---- packet number bookkeeping (C05)
	if int64(pi.PN) > c.largest[dir][space] {
		c.largest[dir][space] = int64(pi.PN)
	}
	c.EmittedPN[dir][space][pi.PN]++
	if c.EmittedPN[dir][space][pi.PN] > 1 {
		// Re-sending the identical packet is legal (a closed connection repeats its CONNECTION_CLOSE
		// packet, RFC 9000 section 10.2.1); a different packet under the same number reuses the nonce.
		key := fmt.Sprintf("%d/%d/%d", dir, space, pi.PN)
		if prev, ok := c.pktBytes[key]; ok && bytes.Equal(prev, rp.Data) {
			c.Counts["identical_packet_resent"]++
		} else {
			if dir == S2C && space < 2 && len(c.ServerSCID) == 0 {
				// zero-length server connection IDs: another server-side instance cannot be told apart
				c.Counts["pn_reuse_not_judged_zero_length_scid"]++
			} else {
				c.anomaly("C05", "C05|wire|packet-number-reused", "%s sent two different packets with packet number %d in space %d", dir, pi.PN, space)
			}
		}
	}
	if c.pktBytes == nil {
		c.pktBytes = map[string][]byte{}
	}
	if rp.Kind != KindOneRTT || len(rp.Data) < 200 {
		// keep the bytes of small packets (CONNECTION_CLOSE and other control packets) for the comparison above
		c.pktBytes[fmt.Sprintf("%d/%d/%d", dir, space, pi.PN)] = append([]byte(nil), rp.Data...)
	}
	// PN length must be sufficient given the largest ACK delivered to the sender so far (RFC 9000 A.2)
	if la := c.AckLargestTo[dir][space]; true {
		var unacked uint64
		if la < 0 {
			unacked = pi.PN + 1
		} else if int64(pi.PN) > la {
			unacked = pi.PN - uint64(la)
		}
		need := 1
		for need < 4 && unacked >= uint64(1)<<(8*need-1) {
			need++
		}
		if pi.PNLen < need && !(rp.Kind == KindInitial && dir == C2S) {
			c.anomaly("C05", "C05|wire|packet-number-encoding-too-short", "%s %s packet %d encoded in %d byte(s), largest ack delivered to sender %d", dir, rp.Kind, pi.PN, pi.PNLen, la)
		}
	}
	if err := ferr; err != nil {
		pi.Err = err.Error()
		c.Counts["frame_parse_errors"]++
	}
	for i := range frames {
		f := &frames[i]
		if f.AckEliciting() {
			pi.AckElic = true
		}
		c.Counts["frame_"+dir.String()+"_"+f.Name()]++
		c.frame(dir, rp.Kind, pi, f)
	}
}

func (c *ConnTap) openShort(dir Dir, rp *RawPacket, pi *PacketInfo) {
	if c.oneRTT[dir] == nil && c.CH != nil {
		label := "CLIENT_TRAFFIC_SECRET_0"
		if dir == S2C {
			label = "SERVER_TRAFFIC_SECRET_0"
		}
		if sec := c.w.KeyLog.get(c.CH.Random, label); sec != nil {
			if k := c.keysFromSecret(c.Version, sec); k != nil {
				c.oneRTT[dir] = []*Keys{k}
			}
		}
	}
	gens := c.oneRTT[dir]
	if gens == nil {
		pi.Err = "no keys"
		return
	}
	cur := len(gens) - 1
	// header protection does not change across key updates
	if len(rp.Data) < rp.PNOffset+20 {
		pi.Err = "short"
		return
	}
	mask := gens[0].Mask(rp.Data[rp.PNOffset+4 : rp.PNOffset+20])
	bit := int((rp.Data[0]^mask[0]&0x1f)>>2) & 1
	try := []int{}
	if bit == cur%2 {
		try = append(try, cur)
		if cur >= 2 {
			try = append(try, cur-2)
		}
	} else {
		try = append(try, cur+1)
		if cur >= 1 {
			try = append(try, cur-1)
		}
	}
	for _, g := range try {
		for len(gens) <= g {
			gens = append(gens, gens[len(gens)-1].Next())
		}
		hdr, pn, pnLen, payload, err := gens[g].Unprotect(rp.Data, rp.PNOffset, c.largest[dir][2])
		if err != nil {
			pi.Err = err.Error()
			continue
		}
		pi.Opened, pi.Err, pi.Hdr, pi.PN, pi.PNLen, pi.Payload, pi.KeyPhase = true, "", hdr, pn, pnLen, payload, g
		if g > cur {
			c.oneRTT[dir] = gens[:g+1]
			c.KeyPhases[dir] = g
			// C05: a key update must not be initiated before the handshake is confirmed.  The observer can
			// see a necessary condition: the sender must have received an ACK for a packet of the current phase.
			c.Counts["key_updates_"+dir.String()]++
		} else {
			c.oneRTT[dir] = gens[:cur+1]
		}
		c.Counts[fmt.Sprintf("pkt_%s_1rtt_phase", dir)]++
		c.LastDCID[dir] = append([]byte{}, rp.DCID...)
		return
	}
	c.oneRTT[dir] = gens[:cur+1]
}

func (c *ConnTap) stream(dir Dir, id uint64) *StreamView {
	s := c.Streams[dir][id]
	if s == nil {
		s = &StreamView{FinAt: -1}
		c.Streams[dir][id] = s
	}
	return s
}

// initialStreamLimit returns the limit that the receiver of data sent by `sender` on stream id
// advertised in its transport parameters, and whether it is known.
func (c *ConnTap) initialStreamLimit(sender Dir, id uint64) (uint64, bool) {
	tp := c.ServerTP
	if sender == S2C {
		tp = c.ClientTP
	}
	if tp == nil {
		return 0, false
	}
	initiator := Dir(id & 1) // 0 client, 1 server
	uni := id&2 != 0
	switch {
	case uni:
		return tp.Int(TPInitialMaxStreamDataU, 0), true
	case initiator == sender: // the receiver sees a remotely initiated bidirectional stream
		return tp.Int(TPInitialMaxStreamDataBR, 0), true
	default:
		return tp.Int(TPInitialMaxStreamDataBL, 0), true
	}
}

func (c *ConnTap) frame(dir Dir, kind Kind, pi *PacketInfo, f *Frame) {
	peer := dir.Other()
	switch {
	case f.Type == FtCrypto:
		lvl := kind.Space()
		c.crypto[dir][lvl].add(f.Offset, f.Data)
		c.parseCrypto(dir, lvl)
	case f.IsStream():
		// ---- C15 wire layer: a stream opened by side dir never has a number beyond the largest stream
		// count its peer has put on the wire (transport parameter, raised by MAX_STREAMS frames emitted so far)
		if Dir(f.StreamID&1) == dir && kind == KindOneRTT {
			if tp := c.peerTP(dir); tp != nil {
				ti, id := 0, uint64(TPInitialMaxStreamsBidi)
				if f.StreamID&2 != 0 {
					ti, id = 1, TPInitialMaxStreamsUni
				}
				lim := max(tp.Int(id, 0), c.MaxStreams[peer][ti])
				c.Counts["c15_stream_count_checks"]++
				if f.StreamID/4+1 > lim {
					c.anomaly("C15", "C15|wire|stream-opened-beyond-peer-limit", "%s sent a STREAM frame for its stream %d (number %d), the peer's largest advertised stream count is %d", dir, f.StreamID, f.StreamID/4+1, lim)
				}
			}
		}
		s := c.stream(dir, f.StreamID)
		end := f.Offset + uint64(len(f.Data))
		ov := s.Sent.add(f.Offset, end)
		s.RetxBytes += ov
		if ov > 0 {
			c.Counts["stream_retx_bytes_"+dir.String()] += int64(ov)
		}
		if f.Fin {
			s.FinAt = int64(end)
		}
		if end > s.HighWater {
			s.HighWater = end
		}
		c.Counts["stream_bytes_"+dir.String()] += int64(len(f.Data))
		if kind == KindZeroRTT {
			c.Counts["stream_frames_0rtt"]++
			break // limits come from a remembered session the observer has not seen
		}
		// ---- C04 wire layer: new data never beyond what the peer has emitted so far
		if lim, ok := c.initialStreamLimit(dir, f.StreamID); ok {
			if s.MaxStreamData > lim {
				lim = s.MaxStreamData
			}
			c.Counts["c04_stream_limit_checks"]++
			if end > lim {
				c.anomaly("C04", "C04|wire|stream-data-beyond-advertised-limit", "%s sent stream %d bytes up to %d, largest limit emitted by peer %d", dir, f.StreamID, end, lim)
			}
		}
		if tp := c.peerTP(dir); tp != nil {
			lim := max(tp.Int(TPInitialMaxData, 0), c.MaxData[peer])
			var sum uint64
			for _, sv := range c.Streams[dir] {
				sum += sv.HighWater
			}
			c.Counts["c04_conn_limit_checks"]++
			if sum > lim {
				c.anomaly("C04", "C04|wire|connection-data-beyond-advertised-limit", "%s sent %d stream bytes in total, largest MAX_DATA emitted by peer %d", dir, sum, lim)
			}
		}
	case f.Type == FtMaxData:
		if f.Value > c.MaxData[dir] {
			c.MaxData[dir] = f.Value
		}
	case f.Type == FtMaxStreamData:
		// emitted by dir: raises the limit for data sent by peer on that stream
		s := c.stream(peer, f.StreamID)
		if f.Value > s.MaxStreamData {
			s.MaxStreamData = f.Value
		}
	case f.Type == FtMaxStreamsBidi:
		c.MaxStreams[dir][0] = max(c.MaxStreams[dir][0], f.Value)
	case f.Type == FtMaxStreamsUni:
		c.MaxStreams[dir][1] = max(c.MaxStreams[dir][1], f.Value)
	case f.Type == FtResetStream || f.Type == FtResetStreamAt:
		c.stream(dir, f.StreamID).ResetSeen = true
	case f.Type == FtNewConnID:
		c.IssuedCIDs[dir][f.Seq] = append([]byte(nil), f.CID...)
		c.ResetTokens[dir][f.Seq] = append([]byte(nil), f.ResetToken...)
		c.cids[peer][string(f.CID)] = true // datagrams travelling towards dir's side may use it... (peer sends to it)
		if f.RetirePriorTo > c.RetirePrior[dir] {
			c.RetirePrior[dir] = f.RetirePriorTo
		}
		// ---- C16 wire layer: the IDs side dir has issued and not yet seen retired (RETIRE_CONNECTION_ID
		// delivered to it before this emission, or below its own Retire Prior To) never exceed the
		// active_connection_id_limit its peer advertised
		if tp := c.peerTP(dir); tp != nil {
			limit := tp.Int(TPActiveConnIDLimit, 2)
			active := 0
			if !c.retireDeliv[dir][0] && c.RetirePrior[dir] == 0 {
				active++ // the handshake connection ID (sequence number 0)
			}
			for seq := range c.IssuedCIDs[dir] {
				if seq != 0 && seq >= c.RetirePrior[dir] && !c.retireDeliv[dir][seq] {
					active++
				}
			}
			c.Counts["c16_issued_vs_limit_checks"]++
			if uint64(active) > limit {
				c.anomaly("C16", "C16|wire|more-ids-issued-than-peer-limit", "%s has issued %d connection IDs that the peer has not retired (NEW_CONNECTION_ID seq %d), the peer's active_connection_id_limit is %d", dir, active, f.Seq, limit)
			}
		}
	case f.Type == FtRetireConnID:
		c.RetiredSeqs[dir][f.Value] = true
	case f.Type == FtNewToken:
		if dir == S2C {
			c.NewTokens = append(c.NewTokens, append([]byte(nil), f.Token...))
		}
	case f.Type == FtConnClose || f.Type == FtConnCloseApp:
		c.Closes[dir] = append(c.Closes[dir], *f)
	case f.Type == FtHandshakeDone:
		c.HandshakeDoneSeen = true
	case f.Type == FtAck || f.Type == FtAckECN:
		space := kind.Space()
		c.Counts["c07_ack_frames_checked"]++
		if !f.RangesValid {
			c.anomaly("C07", "C07|wire|malformed-ack-ranges", "%s emitted an ACK with underflowing ranges in space %d", dir, space)
			break
		}
		// ---- C07 wire layer: only packet numbers actually delivered to this endpoint are acknowledged
		prev := uint64(0)
		for i, r := range f.Ranges {
			if r.Smallest > r.Largest || (i > 0 && r.Largest+1 >= prev) {
				c.anomaly("C07", "C07|wire|malformed-ack-ranges", "%s ACK ranges not descending/disjoint/non-adjacent: %v", dir, f.Ranges)
				break
			}
			prev = r.Smallest
			if r.Largest-r.Smallest > 1<<20 {
				c.anomaly("C07", "C07|wire|ack-of-undelivered-packet", "%s ACK range [%d,%d] in space %d is implausibly large", dir, r.Smallest, r.Largest, space)
				continue
			}
			if kind == KindOneRTT && len(c.awaitAck[dir]) > 0 {
				for pn, at := range c.awaitAck[dir] {
					if pn < r.Smallest || pn > r.Largest {
						continue
					}
					delete(c.awaitAck[dir], pn)
					c.Counts["c07_ack_delays_checked"]++
					if late := c.now - at; late > c.ackBound(dir) {
						c.anomaly("C07", "C07|wire|ack-late", "%s acknowledged ack-eliciting 1-RTT packet %d only %v after it was delivered (bound %v)", dir, pn, late, c.ackBound(dir))
					}
				}
			}
			for pn := r.Smallest; pn <= r.Largest; pn++ {
				if !c.DeliveredPN[peer][space][pn] {
					c.anomaly("C07", "C07|wire|ack-of-undelivered-packet", "%s acknowledged packet number %d in space %d, which was not delivered to it", dir, pn, space)
					break
				}
			}
		}
	}
}

// AckSlack is added to max_ack_delay before an acknowledgement counts as late on the wire.
const AckSlack = 5 * time.Millisecond

// ackBound is the longest time side dir may take from the delivery of an ack-eliciting 1-RTT packet to the
// emission of an ACK covering it: the larger of the max_ack_delay it advertised and the implementation's
// fixed 25 ms, plus AckSlack.
func (c *ConnTap) ackBound(dir Dir) time.Duration {
	b := 25 * time.Millisecond
	tp := c.ClientTP
	if dir == S2C {
		tp = c.ServerTP
	}
	if tp != nil {
		if v := time.Duration(tp.Int(TPMaxAckDelay, 25)) * time.Millisecond; v > b {
			b = v
		}
	}
	return b + AckSlack
}

func (c *ConnTap) peerTP(dir Dir) *TPSet {
	if dir == C2S {
		return c.ServerTP
	}
	return c.ClientTP
}

func (c *ConnTap) parseCrypto(dir Dir, lvl int) {
	pre := c.crypto[dir][lvl].prefix()
	if pre == nil {
		return
	}
	msgs, _ := SplitHandshake(pre)
	for _, m := range msgs {
		switch {
		case dir == C2S && lvl == 0 && m.Type == hsClientHello:
			known := false
			for _, o := range c.CHs {
				if bytes.Equal(o.Raw, m.Raw) {
					known = true
				}
			}
			if known {
				continue
			}
			ch, err := ParseClientHello(m.Raw)
			if err != nil {
				continue
			}
			ch.Raw = append([]byte(nil), ch.Raw...)
			c.CHs = append(c.CHs, ch)
			if c.CH == nil || !bytes.Equal(c.CH.Random, ch.Random) || true {
				c.CH = ch
			}
			for _, id := range []uint16{ExtQUICTransportParams, 0xffa5} {
				if d, ok := ch.Ext(id); ok {
					if l, err := ParseTransportParameters(d); err == nil {
						c.ClientTP = NewTPSet(l)
					}
					break
				}
			}
		case dir == S2C && lvl == 0 && m.Type == hsServerHello && c.SH == nil:
			sh, err := ParseServerHello(m.Body)
			if err == nil && !sh.IsHRR {
				c.SH = sh
				c.Suite = sh.CipherSuite
			}
		case dir == S2C && lvl == 1 && m.Type == hsEncryptedExtensions && c.ServerTP == nil:
			exts, err := ParseEncryptedExtensions(m.Body)
			if err != nil {
				continue
			}
			for _, e := range exts {
				switch e.Type {
				case ExtQUICTransportParams, 0xffa5:
					if l, err := ParseTransportParameters(e.Data); err == nil {
						c.ServerTP = NewTPSet(l)
						if t := c.ServerTP.Bytes(TPStatelessResetToken); len(t) == 16 {
							c.ResetTokens[S2C][0] = append([]byte(nil), t...)
						}
					}
				case ExtALPN:
					if a := ParseALPN(e.Data); len(a) > 0 {
						c.ALPN = a[0]
					}
				}
			}
		}
	}
}

// Mod describes what the network did to a datagram before delivering it.
type Mod struct {
	FlipAt  int // -1: none
	TruncTo int // -1: none
}

// NoMod is an unmodified delivery.
var NoMod = Mod{-1, -1}

// Delivered records that datagram d (possibly modified) was handed to its receiver's socket.
func (w *Wire) Delivered(d *DatagramInfo, mod Mod, now time.Duration) {
	w.mu.Lock()
	defer w.mu.Unlock()
	c := d.Conn
	if c == nil {
		return
	}
	n := len(d.Raw)
	if mod.TruncTo >= 0 && mod.TruncTo < n {
		n = mod.TruncTo
	}
	c.BytesDeliv[d.Dir] += int64(n)
	if d.Dir == S2C {
		c.serverDelivered = true
	}
	for i := range d.Packets {
		p := &d.Packets[i]
		intact := p.End <= n && !(mod.FlipAt >= p.Start && mod.FlipAt < p.End)
		if !intact || !p.Opened {
			continue
		}
		space := p.Kind.Space()
		if p.Kind == KindOneRTT {
			rcv := d.Dir.Other()
			// (only from datagrams the network left untouched: a flipped bit in an earlier coalesced packet can
			// hit its Length field, after which the receiver cannot find the packets behind it)
			if p.AckElic && c.HandshakeDoneSeen && mod == NoMod && !c.DeliveredPN[d.Dir][space][p.PN] && int64(p.PN) > c.maxDeliv1RTT[d.Dir] && len(c.Closes[rcv]) == 0 {
				c.awaitAck[rcv][p.PN] = now
			}
			if int64(p.PN) > c.maxDeliv1RTT[d.Dir] {
				c.maxDeliv1RTT[d.Dir] = int64(p.PN)
			}
		}
		c.DeliveredPN[d.Dir][space][p.PN] = true
		if d.Dir == C2S && p.Kind == KindHandshake {
			c.ClientHSDelivered = true
		}
		if d.Dir == C2S && p.Kind == KindInitial && len(p.Token) > 0 {
			for _, t := range c.RetryTokens {
				if bytes.Equal(t, p.Token) {
					c.RetryTokenDelivered = true
				}
			}
		}
		for j := range p.Frames {
			f := &p.Frames[j]
			if f.Type == FtRetireConnID {
				c.retireDeliv[d.Dir.Other()][f.Value] = true
			}
			if f.Type == FtAck || f.Type == FtAckECN {
				rcv := d.Dir.Other()
				if int64(f.LargestAcked) > c.AckLargestTo[rcv][space] {
					c.AckLargestTo[rcv][space] = int64(f.LargestAcked)
				}
			}
		}
	}
}

// ResetOrdinals restarts the per-direction datagram ordinals (so that an ordinal-based fault
// schedule applies again to the next connection of a dial series).
func (w *Wire) ResetOrdinals() {
	w.mu.Lock()
	w.ordinals = map[string]*[2]int{}
	w.mu.Unlock()
}

// Snapshot returns the connection taps (for use after the world has quiesced).
func (w *Wire) Snapshot() []*ConnTap {
	w.mu.Lock()
	defer w.mu.Unlock()
	return append([]*ConnTap(nil), w.Conns...)
}

// Lock/Unlock give monitors consistent access to tap state while the world is running.
func (w *Wire) Lock()   { w.mu.Lock() }
func (w *Wire) Unlock() { w.mu.Unlock() }

// Describe returns one line per datagram of the connection (at most the last n), for traces.
func (c *ConnTap) Describe(n int) []string {
	c.w.mu.Lock()
	defer c.w.mu.Unlock()
	ds := c.Datagrams
	if n > 0 && len(ds) > n {
		ds = ds[len(ds)-n:]
	}
	var out []string
	for _, d := range ds {
		out = append(out, d.describe())
	}
	return out
}

// Text renders one datagram the way Describe does (the caller must not race with the wire: use it
// from router hooks, which run synchronously with Emitted).
func (d *DatagramInfo) Text() string { return d.describe() }

func (d *DatagramInfo) describe() string {
	{
		s := fmt.Sprintf("%9.3fms %s #%d %dB", float64(d.Time)/1e6, d.Dir, d.Ordinal, len(d.Raw))
		for _, p := range d.Packets {
			s += fmt.Sprintf(" [%s pn=%d", p.Kind, p.PN)
			if !p.Opened {
				s += " UNOPENED:" + p.Err
			}
			for _, f := range p.Frames {
				switch {
				case f.IsStream():
					s += fmt.Sprintf(" STREAM(%d,%d+%d,fin=%v)", f.StreamID, f.Offset, len(f.Data), f.Fin)
				case f.Type == FtAck || f.Type == FtAckECN:
					s += fmt.Sprintf(" ACK%v", f.Ranges)
				case f.Type == FtConnClose || f.Type == FtConnCloseApp:
					s += fmt.Sprintf(" %s(type=%#x,code=%#x,ft=%#x,%q)", f.Name(), f.Type, f.ErrorCode, f.FrameType, f.Reason)
				case f.Type == FtCrypto:
					s += fmt.Sprintf(" CRYPTO(%d+%d)", f.Offset, len(f.Data))
				case f.Type == FtPadding:
					s += fmt.Sprintf(" PADDING(%d)", f.Count)
				default:
					s += " " + f.Name()
				}
			}
			s += "]"
		}
		return s
	}
}

// AdvertisedStreamLimit is the largest flow-control limit the receiver of data sent by `sender` on stream
// id has put on the wire so far (its transport parameter for that kind of stream, raised by the
// MAX_STREAM_DATA frames it emitted), and whether its transport parameters are known.
func (c *ConnTap) AdvertisedStreamLimit(sender Dir, id uint64) (uint64, bool) {
	c.w.mu.Lock()
	defer c.w.mu.Unlock()
	lim, ok := c.initialStreamLimit(sender, id)
	if !ok {
		return 0, false
	}
	if s := c.Streams[sender][id]; s != nil && s.MaxStreamData > lim {
		lim = s.MaxStreamData
	}
	return lim, true
}

// AdvertisedConnLimit is the largest connection-level limit the receiver of data sent by `sender` has put
// on the wire (initial_max_data raised by MAX_DATA frames), and the sum of the highest offsets `sender`
// has genuinely used on all streams so far.
func (c *ConnTap) AdvertisedConnLimit(sender Dir) (limit, used uint64, ok bool) {
	c.w.mu.Lock()
	defer c.w.mu.Unlock()
	tp := c.peerTP(sender)
	if tp == nil {
		return 0, 0, false
	}
	limit = max(tp.Int(TPInitialMaxData, 0), c.MaxData[sender.Other()])
	for _, sv := range c.Streams[sender] {
		used += sv.HighWater
	}
	return limit, used, true
}

// StreamHighWater is the highest stream offset `sender` has genuinely sent on stream id.
func (c *ConnTap) StreamHighWater(sender Dir, id uint64) uint64 {
	c.w.mu.Lock()
	defer c.w.mu.Unlock()
	if s := c.Streams[sender][id]; s != nil {
		return s.HighWater
	}
	return 0
}

// RegisterForgedCID tells the observer about a connection ID that a forged NEW_CONNECTION_ID frame issued
// on behalf of side issuer, so that the datagrams the other side addresses to it are still attributed
// to this connection and opened.
func (c *ConnTap) RegisterForgedCID(issuer Dir, cid []byte) {
	c.w.mu.Lock()
	defer c.w.mu.Unlock()
	c.cids[issuer.Other()][string(cid)] = true
}
