package wiretap

import (
	"crypto/rand"
	"errors"
)

// Encoders for attacker-crafted packets (the on-path attacker of the fault router).

// ForgeShort builds a valid 1-RTT packet that looks as if `sender` had sent it, carrying the
// given frame bytes: current keys and key phase of that sender, the connection ID its last
// genuine 1-RTT packet used, and a packet number well above everything sent so far.
func (c *ConnTap) ForgeShort(sender Dir, payload []byte) ([]byte, error) {
	return c.ForgeShortTo(sender, nil, payload)
}

// ForgeShortTo is ForgeShort with an explicit destination connection ID (nil: the one the sender uses).
func (c *ConnTap) ForgeShortTo(sender Dir, dcid []byte, payload []byte) ([]byte, error) {
	c.w.mu.Lock()
	defer c.w.mu.Unlock()
	gens := c.oneRTT[sender]
	if len(gens) == 0 || c.LastDCID[sender] == nil {
		return nil, errors.New("wiretap: no 1-RTT keys / connection ID observed for that sender yet")
	}
	if dcid == nil {
		dcid = c.LastDCID[sender]
	}
	return c.forgeShortGen(sender, dcid, payload, 0)
}

// ForgeShortPhase is ForgeShort with the keys of the sender's key generation advanced by `advance`
// key updates (the key phase bit follows).
func (c *ConnTap) ForgeShortPhase(sender Dir, advance int, payload []byte) ([]byte, error) {
	c.w.mu.Lock()
	defer c.w.mu.Unlock()
	if len(c.oneRTT[sender]) == 0 || c.LastDCID[sender] == nil {
		return nil, errors.New("wiretap: no 1-RTT keys / connection ID observed for that sender yet")
	}
	return c.forgeShortGen(sender, c.LastDCID[sender], payload, advance)
}

func (c *ConnTap) forgeShortGen(sender Dir, dcid []byte, payload []byte, advance int) ([]byte, error) {
	gens := c.oneRTT[sender]
	g := len(gens) - 1
	key := gens[g]
	for i := 0; i < advance; i++ {
		key = key.Next()
		g++
	}
	c.forged[sender]++
	pn := uint64(c.largest[sender][2]+50) + c.forged[sender] // successive forged packets get successive numbers
	first := byte(0x40 | 0x03)                               // fixed bit, 4-byte packet number
	if g%2 == 1 {
		first |= 0x04
	}
	hdr := append([]byte{first}, dcid...)
	hdr = append(hdr, byte(pn>>24), byte(pn>>16), byte(pn>>8), byte(pn))
	for len(payload) < 4 {
		payload = append(payload, 0) // PADDING, so that a header protection sample exists
	}
	return key.ProtectPacket(hdr, 4, pn, payload), nil
}

// StatelessReset builds a stateless reset datagram for the given token (RFC 9000 §10.3).
func StatelessReset(token []byte, size int) []byte {
	if size < 5+16 {
		size = 5 + 16
	}
	b := make([]byte, size)
	rand.Read(b)
	b[0] = 0x40 | (b[0] & 0x3f)
	copy(b[size-16:], token)
	return b
}

// VersionNegotiation builds a Version Negotiation packet answering a client packet with the given IDs.
func VersionNegotiation(clientDCID, clientSCID []byte, versions []uint32) []byte {
	b := []byte{0x80 | 0x2a, 0, 0, 0, 0}
	b = append(b, byte(len(clientSCID)))
	b = append(b, clientSCID...)
	b = append(b, byte(len(clientDCID)))
	b = append(b, clientDCID...)
	for _, v := range versions {
		b = append(b, byte(v>>24), byte(v>>16), byte(v>>8), byte(v))
	}
	return b
}

// Retry builds a Retry packet from a server (scid) to a client (dcid = client's SCID) carrying
// token; the integrity tag is computed over odcid unless badTag is set, in which case one bit is flipped.
func Retry(version uint32, dcid, scid, token, odcid []byte, badTag bool) []byte {
	b := []byte{0xc0 | LongTypeBits(version, KindRetry)<<4 | 0x0f}
	b = append(b, byte(version>>24), byte(version>>16), byte(version>>8), byte(version))
	b = append(b, byte(len(dcid)))
	b = append(b, dcid...)
	b = append(b, byte(len(scid)))
	b = append(b, scid...)
	b = append(b, token...)
	tag := RetryTag(version, b, odcid)
	if badTag {
		tag[3] ^= 0x10
	}
	return append(b, tag...)
}

// InitialPacket builds an Initial packet protected with the public Initial keys derived from
// keyDCID, sent by `sender`, carrying the given frame bytes, padded to size (0: no padding).
func InitialPacket(version uint32, sender Dir, keyDCID, dcid, scid, token []byte, pn uint64, payload []byte, size int) []byte {
	cs, ss := InitialSecrets(version, keyDCID)
	sec := cs
	if sender == S2C {
		sec = ss
	}
	k, _ := NewKeys(version, SuiteAES128, sec)
	hdr := []byte{0xc0 | LongTypeBits(version, KindInitial)<<4 | 0x03}
	hdr = append(hdr, byte(version>>24), byte(version>>16), byte(version>>8), byte(version))
	hdr = append(hdr, byte(len(dcid)))
	hdr = append(hdr, dcid...)
	hdr = append(hdr, byte(len(scid)))
	hdr = append(hdr, scid...)
	hdr = AppendVarint(hdr, uint64(len(token)))
	hdr = append(hdr, token...)
	if size > 0 {
		// total = len(hdr) + 2 (length) + 4 (pn) + payload + 16
		need := size - (len(hdr) + 2 + 4 + 16)
		for len(payload) < need {
			payload = append(payload, 0)
		}
	}
	for len(payload) < 4 {
		payload = append(payload, 0)
	}
	hdr = AppendVarintLen(hdr, uint64(4+len(payload)+16), 2)
	hdr = append(hdr, byte(pn>>24), byte(pn>>16), byte(pn>>8), byte(pn))
	return k.ProtectPacket(hdr, 4, pn, payload)
}

// ConnectionCloseFrame encodes a transport CONNECTION_CLOSE frame.
func ConnectionCloseFrame(code uint64, reason string) []byte {
	b := []byte{FtConnClose}
	b = AppendVarint(b, code)
	b = AppendVarint(b, 0)
	b = AppendVarint(b, uint64(len(reason)))
	return append(b, reason...)
}

// CryptoFrame encodes a CRYPTO frame.
func CryptoFrame(off uint64, data []byte) []byte {
	b := []byte{FtCrypto}
	b = AppendVarint(b, off)
	b = AppendVarint(b, uint64(len(data)))
	return append(b, data...)
}

// NewConnectionIDFrame encodes a NEW_CONNECTION_ID frame.
func NewConnectionIDFrame(seq, retirePriorTo uint64, cid []byte, token [16]byte) []byte {
	b := []byte{0x18}
	b = AppendVarint(b, seq)
	b = AppendVarint(b, retirePriorTo)
	b = append(b, byte(len(cid)))
	b = append(b, cid...)
	return append(b, token[:]...)
}

// StreamFrame encodes a STREAM frame with offset and length fields.
func StreamFrame(id, off uint64, data []byte, fin bool) []byte {
	t := byte(0x08 | 0x04 | 0x02)
	if fin {
		t |= 1
	}
	b := []byte{t}
	b = AppendVarint(b, id)
	b = AppendVarint(b, off)
	b = AppendVarint(b, uint64(len(data)))
	return append(b, data...)
}

// AckFrame encodes an ACK frame (no ECN counts) for the given ranges (descending, disjoint, non-adjacent).
func AckFrame(ranges []AckRange, delay uint64) []byte {
	b := []byte{FtAck}
	b = AppendVarint(b, ranges[0].Largest)
	b = AppendVarint(b, delay)
	b = AppendVarint(b, uint64(len(ranges)-1))
	b = AppendVarint(b, ranges[0].Largest-ranges[0].Smallest)
	for i := 1; i < len(ranges); i++ {
		b = AppendVarint(b, ranges[i-1].Smallest-ranges[i].Largest-2)
		b = AppendVarint(b, ranges[i].Largest-ranges[i].Smallest)
	}
	return b
}

// EmittedPacketNumbers returns, for 1-RTT packets emitted by side d, the largest packet number seen and
// the packet numbers below it that never appeared on the wire (numbers the sender skipped).
func (c *ConnTap) EmittedPacketNumbers(d Dir) (largest int64, skipped []uint64) {
	c.w.mu.Lock()
	defer c.w.mu.Unlock()
	largest = -1
	for pn := range c.EmittedPN[d][2] {
		largest = max(largest, int64(pn))
	}
	for pn := uint64(0); int64(pn) < largest; pn++ {
		if c.EmittedPN[d][2][pn] == 0 {
			skipped = append(skipped, pn)
		}
	}
	return largest, skipped
}
