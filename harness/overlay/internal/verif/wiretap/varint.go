// Package wiretap is an independent passive QUIC observer: key derivation, packet
// (un)protection, packet-number decoding, frame / transport-parameter / TLS-hello decoders and
// a few encoders for attacker-crafted packets.  It is written from RFC 9000, 9001, 9221, 9369
// and shares no code with the repository under test (it does not import it).
package wiretap

import "errors"

var ErrShort = errors.New("wiretap: truncated")

// ReadVarint decodes a QUIC variable-length integer at b[0:]; it returns the value and its length.
func ReadVarint(b []byte) (uint64, int, error) {
	if len(b) == 0 {
		return 0, 0, ErrShort
	}
	n := 1 << (b[0] >> 6)
	if len(b) < n {
		return 0, 0, ErrShort
	}
	v := uint64(b[0] & 0x3f)
	for i := 1; i < n; i++ {
		v = v<<8 | uint64(b[i])
	}
	return v, n, nil
}

// AppendVarint appends the minimal encoding of v.
func AppendVarint(b []byte, v uint64) []byte {
	switch {
	case v < 1<<6:
		return append(b, byte(v))
	case v < 1<<14:
		return append(b, byte(v>>8)|0x40, byte(v))
	case v < 1<<30:
		return append(b, byte(v>>24)|0x80, byte(v>>16), byte(v>>8), byte(v))
	default:
		return append(b, byte(v>>56)|0xc0, byte(v>>48), byte(v>>40), byte(v>>32), byte(v>>24), byte(v>>16), byte(v>>8), byte(v))
	}
}

// AppendVarintLen appends v encoded in exactly n bytes (n in 1,2,4,8).
func AppendVarintLen(b []byte, v uint64, n int) []byte {
	switch n {
	case 1:
		return append(b, byte(v))
	case 2:
		return append(b, byte(v>>8)|0x40, byte(v))
	case 4:
		return append(b, byte(v>>24)|0x80, byte(v>>16), byte(v>>8), byte(v))
	default:
		return append(b, byte(v>>56)|0xc0, byte(v>>48), byte(v>>40), byte(v>>32), byte(v>>24), byte(v>>16), byte(v>>8), byte(v))
	}
}

// VarintLen is the length of the minimal encoding of v.
func VarintLen(v uint64) int {
	switch {
	case v < 1<<6:
		return 1
	case v < 1<<14:
		return 2
	case v < 1<<30:
		return 4
	default:
		return 8
	}
}

type reader struct {
	b   []byte
	pos int
	err error
}

func (r *reader) left() int { return len(r.b) - r.pos }
func (r *reader) varint() uint64 {
	if r.err != nil {
		return 0
	}
	v, n, err := ReadVarint(r.b[r.pos:])
	if err != nil {
		r.err = err
		return 0
	}
	r.pos += n
	return v
}
func (r *reader) byte() byte {
	if r.err != nil {
		return 0
	}
	if r.pos >= len(r.b) {
		r.err = ErrShort
		return 0
	}
	v := r.b[r.pos]
	r.pos++
	return v
}
func (r *reader) bytes(n uint64) []byte {
	if r.err != nil {
		return nil
	}
	if n > uint64(r.left()) {
		r.err = ErrShort
		return nil
	}
	v := r.b[r.pos : r.pos+int(n)]
	r.pos += int(n)
	return v
}
func (r *reader) u16() uint16 {
	b := r.bytes(2)
	if b == nil {
		return 0
	}
	return uint16(b[0])<<8 | uint16(b[1])
}
func (r *reader) u24() uint32 {
	b := r.bytes(3)
	if b == nil {
		return 0
	}
	return uint32(b[0])<<16 | uint32(b[1])<<8 | uint32(b[2])
}
func (r *reader) u32() uint32 {
	b := r.bytes(4)
	if b == nil {
		return 0
	}
	return uint32(b[0])<<24 | uint32(b[1])<<16 | uint32(b[2])<<8 | uint32(b[3])
}
