package wiretap

import (
	"bytes"
	"encoding/hex"
	"strings"
	"testing"
)

func hx(s string) []byte {
	b, err := hex.DecodeString(strings.ReplaceAll(s, " ", ""))
	if err != nil {
		panic(err)
	}
	return b
}

// RFC 9001 Appendix A and RFC 9369 Appendix A vectors.
func TestSelfRFCVectors(t *testing.T) {
	dcid := hx("8394c8f03e515708")
	eq := func(name string, got, want []byte) {
		t.Helper()
		if !bytes.Equal(got, want) {
			t.Errorf("%s: got %x want %x", name, got, want)
		}
	}
	for _, v := range []struct {
		version                            uint32
		cs, ck, civ, chp, ss, sk, siv, shp string
	}{
		{Version1, "c00cf151ca5be075ed0ebfb5c80323c42d6b7db67881289af4008f1f6c357aea", "1f369613dd76d5467730efcbe3b1a22d", "fa044b2f42a3fd3b46fb255c", "9f50449e04a0e810283a1e9933adedd2",
			"3c199828fd139efd216c155ad844cc81fb82fa8d7446fa7d78be803acdda951b", "cf3a5331653c364c88f0f379b6067e37", "0ac1493ca1905853b0bba03e", "c206b8d9b9f0f37644430b490eeaa314"},
		{Version2, "14ec9d6eb9fd7af83bf5a668bc17a7e283766aade7ecd0891f70f9ff7f4bf47b", "8b1a0bc121284290a29e0971b5cd045d", "91f73e2351d8fa91660e909f", "45b95e15235d6f45a6b19cbcb0294ba9",
			"0263db1782731bf4588e7e4d93b7463907cb8cd8200b5da55a8bd488eafc37c1", "82db637861d55e1d011f19ea71d5d2a7", "dd13c276499c0249d3310652", "edf6d05c83121201b436e16877593c3a"},
	} {
		cs, ss := InitialSecrets(v.version, dcid)
		eq("client secret", cs, hx(v.cs))
		eq("server secret", ss, hx(v.ss))
		ck, _ := NewKeys(v.version, SuiteAES128, cs)
		sk, _ := NewKeys(v.version, SuiteAES128, ss)
		eq("client key", ck.Key, hx(v.ck))
		eq("client iv", ck.IV, hx(v.civ))
		eq("client hp", ck.HP, hx(v.chp))
		eq("server key", sk.Key, hx(v.sk))
		eq("server iv", sk.IV, hx(v.siv))
		eq("server hp", sk.HP, hx(v.shp))
	}

	// A.3 server Initial, v1 and v2 (RFC 9369 A.3)
	payload := hx("02000000000600405a020000560303eefce7f7b37ba1d1632e96677825ddf73988cfc79825df566dc5430b9a045a1200130100002e00330024001d00209d3c940d89690b84d08a60993c144eca684d1081287c834d5311bcf32bb9da1a002b00020304")
	for _, v := range []struct {
		version  uint32
		hdr, pkt string
	}{
		{Version1, "c1000000010008f067a5502a4262b50040750001", "cf000000010008f067a5502a4262b5004075c0d95a482cd0991cd25b0aac406a5816b6394100f37a1c69797554780bb38cc5a99f5ede4cf73c3ec2493a1839b3dbcba3f6ea46c5b7684df3548e7ddeb9c3bf9c73cc3f3bded74b562bfb19fb84022f8ef4cdd93795d77d06edbb7aaf2f58891850abbdca3d20398c276456cbc42158407dd074ee"},
		{Version2, "d16b3343cf0008f067a5502a4262b50040750001", "dc6b3343cf0008f067a5502a4262b5004075d92faaf16f05d8a4398c47089698baeea26b91eb761d9b89237bbf87263017915358230035f7fd3945d88965cf17f9af6e16886c61bfc703106fbaf3cb4cfa52382dd16a393e42757507698075b2c984c707f0a0812d8cd5a6881eaf21ceda98f4bd23f6fe1a3e2c43edd9ce7ca84bed8521e2e140"},
	} {
		_, ss := InitialSecrets(v.version, dcid)
		sk, _ := NewKeys(v.version, SuiteAES128, ss)
		hdr := hx(v.hdr)
		got := sk.ProtectPacket(hdr, 2, 1, payload)
		eq("server initial packet", got, hx(v.pkt))
		pk, rest, err := SplitDatagram(got, nil)
		if err != nil || len(pk) != 1 || len(rest) != 0 || pk[0].Kind != KindInitial {
			t.Fatalf("split: %v %v", pk, err)
		}
		h2, pn, pnLen, pl, err := sk.Unprotect(pk[0].Data, pk[0].PNOffset, -1)
		if err != nil || pn != 1 || pnLen != 2 {
			t.Fatalf("unprotect: pn=%d len=%d err=%v", pn, pnLen, err)
		}
		eq("unprotected header", h2, hdr)
		eq("payload", pl, payload)
		fr, err := ParseFrames(pl)
		if err != nil || len(fr) != 2 || fr[0].Type != FtAck || fr[1].Type != FtCrypto {
			t.Fatalf("frames: %+v %v", fr, err)
		}
	}

	// A.2 client Initial v1: prefix and tag of the protected packet
	{
		cs, _ := InitialSecrets(Version1, dcid)
		ck, _ := NewKeys(Version1, SuiteAES128, cs)
		crypto := hx("060040f1010000ed0303ebf8fa56f12939b9584a3896472ec40bb863cfd3e86804fe3a47f06a2b69484c00000413011302010000c000000010000e00000b6578616d706c652e636f6dff01000100000a00080006001d0017001800100007000504616c706e000500050100000000003300260024001d00209370b2c9caa47fbabaf4559fedba753de171fa71f50f1ce15d43e994ec74d748002b0003020304000d0010000e0403050306030203080408050806002d00020101001c00024001003900320408ffffffffffffffff05048000ffff07048000ffff0801100104800075300901100f088394c8f03e51570806048000ffff")
		pl := make([]byte, 1162)
		copy(pl, crypto)
		pkt := ck.ProtectPacket(hx("c300000001088394c8f03e5157080000449e00000002"), 4, 2, pl)
		if len(pkt) != 1200 {
			t.Fatalf("client initial length %d", len(pkt))
		}
		eq("client initial prefix", pkt[:64], hx("c000000001088394c8f03e5157080000449e7b9aec34d1b1c98dd7689fb8ec11d242b123dc9bd8bab936b47d92ec356c0bab7df5976d27cd449f63300099f399"))
		eq("client initial tag", pkt[1184:], hx("e221af44860018ab0856972e194cd934"))
		ch, err := ParseClientHello(crypto[4:])
		if err != nil || len(ch.CipherSuites) != 2 || ParseSNI(func() []byte { d, _ := ch.Ext(ExtSNI); return d }()) != "example.com" {
			t.Fatalf("client hello: %+v %v", ch, err)
		}
		tp, _ := ch.Ext(ExtQUICTransportParams)
		l, err := ParseTransportParameters(tp)
		if err != nil || len(l) != 8 || NewTPSet(l).Int(TPInitialMaxStreamDataBL, 0) != 65535 || NewTPSet(l).Int(TPInitialMaxData, 0) != 1<<62-1 {
			t.Fatalf("transport parameters: %+v %v", l, err)
		}
	}

	// A.4 Retry
	{
		retry := hx("ff000000010008f067a5502a4262b5746f6b656e")
		eq("retry tag v1", RetryTag(Version1, retry, dcid), hx("04a265ba2eff4d829058fb3f0f2496ba"))
		retry2 := hx("cf6b3343cf0008f067a5502a4262b5746f6b656e")
		eq("retry tag v2", RetryTag(Version2, retry2, dcid), hx("c8646ce8bfe33952d955543665dcc7b6"))
	}

	// A.5 ChaCha20-Poly1305 short header packet
	{
		k, err := NewKeys(Version1, SuiteChaCha, hx("9ac312a7f877468ebe69422748ad00a15443f18203a07d6060f688f30f21632b"))
		if err != nil {
			t.Fatal(err)
		}
		eq("chacha key", k.Key, hx("c6d98ff3441c3fe1b2182094f69caa2ed4b716b65488960a7a984979fb23e1c8"))
		eq("chacha iv", k.IV, hx("e0459b3474bdd0e44a41c144"))
		eq("chacha hp", k.HP, hx("25a282b9e82f06f21f488917a4fc8f1b73573685608597d0efcb076b0ab7a7a4"))
		eq("chacha ku", k.Next().Secret, hx("1223504755036d556342ee9361d253421a826c9ecdf3c7148684b36b714881f9"))
		pkt := k.ProtectPacket(hx("4200bff4"), 3, 654360564, []byte{0x01})
		eq("chacha packet", pkt, hx("4cfe4189655e5cd55c41f69080575d7999c25a5bfb"))
		_, pn, pnLen, pl, err := k.Unprotect(pkt, 1, 654360563)
		if err != nil || pn != 654360564 || pnLen != 3 || !bytes.Equal(pl, []byte{1}) {
			t.Fatalf("chacha unprotect: %d %d %x %v", pn, pnLen, pl, err)
		}
	}

	// RFC 9000 A.3 packet number decoding example
	if got := DecodePN(0xa82f30ea, 0x9b32, 16); got != 0xa82f9b32 {
		t.Errorf("DecodePN: %x", got)
	}
}
