package wiretap

import (
	"crypto/aes"
	"crypto/cipher"
	"crypto/hmac"
	"crypto/sha256"
	"crypto/sha512"
	"encoding/binary"
	"errors"
	"hash"

	"golang.org/x/crypto/chacha20"
	"golang.org/x/crypto/chacha20poly1305"
)

const (
	Version1 uint32 = 0x00000001
	Version2 uint32 = 0x6b3343cf
)

// TLS 1.3 cipher suites
const (
	SuiteAES128 uint16 = 0x1301
	SuiteAES256 uint16 = 0x1302
	SuiteChaCha uint16 = 0x1303
)

var (
	saltV1 = []byte{0x38, 0x76, 0x2c, 0xf7, 0xf5, 0x59, 0x34, 0xb3, 0x4d, 0x17, 0x9a, 0xe6, 0xa4, 0xc8, 0x0c, 0xad, 0xcc, 0xbb, 0x7f, 0x0a}
	saltV2 = []byte{0x0d, 0xed, 0xe3, 0xde, 0xf7, 0x00, 0xa6, 0xdb, 0x81, 0x93, 0x81, 0xbe, 0x6e, 0x26, 0x9d, 0xcb, 0xf9, 0xbd, 0x2e, 0xd9}

	retryKeyV1   = []byte{0xbe, 0x0c, 0x69, 0x0b, 0x9f, 0x66, 0x57, 0x5a, 0x1d, 0x76, 0x6b, 0x54, 0xe3, 0x68, 0xc8, 0x4e}
	retryNonceV1 = []byte{0x46, 0x15, 0x99, 0xd3, 0x5d, 0x63, 0x2b, 0xf2, 0x23, 0x98, 0x25, 0xbb}
	retryKeyV2   = []byte{0x8f, 0xb4, 0xb0, 0x1b, 0x56, 0xac, 0x48, 0xe2, 0x60, 0xfb, 0xcb, 0xce, 0xad, 0x7c, 0xcc, 0x92}
	retryNonceV2 = []byte{0xd8, 0x69, 0x69, 0xbc, 0x2d, 0x7c, 0x6d, 0x99, 0x90, 0xef, 0xb0, 0x4a}
)

func suiteHash(suite uint16) func() hash.Hash {
	if suite == SuiteAES256 {
		return sha512.New384
	}
	return sha256.New
}

func hkdfExtract(h func() hash.Hash, secret, salt []byte) []byte {
	m := hmac.New(h, salt)
	m.Write(secret)
	return m.Sum(nil)
}

func hkdfExpand(h func() hash.Hash, prk, info []byte, n int) []byte {
	var out, t []byte
	for i := byte(1); len(out) < n; i++ {
		m := hmac.New(h, prk)
		m.Write(t)
		m.Write(info)
		m.Write([]byte{i})
		t = m.Sum(nil)
		out = append(out, t...)
	}
	return out[:n]
}

// HKDFExpandLabel is TLS 1.3 HKDF-Expand-Label with an empty context.
func HKDFExpandLabel(h func() hash.Hash, secret []byte, label string, n int) []byte {
	full := "tls13 " + label
	info := []byte{byte(n >> 8), byte(n), byte(len(full))}
	info = append(info, full...)
	info = append(info, 0)
	return hkdfExpand(h, secret, info, n)
}

// InitialSecrets returns the client and server Initial secrets for the given version and client DCID.
func InitialSecrets(version uint32, dcid []byte) (client, server []byte) {
	salt := saltV1
	if version == Version2 {
		salt = saltV2
	}
	initial := hkdfExtract(sha256.New, dcid, salt)
	return HKDFExpandLabel(sha256.New, initial, "client in", 32), HKDFExpandLabel(sha256.New, initial, "server in", 32)
}

// Keys is one direction's packet protection at one encryption level / key phase.
type Keys struct {
	Suite   uint16
	Version uint32
	Secret  []byte
	Key     []byte
	IV      []byte
	HP      []byte
	aead    cipher.AEAD
	hpBlock cipher.Block
}

func labels(version uint32) (key, iv, hp, ku string) {
	if version == Version2 {
		return "quicv2 key", "quicv2 iv", "quicv2 hp", "quicv2 ku"
	}
	return "quic key", "quic iv", "quic hp", "quic ku"
}

// NewKeys derives key, IV and header-protection key from a traffic secret.
func NewKeys(version uint32, suite uint16, secret []byte) (*Keys, error) {
	h := suiteHash(suite)
	kl, il, hl, _ := labels(version)
	keyLen := 16
	if suite == SuiteAES256 || suite == SuiteChaCha {
		keyLen = 32
	}
	k := &Keys{Suite: suite, Version: version, Secret: secret}
	k.Key = HKDFExpandLabel(h, secret, kl, keyLen)
	k.IV = HKDFExpandLabel(h, secret, il, 12)
	k.HP = HKDFExpandLabel(h, secret, hl, keyLen)
	if err := k.init(); err != nil {
		return nil, err
	}
	return k, nil
}

func (k *Keys) init() error {
	switch k.Suite {
	case SuiteAES128, SuiteAES256:
		b, err := aes.NewCipher(k.Key)
		if err != nil {
			return err
		}
		k.aead, err = cipher.NewGCM(b)
		if err != nil {
			return err
		}
		k.hpBlock, err = aes.NewCipher(k.HP)
		return err
	case SuiteChaCha:
		var err error
		k.aead, err = chacha20poly1305.New(k.Key)
		return err
	}
	return errors.New("wiretap: unknown cipher suite")
}

// Next returns the keys of the next key phase (header protection key is unchanged).
func (k *Keys) Next() *Keys {
	_, _, _, ku := labels(k.Version)
	h := suiteHash(k.Suite)
	sec := HKDFExpandLabel(h, k.Secret, ku, len(k.Secret))
	n, err := NewKeys(k.Version, k.Suite, sec)
	if err != nil {
		panic(err)
	}
	n.HP = k.HP
	n.hpBlock = k.hpBlock
	return n
}

// Mask computes the 5-byte header protection mask from a 16-byte sample.
func (k *Keys) Mask(sample []byte) [5]byte {
	var m [5]byte
	if k.Suite == SuiteChaCha {
		c, err := chacha20.NewUnauthenticatedCipher(k.HP, sample[4:16])
		if err != nil {
			panic(err)
		}
		c.SetCounter(binary.LittleEndian.Uint32(sample[:4]))
		var z [5]byte
		c.XORKeyStream(m[:], z[:])
		return m
	}
	var out [16]byte
	k.hpBlock.Encrypt(out[:], sample[:16])
	copy(m[:], out[:5])
	return m
}

func (k *Keys) nonce(pn uint64) []byte {
	n := make([]byte, 12)
	copy(n, k.IV)
	for i := 0; i < 8; i++ {
		n[11-i] ^= byte(pn >> (8 * i))
	}
	return n
}

// Open authenticates and decrypts ciphertext (payload||tag) with the unprotected header as AAD.
func (k *Keys) Open(pn uint64, hdr, ciphertext []byte) ([]byte, error) {
	return k.aead.Open(nil, k.nonce(pn), ciphertext, hdr)
}

// Seal encrypts payload with the unprotected header as AAD and returns payload||tag.
func (k *Keys) Seal(pn uint64, hdr, payload []byte) []byte {
	return k.aead.Seal(nil, k.nonce(pn), payload, hdr)
}

// ProtectPacket seals payload under hdr (whose last pnLen bytes are the truncated packet number)
// and applies header protection.  It returns the complete packet.
func (k *Keys) ProtectPacket(hdr []byte, pnLen int, pn uint64, payload []byte) []byte {
	out := append([]byte(nil), hdr...)
	out = append(out, k.Seal(pn, hdr, payload)...)
	pnOff := len(hdr) - pnLen
	mask := k.Mask(out[pnOff+4 : pnOff+20])
	if out[0]&0x80 != 0 {
		out[0] ^= mask[0] & 0x0f
	} else {
		out[0] ^= mask[0] & 0x1f
	}
	for i := 0; i < pnLen; i++ {
		out[pnOff+i] ^= mask[1+i]
	}
	return out
}

// DecodePN expands a truncated packet number (RFC 9000 A.3).
func DecodePN(largest int64, truncated uint64, nbits uint) uint64 {
	expected := uint64(largest + 1)
	win := uint64(1) << nbits
	hwin := win / 2
	mask := win - 1
	cand := (expected &^ mask) | truncated
	if cand+hwin <= expected && cand < (1<<62)-win {
		return cand + win
	}
	if cand > expected+hwin && cand >= win {
		return cand - win
	}
	return cand
}

// Unprotect removes header protection and opens the packet pkt whose packet number starts at
// pnOff.  largest is the largest packet number seen so far in the space (-1: none).
// It returns the unprotected header, the packet number, its encoded length and the payload.
func (k *Keys) Unprotect(pkt []byte, pnOff int, largest int64) (hdr []byte, pn uint64, pnLen int, payload []byte, err error) {
	if len(pkt) < pnOff+4+16 {
		return nil, 0, 0, nil, ErrShort
	}
	mask := k.Mask(pkt[pnOff+4 : pnOff+20])
	first := pkt[0]
	if first&0x80 != 0 {
		first ^= mask[0] & 0x0f
	} else {
		first ^= mask[0] & 0x1f
	}
	pnLen = int(first&3) + 1
	hdr = append([]byte(nil), pkt[:pnOff+pnLen]...)
	hdr[0] = first
	var trunc uint64
	for i := 0; i < pnLen; i++ {
		hdr[pnOff+i] ^= mask[1+i]
		trunc = trunc<<8 | uint64(hdr[pnOff+i])
	}
	pn = DecodePN(largest, trunc, uint(8*pnLen))
	payload, err = k.Open(pn, hdr, pkt[pnOff+pnLen:])
	return hdr, pn, pnLen, payload, err
}

// RetryTag computes the Retry integrity tag for a Retry packet (without tag) and the original DCID.
func RetryTag(version uint32, retryWithoutTag, odcid []byte) []byte {
	key, nonce := retryKeyV1, retryNonceV1
	if version == Version2 {
		key, nonce = retryKeyV2, retryNonceV2
	}
	b, _ := aes.NewCipher(key)
	g, _ := cipher.NewGCM(b)
	pseudo := append([]byte{byte(len(odcid))}, odcid...)
	pseudo = append(pseudo, retryWithoutTag...)
	return g.Seal(nil, nonce, nil, pseudo)
}
