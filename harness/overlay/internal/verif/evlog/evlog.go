// Package evlog is the case log / result record / evidence counter library shared by all
// runtime monitors.  It imports nothing from the repository, so that it can be used from
// in-package tests of every package.
//
// Protocol (JSON lines written to $VERIF_OUT, each line flushed):
//
//	{"t":"begin","case":ID,"in":{...}}      before the case runs (crash attribution)
//	{"t":"viol","case":ID,"sig":S,"detail":D,"trace":{...}}
//	{"t":"inconcl","case":ID,"reason":R}
//	{"t":"sample","case":ID,"v":{...}}
//	{"t":"end","case":ID,"evals":N}
//	{"t":"summary","evals":N,"fps":[...],"counters":{...}}   once, at Close
//	{"t":"done"}                             last line of a shard that ran to completion
package evlog

import (
	"bufio"
	"encoding/json"
	"fmt"
	"hash/fnv"
	"math/rand/v2"
	"os"
	"regexp"
	"runtime"
	"sort"
	"strconv"
	"strings"
	"sync"
	"time"
)

const maxFingerprints = 400000

type Log struct {
	Prop string

	mu       sync.Mutex
	f        *os.File
	w        *bufio.Writer
	fps      map[uint64]struct{}
	fpSat    bool
	counters map[string]int64
	evals    int64
	samples  map[string]int
	viols    int

	tier        string
	seed        int64
	shardI      int
	shardN      int
	only        string
	resumeAfter string
	resumed     bool
	cur         string // the case that is open (for lockWatch)
}

// Open creates the log for one shard of one property from the environment:
// VERIF_OUT, VERIF_TIER, VERIF_SEED, VERIF_SHARD=i/n, VERIF_ONLY, VERIF_RESUME_AFTER.
func Open(prop string) *Log {
	l := &Log{Prop: prop, fps: map[uint64]struct{}{}, counters: map[string]int64{}, samples: map[string]int{}, shardN: 1}
	l.tier = os.Getenv("VERIF_TIER")
	if l.tier == "" {
		l.tier = "quick"
	}
	if s := os.Getenv("VERIF_SEED"); s != "" {
		if v, err := strconv.ParseInt(s, 10, 64); err == nil {
			l.seed = v
		}
	}
	if s := os.Getenv("VERIF_SHARD"); s != "" {
		if a, b, ok := strings.Cut(s, "/"); ok {
			l.shardI, _ = strconv.Atoi(a)
			l.shardN, _ = strconv.Atoi(b)
			if l.shardN < 1 {
				l.shardN = 1
			}
		}
	}
	l.only = os.Getenv("VERIF_ONLY")
	l.resumeAfter = os.Getenv("VERIF_RESUME_AFTER")
	l.resumed = l.resumeAfter == ""
	out := os.Getenv("VERIF_OUT")
	if out == "" {
		out = os.DevNull
	}
	f, err := os.OpenFile(out, os.O_CREATE|os.O_WRONLY|os.O_APPEND, 0o644)
	if err != nil {
		panic(err)
	}
	l.f = f
	l.w = bufio.NewWriterSize(f, 1<<16)
	go l.lockWatch()
	return l
}

// lockWatch runs outside every synctest bubble.  Inside a bubble a goroutine that waits for a sync.Mutex
// is not durably blocked: if the lock is never released (a lock-order deadlock in the code under test)
// virtual time stops and the whole bubble hangs until the runner's wall-clock watchdog.  Mutexes in the
// code under test are held for microseconds; a goroutine of a bubble that the runtime reports as waiting
// for a lock for minutes of real time is therefore reported as a violation of the case that is open, with
// its stack, and the process is left (the runner resumes behind that case).
func (l *Log) lockWatch() {
	re := regexp.MustCompile(`(?m)^goroutine \d+ \[(sync\.(RW)?Mutex\.R?Lock), (\d+) minutes, synctest bubble \d+\]:$`)
	for {
		time.Sleep(10 * time.Second)
		buf := make([]byte, 4<<20)
		buf = buf[:runtime.Stack(buf, true)]
		var stuck []string
		for _, g := range strings.Split(string(buf), "\n\n") {
			if m := re.FindStringSubmatch(g); m != nil {
				if n, _ := strconv.Atoi(m[3]); n >= 2 {
					stuck = append(stuck, g)
				}
			}
		}
		if len(stuck) == 0 {
			continue
		}
		// the first function of the code under test on the stack of the first waiter names the signature
		fn := "unknown"
		for _, line := range strings.Split(stuck[0], "\n") {
			if strings.HasPrefix(line, "github.com/refraction-networking/uquic") && !strings.Contains(line, "/internal/verif") {
				fn = line
				if i := strings.LastIndex(fn, "("); i > 0 {
					fn = fn[:i]
				}
				fn = strings.TrimPrefix(fn, "github.com/refraction-networking/")
				break
			}
		}
		l.mu.Lock()
		id := l.cur
		l.viols++
		l.line(map[string]any{"t": "viol", "case": id, "sig": l.Prop + "|deadlock|goroutine-waits-for-a-lock-for-minutes|" + fn,
			"detail": fmt.Sprintf("%d goroutine(s) of the case's bubble have been waiting for a mutex for two minutes of real time or more (everything else in the bubble is blocked): a lock that is never released", len(stuck)),
			"trace":  map[string]any{"waiters": stuck}})
		l.mu.Unlock()
		os.Exit(3)
	}
}

func (l *Log) Tier() string      { return l.tier }
func (l *Log) Quick() bool       { return l.tier != "thorough" }
func (l *Log) Thorough() bool    { return l.tier == "thorough" }
func (l *Log) Seed() int64       { return l.seed }
func (l *Log) Shard() (int, int) { return l.shardI, l.shardN }

// Pick returns q in the quick tier and t in the thorough tier.
func (l *Log) Pick(q, t int) int {
	if l.Thorough() {
		return t
	}
	return q
}

// Mine reports whether case index idx belongs to this shard.
func (l *Log) Mine(idx int) bool { return idx%l.shardN == l.shardI }

// Rand returns a PRNG that is a pure function of (VERIF_SEED, key).
func (l *Log) Rand(key string) *rand.Rand {
	h := fnv.New64a()
	h.Write([]byte(key))
	return rand.New(rand.NewPCG(uint64(l.seed)*0x9E3779B97F4A7C15+1, h.Sum64()))
}

func (l *Log) line(m map[string]any) {
	b, err := json.Marshal(m)
	if err != nil {
		b, _ = json.Marshal(map[string]any{"t": "logerr", "err": err.Error()})
	}
	l.w.Write(b)
	l.w.WriteByte('\n')
	l.w.Flush()
}

// Case is one logged unit of work: a single scenario or a batch of generated histories.
type Case struct {
	l     *Log
	ID    string
	evals int64
	ended bool
}

// Begin logs the start of a case and returns it, or nil if the case is to be skipped
// (replay of a single case, or resuming after a crashed case).
func (l *Log) Begin(id string, inputs any) *Case {
	l.mu.Lock()
	defer l.mu.Unlock()
	if l.only != "" && l.only != id {
		return nil
	}
	if !l.resumed {
		if id == l.resumeAfter {
			l.resumed = true
		}
		return nil
	}
	l.line(map[string]any{"t": "begin", "case": id, "in": inputs})
	l.cur = id
	return &Case{l: l, ID: id}
}

// Eval counts one oracle evaluation.  fp is the behaviour fingerprint of the evaluated
// execution; an empty fingerprint marks a trivial execution (the mechanism under test was
// not exercised), which is counted as an evaluation but not as non-trivial.
func (c *Case) Eval(fp string) {
	l := c.l
	l.mu.Lock()
	c.evals++
	l.evals++
	if fp != "" {
		if len(l.fps) < maxFingerprints {
			h := fnv.New64a()
			h.Write([]byte(fp))
			l.fps[h.Sum64()] = struct{}{}
		} else {
			l.fpSat = true
		}
	}
	l.mu.Unlock()
}

// Violation records a refutation of the property.  sig must not contain per-run randomness.
func (c *Case) Violation(sig, detail string, trace any) {
	l := c.l
	l.mu.Lock()
	l.viols++
	n := l.viols
	l.mu.Unlock()
	if n > 200 {
		// keep counting, but do not flood the log
		l.Count("violations_not_logged", 1)
		return
	}
	l.mu.Lock()
	l.line(map[string]any{"t": "viol", "case": c.ID, "sig": sig, "detail": detail, "trace": trace})
	l.mu.Unlock()
}

// Violationf is Violation with a formatted detail and no trace.
func (c *Case) Violationf(sig, format string, a ...any) {
	c.Violation(sig, fmt.Sprintf(format, a...), nil)
}

func (c *Case) Inconclusive(reason string) {
	l := c.l
	l.mu.Lock()
	l.line(map[string]any{"t": "inconcl", "case": c.ID, "reason": reason})
	l.mu.Unlock()
}

// Sample records a concrete case for the evidence file; at most 3 per class are kept.
func (c *Case) Sample(class string, v any) {
	l := c.l
	l.mu.Lock()
	defer l.mu.Unlock()
	if l.samples[class] >= 3 {
		return
	}
	l.samples[class]++
	l.line(map[string]any{"t": "sample", "case": c.ID, "class": class, "v": v})
}

func (c *Case) Count(k string, n int64) { c.l.Count(k, n) }

func (c *Case) End() {
	if c.ended {
		return
	}
	c.ended = true
	l := c.l
	l.mu.Lock()
	l.line(map[string]any{"t": "end", "case": c.ID, "evals": c.evals})
	l.mu.Unlock()
}

// Count adds n to an evidence counter.
func (l *Log) Count(k string, n int64) {
	l.mu.Lock()
	l.counters[k] += n
	l.mu.Unlock()
}

// Max raises an evidence gauge to n if n is larger.
func (l *Log) Max(k string, n int64) {
	l.mu.Lock()
	if n > l.counters[k] {
		l.counters[k] = n
	}
	l.mu.Unlock()
}

// Close writes the shard summary and the completion marker.
func (l *Log) Close() {
	l.mu.Lock()
	defer l.mu.Unlock()
	fps := make([]uint64, 0, len(l.fps))
	for h := range l.fps {
		fps = append(fps, h)
	}
	sort.Slice(fps, func(i, j int) bool { return fps[i] < fps[j] })
	strs := make([]string, len(fps))
	for i, h := range fps {
		strs[i] = strconv.FormatUint(h, 36)
	}
	l.line(map[string]any{"t": "summary", "evals": l.evals, "fps": strs, "fp_saturated": l.fpSat, "counters": l.counters, "viols": l.viols})
	l.line(map[string]any{"t": "done"})
	l.w.Flush()
	l.f.Close()
}
