package specgen

import (
	"bytes"
	"fmt"
	"math/rand/v2"
	"sort"

	quic "github.com/refraction-networking/uquic"
	"github.com/refraction-networking/uquic/internal/verif/wiretap"
	tls "github.com/refraction-networking/utls"
)

// Param is a serialisable description of one transport parameter of a generated list.
//
//	K: idle udp data sdbl sdbr sdu sbidi suni ackdelay dam acil dgram greasebit  (V = value)
//	   iscid (N = 0: filled in by the connection, N > 0: that many explicit bytes)
//	   vi (V = 1: legacy ID)   pad (N bytes)   fake (ID, N value bytes)
//	   grease (ID = explicit GREASE ID or 0 = drawn, N value bytes)   vgrease (N = upper bound of the length)
type Param struct {
	K  string `json:"k"`
	ID uint64 `json:"id,omitempty"`
	V  uint64 `json:"v,omitempty"`
	N  int    `json:"n,omitempty"`
}

func fill(n int, salt byte) []byte {
	b := make([]byte, n)
	for i := range b {
		b[i] = byte(i)*31 + salt
	}
	return b
}

// Build makes the uTLS transport parameter.
func (p Param) Build() tls.TransportParameter {
	switch p.K {
	case "idle":
		return tls.MaxIdleTimeout(p.V)
	case "udp":
		return tls.MaxUDPPayloadSize(p.V)
	case "data":
		return tls.InitialMaxData(p.V)
	case "sdbl":
		return tls.InitialMaxStreamDataBidiLocal(p.V)
	case "sdbr":
		return tls.InitialMaxStreamDataBidiRemote(p.V)
	case "sdu":
		return tls.InitialMaxStreamDataUni(p.V)
	case "sbidi":
		return tls.InitialMaxStreamsBidi(p.V)
	case "suni":
		return tls.InitialMaxStreamsUni(p.V)
	case "ackdelay":
		return tls.MaxAckDelay(p.V)
	case "dam":
		return &tls.DisableActiveMigration{}
	case "acil":
		return tls.ActiveConnectionIDLimit(p.V)
	case "dgram":
		return tls.MaxDatagramFrameSize(p.V)
	case "greasebit":
		return &tls.GREASEQUICBit{}
	case "iscid":
		return tls.InitialSourceConnectionID(fill(p.N, 0x51))
	case "vi":
		return &tls.VersionInformation{ChoosenVersion: tls.VERSION_1, AvailableVersions: []uint32{tls.VERSION_GREASE, tls.VERSION_1}, LegacyID: p.V == 1}
	case "pad":
		return tls.PaddingTransportParameter(make([]byte, p.N))
	case "fake":
		return &tls.FakeQUICTransportParameter{Id: p.ID, Val: fill(p.N, 0x17)}
	case "grease":
		return &tls.GREASETransportParameter{IdOverride: p.ID, Length: uint16(p.N)}
	case "vgrease":
		return quic.VariableLengthGREASEQTP(p.N)
	}
	panic("specgen: unknown parameter kind " + p.K)
}

// BuildList builds a fresh uTLS list.
func BuildList(l []Param) tls.TransportParameters {
	out := make(tls.TransportParameters, 0, len(l))
	for _, p := range l {
		out = append(out, p.Build())
	}
	return out
}

// IsGrease is the observer's own definition of a reserved transport parameter ID (RFC 9000 §18.1).
func IsGrease(id uint64) bool { return id >= 27 && (id-27)%31 == 0 }

// Canonical folds GREASE IDs to 27 and sorts, the way QUIC fingerprinters do; duplicates stay.
func Canonical(ids []uint64) []uint64 {
	out := make([]uint64, 0, len(ids))
	for _, id := range ids {
		if IsGrease(id) {
			id = 27
		}
		out = append(out, id)
	}
	sort.Slice(out, func(i, j int) bool { return out[i] < out[j] })
	return out
}

// SuppressModel is the list model of suppression: remove every parameter whose ID is listed, and
// every GREASE ID if 27 is listed; keep the order of the rest.  It returns the kept indices.
func SuppressModel(ids []uint64, suppress []uint64) []int {
	drop := map[uint64]bool{}
	for _, s := range suppress {
		drop[s] = true
	}
	var kept []int
	for i, id := range ids {
		if drop[id] || (drop[27] && IsGrease(id)) {
			continue
		}
		kept = append(kept, i)
	}
	return kept
}

var stdKinds = []string{"idle", "udp", "data", "sdbl", "sdbr", "sdu", "sbidi", "suni", "ackdelay", "dam", "acil", "dgram", "greasebit", "iscid", "vi", "pad"}

// StdID is the ID of a standard kind.
var StdID = map[string]uint64{"idle": 1, "udp": 3, "data": 4, "sdbl": 5, "sdbr": 6, "sdu": 7, "sbidi": 8, "suni": 9, "ackdelay": 0xb, "dam": 0xc, "acil": 0xe,
	"iscid": 0xf, "dgram": 0x20, "greasebit": 0x2ab2, "pad": 0x15}

var fakeIDs = []uint64{0x1b, 58, 89, 27 + 31*1000, 0x0c, 0x0f, 0x10, 0x3127, 0x3128, 0x4752, 0xff73db, 0x3fff, 0x4000, 1 << 30, 1<<40 + 5, 1<<62 - 1}
var greaseIDs = []uint64{0, 0, 0, 27, 58, 27 + 31*77, 27 + 31*((1<<62-1-27)/31)}

// GenList draws a parameter list: standard parameters with boundary values, fake parameters (also with
// GREASE-shaped and huge IDs), GREASE parameters with drawn or explicit IDs and random lengths, duplicates.
func GenList(rng *rand.Rand, maxLen int) []Param {
	n := rng.IntN(maxLen + 1)
	vals := []uint64{0, 1, 63, 64, 16383, 16384, 1<<30 - 1, 1 << 30, 1<<62 - 1, 30000, 1472, 6291456}
	var out []Param
	hasISCID := false
	for len(out) < n {
		switch x := rng.IntN(10); {
		case x < 5:
			k := stdKinds[rng.IntN(len(stdKinds))]
			p := Param{K: k, V: vals[rng.IntN(len(vals))]}
			switch k {
			case "iscid":
				p.V, p.N = 0, []int{0, 0, 4, 20}[rng.IntN(4)]
				if hasISCID {
					continue // at most one: what an empty one is filled with is only defined for a single one
				}
				hasISCID = true
			case "vi":
				p.V = uint64(rng.IntN(2))
			case "pad":
				p.V, p.N = 0, rng.IntN(40)
			case "dam", "greasebit":
				p.V = 0
			}
			out = append(out, p)
		case x < 7:
			out = append(out, Param{K: "fake", ID: fakeIDs[rng.IntN(len(fakeIDs))], N: rng.IntN(20)})
		case x < 9:
			out = append(out, Param{K: "grease", ID: greaseIDs[rng.IntN(len(greaseIDs))], N: rng.IntN(17)})
		default:
			if d := rng.IntN(max(len(out), 1)); len(out) > 0 && rng.IntN(2) == 0 && out[d].K != "iscid" {
				out = append(out, out[d]) // a duplicate
			} else {
				out = append(out, Param{K: "vgrease", N: 1 + rng.IntN(16)})
			}
		}
	}
	return out
}

// GenSuppress draws a suppression set for a list: IDs that occur, IDs that do not, the canonical GREASE
// ID, explicit GREASE IDs that occur (they match exactly, not as a class).
func GenSuppress(rng *rand.Rand, l []Param) []uint64 {
	if rng.IntN(5) == 0 {
		return nil
	}
	var out []uint64
	for _, p := range l {
		id, ok := StdID[p.K]
		switch {
		case p.K == "vi":
			id, ok = 0x11, true
			if p.V == 1 {
				id = 0xff73db
			}
		case p.K == "fake" || (p.K == "grease" && p.ID != 0):
			id, ok = p.ID, true
		}
		if ok && rng.IntN(3) == 0 {
			out = append(out, id)
		}
	}
	if rng.IntN(3) == 0 {
		out = append(out, 27)
	}
	if rng.IntN(4) == 0 {
		out = append(out, []uint64{0x99, 58, 0, 1<<62 - 1, 26, 28}[rng.IntN(6)])
	}
	if rng.IntN(6) == 0 && len(out) > 0 {
		out = append(out, out[0]) // listed twice
	}
	return out
}

// WireHello is the ClientHello an observer reassembles from a captured first flight.
type WireHello struct {
	Raw        []byte
	CH         *wiretap.ClientHello
	TP         []wiretap.TransportParameter // nil if the extension is missing
	TPErr      error
	SCID       []byte
	DCID       []byte
	Datagrams  int
	FrameTypes map[uint64]bool
	Flight     []*Dgram
}

// ReadHello decodes the client datagrams of one dial until the ClientHello is complete.
func ReadHello(dgrams [][]byte) (*WireHello, error) {
	var re Reasm
	w := &WireHello{FrameTypes: map[uint64]bool{}}
	prev := int64(-1)
	for i, raw := range dgrams {
		d := Decode(raw, nil, -1, prev)
		if len(d.Pkts) == 0 || !d.Pkts[0].Opened {
			return nil, fmt.Errorf("datagram %d cannot be opened: %s %v", i, d.SplitErr, d.Pkts)
		}
		p := &d.Pkts[0]
		if w.DCID == nil {
			w.DCID, w.SCID = p.DCID, p.SCID
		} else if !bytes.Equal(w.DCID, p.DCID) {
			break
		}
		prev = max(prev, int64(p.PN))
		w.Datagrams++
		w.Flight = append(w.Flight, d)
		for _, f := range p.Frames {
			w.FrameTypes[f.Type] = true
			if f.Type == wiretap.FtCrypto {
				re.Add(f.Offset, f.Data)
			}
		}
		if ch := re.ClientHello(); ch != nil {
			w.Raw = append([]byte(nil), ch...)
			break
		}
	}
	if w.Raw == nil {
		return nil, fmt.Errorf("no complete ClientHello in %d datagrams (contiguous CRYPTO prefix %d bytes)", len(dgrams), len(re.Prefix()))
	}
	ch, err := wiretap.ParseClientHello(w.Raw)
	if err != nil {
		return nil, fmt.Errorf("ClientHello does not parse: %w", err)
	}
	w.CH = ch
	if d, ok := ch.Ext(wiretap.ExtQUICTransportParams); ok {
		w.TP, w.TPErr = wiretap.ParseTransportParameters(d)
		if w.TP == nil {
			w.TP = []wiretap.TransportParameter{}
		}
	}
	return w, nil
}
