package specgen

import (
	"context"
	"fmt"
	"sync"

	quic "github.com/refraction-networking/uquic"
	tls "github.com/refraction-networking/utls"
)

// DefaultQTP is a transport parameter list the in-tree server accepts.
func DefaultQTP() tls.TransportParameters {
	return tls.TransportParameters{
		tls.MaxIdleTimeout(30000),
		tls.MaxUDPPayloadSize(1472),
		tls.InitialMaxData(1 << 20),
		tls.InitialMaxStreamDataBidiLocal(1 << 18),
		tls.InitialMaxStreamDataBidiRemote(1 << 18),
		tls.InitialMaxStreamDataUni(1 << 18),
		tls.InitialMaxStreamsBidi(16),
		tls.InitialMaxStreamsUni(16),
		tls.InitialSourceConnectionID([]byte{}),
	}
}

// HelloKinds are the ClientHello size classes of HelloSpec, smallest first.
var HelloKinds = []string{"small", "pad512", "mid", "big1", "pq", "huge"}

// HelloSpec builds a fresh ClientHelloSpec of the given size class around the transport
// parameter list qtp.  Every call returns new extension objects.
//
//	small   X25519 key share, few extensions (about 300 bytes)
//	pad512  small + an unknown 100-byte extension + BoringSSL padding rule (512 bytes)
//	mid     small + an unknown 500-byte extension
//	big1    small + an unknown extension that fills most of one datagram
//	pq      X25519MLKEM768 + X25519 key shares (two datagrams)
//	huge    pq + an unknown 1500-byte extension (three datagrams)
func HelloSpec(kind string, qtp tls.TransportParameters) *tls.ClientHelloSpec {
	shares := []tls.KeyShare{{Group: tls.X25519}}
	curves := []tls.CurveID{tls.CurveX25519, tls.CurveSECP256R1, tls.CurveSECP384R1}
	if kind == "pq" || kind == "huge" {
		shares = []tls.KeyShare{{Group: tls.X25519MLKEM768}, {Group: tls.X25519}}
		curves = append([]tls.CurveID{tls.X25519MLKEM768}, curves...)
	}
	exts := []tls.TLSExtension{
		&tls.SNIExtension{},
		&tls.SupportedCurvesExtension{Curves: curves},
		&tls.ALPNExtension{AlpnProtocols: []string{"h3"}},
		&tls.SignatureAlgorithmsExtension{SupportedSignatureAlgorithms: []tls.SignatureScheme{
			tls.ECDSAWithP256AndSHA256, tls.PSSWithSHA256, tls.PKCS1WithSHA256, tls.ECDSAWithP384AndSHA384, tls.PSSWithSHA384, tls.PKCS1WithSHA384,
		}},
		&tls.KeyShareExtension{KeyShares: shares},
		&tls.PSKKeyExchangeModesExtension{Modes: []uint8{tls.PskModeDHE}},
		&tls.SupportedVersionsExtension{Versions: []uint16{tls.VersionTLS13}},
		&tls.QUICTransportParametersExtension{TransportParameters: qtp},
	}
	filler := func(n int) tls.TLSExtension {
		d := make([]byte, n)
		for i := range d {
			d[i] = byte(i*7 + 3)
		}
		return &tls.GenericExtension{Id: 0xfa01, Data: d}
	}
	switch kind {
	case "pad512":
		exts = append(exts, filler(100), &tls.UtlsPaddingExtension{GetPaddingLen: tls.BoringPaddingStyle})
	case "mid":
		exts = append(exts, filler(500))
	case "big1":
		exts = append(exts, filler(850))
	case "huge":
		exts = append(exts, filler(1500))
	}
	return &tls.ClientHelloSpec{
		TLSVersMin:         tls.VersionTLS13,
		TLSVersMax:         tls.VersionTLS13,
		CipherSuites:       []uint16{tls.TLS_AES_128_GCM_SHA256, tls.TLS_AES_256_GCM_SHA384, tls.TLS_CHACHA20_POLY1305_SHA256},
		CompressionMethods: []uint8{0},
		Extensions:         exts,
	}
}

// QTPExt returns the QUICTransportParametersExtension of a ClientHelloSpec (nil if none).
func QTPExt(chs *tls.ClientHelloSpec) *tls.QUICTransportParametersExtension {
	if chs == nil {
		return nil
	}
	for _, e := range chs.Extensions {
		if q, ok := e.(*tls.QUICTransportParametersExtension); ok {
			return q
		}
	}
	return nil
}

// TokenStore is an explicit quic.TokenStore that hands out a fixed token (nil: none) and
// records how it was used.
type TokenStore struct {
	mu   sync.Mutex
	Tok  []byte
	Pops []string
	Puts int
}

func (s *TokenStore) Pop(key string) *quic.ClientToken {
	s.mu.Lock()
	defer s.mu.Unlock()
	s.Pops = append(s.Pops, key)
	if s.Tok == nil {
		return nil
	}
	return quic.NewClientToken(s.Tok)
}

// TakePops returns the keys Pop was called with since the last call.
func (s *TokenStore) TakePops() []string {
	s.mu.Lock()
	defer s.mu.Unlock()
	p := s.Pops
	s.Pops = nil
	return p
}

func (s *TokenStore) Put(string, *quic.ClientToken) {
	s.mu.Lock()
	s.Puts++
	s.mu.Unlock()
}

// ReferenceHello asks uTLS what it produces for chs (which is applied as it is: pass a copy whose
// per-connection extensions are fresh).  The server name and ALPN mirror what the dial uses.
func ReferenceHello(chs *tls.ClientHelloSpec, serverName string, nextProtos []string) (ch []byte, err error) {
	defer func() {
		if r := recover(); r != nil {
			err = fmt.Errorf("uTLS panicked: %v", r)
		}
	}()
	conn := tls.UQUICClient(&tls.QUICConfig{TLSConfig: &tls.Config{ServerName: serverName, MinVersion: tls.VersionTLS13, NextProtos: nextProtos}}, tls.HelloCustom)
	if err = conn.ApplyPreset(chs); err != nil {
		return nil, err
	}
	if err = conn.Start(context.Background()); err != nil {
		return nil, err
	}
	defer conn.Close()
	for i := 0; i < 8; i++ {
		ev := conn.NextEvent()
		if ev.Kind == tls.QUICWriteData && ev.Level == tls.QUICEncryptionLevelInitial {
			ch = append(ch, ev.Data...)
		}
		if ev.Kind == tls.QUICNoEvent {
			break
		}
	}
	if len(ch) == 0 {
		return nil, fmt.Errorf("uTLS produced no Initial data")
	}
	return ch, nil
}
