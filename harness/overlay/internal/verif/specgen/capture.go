package specgen

import (
	"context"
	"sync"
	"time"

	quic "github.com/refraction-networking/uquic"
	"github.com/refraction-networking/uquic/internal/verif/quicworld"
	"github.com/refraction-networking/uquic/internal/verif/simworld"
	"github.com/refraction-networking/uquic/internal/verif/wiretap"
)

// DialCapture is what the network saw of one dial.
type DialCapture struct {
	Err       error
	TimedOut  bool            // the dial ended because the capture window closed (dead server: the normal end)
	Dgrams    [][]byte        // client datagrams in emission order
	Times     []time.Duration // emission times relative to the start of the dial
	PreServer int             // number of client datagrams emitted before the first server datagram was delivered
}

// Capturer collects the client datagrams of the dials made in one world.
type Capturer struct {
	W  *quicworld.World
	mu sync.Mutex
	dg [][]byte
	tm []time.Duration
	t0 time.Duration
	sv int // -1: no server datagram delivered yet
}

// NewCapturer builds a world without tap (the monitors read the raw datagrams themselves).
func NewCapturer(opt quicworld.Options) (*Capturer, error) {
	opt.NoTap = true
	w, err := quicworld.New(opt)
	if err != nil {
		return nil, err
	}
	c := &Capturer{W: w, sv: -1}
	w.Router.KeepLog = false
	w.Router.SetOnEmit(func(d *wiretap.DatagramInfo) *simworld.Action {
		if d.Dir == wiretap.C2S {
			c.mu.Lock()
			c.dg = append(c.dg, append([]byte(nil), d.Raw...))
			c.tm = append(c.tm, w.Router.Now()-c.t0)
			c.mu.Unlock()
		}
		return nil
	})
	w.Router.SetOnDeliver(func(d *wiretap.DatagramInfo, _ wiretap.Mod) {
		if d.Dir == wiretap.S2C {
			c.mu.Lock()
			if c.sv < 0 {
				c.sv = len(c.dg)
			}
			c.mu.Unlock()
		}
	})
	return c, nil
}

// Dial makes one dial that is given `window` of virtual time, closes the connection if there is
// one, lets the network settle and returns what was captured.
func (c *Capturer) Dial(window, settle time.Duration) DialCapture {
	return c.DialName("localhost", window, settle)
}

// DialName is Dial with the TLS server name of this dial (the certificate covers localhost and c0.test ... c15.test).
func (c *Capturer) DialName(name string, window, settle time.Duration) DialCapture {
	c.mu.Lock()
	c.dg, c.tm, c.sv, c.t0 = nil, nil, -1, c.W.Router.Now()
	c.mu.Unlock()
	ctx, cancel := context.WithTimeout(context.Background(), window)
	var accepted chan *quic.Conn
	if c.W.Listener != nil {
		accepted = make(chan *quic.Conn, 1)
		go func() {
			sc, _ := c.W.Accept(ctx)
			accepted <- sc
		}()
	}
	conn, err := c.W.DialName(ctx, name)
	res := DialCapture{Err: err, TimedOut: err != nil && ctx.Err() != nil && context.Cause(ctx) == err}
	if conn != nil {
		// let the handshake be confirmed before closing (closing in the very instant Dial returns
		// exercises the CONNECTION_CLOSE-at-three-levels path, which is not what is observed here)
		time.Sleep(100 * time.Millisecond)
	}
	cancel()
	if conn != nil {
		conn.CloseWithError(0, "")
	}
	if accepted != nil {
		if sc := <-accepted; sc != nil {
			sc.CloseWithError(0, "")
		}
	}
	time.Sleep(settle)
	c.mu.Lock()
	res.Dgrams, res.Times, res.PreServer = c.dg, c.tm, c.sv
	c.dg, c.tm = nil, nil
	c.mu.Unlock()
	if res.PreServer < 0 {
		res.PreServer = len(res.Dgrams)
	}
	return res
}

// Close shuts the world down and waits (virtual time) for its goroutines.
func (c *Capturer) Close() {
	c.W.Close()
	time.Sleep(3 * time.Second)
}
