// Package specgen holds what the C10 and C11 monitors share: an Initial-flight reader built
// from the wiretap primitives (keys from the DCID only, packet number supplied as a hint by the
// caller), generators of ClientHelloSpecs / transport parameter lists, and reference builders.
// It imports the repository's root package and uTLS and can therefore only be used from external
// test packages (quic_test).
package specgen

import (
	"bytes"
	"fmt"

	"github.com/refraction-networking/uquic/internal/verif/wiretap"
)

// Pkt is one long-header packet of a client datagram as an outside observer reads it.
type Pkt struct {
	Kind     wiretap.Kind
	Version  uint32
	First    byte // first byte after removing header protection
	DCID     []byte
	SCID     []byte
	Token    []byte
	Start    int
	End      int
	HdrLen   int // bytes up to and including the packet number
	Opened   bool
	Hint     string // which packet number hint opened the packet: "expected", "plain", "prev"
	Err      string
	PN       uint64
	PNLen    int
	Trunc    uint64 // the packet number bytes as they are on the wire
	Payload  []byte
	Frames   []wiretap.Frame
	FrameErr string
}

// Dgram is one captured client datagram.
type Dgram struct {
	Raw       []byte
	Pkts      []Pkt
	Trailing  int  // bytes after the last QUIC packet
	TrailZero bool // those bytes are all zero
	SplitErr  string
}

// Decode reads a client datagram.  Initial packets are opened with the keys derived from keyDCID
// (nil: the packet's own DCID).  expectedPN is the packet number the caller expects for the next
// Initial packet (-1: unknown); prev is the largest Initial packet number seen so far (-1: none).
// Every Initial packet opened advances expectedPN by one.
func Decode(raw []byte, keyDCID []byte, expectedPN int64, prev int64) *Dgram {
	d := &Dgram{Raw: raw}
	pk, rest, err := wiretap.SplitDatagram(raw, nil)
	if err != nil {
		d.SplitErr = err.Error()
	}
	d.Trailing = len(rest)
	d.TrailZero = len(bytes.Trim(rest, "\x00")) == 0
	for _, rp := range pk {
		p := Pkt{Kind: rp.Kind, Version: rp.Version, DCID: rp.DCID, SCID: rp.SCID, Token: rp.Token, Start: rp.Offset, End: rp.Offset + len(rp.Data)}
		if rp.Kind != wiretap.KindInitial {
			p.Err = "not an Initial packet"
			d.Pkts = append(d.Pkts, p)
			continue
		}
		kd := keyDCID
		if kd == nil {
			kd = rp.DCID
		}
		cs, _ := wiretap.InitialSecrets(rp.Version, kd)
		keys, kerr := wiretap.NewKeys(rp.Version, wiretap.SuiteAES128, cs)
		if kerr != nil {
			p.Err = kerr.Error()
			d.Pkts = append(d.Pkts, p)
			continue
		}
		type hint struct {
			name    string
			largest int64
		}
		var hints []hint
		if expectedPN >= 0 {
			hints = append(hints, hint{"expected", expectedPN - 1})
		}
		hints = append(hints, hint{"plain", -1})
		if prev >= 0 {
			hints = append(hints, hint{"prev", prev})
		}
		for _, h := range hints {
			hdr, pn, pnLen, payload, err := keys.Unprotect(rp.Data, rp.PNOffset, h.largest)
			if err != nil {
				p.Err = err.Error()
				continue
			}
			p.Opened, p.Err, p.Hint, p.PN, p.PNLen, p.Payload, p.First, p.HdrLen = true, "", h.name, pn, pnLen, payload, hdr[0], len(hdr)
			for i := 0; i < pnLen; i++ {
				p.Trunc = p.Trunc<<8 | uint64(hdr[rp.PNOffset+i])
			}
			break
		}
		if p.Opened {
			fr, ferr := wiretap.ParseFrames(p.Payload)
			p.Frames = fr
			if ferr != nil {
				p.FrameErr = ferr.Error()
			}
			if expectedPN >= 0 {
				expectedPN++
			}
			if int64(p.PN) > prev {
				prev = int64(p.PN)
			}
		}
		d.Pkts = append(d.Pkts, p)
	}
	return d
}

// Counts returns the number of CRYPTO frames, PING frames, PADDING runs and PADDING bytes, and the
// number of frames of any other type.
func (p *Pkt) Counts() (crypto, ping, padRuns, padBytes, other int) {
	for _, f := range p.Frames {
		switch f.Type {
		case wiretap.FtCrypto:
			crypto++
		case wiretap.FtPing:
			ping++
		case wiretap.FtPadding:
			padRuns++
			padBytes += f.Count
		default:
			other++
		}
	}
	return
}

// CryptoBytes is the number of CRYPTO data bytes in the packet, and the lowest / highest+1 offset.
func (p *Pkt) CryptoBytes() (n int, lo, hi uint64) {
	lo = ^uint64(0)
	for _, f := range p.Frames {
		if f.Type != wiretap.FtCrypto {
			continue
		}
		n += len(f.Data)
		if f.Offset < lo {
			lo = f.Offset
		}
		if e := f.Offset + uint64(len(f.Data)); e > hi {
			hi = e
		}
	}
	return
}

// Layout renders the frame sequence of a packet as "C[off,len) P N<count>" for traces.
func (p *Pkt) Layout() string {
	var b bytes.Buffer
	for i, f := range p.Frames {
		if i > 0 {
			b.WriteByte(' ')
		}
		switch f.Type {
		case wiretap.FtCrypto:
			fmt.Fprintf(&b, "C[%d+%d]", f.Offset, len(f.Data))
		case wiretap.FtPing:
			b.WriteString("P")
		case wiretap.FtPadding:
			fmt.Fprintf(&b, "N%d", f.Count)
		default:
			fmt.Fprintf(&b, "?%x", f.Type)
		}
	}
	return b.String()
}

// Reasm reassembles a CRYPTO stream and remembers which bytes were seen.
type Reasm struct {
	Buf      []byte
	have     []bool
	Conflict bool // two frames carried different bytes for the same offset
}

func (r *Reasm) Add(off uint64, data []byte) {
	end := off + uint64(len(data))
	if end > 1<<20 {
		return
	}
	for uint64(len(r.Buf)) < end {
		r.Buf = append(r.Buf, 0)
		r.have = append(r.have, false)
	}
	for i, b := range data {
		j := off + uint64(i)
		if r.have[j] && r.Buf[j] != b {
			r.Conflict = true
		}
		r.Buf[j], r.have[j] = b, true
	}
}

// Prefix is the contiguous prefix received so far.
func (r *Reasm) Prefix() []byte {
	n := 0
	for n < len(r.have) && r.have[n] {
		n++
	}
	return r.Buf[:n]
}

// ClientHello returns the ClientHello message if the prefix contains a complete one.
func (r *Reasm) ClientHello() []byte {
	p := r.Prefix()
	if len(p) < 4 || p[0] != 1 {
		return nil
	}
	n := int(p[1])<<16 | int(p[2])<<8 | int(p[3])
	if len(p) < 4+n {
		return nil
	}
	return p[:4+n]
}
