package quicworld

import (
	"fmt"
	"testing"
	"testing/synctest"
	"time"

	"github.com/refraction-networking/uquic/internal/verif/evlog"
	"github.com/refraction-networking/uquic/internal/verif/simworld"
	"github.com/refraction-networking/uquic/internal/verif/wiretap"
)

// Scenario scripts (DESIGN C01 S1..S6)
func Scenario(name string, seed uint64) TransferSpec {
	ts := TransferSpec{ChunkSeed: seed}
	switch name {
	case "S1": // one stream, 3 kB each way
		ts.Streams = []StreamSpec{{Bytes: 3000, Reply: 3000}}
	case "S2": // 8 streams x 20 kB with random chunkings
		for i := 0; i < 8; i++ {
			ts.Streams = append(ts.Streams, StreamSpec{Bytes: 20000, Reply: 20000, FromServer: i%4 == 3})
		}
	case "S3": // unidirectional streams both ways
		ts.Streams = []StreamSpec{{Uni: true, Bytes: 10000}, {Uni: true, Bytes: 7000, FromServer: true}, {Uni: true, Bytes: 1}, {Uni: true, Bytes: 0, FromServer: true}}
	case "S4": // bulk one way, slow reader
		ts.Streams = []StreamSpec{{Bytes: 256 << 10, Reply: 10, SlowReader: true}}
		ts.MaxChunk = 20000
	case "S5": // datagrams interleaved with streams
		ts.Streams = []StreamSpec{{Bytes: 15000, Reply: 15000}, {Bytes: 100, Reply: 40000}}
		ts.Datagrams = 30
	case "S6": // tiny and empty streams
		ts.Streams = []StreamSpec{{Bytes: 0, Reply: 0}, {Bytes: 1, Reply: 0}, {Bytes: 0, Reply: 1}, {Uni: true, Bytes: 0}}
	case "S7": // many streams against small stream-count limits (run with ConnCase.SmallLimits): MAX_STREAMS has to arrive again and again
		for i := 0; i < 30; i++ {
			ts.Streams = append(ts.Streams, StreamSpec{Bytes: 6000, Reply: 3000})
		}
		for i := 0; i < 6; i++ {
			ts.Streams = append(ts.Streams, StreamSpec{Bytes: 4000, Reply: 100, FromServer: true})
		}
		for i := 0; i < 8; i++ {
			ts.Streams = append(ts.Streams, StreamSpec{Uni: true, Bytes: 2000, FromServer: i%2 == 1})
		}
	case "S8": // streams far larger than the (fixed, small) stream and connection windows (ConnCase.SmallLimits)
		for i := 0; i < 6; i++ {
			ts.Streams = append(ts.Streams, StreamSpec{Bytes: 60000, Reply: 40000, FromServer: i == 5})
		}
	case "S9": // one stream at a time (run with ConnCase.StreamLimit 1): every stream waits for the MAX_STREAMS of its predecessor
		for i := 0; i < 12; i++ {
			ts.Streams = append(ts.Streams, StreamSpec{Bytes: 1000, Reply: 1000, FromServer: i%3 == 2})
		}
		for i := 0; i < 6; i++ {
			ts.Streams = append(ts.Streams, StreamSpec{Uni: true, Bytes: 500, FromServer: i%2 == 1})
		}
	case "S10": // abandoned streams: writers that reset after a prefix, readers that cancel; RESET_STREAM and STOP_SENDING have to get through
		ts.Streams = []StreamSpec{
			{Bytes: 60000, Reply: 2000, CancelWriteAt: 20000},
			{Bytes: 60000, Reply: 2000, CancelReadAt: 10000},
			{Uni: true, Bytes: 40000, CancelWriteAt: 15000, FromServer: true},
			{Uni: true, Bytes: 40000, CancelReadAt: 5000},
			{Bytes: 3000, Reply: 3000},
			{Bytes: 50000, Reply: 100, CancelReadAt: 1, FromServer: true},
			{Bytes: 50000, Reply: 100, CancelWriteAt: 1, FromServer: true},
		}
	default:
		panic("unknown scenario " + name)
	}
	return ts
}

// FaultKinds are the per-datagram fault actions enumerated by the suites; rtt is the round trip time.
func FaultKinds(rtt time.Duration) []simworld.Action {
	return []simworld.Action{
		{Kind: "drop"},
		{Kind: "dup"},
		{Kind: "dup", Delay: 3 * rtt},
		{Kind: "delay", Delay: rtt * 3 / 2},
		{Kind: "delay", Delay: 4 * rtt},
		{Kind: "flip", Pos: 0},
		{Kind: "flip", Pos: -1},
		{Kind: "flip", Pos: -40}, // inside the AEAD-protected region of the last packet
		{Kind: "trunc", N: 20},
		{Kind: "trunc", N: -2}, // half (resolved per datagram by the router: negative = fraction marker)
		// unauthenticated-looking header positions: version field, connection ID area.  In a long header
		// they are covered by the AEAD (associated data) or change the keys, so the packet is dropped and
		// retransmitted; a Version Negotiation packet that lists the client's own version must be ignored.
		{Kind: "flip", Pos: 1},
		{Kind: "flip", Pos: 7},
		// a replay long after the original: handshake keys are gone, connection IDs may be retired, a key
		// update may have happened
		{Kind: "dup", Delay: 40 * rtt},
	}
}

// ClientKinds used by the fault suites: (client, v2)
type ClientSel struct {
	Client string
	V2     bool
}

// FaultSuite builds the deterministic list of cases for (tier, seed): all single faults among the
// first n datagrams of each direction for the given scenario x client kinds, then seeded
// two- and three-fault schedules and random-rate schedules.
func FaultSuite(l *evlog.Log, clients []ClientSel, k1Scen []string, nFirst int, nK2, nK3, nRate int) []*ConnCase {
	var out []*ConnCase
	rtt := 10 * time.Millisecond
	kinds := FaultKinds(rtt)
	idx := 0
	add := func(cc *ConnCase) {
		cc.ConnIdx = idx
		cc.RTTms = int(rtt / time.Millisecond)
		idx++
		out = append(out, cc)
	}
	for _, cl := range clients {
		for _, sc := range k1Scen {
			add(&ConnCase{Name: fmt.Sprintf("clean/%s/%s/v2=%v", sc, cl.Client, cl.V2), Client: cl.Client, V2: cl.V2, Transfer: Scenario(sc, 1), Datagrams: sc == "S5", SmallLimits: sc == "S7" || sc == "S8"})
			for d := 0; d < 2; d++ {
				for o := 0; o < nFirst; o++ {
					for ki, a := range kinds {
						add(&ConnCase{Name: fmt.Sprintf("k1/%s/%s/v2=%v/d%d-o%d-f%d", sc, cl.Client, cl.V2, d, o, ki), Client: cl.Client, V2: cl.V2,
							Schedule: simworld.Schedule{Faults: []simworld.Fault{{Dir: wiretap.Dir(d), Ordinal: o, Action: a}}}, Transfer: Scenario(sc, uint64(idx)), Datagrams: sc == "S5", SmallLimits: sc == "S7" || sc == "S8"})
					}
				}
			}
		}
	}
	// slow paths: with a round-trip time around or above the initial PTO the endpoints retransmit their
	// first flights spuriously, so that retransmitted Initial / Handshake data is coalesced with packets of
	// the next encryption levels - fault-free and with one drop among the first datagrams
	for _, cl := range clients {
		for _, rttMs := range []int{120, 250, 400, 700} {
			for _, sc := range []string{"S1", "S6"} {
				mk := func(name string, fs []simworld.Fault) {
					add(&ConnCase{Name: fmt.Sprintf("slow/%s/%s/v2=%v/rtt%d/%s", sc, cl.Client, cl.V2, rttMs, name), Client: cl.Client, V2: cl.V2,
						Schedule: simworld.Schedule{Faults: fs}, Transfer: Scenario(sc, uint64(idx)), Datagrams: sc == "S5"})
					out[len(out)-1].RTTms = rttMs
				}
				mk("clean", nil)
				for d := 0; d < 2; d++ {
					for o := 0; o < 4; o++ {
						mk(fmt.Sprintf("d%d-o%d-drop", d, o), []simworld.Fault{{Dir: wiretap.Dir(d), Ordinal: o, Action: simworld.Action{Kind: "drop"}}})
					}
				}
			}
		}
	}
	scen := []string{"S1", "S2", "S3", "S4", "S5", "S6", "S7", "S8", "S10"}
	rng := l.Rand("faultsuite")
	for _, nk := range []struct{ k, n int }{{2, nK2}, {3, nK3}} {
		for i := 0; i < nk.n; i++ {
			cl := clients[rng.IntN(len(clients))]
			sc := scen[rng.IntN(len(scen))]
			var fs []simworld.Fault
			for j := 0; j < nk.k; j++ {
				fs = append(fs, simworld.Fault{Dir: wiretap.Dir(rng.IntN(2)), Ordinal: rng.IntN(nFirst + 4), Action: kinds[rng.IntN(len(kinds))]})
			}
			retry := rng.IntN(5) == 0
			for _, f := range fs {
				if f.Action.Kind == "flip" && f.Action.Pos > 0 {
					// a damaged Retry token is parsed before the packet is authenticated and answered with
					// INVALID_TOKEN (documented behaviour): keep header flips out of Retry scenarios
					retry = false
				}
			}
			add(&ConnCase{Name: fmt.Sprintf("k%d/%s/%s/v2=%v/%04d", nk.k, sc, cl.Client, cl.V2, i), Client: cl.Client, V2: cl.V2, Schedule: simworld.Schedule{Faults: fs},
				Transfer: Scenario(sc, rng.Uint64()), Datagrams: sc == "S5", SmallLimits: sc == "S7" || sc == "S8", Retry: retry, ServerCIDLen: []int{0, 0, 4, 8, 20}[rng.IntN(5)]})
			// a third of the schedules on a slow path: round-trip times around and above the initial PTO make
			// the endpoints retransmit spuriously, so that retransmissions meet the next encryption level
			if rtts := []int{10, 10, 10, 10, 120, 250, 400, 700}; true {
				out[len(out)-1].RTTms = rtts[rng.IntN(len(rtts))]
			}
		}
	}
	for i := 0; i < nRate; i++ {
		cl := clients[rng.IntN(len(clients))]
		sc := scen[rng.IntN(len(scen))]
		p := 0.01 + 0.29*rng.Float64()
		r := &simworld.Rate{Seed: rng.Uint64(), Until: 2 * time.Second}
		switch rng.IntN(4) {
		case 0:
			r.PDrop = p
		case 1:
			r.PDrop, r.PDup, r.PDelay = p/3, p/3, p/3
		case 2:
			r.PDelay, r.PDup = p/2, p/2
		case 3:
			r.PDrop, r.PDup, r.PDelay, r.PCorrupt = p/4, p/4, p/4, p/4
		}
		cc := &ConnCase{Name: fmt.Sprintf("rate/%s/%s/v2=%v/%04d", sc, cl.Client, cl.V2, i), Client: cl.Client, V2: cl.V2, Schedule: simworld.Schedule{Rate: r},
			Transfer: Scenario(sc, rng.Uint64()), Datagrams: sc == "S5", SmallLimits: sc == "S7" || sc == "S8", Retry: rng.IntN(5) == 0}
		cc.RTTms = []int{1, 10, 10, 50, 200}[rng.IntN(5)]
		cc.ConnIdx = idx
		idx++
		out = append(out, cc)
	}
	return out
}

// Reporter turns a case result into log records for one property.
type Reporter func(c *evlog.Case, cc *ConnCase, r *CaseResult)

// RunSuite runs this shard's share of the cases, each in its own synctest bubble.
func RunSuite(t *testing.T, l *evlog.Log, cases []*ConnCase, report Reporter) {
	for i, cc := range cases {
		if !l.Mine(i) {
			continue
		}
		c := l.Begin(l.Prop+"/"+cc.Name, cc)
		if c == nil {
			continue
		}
		var res *CaseResult
		synctest.Test(t, func(t *testing.T) {
			res = RunConnCase(cc)
			res.Leaked = BubbleGoroutines()
			report(c, cc, res)
			if len(res.Leaked) > 0 {
				c.Violation(l.Prop+"|leak|goroutines-alive-after-close", fmt.Sprintf("%d goroutine(s) of the bubble still alive 3 s (virtual) after both transports were closed:\n%s", len(res.Leaked), res.Leaked[0]), nil)
			}
		})
		c.End()
	}
}

// TapCounts adds the wire observer's counters of a case to the evidence counters.
func TapCounts(l *evlog.Log, r *CaseResult) {
	for _, tp := range r.Taps {
		for k, v := range tp.Counts {
			l.Count("wire:"+k, v)
		}
		l.Count("wire:unopened_packets", int64(tp.Unopened))
		l.Max("max:key_phases", int64(max(tp.KeyPhases[0], tp.KeyPhases[1])))
	}
}

// WireReporter reports the wire observer's anomalies that refute property prop (sig prefix
// "CNN|wire|...") plus, for C05, genuine packets the independent observer could not open.
// Everything else a case shows belongs to other properties and is ignored here.
func WireReporter(l *evlog.Log, prop string) Reporter {
	return func(c *evlog.Case, cc *ConnCase, r *CaseResult) {
		fp := ""
		checks := int64(0)
		for _, tp := range r.Taps {
			switch prop {
			case "C04":
				checks += tp.Counts["c04_stream_limit_checks"] + tp.Counts["c04_conn_limit_checks"]
			case "C07":
				checks += tp.Counts["c07_ack_frames_checked"]
			case "C05":
				for k, v := range tp.Counts {
					if len(k) > 4 && k[:4] == "pkt_" {
						checks += v
					}
				}
			}
		}
		if checks > 0 {
			fp = cc.Name
		}
		c.Eval(fp)
		TapCounts(l, r)
		l.Count("wire_checks", checks)
		l.Count("faults_applied", int64(r.FaultsApplied))
		for _, tp := range r.Taps {
			for _, a := range tp.Anomalies {
				if a.Prop == prop {
					c.Violation(a.Sig, a.Detail, map[string]any{"wire": tp.Describe(40), "router": r.RouterLog})
				}
			}
			if prop == "C05" && tp.Unopened > 0 {
				// which packets could the observer not open?
				var ex []string
				for k, v := range tp.Counts {
					if len(k) > 9 && k[:9] == "unopened_" && v > 0 {
						ex = append(ex, fmt.Sprintf("%s=%d", k, v))
					}
				}
				c.Violation("C05|wire|observer-cannot-open-genuine-packet", fmt.Sprintf("%d packet(s) emitted by the endpoints could not be opened with keys derived independently from the TLS key log: %v", tp.Unopened, ex),
					map[string]any{"wire": tp.Describe(40)})
			}
		}
		if checks > 0 {
			c.Sample("wire", map[string]any{"case": cc.Name, "checks": checks, "faults_applied": r.FaultsApplied})
		}
	}
}
