package quicworld

import (
	"context"
	"encoding/binary"
	"errors"
	"fmt"
	"hash/crc32"
	"io"
	"math/rand/v2"
	"sync"
	"time"

	quic "github.com/refraction-networking/uquic"
)

// PayloadByte is the one legal value of the byte at offset n of the data sent by the side
// `fromServer` on stream id of connection conn: every byte has exactly one legal value at its
// position, so truncation, duplication, reordering and cross-stream mix-ups are all visible.
func PayloadByte(conn int, id int64, fromServer bool, n int64) byte {
	x := uint64(conn+1)*0x9E3779B97F4A7C15 ^ uint64(id+3)*0xC2B2AE3D27D4EB4F ^ uint64(n)*0x165667B19E3779F9
	if fromServer {
		x ^= 0xD6E8FEB86659FD93
	}
	x ^= x >> 29
	x *= 0xBF58476D1CE4E5B9
	x ^= x >> 32
	v := byte(x)
	if v == 0xDB { // 0xDB is the pool poison value: never a legal payload byte
		v = 0x24
	}
	return v
}

// StreamSpec describes the traffic on one stream.
type StreamSpec struct {
	FromServer bool  `json:"from_server"` // who opens it
	Uni        bool  `json:"uni"`
	Bytes      int64 `json:"bytes"` // opener -> acceptor
	Reply      int64 `json:"reply"` // acceptor -> opener (bidirectional only)
	SlowReader bool  `json:"slow_reader,omitempty"`
	// opener -> acceptor direction only: the writer abandons the stream (CancelWrite, code 41) after this
	// many bytes / the reader abandons it (CancelRead, code 43) after at least this many bytes
	CancelWriteAt int64 `json:"cancel_write_at,omitempty"`
	CancelReadAt  int64 `json:"cancel_read_at,omitempty"`
}

const (
	CancelWriteCode = 41
	CancelReadCode  = 43
)

// TransferSpec is an application script run on an established connection pair.
type TransferSpec struct {
	Streams   []StreamSpec  `json:"streams"`
	Datagrams int           `json:"datagrams,omitempty"` // per direction
	ChunkSeed uint64        `json:"chunk_seed"`
	MaxChunk  int           `json:"max_chunk,omitempty"`
	Deadline  time.Duration `json:"deadline,omitempty"` // virtual; default 60 s
}

// Viol is a violation found by the transfer oracle.
type Viol struct {
	Sig    string
	Detail string
}

// StreamOutcome is what one reader observed.
type StreamOutcome struct {
	ID       int64  `json:"id"`
	ToServer bool   `json:"to_server"`
	Want     int64  `json:"want"`
	Got      int64  `json:"got"`
	EOF      bool   `json:"eof"`
	Err      string `json:"err,omitempty"`
	WriteErr string `json:"write_err,omitempty"`
	// Done: the reader finished the way the script says (EOF at the planned size, the writer's reset after a
	// correct prefix, or its own cancellation)
	Done   bool  `json:"done"`
	errVal error // the reader's error, for classification
}

// TransferResult is the outcome of RunTransfer.
type TransferResult struct {
	Viols       []Viol
	Outcomes    []StreamOutcome
	Completed   bool
	TimedOut    bool
	ClientCause error
	ServerCause error
	DgramsSent  [2]int
	DgramsRcvd  [2]int
	Elapsed     time.Duration
}

type transferRun struct {
	mu   sync.Mutex
	res  *TransferResult
	conn int
}

func (t *transferRun) viol(sig, f string, a ...any) {
	t.mu.Lock()
	if len(t.res.Viols) < 20 {
		t.res.Viols = append(t.res.Viols, Viol{sig, fmt.Sprintf(f, a...)})
	}
	t.mu.Unlock()
}

var errWriterCancelled = errors.New("verif: writer cancelled as scripted")

func (t *transferRun) write(s io.Writer, id int64, fromServer bool, n int64, rng *rand.Rand, maxChunk int) error {
	return t.writeUntil(s, id, fromServer, n, 0, rng, maxChunk)
}

// writeUntil writes n bytes, or, with cancelAt > 0, cancelAt bytes followed by CancelWrite.
func (t *transferRun) writeUntil(s io.Writer, id int64, fromServer bool, n, cancelAt int64, rng *rand.Rand, maxChunk int) error {
	var off int64
	buf := make([]byte, maxChunk)
	if cancelAt > 0 {
		n = min(n, cancelAt)
		defer func() {
			if cw, ok := s.(interface{ CancelWrite(quic.StreamErrorCode) }); ok {
				cw.CancelWrite(CancelWriteCode)
			}
		}()
	}
	for off < n {
		c := int64(1 + rng.IntN(maxChunk))
		if rng.IntN(8) == 0 {
			c = int64(1 + rng.IntN(16))
		}
		c = min(c, n-off)
		for i := int64(0); i < c; i++ {
			buf[i] = PayloadByte(t.conn, id, fromServer, off+i)
		}
		m, err := s.Write(buf[:c])
		off += int64(m)
		if err != nil {
			return err
		}
		if int64(m) != c {
			return fmt.Errorf("short write %d of %d without error", m, c)
		}
	}
	if cancelAt > 0 {
		return errWriterCancelled
	}
	return nil
}

func (t *transferRun) read(s io.Reader, id int64, fromServer bool, want int64, rng *rand.Rand, maxChunk int, slow bool) StreamOutcome {
	return t.readUntil(s, id, fromServer, want, 0, 0, rng, maxChunk, slow)
}

// readUntil reads to EOF.  writerCancelAt > 0: the writer resets the stream after that many bytes, the
// reader must see a correct prefix of them and then the reset.  cancelAt > 0: the reader cancels after at
// least that many bytes.
func (t *transferRun) readUntil(s io.Reader, id int64, fromServer bool, want, writerCancelAt, cancelAt int64, rng *rand.Rand, maxChunk int, slow bool) (o StreamOutcome) {
	o = StreamOutcome{ID: id, ToServer: !fromServer, Want: want}
	defer func() {
		var se *quic.StreamError
		switch {
		case o.Err == "cancelled-by-reader":
			o.Done = true
		case writerCancelAt > 0:
			// the reset may overtake data: any correct prefix of the bytes written, then the writer's code
			if o.EOF {
				t.viol("C01|stream|eof-on-reset-stream", "stream %d: the writer wrote %d bytes and reset the stream; the reader saw EOF after %d", id, writerCancelAt, o.Got)
			} else if errors.As(o.errVal, &se) && se.Remote && se.ErrorCode == CancelWriteCode && o.Got <= writerCancelAt {
				o.Done = true
			} else if errors.As(o.errVal, &se) {
				t.viol("C01|stream|wrong-reset-error", "stream %d: the writer reset the stream with code %d after %d bytes; the reader got %v after %d bytes", id, CancelWriteCode, writerCancelAt, o.errVal, o.Got)
			}
		default:
			o.Done = o.EOF && o.Got == o.Want
		}
	}()
	buf := make([]byte, maxChunk)
	for {
		if cancelAt > 0 && o.Got >= cancelAt {
			if cr, ok := s.(interface{ CancelRead(quic.StreamErrorCode) }); ok {
				cr.CancelRead(CancelReadCode)
			}
			o.Err = "cancelled-by-reader"
			return o
		}
		c := 1 + rng.IntN(maxChunk)
		if slow {
			time.Sleep(time.Duration(1+rng.IntN(20)) * time.Millisecond)
		}
		n, err := s.Read(buf[:c])
		for i := 0; i < n; i++ {
			pos := o.Got + int64(i)
			if pos >= want {
				t.viol("C01|stream|bytes-beyond-what-was-written", "stream %d: byte at offset %d delivered, the writer wrote only %d", id, pos, want)
				break
			}
			if exp := PayloadByte(t.conn, id, fromServer, pos); buf[i] != exp {
				what := "wrong-byte"
				if buf[i] == 0xDB {
					what = "use-after-recycle"
				}
				t.viol("C01|stream|"+what, "stream %d: byte at offset %d is %#x, the writer wrote %#x", id, pos, buf[i], exp)
				o.Got += int64(n)
				o.Err = "mismatch"
				return o
			}
		}
		o.Got += int64(n)
		if err == io.EOF {
			o.EOF = true
			if o.Got < want {
				t.viol("C01|stream|early-eof", "stream %d: EOF after %d of %d bytes", id, o.Got, want)
			}
			return o
		}
		if err != nil {
			o.Err = err.Error()
			o.errVal = err
			return o
		}
		if n == 0 {
			t.viol("C01|stream|empty-read", "stream %d: Read returned (0, nil)", id)
			o.Err = "empty read"
			return o
		}
	}
}

// RunTransfer runs the application script on an established pair of connections and applies
// the C01 oracle at the API boundary.  connIdx keys the payload PRNG.
func RunTransfer(ctx context.Context, client, server *quic.Conn, connIdx int, ts TransferSpec) *TransferResult {
	start := time.Now()
	res := &TransferResult{}
	t := &transferRun{res: res, conn: connIdx}
	if ts.MaxChunk == 0 {
		ts.MaxChunk = 5000
	}
	if ts.Deadline == 0 {
		ts.Deadline = 60 * time.Second
	}
	ctx, cancel := context.WithTimeout(ctx, ts.Deadline)
	defer cancel()

	var wg sync.WaitGroup
	addOutcome := func(o StreamOutcome) {
		t.mu.Lock()
		res.Outcomes = append(res.Outcomes, o)
		t.mu.Unlock()
	}
	rngFor := func(k uint64) *rand.Rand { return rand.New(rand.NewPCG(ts.ChunkSeed, k)) }

	// acceptor loops: each accepted stream is served according to the spec of the stream with that ID
	specByID := map[int64]StreamSpec{}
	var nOpen [2][2]int64 // [fromServer][uni]
	type plan struct {
		spec StreamSpec
		id   int64
	}
	var plans []plan
	for _, sp := range ts.Streams {
		fs, u := 0, 0
		if sp.FromServer {
			fs = 1
		}
		if sp.Uni {
			u = 1
		}
		id := nOpen[fs][u]*4 + int64(fs) + int64(2*u)
		nOpen[fs][u]++
		specByID[id] = sp
		plans = append(plans, plan{sp, id})
	}
	serveAccepted := func(side *quic.Conn, isServer bool) {
		// bidirectional
		nb := nOpen[b2i(!isServer)][0]
		nu := nOpen[b2i(!isServer)][1]
		for i := int64(0); i < nb; i++ {
			wg.Add(1)
			go func() {
				defer wg.Done()
				s, err := side.AcceptStream(ctx)
				if err != nil {
					return
				}
				id := int64(s.StreamID())
				sp, ok := specByID[id]
				if !ok || sp.Uni || sp.FromServer == isServer {
					t.viol("C01|stream|unexpected-stream", "accepted bidirectional stream %d that the peer never opened", id)
					return
				}
				var w2 sync.WaitGroup
				w2.Add(1)
				go func() {
					defer w2.Done()
					var werr string
					if err := t.write(s, id, isServer, sp.Reply, rngFor(uint64(id)*4+1), ts.MaxChunk); err != nil {
						werr = err.Error()
					} else if err := s.Close(); err != nil {
						werr = "close: " + err.Error()
					}
					_ = werr
				}()
				o := t.readUntil(s, id, !isServer, sp.Bytes, sp.CancelWriteAt, sp.CancelReadAt, rngFor(uint64(id)*4+2), ts.MaxChunk, sp.SlowReader)
				w2.Wait()
				addOutcome(o)
			}()
		}
		for i := int64(0); i < nu; i++ {
			wg.Add(1)
			go func() {
				defer wg.Done()
				s, err := side.AcceptUniStream(ctx)
				if err != nil {
					return
				}
				id := int64(s.StreamID())
				sp, ok := specByID[id]
				if !ok || !sp.Uni || sp.FromServer == isServer {
					t.viol("C01|stream|unexpected-stream", "accepted unidirectional stream %d that the peer never opened", id)
					return
				}
				addOutcome(t.readUntil(s, id, !isServer, sp.Bytes, sp.CancelWriteAt, sp.CancelReadAt, rngFor(uint64(id)*4+2), ts.MaxChunk, sp.SlowReader))
			}()
		}
	}
	serveAccepted(server, true)
	serveAccepted(client, false)

	// openers (streams of one side and type are opened in plan order, so IDs are as planned)
	for _, side := range []bool{false, true} {
		conn := client
		if side {
			conn = server
		}
		var mine []plan
		for _, p := range plans {
			if p.spec.FromServer == side {
				mine = append(mine, p)
			}
		}
		wg.Add(1)
		go func() {
			defer wg.Done()
			for _, p := range mine {
				if p.spec.Uni {
					s, err := conn.OpenUniStreamSync(ctx)
					if err != nil {
						return
					}
					if int64(s.StreamID()) != p.id {
						t.viol("C01|stream|unexpected-stream-id", "opened unidirectional stream got ID %d, expected %d", s.StreamID(), p.id)
						return
					}
					wg.Add(1)
					go func() {
						defer wg.Done()
						if err := t.writeUntil(s, p.id, side, p.spec.Bytes, p.spec.CancelWriteAt, rngFor(uint64(p.id)*4+3), ts.MaxChunk); err == nil {
							s.Close()
						}
					}()
					continue
				}
				s, err := conn.OpenStreamSync(ctx)
				if err != nil {
					return
				}
				if int64(s.StreamID()) != p.id {
					t.viol("C01|stream|unexpected-stream-id", "opened bidirectional stream got ID %d, expected %d", s.StreamID(), p.id)
					return
				}
				wg.Add(2)
				go func() {
					defer wg.Done()
					if err := t.writeUntil(s, p.id, side, p.spec.Bytes, p.spec.CancelWriteAt, rngFor(uint64(p.id)*4+3), ts.MaxChunk); err == nil {
						s.Close()
					}
				}()
				go func() {
					defer wg.Done()
					addOutcome(t.read(s, p.id, !side, p.spec.Reply, rngFor(uint64(p.id)*4), ts.MaxChunk, p.spec.SlowReader))
				}()
			}
		}()
	}

	// datagrams
	dctx, dcancel := context.WithCancel(ctx)
	var dwg sync.WaitGroup
	if ts.Datagrams > 0 {
		for _, side := range []bool{false, true} {
			snd, rcv := client, server
			if side {
				snd, rcv = server, client
			}
			sent := map[uint32][]byte{}
			var smu sync.Mutex
			wg.Add(1)
			go func() {
				defer wg.Done()
				rng := rngFor(900 + uint64(b2i(side)))
				scratch := make([]byte, 1024)
				for i := 0; i < ts.Datagrams; i++ {
					n := 12 + rng.IntN(900)
					p := make([]byte, n)
					binary.BigEndian.PutUint32(p, uint32(i))
					binary.BigEndian.PutUint32(p[4:], uint32(n))
					for j := 12; j < n; j++ {
						p[j] = PayloadByte(t.conn, -int64(i)-1, side, int64(j))
					}
					binary.BigEndian.PutUint32(p[8:], crc32.ChecksumIEEE(p[12:]))
					smu.Lock()
					sent[uint32(i)] = p
					smu.Unlock()
					// the application reuses one scratch buffer (as an io.Writer-style caller may): what was handed
					// to SendDatagram must not depend on what happens to the buffer afterwards
					m := copy(scratch, p)
					err := snd.SendDatagram(scratch[:m])
					for j := range scratch[:m] {
						scratch[j] = 0xEE
					}
					if err != nil {
						return
					}
					t.mu.Lock()
					res.DgramsSent[b2i(side)]++
					t.mu.Unlock()
					time.Sleep(time.Duration(rng.IntN(5)) * time.Millisecond)
				}
			}()
			dwg.Add(1)
			go func() {
				defer dwg.Done()
				seen := map[uint32]bool{}
				// what ReceiveDatagram returned belongs to the application: it is kept (not copied) and compared
				// again when the receiver stops, so a buffer that the connection recycles underneath is noticed
				type heldDg struct {
					id uint32
					p  []byte
				}
				var held []heldDg
				defer func() {
					for _, h := range held {
						smu.Lock()
						orig := sent[h.id]
						smu.Unlock()
						if string(orig) != string(h.p) {
							t.viol("C01|datagram|altered-after-delivery", "datagram id %d was intact when ReceiveDatagram returned it and reads differently at the end of the transfer (the slice handed to the application was reused)", h.id)
							return
						}
					}
				}()
				for {
					p, err := rcv.ReceiveDatagram(dctx)
					if err != nil {
						return
					}
					if len(p) < 12 {
						t.viol("C01|datagram|altered", "received a %d-byte datagram that was never sent", len(p))
						continue
					}
					id := binary.BigEndian.Uint32(p)
					smu.Lock()
					orig, ok := sent[id]
					smu.Unlock()
					if !ok {
						t.viol("C01|datagram|never-sent", "received datagram id %d that was never sent", id)
						continue
					}
					if string(orig) != string(p) {
						t.viol("C01|datagram|altered", "datagram id %d arrived modified (%d bytes, sent %d)", id, len(p), len(orig))
						continue
					}
					if seen[id] {
						t.viol("C01|datagram|delivered-twice", "datagram id %d was delivered twice", id)
					}
					seen[id] = true
					held = append(held, heldDg{id, p})
					t.mu.Lock()
					res.DgramsRcvd[b2i(!side)]++
					t.mu.Unlock()
				}
			}()
		}
	}

	done := make(chan struct{})
	go func() { wg.Wait(); close(done) }()
	select {
	case <-done:
	case <-ctx.Done():
		res.TimedOut = true
	}
	if ts.Datagrams > 0 && !res.TimedOut {
		// give datagrams still in flight time to arrive, then stop the receivers
		time.Sleep(500 * time.Millisecond)
	}
	res.Elapsed = time.Since(start)
	if client.Context().Err() != nil {
		res.ClientCause = context.Cause(client.Context())
	}
	if server.Context().Err() != nil {
		res.ServerCause = context.Cause(server.Context())
	}
	dcancel()
	cancel()
	if res.TimedOut {
		// unblock readers and writers that are still waiting
		client.CloseWithError(0x77, "verif: transfer deadline")
		server.CloseWithError(0x77, "verif: transfer deadline")
	}
	<-done
	dwg.Wait()

	// completion: every planned reader finished with EOF at the planned size
	expected := 0
	for _, p := range plans {
		expected++
		if !p.spec.Uni {
			expected++
		}
	}
	complete := 0
	for _, o := range res.Outcomes {
		if o.Done {
			complete++
		}
	}
	res.Completed = complete == expected && !res.TimedOut
	if !res.Completed && res.ClientCause == nil && res.ServerCause == nil {
		var missing []string
		for _, o := range res.Outcomes {
			if !o.Done {
				missing = append(missing, fmt.Sprintf("stream %d toServer=%v got %d/%d eof=%v err=%q", o.ID, o.ToServer, o.Got, o.Want, o.EOF, o.Err))
			}
		}
		t.viol("C01|completion|transfer-did-not-complete", "after %s (virtual) with both connections alive: %d of %d readers complete; %v", res.Elapsed, complete, expected, missing)
	}
	return res
}

func b2i(b bool) int {
	if b {
		return 1
	}
	return 0
}

// IsTimeout reports whether err is a QUIC idle / handshake timeout.
func IsTimeout(err error) bool {
	var ie *quic.IdleTimeoutError
	var he *quic.HandshakeTimeoutError
	return errors.As(err, &ie) || errors.As(err, &he)
}
