// Package quicworld sets up real uquic clients and servers (public API only) on the simulated
// network of package simworld.  It is used from external test packages (quic_test, http3_test);
// it imports the repository's root package and therefore cannot be used from in-package tests.
package quicworld

import (
	"sync/atomic"
	"errors"
	"context"
	"crypto/x509"
	"net"
	"time"

	quic "github.com/refraction-networking/uquic"
	"github.com/refraction-networking/uquic/internal/verif/simworld"
	"github.com/refraction-networking/uquic/internal/verif/wiretap"
	"github.com/refraction-networking/uquic/testutils/simnet"
	tls "github.com/refraction-networking/utls"
)

var (
	ClientAddr = &net.UDPAddr{IP: net.IPv4(1, 0, 0, 1), Port: 9001}
	ServerAddr = &net.UDPAddr{IP: net.IPv4(1, 0, 0, 2), Port: 9002}
)

// Options describes one simulated world.  Zero values mean defaults.
type Options struct {
	Schedule simworld.Schedule
	RTT      time.Duration // default 10 ms

	// Client
	ClientKind   string         // "plain" (quic.Transport), "unil" (UTransport without spec), "spec" (UTransport with Spec)
	Spec         *quic.QUICSpec // for ClientKind "spec"
	ClientConf   *quic.Config
	ClientTLS    func(*tls.Config) // optional tweak
	ClientCIDLen int               // plain/unil only; 0 = default (4)

	// Server
	ServerConf          *quic.Config
	ServerTLS           func(*tls.Config)
	ServerCIDLen        int
	CertIntermediates   int
	VerifySourceAddress func(net.Addr) bool
	NoServer            bool // nothing listens: datagrams to the server vanish (capture only)
	Early               bool // ListenEarly / 0-RTT capable server
	ServerTransport     func(*quic.Transport)

	ALPN  string
	NoTap bool
}

// World is one client socket and one server socket connected through the fault router.
type World struct {
	Opt      Options
	Wire     *wiretap.Wire
	Router   *simworld.Router
	ClientPC *simnet.SimConn
	ServerPC *simnet.SimConn

	ServerTr  *quic.Transport
	Listener  *quic.Listener
	EarlyLn   *quic.EarlyListener
	ClientTr  *quic.Transport
	ClientUTr *quic.UTransport

	ClientTLSConf *tls.Config
	ServerTLSConf *tls.Config

	// socket send errors: while set, every WriteTo of that side's socket fails (ENETUNREACH-like)
	ClientSendFails atomic.Bool
	ServerSendFails atomic.Bool
}

// New builds the world.  Call it inside a synctest bubble; call Close before the bubble ends.
func New(opt Options) (*World, error) {
	if opt.RTT == 0 {
		opt.RTT = 10 * time.Millisecond
	}
	if opt.ALPN == "" {
		opt.ALPN = "verif"
	}
	if opt.ClientKind == "" {
		opt.ClientKind = "plain"
	}
	w := &World{Opt: opt}
	if !opt.NoTap {
		w.Wire = wiretap.NewWire()
	}
	w.Router = simworld.NewRouter(ServerAddr, opt.RTT/2, w.Wire, opt.Schedule)
	w.ClientPC = simnet.NewBlockingSimConn(ClientAddr, w.Router)
	w.ServerPC = simnet.NewBlockingSimConn(ServerAddr, w.Router)

	chain := simworld.Certs(opt.CertIntermediates)
	pool := x509.NewCertPool()
	root, err := x509.ParseCertificate(chain.RootDER)
	if err != nil {
		return nil, err
	}
	pool.AddCert(root)
	w.ServerTLSConf = &tls.Config{
		Certificates: []tls.Certificate{{Certificate: chain.DER, PrivateKey: chain.Key}},
		NextProtos:   []string{opt.ALPN, "h3"}, // the browser parrots offer "h3" in their own ClientHello
	}
	w.ClientTLSConf = &tls.Config{ServerName: "localhost", RootCAs: pool, NextProtos: []string{opt.ALPN}}
	if w.Wire != nil {
		w.ServerTLSConf.KeyLogWriter = w.Wire.KeyLog
		w.ClientTLSConf.KeyLogWriter = w.Wire.KeyLog
	}
	if opt.ServerTLS != nil {
		opt.ServerTLS(w.ServerTLSConf)
	}
	if opt.ClientTLS != nil {
		opt.ClientTLS(w.ClientTLSConf)
	}

	if !opt.NoServer {
		w.ServerTr = &quic.Transport{Conn: &faultySocket{PacketConn: w.ServerPC, fail: &w.ServerSendFails}, ConnectionIDLength: opt.ServerCIDLen, VerifySourceAddress: opt.VerifySourceAddress}
		if opt.ServerTransport != nil {
			opt.ServerTransport(w.ServerTr)
		}
		sc := opt.ServerConf
		if sc == nil {
			sc = &quic.Config{}
		}
		if opt.Early {
			w.EarlyLn, err = w.ServerTr.ListenEarly(w.ServerTLSConf, sc)
		} else {
			w.Listener, err = w.ServerTr.Listen(w.ServerTLSConf, sc)
		}
		if err != nil {
			w.Router.Close()
			return nil, err
		}
	}
	w.ClientTr = &quic.Transport{Conn: &faultySocket{PacketConn: w.ClientPC, fail: &w.ClientSendFails}, ConnectionIDLength: opt.ClientCIDLen}
	if opt.ClientKind != "plain" {
		w.ClientUTr = &quic.UTransport{Transport: w.ClientTr}
		if opt.ClientKind == "spec" {
			w.ClientUTr.QUICSpec = opt.Spec
		}
	}
	return w, nil
}

// Dial dials the server with the configured client kind.
func (w *World) Dial(ctx context.Context) (*quic.Conn, error) {
	cc := w.Opt.ClientConf
	if cc == nil {
		cc = &quic.Config{}
	}
	if w.ClientUTr != nil {
		return w.ClientUTr.Dial(ctx, ServerAddr, w.ClientTLSConf.Clone(), cc.Clone())
	}
	return w.ClientTr.Dial(ctx, ServerAddr, w.ClientTLSConf.Clone(), cc.Clone())
}

// DialName dials like Dial, with the given TLS server name (the certificate also covers c0.test ... c15.test).
func (w *World) DialName(ctx context.Context, name string) (*quic.Conn, error) {
	cc := w.Opt.ClientConf
	if cc == nil {
		cc = &quic.Config{}
	}
	tc := w.ClientTLSConf.Clone()
	tc.ServerName = name
	if w.ClientUTr != nil {
		return w.ClientUTr.Dial(ctx, ServerAddr, tc, cc.Clone())
	}
	return w.ClientTr.Dial(ctx, ServerAddr, tc, cc.Clone())
}

// DialEarly dials with 0-RTT enabled.
func (w *World) DialEarly(ctx context.Context) (*quic.Conn, error) {
	cc := w.Opt.ClientConf
	if cc == nil {
		cc = &quic.Config{}
	}
	if w.ClientUTr != nil {
		return w.ClientUTr.DialEarly(ctx, ServerAddr, w.ClientTLSConf.Clone(), cc.Clone())
	}
	return w.ClientTr.DialEarly(ctx, ServerAddr, w.ClientTLSConf.Clone(), cc.Clone())
}

// Accept accepts one connection on the server.
func (w *World) Accept(ctx context.Context) (*quic.Conn, error) {
	if w.EarlyLn != nil {
		return w.EarlyLn.Accept(ctx)
	}
	return w.Listener.Accept(ctx)
}

// Close shuts both transports and the router down.
func (w *World) Close() {
	if w.ClientTr != nil {
		w.ClientTr.Close()
	}
	if w.Listener != nil {
		w.Listener.Close()
	}
	if w.EarlyLn != nil {
		w.EarlyLn.Close()
	}
	if w.ServerTr != nil {
		w.ServerTr.Close()
	}
	w.ClientPC.Close()
	w.ServerPC.Close()
	w.Router.Close()
}

// faultySocket passes everything through to the simulated socket, except that writes fail while *fail is set.
type faultySocket struct {
	net.PacketConn
	fail *atomic.Bool
}

var errSocketSend = errors.New("verif: network is unreachable (injected socket send error)")

func (f *faultySocket) WriteTo(b []byte, addr net.Addr) (int, error) {
	if f.fail.Load() {
		return 0, errSocketSend
	}
	return f.PacketConn.WriteTo(b, addr)
}
