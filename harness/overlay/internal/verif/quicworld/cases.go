package quicworld

import (
	"io"
	"context"
	"fmt"
	"net"
	"runtime"
	"strings"
	"sync"
	"time"

	quic "github.com/refraction-networking/uquic"
	"github.com/refraction-networking/uquic/internal/verif/simworld"
	"github.com/refraction-networking/uquic/internal/verif/wiretap"
	"github.com/refraction-networking/uquic/internal/verifhook"
	tls "github.com/refraction-networking/utls"
)

// ConnCase is one end-to-end case: a world, one connection, one application script.
type ConnCase struct {
	Name           string            `json:"name"`
	Client         string            `json:"client"` // plain | unil | <QUICID name>
	V2             bool              `json:"v2,omitempty"`
	RTTms          int               `json:"rtt_ms,omitempty"`
	Schedule       simworld.Schedule `json:"schedule"`
	Transfer       TransferSpec      `json:"transfer"`
	Retry          bool              `json:"retry,omitempty"`
	CertChain      int               `json:"cert_chain,omitempty"`
	ServerCIDLen   int               `json:"server_cid_len,omitempty"`
	KeyUpdateEvery uint64            `json:"key_update_every,omitempty"`
	Datagrams      bool              `json:"datagrams,omitempty"`
	SmallLimits    bool              `json:"small_limits,omitempty"` // both Configs: 6 / 3 streams, fixed 16 kB stream and 40 kB connection windows
	StreamLimit    int               `json:"stream_limit,omitempty"` // both Configs: this many incoming streams of either type (0: leave alone)
	ConnIdx        int               `json:"conn_idx"`
}

// CaseResult is everything the monitors observed in one case.
type CaseResult struct {
	Viols         []Viol
	DialErr       error
	AcceptErr     error
	Transfer      *TransferResult
	Taps          []*wiretap.ConnTap
	FaultsApplied int
	LastFault     time.Duration
	Leaked        []string // stacks of goroutines of the bubble still alive at the end
	RouterLog     []simworld.Event
}

// QUICIDs lists the built-in fingerprints by name.
var QUICIDs = map[string]quic.QUICID{
	"Firefox_116A": quic.QUICFirefox_116A, "Firefox_116B": quic.QUICFirefox_116B, "Firefox_116C": quic.QUICFirefox_116C,
	"Chrome_115_IPv4": quic.QUICChrome_115_IPv4, "Chrome_115_IPv6": quic.QUICChrome_115_IPv6,
	"Chrome_146_IPv4": quic.QUICChrome_146_IPv4, "Chrome_146_IPv6": quic.QUICChrome_146_IPv6,
}

// QUICIDNames in a fixed order.
var QUICIDNames = []string{"Firefox_116A", "Firefox_116B", "Firefox_116C", "Chrome_115_IPv4", "Chrome_115_IPv6", "Chrome_146_IPv4", "Chrome_146_IPv6"}

// OptionsFor translates the client/server selection of a ConnCase into world options.
func OptionsFor(cc *ConnCase) (Options, error) {
	opt := Options{Schedule: cc.Schedule, RTT: time.Duration(cc.RTTms) * time.Millisecond, ServerCIDLen: cc.ServerCIDLen, CertIntermediates: cc.CertChain}
	sconf := &quic.Config{EnableDatagrams: cc.Datagrams, MaxIdleTimeout: 60 * time.Second, HandshakeIdleTimeout: 20 * time.Second}
	cconf := &quic.Config{EnableDatagrams: cc.Datagrams, MaxIdleTimeout: 60 * time.Second, HandshakeIdleTimeout: 20 * time.Second}
	if cc.SmallLimits {
		for _, c := range []*quic.Config{sconf, cconf} {
			c.MaxIncomingStreams, c.MaxIncomingUniStreams = 6, 3
			c.InitialStreamReceiveWindow, c.MaxStreamReceiveWindow = 16<<10, 16<<10
			c.InitialConnectionReceiveWindow, c.MaxConnectionReceiveWindow = 40<<10, 40<<10
		}
	}
	if cc.StreamLimit > 0 {
		for _, c := range []*quic.Config{sconf, cconf} {
			c.MaxIncomingStreams, c.MaxIncomingUniStreams = int64(cc.StreamLimit), int64(cc.StreamLimit)
		}
	}
	if cc.V2 {
		sconf.Versions = []quic.Version{quic.Version2}
		cconf.Versions = []quic.Version{quic.Version2}
	}
	opt.ServerConf, opt.ClientConf = sconf, cconf
	if cc.Retry {
		opt.VerifySourceAddress = func(net.Addr) bool { return true }
	}
	switch cc.Client {
	case "plain", "":
		opt.ClientKind = "plain"
	case "unil":
		opt.ClientKind = "unil"
	case "plain~0rtt", "unil~0rtt":
		// a resuming client: RunConnCase first runs a fault-free priming connection (session ticket), the
		// measured connection is dialled with DialEarly and the transfer starts in 0-RTT
		opt.ClientKind = strings.TrimSuffix(cc.Client, "~0rtt")
		cache := tls.NewLRUClientSessionCache(10)
		opt.ClientTLS = func(c *tls.Config) { c.ClientSessionCache = cache }
		opt.Early = true
		sconf.Allow0RTT = true
	default:
		base, variant, _ := strings.Cut(cc.Client, "~")
		id, ok := QUICIDs[base]
		if !ok {
			return opt, fmt.Errorf("unknown client kind %q", cc.Client)
		}
		spec, err := quic.QUICID2Spec(id)
		if err != nil {
			return opt, err
		}
		switch variant {
		case "":
		case "asym":
			// small per-stream-type windows that all differ: the peer's sender has to pick the right one for
			// every stream (QUIC configs of the in-tree endpoints always advertise three equal values)
			if err := AsymmetricStreamWindows(&spec, 48<<10, 6<<10, 9<<10); err != nil {
				return opt, err
			}
		default:
			return opt, fmt.Errorf("unknown client variant %q", cc.Client)
		}
		opt.ClientKind = "spec"
		opt.Spec = &spec
	}
	return opt, nil
}

// AsymmetricStreamWindows rewrites the three initial_max_stream_data transport parameters of a spec.
func AsymmetricStreamWindows(spec *quic.QUICSpec, bidiLocal, bidiRemote, uni uint64) error {
	for _, ext := range spec.ClientHelloSpec.Extensions {
		q, ok := ext.(*tls.QUICTransportParametersExtension)
		if !ok {
			continue
		}
		seen := 0
		for i, tp := range q.TransportParameters {
			switch tp.(type) {
			case tls.InitialMaxStreamDataBidiLocal:
				q.TransportParameters[i] = tls.InitialMaxStreamDataBidiLocal(bidiLocal)
				seen++
			case tls.InitialMaxStreamDataBidiRemote:
				q.TransportParameters[i] = tls.InitialMaxStreamDataBidiRemote(bidiRemote)
				seen++
			case tls.InitialMaxStreamDataUni:
				q.TransportParameters[i] = tls.InitialMaxStreamDataUni(uni)
				seen++
			}
		}
		if seen != 3 {
			return fmt.Errorf("spec has %d of the 3 initial_max_stream_data parameters", seen)
		}
		return nil
	}
	return fmt.Errorf("spec has no QUIC transport parameters extension")
}

// RunConnCase executes one case inside the caller's synctest bubble.
func RunConnCase(cc *ConnCase) *CaseResult {
	res := &CaseResult{}
	opt, err := OptionsFor(cc)
	if err != nil {
		res.Viols = append(res.Viols, Viol{"harness|bad-case", err.Error()})
		return res
	}
	verifhook.TakePoolViolations()
	w, err := New(opt)
	if err != nil {
		res.Viols = append(res.Viols, Viol{"harness|world", err.Error()})
		return res
	}
	early := strings.HasSuffix(cc.Client, "~0rtt")
	if early {
		// priming connection, fault-free; the schedule's ordinals start with the measured connection
		w.Router.SuspendFaults(true)
		pctx, pcancel := context.WithTimeout(context.Background(), 20*time.Second)
		pch := make(chan *quic.Conn, 1)
		go func() {
			c, _ := w.Accept(pctx)
			pch <- c
		}()
		pc, perr := w.Dial(pctx)
		ps := <-pch
		if perr == nil && ps != nil {
			if s, err := pc.OpenUniStreamSync(pctx); err == nil {
				s.Write([]byte("prime"))
				s.Close()
			}
			if s, err := ps.AcceptUniStream(pctx); err == nil {
				io.ReadAll(s)
			}
			time.Sleep(100 * time.Millisecond) // session ticket
		}
		if pc != nil {
			pc.CloseWithError(0, "")
		}
		if ps != nil {
			ps.CloseWithError(0, "")
		}
		pcancel()
		time.Sleep(500 * time.Millisecond)
		w.Router.SuspendFaults(false)
		if w.Wire != nil {
			w.Wire.ResetOrdinals()
		}
		if perr != nil || ps == nil {
			res.Viols = append(res.Viols, Viol{"harness|priming-connection-failed", fmt.Sprint(perr)})
			res.DialErr = fmt.Errorf("verif: priming connection failed: %v", perr)
			w.Close()
			return res
		}
	}
	ctx, cancel := context.WithTimeout(context.Background(), 45*time.Second)
	type acc struct {
		c   *quic.Conn
		err error
	}
	accCh := make(chan acc, 1)
	go func() {
		c, err := w.Accept(ctx)
		accCh <- acc{c, err}
	}()
	var client *quic.Conn
	var derr error
	if early {
		client, derr = w.DialEarly(ctx)
	} else {
		client, derr = w.Dial(ctx)
	}
	res.DialErr = derr
	var server *quic.Conn
	if derr == nil {
		a := <-accCh
		server, res.AcceptErr = a.c, a.err
	} else {
		cancel()
		a := <-accCh
		server, res.AcceptErr = a.c, a.err
	}
	if derr == nil && res.AcceptErr == nil {
		res.Transfer = RunTransfer(ctx, client, server, cc.ConnIdx, cc.Transfer)
		res.Viols = append(res.Viols, res.Transfer.Viols...)
	}
	cancel()
	if client != nil {
		client.CloseWithError(0, "")
	}
	if server != nil {
		server.CloseWithError(0, "")
	}
	res.FaultsApplied, res.LastFault = w.Router.FaultsApplied()
	w.Close()
	// virtual: closing periods (3 PTO, with retransmission time-outs inflated by losses) and timers
	time.Sleep(3*time.Second + 60*opt.RTT)
	if w.Wire != nil {
		res.Taps = w.Wire.Snapshot()
	}
	res.RouterLog = w.Router.Log
	for _, v := range verifhook.TakePoolViolations() {
		res.Viols = append(res.Viols, Viol{"pool|" + strings.ReplaceAll(v.What, " ", "-") + "|" + v.Kind, v.String()})
	}
	return res
}

// BubbleGoroutines returns the stacks of all goroutines that belong to a synctest bubble,
// except the calling one.  Used as leak detector at the end of a case.
func BubbleGoroutines() []string {
	buf := make([]byte, 1<<20)
	buf = buf[:runtime.Stack(buf, true)]
	var out []string
	for i, g := range strings.Split(string(buf), "\n\n") {
		if i == 0 {
			continue // the caller
		}
		if strings.Contains(g, "synctest bubble") && !strings.Contains(g, "internal/synctest.Run(") && !strings.Contains(g, "testing/synctest.testingSynctestTest(") {
			out = append(out, g)
		}
	}
	return out
}

// DialResult is the outcome of one dial of a series.
type DialResult struct {
	Index     int
	DialErr   error
	AcceptErr error
	Transfer  *TransferResult
	// causes observed after the post-transfer idle period (nil = still alive)
	ClientCauseAfterIdle error
	ServerCauseAfterIdle error
	Viols                []Viol
}

// SeriesResult is the outcome of a dial series in one world.
type SeriesResult struct {
	Dials         []DialResult
	Taps          []*wiretap.ConnTap
	FaultsApplied int
	RouterLog     []simworld.Event
	WorldErr      error
}

// RunDialSeries dials n times in one world (same client transport, same spec value), each dial
// followed by the application script and an idle period of `idle` virtual time during which
// both connections must stay alive; the previous connection is closed before the next dial.
// If freshTransport is set, every dial uses a new client transport (and socket address) that
// shares the spec pointer.
func RunDialSeries(opt Options, n int, ts TransferSpec, idle time.Duration, connIdxBase int) *SeriesResult {
	res := &SeriesResult{}
	verifhook.TakePoolViolations()
	w, err := New(opt)
	if err != nil {
		res.WorldErr = err
		return res
	}
	for i := 0; i < n; i++ {
		dr := DialResult{Index: i}
		if w.Wire != nil {
			w.Wire.ResetOrdinals()
		}
		ctx, cancel := context.WithTimeout(context.Background(), 45*time.Second)
		type acc struct {
			c   *quic.Conn
			err error
		}
		accCh := make(chan acc, 1)
		go func() {
			c, err := w.Accept(ctx)
			accCh <- acc{c, err}
		}()
		// every dial of the series names another host (all covered by the certificate): the spec value is
		// reused, the server name is per dial
		name := fmt.Sprintf("c%d.test", i%16)
		client, derr := w.DialName(ctx, name)
		dr.DialErr = derr
		if derr != nil {
			cancel()
		}
		a := <-accCh
		server := a.c
		dr.AcceptErr = a.err
		if derr == nil && a.err == nil {
			if got := server.ConnectionState().TLS.ServerName; got != name {
				dr.Viols = append(dr.Viols, Viol{"sni|server-saw-another-name", fmt.Sprintf("dial %d named %q, the server saw the server name %q", i+1, name, got)})
			}
			dr.Transfer = RunTransfer(ctx, client, server, connIdxBase+i, ts)
			dr.Viols = append(dr.Viols, dr.Transfer.Viols...)
			if idle > 0 {
				time.Sleep(idle)
				if client.Context().Err() != nil {
					dr.ClientCauseAfterIdle = context.Cause(client.Context())
				}
				if server.Context().Err() != nil {
					dr.ServerCauseAfterIdle = context.Cause(server.Context())
				}
			}
		}
		cancel()
		if client != nil {
			client.CloseWithError(0, "")
		}
		if server != nil {
			server.CloseWithError(0, "")
		}
		time.Sleep(200 * time.Millisecond)
		res.Dials = append(res.Dials, dr)
	}
	res.FaultsApplied, _ = w.Router.FaultsApplied()
	w.Close()
	time.Sleep(3 * time.Second)
	if w.Wire != nil {
		res.Taps = w.Wire.Snapshot()
	}
	res.RouterLog = w.Router.Log
	for _, v := range verifhook.TakePoolViolations() {
		res.Dials[len(res.Dials)-1].Viols = append(res.Dials[len(res.Dials)-1].Viols, Viol{"pool|" + strings.ReplaceAll(v.What, " ", "-") + "|" + v.Kind, v.String()})
	}
	return res
}

// RunDialSeriesOverlap dials n times in one world (same client transport, same spec value) without
// closing anything in between: dial i+1 starts while the application script of connection i is still
// running (1.5 RTT after it started), and all connections stay open until the last script has ended
// and a further `idle` of virtual time has passed.
func RunDialSeriesOverlap(opt Options, n int, ts TransferSpec, idle time.Duration, connIdxBase int) *SeriesResult {
	res := &SeriesResult{}
	verifhook.TakePoolViolations()
	w, err := New(opt)
	if err != nil {
		res.WorldErr = err
		return res
	}
	rtt := opt.RTT
	if rtt == 0 {
		rtt = 10 * time.Millisecond
	}
	ctx, cancel := context.WithTimeout(context.Background(), 120*time.Second)
	res.Dials = make([]DialResult, n)
	clients := make([]*quic.Conn, n)
	servers := make([]*quic.Conn, n)
	var wg sync.WaitGroup
	for i := 0; i < n; i++ {
		dr := &res.Dials[i]
		dr.Index = i
		if w.Wire != nil {
			w.Wire.ResetOrdinals()
		}
		type acc struct {
			c   *quic.Conn
			err error
		}
		accCh := make(chan acc, 1)
		actx, acancel := context.WithCancel(ctx)
		go func() {
			c, err := w.Accept(actx)
			accCh <- acc{c, err}
		}()
		client, derr := w.Dial(ctx)
		dr.DialErr = derr
		if derr != nil {
			acancel()
		}
		a := <-accCh
		acancel()
		dr.AcceptErr = a.err
		clients[i], servers[i] = client, a.c
		if derr == nil && a.err == nil {
			wg.Add(1)
			go func() {
				defer wg.Done()
				dr.Transfer = RunTransfer(ctx, client, a.c, connIdxBase+i, ts)
				dr.Viols = append(dr.Viols, dr.Transfer.Viols...)
			}()
			time.Sleep(rtt + rtt/2)
		}
	}
	wg.Wait()
	if idle > 0 {
		time.Sleep(idle)
	}
	for i := 0; i < n; i++ {
		if clients[i] != nil && clients[i].Context().Err() != nil {
			res.Dials[i].ClientCauseAfterIdle = context.Cause(clients[i].Context())
		}
		if servers[i] != nil && servers[i].Context().Err() != nil {
			res.Dials[i].ServerCauseAfterIdle = context.Cause(servers[i].Context())
		}
	}
	cancel()
	for i := 0; i < n; i++ {
		if clients[i] != nil {
			clients[i].CloseWithError(0, "")
		}
		if servers[i] != nil {
			servers[i].CloseWithError(0, "")
		}
	}
	time.Sleep(200 * time.Millisecond)
	res.FaultsApplied, _ = w.Router.FaultsApplied()
	w.Close()
	time.Sleep(3 * time.Second)
	if w.Wire != nil {
		res.Taps = w.Wire.Snapshot()
	}
	res.RouterLog = w.Router.Log
	for _, v := range verifhook.TakePoolViolations() {
		res.Dials[n-1].Viols = append(res.Dials[n-1].Viols, Viol{"pool|" + strings.ReplaceAll(v.What, " ", "-") + "|" + v.Kind, v.String()})
	}
	return res
}

// RunDialsSimultaneous starts n dials at the same instant on one client transport (one spec value) and
// runs the application script on all n connections concurrently.  Client and server connections are paired
// by the TLS server name (c<i>.test).
func RunDialsSimultaneous(opt Options, n int, ts TransferSpec, idle time.Duration, connIdxBase int) *SeriesResult {
	res := &SeriesResult{}
	verifhook.TakePoolViolations()
	w, err := New(opt)
	if err != nil {
		res.WorldErr = err
		return res
	}
	ctx, cancel := context.WithTimeout(context.Background(), 120*time.Second)
	res.Dials = make([]DialResult, n)
	clients := make([]*quic.Conn, n)
	servers := make([]*quic.Conn, n)
	var smu sync.Mutex
	var awg sync.WaitGroup
	actx, acancel := context.WithCancel(ctx)
	awg.Add(1)
	go func() {
		defer awg.Done()
		for got := 0; got < n; got++ {
			sc, err := w.Accept(actx)
			if err != nil {
				return
			}
			name := sc.ConnectionState().TLS.ServerName
			var i int
			if _, err := fmt.Sscanf(name, "c%d.test", &i); err != nil || i < 0 || i >= n {
				continue
			}
			smu.Lock()
			servers[i] = sc
			smu.Unlock()
		}
	}()
	var dwg sync.WaitGroup
	for i := 0; i < n; i++ {
		res.Dials[i].Index = i
		dwg.Add(1)
		go func() {
			defer dwg.Done()
			clients[i], res.Dials[i].DialErr = w.DialName(ctx, fmt.Sprintf("c%d.test", i))
		}()
	}
	dwg.Wait()
	// every dial that succeeded has a server side, possibly a moment later
	for k := 0; k < 200; k++ {
		missing := false
		smu.Lock()
		for i := 0; i < n; i++ {
			missing = missing || (clients[i] != nil && servers[i] == nil)
		}
		smu.Unlock()
		if !missing {
			break
		}
		time.Sleep(50 * time.Millisecond)
	}
	acancel()
	awg.Wait()
	var wg sync.WaitGroup
	for i := 0; i < n; i++ {
		dr := &res.Dials[i]
		if dr.DialErr != nil {
			continue
		}
		if servers[i] == nil {
			dr.AcceptErr = fmt.Errorf("no accepted connection with server name c%d.test", i)
			continue
		}
		wg.Add(1)
		go func() {
			defer wg.Done()
			dr.Transfer = RunTransfer(ctx, clients[i], servers[i], connIdxBase+i, ts)
			dr.Viols = append(dr.Viols, dr.Transfer.Viols...)
		}()
	}
	wg.Wait()
	if idle > 0 {
		time.Sleep(idle)
	}
	for i := 0; i < n; i++ {
		if clients[i] != nil && clients[i].Context().Err() != nil {
			res.Dials[i].ClientCauseAfterIdle = context.Cause(clients[i].Context())
		}
		if servers[i] != nil && servers[i].Context().Err() != nil {
			res.Dials[i].ServerCauseAfterIdle = context.Cause(servers[i].Context())
		}
	}
	cancel()
	for i := 0; i < n; i++ {
		if clients[i] != nil {
			clients[i].CloseWithError(0, "")
		}
		if servers[i] != nil {
			servers[i].CloseWithError(0, "")
		}
	}
	time.Sleep(200 * time.Millisecond)
	res.FaultsApplied, _ = w.Router.FaultsApplied()
	w.Close()
	time.Sleep(3*time.Second + 60*opt.RTT)
	if w.Wire != nil {
		res.Taps = w.Wire.Snapshot()
	}
	res.RouterLog = w.Router.Log
	for _, v := range verifhook.TakePoolViolations() {
		res.Dials[n-1].Viols = append(res.Dials[n-1].Viols, Viol{"pool|" + strings.ReplaceAll(v.What, " ", "-") + "|" + v.Kind, v.String()})
	}
	return res
}

// AwaitOrDeadlock waits for done.  Inside a synctest bubble a goroutine that waits for a sync.Mutex is not
// "durably blocked": virtual time stops, synctest.Wait never returns, and a time.After based limit would
// never fire - a lock-order deadlock in the code under test would hang the whole bubble until the
// runner's wall-clock watchdog.  So the wait is done by yielding: the other goroutines get the processor
// again and again; if after many rounds done has not happened and the same goroutine of the bubble sits in
// the same Mutex.Lock / RWMutex call as many rounds before, the goroutines involved are reported as a
// deadlock (their stacks are returned).  If nobody waits for a lock, the wait falls back to virtual time.
func AwaitOrDeadlock(done <-chan struct{}, virtualLimit time.Duration) (ok bool, deadlock string) {
	lockWaiters := func() map[string]string {
		out := map[string]string{}
		for _, g := range BubbleGoroutines() {
			head, _, _ := strings.Cut(g, "\n")
			if strings.Contains(head, "sync.Mutex.Lock") || strings.Contains(head, "sync.RWMutex") || strings.Contains(head, "semacquire") {
				id, _, _ := strings.Cut(head, " [")
				out[id] = g
			}
		}
		return out
	}
	var before map[string]string
	for round := 0; round < 40; round++ {
		for i := 0; i < 20000; i++ {
			select {
			case <-done:
				return true, ""
			default:
			}
			runtime.Gosched()
		}
		now := lockWaiters()
		if len(now) == 0 {
			break // nobody waits for a lock: whatever is pending needs (virtual) time
		}
		if round >= 10 && before != nil {
			var stuck []string
			for id, g := range now {
				if prev, was := before[id]; was && prev == g {
					stuck = append(stuck, g)
				}
			}
			if len(stuck) > 0 {
				return false, strings.Join(stuck, "\n\n")
			}
		}
		if round%10 == 0 {
			before = now
		}
	}
	select {
	case <-done:
		return true, ""
	case <-time.After(virtualLimit):
		return false, ""
	}
}
