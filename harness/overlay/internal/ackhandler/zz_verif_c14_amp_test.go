package ackhandler

// C14 part (a) — anti-amplification limit at the ackhandler level.
//
// Runtime monitor: a server-perspective sentPacketHandler whose peer address is not validated
// is driven like connection.go drives it (ReceivedBytes for every datagram, SendMode consulted
// before every datagram, an expired loss timer fired first, PTO modes answered with
// QueueProbePacket + a probe, at most one coalesced datagram per permission).  The oracle keeps
// its own two byte counters and its own notion of validation (a Handshake packet was
// received).  On every prefix of the history, while unvalidated:
//
//	* SendMode() == SendNone whenever sent >= 3 x received;
//	* sent <= 3 x received + size of the one datagram that was permitted last.

import (
	"fmt"
	"math/rand/v2"
	"strings"
	"testing"
	"time"

	"github.com/refraction-networking/uquic/internal/monotime"
	"github.com/refraction-networking/uquic/internal/protocol"
	"github.com/refraction-networking/uquic/internal/utils"
	"github.com/refraction-networking/uquic/internal/verif/evlog"
	"github.com/refraction-networking/uquic/internal/wire"
)

type c14Stats struct {
	histories, calls, modeChecks, blockedSeen, datagrams, packets   int64
	bytesSent, bytesRcvd, rcvCalls, rcvPackets, timeouts, ptoProbes int64
	acks, validations, permittedLast, sendAny, sendOther            int64
	maxOvershoot                                                    int64
}

func (s *c14Stats) flush(l *evlog.Log) {
	for k, v := range map[string]int64{
		"amp_histories": s.histories, "amp_api_calls": s.calls, "amp_sendmode_checks": s.modeChecks, "amp_sendnone_at_limit": s.blockedSeen,
		"amp_datagrams_sent": s.datagrams, "amp_packets_sent": s.packets, "amp_bytes_sent": s.bytesSent, "amp_bytes_received": s.bytesRcvd,
		"amp_received_bytes_calls": s.rcvCalls, "amp_received_packet_calls": s.rcvPackets, "amp_loss_timeouts": s.timeouts, "amp_pto_probes": s.ptoProbes,
		"amp_initial_acks": s.acks, "amp_validations": s.validations, "amp_datagrams_crossing_limit": s.permittedLast,
		"amp_sendmode_any": s.sendAny, "amp_sendmode_limited_other": s.sendOther,
	} {
		if v != 0 {
			l.Count(k, v)
		}
	}
	l.Max("max:amp_overshoot_bytes", s.maxOvershoot)
	m := s.maxOvershoot
	*s = c14Stats{maxOvershoot: m}
}

type c14Run struct {
	st  *c14Stats
	sph SentPacketHandler
	now monotime.Time

	sent, rcvd, lastDatagram protocol.ByteCount
	validated                bool
	initialAlive             bool
	outInitial               []protocol.PacketNumber // ack-eliciting Initial packets sent (for ACKs)
	lastOp                   string

	hist    []string
	sig     string
	detail  string
	stopped bool

	nRcv, nDatagram, nBlocked, nTimeout, nPTO int
}

const c14Start = monotime.Time(2_000_000_000_000)

func newC14Run(u bool, rttMs int, st *c14Stats) *c14Run {
	r := &c14Run{st: st, now: c14Start, initialAlive: true}
	rtt := utils.NewRTTStats()
	if rttMs > 0 {
		rtt.UpdateRTT(time.Duration(rttMs)*time.Millisecond, 0)
	}
	if u {
		r.sph = NewUAckHandler(0, 1200, rtt, &utils.ConnectionStats{}, false, false, nil, protocol.PerspectiveServer, nil, utils.DefaultLogger)
	} else {
		r.sph = NewSentPacketHandler(0, 1200, rtt, &utils.ConnectionStats{}, false, false, nil, protocol.PerspectiveServer, nil, utils.DefaultLogger)
	}
	st.histories++
	return r
}

func (r *c14Run) log(f string, a ...any) {
	r.st.calls++
	r.lastOp = f
	if i := strings.IndexByte(f, ' '); i > 0 {
		r.lastOp = f[:i]
	}
	r.hist = append(r.hist, fmt.Sprintf("t=+%v ", r.now.Sub(c14Start))+fmt.Sprintf(f, a...))
}

func (r *c14Run) fail(sig, detail string) {
	if r.sig == "" {
		r.sig, r.detail = sig, detail
	}
	r.stopped = true
}

// mode queries SendMode and evaluates the first clause of the property.
func (r *c14Run) mode() SendMode {
	m := r.sph.SendMode(r.now)
	if r.validated {
		return m
	}
	r.st.modeChecks++
	if r.sent >= 3*r.rcvd {
		if m != SendNone {
			r.hist = append(r.hist, fmt.Sprintf("SendMode -> %s", m))
			r.fail("C14|amp|send-permitted-at-limit", fmt.Sprintf("address not validated, sent %d >= 3 x received %d, but SendMode() = %s (after %s)", r.sent, r.rcvd, m, r.lastOp))
		} else {
			r.st.blockedSeen++
		}
	} else if m == SendAny {
		r.st.sendAny++
	} else {
		r.st.sendOther++
	}
	return m
}

func (r *c14Run) bound() {
	if r.validated || r.stopped {
		return
	}
	if over := int64(r.sent) - 3*int64(r.rcvd); over > 0 {
		r.st.maxOvershoot = max(r.st.maxOvershoot, over)
	}
	if r.sent > 3*r.rcvd+r.lastDatagram {
		r.fail("C14|amp|bound-exceeded", fmt.Sprintf("address not validated: sent %d > 3 x received %d + last permitted datagram %d (after %s)", r.sent, r.rcvd, r.lastDatagram, r.lastOp))
	}
}

func (r *c14Run) rcvBytes(n protocol.ByteCount) {
	if r.stopped {
		return
	}
	r.log("ReceivedBytes %d", n)
	r.rcvd += n
	r.st.rcvCalls++
	r.st.bytesRcvd += int64(n)
	r.nRcv++
	r.sph.ReceivedBytes(n, r.now)
	r.mode()
	r.bound()
}

func (r *c14Run) rcvPacket(l protocol.EncryptionLevel) {
	if r.stopped {
		return
	}
	r.log("ReceivedPacket %s", l)
	r.st.rcvPackets++
	if l == protocol.EncryptionHandshake && !r.validated {
		r.validated = true
		r.st.validations++
	}
	r.sph.ReceivedPacket(l, r.now)
	r.mode()
	r.bound()
}

func (r *c14Run) timeout() {
	if r.stopped {
		return
	}
	r.log("OnLossDetectionTimeout")
	r.st.timeouts++
	r.nTimeout++
	if err := r.sph.OnLossDetectionTimeout(r.now); err != nil {
		r.hist = append(r.hist, "-> "+err.Error())
		r.stopped = true
		return
	}
	r.mode()
	r.bound()
}

type c14Part struct {
	level protocol.EncryptionLevel
	size  protocol.ByteCount
	ackEl bool
}

// trySend is one iteration of the connection's send path: SendMode, then at most one datagram.
// want lists the packets the connection would like to coalesce into that datagram.
func (r *c14Run) trySend(want []c14Part) {
	if r.stopped {
		return
	}
	if t := r.sph.GetLossDetectionTimeout(); !t.IsZero() && !t.After(r.now) {
		r.timeout() // connection.run: an expired timer fires before sending
		if r.stopped {
			return
		}
	}
	r.lastOp = "trySend"
	m := r.mode()
	if r.stopped {
		return
	}
	var parts []c14Part
	switch m {
	case SendNone:
		r.nBlocked++
		return
	case SendAny:
		parts = want
	case SendAck, SendPacingLimited:
		parts = []c14Part{{level: want[0].level, size: min(want[0].size, 60), ackEl: false}}
	case SendPTOInitial, SendPTOHandshake, SendPTOAppData:
		l := protocol.EncryptionInitial
		if m == SendPTOHandshake {
			l = protocol.EncryptionHandshake
		} else if m == SendPTOAppData {
			l = protocol.Encryption1RTT
		}
		if l == protocol.EncryptionInitial && !r.initialAlive {
			return
		}
		r.log("QueueProbePacket %s", l)
		r.sph.QueueProbePacket(l)
		r.st.ptoProbes++
		r.nPTO++
		parts = []c14Part{{level: l, size: want[0].size, ackEl: true}}
	}
	var total protocol.ByteCount
	before := r.sent
	for _, p := range parts {
		if p.level == protocol.EncryptionInitial && !r.initialAlive {
			continue
		}
		pn := r.sph.PopPacketNumber(p.level)
		var frames []Frame
		if p.ackEl {
			frames = []Frame{{Frame: &wire.PingFrame{}}}
			if p.level == protocol.EncryptionInitial {
				r.outInitial = append(r.outInitial, pn)
			}
		}
		r.log("SentPacket %s pn=%d size=%d ack-eliciting=%v", p.level, pn, p.size, p.ackEl)
		r.sent += p.size
		total += p.size
		r.st.packets++
		r.st.bytesSent += int64(p.size)
		r.sph.SentPacket(r.now, pn, protocol.InvalidPacketNumber, nil, frames, p.level, r.sph.ECNMode(false), p.size, false, false)
	}
	if total == 0 {
		return
	}
	r.lastDatagram = total
	r.st.datagrams++
	r.nDatagram++
	if !r.validated && before < 3*r.rcvd && r.sent >= 3*r.rcvd {
		r.st.permittedLast++
	}
	r.mode()
	r.bound()
}

// ackInitial delivers a datagram of n bytes that carries an Initial packet with an ACK.
func (r *c14Run) ackInitial(n protocol.ByteCount, all bool) {
	if r.stopped || !r.initialAlive {
		return
	}
	r.rcvBytes(n)
	if len(r.outInitial) > 0 && !r.stopped {
		lo := r.outInitial[0]
		if !all {
			lo = r.outInitial[len(r.outInitial)-1]
		}
		hi := r.outInitial[len(r.outInitial)-1]
		r.log("ReceivedAck Initial [%d..%d]", lo, hi)
		r.st.acks++
		if _, err := r.sph.ReceivedAck(&wire.AckFrame{AckRanges: []wire.AckRange{{Smallest: lo, Largest: hi}}}, protocol.EncryptionInitial, r.now); err != nil {
			r.hist = append(r.hist, "-> "+err.Error())
			r.stopped = true
			return
		}
		r.mode()
		r.bound()
	}
	r.rcvPacket(protocol.EncryptionInitial)
}

// validate delivers the first Handshake packet of the client.
func (r *c14Run) validate(n protocol.ByteCount) {
	if r.stopped {
		return
	}
	r.rcvBytes(n)
	if r.initialAlive && !r.stopped {
		r.log("DropPackets Initial")
		r.initialAlive = false
		r.sph.DropPackets(protocol.EncryptionInitial, r.now)
		r.mode()
		r.bound()
	}
	r.rcvPacket(protocol.EncryptionHandshake)
}

func (r *c14Run) toDeadline() {
	if t := r.sph.GetLossDetectionTimeout(); !t.IsZero() {
		if t.After(r.now) {
			r.now = t
		}
		r.timeout()
	}
}

func (r *c14Run) report(c *evlog.Case, seen map[string]int, inputs any) {
	if r.sig == "" {
		return
	}
	seen[r.sig]++
	if seen[r.sig] > 3 {
		c.Count("violations_same_signature_not_logged", 1)
		return
	}
	c.Violation(r.sig, r.detail, map[string]any{"inputs": inputs, "history": r.hist})
}

func c14Guard(r *c14Run) {
	if p := recover(); p != nil {
		r.fail("C14|amp|panic", fmt.Sprintf("panic after %s: %v", r.lastOp, p))
	}
}

// ---------------------------------------------------------------------------------------
// exhaustive over a small alphabet

var c14Alphabet = []string{"R1200", "R1", "R400", "Sfull", "Ssmall", "Scoal", "T", "A"}

func c14RunExhaustive(seq []int, u bool, st *c14Stats) (r *c14Run) {
	r = newC14Run(u, 0, st)
	defer c14Guard(r)
	for _, op := range seq {
		if r.stopped {
			break
		}
		switch op {
		case 0:
			r.rcvBytes(1200)
			r.rcvPacket(protocol.EncryptionInitial)
		case 1:
			r.rcvBytes(1)
		case 2:
			r.rcvBytes(400)
			r.rcvPacket(protocol.Encryption0RTT)
		case 3:
			r.trySend([]c14Part{{protocol.EncryptionInitial, 1452, true}})
		case 4:
			r.trySend([]c14Part{{protocol.EncryptionInitial, 40, false}})
		case 5:
			r.trySend([]c14Part{{protocol.EncryptionInitial, 300, true}, {protocol.EncryptionHandshake, 1000, true}, {protocol.Encryption1RTT, 152, true}})
		case 6:
			r.toDeadline()
		case 7:
			r.ackInitial(50, true)
		}
		r.now = r.now.Add(time.Millisecond)
	}
	return r
}

func TestVerifC14AmpExhaustive(t *testing.T) {
	l := evlog.Open("C14")
	defer l.Close()
	maxLen := l.Pick(6, 8)
	k := len(c14Alphabet)
	var st c14Stats
	seen := map[string]int{} // per shard: a signature is logged with its trace at most 3 times
	idx := 0
	for n := 1; n <= maxLen; n++ {
		// one case per (length, first two ops)
		prefixes := k * k
		if n == 1 {
			prefixes = k
		}
		for pre := 0; pre < prefixes; pre++ {
			mine := l.Mine(idx)
			idx++
			if !mine {
				continue
			}
			id := fmt.Sprintf("C14/amp/exh/len%d/p%02d", n, pre)
			c := l.Begin(id, map[string]any{"length": n, "prefix": pre, "alphabet": c14Alphabet})
			if c == nil {
				continue
			}
			seq := make([]int, n)
			fixed := min(n, 2)
			if n == 1 {
				seq[0] = pre
			} else {
				seq[0], seq[1] = pre/k, pre%k
			}
			total := 1
			for i := fixed; i < n; i++ {
				total *= k
			}
			for x := 0; x < total; x++ {
				y := x
				for i := fixed; i < n; i++ {
					seq[i] = y % k
					y /= k
				}
				r := c14RunExhaustive(seq, x&1 == 1, &st)
				fp := ""
				if r.nDatagram+r.nBlocked > 0 {
					fp = fmt.Sprintf("x/%v", seq)
				}
				c.Eval(fp)
				r.report(c, seen, map[string]any{"ops": seq})
			}
			st.flush(l)
			c.End()
		}
	}
}

// ---------------------------------------------------------------------------------------
// generated histories

func c14Bucket(n int) int {
	switch {
	case n < 4:
		return n
	case n < 8:
		return 4
	case n < 16:
		return 5
	case n < 32:
		return 6
	}
	return 7
}

func c14RunRandom(rng *rand.Rand, st *c14Stats) (r *c14Run) {
	r = newC14Run(rng.IntN(3) == 0, []int{0, 0, 10, 100, 1 + rng.IntN(800)}[rng.IntN(5)], st)
	defer c14Guard(r)
	n := 6 + rng.IntN(60)
	// the connection exists because a datagram with an Initial packet arrived
	first := protocol.ByteCount(1200 + rng.IntN(253))
	if rng.IntN(20) == 0 {
		first = protocol.ByteCount(1 + rng.IntN(1452))
	}
	r.rcvBytes(first)
	r.rcvPacket(protocol.EncryptionInitial)
	greedy := rng.IntN(2) == 0 // a server with a long certificate chain: always wants to send
	for step := 0; step < n && !r.stopped; step++ {
		x := rng.IntN(100)
		if greedy && x >= 30 && x < 60 {
			x = 0
		}
		switch {
		case x < 40:
			var parts []c14Part
			switch rng.IntN(5) {
			case 0:
				parts = []c14Part{{protocol.EncryptionInitial, protocol.ByteCount(30 + rng.IntN(60)), rng.IntN(2) == 0}}
			case 1:
				a := protocol.ByteCount(100 + rng.IntN(500))
				parts = []c14Part{{protocol.EncryptionInitial, a, true}, {protocol.EncryptionHandshake, protocol.ByteCount(1452) - a, true}}
			case 2:
				a, b := protocol.ByteCount(100+rng.IntN(300)), protocol.ByteCount(100+rng.IntN(600))
				parts = []c14Part{{protocol.EncryptionInitial, a, rng.IntN(4) != 0}, {protocol.EncryptionHandshake, b, true}, {protocol.Encryption1RTT, protocol.ByteCount(1452) - a - b, true}}
			case 3:
				parts = []c14Part{{protocol.EncryptionHandshake, protocol.ByteCount(1000 + rng.IntN(453)), true}}
			default:
				parts = []c14Part{{[]protocol.EncryptionLevel{protocol.EncryptionInitial, protocol.EncryptionHandshake, protocol.Encryption1RTT}[rng.IntN(3)], protocol.ByteCount(21 + rng.IntN(1432)), rng.IntN(8) != 0}}
			}
			r.trySend(parts)
		case x < 58:
			var sz protocol.ByteCount
			switch rng.IntN(4) {
			case 0:
				sz = protocol.ByteCount(1 + rng.IntN(40))
			case 1:
				sz = protocol.ByteCount(40 + rng.IntN(400))
			default:
				sz = protocol.ByteCount(1200 + rng.IntN(253))
			}
			r.rcvBytes(sz)
			switch rng.IntN(4) {
			case 0:
				r.rcvPacket(protocol.EncryptionInitial)
			case 1:
				r.rcvPacket(protocol.Encryption0RTT)
			case 2: // coalesced Initial + 0-RTT
				r.rcvPacket(protocol.EncryptionInitial)
				r.rcvPacket(protocol.Encryption0RTT)
			}
		case x < 68:
			r.ackInitial(protocol.ByteCount(40+rng.IntN(1300)), rng.IntN(2) == 0)
		case x < 80:
			r.toDeadline()
		case x < 97:
			switch rng.IntN(4) {
			case 0:
				r.now = r.now.Add(time.Duration(1+rng.IntN(999)) * time.Microsecond)
			case 1, 2:
				r.now = r.now.Add(time.Duration(1+rng.IntN(300)) * time.Millisecond)
			default:
				r.now = r.now.Add(time.Duration(1+rng.IntN(20)) * time.Second)
			}
			r.mode()
		default:
			r.validate(protocol.ByteCount(40 + rng.IntN(1400)))
			// a few more datagrams: nothing is demanded any more, the calls must still work
			for i := 0; i < 3; i++ {
				r.trySend([]c14Part{{protocol.EncryptionHandshake, protocol.ByteCount(1000 + rng.IntN(453)), true}})
			}
			return r
		}
	}
	return r
}

func TestVerifC14AmpRandom(t *testing.T) {
	l := evlog.Open("C14")
	defer l.Close()
	n := l.Pick(400000, 8000000)
	const batch = 1000
	var st c14Stats
	seen := map[string]int{} // per shard
	for bi := 0; bi*batch < n; bi++ {
		if !l.Mine(bi) {
			continue
		}
		id := fmt.Sprintf("C14/amp/random/%06d", bi)
		c := l.Begin(id, map[string]any{"batch": bi, "histories": batch})
		if c == nil {
			continue
		}
		rng := l.Rand(id)
		for k := 0; k < batch; k++ {
			r := c14RunRandom(rng, &st)
			fp := ""
			if r.nDatagram+r.nBlocked > 0 {
				v := 0
				if r.validated {
					v = 1
				}
				fp = fmt.Sprintf("r/%d/%d/%d/%d/%d/%d", c14Bucket(r.nRcv), c14Bucket(r.nDatagram), c14Bucket(r.nBlocked), c14Bucket(r.nTimeout), c14Bucket(r.nPTO), v)
			}
			c.Eval(fp)
			r.report(c, seen, map[string]any{"index_in_batch": k})
			if k == 0 && bi < 2 {
				c.Sample("amp-random-history", map[string]any{"calls": r.hist[:min(len(r.hist), 14)], "sent": r.sent, "received": r.rcvd})
			}
		}
		st.flush(l)
		c.End()
	}
}
