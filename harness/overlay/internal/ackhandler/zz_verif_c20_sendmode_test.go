package ackhandler

// C20, handler-level clause: new ack-eliciting data is released only while the bytes in flight
// are below the congestion window (probe packets and pure ACKs excepted).
//
// Runtime monitor.  The real sentPacketHandler (with its real Reno sender, pacer and RTTStats) is
// driven through generated 1-RTT histories: greedy sending according to SendMode, ACK frames with
// arbitrary ranges (reordering-threshold losses), loss-detection timer (time-threshold losses
// and PTOs with probe packets), MTU probe packets and MTU increases.  Next to it runs an
// independent shadow of the bytes in flight, maintained only from what was sent and from the
// per-frame OnAcked / OnLost callbacks.  Whenever SendMode returns SendAny or SendPacingLimited
// the shadow must be below the congestion window.

import (
	"fmt"
	"math"
	"math/rand/v2"
	"sort"
	"testing"
	"time"

	"github.com/refraction-networking/uquic/internal/congestion"
	"github.com/refraction-networking/uquic/internal/monotime"
	"github.com/refraction-networking/uquic/internal/protocol"
	"github.com/refraction-networking/uquic/internal/utils"
	"github.com/refraction-networking/uquic/internal/verif/evlog"
	"github.com/refraction-networking/uquic/internal/wire"
)

// c20HOp is one state-relative operation of a handler history.
//
//	S  up to A times: consult SendMode and send what it allows (data of size B, 0 = full size);
//	   C=1: on SendPacingLimited jump to TimeUntilSend; D=1: in SendAck mode send a pure ACK
//	A  ACK frame for B of the unresolved packets (A&3: 0 oldest, 1 newest, 2 block at offset D,
//	   3 every other), ack delay E µs
//	X  fire the loss-detection timer (advance to it if it lies in the future)
//	T  advance the clock by A ns
//	M  SetMaxDatagramSize(A)
//	B  send an MTU probe packet of size A if SendMode is SendAny
type c20HOp struct {
	K string `json:"k"`
	A int64  `json:"a,omitempty"`
	B int64  `json:"b,omitempty"`
	C int64  `json:"c,omitempty"`
	D int64  `json:"d,omitempty"`
	E int64  `json:"e,omitempty"`
}

type c20HCfg struct {
	ECN    bool  `json:"ecn,omitempty"` // ECN enabled: packets are marked as the handler says, ACK frames carry ECT(0) / CE counts
	Server bool  `json:"server"`
	MDS    int64 `json:"mds"`
	Start  int64 `json:"start"`
}

type c20HFrame struct {
	r    *c20HRun
	pn   protocol.PacketNumber
	size protocol.ByteCount
	done bool
}

func (f *c20HFrame) resolve(acked bool) {
	if f.done {
		f.r.fail("C20|handler|packet-resolved-twice", "packet %d acknowledged or lost more than once", f.pn)
		return
	}
	f.done = true
	f.r.shadow -= f.size
	delete(f.r.open, f.pn)
	if acked {
		f.r.acked++
	} else {
		f.r.lost++
	}
}
func (f *c20HFrame) OnAcked(wire.Frame) { f.resolve(true) }
func (f *c20HFrame) OnLost(wire.Frame)  { f.resolve(false) }

type c20HRun struct {
	cfg    c20HCfg
	h      *sentPacketHandler
	now    monotime.Time
	mds    protocol.ByteCount
	shadow protocol.ByteCount // bytes in flight: ack-eliciting, sent, neither acknowledged nor declared lost
	eventPrior protocol.ByteCount // the shadow when the current ACK / timer event began
	sizes      map[protocol.PacketNumber]protocol.ByteCount
	spyCalls   int
	marks      map[protocol.PacketNumber]protocol.ECN
	counted    map[protocol.PacketNumber]bool
	ect0, ce   int64
	curAckTop  protocol.PacketNumber // largest acknowledged of the ACK frame being processed
	ceEvents   int
	open   map[protocol.PacketNumber]*c20HFrame
	sentPN []protocol.PacketNumber // all packet numbers used (including pure ACKs)

	viols []c20HViol
	seen  map[string]bool
	opIdx int

	nAny, nPacing, nAckCong, nAckOther, nPTO, nNone, sent, acked, lost, ackOnly, probes, mtuProbes, mtu, timers, ackFrames, ackErrs, mismatch, waits int
}

type c20HViol struct {
	sig, detail string
	op          int
}

func (r *c20HRun) fail(sig, f string, a ...any) {
	if r.seen[sig] {
		return
	}
	r.seen[sig] = true
	r.viols = append(r.viols, c20HViol{sig: sig, detail: fmt.Sprintf("op %d: ", r.opIdx) + fmt.Sprintf(f, a...), op: r.opIdx})
}

func c20HNew(cfg c20HCfg) *c20HRun {
	r := &c20HRun{cfg: cfg, now: monotime.Time(cfg.Start), mds: protocol.ByteCount(cfg.MDS), open: map[protocol.PacketNumber]*c20HFrame{}, seen: map[string]bool{}, sizes: map[protocol.PacketNumber]protocol.ByteCount{}, marks: map[protocol.PacketNumber]protocol.ECN{}, counted: map[protocol.PacketNumber]bool{}}
	pers := protocol.PerspectiveClient
	if cfg.Server {
		pers = protocol.PerspectiveServer
	}
	rtt := utils.NewRTTStats()
	rtt.SetMaxAckDelay(25 * time.Millisecond)
	r.h = NewSentPacketHandler(0, r.mds, rtt, &utils.ConnectionStats{}, true, cfg.ECN, nil, pers, nil, utils.DefaultLogger).(*sentPacketHandler)
	// the handshake is over: only the application-data packet number space is left
	r.h.DropPackets(protocol.EncryptionInitial, r.now)
	r.h.DropPackets(protocol.EncryptionHandshake, r.now)
	r.h.congestion = &c20Spy{SendAlgorithmWithDebugInfos: r.h.congestion, r: r}
	return r
}

func (r *c20HRun) cwnd() protocol.ByteCount { return r.h.congestion.GetCongestionWindow() }

// mode consults SendMode and evaluates the gating clause.
func (r *c20HRun) mode() SendMode {
	m := r.h.SendMode(r.now)
	w := r.cwnd()
	if r.h.getBytesInFlightC20() != r.shadow {
		r.mismatch++
	}
	switch m {
	case SendAny, SendPacingLimited:
		if m == SendAny {
			r.nAny++
		} else {
			r.nPacing++
		}
		if r.shadow >= w {
			r.fail("C20|handler|sendmode-allows-data-at-full-window", "SendMode = %s with %d bytes in flight (handler's own count %d) and congestion window %d", m, r.shadow, r.h.getBytesInFlightC20(), w)
		}
	case SendAck:
		if r.shadow >= w {
			r.nAckCong++
		} else {
			r.nAckOther++
		}
	case SendPTOAppData:
		r.nPTO++
	case SendNone:
		r.nNone++
	default:
		r.fail("C20|handler|unexpected-send-mode", "SendMode = %s after the handshake", m)
	}
	return m
}

func (h *sentPacketHandler) getBytesInFlightC20() protocol.ByteCount { return h.bytesInFlight }

// c20Spy sits between the handler and its congestion controller: what the handler tells the controller
// about the bytes in flight decides whether the controller regards the sender as window-limited, so the
// arguments are compared with the independent shadow (the value before the current event for
// acknowledgements and losses, the value including the packet for a send).
type c20Spy struct {
	congestion.SendAlgorithmWithDebugInfos
	r *c20HRun
}

func (s *c20Spy) OnPacketSent(t monotime.Time, bytesInFlight protocol.ByteCount, pn protocol.PacketNumber, bytes protocol.ByteCount, retransmittable bool) {
	s.r.spyCalls++
	if bytesInFlight != s.r.shadow {
		s.r.fail("C20|handler|controller-told-wrong-bytes-in-flight|sent", "OnPacketSent(packet %d, %d bytes, ack-eliciting %v): bytes in flight %d, independent count %d", pn, bytes, retransmittable, bytesInFlight, s.r.shadow)
	}
	if f := s.r.open[pn]; (f != nil) != retransmittable || (f != nil && f.size != bytes) {
		s.r.fail("C20|handler|controller-told-wrong-packet|sent", "OnPacketSent(packet %d, %d bytes, ack-eliciting %v) does not match what was sent", pn, bytes, retransmittable)
	}
	s.SendAlgorithmWithDebugInfos.OnPacketSent(t, bytesInFlight, pn, bytes, retransmittable)
}

func (s *c20Spy) OnPacketAcked(pn protocol.PacketNumber, ackedBytes, priorInFlight protocol.ByteCount, t monotime.Time) {
	s.r.spyCalls++
	if priorInFlight != s.r.eventPrior {
		s.r.fail("C20|handler|controller-told-wrong-bytes-in-flight|acked", "OnPacketAcked(packet %d): prior bytes in flight %d, independent count before this ACK %d", pn, priorInFlight, s.r.eventPrior)
	}
	if sz, ok := s.r.sizes[pn]; !ok || sz != ackedBytes {
		s.r.fail("C20|handler|controller-told-wrong-packet|acked", "OnPacketAcked(packet %d, %d bytes): sent with %d bytes (known: %v)", pn, ackedBytes, sz, ok)
	}
	s.SendAlgorithmWithDebugInfos.OnPacketAcked(pn, ackedBytes, priorInFlight, t)
}

func (s *c20Spy) OnCongestionEvent(pn protocol.PacketNumber, lostBytes, priorInFlight protocol.ByteCount) {
	s.r.spyCalls++
	if priorInFlight != s.r.eventPrior {
		s.r.fail("C20|handler|controller-told-wrong-bytes-in-flight|lost", "OnCongestionEvent(packet %d): prior bytes in flight %d, independent count before this event %d", pn, priorInFlight, s.r.eventPrior)
	}
	if lostBytes == 0 {
		// an ECN-CE report: the controller takes the number as "the packet up to which this congestion was
		// seen" and cuts back once per window - it has to be the largest packet the ACK acknowledges
		s.r.ceEvents++
		if pn != s.r.curAckTop {
			s.r.fail("C20|handler|controller-told-wrong-packet|ecn-ce", "OnCongestionEvent for an ECN-CE report names packet %d, the ACK's largest acknowledged is %d", pn, s.r.curAckTop)
		}
	}
	if sz, ok := s.r.sizes[pn]; lostBytes != 0 && (!ok || sz != lostBytes) {
		s.r.fail("C20|handler|controller-told-wrong-packet|lost", "OnCongestionEvent(packet %d, %d bytes): sent with %d bytes (known: %v)", pn, lostBytes, sz, ok)
	}
	s.SendAlgorithmWithDebugInfos.OnCongestionEvent(pn, lostBytes, priorInFlight)
}

func (s *c20Spy) CanSend(bytesInFlight protocol.ByteCount) bool {
	s.r.spyCalls++
	if bytesInFlight != s.r.shadow {
		s.r.fail("C20|handler|controller-told-wrong-bytes-in-flight|cansend", "CanSend(%d), independent count %d", bytesInFlight, s.r.shadow)
	}
	return s.SendAlgorithmWithDebugInfos.CanSend(bytesInFlight)
}

func (r *c20HRun) send(size protocol.ByteCount, ackEliciting, mtuProbe bool) {
	pn := r.h.PopPacketNumber(protocol.Encryption1RTT)
	var frames []Frame
	if ackEliciting {
		f := &c20HFrame{r: r, pn: pn, size: size}
		frames = []Frame{{Frame: &wire.PingFrame{}, Handler: f}}
		r.open[pn] = f
		r.shadow += size
		r.sizes[pn] = size
	}
	r.sentPN = append(r.sentPN, pn)
	ecn := protocol.ECNNon
	if r.cfg.ECN {
		ecn = r.h.ECNMode(true)
		r.marks[pn] = ecn
	}
	r.h.SentPacket(r.now, pn, protocol.InvalidPacketNumber, nil, frames, protocol.Encryption1RTT, ecn, size, mtuProbe, false)
}

func (r *c20HRun) size(b int64) protocol.ByteCount {
	if b <= 0 || protocol.ByteCount(b) > r.mds {
		return r.mds
	}
	return protocol.ByteCount(b)
}

func (r *c20HRun) opSend(op c20HOp) {
	for i := int64(0); i < op.A; i++ {
		switch r.mode() {
		case SendAny:
			r.send(r.size(op.B), true, false)
			r.sent++
		case SendPacingLimited:
			if op.C == 0 {
				return
			}
			t := r.h.TimeUntilSend()
			if t.After(r.now) {
				r.now = t
			} else {
				r.now = r.now.Add(time.Millisecond)
			}
			r.waits++
		case SendPTOAppData:
			if op.D != 0 {
				r.h.QueueProbePacket(protocol.Encryption1RTT)
			}
			r.send(r.size(op.B), true, false)
			r.probes++
		case SendAck:
			if op.D != 0 {
				r.send(protocol.ByteCount(40+op.B%60), false, false)
				r.ackOnly++
			}
			return
		default:
			return
		}
	}
}

func (r *c20HRun) opAck(op c20HOp) {
	if len(r.open) == 0 || op.B <= 0 {
		return
	}
	pns := make([]protocol.PacketNumber, 0, len(r.open))
	for pn := range r.open {
		pns = append(pns, pn)
	}
	sort.Slice(pns, func(i, j int) bool { return pns[i] < pns[j] })
	n := len(pns)
	cnt := int(min(op.B, int64(n)))
	var sel []protocol.PacketNumber
	switch op.A & 3 {
	case 0:
		sel = pns[:cnt]
	case 1:
		sel = pns[n-cnt:]
	case 2:
		off := int(op.D % int64(n))
		sel = pns[off:min(n, off+cnt)]
	default:
		for i := int(op.D % int64(n)); i < n && len(sel) < cnt; i += 2 {
			sel = append(sel, pns[i])
		}
	}
	if len(sel) == 0 {
		return
	}
	// ranges, highest first; only packet numbers that were really sent are acknowledged
	var ranges []wire.AckRange
	for i := len(sel) - 1; i >= 0; i-- {
		pn := sel[i]
		if k := len(ranges); k > 0 && ranges[k-1].Smallest == pn+1 {
			ranges[k-1].Smallest = pn
		} else {
			ranges = append(ranges, wire.AckRange{Smallest: pn, Largest: pn})
		}
	}
	r.ackFrames++
	r.eventPrior = r.shadow
	ack := &wire.AckFrame{AckRanges: ranges, DelayTime: time.Duration(op.E) * time.Microsecond}
	r.curAckTop = ack.LargestAcked()
	if r.cfg.ECN {
		// cumulative counts as a conformant receiver reports them; now and then the network marks one or
		// two of the newly acknowledged packets CE
		for _, pn := range sel {
			if r.marks[pn] == protocol.ECT0 && !r.counted[pn] {
				r.counted[pn] = true
				if op.E%5 == 0 && op.D%3 != 2 {
					r.ce++
				} else {
					r.ect0++
				}
			}
		}
		ack.ECT0, ack.ECNCE = uint64(r.ect0), uint64(r.ce)
	}
	_, err := r.h.ReceivedAck(ack, protocol.Encryption1RTT, r.now)
	if err != nil {
		r.ackErrs++
	}
}

func (r *c20HRun) exec(ops []c20HOp) {
	defer func() {
		if e := recover(); e != nil {
			r.fail("C20|handler|panic", "panic: %v", e)
		}
	}()
	for i, op := range ops {
		r.opIdx = i
		switch op.K {
		case "S":
			r.opSend(op)
		case "A":
			r.opAck(op)
		case "X":
			t := r.h.GetLossDetectionTimeout()
			if t.IsZero() {
				continue
			}
			if t.After(r.now) {
				r.now = t
			}
			r.timers++
			r.eventPrior = r.shadow
			r.h.OnLossDetectionTimeout(r.now)
		case "T":
			if op.A > 0 && int64(r.now) < math.MaxInt64/2 {
				r.now = r.now.Add(time.Duration(op.A))
			}
		case "M":
			if s := protocol.ByteCount(op.A); s >= r.mds {
				if s > r.mds {
					r.mtu++
				}
				r.mds = s
				r.h.SetMaxDatagramSize(s)
			}
		case "B":
			if r.mode() == SendAny && protocol.ByteCount(op.A) > r.mds {
				r.send(protocol.ByteCount(op.A), true, true)
				r.mtuProbes++
			}
		}
		r.mode()
	}
	r.opIdx = len(ops)
}

func c20HBucket(n int) int {
	b := 0
	for n > 0 {
		n >>= 1
		b++
	}
	return b
}

func (r *c20HRun) fingerprint() string {
	if r.acked+r.lost == 0 {
		return ""
	}
	return fmt.Sprintf("handler|%v|m%d|s%d|a%d|l%d|any%d|pl%d|ac%d|ao%d|pto%d|n%d|p%d|mp%d|mt%d|t%d|w%d",
		r.cfg.Server, r.cfg.MDS/100, c20HBucket(r.sent), c20HBucket(r.acked), c20HBucket(r.lost), c20HBucket(r.nAny), c20HBucket(r.nPacing), c20HBucket(r.nAckCong),
		min(r.nAckOther, 2), c20HBucket(r.nPTO), min(r.nNone, 1), min(r.probes, 4), min(r.mtuProbes, 2), min(r.mtu, 2), c20HBucket(r.timers), c20HBucket(r.waits))
}

var c20HSizes = []int64{1200, 1252, 1280, 1350, 1452}

func c20HGen(rng *rand.Rand) (c20HCfg, []c20HOp) {
	cfg := c20HCfg{ECN: rng.IntN(2) == 0, Server: rng.IntN(2) == 0, MDS: c20HSizes[rng.IntN(len(c20HSizes))], Start: int64(time.Hour) + rng.Int64N(int64(time.Hour))}
	rtt := math.Exp(math.Log(1e4) + rng.Float64()*(math.Log(5e9)-math.Log(1e4))) // 10 µs … 5 s
	wLoss := rng.IntN(4)
	wTimer := rng.IntN(3)
	wMisc := rng.IntN(3)
	wBulk := 2 + rng.IntN(5)
	total := wLoss + wTimer + wMisc + wBulk
	n := 10 + rng.IntN(190)
	var ops []c20HOp
	adv := func(base float64) {
		ops = append(ops, c20HOp{K: "T", A: int64(base*(0.3+1.4*rng.Float64())) + 1})
	}
	sizeArg := func() int64 {
		if rng.IntN(3) == 0 {
			return int64(1 + rng.IntN(1500))
		}
		return 0
	}
	for len(ops) < n {
		x := rng.IntN(total)
		switch {
		case x < wBulk:
			k := int64(1 + rng.IntN(60))
			ops = append(ops, c20HOp{K: "S", A: k, B: sizeArg(), C: int64(rng.IntN(2)), D: int64(rng.IntN(2))})
			adv(rtt)
			ops = append(ops, c20HOp{K: "A", A: 0, B: 1 + rng.Int64N(k+1), E: int64(rng.IntN(30000))})
		case x < wBulk+wLoss:
			ops = append(ops, c20HOp{K: "S", A: int64(4 + rng.IntN(40)), B: sizeArg(), C: 1})
			adv(rtt)
			ops = append(ops, c20HOp{K: "A", A: int64(1 + rng.IntN(3)), B: int64(1 + rng.IntN(6)), D: int64(rng.IntN(50)), E: int64(rng.IntN(30000))})
		case x < wBulk+wLoss+wTimer:
			if rng.IntN(3) == 0 {
				adv(rtt * 4)
			}
			ops = append(ops, c20HOp{K: "X"})
			if rng.IntN(2) == 0 {
				ops = append(ops, c20HOp{K: "S", A: int64(1 + rng.IntN(4)), B: sizeArg(), D: int64(rng.IntN(2))})
			}
		default:
			switch rng.IntN(5) {
			case 0:
				ops = append(ops, c20HOp{K: "M", A: c20HSizes[rng.IntN(len(c20HSizes))]})
			case 1:
				ops = append(ops, c20HOp{K: "B", A: c20HSizes[rng.IntN(len(c20HSizes))]})
			case 2:
				ops = append(ops, c20HOp{K: "T", A: int64(math.Exp(rng.Float64() * math.Log(1e11)))})
			default:
				ops = append(ops, c20HOp{K: "A", A: int64(rng.IntN(4)), B: int64(1 + rng.IntN(100)), D: int64(rng.IntN(50))})
			}
		}
	}
	return cfg, ops
}

func c20HHas(cfg c20HCfg, ops []c20HOp, sig string) (bool, string) {
	r := c20HNew(cfg)
	r.exec(ops)
	for _, v := range r.viols {
		if v.sig == sig {
			return true, v.detail
		}
	}
	return false, ""
}

func c20HShrink(cfg c20HCfg, ops []c20HOp, v c20HViol) ([]c20HOp, string) {
	if v.op+1 < len(ops) {
		ops = ops[:v.op+1]
	}
	ops = append([]c20HOp(nil), ops...)
	detail := v.detail
	budget := 600
	for chunk := max(1, len(ops)/2); budget > 0; {
		removed := false
		for i := 0; i+chunk <= len(ops) && budget > 0; {
			cand := append(append([]c20HOp(nil), ops[:i]...), ops[i+chunk:]...)
			budget--
			if ok, d := c20HHas(cfg, cand, v.sig); ok {
				ops, detail, removed = cand, d, true
			} else {
				i += chunk
			}
		}
		if chunk == 1 {
			if !removed {
				break
			}
		} else {
			chunk /= 2
		}
	}
	return ops, detail
}

func TestVerifC20SendMode(t *testing.T) {
	l := evlog.Open("C20")
	defer l.Close()
	const perBatch = 100
	batches := l.Pick(60, 6000)
	reported := map[string]int{}
	for b := 0; b < batches; b++ {
		if !l.Mine(b) {
			continue
		}
		id := fmt.Sprintf("sendmode/batch%05d", b)
		c := l.Begin(id, map[string]any{"histories": perBatch})
		if c == nil {
			continue
		}
		rng := l.Rand(id)
		for h := 0; h < perBatch; h++ {
			cfg, ops := c20HGen(rng)
			r := c20HNew(cfg)
			r.exec(ops)
			c.Eval(r.fingerprint())
			l.Count("handler_histories", 1)
			l.Count("controller_calls_checked", int64(r.spyCalls))
			l.Count("ecn_ce_events_checked", int64(r.ceEvents))
			l.Count("sendmode_any", int64(r.nAny))
			l.Count("sendmode_pacing_limited", int64(r.nPacing))
			l.Count("sendmode_ack_congestion_limited", int64(r.nAckCong))
			l.Count("sendmode_ack_other", int64(r.nAckOther))
			l.Count("sendmode_pto", int64(r.nPTO))
			l.Count("sendmode_none", int64(r.nNone))
			l.Count("handler_data_packets_sent", int64(r.sent))
			l.Count("handler_probe_packets_sent", int64(r.probes))
			l.Count("handler_pure_acks_sent", int64(r.ackOnly))
			l.Count("handler_mtu_probes_sent", int64(r.mtuProbes))
			l.Count("handler_mtu_increases", int64(r.mtu))
			l.Count("handler_packets_acked", int64(r.acked))
			l.Count("handler_packets_lost", int64(r.lost))
			l.Count("handler_ack_frames", int64(r.ackFrames))
			l.Count("handler_ack_frames_rejected", int64(r.ackErrs))
			l.Count("handler_timer_events", int64(r.timers))
			l.Count("handler_pacer_waits", int64(r.waits))
			l.Count("handler_shadow_differs_from_bytes_in_flight", int64(r.mismatch))
			for _, v := range r.viols {
				reported[v.sig]++
				l.Count("violations_"+v.sig, 1)
				if reported[v.sig] > 2 {
					continue
				}
				small, detail := c20HShrink(cfg, ops, v)
				c.Violation(v.sig, detail, map[string]any{"cfg": cfg, "ops": small, "original_len": len(ops)})
			}
		}
		c.End()
	}
}
