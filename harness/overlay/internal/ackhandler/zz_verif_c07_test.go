package ackhandler

// C07 — ACKs acknowledge only what was received; duplicates are never processed twice.
//
// Runtime monitor (component level, E2): the real receivedPacketHistory, receivedPacketTracker,
// appDataReceivedPacketTracker and ReceivedPacketHandler are driven the way connection.go and
// packet_packer.go drive them (duplicate gate -> [IgnorePacketsBelow from an ACK carried by the
// packet] -> ReceivedPacket; GetAckFrame polls with explicit monotime values), next to a
// reference model of each packet number space (sorted PN sets, no interval arithmetic).
//
// Model per space:
//   shadow   every PN that was processed (gate said "not duplicate" and ReceivedPacket accepted)
//   tracked  the tracked history: shadow minus PNs below the forget threshold minus PNs in
//            ranges pruned because more than protocol.MaxNumAckRanges ranges were tracked
//   unacked  ack-eliciting PNs in tracked that no emitted ACK frame has covered yet (+ arrival)
//   must     pending claim "the next GetAckFrame must return a frame" with its reason

import (
	"fmt"
	"testing"
	"time"

	"github.com/refraction-networking/uquic/internal/monotime"
	"github.com/refraction-networking/uquic/internal/protocol"
	"github.com/refraction-networking/uquic/internal/utils"
	"github.com/refraction-networking/uquic/internal/verif/evlog"
	"github.com/refraction-networking/uquic/internal/wire"
)

type c07pn = protocol.PacketNumber

const c07T0 = monotime.Time(3600 * int64(time.Second))

// reasons for "an ACK must be available at the next poll"
const (
	c07MustSecond = 1 + iota
	c07MustReveal
	c07MustFill
	c07MustNoAlarm
	c07MustLateAlarm
	c07MustImmediate
	c07MustExpired
)

var c07MustName = [...]string{"", "second-ack-eliciting", "gap-revealed", "gap-filled", "no-alarm-and-not-queued", "alarm-later-than-max-ack-delay", "initial-handshake-immediate", "timer-expired"}

type c07Stats struct {
	arrivals, processed, dupTracked, dupBelow, dupPrunedReprocessed, dupPrunedDropped int64
	acks, acksNil, ackRanges, acksFull, ackEqualsModel, ackDiffersModel               int64
	mustCnt                                                                           [8]int64
	mustChecked                                                                       [8]int64
	alarmDueOK, ignoreBelow, pruned, ecnCE, ecnECT, timerAcks, dupSweeps              int64
	wireRoundtrips, zeroRTT, drops, histRangeChecks                                   int64
}

func (s *c07Stats) flush(l *evlog.Log) {
	l.Count("arrivals", s.arrivals)
	l.Count("packets_processed", s.processed)
	l.Count("dup_recognised_tracked", s.dupTracked)
	l.Count("dup_recognised_below_threshold", s.dupBelow)
	l.Count("dup_pruned_reprocessed", s.dupPrunedReprocessed)
	l.Count("dup_pruned_dropped", s.dupPrunedDropped)
	l.Count("acks_checked", s.acks)
	l.Count("ack_polls_nil", s.acksNil)
	l.Count("ack_ranges_checked", s.ackRanges)
	l.Count("acks_with_max_num_ranges", s.acksFull)
	l.Count("ack_equals_model_tracked", s.ackEqualsModel)
	l.Count("ack_differs_from_model_tracked", s.ackDiffersModel)
	for i := 1; i < len(c07MustName); i++ {
		l.Count("must_set/"+c07MustName[i], s.mustCnt[i])
		l.Count("must_verified/"+c07MustName[i], s.mustChecked[i])
	}
	l.Count("alarm_within_max_ack_delay", s.alarmDueOK)
	l.Count("ignore_below_calls", s.ignoreBelow)
	l.Count("model_ranges_pruned", s.pruned)
	l.Count("ecn_ce_packets", s.ecnCE)
	l.Count("ecn_ect_packets", s.ecnECT)
	l.Count("timer_expiry_acks", s.timerAcks)
	l.Count("dup_sweeps", s.dupSweeps)
	l.Count("wire_roundtrips", s.wireRoundtrips)
	l.Count("zero_rtt_packets", s.zeroRTT)
	l.Count("space_drops", s.drops)
	l.Count("history_range_checks", s.histRangeChecks)
	*s = c07Stats{}
}

// ---------------------------------------------------------------------------------------
// sorted PN sets

func c07Find(s []c07pn, p c07pn) (int, bool) {
	lo, hi := 0, len(s)
	for hi-lo > 8 {
		m := (lo + hi) / 2
		if s[m] < p {
			lo = m + 1
		} else {
			hi = m
		}
	}
	for lo < hi && s[lo] < p {
		lo++
	}
	return lo, lo < len(s) && s[lo] == p
}

func c07Insert(s []c07pn, p c07pn) ([]c07pn, bool) {
	i, ok := c07Find(s, p)
	if ok {
		return s, false
	}
	s = append(s, 0)
	copy(s[i+1:], s[i:])
	s[i] = p
	return s, true
}

func c07DropBelow(s []c07pn, p c07pn) []c07pn {
	i, _ := c07Find(s, p)
	if i == 0 {
		return s
	}
	n := copy(s, s[i:])
	return s[:n]
}

func c07CountRanges(s []c07pn) int {
	n := 0
	for i := range s {
		if i == 0 || s[i] != s[i-1]+1 {
			n++
		}
	}
	return n
}

// ---------------------------------------------------------------------------------------
// reference model of one packet number space

type c07SUT interface {
	dup(pn c07pn) bool
	recv(pn c07pn, ecn protocol.ECN, t monotime.Time, ae bool) error
	ignore(pn c07pn)
	ack(now monotime.Time, onlyIfQueued bool) *wire.AckFrame
	alarm() monotime.Time
}

type c07Space struct {
	comp        string // signature component
	strict      bool   // every tracked packet counts as ack-eliciting and un-acked (bare history)
	timed       bool   // application data space (delayed ACKs); false: Initial / Handshake
	shadow      []c07pn
	tracked     []c07pn
	nRanges     int
	ignoreBelow c07pn
	unPN        []c07pn
	unAt        []monotime.Time
	lastAck     []wire.AckRange
	hasLast     bool
	ackLargest  []c07pn // largest acked of every emitted ACK frame (candidates for IgnoreBelow)
	must        int
	mustSeen    uint8
	nAcks       int
	nDups       int
	sig, detail string
	st          *c07Stats
}

func (m *c07Space) reset(comp string, timed bool, st *c07Stats) {
	m.comp, m.timed, m.st = comp, timed, st
	m.shadow, m.tracked, m.unPN, m.unAt, m.lastAck, m.ackLargest = m.shadow[:0], m.tracked[:0], m.unPN[:0], m.unAt[:0], m.lastAck[:0], m.ackLargest[:0]
	m.nRanges, m.ignoreBelow, m.hasLast, m.must, m.mustSeen, m.nAcks, m.nDups = 0, 0, false, 0, 0, 0, 0
	m.sig, m.detail = "", ""
	m.strict = false
}

func (m *c07Space) fail(class, f string, a ...any) {
	if m.sig == "" {
		m.sig = "C07|" + m.comp + "|" + class
		m.detail = fmt.Sprintf(f, a...)
	}
}

func (m *c07Space) failed() bool { return m.sig != "" }

func (m *c07Space) largest() c07pn {
	if len(m.shadow) == 0 {
		return protocol.InvalidPacketNumber
	}
	return m.shadow[len(m.shadow)-1]
}

func (m *c07Space) setMust(r int) {
	if m.must == 0 {
		m.must = r
		m.mustSeen |= 1 << uint(r)
		m.st.mustCnt[r]++
	}
}

func (m *c07Space) dropUnackedBelow(p c07pn) {
	k := 0
	for i, q := range m.unPN {
		if q >= p {
			m.unPN[k], m.unAt[k] = q, m.unAt[i]
			k++
		}
	}
	if k != len(m.unPN) {
		m.unPN, m.unAt = m.unPN[:k], m.unAt[:k]
		m.must = 0 // re-derived by checkDue
	}
}

// dueTime is the latest time by which an ACK has to be due: earliest un-acked arrival + max_ack_delay.
func (m *c07Space) dueTime() monotime.Time {
	d := m.unAt[0]
	for _, t := range m.unAt[1:] {
		if t < d {
			d = t
		}
	}
	return d.Add(protocol.MaxAckDelay)
}

// missingBetween reports whether a PN in the open interval (lo, hi) was never received.
func (m *c07Space) missingBetween(lo, hi c07pn) bool {
	if hi-lo <= 1 {
		return false
	}
	i, _ := c07Find(m.shadow, lo+1)
	j, _ := c07Find(m.shadow, hi)
	return c07pn(j-i) < hi-lo-1
}

func c07InRanges(rs []wire.AckRange, p c07pn) bool {
	for _, r := range rs {
		if p >= r.Smallest && p <= r.Largest {
			return true
		}
	}
	return false
}

// checkDup evaluates the duplicate oracle for pn against the SUT's answer d.
// It returns the class of pn: 0 fresh, 1 tracked, 2 below threshold (received before), 3 pruned, 4 fresh but below threshold.
func (m *c07Space) checkDup(pn c07pn, d bool) int {
	_, inShadow := c07Find(m.shadow, pn)
	switch {
	case pn < m.ignoreBelow && inShadow:
		if !d {
			m.fail("duplicate-not-recognised|below-forget-threshold", "IsPotentiallyDuplicate(%d)=false, but %d was received before (forget threshold %d)", pn, pn, m.ignoreBelow)
		}
		return 2
	case pn < m.ignoreBelow:
		return 4
	case !inShadow:
		if d {
			m.fail("fresh-packet-dropped-as-duplicate", "IsPotentiallyDuplicate(%d)=true, but %d was never received and is not below the forget threshold %d", pn, pn, m.ignoreBelow)
		}
		return 0
	}
	if _, inTracked := c07Find(m.tracked, pn); inTracked {
		if !d {
			lo := m.tracked[0]
			m.fail("duplicate-not-recognised|tracked-range", "IsPotentiallyDuplicate(%d)=false, but %d was received before and lies inside the tracked history (lowest tracked %d, %d ranges, forget threshold %d)", pn, pn, lo, m.nRanges, m.ignoreBelow)
		}
		return 1
	}
	return 3
}

// sweep checks the duplicate oracle for every PN received so far plus the neighbours of the tracked set.
func (m *c07Space) sweep(s c07SUT) {
	m.st.dupSweeps++
	for _, p := range m.shadow {
		m.checkDup(p, s.dup(p))
	}
	for i, p := range m.tracked {
		if i == 0 || m.tracked[i-1] != p-1 {
			if p > 0 {
				m.checkDup(p-1, s.dup(p-1))
			}
		}
		if i == len(m.tracked)-1 || m.tracked[i+1] != p+1 {
			m.checkDup(p+1, s.dup(p+1))
		}
	}
	m.checkDup(m.ignoreBelow, s.dup(m.ignoreBelow))
}

// arrive is one packet reaching the endpoint, handled as connection.go does it.
// ackOf >= 0: the packet carries an ACK for one of our packets that contained an ACK frame with
// largest acked ackOf-1, so the sent packet handler calls IgnorePacketsBelow(ackOf) while the frames
// are handled, i.e. after the duplicate gate and before ReceivedPacket.
func (m *c07Space) arrive(s c07SUT, pn c07pn, ecn protocol.ECN, t monotime.Time, ae bool, ackOf c07pn) {
	m.st.arrivals++
	d := s.dup(pn)
	cls := m.checkDup(pn, d)
	if m.failed() {
		return
	}
	switch cls {
	case 1:
		m.st.dupTracked++
	case 2:
		m.st.dupBelow++
	case 3:
		if d {
			m.st.dupPrunedDropped++
		} else {
			m.st.dupPrunedReprocessed++
		}
	}
	if d {
		m.nDups++
		return // dropped by the connection, frames not handled
	}
	if cls == 4 {
		return // not reachable with the real gate; nothing is demanded for such a packet
	}
	if ackOf >= 0 {
		s.ignore(ackOf)
		m.st.ignoreBelow++
		if ackOf > m.ignoreBelow {
			m.ignoreBelow = ackOf
			m.tracked = c07DropBelow(m.tracked, ackOf)
			m.nRanges = c07CountRanges(m.tracked)
			m.dropUnackedBelow(ackOf)
		}
	}
	// gap state before the packet is added
	var lastLargest c07pn
	gapBefore := false
	if m.hasLast {
		lastLargest = m.lastAck[0].Largest
		gapBefore = m.missingBetween(lastLargest, m.largest())
	}
	if err := s.recv(pn, ecn, t, ae); err != nil {
		m.fail("received-packet-error", "ReceivedPacket(%d) failed for a packet the duplicate test let through: %v", pn, err)
		return
	}
	m.st.processed++
	switch ecn {
	case protocol.ECNCE:
		m.st.ecnCE++
	case protocol.ECT0, protocol.ECT1:
		m.st.ecnECT++
	}
	m.shadow, _ = c07Insert(m.shadow, pn)
	var isNew bool
	m.tracked, isNew = c07Insert(m.tracked, pn)
	if isNew {
		i, _ := c07Find(m.tracked, pn)
		left := i > 0 && m.tracked[i-1] == pn-1
		right := i+1 < len(m.tracked) && m.tracked[i+1] == pn+1
		m.nRanges++
		if left {
			m.nRanges--
		}
		if right {
			m.nRanges--
		}
	}
	stillTracked := true
	if m.nRanges > protocol.MaxNumAckRanges {
		// the lowest ranges leave the tracked history
		drop := m.nRanges - protocol.MaxNumAckRanges
		k := 0
		for i := 1; i < len(m.tracked); i++ {
			if m.tracked[i] != m.tracked[i-1]+1 {
				drop--
				if drop == 0 {
					k = i
					break
				}
			}
		}
		m.st.pruned += int64(m.nRanges - protocol.MaxNumAckRanges)
		low := m.tracked[k]
		n := copy(m.tracked, m.tracked[k:])
		m.tracked = m.tracked[:n]
		m.nRanges = protocol.MaxNumAckRanges
		m.dropUnackedBelow(low)
		stillTracked = pn >= low
	}
	if ae && stillTracked {
		m.unPN = append(m.unPN, pn)
		m.unAt = append(m.unAt, t)
		if !m.timed {
			m.setMust(c07MustImmediate)
		} else {
			if len(m.unPN) >= 2 {
				m.setMust(c07MustSecond)
			}
			if m.hasLast {
				if !gapBefore && m.missingBetween(lastLargest, m.largest()) {
					m.setMust(c07MustReveal)
				}
				if pn < lastLargest && pn > m.lastAck[len(m.lastAck)-1].Smallest && !c07InRanges(m.lastAck, pn) {
					m.setMust(c07MustFill)
				}
			}
		}
	}
	m.checkDue(s)
}

// checkDue: every un-acked ack-eliciting packet needs an ACK that is due within max_ack_delay of its
// arrival: either the alarm is set to a time not later than that, or an ACK has to be available now
// (which is verified by the next poll; a queued ACK stays queued until it is retrieved).
func (m *c07Space) checkDue(s c07SUT) {
	if !m.timed || len(m.unPN) == 0 || m.must != 0 {
		return
	}
	a := s.alarm()
	switch {
	case a.IsZero():
		m.setMust(c07MustNoAlarm)
	case a.After(m.dueTime()):
		m.setMust(c07MustLateAlarm)
	default:
		m.st.alarmDueOK++
	}
}

// poll is one GetAckFrame call.  The returned frame counts as sent.
func (m *c07Space) poll(s c07SUT, now monotime.Time, onlyIfQueued bool) *wire.AckFrame {
	ack := s.ack(now, onlyIfQueued)
	expired := m.timed && len(m.unPN) > 0 && !now.Before(m.dueTime())
	if ack == nil {
		m.st.acksNil++
		if m.must != 0 {
			m.fail("ack-not-due|"+c07MustName[m.must], "GetAckFrame(onlyIfQueued=%v) returned nil, but an ACK has to be available (%s); un-acked ack-eliciting packets %v arrived at %v (ns after start), now %d, alarm %d", onlyIfQueued, c07MustName[m.must], m.unPN, m.relTimes(), now-c07T0, m.relAlarm(s))
		} else if expired {
			m.fail("ack-not-due|"+c07MustName[c07MustExpired], "GetAckFrame(onlyIfQueued=%v) returned nil at now=%d although packets %v arrived at %v and max_ack_delay has passed; alarm %d", onlyIfQueued, now-c07T0, m.unPN, m.relTimes(), m.relAlarm(s))
		}
		return nil
	}
	if m.must != 0 {
		m.st.mustChecked[m.must]++
	} else if expired {
		m.st.mustChecked[c07MustExpired]++
		m.st.timerAcks++
	}
	m.checkAck(ack.AckRanges)
	m.emitted(ack.AckRanges)
	return ack
}

func (m *c07Space) relTimes() []int64 {
	r := make([]int64, len(m.unAt))
	for i, t := range m.unAt {
		r[i] = int64(t - c07T0)
	}
	return r
}

func (m *c07Space) relAlarm(s c07SUT) int64 {
	a := s.alarm()
	if a.IsZero() {
		return 0
	}
	return int64(a - c07T0)
}

func (m *c07Space) emitted(rs []wire.AckRange) {
	m.nAcks++
	m.unPN, m.unAt = m.unPN[:0], m.unAt[:0]
	m.must = 0
	m.lastAck = append(m.lastAck[:0], rs...)
	m.hasLast = len(rs) > 0
	if m.hasLast {
		if n := len(m.ackLargest); n == 0 || m.ackLargest[n-1] != rs[0].Largest {
			m.ackLargest = append(m.ackLargest, rs[0].Largest)
		}
	}
}

// checkAck is the soundness / well-formedness / coverage oracle for one emitted ACK frame.
func (m *c07Space) checkAck(rs []wire.AckRange) {
	m.st.acks++
	m.st.ackRanges += int64(len(rs))
	if len(rs) >= protocol.MaxNumAckRanges {
		m.st.acksFull++
	}
	if len(rs) == 0 {
		m.fail("ack-ranges-malformed|empty", "ACK frame without ranges; received %s", c07Fmt(m.shadow))
		return
	}
	total := 0
	for i, r := range rs {
		if r.Smallest > r.Largest || r.Smallest < 0 {
			m.fail("ack-ranges-malformed|inverted", "range %d = [%d,%d]; ranges %v", i, r.Smallest, r.Largest, rs)
			return
		}
		if i > 0 {
			prev := rs[i-1]
			if r.Largest >= prev.Smallest {
				m.fail("ack-ranges-not-descending-disjoint", "range %d = [%d,%d] is not below range %d = [%d,%d]; ranges %v", i, r.Smallest, r.Largest, i-1, prev.Smallest, prev.Largest, rs)
				return
			}
			if r.Largest+1 == prev.Smallest {
				m.fail("ack-ranges-adjacent", "ranges %d = [%d,%d] and %d = [%d,%d] are adjacent (not merged); ranges %v", i-1, prev.Smallest, prev.Largest, i, r.Smallest, r.Largest, rs)
				return
			}
		}
		if r.Smallest < m.ignoreBelow {
			m.fail("ack-below-forget-threshold", "range [%d,%d] acknowledges packets below the forget threshold %d; ranges %v", r.Smallest, r.Largest, m.ignoreBelow, rs)
			return
		}
		// [Smallest, Largest] must be a subset of the received set
		a, okA := c07Find(m.shadow, r.Smallest)
		b, okB := c07Find(m.shadow, r.Largest)
		if !okA || !okB || c07pn(b-a) != r.Largest-r.Smallest {
			bad := r.Smallest
			for p := r.Smallest; p <= r.Largest; p++ {
				if _, ok := c07Find(m.shadow, p); !ok {
					bad = p
					break
				}
			}
			m.fail("ack-range-not-received", "range [%d,%d] acknowledges packet %d, which was never received; ranges %v; received %s", r.Smallest, r.Largest, bad, rs, c07Fmt(m.shadow))
			return
		}
		total += b - a + 1
	}
	if lg := m.largest(); rs[0].Largest != lg {
		m.fail("ack-largest-missing", "first range [%d,%d] does not contain the largest received packet %d; ranges %v", rs[0].Smallest, rs[0].Largest, lg, rs)
		return
	}
	for _, p := range m.unPN {
		if !c07InRanges(rs, p) {
			m.fail("ack-misses-ack-eliciting", "ACK %v does not cover ack-eliciting packet %d, which is inside the tracked history (forget threshold %d, tracked %s) and has not been acknowledged before", rs, p, m.ignoreBelow, c07Fmt(m.tracked))
			return
		}
	}
	if m.strict && total < len(m.tracked) {
		m.fail("ranges-miss-tracked-packet", "ranges %v contain %d packets, the tracked history contains %d: %s (forget threshold %d)", rs, total, len(m.tracked), c07Fmt(m.tracked), m.ignoreBelow)
		return
	}
	if total == len(m.tracked) {
		m.st.ackEqualsModel++
	} else {
		m.st.ackDiffersModel++
	}
}

// finale: let max_ack_delay pass and retrieve the ACK; afterwards nothing may be un-acked.
func (m *c07Space) finale(s c07SUT, now monotime.Time) monotime.Time {
	if m.failed() {
		return now
	}
	m.sweep(s)
	if len(m.unPN) == 0 {
		return now
	}
	if m.timed && m.must == 0 {
		if d := m.dueTime(); d.After(now) {
			now = d
		}
	}
	m.poll(s, now, true)
	return now
}

func c07Fmt(s []c07pn) string {
	// compact interval notation
	out := []byte{'{'}
	for i := 0; i < len(s); {
		j := i
		for j+1 < len(s) && s[j+1] == s[j]+1 {
			j++
		}
		if len(out) > 1 {
			out = append(out, ' ')
		}
		if j == i {
			out = fmt.Appendf(out, "%d", s[i])
		} else {
			out = fmt.Appendf(out, "%d-%d", s[i], s[j])
		}
		i = j + 1
		if len(out) > 1500 {
			out = append(out, " ..."...)
			break
		}
	}
	return string(append(out, '}'))
}

// ---------------------------------------------------------------------------------------
// adapters

type c07AppSUT struct{ tr *appDataReceivedPacketTracker }

func (a c07AppSUT) dup(pn c07pn) bool { return a.tr.IsPotentiallyDuplicate(pn) }
func (a c07AppSUT) recv(pn c07pn, ecn protocol.ECN, t monotime.Time, ae bool) error {
	return a.tr.ReceivedPacket(pn, ecn, t, ae)
}
func (a c07AppSUT) ignore(pn c07pn) { a.tr.IgnoreBelow(pn) }
func (a c07AppSUT) ack(now monotime.Time, only bool) *wire.AckFrame {
	return a.tr.GetAckFrame(now, only)
}
func (a c07AppSUT) alarm() monotime.Time { return a.tr.GetAlarmTimeout() }

type c07PlainSUT struct{ tr *receivedPacketTracker }

func (a c07PlainSUT) dup(pn c07pn) bool { return a.tr.IsPotentiallyDuplicate(pn) }
func (a c07PlainSUT) recv(pn c07pn, ecn protocol.ECN, _ monotime.Time, ae bool) error {
	return a.tr.ReceivedPacket(pn, ecn, ae)
}
func (a c07PlainSUT) ignore(c07pn)                           {}
func (a c07PlainSUT) ack(monotime.Time, bool) *wire.AckFrame { return a.tr.GetAckFrame() }
func (a c07PlainSUT) alarm() monotime.Time                   { return 0 }

type c07HandlerSUT struct {
	h     *ReceivedPacketHandler
	level protocol.EncryptionLevel // level used for ReceivedPacket / IsPotentiallyDuplicate
}

func (a c07HandlerSUT) dup(pn c07pn) bool { return a.h.IsPotentiallyDuplicate(pn, a.level) }
func (a c07HandlerSUT) recv(pn c07pn, ecn protocol.ECN, t monotime.Time, ae bool) error {
	return a.h.ReceivedPacket(pn, ecn, a.level, t, ae)
}
func (a c07HandlerSUT) ignore(pn c07pn) { a.h.IgnorePacketsBelow(pn) }
func (a c07HandlerSUT) ack(now monotime.Time, only bool) *wire.AckFrame {
	lv := a.level
	if lv == protocol.Encryption0RTT {
		lv = protocol.Encryption1RTT
	}
	return a.h.GetAckFrame(lv, now, only)
}
func (a c07HandlerSUT) alarm() monotime.Time {
	if a.level == protocol.Encryption1RTT || a.level == protocol.Encryption0RTT {
		return a.h.GetAlarmTimeout()
	}
	return 0
}

var c07Logger = utils.DefaultLogger

// c07HistSUT drives the bare receivedPacketHistory the way the trackers do: DeleteBelow only for
// increasing thresholds (IgnoreBelow filters the others), ranges read through Backward().
type c07HistSUT struct {
	h     *receivedPacketHistory
	below *c07pn
	frame *wire.AckFrame
}

func (a c07HistSUT) dup(pn c07pn) bool { return a.h.IsPotentiallyDuplicate(pn) }
func (a c07HistSUT) recv(pn c07pn, _ protocol.ECN, _ monotime.Time, _ bool) error {
	if !a.h.ReceivedPacket(pn) {
		return fmt.Errorf("receivedPacketHistory.ReceivedPacket(%d) = false (not new)", pn)
	}
	return nil
}
func (a c07HistSUT) ignore(pn c07pn) {
	if pn <= *a.below {
		return
	}
	*a.below = pn
	a.h.DeleteBelow(pn)
}
func (a c07HistSUT) ack(monotime.Time, bool) *wire.AckFrame {
	a.frame.AckRanges = a.frame.AckRanges[:0]
	for r := range a.h.Backward() {
		a.frame.AckRanges = append(a.frame.AckRanges, wire.AckRange{Smallest: r.Start, Largest: r.End})
	}
	return a.frame
}
func (a c07HistSUT) alarm() monotime.Time { return 0 }

// ---------------------------------------------------------------------------------------
// enumeration and generation helpers

// c07DFS enumerates every sequence over nsym symbols that extends seq, up to maxLen symbols;
// run executes a sequence from scratch and reports whether it is canonical (worth extending).
func c07DFS(seq []uint8, maxLen, nsym int, run func([]uint8) bool) {
	for s := 0; s < nsym; s++ {
		seq = append(seq, uint8(s))
		if run(seq) && len(seq) < maxLen {
			c07DFS(seq, maxLen, nsym, run)
		}
		seq = seq[:len(seq)-1]
	}
}

var c07TraceBudget = 300

func c07Report(c *evlog.Case, m *c07Space, trace func() any) {
	if !m.failed() {
		return
	}
	var tr any
	if c07TraceBudget > 0 {
		c07TraceBudget--
		tr = trace()
	}
	c.Violation(m.sig, m.detail, tr)
}

func c07Bucket(n int) int {
	b := 0
	for n > 0 {
		b++
		n >>= 1
	}
	return b
}

// c07Gen generates the arrival order of the peer's packet numbers.
type c07Gen struct {
	rng     interface{ IntN(int) int }
	mode    int
	next    c07pn
	delayed []c07pn
	desc    []c07pn // pending descending burst
}

func (g *c07Gen) fresh() c07pn {
	// the peer sends g.next; some packet numbers before it are skipped (lost or delayed)
	skip := 0
	switch g.mode {
	case 0:
		if g.rng.IntN(100) < 8 {
			skip = 1 + g.rng.IntN(3)
		}
	case 1: // gap storm: (almost) every packet opens a new range
		if g.rng.IntN(100) < 90 {
			skip = 1 + g.rng.IntN(2)
		}
	case 2:
		if g.rng.IntN(100) < 40 {
			skip = 1 + g.rng.IntN(6)
		}
	case 3:
		if g.rng.IntN(100) < 15 {
			skip = 1 + g.rng.IntN(2)
		}
	case 4:
		if g.rng.IntN(100) < 30 {
			skip = 1
		}
	}
	for i := 0; i < skip; i++ {
		keep := 50
		if g.mode == 1 {
			keep = 70
		}
		if g.rng.IntN(100) < keep && len(g.delayed) < 400 {
			g.delayed = append(g.delayed, g.next)
		}
		g.next++
	}
	p := g.next
	g.next++
	return p
}

func (g *c07Gen) pick(m *c07Space) c07pn {
	if len(g.desc) > 0 {
		p := g.desc[len(g.desc)-1]
		g.desc = g.desc[:len(g.desc)-1]
		return p
	}
	r := g.rng.IntN(100)
	dupP, delP := 8, 15
	switch g.mode {
	case 1:
		dupP, delP = 5, 12
	case 2:
		dupP, delP = 8, 45
	case 4:
		dupP, delP = 40, 15
	}
	if r < dupP && len(m.shadow) > 0 {
		switch g.rng.IntN(5) {
		case 0: // anything received before, including pruned / forgotten packets
			return m.shadow[g.rng.IntN(len(m.shadow))]
		case 1:
			return m.shadow[0]
		case 2: // a recent one
			n := len(m.shadow)
			return m.shadow[n-1-g.rng.IntN(min(n, 8))]
		default: // a boundary of a tracked range
			if len(m.tracked) == 0 {
				return m.shadow[len(m.shadow)-1]
			}
			i := g.rng.IntN(len(m.tracked))
			for i > 0 && m.tracked[i-1] == m.tracked[i]-1 && g.rng.IntN(4) != 0 {
				i--
			}
			return m.tracked[i]
		}
	}
	if r < dupP+delP && len(g.delayed) > 0 {
		i := g.rng.IntN(len(g.delayed))
		if g.rng.IntN(3) == 0 {
			i = len(g.delayed) - 1
		}
		p := g.delayed[i]
		g.delayed[i] = g.delayed[len(g.delayed)-1]
		g.delayed = g.delayed[:len(g.delayed)-1]
		return p
	}
	if g.mode == 3 && g.rng.IntN(100) < 30 {
		// a burst of fresh packets arrives in reverse order
		n := 2 + g.rng.IntN(6)
		for i := 0; i < n; i++ {
			g.desc = append(g.desc, g.fresh())
		}
		// g.desc is ascending; pick pops from the end
		p := g.desc[len(g.desc)-1]
		g.desc = g.desc[:len(g.desc)-1]
		return p
	}
	return g.fresh()
}

var c07Bases = []c07pn{0, 0, 0, 1, 2, 7, 100, 1000, 65535, 999000, 1 << 20, 1<<32 - 50, 1 << 40}

type c07Op struct {
	Kind  string // "rcv", "poll", "timer"
	Space string `json:",omitempty"`
	PN    int64
	AE    bool   `json:",omitempty"`
	ECN   uint8  `json:",omitempty"`
	At    int64  // ns after the start
	Ack   int64  `json:",omitempty"` // IgnoreBelow value carried (0 = none)
	Only  bool   `json:",omitempty"`
	Got   string `json:",omitempty"`
}

func c07AckStr(a *wire.AckFrame) string {
	if a == nil {
		return "nil"
	}
	return fmt.Sprint(a.AckRanges)
}

// ---------------------------------------------------------------------------------------
// bare receivedPacketHistory

func c07HistSymbols(U int) (pns, xs []c07pn) {
	for pn := 0; pn < U; pn++ {
		pns, xs = append(pns, c07pn(pn)), append(xs, -1)
		for x := 1; x <= pn; x++ {
			pns, xs = append(pns, c07pn(pn)), append(xs, c07pn(x))
		}
	}
	return
}

func TestVerifC07History(t *testing.T) {
	l := evlog.Open("C07")
	defer l.Close()
	st := &c07Stats{}
	m := &c07Space{}
	frame := &wire.AckFrame{}

	// ---- exhaustive: PN universe {0..U-1}, every arrival optionally preceded by DeleteBelow(x<=pn)
	U := 8
	maxLen := l.Pick(5, 6)
	pns, xs := c07HistSymbols(U)
	nsym := len(pns)
	var cur *evlog.Case
	count := true
	run := func(seq []uint8) bool {
		h := newReceivedPacketHistory()
		var below c07pn
		sut := c07HistSUT{h: h, below: &below, frame: frame}
		m.reset("history", false, st)
		m.strict = true
		kinds := 0
		for i, s := range seq {
			pn, x := pns[s], xs[s]
			if x >= 0 {
				if x <= m.ignoreBelow || h.IsPotentiallyDuplicate(pn) {
					return false // same as another sequence
				}
				kinds |= 1 << i
			}
			m.arrive(sut, pn, protocol.ECNNon, c07T0, true, x)
			m.poll(sut, c07T0, false)
			m.sweep(sut)
			if m.failed() {
				break
			}
		}
		st.histRangeChecks += int64(len(seq))
		fp := ""
		if len(seq) > 1 {
			mask := 0
			for _, p := range m.tracked {
				mask |= 1 << uint(p)
			}
			fp = string([]byte{'h', byte(len(seq)), byte(mask), byte(m.ignoreBelow), byte(kinds), byte(m.nDups)})
		}
		if !count {
			return !m.failed()
		}
		cur.Eval(fp)
		if m.failed() {
			c07Report(cur, m, func() any {
				var ops []string
				for _, s := range seq {
					if xs[s] >= 0 {
						ops = append(ops, fmt.Sprintf("DeleteBelow(%d)", xs[s]))
					}
					ops = append(ops, fmt.Sprintf("dup?+ReceivedPacket(%d)", pns[s]))
				}
				return map[string]any{"ops": ops}
			})
			return false
		}
		return true
	}
	idx := 0
	for a := 0; a < nsym; a++ {
		for b := 0; b < nsym; b++ {
			idx++
			if !l.Mine(idx) {
				continue
			}
			id := fmt.Sprintf("C07/history/exh/U%d/len%d/%02d-%02d", U, maxLen, a, b)
			c := l.Begin(id, map[string]any{"U": U, "maxLen": maxLen, "first": []any{pns[a], xs[a], pns[b], xs[b]}})
			if c == nil {
				continue
			}
			cur = c
			seq := make([]uint8, 0, maxLen)
			seq = append(seq, uint8(a))
			c.Sample("history-exhaustive", map[string]any{"universe": U, "max_arrivals": maxLen, "symbols": nsym, "first_two": []any{pns[a], xs[a], pns[b], xs[b]}})
			count = b == 0 // the one-symbol sequence is evaluated once, in the first case of its row
			ok := run(seq)
			count = true
			if ok {
				seq = append(seq, uint8(b))
				if run(seq) && maxLen > 2 {
					c07DFS(seq, maxLen, nsym, run)
				}
			}
			st.flush(l)
			c.End()
		}
	}

	// ---- random: large packet numbers, up to 3*MaxNumAckRanges gaps
	nRand := l.Pick(1600, 60000)
	const batch = 100
	for bi := 0; bi*batch < nRand; bi++ {
		if !l.Mine(bi) {
			continue
		}
		id := fmt.Sprintf("C07/history/rand/%05d", bi)
		c := l.Begin(id, map[string]any{"batch": bi, "n": batch})
		if c == nil {
			continue
		}
		rng := l.Rand(id)
		for k := 0; k < batch; k++ {
			g := &c07Gen{rng: rng, mode: rng.IntN(5), next: c07Bases[rng.IntN(len(c07Bases))]}
			nops := 20 + rng.IntN(200)
			if g.mode == 1 {
				nops = 150 + rng.IntN(3*protocol.MaxNumAckRanges+100)
			}
			pIgn := []int{0, 2, 12}[rng.IntN(3)]
			h := newReceivedPacketHistory()
			var below c07pn
			sut := c07HistSUT{h: h, below: &below, frame: frame}
			m.reset("history", false, st)
			m.strict = true
			var ops []c07Op
			maxR := 0
			prunedBefore := st.pruned
			for i := 0; i < nops && !m.failed(); i++ {
				pn := g.pick(m)
				x := c07pn(-1)
				if n := len(m.ackLargest); n > 0 && rng.IntN(100) < pIgn {
					j := n - 1 - rng.IntN(min(n, 40))
					if rng.IntN(4) == 0 || g.mode == 1 {
						j = rng.IntN(n)
					}
					if v := m.ackLargest[j] + 1; v <= pn {
						x = v
					}
				}
				ops = append(ops, c07Op{Kind: "rcv", PN: int64(pn), Ack: int64(max(x, 0))})
				m.arrive(sut, pn, protocol.ECNNon, c07T0, true, x)
				m.poll(sut, c07T0, false)
				maxR = max(maxR, m.nRanges)
				if i%8 == 0 {
					m.sweep(sut)
				}
			}
			if !m.failed() {
				m.sweep(sut)
			}
			st.histRangeChecks += int64(len(ops))
			c.Eval(fmt.Sprintf("hr/%d/%d/%d/%d/%v/%v", g.mode, c07Bucket(len(ops)), c07Bucket(m.nDups), c07Bucket(maxR), st.pruned > prunedBefore, m.ignoreBelow > 0))
			c07Report(c, m, func() any { return map[string]any{"mode": g.mode, "ops": ops} })
		}
		st.flush(l)
		c.End()
	}
}

// ---------------------------------------------------------------------------------------
// appDataReceivedPacketTracker (1-RTT space: delayed ACKs, alarm, forget threshold)

func c07ECNFor(pattern int, pn c07pn) protocol.ECN {
	if pattern == 0 {
		return protocol.ECNNon
	}
	if pn%4 == 3 {
		return protocol.ECNCE
	}
	return protocol.ECT0
}

func TestVerifC07Tracker(t *testing.T) {
	l := evlog.Open("C07")
	defer l.Close()
	st := &c07Stats{}
	m := &c07Space{}

	// ---- exhaustive.  Symbols over the PN universe {0..U-1}:
	//   [0,U) packet pn, not ack-eliciting      [U,2U) packet pn, ack-eliciting
	//   [2U,3U) / [3U,4U) the same, and the packet acknowledges our latest ACK (IgnoreBelow(largest+1))
	//   4U GetAckFrame(onlyIfQueued=true)       4U+1 GetAckFrame(onlyIfQueued=false)
	// Time pattern 0: everything at the same instant, no ECN; pattern 1: 9 ms per step, ECT(0)/CE marks.
	type cfg struct{ U, maxLen int }
	cfgs := []cfg{{6, l.Pick(6, 7)}, {8, l.Pick(5, 6)}}
	var cur *evlog.Case
	count := true
	for _, cf := range cfgs {
		U, maxLen := cf.U, cf.maxLen
		nsym := 4*U + 2
		for pattern := 0; pattern < 2; pattern++ {
			run := func(seq []uint8) bool {
				tr := newAppDataReceivedPacketTracker(c07Logger)
				sut := c07AppSUT{tr}
				m.reset("tracker", true, st)
				now := c07T0
				var kinds [8]byte
				narr := 0
				for i, s := range seq {
					if pattern == 1 {
						now = now.Add(9 * time.Millisecond)
					}
					k := int(s) / U
					kinds[i] = byte(k)
					switch {
					case k < 4:
						pn := c07pn(int(s) % U)
						x := c07pn(-1)
						if k >= 2 {
							if !m.hasLast {
								return false
							}
							x = m.lastAck[0].Largest + 1
							if x > pn || x <= m.ignoreBelow || tr.IsPotentiallyDuplicate(pn) {
								return false
							}
						}
						narr++
						m.arrive(sut, pn, c07ECNFor(pattern, pn), now, k&1 == 1, x)
					case int(s) == 4*U:
						kinds[i] = 4
						m.poll(sut, now, true)
					default:
						kinds[i] = 5
						m.poll(sut, now, false)
					}
					if !m.failed() {
						m.sweep(sut)
					}
					if m.failed() {
						break
					}
				}
				m.finale(sut, now)
				if !count {
					return !m.failed()
				}
				fp := ""
				if narr > 1 {
					b := []byte{'t', byte(U), byte(pattern), byte(len(seq)), byte(m.nAcks), byte(m.nDups), byte(m.nRanges), m.mustSeen}
					b = append(b, kinds[:len(seq)]...)
					fp = string(b)
				}
				cur.Eval(fp)
				if m.failed() {
					c07Report(cur, m, func() any {
						var ops []string
						for _, s := range seq {
							k, pn := int(s)/U, int(s)%U
							switch {
							case k < 4:
								ops = append(ops, fmt.Sprintf("packet pn=%d ackEliciting=%v ecn=%d acksOurLatestACK=%v", pn, k&1 == 1, c07ECNFor(pattern, c07pn(pn)), k >= 2))
							case int(s) == 4*U:
								ops = append(ops, "GetAckFrame(onlyIfQueued=true)")
							default:
								ops = append(ops, "GetAckFrame(onlyIfQueued=false)")
							}
						}
						return map[string]any{"U": U, "time_pattern": pattern, "ops": ops, "then": "wait until max_ack_delay after the earliest un-acked packet, GetAckFrame(onlyIfQueued=true)"}
					})
					return false
				}
				return true
			}
			idx := 0
			for a := 0; a < 2*U; a++ { // the first step is a plain packet (anything else is not canonical)
				for b := 0; b < nsym; b++ {
					idx++
					if !l.Mine(idx) {
						continue
					}
					id := fmt.Sprintf("C07/tracker/exh/U%d/len%d/p%d/%02d-%02d", U, maxLen, pattern, a, b)
					c := l.Begin(id, map[string]any{"U": U, "maxLen": maxLen, "pattern": pattern, "first": []int{a, b}})
					if c == nil {
						continue
					}
					cur = c
					c.Sample("tracker-exhaustive", map[string]any{"universe": U, "max_steps": maxLen, "symbols": nsym, "time_pattern": pattern, "first_two": []int{a, b}})
					seq := make([]uint8, 0, maxLen)
					seq = append(seq, uint8(a))
					count = b == 0
					ok := run(seq)
					count = true
					if ok {
						seq = append(seq, uint8(b))
						if run(seq) && maxLen > 2 {
							c07DFS(seq, maxLen, nsym, run)
						}
					}
					st.flush(l)
					c.End()
				}
			}
		}
	}

	// ---- random: long histories, large packet numbers, explicit times
	nRand := l.Pick(3000, 150000)
	const batch = 100
	parser := wire.NewFrameParser(false, false, false)
	for bi := 0; bi*batch < nRand; bi++ {
		if !l.Mine(bi) {
			continue
		}
		id := fmt.Sprintf("C07/tracker/rand/%05d", bi)
		c := l.Begin(id, map[string]any{"batch": bi, "n": batch})
		if c == nil {
			continue
		}
		rng := l.Rand(id)
		for k := 0; k < batch; k++ {
			g := &c07Gen{rng: rng, mode: rng.IntN(5), next: c07Bases[rng.IntN(len(c07Bases))]}
			nops := 20 + rng.IntN(250)
			if g.mode == 1 {
				nops = 150 + rng.IntN(3*protocol.MaxNumAckRanges+100)
			}
			pIgn := []int{0, 2, 12}[rng.IntN(3)]
			pAE := []int{30, 60, 90, 100}[rng.IntN(4)]
			pPoll := []int{20, 60, 95}[rng.IntN(3)]
			tr := newAppDataReceivedPacketTracker(c07Logger)
			sut := c07AppSUT{tr}
			m.reset("tracker", true, st)
			var ops []c07Op
			now := c07T0
			maxR := 0
			prunedBefore := st.pruned
			doPoll := func(kind string, only bool) {
				ack := m.poll(sut, now, only)
				ops = append(ops, c07Op{Kind: kind, At: int64(now - c07T0), Only: only, Got: c07AckStr(ack)})
				if ack == nil || m.failed() {
					return
				}
				// the packer truncates the frame to the packet size (the tracker keeps the same struct)
				ack.Truncate(1200, protocol.Version1)
				if len(ack.AckRanges) != len(m.lastAck) {
					m.checkAck(ack.AckRanges)
					m.lastAck = append(m.lastAck[:0], ack.AckRanges...)
				}
				if rng.IntN(8) == 0 && !m.failed() {
					c07WireRoundtrip(m, parser, ack)
				}
			}
			for i := 0; i < nops && !m.failed(); i++ {
				prev := now
				switch r := rng.IntN(100); {
				case r < 40:
				case r < 70:
					now = now.Add(time.Duration(1+rng.IntN(5000)) * time.Microsecond)
				case r < 90:
					now = now.Add(time.Duration(5+rng.IntN(20)) * time.Millisecond)
				default:
					now = now.Add(time.Duration(25+rng.IntN(100)) * time.Millisecond)
				}
				if a := tr.GetAlarmTimeout(); !a.IsZero() && !a.After(now) && rng.IntN(100) < 70 {
					// the connection's timer fires at the alarm time before the next packet is read
					save := now
					now = max(a, prev)
					doPoll("timer", true)
					now = save
					if m.failed() {
						break
					}
				}
				pn := g.pick(m)
				x := c07pn(-1)
				if n := len(m.ackLargest); n > 0 && rng.IntN(100) < pIgn {
					j := n - 1 - rng.IntN(min(n, 10))
					if rng.IntN(4) == 0 || g.mode == 1 {
						j = rng.IntN(n)
					}
					if v := m.ackLargest[j] + 1; v <= pn {
						x = v
					}
				}
				ecn := protocol.ECNNon
				switch e := rng.IntN(100); {
				case e < 25:
					ecn = protocol.ECT0
				case e < 30:
					ecn = protocol.ECT1
				case e < 38:
					ecn = protocol.ECNCE
				}
				ae := rng.IntN(100) < pAE
				ops = append(ops, c07Op{Kind: "rcv", PN: int64(pn), AE: ae, ECN: uint8(ecn), At: int64(now - c07T0), Ack: int64(max(x, 0))})
				m.arrive(sut, pn, ecn, now, ae, x)
				maxR = max(maxR, m.nRanges)
				if m.failed() {
					break
				}
				if rng.IntN(100) < pPoll {
					if rng.IntN(3) == 0 {
						now = now.Add(time.Duration(rng.IntN(300)) * time.Microsecond)
					}
					doPoll("poll", rng.IntN(8) != 0)
				}
				if i%16 == 0 && !m.failed() {
					m.sweep(sut)
				}
			}
			if !m.failed() {
				end := m.finale(sut, now)
				ops = append(ops, c07Op{Kind: "finale-poll", At: int64(end - c07T0), Only: true})
			}
			c.Eval(fmt.Sprintf("tr/%d/%d/%d/%d/%d/%x/%v/%v/%d/%d", g.mode, c07Bucket(len(ops)), c07Bucket(m.nDups), c07Bucket(maxR), c07Bucket(m.nAcks), m.mustSeen, st.pruned > prunedBefore, m.ignoreBelow > 0, pAE, pPoll))
			c07Report(c, m, func() any { return map[string]any{"mode": g.mode, "ops": ops} })
			if k == 0 && !m.failed() {
				c.Sample(fmt.Sprintf("tracker-random/mode%d", g.mode), map[string]any{"ops": len(ops), "acks_emitted": m.nAcks, "duplicates_dropped": m.nDups, "max_ranges": maxR, "forget_threshold": m.ignoreBelow, "first_ops": ops[:min(len(ops), 12)]})
			}
		}
		st.flush(l)
		c.End()
	}
}

// c07WireRoundtrip encodes an emitted ACK frame and parses it back: the ranges that reach the wire
// are the ranges that were checked.
func c07WireRoundtrip(m *c07Space, parser *wire.FrameParser, ack *wire.AckFrame) {
	m.st.wireRoundtrips++
	b, err := ack.Append(nil, protocol.Version1)
	if err != nil {
		m.fail("wire-roundtrip|append-error", "AckFrame.Append: %v; ranges %v", err, ack.AckRanges)
		return
	}
	typ, n, err := parser.ParseType(b, protocol.Encryption1RTT)
	if err != nil {
		m.fail("wire-roundtrip|parse-error", "ParseType: %v; ranges %v", err, ack.AckRanges)
		return
	}
	back, _, err := parser.ParseAckFrame(typ, b[n:], protocol.Encryption1RTT, protocol.Version1)
	if err != nil {
		m.fail("wire-roundtrip|parse-error", "ParseAckFrame: %v; ranges %v", err, ack.AckRanges)
		return
	}
	if len(back.AckRanges) != len(ack.AckRanges) {
		m.fail("wire-roundtrip|ranges-differ", "encoded %v, decoded %v", ack.AckRanges, back.AckRanges)
		return
	}
	for i := range back.AckRanges {
		if back.AckRanges[i] != ack.AckRanges[i] {
			m.fail("wire-roundtrip|ranges-differ", "encoded %v, decoded %v", ack.AckRanges, back.AckRanges)
			return
		}
	}
}

// ---------------------------------------------------------------------------------------
// receivedPacketTracker (Initial / Handshake: every ack-eliciting packet is acknowledged immediately)
// and the ReceivedPacketHandler that routes the three packet number spaces

func TestVerifC07Handler(t *testing.T) {
	l := evlog.Open("C07")
	defer l.Close()
	st := &c07Stats{}
	m := &c07Space{}

	// ---- exhaustive over {0..U-1}: packet(pn, ack-eliciting?) | GetAckFrame, on the bare tracker and on the
	// Handshake space of the handler
	U := 5
	maxLen := l.Pick(6, 7)
	nsym := 2*U + 1
	var cur *evlog.Case
	viaHandler := false
	run := func(seq []uint8) bool {
		var sut c07SUT
		if viaHandler {
			sut = c07HandlerSUT{h: NewReceivedPacketHandler(c07Logger), level: protocol.EncryptionHandshake}
		} else {
			sut = c07PlainSUT{newReceivedPacketTracker()}
		}
		m.reset("plain-tracker", false, st)
		narr := 0
		var kinds [8]byte
		for i, s := range seq {
			if int(s) == 2*U {
				kinds[i] = 2
				m.poll(sut, c07T0, i&1 == 0)
			} else {
				narr++
				kinds[i] = byte(int(s) / U)
				m.arrive(sut, c07pn(int(s)%U), protocol.ECNNon, c07T0, int(s) >= U, -1)
			}
			if !m.failed() {
				m.sweep(sut)
			}
			if m.failed() {
				break
			}
		}
		m.finale(sut, c07T0)
		fp := ""
		if narr > 1 {
			b := []byte{'p', byte(len(seq)), byte(m.nAcks), byte(m.nDups), byte(m.nRanges)}
			fp = string(append(b, kinds[:len(seq)]...))
		}
		cur.Eval(fp)
		if m.failed() {
			c07Report(cur, m, func() any {
				var ops []string
				for _, s := range seq {
					if int(s) == 2*U {
						ops = append(ops, "GetAckFrame")
					} else {
						ops = append(ops, fmt.Sprintf("packet pn=%d ackEliciting=%v", int(s)%U, int(s) >= U))
					}
				}
				return map[string]any{"via_handler": viaHandler, "ops": ops}
			})
			return false
		}
		return true
	}
	idx := 0
	for a := 0; a < nsym; a++ {
		for b := 0; b < nsym; b++ {
			for v := 0; v < 2; v++ {
				idx++
				if !l.Mine(idx) {
					continue
				}
				id := fmt.Sprintf("C07/plain/exh/U%d/len%d/%02d-%02d/h%d", U, maxLen, a, b, v)
				c := l.Begin(id, map[string]any{"U": U, "maxLen": maxLen, "first": []int{a, b}, "via_handler": v == 1})
				if c == nil {
					continue
				}
				cur = c
				viaHandler = v == 1
				seq := append(make([]uint8, 0, maxLen), uint8(a), uint8(b))
				if run(seq) {
					c07DFS(seq, maxLen, nsym, run)
				}
				st.flush(l)
				c.End()
			}
		}
	}

	// ---- random: three spaces interleaved, 0-RTT before / below 1-RTT, spaces dropped as the handshake proceeds
	nRand := l.Pick(2000, 100000)
	const batch = 100
	levels := [3]protocol.EncryptionLevel{protocol.EncryptionInitial, protocol.EncryptionHandshake, protocol.Encryption1RTT}
	names := [3]string{"handler/initial", "handler/handshake", "handler/appdata"}
	var ms [3]c07Space
	for bi := 0; bi*batch < nRand; bi++ {
		if !l.Mine(bi) {
			continue
		}
		id := fmt.Sprintf("C07/handler/rand/%05d", bi)
		c := l.Begin(id, map[string]any{"batch": bi, "n": batch})
		if c == nil {
			continue
		}
		rng := l.Rand(id)
		for k := 0; k < batch; k++ {
			h := NewReceivedPacketHandler(c07Logger)
			var gs [3]*c07Gen
			for i := range ms {
				ms[i].reset(names[i], i == 2, st)
				gs[i] = &c07Gen{rng: rng, mode: rng.IntN(5), next: c07Bases[rng.IntN(5)]}
			}
			gs[2].next = c07Bases[rng.IntN(len(c07Bases))]
			alive := [3]bool{true, true, true}
			nops := 30 + rng.IntN(300)
			dropAt := [2]int{rng.IntN(nops), 0}
			dropAt[1] = dropAt[0] + rng.IntN(nops-dropAt[0]+1)
			lowest1RTT := protocol.InvalidPacketNumber
			pAE := []int{40, 80, 100}[rng.IntN(3)]
			pIgn := []int{0, 3, 12}[rng.IntN(3)]
			now := c07T0
			var ops []c07Op
			failed := func() *c07Space {
				for i := range ms {
					if ms[i].failed() {
						return &ms[i]
					}
				}
				return nil
			}
			zero, drops := 0, 0
			for i := 0; i < nops && failed() == nil; i++ {
				for d := 0; d < 2; d++ {
					if i == dropAt[d] && alive[d] {
						// the packer gets a last chance to send the ACK, then the keys are dropped
						sut := c07HandlerSUT{h: h, level: levels[d]}
						ms[d].finale(sut, now)
						h.DropPackets(levels[d])
						alive[d] = false
						drops++
						st.drops++
						ops = append(ops, c07Op{Kind: "drop", Space: names[d], At: int64(now - c07T0)})
						if a := h.GetAckFrame(levels[d], now, false); a != nil && !ms[d].failed() {
							ms[d].fail("ack-after-drop", "GetAckFrame returned %v for a dropped packet number space", a.AckRanges)
						}
					}
				}
				if failed() != nil {
					break
				}
				prev := now
				switch r := rng.IntN(100); {
				case r < 50:
				case r < 85:
					now = now.Add(time.Duration(1+rng.IntN(8000)) * time.Microsecond)
				default:
					now = now.Add(time.Duration(10+rng.IntN(60)) * time.Millisecond)
				}
				// which space does the next packet belong to
				sp := 2
				if r := rng.IntN(100); r < 25 && alive[0] {
					sp = 0
				} else if r < 50 && alive[1] {
					sp = 1
				}
				mm := &ms[sp]
				if sp == 2 {
					if a := h.GetAlarmTimeout(); !a.IsZero() && !a.After(now) && rng.IntN(100) < 70 {
						a = max(a, prev)
						got := mm.poll(c07HandlerSUT{h: h, level: levels[2]}, a, true)
						ops = append(ops, c07Op{Kind: "timer", Space: names[2], At: int64(a - c07T0), Only: true, Got: c07AckStr(got)})
						if mm.failed() {
							break
						}
					}
				}
				pn := gs[sp].pick(mm)
				lv := levels[sp]
				if sp == 2 && (lowest1RTT == protocol.InvalidPacketNumber || pn <= lowest1RTT) && rng.IntN(100) < 35 {
					lv = protocol.Encryption0RTT
				}
				sut := c07HandlerSUT{h: h, level: lv}
				x := c07pn(-1)
				if n := len(mm.ackLargest); sp == 2 && lv == protocol.Encryption1RTT && n > 0 && rng.IntN(100) < pIgn {
					if v := mm.ackLargest[n-1-rng.IntN(min(n, 10))] + 1; v <= pn {
						x = v
					}
				}
				ae := rng.IntN(100) < pAE
				ecn := protocol.ECN(1 + rng.IntN(4)) // ECNNon, ECT1, ECT0, CE
				before := mm.st.processed
				ops = append(ops, c07Op{Kind: "rcv", Space: lv.String(), PN: int64(pn), AE: ae, ECN: uint8(ecn), At: int64(now - c07T0), Ack: int64(max(x, 0))})
				mm.arrive(sut, pn, ecn, now, ae, x)
				if mm.st.processed > before {
					if lv == protocol.Encryption0RTT {
						zero++
						st.zeroRTT++
					} else if lv == protocol.Encryption1RTT && (lowest1RTT == protocol.InvalidPacketNumber || pn < lowest1RTT) {
						lowest1RTT = pn
					}
				}
				if mm.failed() {
					break
				}
				if rng.IntN(100) < 70 {
					// the packer asks every live space for an ACK
					for j := 0; j < 3; j++ {
						if !alive[j] || (j != sp && rng.IntN(3) != 0) {
							continue
						}
						only := rng.IntN(8) != 0
						got := ms[j].poll(c07HandlerSUT{h: h, level: levels[j]}, now, only)
						ops = append(ops, c07Op{Kind: "poll", Space: names[j], At: int64(now - c07T0), Only: only, Got: c07AckStr(got)})
					}
				}
				if i%16 == 0 && failed() == nil {
					mm.sweep(sut)
				}
				if a := h.GetAckFrame(protocol.Encryption0RTT, now, false); a != nil && !mm.failed() {
					mm.fail("ack-for-0rtt", "GetAckFrame(0-RTT) returned %v", a.AckRanges)
				}
			}
			for j := 0; j < 3 && failed() == nil; j++ {
				if alive[j] {
					ms[j].finale(c07HandlerSUT{h: h, level: levels[j]}, now)
				}
			}
			c.Eval(fmt.Sprintf("hd/%d/%d/%d/%d/%d/%x/%d/%d/%d", c07Bucket(len(ops)), c07Bucket(ms[0].nAcks), c07Bucket(ms[1].nAcks), c07Bucket(ms[2].nAcks), c07Bucket(ms[2].nDups+ms[0].nDups), ms[2].mustSeen, c07Bucket(zero), drops, gs[2].mode))
			if f := failed(); f != nil {
				c07Report(c, f, func() any { return map[string]any{"ops": ops} })
			}
		}
		st.flush(l)
		c.End()
	}
}
