package ackhandler

// C06 — loss recovery resolves every sent frame exactly once and keeps accounts balanced.
//
// Runtime monitor: the real sentPacketHandler (NewSentPacketHandler and the uQUIC wrapper
// NewUAckHandler) is driven the way connection.go drives it (monotone explicit time, packet
// numbers from PopPacketNumber, SendMode consulted before every datagram, expired loss timer
// fired before sending, ACKs only in spaces whose keys exist, Initial dropped before Handshake,
// Retry only before the first received packet, 0-RTT rejection only before the first 1-RTT
// packet) next to a shadow table of packets.  Every frame handed in carries its own recording
// FrameHandler.  After every API call the oracle evaluates:
//
//	* per frame: OnAcked+OnLost calls <= 1, and the callback got the frame that was registered;
//	* bytesInFlight (read like the repository's tests read it) == sum of the sizes of the
//	  ack-eliciting packets (path probes excluded: they are never counted, by construction of
//	  SentPacket) that have neither been reported nor been discarded with their space;
//	  the non-zero BytesInFlight of a qlog MetricsUpdated event equals the counter at that time;
//	* an ACK whose largest number exceeds everything ever sent in the space, or that covers one
//	  of the 4 most recently skipped numbers, is answered with PROTOCOL_VIOLATION;
//	* a loss-detection deadline is set whenever Initial/Handshake data, or application data
//	  after handshake confirmation, is outstanding and sending is not amplification-blocked;
//	* every packet covered by an accepted ACK is resolved afterwards;
//	* at the end the history is completed legitimately (ACKs for everything outstanding) and
//	  every frame of a space that was not discarded has exactly one callback.

import (
	"errors"
	"fmt"
	"math/rand/v2"
	"sort"
	"testing"
	"time"

	"github.com/refraction-networking/uquic/internal/monotime"
	"github.com/refraction-networking/uquic/internal/protocol"
	"github.com/refraction-networking/uquic/internal/qerr"
	"github.com/refraction-networking/uquic/internal/utils"
	"github.com/refraction-networking/uquic/internal/verif/evlog"
	"github.com/refraction-networking/uquic/internal/wire"
	"github.com/refraction-networking/uquic/qlog"
	"github.com/refraction-networking/uquic/qlogwriter"
)

type c06Space int

const (
	c06Initial c06Space = iota
	c06Handshake
	c06App
)

var c06SpaceNames = [3]string{"initial", "handshake", "app"}

func c06SpaceOf(l protocol.EncryptionLevel) c06Space {
	switch l {
	case protocol.EncryptionInitial:
		return c06Initial
	case protocol.EncryptionHandshake:
		return c06Handshake
	default:
		return c06App
	}
}

func c06LevelName(l protocol.EncryptionLevel) string {
	switch l {
	case protocol.EncryptionInitial:
		return "Initial"
	case protocol.EncryptionHandshake:
		return "Handshake"
	case protocol.Encryption0RTT:
		return "0RTT"
	case protocol.Encryption1RTT:
		return "1RTT"
	}
	return "?"
}

// ---------------------------------------------------------------------------------------
// shadow model

type c06Frame struct {
	run    *c06Run
	pkt    *c06Pkt
	id     uint64
	stream bool
	acked  int
	lost   int
}

func (f *c06Frame) check(w wire.Frame) {
	ok := false
	switch x := w.(type) {
	case *wire.MaxDataFrame:
		ok = !f.stream && uint64(x.MaximumData) == f.id
	case *wire.StreamFrame:
		ok = f.stream && uint64(x.StreamID) == f.id
	}
	if !ok {
		f.run.viol("C06|callbacks|wrong-frame", fmt.Sprintf("callback of frame %d (packet %s/%d) received %T %+v", f.id, c06SpaceNames[f.pkt.space], f.pkt.pn, w, w))
	}
}

func (f *c06Frame) after() {
	r := f.run
	if f.pkt.dropped {
		r.st.cbAfterDrop++
		return
	}
	if f.acked+f.lost > 1 {
		class := "acked-and-lost"
		if f.acked > 1 {
			class = "acked-twice"
		} else if f.lost > 1 {
			class = "lost-twice"
		}
		r.viol("C06|callbacks|double|"+class, fmt.Sprintf("frame %d of packet %s/%d (%s): OnAcked x%d, OnLost x%d during %s",
			f.id, c06SpaceNames[f.pkt.space], f.pkt.pn, c06LevelName(f.pkt.level), f.acked, f.lost, r.curOp))
		r.stopped = true
	}
}

func (f *c06Frame) OnAcked(w wire.Frame) {
	f.acked++
	f.run.st.framesAcked++
	f.check(w)
	f.after()
}

func (f *c06Frame) OnLost(w wire.Frame) {
	f.lost++
	f.run.st.framesLost++
	f.check(w)
	f.after()
}

type c06Pkt struct {
	space   c06Space
	level   protocol.EncryptionLevel
	pn      protocol.PacketNumber
	size    protocol.ByteCount
	ackEl   bool
	mtu     bool
	probe   bool
	frames  []*c06Frame
	dropped bool // discarded together with its packet number space (or by 0-RTT rejection)
	migr    bool // a path probe that was outstanding when MigratedPath was called
}

func (p *c06Pkt) resolved() bool {
	for _, f := range p.frames {
		if f.acked+f.lost > 0 {
			return true
		}
	}
	return false
}

func (p *c06Pkt) fullyResolved() bool {
	for _, f := range p.frames {
		if f.acked+f.lost != 1 {
			return false
		}
	}
	return true
}

// c06Ev is one API call in the trace (printed on violation, enough to replay by hand).
type c06Ev struct {
	T       time.Duration // time since start
	Op      string        // API call
	L       protocol.EncryptionLevel
	PN      protocol.PacketNumber
	Sz      int64
	K       string // static text
	A, B, C int
	D       time.Duration
	R       []wire.AckRange
	Res     string
}

func (e *c06Ev) String() string {
	s := fmt.Sprintf("t=+%v %s", e.T, e.Op)
	switch e.Op {
	case "SentPacket":
		s += fmt.Sprintf(" %s pn=%d size=%d %s", c06LevelName(e.L), e.PN, e.Sz, e.K)
		if e.K == "ack-eliciting" {
			s += fmt.Sprintf(" frames=%d streamframes=%d nil-handler-frames=%d", e.A, e.B, e.C)
		}
	case "ReceivedAck":
		s += fmt.Sprintf(" %s ranges=", c06LevelName(e.L))
		for _, a := range e.R {
			s += fmt.Sprintf("[%d..%d]", a.Smallest, a.Largest)
		}
		s += fmt.Sprintf(" delay=%v", e.D)
	case "QueueProbePacket", "DropPackets", "ReceivedPacket":
		s += " " + c06LevelName(e.L)
	case "ReceivedBytes", "MigratedPath", "SetMaxDatagramSize":
		s += fmt.Sprintf(" %d", e.Sz)
	case "OnLossDetectionTimeout":
		s += " " + e.K
	}
	if e.Res != "" {
		s += " -> " + e.Res
	}
	return s
}

func c06Trace(h []c06Ev) []string {
	out := make([]string, len(h))
	for i := range h {
		out[i] = h[i].String()
	}
	return out
}

type c06Stats struct {
	histories, events                                     int64
	sendAE, sendNonAE, sendMTU, sendProbe, send0RTT       int64
	acks, acksAccepted, ackUnsentPV, ackSkippedPV         int64
	ackOldSkippedAccepted, ackOldSkippedRejected          int64
	ackUndeterminedErr, ackValidRejected, ackBelowFirst   int64
	timeouts, spuriousTimeouts, ptoFired, queueProbe      int64
	queueProbeTrue, dropInitial, dropHandshake, drop0RTT  int64
	retries, migrations, rcvBytes, rcvPackets             int64
	framesAcked, framesLost, framesDropped                int64
	cbAfterDrop, sendBlockedNone, sendAckOnly, pacingWait int64
	timerRequired, timerChecks, bifChecks, bifNonZero     int64
	skippedSeen, drains, ampBlockedSteps, qlogBIF         int64
	timeoutErr, uHandler                                  int64
}

func (s *c06Stats) flush(l *evlog.Log) {
	m := map[string]int64{
		"histories": s.histories, "api_calls": s.events,
		"sent_ack_eliciting": s.sendAE, "sent_non_ack_eliciting": s.sendNonAE, "sent_mtu_probe": s.sendMTU, "sent_path_probe": s.sendProbe, "sent_0rtt": s.send0RTT,
		"acks": s.acks, "acks_accepted": s.acksAccepted, "ack_unsent_protocol_violation": s.ackUnsentPV, "ack_skipped_protocol_violation": s.ackSkippedPV,
		"ack_old_skipped_accepted": s.ackOldSkippedAccepted, "ack_old_skipped_rejected": s.ackOldSkippedRejected,
		"ack_pre_retry_numbers_error": s.ackUndeterminedErr, "ack_valid_rejected": s.ackValidRejected, "ack_below_first_pn": s.ackBelowFirst,
		"loss_timeouts": s.timeouts, "loss_timeouts_spurious": s.spuriousTimeouts, "pto_send_modes": s.ptoFired, "queue_probe_calls": s.queueProbe, "queue_probe_true": s.queueProbeTrue,
		"drop_initial": s.dropInitial, "drop_handshake": s.dropHandshake, "drop_0rtt": s.drop0RTT, "retries": s.retries, "migrations": s.migrations,
		"received_bytes_calls": s.rcvBytes, "received_packet_calls": s.rcvPackets,
		"frames_acked": s.framesAcked, "frames_lost": s.framesLost, "frames_discarded_with_space": s.framesDropped, "callbacks_after_space_drop": s.cbAfterDrop,
		"send_blocked_none": s.sendBlockedNone, "sent_ack_only_when_limited": s.sendAckOnly, "pacing_waits": s.pacingWait,
		"timer_required_checks": s.timerRequired, "timer_checks": s.timerChecks, "bytes_in_flight_checks": s.bifChecks, "bytes_in_flight_nonzero_checks": s.bifNonZero,
		"skipped_packet_numbers": s.skippedSeen, "drains": s.drains, "amplification_blocked_steps": s.ampBlockedSteps, "qlog_bytes_in_flight_events": s.qlogBIF,
		"loss_timeout_errors": s.timeoutErr, "histories_u_handler": s.uHandler,
	}
	for k, v := range m {
		if v != 0 {
			l.Count(k, v)
		}
	}
	*s = c06Stats{}
}

type c06Cfg struct {
	Server    bool  `json:"server"`
	U         bool  `json:"u_handler"`
	InitialPN int64 `json:"initial_pn"`
	Qlog      bool  `json:"qlog"`
	ECN       bool  `json:"ecn"`
	AddrValid bool  `json:"client_address_validated"`
	AppOnly   bool  `json:"app_only"`
	Use0RTT   bool  `json:"use_0rtt"`
	RTTms     int   `json:"rtt_ms"`
	Long      bool  `json:"long"` // send/ack-heavy history long enough for PopPacketNumber to skip numbers
	N         int   `json:"events"`
}

type c06Viol struct{ sig, detail string }

type c06Run struct {
	cfg c06Cfg
	st  *c06Stats
	sph SentPacketHandler
	h   *sentPacketHandler
	rtt *utils.RTTStats

	start, now monotime.Time

	initialAlive, handshakeAlive, confirmed bool
	validated                               bool // server: peer address validated (oracle's own view)
	sent, rcvd                              protocol.ByteCount

	// client-side handshake progress
	receivedAny, hsKeys, has1RTT, retried, dropped0RTT, sent1RTT, sentAny bool
	// server-side
	gotHandshake bool

	pkts        []*c06Pkt
	nextFrameID uint64
	byPN        [3]map[protocol.PacketNumber]*c06Pkt
	epochSent   [3]protocol.PacketNumber // largest number sent since the space was (re)created
	everSent    [3]protocol.PacketNumber // largest number ever sent
	nextPN      [3]protocol.PacketNumber // what a generator without skips would hand out next
	firstPN     [3]protocol.PacketNumber
	skipped     []protocol.PacketNumber // app space, ascending = order of skipping
	oldSkipped  map[protocol.PacketNumber]bool
	afterRetry  bool // next gap in the app space is not known to the handler's new history

	usedSpurious bool
	mtu          protocol.ByteCount
	migrated     bool

	hist    []c06Ev
	curOp   string
	viols   []c06Viol
	stopped bool

	// behaviour summary for the fingerprint
	nSend, nAck, nTimeout, nPV, nQueue int
}

type c06Recorder struct{ r *c06Run }

func (q *c06Recorder) Close() error { return nil }
func (q *c06Recorder) RecordEvent(ev qlogwriter.Event) {
	if m, ok := ev.(qlog.MetricsUpdated); ok && m.BytesInFlight != 0 && q.r.h != nil {
		q.r.st.qlogBIF++
		if got := int(q.r.h.getBytesInFlight()); got != m.BytesInFlight {
			q.r.viol("C06|qlog|bytes-in-flight-mismatch", fmt.Sprintf("MetricsUpdated.BytesInFlight=%d while the counter is %d (during %s)", m.BytesInFlight, got, q.r.curOp))
		}
	}
}

const c06Start = monotime.Time(1_000_000_000_000)

// the handler documents a bounded memory of the most recently skipped packet numbers
const c06RecentSkipped = 4

func newC06Run(cfg c06Cfg, st *c06Stats) *c06Run {
	r := &c06Run{cfg: cfg, st: st, start: c06Start, now: c06Start, initialAlive: true, handshakeAlive: true}
	r.rtt = utils.NewRTTStats()
	if cfg.RTTms > 0 {
		r.rtt.UpdateRTT(time.Duration(cfg.RTTms)*time.Millisecond, 0)
	}
	var rec qlogwriter.Recorder
	if cfg.Qlog {
		rec = &c06Recorder{r: r}
	}
	pers := protocol.PerspectiveClient
	if cfg.Server {
		pers = protocol.PerspectiveServer
	}
	var ignore func(protocol.PacketNumber)
	if cfg.InitialPN%2 == 0 {
		ignore = func(protocol.PacketNumber) {}
	}
	if cfg.U {
		r.sph = NewUAckHandler(protocol.PacketNumber(cfg.InitialPN), 1200, r.rtt, &utils.ConnectionStats{}, cfg.AddrValid, cfg.ECN, ignore, pers, rec, utils.DefaultLogger)
		r.h = r.sph.(*uSentPacketHandler).sentPacketHandler
		SetInitialPacketNumberLengths(r.sph, protocol.PacketNumber(cfg.InitialPN), []protocol.PacketNumberLen{protocol.PacketNumberLen1, protocol.PacketNumberLen2})
		st.uHandler++
	} else {
		r.sph = NewSentPacketHandler(protocol.PacketNumber(cfg.InitialPN), 1200, r.rtt, &utils.ConnectionStats{}, cfg.AddrValid, cfg.ECN, ignore, pers, rec, utils.DefaultLogger)
		r.h = r.sph.(*sentPacketHandler)
	}
	r.validated = !cfg.Server || cfg.AddrValid
	r.mtu = 1200
	for i := range r.byPN {
		r.byPN[i] = map[protocol.PacketNumber]*c06Pkt{}
		r.epochSent[i] = protocol.InvalidPacketNumber
		r.everSent[i] = protocol.InvalidPacketNumber
	}
	r.nextPN[c06Initial] = protocol.PacketNumber(cfg.InitialPN)
	r.firstPN[c06Initial] = protocol.PacketNumber(cfg.InitialPN)
	r.oldSkipped = map[protocol.PacketNumber]bool{}
	st.histories++
	return r
}

func (r *c06Run) viol(sig, detail string) {
	for _, v := range r.viols {
		if v.sig == sig {
			return
		}
	}
	r.viols = append(r.viols, c06Viol{sig, detail})
}

func (r *c06Run) fatal(sig, detail string) {
	r.viol(sig, detail)
	r.stopped = true
}

func (r *c06Run) ev(e c06Ev) *c06Ev {
	e.T = r.now.Sub(r.start)
	r.hist = append(r.hist, e)
	r.curOp = e.Op
	r.st.events++
	return &r.hist[len(r.hist)-1]
}

func (r *c06Run) ampBlocked() bool {
	return r.cfg.Server && !r.validated && r.sent >= 3*r.rcvd
}

func (r *c06Run) spaceAlive(s c06Space) bool {
	switch s {
	case c06Initial:
		return r.initialAlive
	case c06Handshake:
		return r.handshakeAlive
	}
	return true
}

// check evaluates the state invariants after an API call.
func (r *c06Run) check() {
	if r.stopped {
		return
	}
	var want protocol.ByteCount
	need := ""
	for _, p := range r.pkts {
		if !p.ackEl || p.probe || p.dropped || p.resolved() {
			continue
		}
		want += p.size
		if need == "" && !p.mtu && (p.space != c06App || r.confirmed) {
			need = c06SpaceNames[p.space]
		}
	}
	r.st.bifChecks++
	if want != 0 {
		r.st.bifNonZero++
	}
	if got := r.h.getBytesInFlight(); got != want {
		r.fatal("C06|bytes-in-flight|mismatch|after-"+r.curOp, fmt.Sprintf("bytesInFlight=%d, outstanding ack-eliciting packets sum to %d after %s", got, want, r.curOp))
		return
	}
	r.st.timerChecks++
	if r.ampBlocked() {
		r.st.ampBlockedSteps++
		return
	}
	if need != "" {
		r.st.timerRequired++
		if r.sph.GetLossDetectionTimeout().IsZero() {
			sig := "C06|timer|not-set|" + need
			if r.usedSpurious {
				sig += "|after-spurious-timeout"
			}
			r.fatal(sig, fmt.Sprintf("no loss-detection deadline although %s data is outstanding (confirmed=%v, server=%v, validated=%v, sent=%d, received=%d) after %s",
				need, r.confirmed, r.cfg.Server, r.validated, r.sent, r.rcvd, r.curOp))
		}
	}
}

// ---------------------------------------------------------------------------------------
// API calls (each records a trace event and is followed by check)

type c06SendOpt struct {
	level                 protocol.EncryptionLevel
	size                  protocol.ByteCount
	nFrames, nStream, nil int
	mtu, probe            bool
	largestAcked          protocol.PacketNumber
}

func (r *c06Run) send(o c06SendOpt) *c06Pkt {
	if r.stopped {
		return nil
	}
	sp := c06SpaceOf(o.level)
	peek, _ := r.sph.PeekPacketNumber(o.level)
	pn := r.sph.PopPacketNumber(o.level)
	if peek != pn {
		r.viol("C06|pn|peek-pop-mismatch", fmt.Sprintf("PeekPacketNumber=%d, PopPacketNumber=%d (%s)", peek, pn, c06LevelName(o.level)))
	}
	if pn > r.nextPN[sp] {
		for s := r.nextPN[sp]; s < pn; s++ {
			r.st.skippedSeen++
			if sp == c06App && !r.afterRetry {
				r.skipped = append(r.skipped, s)
			} else {
				r.oldSkipped[s] = true
			}
		}
	}
	if sp == c06App {
		r.afterRetry = false
	}
	r.nextPN[sp] = pn + 1
	p := &c06Pkt{space: sp, level: o.level, pn: pn, size: o.size, mtu: o.mtu, probe: o.probe}
	var frames []Frame
	var sframes []StreamFrame
	for i := 0; i < o.nFrames; i++ {
		r.nextFrameID++
		f := &c06Frame{run: r, pkt: p, id: r.nextFrameID}
		p.frames = append(p.frames, f)
		frames = append(frames, Frame{Frame: &wire.MaxDataFrame{MaximumData: protocol.ByteCount(f.id)}, Handler: f})
	}
	for i := 0; i < o.nil; i++ {
		frames = append(frames, Frame{Frame: &wire.MaxDataFrame{MaximumData: 1 << 40}})
	}
	for i := 0; i < o.nStream; i++ {
		r.nextFrameID++
		f := &c06Frame{run: r, pkt: p, id: r.nextFrameID, stream: true}
		p.frames = append(p.frames, f)
		sframes = append(sframes, StreamFrame{Frame: &wire.StreamFrame{StreamID: protocol.StreamID(f.id), Data: []byte{1}}, Handler: f})
	}
	p.ackEl = len(frames)+len(sframes) > 0
	kind := "ack-only"
	switch {
	case o.probe:
		kind = "path-probe"
		r.st.sendProbe++
	case o.mtu:
		kind = "mtu-probe"
		r.st.sendMTU++
	case p.ackEl:
		kind = "ack-eliciting"
		r.st.sendAE++
	default:
		r.st.sendNonAE++
	}
	if o.level == protocol.Encryption0RTT {
		r.st.send0RTT++
	}
	r.ev(c06Ev{Op: "SentPacket", L: o.level, PN: pn, Sz: int64(o.size), K: kind, A: o.nFrames, B: o.nStream, C: o.nil})
	ecn := r.sph.ECNMode(o.level == protocol.Encryption1RTT)
	r.pkts = append(r.pkts, p)
	r.byPN[sp][pn] = p
	r.epochSent[sp] = pn
	r.everSent[sp] = max(r.everSent[sp], pn)
	r.sent += o.size
	r.sentAny = true
	if o.level == protocol.Encryption1RTT {
		r.sent1RTT = true
	}
	r.nSend++
	r.sph.SentPacket(r.now, pn, o.largestAcked, sframes, frames, o.level, ecn, o.size, o.mtu, o.probe)
	r.check()
	return p
}

func c06Ranges(pns []protocol.PacketNumber) []wire.AckRange {
	sort.Slice(pns, func(i, j int) bool { return pns[i] > pns[j] })
	var out []wire.AckRange
	for _, pn := range pns {
		if n := len(out); n > 0 {
			if pn == out[n-1].Smallest || pn == out[n-1].Smallest-1 {
				out[n-1].Smallest = min(out[n-1].Smallest, pn)
				continue
			}
		}
		out = append(out, wire.AckRange{Smallest: pn, Largest: pn})
	}
	return out
}

func c06Covers(rs []wire.AckRange, pn protocol.PacketNumber) bool {
	for _, a := range rs {
		if pn >= a.Smallest && pn <= a.Largest {
			return true
		}
	}
	return false
}

// ack delivers one ACK frame.  It returns whether a 1-RTT packet was newly acknowledged.
func (r *c06Run) ack(level protocol.EncryptionLevel, rs []wire.AckRange, delay time.Duration, ect0, ce uint64) bool {
	if r.stopped || len(rs) == 0 {
		return false
	}
	sp := c06SpaceOf(level)
	f := &wire.AckFrame{AckRanges: rs, DelayTime: delay, ECT0: ect0, ECNCE: ce}
	e := r.ev(c06Ev{Op: "ReceivedAck", L: level, R: append([]wire.AckRange(nil), rs...), D: delay})
	r.st.acks++
	r.nAck++
	r.receivedAny = true

	largest, lowest := rs[0].Largest, rs[len(rs)-1].Smallest
	unsent := largest > r.everSent[sp]
	undetermined := !unsent && largest > r.epochSent[sp] // numbers of the pre-Retry epoch only
	recentSkipped, oldSkipped := protocol.InvalidPacketNumber, false
	if sp == c06App {
		// A PTO skips a number inside OnLossDetectionTimeout; the oracle sees it only at the next
		// PopPacketNumber.  PeekPacketNumber bounds how many such numbers there can be; they may
		// already have pushed older ones out of the handler's memory of 4.
		peek, _ := r.sph.PeekPacketNumber(protocol.Encryption1RTT)
		pending := int(max(0, peek-r.nextPN[c06App]))
		if r.afterRetry {
			pending = c06RecentSkipped
		}
		for i := len(r.skipped) - 1; i >= 0; i-- {
			if !c06Covers(rs, r.skipped[i]) {
				continue
			}
			if len(r.skipped)-i+pending <= c06RecentSkipped {
				recentSkipped = r.skipped[i]
			} else {
				oldSkipped = true
			}
		}
	}
	for s := range r.oldSkipped {
		if sp == c06App && c06Covers(rs, s) {
			oldSkipped = true
		}
	}
	belowFirst := lowest < r.firstPN[sp]

	acked1RTT, err := r.sph.ReceivedAck(f, level, r.now)
	isPV := false
	if err != nil {
		var te *qerr.TransportError
		isPV = errors.As(err, &te) && te.ErrorCode == qerr.ProtocolViolation
		e.Res = err.Error()
	} else {
		e.Res = "ok"
	}
	switch {
	case unsent:
		if !isPV {
			r.fatal("C06|ack|unsent-accepted|"+c06SpaceNames[sp], fmt.Sprintf("ACK with largest acked %d in the %s space, largest number ever sent %d: result %v, want PROTOCOL_VIOLATION", largest, c06SpaceNames[sp], r.everSent[sp], err))
			return false
		}
		r.st.ackUnsentPV++
		r.nPV++
	case recentSkipped != protocol.InvalidPacketNumber:
		if !isPV {
			r.fatal("C06|ack|skipped-accepted", fmt.Sprintf("ACK covers the skipped packet number %d (most recent skipped numbers %v): result %v, want PROTOCOL_VIOLATION", recentSkipped, r.skipped[max(0, len(r.skipped)-c06RecentSkipped):], err))
			return false
		}
		r.st.ackSkippedPV++
		r.nPV++
	case err != nil && undetermined:
		r.st.ackUndeterminedErr++
	case err != nil && oldSkipped:
		r.st.ackOldSkippedRejected++
	case err != nil && belowFirst && isPV:
		r.st.ackBelowFirst++
	case err != nil:
		// The statement does not say that every well-formed ACK must be accepted; the
		// connection is closed by any error, so the history ends here.  Counted as evidence.
		r.st.ackValidRejected++
	}
	if err != nil {
		r.stopped = true // the connection is closed with this error
		return false
	}
	r.st.acksAccepted++
	if oldSkipped {
		r.st.ackOldSkippedAccepted++
	}
	if belowFirst {
		r.st.ackBelowFirst++
		r.viol("C06|ack|below-first-pn-accepted", fmt.Sprintf("ACK covers packet number %d in the %s space whose first packet number is %d (never sent): accepted, want PROTOCOL_VIOLATION", lowest, c06SpaceNames[sp], r.firstPN[sp]))
	}
	// every packet covered by an accepted ACK is resolved now
	for _, a := range rs {
		if a.Largest-a.Smallest > 4096 {
			continue
		}
		for pn := a.Smallest; pn <= a.Largest; pn++ {
			if p := r.byPN[sp][pn]; p != nil && p.ackEl && !p.probe && !p.dropped && !p.fullyResolved() {
				r.fatal("C06|callbacks|acked-packet-unresolved|"+c06SpaceNames[sp], fmt.Sprintf("packet %d (%s) is covered by an accepted ACK but its frames have no callback", pn, c06LevelName(p.level)))
				return false
			}
		}
	}
	r.check()
	return acked1RTT
}

func (r *c06Run) timeout(spurious bool) {
	if r.stopped {
		return
	}
	k := "due"
	if spurious {
		k = "spurious"
		r.usedSpurious = true
		r.st.spuriousTimeouts++
	}
	e := r.ev(c06Ev{Op: "OnLossDetectionTimeout", K: k})
	r.st.timeouts++
	r.nTimeout++
	if err := r.sph.OnLossDetectionTimeout(r.now); err != nil {
		e.Res = err.Error()
		r.st.timeoutErr++
		r.stopped = true
		return
	}
	r.check()
}

func (r *c06Run) queueProbe(level protocol.EncryptionLevel) bool {
	if r.stopped {
		return false
	}
	e := r.ev(c06Ev{Op: "QueueProbePacket", L: level})
	r.st.queueProbe++
	r.nQueue++
	ok := r.sph.QueueProbePacket(level)
	if ok {
		r.st.queueProbeTrue++
		e.Res = "true"
	}
	r.check()
	return ok
}

func (r *c06Run) drop(level protocol.EncryptionLevel) {
	if r.stopped {
		return
	}
	r.ev(c06Ev{Op: "DropPackets", L: level})
	for _, p := range r.pkts {
		hit := false
		switch level {
		case protocol.EncryptionInitial:
			hit = p.space == c06Initial
		case protocol.EncryptionHandshake:
			hit = p.space == c06Handshake
		case protocol.Encryption0RTT:
			hit = p.level == protocol.Encryption0RTT && !p.resolved()
		}
		if hit && !p.dropped {
			p.dropped = true
			if !p.resolved() {
				r.st.framesDropped += int64(len(p.frames))
			}
		}
	}
	switch level {
	case protocol.EncryptionInitial:
		r.initialAlive = false
		r.st.dropInitial++
	case protocol.EncryptionHandshake:
		r.handshakeAlive = false
		r.confirmed = true
		r.st.dropHandshake++
	case protocol.Encryption0RTT:
		r.dropped0RTT = true
		r.st.drop0RTT++
	}
	r.sph.DropPackets(level, r.now)
	r.check()
}

func (r *c06Run) retry() {
	if r.stopped {
		return
	}
	r.ev(c06Ev{Op: "ResetForRetry"})
	r.st.retries++
	r.retried = true
	r.receivedAny = true
	r.sph.ResetForRetry(r.now)
	r.epochSent[c06Initial] = protocol.InvalidPacketNumber
	r.epochSent[c06App] = protocol.InvalidPacketNumber
	for _, s := range r.skipped {
		r.oldSkipped[s] = true
	}
	r.skipped = nil
	r.afterRetry = true
	r.check()
}

func (r *c06Run) rcvBytes(n protocol.ByteCount) {
	if r.stopped {
		return
	}
	r.ev(c06Ev{Op: "ReceivedBytes", Sz: int64(n)})
	r.st.rcvBytes++
	r.rcvd += n
	r.sph.ReceivedBytes(n, r.now)
	r.check()
}

func (r *c06Run) rcvPacket(level protocol.EncryptionLevel) {
	if r.stopped {
		return
	}
	r.ev(c06Ev{Op: "ReceivedPacket", L: level})
	r.st.rcvPackets++
	r.receivedAny = true
	if r.cfg.Server && level == protocol.EncryptionHandshake {
		r.validated = true
	}
	r.sph.ReceivedPacket(level, r.now)
	r.check()
}

func (r *c06Run) migrate(size protocol.ByteCount) {
	if r.stopped {
		return
	}
	r.ev(c06Ev{Op: "MigratedPath", Sz: int64(size)})
	r.st.migrations++
	r.migrated = true
	for _, p := range r.pkts {
		if p.probe && !p.resolved() {
			p.migr = true
		}
	}
	r.sph.MigratedPath(r.now, size)
	r.check()
}

func (r *c06Run) setMTU(size protocol.ByteCount) {
	if r.stopped {
		return
	}
	r.ev(c06Ev{Op: "SetMaxDatagramSize", Sz: int64(size)})
	r.sph.SetMaxDatagramSize(size)
	r.check()
}

func (r *c06Run) advance(d time.Duration) {
	if d > 0 {
		r.now = r.now.Add(d)
	}
}

// fireDue does what connection.run does before it sends: an expired loss timer fires first.
func (r *c06Run) fireDue() {
	if t := r.sph.GetLossDetectionTimeout(); !t.IsZero() && !t.After(r.now) && !r.stopped {
		r.timeout(false)
	}
}

// ---------------------------------------------------------------------------------------
// completion of a history

func (r *c06Run) outstandingIn(sp c06Space) []protocol.PacketNumber {
	var pns []protocol.PacketNumber
	for _, p := range r.pkts {
		if p.space == sp && p.ackEl && !p.dropped && !p.fullyResolved() && p.pn <= r.epochSent[sp] {
			pns = append(pns, p.pn)
		}
	}
	return pns
}

func (r *c06Run) anyUnresolved() bool {
	for _, p := range r.pkts {
		if p.ackEl && !p.dropped && !p.migr && !p.fullyResolved() && r.spaceAlive(p.space) {
			return true
		}
	}
	return false
}

func (r *c06Run) drainAck(level protocol.EncryptionLevel) bool {
	pns := r.outstandingIn(c06SpaceOf(level))
	if len(pns) == 0 {
		return false
	}
	r.advance(time.Millisecond)
	return r.ack(level, c06Ranges(pns), 0, 0, 0)
}

func (r *c06Run) drain() {
	if r.stopped {
		return
	}
	r.st.drains++
	r.curOp = "drain"
	r.advance(time.Millisecond)
	if r.initialAlive {
		r.drainAck(protocol.EncryptionInitial)
	}
	if r.cfg.Server {
		if r.handshakeAlive {
			r.rcvBytes(1200)
			if r.initialAlive {
				r.drop(protocol.EncryptionInitial)
			}
			r.drainAck(protocol.EncryptionHandshake)
			r.rcvPacket(protocol.EncryptionHandshake)
			r.drop(protocol.EncryptionHandshake)
		}
		r.drainAck(protocol.Encryption1RTT)
	} else {
		if r.handshakeAlive {
			r.drainAck(protocol.EncryptionHandshake)
		}
		if r.drainAck(protocol.Encryption1RTT) && !r.confirmed && !r.initialAlive {
			r.drop(protocol.EncryptionHandshake)
		}
	}
	// timers: a path probe whose placeholder was already removed from the history is not
	// resolved by an ACK but by its loss timer; fire what is due until nothing is left
	for i := 0; i < 8 && !r.stopped && r.anyUnresolved(); i++ {
		d := r.sph.GetLossDetectionTimeout()
		if d.IsZero() {
			break
		}
		if d.After(r.now) {
			r.now = d
		}
		r.timeout(false)
	}
	if r.stopped {
		return
	}
	var known, fresh *c06Pkt
	for _, p := range r.pkts {
		if !p.ackEl || p.dropped || p.fullyResolved() {
			continue
		}
		if !r.spaceAlive(p.space) {
			continue
		}
		if p.migr {
			if known == nil {
				known = p
			}
		} else if fresh == nil {
			fresh = p
		}
	}
	if fresh != nil {
		r.viol("C06|callbacks|never-resolved|"+c06SpaceNames[fresh.space], fmt.Sprintf("packet %d (%s, size %d, mtu=%v probe=%v) has frames without a callback after every outstanding packet was acknowledged", fresh.pn, c06LevelName(fresh.level), fresh.size, fresh.mtu, fresh.probe))
	}
	if known != nil {
		r.viol("C06|callbacks|never-resolved|path-probe-after-migration", fmt.Sprintf("path probe packet %d was outstanding when MigratedPath was called: its frames are reported neither acknowledged nor lost, and an ACK for it is ignored", known.pn))
	}
}

// ---------------------------------------------------------------------------------------
// generator

func c06Dur(rng *rand.Rand) time.Duration {
	switch rng.IntN(10) {
	case 0:
		return time.Duration(1+rng.IntN(999)) * time.Microsecond
	case 1, 2, 3:
		return time.Duration(1+rng.IntN(20)) * time.Millisecond
	case 4, 5, 6:
		return time.Duration(20+rng.IntN(200)) * time.Millisecond
	case 7, 8:
		return time.Duration(200+rng.IntN(1500)) * time.Millisecond
	default:
		return time.Duration(1+rng.IntN(90)) * time.Second
	}
}

func c06Size(rng *rand.Rand, limit int) protocol.ByteCount {
	var s int
	switch rng.IntN(4) {
	case 0:
		s = 25 + rng.IntN(80)
	case 1:
		s = 100 + rng.IntN(500)
	default:
		s = 1100 + rng.IntN(353)
	}
	return protocol.ByteCount(max(21, min(s, limit)))
}

func (r *c06Run) sendable() []protocol.EncryptionLevel {
	var ls []protocol.EncryptionLevel
	if r.initialAlive {
		ls = append(ls, protocol.EncryptionInitial)
	}
	if r.cfg.Server {
		if r.handshakeAlive {
			ls = append(ls, protocol.EncryptionHandshake)
		}
		ls = append(ls, protocol.Encryption1RTT)
		return ls
	}
	if r.cfg.Use0RTT && !r.has1RTT && !r.dropped0RTT && !r.sent1RTT {
		ls = append(ls, protocol.Encryption0RTT)
	}
	if r.handshakeAlive && r.hsKeys {
		ls = append(ls, protocol.EncryptionHandshake)
	}
	if r.has1RTT && !r.initialAlive {
		ls = append(ls, protocol.Encryption1RTT)
	}
	return ls
}

func (r *c06Run) canSend(l protocol.EncryptionLevel) bool {
	for _, x := range r.sendable() {
		if x == l {
			return true
		}
	}
	return false
}

// sendOne sends one packet and performs what the connection does right after (client: Initial
// keys are dropped when the first Handshake packet is sent).
func (r *c06Run) sendOne(rng *rand.Rand, l protocol.EncryptionLevel, ackEl bool, limit int) {
	o := c06SendOpt{level: l, size: c06Size(rng, limit), largestAcked: protocol.InvalidPacketNumber}
	if rng.IntN(3) == 0 {
		o.largestAcked = protocol.PacketNumber(rng.IntN(20))
	}
	if ackEl || l == protocol.Encryption0RTT {
		switch rng.IntN(6) {
		case 0:
			o.nStream = 1 + rng.IntN(2)
		case 1:
			o.nFrames, o.nStream = 1, 1
		case 2:
			o.nFrames, o.nil = 1, 1
		case 3:
			o.nFrames = 2 + rng.IntN(2)
		default:
			o.nFrames = 1
		}
	} else if o.largestAcked == protocol.InvalidPacketNumber {
		o.largestAcked = protocol.PacketNumber(rng.IntN(20))
	}
	r.send(o)
	if !r.cfg.Server && l == protocol.EncryptionHandshake && r.initialAlive {
		r.drop(protocol.EncryptionInitial)
	}
}

func (r *c06Run) genSend(rng *rand.Rand) {
	r.fireDue()
	if r.stopped {
		return
	}
	mode := r.sph.SendMode(r.now)
	ls := r.sendable()
	switch mode {
	case SendNone:
		r.st.sendBlockedNone++
		return
	case SendPTOInitial, SendPTOHandshake, SendPTOAppData:
		r.st.ptoFired++
		l := protocol.EncryptionInitial
		if mode == SendPTOHandshake {
			l = protocol.EncryptionHandshake
		} else if mode == SendPTOAppData {
			l = protocol.Encryption1RTT
		}
		if !r.canSend(l) {
			return
		}
		for i := 0; i < 3; i++ {
			// sendProbePacket: queue until the packer produced a packet
			if !r.queueProbe(l) || rng.IntN(4) != 0 {
				break
			}
		}
		r.sendOne(rng, l, true, 1452)
		return
	case SendAck, SendPacingLimited:
		if mode == SendPacingLimited && rng.IntN(2) == 0 {
			if t := r.sph.TimeUntilSend(); !t.IsZero() && t.After(r.now) {
				r.st.pacingWait++
				r.now = t
				return
			}
		}
		if len(ls) == 0 {
			return
		}
		r.st.sendAckOnly++
		r.sendOne(rng, ls[rng.IntN(len(ls))], false, 60)
		return
	}
	if len(ls) == 0 {
		return
	}
	if r.confirmed {
		x := rng.IntN(100)
		switch {
		case x < 7:
			r.send(c06SendOpt{level: protocol.Encryption1RTT, size: protocol.ByteCount(1300 + rng.IntN(200)), nFrames: 1, mtu: true, largestAcked: protocol.InvalidPacketNumber})
			return
		case x < 17:
			r.send(c06SendOpt{level: protocol.Encryption1RTT, size: 1200, nFrames: 1 + rng.IntN(2), probe: true, largestAcked: protocol.InvalidPacketNumber})
			return
		}
		r.sendOne(rng, protocol.Encryption1RTT, rng.IntN(6) != 0, 1452)
		return
	}
	// before confirmation: one coalesced datagram of 1..3 packets of increasing level
	budget := 1452
	first := rng.IntN(len(ls))
	n := 1 + rng.IntN(3)
	for i := first; i < len(ls) && n > 0 && budget > 40 && !r.stopped; i++ {
		if !r.canSend(ls[i]) { // the Initial space may just have been dropped
			continue
		}
		lim := budget
		if n > 1 && i+1 < len(ls) {
			lim = budget / 2
		}
		before := r.sent
		r.sendOne(rng, ls[i], rng.IntN(6) != 0, lim)
		budget -= int(r.sent - before)
		n--
	}
}

func (r *c06Run) genAckRanges(rng *rand.Rand, sp c06Space) []wire.AckRange {
	var sentPNs, outPNs []protocol.PacketNumber
	for _, p := range r.pkts {
		if p.space == sp {
			sentPNs = append(sentPNs, p.pn)
			if p.ackEl && !p.dropped && !p.resolved() {
				outPNs = append(outPNs, p.pn)
			}
		}
	}
	var pns []protocol.PacketNumber
	pick := func(from []protocol.PacketNumber, k int) {
		for i := 0; i < k && len(from) > 0; i++ {
			pns = append(pns, from[rng.IntN(len(from))])
		}
	}
	x := rng.IntN(100)
	switch {
	case x < 4: // beyond everything sent
		pick(sentPNs, rng.IntN(3))
		pns = append(pns, r.everSent[sp]+1+protocol.PacketNumber(rng.IntN(3)))
	case x < 12 && sp == c06App && len(r.skipped)+len(r.oldSkipped) > 0: // a skipped number
		all := append([]protocol.PacketNumber(nil), r.skipped...)
		for s := range r.oldSkipped {
			all = append(all, s)
		}
		sort.Slice(all, func(i, j int) bool { return all[i] < all[j] })
		s := all[rng.IntN(len(all))]
		if rng.IntN(3) == 0 && len(r.skipped) > 0 {
			s = r.skipped[len(r.skipped)-1]
		}
		pns = append(pns, s)
		if rng.IntN(2) == 0 { // inside a contiguous range
			pns = append(pns, s-1, s+1)
		}
		pick(outPNs, rng.IntN(3))
	case x < 15 && r.firstPN[sp] > 0 && len(sentPNs) > 0: // below the first number of the space
		lo := r.firstPN[sp] - 1 - protocol.PacketNumber(rng.IntN(int(min(r.firstPN[sp], 3))))
		for pn := lo; pn <= sentPNs[rng.IntN(len(sentPNs))]; pn++ {
			pns = append(pns, pn)
		}
	case x < 35: // everything up to some number, one range (skipped numbers excluded by splitting)
		if len(sentPNs) == 0 {
			return nil
		}
		hi := sentPNs[rng.IntN(len(sentPNs))]
		lo := sentPNs[rng.IntN(len(sentPNs))]
		if lo > hi {
			lo, hi = hi, lo
		}
		if rng.IntN(2) == 0 {
			lo = sentPNs[0]
		}
		for _, pn := range sentPNs {
			if pn >= lo && pn <= hi {
				pns = append(pns, pn)
			}
		}
	case x < 75: // some outstanding packets, some old ones
		if len(outPNs) == 0 && len(sentPNs) == 0 {
			return nil
		}
		pick(outPNs, 1+rng.IntN(4))
		pick(sentPNs, rng.IntN(3))
	case x < 90: // the newest packet(s)
		if len(sentPNs) == 0 {
			return nil
		}
		k := 1 + rng.IntN(3)
		pns = append(pns, sentPNs[max(0, len(sentPNs)-k):]...)
	default: // everything
		pns = append(pns, sentPNs...)
	}
	if len(pns) == 0 {
		if sp == c06Initial || rng.IntN(4) == 0 {
			pns = append(pns, r.everSent[sp]+1) // ACK although nothing was sent
		} else {
			return nil
		}
	}
	for i := range pns {
		if pns[i] < 0 {
			pns[i] = 0
		}
	}
	return c06Ranges(pns)
}

func (r *c06Run) genAck(rng *rand.Rand) {
	var ls []protocol.EncryptionLevel
	if r.initialAlive && (r.cfg.Server || r.sentAny) {
		ls = append(ls, protocol.EncryptionInitial)
	}
	if r.handshakeAlive && (r.cfg.Server || r.hsKeys) {
		ls = append(ls, protocol.EncryptionHandshake)
	}
	if r.cfg.Server && r.confirmed || !r.cfg.Server && r.has1RTT {
		ls = append(ls, protocol.Encryption1RTT)
	}
	if len(ls) == 0 {
		return
	}
	l := ls[rng.IntN(len(ls))]
	if rng.IntN(3) != 0 { // prefer a space that has something outstanding
		for _, x := range ls {
			if len(r.outstandingIn(c06SpaceOf(x))) > 0 && rng.IntN(2) == 0 {
				l = x
			}
		}
	}
	rs := r.genAckRanges(rng, c06SpaceOf(l))
	if rs == nil {
		return
	}
	var delay time.Duration
	switch rng.IntN(4) {
	case 0:
		delay = time.Duration(rng.IntN(25)) * time.Millisecond
	case 1:
		delay = time.Duration(rng.IntN(3000)) * time.Millisecond
	}
	var ect0, ce uint64
	if r.cfg.ECN && rng.IntN(2) == 0 {
		ect0, ce = uint64(rng.IntN(12)), uint64(rng.IntN(3))
	}
	serverHS := r.cfg.Server && l == protocol.EncryptionHandshake
	wrapA, wrapB := serverHS || rng.IntN(5) != 0, serverHS || rng.IntN(5) != 0
	if wrapA {
		r.rcvBytes(protocol.ByteCount(40 + rng.IntN(1400)))
	}
	if serverHS && r.initialAlive {
		r.drop(protocol.EncryptionInitial)
	}
	acked1RTT := r.ack(l, rs, delay, ect0, ce)
	if acked1RTT && !r.cfg.Server && !r.confirmed && !r.initialAlive {
		r.drop(protocol.EncryptionHandshake) // handleHandshakeConfirmed
	}
	if wrapB {
		r.rcvPacket(l)
		if serverHS {
			r.gotHandshake = true
		}
	}
}

func (r *c06Run) genTimeout(rng *rand.Rand) {
	t := r.sph.GetLossDetectionTimeout()
	if t.IsZero() {
		return
	}
	if t.After(r.now) {
		r.now = t
	}
	switch rng.IntN(5) {
	case 0:
		r.advance(time.Duration(rng.IntN(1000)) * time.Microsecond)
	case 1:
		r.advance(time.Duration(rng.IntN(50)) * time.Millisecond)
	}
	r.timeout(false)
}

func (r *c06Run) genProgress(rng *rand.Rand) {
	if r.cfg.Server {
		switch x := rng.IntN(10); {
		case x < 4:
			r.rcvBytes(protocol.ByteCount(20 + rng.IntN(1433)))
			if r.initialAlive && rng.IntN(3) != 0 {
				r.rcvPacket(protocol.EncryptionInitial)
			}
		case x < 8 && r.handshakeAlive:
			r.rcvBytes(protocol.ByteCount(40 + rng.IntN(1400)))
			if r.initialAlive {
				r.drop(protocol.EncryptionInitial)
			}
			r.rcvPacket(protocol.EncryptionHandshake)
			r.gotHandshake = true
		case r.gotHandshake && r.handshakeAlive:
			r.drop(protocol.EncryptionHandshake)
		}
		return
	}
	switch x := rng.IntN(12); {
	case x == 0 && !r.receivedAny && !r.retried && r.sentAny:
		r.retry()
	case x < 4 && r.sentAny && r.initialAlive:
		r.rcvBytes(protocol.ByteCount(40 + rng.IntN(1400)))
		r.rcvPacket(protocol.EncryptionInitial)
		r.hsKeys = true
	case x < 6 && r.hsKeys && r.handshakeAlive:
		r.rcvBytes(protocol.ByteCount(40 + rng.IntN(1400)))
		r.rcvPacket(protocol.EncryptionHandshake)
	case x < 9 && r.hsKeys && !r.has1RTT:
		if r.cfg.Use0RTT && !r.dropped0RTT && rng.IntN(3) == 0 {
			r.drop(protocol.Encryption0RTT)
			return
		}
		r.has1RTT = true
	case r.has1RTT && !r.initialAlive && r.handshakeAlive:
		if rng.IntN(2) == 0 {
			r.rcvBytes(protocol.ByteCount(40 + rng.IntN(1400)))
			r.rcvPacket(protocol.Encryption1RTT)
		}
		r.drop(protocol.EncryptionHandshake) // HANDSHAKE_DONE
	}
}

func (r *c06Run) genMisc(rng *rand.Rand) {
	switch x := rng.IntN(10); {
	case x < 3 && r.confirmed:
		r.mtu = protocol.ByteCount(1200 + 52*rng.IntN(2))
		r.migrate(r.mtu)
	case x < 4 && r.confirmed:
		r.mtu += protocol.ByteCount(1 + rng.IntN(60)) // MTU discovery only ever increases the size
		r.setMTU(r.mtu)
	case x < 5 && rng.IntN(3) == 0:
		// The timer of the connection can only fire for a deadline that was set and has passed;
		// the repository's own tests also call the function at other times.  Kept rare, and the
		// signature of a timer violation that follows says so.
		r.timeout(true)
	case x < 8 && (r.cfg.Server || r.sentAny):
		r.rcvBytes(protocol.ByteCount(20 + rng.IntN(1433))) // a datagram that is dropped later still counts
	default:
		if r.confirmed {
			r.rcvPacket(protocol.Encryption1RTT)
		}
	}
}

func c06RandomCfg(rng *rand.Rand) c06Cfg {
	cfg := c06Cfg{
		Server:  rng.IntN(5) < 2,
		U:       rng.IntN(3) == 0,
		Qlog:    rng.IntN(2) == 0,
		ECN:     rng.IntN(3) == 0,
		AppOnly: rng.IntN(3) == 0,
		N:       8 + rng.IntN(53),
	}
	switch rng.IntN(6) {
	case 0, 1:
		cfg.InitialPN = 1
	case 2:
		cfg.InitialPN = int64(2 + rng.IntN(5))
	case 3:
		cfg.InitialPN = int64(100 + rng.IntN(100000))
	}
	if rng.IntN(64) == 0 {
		cfg.Long, cfg.AppOnly = true, true
		cfg.N = 300 + rng.IntN(600)
	}
	if cfg.Server {
		cfg.AddrValid = rng.IntN(4) == 0
	} else {
		cfg.Use0RTT = rng.IntN(3) == 0
	}
	switch rng.IntN(4) {
	case 0:
		cfg.RTTms = 10
	case 1:
		cfg.RTTms = 100
	case 2:
		cfg.RTTms = 1 + rng.IntN(1000)
	}
	return cfg
}

func c06RunRandom(rng *rand.Rand, cfg c06Cfg, st *c06Stats) (r *c06Run) {
	r = newC06Run(cfg, st)
	defer func() {
		if p := recover(); p != nil {
			r.fatal("C06|panic|"+c06PanicClass(p), fmt.Sprintf("panic during %s: %v", r.curOp, p))
		}
	}()
	if cfg.Server {
		r.rcvBytes(protocol.ByteCount(1200 + rng.IntN(253)))
		r.rcvPacket(protocol.EncryptionInitial)
	}
	if cfg.AppOnly {
		// like TestSentPacketHandlerRandomized: both handshake spaces are gone from the start
		if cfg.Server {
			r.rcvBytes(1200)
			r.drop(protocol.EncryptionInitial)
			r.rcvPacket(protocol.EncryptionHandshake)
			r.gotHandshake = true
		} else {
			r.hsKeys, r.has1RTT, r.receivedAny = true, true, true
			r.drop(protocol.EncryptionInitial)
		}
		r.drop(protocol.EncryptionHandshake)
	}
	for step := 0; step < cfg.N && !r.stopped; step++ {
		x := rng.IntN(100)
		if cfg.Long && r.confirmed {
			x = x * 70 / 100 // only send / ack / timeout / advance
			if x >= 66 {
				r.advance(time.Duration(1+rng.IntN(30)) * time.Millisecond)
				continue
			}
		}
		switch {
		case x < 36:
			r.genSend(rng)
		case x < 56:
			r.genAck(rng)
		case x < 66:
			r.genTimeout(rng)
		case x < 78:
			r.advance(c06Dur(rng))
		case x < 92:
			r.genProgress(rng)
		default:
			r.genMisc(rng)
		}
	}
	r.drain()
	return r
}

func c06PanicClass(p any) string {
	s := fmt.Sprint(p)
	out := make([]byte, 0, len(s))
	for i := 0; i < len(s) && len(out) < 80; i++ {
		c := s[i]
		if c >= '0' && c <= '9' {
			if n := len(out); n == 0 || out[n-1] != 'N' {
				out = append(out, 'N')
			}
			continue
		}
		out = append(out, c)
	}
	return string(out)
}

func c06Bucket(n int) int {
	switch {
	case n < 4:
		return n
	case n < 8:
		return 4
	case n < 16:
		return 5
	case n < 32:
		return 6
	}
	return 7
}

func (r *c06Run) fingerprint() string {
	if r.nSend == 0 {
		return ""
	}
	var acked, lost, dropped int
	for _, p := range r.pkts {
		for _, f := range p.frames {
			acked += f.acked
			lost += f.lost
		}
		if p.dropped {
			dropped++
		}
	}
	fl := 0
	for i, b := range []bool{r.cfg.Server, r.cfg.AppOnly, r.cfg.Use0RTT, r.retried, r.dropped0RTT, r.confirmed, r.migrated, !r.initialAlive, r.validated, r.stopped, len(r.skipped)+len(r.oldSkipped) > 0, r.cfg.InitialPN > 0} {
		if b {
			fl |= 1 << i
		}
	}
	return fmt.Sprintf("r/%x/s%d/a%d/t%d/q%d/pv%d/A%d/L%d/D%d", fl, c06Bucket(r.nSend), c06Bucket(r.nAck), c06Bucket(r.nTimeout), c06Bucket(r.nQueue), min(r.nPV, 1), c06Bucket(acked), c06Bucket(lost), c06Bucket(dropped))
}

func c06Report(c *evlog.Case, r *c06Run, seen map[string]int, inputs any) {
	for _, v := range r.viols {
		seen[v.sig]++
		if seen[v.sig] > 3 {
			c.Count("violations_same_signature_not_logged", 1)
			continue
		}
		c.Violation(v.sig, v.detail, map[string]any{"config": r.cfg, "inputs": inputs, "history": c06Trace(r.hist)})
	}
}

// ---------------------------------------------------------------------------------------

func TestVerifC06Random(t *testing.T) {
	l := evlog.Open("C06")
	defer l.Close()
	n := l.Pick(800000, 10000000)
	const batch = 500
	var st c06Stats
	seen := map[string]int{} // per shard: a signature is logged with its trace at most 3 times
	for bi := 0; bi*batch < n; bi++ {
		if !l.Mine(bi) {
			continue
		}
		id := fmt.Sprintf("C06/random/%06d", bi)
		c := l.Begin(id, map[string]any{"batch": bi, "histories": batch})
		if c == nil {
			continue
		}
		rng := l.Rand(id)
		for k := 0; k < batch; k++ {
			cfg := c06RandomCfg(rng)
			r := c06RunRandom(rng, cfg, &st)
			c.Eval(r.fingerprint())
			c06Report(c, r, seen, map[string]any{"index_in_batch": k})
			if k == 0 && bi < 3 {
				c.Sample("random-history", map[string]any{"config": cfg, "api_calls": len(r.hist), "first_calls": c06Trace(r.hist[:min(len(r.hist), 12)])})
			}
		}
		st.flush(l)
		c.End()
	}
}

// TestVerifC06Exhaustive enumerates, for n packets sent in the application-data space of a
// confirmed connection: which packets are ack-eliciting, two send spacings, every ordered pair
// of non-empty ACK sets (so every ACK order), and whether the loss timer fires between them.
func TestVerifC06Exhaustive(t *testing.T) {
	l := evlog.Open("C06")
	defer l.Close()
	maxN := l.Pick(5, 6)
	var st c06Stats
	seen := map[string]int{} // per shard
	idx := 0
	for n := 1; n <= maxN; n++ {
		for kind := 0; kind < 1<<n; kind++ {
			if l.Quick() && n == 5 && kind != 0 && kind != 0b01010 {
				continue
			}
			for gap := 0; gap < 2; gap++ {
				mine := l.Mine(idx)
				idx++
				if !mine {
					continue
				}
				id := fmt.Sprintf("C06/exh/n%d/k%02x/g%d", n, kind, gap)
				c := l.Begin(id, map[string]any{"packets": n, "non_ack_eliciting_mask": kind, "gap": gap})
				if c == nil {
					continue
				}
				for a1 := 1; a1 < 1<<n; a1++ {
					for a2 := 1; a2 < 1<<n; a2++ {
						for tmo := 0; tmo < 2; tmo++ {
							r := c06RunExhaustive(n, kind, gap, a1, a2, tmo, &st)
							fp := ""
							if n > 1 {
								fp = fmt.Sprintf("x/%d/%d/%d/%d/%d/%d", n, kind, gap, a1, a2, tmo)
							}
							c.Eval(fp)
							c06Report(c, r, seen, map[string]any{"ack1_mask": a1, "ack2_mask": a2, "timeout_between": tmo})
						}
					}
				}
				if kind == 0 && gap == 0 {
					c.Sample("exhaustive", map[string]any{"packets": n, "ack_set_pairs": (1<<n - 1) * (1<<n - 1), "timeout_variants": 2})
				}
				st.flush(l)
				c.End()
			}
		}
	}
}

func c06RunExhaustive(n, kind, gap, a1, a2, tmo int, st *c06Stats) (r *c06Run) {
	r = newC06Run(c06Cfg{AppOnly: true, Qlog: a1&1 == 1, U: a2&1 == 1}, st)
	defer func() {
		if p := recover(); p != nil {
			r.fatal("C06|panic|"+c06PanicClass(p), fmt.Sprintf("panic during %s: %v", r.curOp, p))
		}
	}()
	r.hsKeys, r.has1RTT, r.receivedAny = true, true, true
	r.drop(protocol.EncryptionInitial)
	r.drop(protocol.EncryptionHandshake)
	pns := make([]protocol.PacketNumber, n)
	for i := 0; i < n; i++ {
		o := c06SendOpt{level: protocol.Encryption1RTT, size: protocol.ByteCount(100 + 100*i), largestAcked: protocol.InvalidPacketNumber}
		if kind&(1<<i) == 0 {
			o.nFrames = 1
		} else {
			o.largestAcked = 1
		}
		p := r.send(o)
		if p == nil {
			return r
		}
		pns[i] = p.pn
		if gap == 0 {
			r.advance(time.Millisecond)
		} else {
			r.advance(60 * time.Millisecond)
		}
	}
	set := func(mask int) []wire.AckRange {
		var s []protocol.PacketNumber
		for i := 0; i < n; i++ {
			if mask&(1<<i) != 0 {
				s = append(s, pns[i])
			}
		}
		return c06Ranges(s)
	}
	r.advance(30 * time.Millisecond)
	r.ack(protocol.Encryption1RTT, set(a1), 0, 0, 0)
	if tmo == 1 {
		if d := r.sph.GetLossDetectionTimeout(); !d.IsZero() {
			if d.After(r.now) {
				r.now = d
			}
			r.timeout(false)
		}
	} else {
		r.advance(5 * time.Millisecond)
	}
	r.ack(protocol.Encryption1RTT, set(a2), time.Millisecond, 0, 0)
	r.drain()
	return r
}
