package ackhandler

// C05 part (5), sender side: the packet number / length pairs the real sentPacketHandler hands to
// the packer.  Histories of sends (PeekPacketNumber, PopPacketNumber, SentPacket) and ACKs
// (ReceivedAck) in the three packet number spaces.  Oracle: (a) a packet number is never handed
// out twice in a space and Pop returns what Peek announced; (b) the announced length can carry
// the number given the largest acknowledgement that was delivered in that space: RFC 9000 17.1
// (more than twice the distance to the largest acknowledged) and decoding by the independent RFC
// 9000 A.3 implementation at both ends of what the receiver's "largest received" can be.

import (
	"fmt"
	"testing"

	"github.com/refraction-networking/uquic/internal/monotime"
	"github.com/refraction-networking/uquic/internal/protocol"
	"github.com/refraction-networking/uquic/internal/utils"
	"github.com/refraction-networking/uquic/internal/verif/evlog"
	"github.com/refraction-networking/uquic/internal/verif/wiretap"
	"github.com/refraction-networking/uquic/internal/wire"
)

type c05NopHandler struct{}

func (c05NopHandler) OnAcked(wire.Frame) {}
func (c05NopHandler) OnLost(wire.Frame)  {}

func TestVerifC05PNSpace(t *testing.T) {
	l := evlog.Open("C05")
	defer l.Close()
	n := l.Pick(240, 6000)
	const batch = 20
	levels := []protocol.EncryptionLevel{protocol.EncryptionInitial, protocol.EncryptionHandshake, protocol.Encryption1RTT}
	for bi := 0; bi*batch < n; bi++ {
		if !l.Mine(bi) {
			continue
		}
		id := fmt.Sprintf("C05/pnspace/%04d", bi)
		c := l.Begin(id, map[string]any{"batch": bi, "n": batch})
		if c == nil {
			continue
		}
		rng := l.Rand(id)
		reported := map[string]bool{}
		for k := 0; k < batch; k++ {
			pers := []protocol.Perspective{protocol.PerspectiveClient, protocol.PerspectiveServer}[rng.IntN(2)]
			initialPN := protocol.PacketNumber(rng.IntN(4))
			if rng.IntN(4) == 0 {
				initialPN = protocol.PacketNumber(rng.IntN(1 << 20))
			}
			long := k == 0 && bi%3 == 0 // long runs without acknowledgements: 3- and 4-byte lengths need > 2^15 / 2^23 unacked
			ops := 50 + rng.IntN(400)
			ackProb := 25
			if long {
				ops = 34000 + rng.IntN(4000)
				ackProb = 0
			}
			rtt := utils.NewRTTStats()
			sph := NewSentPacketHandler(initialPN, 1200, rtt, &utils.ConnectionStats{}, true, false, func(protocol.PacketNumber) {}, pers, nil, utils.DefaultLogger)
			now := monotime.Time(1 << 40)
			var sent [3][]protocol.PacketNumber
			largestAcked := [3]protocol.PacketNumber{-1, -1, -1}
			lastPopped := [3]protocol.PacketNumber{-1, -1, -1}
			var lens [5]int
			var sig, detail string
			var trace []string
			skips, acks, ackErrs := 0, 0, 0
			// a client that starts with 0-RTT: its 0-RTT and 1-RTT packets share the application data number
			// space; when the server rejects 0-RTT the 0-RTT packets are dropped (DropPackets), the numbers
			// they used stay used
			zeroRTTUntil, rejected := -1, false
			if pers == protocol.PerspectiveClient && !long && rng.IntN(2) == 0 {
				zeroRTTUntil = 3 + rng.IntN(40)
				rejected = rng.IntN(3) != 0
			}
			for step := 0; step < ops && sig == ""; step++ {
				sp := 2
				if !long && rng.IntN(3) == 0 {
					sp = rng.IntN(3)
				}
				lvl := levels[sp]
				early := step < zeroRTTUntil
				if early && sp == 2 {
					lvl = protocol.Encryption0RTT
				}
				if step == zeroRTTUntil {
					if rejected {
						sph.DropPackets(protocol.Encryption0RTT, now)
						l.Count("pnspace_0rtt_rejections", 1)
					}
					if len(trace) < 600 {
						trace = append(trace, fmt.Sprintf("0-RTT phase ends (rejected=%v)", rejected))
					}
				}
				now = now.Add(1000 * 50)
				if rng.IntN(100) < ackProb && len(sent[sp]) > 0 && !(early && sp == 2) {
					pn := sent[sp][len(sent[sp])-1-rng.IntN(min(len(sent[sp]), 4))]
					if pn <= largestAcked[sp] {
						continue
					}
					_, err := sph.ReceivedAck(&wire.AckFrame{AckRanges: []wire.AckRange{{Smallest: pn, Largest: pn}}}, lvl, now)
					if len(trace) < 600 {
						trace = append(trace, fmt.Sprintf("ack %v pn=%d -> %v", lvl, pn, err))
					}
					if err != nil {
						ackErrs++
						break // not this property's business; the history ends like the connection would
					}
					acks++
					largestAcked[sp] = max(largestAcked[sp], pn)
					continue
				}
				pn, ln := sph.PeekPacketNumber(lvl)
				popped := sph.PopPacketNumber(lvl)
				if len(trace) < 600 {
					trace = append(trace, fmt.Sprintf("send %v pn=%d len=%d", lvl, popped, ln))
				}
				la := largestAcked[sp]
				switch {
				case popped != pn:
					sig, detail = "C05|pnspace|pop-differs-from-peek", fmt.Sprintf("%v: PeekPacketNumber announced %d, PopPacketNumber returned %d", lvl, pn, popped)
				case popped <= lastPopped[sp]:
					sig, detail = "C05|pnspace|packet-number-reused", fmt.Sprintf("%v: packet number %d handed out after %d", lvl, popped, lastPopped[sp])
				case ln < 1 || ln > 4:
					sig, detail = "C05|pnspace|invalid-length", fmt.Sprintf("%v: pn=%d length %d", lvl, pn, ln)
				default:
					unacked := int64(pn - la) // la = -1: pn+1
					if int64(1)<<(8*uint(ln)) <= 2*unacked {
						sig, detail = fmt.Sprintf("C05|pnspace|length-too-short|len=%d", ln), fmt.Sprintf("%v: pn=%d with largest acknowledged %d announced with %d byte(s): RFC 9000 17.1 needs more than twice the distance %d", lvl, pn, la, ln, unacked)
						break
					}
					tr := uint64(pn) & (1<<(8*uint(ln)) - 1)
					for _, r := range []int64{int64(max(la, 0)), int64(max(pn-1, la, 0))} {
						if got := wiretap.DecodePN(r, tr, 8*uint(ln)); got != uint64(pn) {
							sig, detail = fmt.Sprintf("C05|pnspace|length-too-short|len=%d", ln), fmt.Sprintf("%v: pn=%d (largest acknowledged %d) sent with %d byte(s) decodes to %d at a receiver whose largest received is %d", lvl, pn, la, ln, got, r)
						}
					}
				}
				if lastPopped[sp] >= 0 && popped > lastPopped[sp]+1 {
					skips++
				}
				lastPopped[sp] = popped
				lens[min(int(ln), 4)]++
				sent[sp] = append(sent[sp], popped)
				sph.SentPacket(now, popped, la, nil, []Frame{{Frame: &wire.PingFrame{}, Handler: c05NopHandler{}}}, lvl, protocol.ECNNon, 100, false, false)
			}
			c.Eval(fmt.Sprintf("pnspace/%s/long%v/l2%v/l3%v/l4%v/skips%d/acks%d/i%v", pers, long, lens[2] > 0, lens[3] > 0, lens[4] > 0, min(skips, 3), min(acks, 3), initialPN > 3))
			l.Count("pnspace_histories", 1)
			l.Count("pnspace_sends", int64(len(sent[0])+len(sent[1])+len(sent[2])))
			l.Count("pnspace_acks", int64(acks))
			l.Count("pnspace_ack_errors", int64(ackErrs))
			l.Count("pnspace_skipped_numbers", int64(skips))
			l.Count("pnspace_len2", int64(lens[2]))
			l.Count("pnspace_len3", int64(lens[3]))
			if sig != "" && !reported[sig] {
				reported[sig] = true
				c.Violation(sig, detail, map[string]any{"perspective": pers.String(), "initial_pn": initialPN, "history_head": trace})
			}
		}
		c.End()
	}
}
