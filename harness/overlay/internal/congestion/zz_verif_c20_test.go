package congestion

// C20 — congestion window and pacing stay within their bounds for every event history.
//
// Runtime monitor.  The real cubicSender (Reno and Cubic) with a model clock and a real
// RTTStats is driven with generated event histories exactly the way sentPacketHandler drives it
// (OnPacketSent with the in-flight value that already contains the packet; per ACK event:
// RTT sample, MaybeExitSlowStart, ECN congestion event, OnCongestionEvent for every lost
// packet, OnPacketAcked for every acked packet in ascending order, all with the same
// priorInFlight = bytes in flight before the event).  After every single call the oracle
// evaluates the clauses of the statement:
//
//	bounds   2·mds ≤ cwnd ≤ 10000·mds + mds, mds = datagram size currently in force
//	shrink   only inside OnCongestionEvent, and only for a packet number larger than the largest
//	         ack-eliciting packet number that had been sent when the window was last cut back
//	         (shadow recovery epoch); never on an ACK / send / RTT sample / MTU increase
//	growth   on an ACK only if the shadow isCwndLimited(priorInFlight) predicate held before it
//	gating   CanSend(bytesInFlight) ⇒ bytesInFlight < cwnd
//	pacing   for every pair (i,j) of authorised sends (HasPacingBudget was true):
//	         Σ bytes(i..j) ≤ burst + 1.25·B_max·(t_j−t_i) + one packet
//
// A history is a list of state-relative operations ("send n", "ack the k oldest", …), so that a
// failing history can be shrunk by deleting operations and replayed by hand.
//
// The pacer is additionally driven directly (newPacer) with adversarial bandwidth functions
// and clock values around the overflow guards.
//
// Replaying by hand: put the "trace" object of a violation record ({"cfg":…,"ops":[…]}) into a
// file and run TestVerifC20Debug with C20_DEBUG=<file>; it prints the window after every op.
//
// Signatures.  The last component of a signature is an input class that only labels the report
// (it never decides whether something is a violation):
//
//	cwnd-below-2-packets|after-mtu-increase   the floor is violated since SetMaxDatagramSize
//	shrink-on-ack|cubic-epoch-older-than-25s  Cubic, event time + minRTT − epoch start > 25 s
//	shrink-on-ack|cubic-min-rtt-decreased     Cubic, minRTT fell since the previous CA ACK
//	shrink-on-ack|cubic-after-mtu-rebase      Cubic, minimal window re-based during the epoch
//	cwnd-below-2-packets|after-shrink-on-ack  the floor is violated since an ACK shrank the window
//
// These five classes fire on the tree as of the build of this monitor (see the build report);
// the unlabelled signatures (cwnd-below-2-packets, shrink-on-ack, …) do not.

import (
	"encoding/json"
	"fmt"
	"math"
	"math/rand/v2"
	"os"
	"sort"
	"strings"
	"testing"
	"time"

	"github.com/refraction-networking/uquic/internal/monotime"
	"github.com/refraction-networking/uquic/internal/protocol"
	"github.com/refraction-networking/uquic/internal/utils"
	"github.com/refraction-networking/uquic/internal/verif/evlog"
)

// ---------------------------------------------------------------------------------------
// history representation

// c20Op is one state-relative operation.
//
//	S  send up to A data packets of size B (0 = full size) while CanSend; C=1: wait for the pacer
//	P  send A probe packets (ack-eliciting, not gated by window or pacer) of size B
//	N  send one non-ack-eliciting packet of size B (not gated, not in flight)
//	K  skip a packet number
//	A  ACK event: A&3 selection (0 oldest, 1 newest, 2 block at offset D, 3 every other),
//	   A&4 ECN-CE congestion event, A&8 no RTT sample; B packets acked; C older packets
//	   declared lost in the same event; E ack delay in µs
//	L  loss-timer event: the B oldest packets below the largest acked are declared lost
//	T  advance the clock by A ns
//	M  SetMaxDatagramSize(A) (ignored if A < current size)
//	R  OnRetransmissionTimeout(A != 0)
//	Q  query HasPacingBudget / TimeUntilSend without sending
type c20Op struct {
	K string `json:"k"`
	A int64  `json:"a,omitempty"`
	B int64  `json:"b,omitempty"`
	C int64  `json:"c,omitempty"`
	D int64  `json:"d,omitempty"`
	E int64  `json:"e,omitempty"`
}

type c20Cfg struct {
	Cubic    bool  `json:"cubic"`
	MDS      int64 `json:"mds"`       // initial max datagram size
	InitPkts int64 `json:"init_pkts"` // 0: NewCubicSender (32 packets); else newCubicSender with that many packets
	Start    int64 `json:"start"`     // clock start (ns)
	ZeroRTT  bool  `json:"zero_rtt"`  // RTTStats{} instead of NewRTTStats()
}

func (c c20Cfg) mode() string {
	if c.Cubic {
		return "cubic"
	}
	return "reno"
}

type c20Pkt struct {
	pn   protocol.PacketNumber
	size protocol.ByteCount
	sent monotime.Time
}

type c20Pace struct {
	t     monotime.Time
	bytes protocol.ByteCount
	bw    float64 // bytes/s, estimate in force at the send
	mds   protocol.ByteCount
}

type c20Clock struct{ now monotime.Time }

func (c *c20Clock) Now() monotime.Time { return c.now }

type c20Viol struct {
	sig, detail string
	op          int
}

type c20Stats struct {
	sendOps, sent, probes, ackOnly, ackEvents, acked, lost, lossEvents, cuts, grows, mtu, mtuRebase int
	appLtdAcks, limitedAcks, recoveryAcks, paceWaits, paceBlocked, cwndBlocked, ssExit, rto         int
	ecn, rttSamples, atMax, atMin, floorHits                                                        int
	minCwndPk, maxCwndPk                                                                            int64
	pairs                                                                                           int64
}

type c20Run struct {
	cfg   c20Cfg
	clk   *c20Clock
	rtt   *utils.RTTStats
	s     *cubicSender
	out   []c20Pkt
	infl  protocol.ByteCount
	next  protocol.PacketNumber
	mds   protocol.ByteCount
	lsent protocol.PacketNumber // largest ack-eliciting packet number sent
	lack  protocol.PacketNumber
	lackT monotime.Time
	epoch protocol.PacketNumber // shadow: largest sent when the window was last cut back
	// an MTU increase happened and the window has not reached two packets of the new size since
	mtuPending bool
	wasSS      bool
	pace       []c20Pace
	st         c20Stats
	viols      []c20Viol
	seen       map[string]bool
	opIdx      int
	panicked   bool
	// labelling only (input class of a shrink-on-ack report): mirror of the Cubic epoch start
	cubicEpoch   monotime.Time
	ackShrunk    bool          // an ACK shrank the window and it has not been at two packets since (label only)
	rebaseTaint  bool          // the minimal window was re-based by an MTU increase during the current Cubic epoch
	minRTTAtGrow time.Duration // MinRTT at the previous congestion-avoidance ACK of the Cubic epoch
	epochLbl     protocol.PacketNumber
	noPace       bool // skip the pacing clause (shrinking another signature)
	work         int
}

const c20MaxPkts = protocol.MaxCongestionWindowPackets

const c20MaxRTTSample = 10 * time.Second

func c20NewRun(cfg c20Cfg) *c20Run {
	r := &c20Run{cfg: cfg, clk: &c20Clock{now: monotime.Time(cfg.Start)}, seen: map[string]bool{}}
	if cfg.ZeroRTT {
		r.rtt = &utils.RTTStats{}
	} else {
		r.rtt = utils.NewRTTStats()
	}
	r.mds = protocol.ByteCount(cfg.MDS)
	if cfg.InitPkts == 0 {
		r.s = NewCubicSender(r.clk, r.rtt, &utils.ConnectionStats{}, r.mds, !cfg.Cubic, nil)
	} else {
		r.s = newCubicSender(r.clk, r.rtt, &utils.ConnectionStats{}, !cfg.Cubic, r.mds,
			protocol.ByteCount(cfg.InitPkts)*r.mds, c20MaxPkts*r.mds, nil)
	}
	r.lsent, r.lack, r.epoch, r.epochLbl = protocol.InvalidPacketNumber, protocol.InvalidPacketNumber, protocol.InvalidPacketNumber, protocol.InvalidPacketNumber
	r.next = 1
	r.st.minCwndPk, r.st.maxCwndPk = math.MaxInt64, 0
	r.wasSS = r.s.InSlowStart()
	r.bounds("init")
	return r
}

func (r *c20Run) fail(sig, f string, a ...any) {
	if r.seen[sig] {
		return
	}
	r.seen[sig] = true
	r.viols = append(r.viols, c20Viol{sig: sig, detail: fmt.Sprintf("op %d: ", r.opIdx) + fmt.Sprintf(f, a...), op: r.opIdx})
}

func (r *c20Run) sig(class string, more ...string) string {
	s := "C20|" + r.cfg.mode() + "|" + class
	for _, m := range more {
		s += "|" + m
	}
	return s
}

func (r *c20Run) bounds(where string) {
	w := r.s.GetCongestionWindow()
	if w < 2*r.mds {
		if r.mtuPending || (r.cfg.Cubic && r.rebaseTaint) {
			r.fail(r.sig("cwnd-below-2-packets", "after-mtu-increase"), "after %s: cwnd %d < 2 x %d (datagram size in force after SetMaxDatagramSize)", where, w, r.mds)
		} else if r.ackShrunk {
			r.fail(r.sig("cwnd-below-2-packets", "after-shrink-on-ack"), "after %s: cwnd %d < 2 x %d (an ACK had shrunk the window)", where, w, r.mds)
		} else {
			r.fail(r.sig("cwnd-below-2-packets"), "after %s: cwnd %d < 2 x %d", where, w, r.mds)
		}
	} else {
		r.mtuPending = false
		r.ackShrunk = false
	}
	if w > c20MaxPkts*r.mds+r.mds {
		r.fail(r.sig("cwnd-above-max"), "after %s: cwnd %d > %d x %d + %d", where, w, c20MaxPkts, r.mds, r.mds)
	}
	pk := int64(w / r.mds)
	r.st.minCwndPk = min(r.st.minCwndPk, pk)
	r.st.maxCwndPk = max(r.st.maxCwndPk, pk)
	if w >= c20MaxPkts*r.mds {
		r.st.atMax++
	}
	if w == 2*r.mds {
		r.st.atMin++
	}
}

const (
	c20Sent = iota
	c20Acked
	c20Loss
	c20ExitSS
	c20MTU
	c20RTO
	c20Query
)

var c20KindName = [...]string{"sent", "ack", "loss", "rtt-sample", "mtu-increase", "rto", "pacing-query"}

// call runs one sender call and evaluates the window clauses on its effect.
func (r *c20Run) call(kind int, pn protocol.PacketNumber, prior protocol.ByteCount, oldMDS protocol.ByteCount, rtoRetx bool, f func()) {
	before := r.s.GetCongestionWindow()
	limited := false
	if kind == c20Acked {
		// shadow of "the sender is actually window-limited" for the priorInFlight passed
		ss := r.s.InSlowStart()
		switch {
		case prior >= before:
			limited = true
		case ss && prior > before/2:
			limited = true
		case before-prior <= 3*r.mds: // within one maximum burst (3 packets) of the window
			limited = true
		}
		if limited {
			r.st.limitedAcks++
		} else {
			r.st.appLtdAcks++
		}
	}
	ssBefore := r.s.InSlowStart()
	epochBefore := r.cubicEpoch
	f()
	after := r.s.GetCongestionWindow()
	name := c20KindName[kind]
	// mirror of the Cubic epoch, used only to label reports
	switch kind {
	case c20Acked:
		if !r.s.InRecovery() {
			if !limited {
				r.cubicEpoch = 0
				defer func() { r.rebaseTaint = false }()
			} else if before < c20MaxPkts*r.mds && !ssBefore {
				if r.cubicEpoch.IsZero() {
					r.cubicEpoch = r.clk.now
				}
				defer func(d time.Duration) { r.minRTTAtGrow = d }(r.rtt.MinRTT())
			}
		}
	case c20Loss:
		if pn > r.epochLbl {
			r.epochLbl = r.lsent
			r.cubicEpoch = 0
			r.rebaseTaint = false
		}
	case c20RTO:
		r.epochLbl = protocol.InvalidPacketNumber
		if rtoRetx {
			r.cubicEpoch = 0
			r.rebaseTaint = false
		}
	}
	if after < before {
		switch kind {
		case c20Loss:
			if pn <= r.epoch {
				r.fail(r.sig("second-shrink-in-window"), "OnCongestionEvent(pn=%d): cwnd %d -> %d although the window was already cut back when packets up to %d had been sent", pn, before, after, r.epoch)
			}
			r.epoch = r.lsent
			r.st.cuts++
		case c20RTO:
			if !rtoRetx {
				r.fail(r.sig("shrink-without-loss", name), "OnRetransmissionTimeout(false): cwnd %d -> %d", before, after)
			}
		case c20Acked:
			r.ackShrunk = true
			if age := r.clk.now.Add(r.rtt.MinRTT()).Sub(epochBefore); r.cfg.Cubic && !epochBefore.IsZero() && age > 25*time.Second {
				r.fail(r.sig("shrink-on-ack", "cubic-epoch-older-than-25s"), "OnPacketAcked(pn=%d, prior=%d, t+minRTT=epoch+%s): cwnd %d -> %d", pn, prior, age, before, after)
			} else if r.cfg.Cubic && r.rebaseTaint {
				r.fail(r.sig("shrink-on-ack", "cubic-after-mtu-rebase"), "OnPacketAcked(pn=%d, prior=%d): cwnd %d -> %d after SetMaxDatagramSize had re-based the minimal window", pn, prior, before, after)
			} else if r.cfg.Cubic && !epochBefore.IsZero() && r.rtt.MinRTT() < r.minRTTAtGrow {
				r.fail(r.sig("shrink-on-ack", "cubic-min-rtt-decreased"), "OnPacketAcked(pn=%d, prior=%d): cwnd %d -> %d, minRTT %s -> %s since the previous window-limited ACK", pn, prior, before, after, r.minRTTAtGrow, r.rtt.MinRTT())
			} else {
				r.fail(r.sig("shrink-on-ack"), "OnPacketAcked(pn=%d, prior=%d): cwnd %d -> %d", pn, prior, before, after)
			}
		default:
			r.fail(r.sig("shrink-without-loss", name), "%s: cwnd %d -> %d", name, before, after)
		}
	} else if after > before {
		switch kind {
		case c20Acked:
			r.st.grows++
			if !limited {
				r.fail(r.sig("growth-not-window-limited"), "OnPacketAcked(pn=%d, prior=%d): cwnd %d -> %d, in flight was %d below the window (slow start %v, mds %d)", pn, prior, before, after, before-prior, r.wasSS, r.mds)
			}
		case c20MTU:
			r.st.mtuRebase++
			r.rebaseTaint = true
			allowed := max(2*r.mds, protocol.ByteCount(float64(before)*float64(r.mds)/float64(oldMDS))+1)
			if after > allowed {
				r.fail(r.sig("growth-without-ack", name), "SetMaxDatagramSize(%d -> %d): cwnd %d -> %d", oldMDS, r.mds, before, after)
			}
		case c20Loss, c20RTO:
			// raising a window that is below the floor to the floor is part of the bounds clause
			if after > 2*r.mds {
				r.fail(r.sig("growth-without-ack", name), "%s (pn=%d): cwnd %d -> %d", name, pn, before, after)
			}
			r.st.floorHits++
		default:
			r.fail(r.sig("growth-without-ack", name), "%s: cwnd %d -> %d", name, before, after)
		}
	}
	if kind == c20RTO {
		r.epoch = protocol.InvalidPacketNumber
	}
	ss := r.s.InSlowStart()
	if r.wasSS && !ss {
		r.st.ssExit++
	}
	r.wasSS = ss
	r.bounds(name)
}

func (r *c20Run) bwBytes() float64 { return float64(r.s.BandwidthEstimate()) / 8 }

func (r *c20Run) sendPkt(size protocol.ByteCount, retx, authorised bool) {
	pn := r.next
	r.next++
	if retx {
		r.infl += size
		r.out = append(r.out, c20Pkt{pn: pn, size: size, sent: r.clk.now})
	}
	// every send materialises pacer tokens with the bandwidth estimate then in force; only
	// authorised sends count towards the bytes of an interval
	if authorised {
		r.pace = append(r.pace, c20Pace{t: r.clk.now, bytes: size, bw: r.bwBytes(), mds: r.mds})
	} else {
		r.pace = append(r.pace, c20Pace{t: r.clk.now, bytes: 0, bw: r.bwBytes(), mds: r.mds})
	}
	r.work++
	r.call(c20Sent, pn, 0, 0, false, func() { r.s.OnPacketSent(r.clk.now, r.infl, pn, size, retx) })
	if retx {
		r.lsent = pn
	}
}

func (r *c20Run) size(b int64) protocol.ByteCount {
	if b <= 0 || protocol.ByteCount(b) > r.mds {
		return r.mds
	}
	return protocol.ByteCount(b)
}

func (r *c20Run) canSend() bool {
	var can bool
	r.call(c20Query, 0, 0, 0, false, func() { can = r.s.CanSend(r.infl) })
	if can && r.infl >= r.s.GetCongestionWindow() {
		r.fail(r.sig("send-gating"), "CanSend(%d) = true with cwnd %d", r.infl, r.s.GetCongestionWindow())
	}
	return can
}

func (r *c20Run) hasBudget() bool {
	var ok bool
	r.call(c20Query, 0, 0, 0, false, func() { ok = r.s.HasPacingBudget(r.clk.now) })
	return ok
}

func (r *c20Run) opSend(op c20Op) {
	r.st.sendOps++
	size := r.size(op.B)
	for i := int64(0); i < op.A; i++ {
		if !r.canSend() {
			r.st.cwndBlocked++
			return
		}
		if !r.hasBudget() {
			if op.C == 0 {
				r.st.paceBlocked++
				return
			}
			ok := false
			for try := 0; try < 3 && !ok; try++ {
				var t monotime.Time
				r.call(c20Query, 0, 0, 0, false, func() { t = r.s.TimeUntilSend(r.infl) })
				if t.After(r.clk.now) {
					r.clk.now = t
				} else {
					r.clk.now = r.clk.now.Add(time.Millisecond)
				}
				r.st.paceWaits++
				ok = r.hasBudget()
			}
			if !ok {
				r.st.paceBlocked++
				return
			}
		}
		r.sendPkt(size, true, true)
		r.st.sent++
	}
}

func (r *c20Run) remove(idx []int) {
	// idx ascending
	k := 0
	j := 0
	for i := range r.out {
		if j < len(idx) && idx[j] == i {
			j++
			continue
		}
		r.out[k] = r.out[i]
		k++
	}
	r.out = r.out[:k]
}

func (r *c20Run) opAck(op c20Op) {
	n := len(r.out)
	if n == 0 || op.B <= 0 {
		return
	}
	cnt := int(min(op.B, int64(n)))
	var idx []int
	switch op.A & 3 {
	case 0:
		for i := 0; i < cnt; i++ {
			idx = append(idx, i)
		}
	case 1:
		for i := n - cnt; i < n; i++ {
			idx = append(idx, i)
		}
	case 2:
		off := int(op.D % int64(n))
		if off < 0 {
			off = 0
		}
		for i := off; i < n && len(idx) < cnt; i++ {
			idx = append(idx, i)
		}
	default:
		off := int(op.D % int64(n))
		if off < 0 {
			off = 0
		}
		for i := off; i < n && len(idx) < cnt; i += 2 {
			idx = append(idx, i)
		}
	}
	if len(idx) == 0 {
		return
	}
	r.st.ackEvents++
	largest := r.out[idx[len(idx)-1]]
	prior := r.infl
	// RTT sample, as in ReceivedAck: the largest acknowledged is newly acknowledged
	if op.A&8 == 0 && (r.lackT.IsZero() || !largest.sent.Before(r.lackT)) {
		// RTT samples are an event type of their own in the property's quantifier (1 µs … 10 s);
		// a packet acknowledged later than that still yields a sample of at most 10 s
		r.rtt.UpdateRTT(min(r.clk.now.Sub(largest.sent), c20MaxRTTSample), time.Duration(op.E)*time.Microsecond)
		r.lackT = largest.sent
		r.st.rttSamples++
	}
	r.call(c20ExitSS, 0, 0, 0, false, func() { r.s.MaybeExitSlowStart() })
	if op.A&4 != 0 && largest.pn > r.lack {
		r.st.ecn++
		r.call(c20Loss, largest.pn, prior, 0, false, func() { r.s.OnCongestionEvent(largest.pn, 0, prior) })
	}
	r.lack = max(r.lack, largest.pn)
	// losses detected in the same event: unacknowledged packets below the largest acknowledged
	chosen := map[int]bool{}
	for _, i := range idx {
		chosen[i] = true
	}
	var lostIdx []int
	for i := 0; i < idx[len(idx)-1] && int64(len(lostIdx)) < op.C; i++ {
		if !chosen[i] {
			lostIdx = append(lostIdx, i)
		}
	}
	if len(lostIdx) > 0 {
		r.st.lossEvents++
	}
	for _, i := range lostIdx {
		p := r.out[i]
		r.infl -= p.size
		r.st.lost++
		r.call(c20Loss, p.pn, prior, 0, false, func() { r.s.OnCongestionEvent(p.pn, p.size, prior) })
	}
	for _, i := range idx {
		p := r.out[i]
		if r.s.InRecovery() {
			r.st.recoveryAcks++
		}
		r.call(c20Acked, p.pn, prior, 0, false, func() { r.s.OnPacketAcked(p.pn, p.size, prior, r.clk.now) })
		r.infl -= p.size
		r.st.acked++
	}
	all := append(lostIdx, idx...)
	sort.Ints(all)
	r.remove(all)
}

func (r *c20Run) opLoss(op c20Op) {
	prior := r.infl
	var lostIdx []int
	for i := 0; i < len(r.out) && int64(len(lostIdx)) < op.B; i++ {
		if r.out[i].pn < r.lack {
			lostIdx = append(lostIdx, i)
		}
	}
	if len(lostIdx) == 0 {
		return
	}
	r.st.lossEvents++
	for _, i := range lostIdx {
		p := r.out[i]
		r.infl -= p.size
		r.st.lost++
		r.call(c20Loss, p.pn, prior, 0, false, func() { r.s.OnCongestionEvent(p.pn, p.size, prior) })
	}
	r.remove(lostIdx)
}

func (r *c20Run) exec(ops []c20Op) {
	defer func() {
		if e := recover(); e != nil {
			r.panicked = true
			r.fail(r.sig("panic"), "panic: %v", e)
		}
	}()
	for i, op := range ops {
		r.opIdx = i
		switch op.K {
		case "S":
			r.opSend(op)
		case "P":
			for k := int64(0); k < op.A; k++ {
				r.sendPkt(r.size(op.B), true, false)
				r.st.probes++
			}
		case "N":
			r.sendPkt(r.size(op.B), false, false)
			r.st.ackOnly++
		case "K":
			r.next++
		case "A":
			r.opAck(op)
		case "L":
			r.opLoss(op)
		case "T":
			if op.A > 0 && int64(r.clk.now) < math.MaxInt64/2-op.A {
				r.clk.now = r.clk.now.Add(time.Duration(op.A))
			}
		case "M":
			if s := protocol.ByteCount(op.A); s >= r.mds {
				old := r.mds
				if s > old {
					r.st.mtu++
					r.mtuPending = true
				}
				r.mds = s
				r.call(c20MTU, 0, 0, old, false, func() { r.s.SetMaxDatagramSize(s) })
			}
		case "R":
			r.st.rto++
			r.call(c20RTO, 0, 0, 0, op.A != 0, func() { r.s.OnRetransmissionTimeout(op.A != 0) })
		case "Q":
			r.hasBudget()
			r.call(c20Query, 0, 0, 0, false, func() { r.s.TimeUntilSend(r.infl) })
		}
	}
	r.opIdx = len(ops)
	r.checkPacing()
}

// checkPacing evaluates the pacing clause over every pair of authorised sends.
func (r *c20Run) checkPacing() {
	if r.noPace {
		return
	}
	if v := c20PairCheck(r.pace, &r.st.pairs); v != "" {
		r.fail(r.sig("pacer-exceeds-burst-plus-rate"), "%s", v)
	}
}

var c20PairFallbacks int64 // traces that needed the explicit pair evaluation

func c20Burst(bw float64, mds protocol.ByteCount) float64 {
	return math.Max(10*float64(mds), 1.25*bw*(protocol.MinPacingDelay+protocol.TimerGranularity).Seconds())
}

// c20PairCheck evaluates  Σ bytes(i..j) ≤ burst + 1.25·B_max(i..j)·(t_j−t_i) + one packet  for every
// pair i ≤ j of the trace.  Pairs that cannot violate are skipped soundly: the allowance is
// non-decreasing in j (time, maximum bandwidth and datagram size only grow), and the sum grows by
// at most maxSize per entry, so with a margin M the next maxSize-steps cannot violate; skips never
// cross a change of bandwidth or datagram size.  A start i that directly follows an authorised
// send at the same instant with the same estimate is dominated by that predecessor.
//
// Before that, an O(n) sufficient condition is tried: a leaky bucket E_j = max(0, E_{j-1} −
// 1.25·bw_j·Δt_j) + bytes_j equals max_i [Σ bytes(i..j) − Σ_k 1.25·bw_k·Δt_k], and Σ_k bw_k·Δt_k ≤
// B_max(i..j)·(t_j−t_i); so E_j ≤ burst(bw_j) + one packet for every j implies the bound for every
// pair.  Only traces that fail this stricter test go through the pair evaluation.
func c20PairCheck(p []c20Pace, pairs *int64) string {
	n := len(p)
	if n == 0 {
		return ""
	}
	{
		e := 0.0
		ok := true
		for j := range p {
			if j > 0 {
				e -= 1.25 * p[j].bw * (float64(p[j].t.Sub(p[j-1].t)) / 1e9) * (1 + 1e-9)
				if e < 0 {
					e = 0
				}
			}
			e += float64(p[j].bytes)
			if e > c20Burst(p[j].bw, p[j].mds)+float64(p[j].mds)+1 {
				ok = false
				break
			}
		}
		if ok {
			*pairs += int64(n) * int64(n+1) / 2
			return ""
		}
	}
	ts := make([]float64, n)
	cum := make([]int64, n+1)
	segEnd := make([]int, n)
	maxSize := 1.0
	for j := range p {
		ts[j] = float64(p[j].t.Sub(p[0].t)) / 1e9
		cum[j+1] = cum[j] + int64(p[j].bytes)
		maxSize = math.Max(maxSize, float64(p[j].bytes))
	}
	for j := n - 1; j >= 0; j-- {
		if j+1 < n && p[j+1].bw == p[j].bw && p[j+1].mds == p[j].mds {
			segEnd[j] = segEnd[j+1]
		} else {
			segEnd[j] = j
		}
	}
	var evaluated int64
	for i := 0; i < n; i++ {
		if p[i].bytes == 0 {
			continue // not an authorised send (bandwidth sample only)
		}
		if i > 0 && p[i-1].bytes > 0 && p[i-1].t == p[i].t && p[i-1].bw == p[i].bw && p[i-1].mds == p[i].mds {
			continue
		}
		bw, mds := p[i].bw, p[i].mds
		burst := c20Burst(bw, mds)
		for j := i; j < n; {
			if p[j].bw > bw || p[j].mds > mds {
				bw = math.Max(bw, p[j].bw)
				mds = max(mds, p[j].mds)
				burst = c20Burst(bw, mds)
			}
			sum := float64(cum[j+1] - cum[i])
			dt := ts[j] - ts[i]
			if dt < 0 {
				dt = 0
			}
			allowed := burst + 1.25*bw*dt*(1+1e-9) + float64(mds) + 1
			evaluated++
			if sum > allowed {
				return fmt.Sprintf("authorised sends %d..%d of the trace: %.0f bytes in %.9fs, allowed burst %.0f + 1.25 x %.0f B/s x dt + %d = %.0f", i, j, sum, dt, burst, bw, mds, allowed)
			}
			step := 1
			if m := allowed - sum; m > 3*maxSize {
				step = int(math.Min(m/maxSize, 1e9)) - 1
				if j+step > segEnd[j] {
					step = max(1, segEnd[j]-j)
				}
			}
			j += step
		}
	}
	*pairs += int64(n) * int64(n+1) / 2
	c20PairFallbacks++
	_ = evaluated
	return ""
}

func c20Bucket(n int) int {
	if n <= 0 {
		return 0
	}
	b := 1
	for n > 1 {
		n >>= 1
		b++
	}
	return b
}

func (r *c20Run) fingerprint() string {
	s := &r.st
	if s.acked+s.lost == 0 {
		return ""
	}
	b2 := func(n int) int { return (c20Bucket(n) + 2) / 3 }
	return fmt.Sprintf("%s|i%d|s%d.%d.%d|a%d|l%d|c%d|g%d|mt%d.%d|al%d.%d.%d|pw%d.%d.%d|ss%d|r%d|e%d|w%d-%d|x%d.%d",
		r.cfg.mode(), b2(int(r.cfg.InitPkts)), b2(s.sent), min(s.probes, 1), min(s.ackOnly, 1),
		b2(s.acked), b2(s.lost), min(s.cuts, 4), b2(s.grows),
		min(s.mtu, 2), min(s.mtuRebase, 1), min(s.appLtdAcks, 1), b2(s.limitedAcks), min(s.recoveryAcks, 1),
		min(s.paceWaits, 1), min(s.paceBlocked, 1), min(s.cwndBlocked, 1), min(s.ssExit, 1), min(s.rto, 1), min(s.ecn, 1),
		b2(int(s.minCwndPk)), b2(int(s.maxCwndPk)), min(s.atMax, 1), min(s.atMin, 1))
}

// ---------------------------------------------------------------------------------------
// generator

func c20LogDur(rng *rand.Rand, lo, hi float64) int64 {
	// log-uniform in [lo, hi] ns
	return int64(math.Exp(math.Log(lo) + rng.Float64()*(math.Log(hi)-math.Log(lo))))
}

var c20Sizes = []int64{1200, 1252, 1280, 1300, 1350, 1400, 1452}

func c20Gen(rng *rand.Rand) (c20Cfg, []c20Op) {
	cfg := c20Cfg{Cubic: rng.IntN(2) == 0, ZeroRTT: rng.IntN(8) == 0}
	cfg.MDS = c20Sizes[rng.IntN(len(c20Sizes))]
	switch rng.IntN(32) {
	case 0, 1:
		cfg.InitPkts = 2
	case 2, 3:
		cfg.InitPkts = int64(2 + rng.IntN(8))
	case 4, 5:
		cfg.InitPkts = int64(50 + rng.IntN(200))
	case 6:
		cfg.InitPkts = int64(c20MaxPkts - rng.IntN(40))
	}
	switch rng.IntN(6) {
	case 0:
		cfg.Start = 1
	case 1:
		cfg.Start = int64(1) << 61
	default:
		cfg.Start = int64(time.Hour) + rng.Int64N(int64(time.Hour))
	}
	// personality of the history
	rtt := float64(c20LogDur(rng, 1e3, 1e10)) // 1 µs … 10 s
	jitter := 1 + rng.Float64()*float64(rng.IntN(4))
	wLoss := rng.IntN(4) * rng.IntN(4)
	wMTU := rng.IntN(3)
	wIdle := rng.IntN(3)
	wApp := rng.IntN(4)
	wBulk := 1 + rng.IntN(6)
	wTrickle := rng.IntN(3) / 2 * rng.IntN(3)
	wMisc := rng.IntN(3)
	big := cfg.InitPkts > 1000
	total := wLoss + wMTU + wIdle + wApp + wBulk + wTrickle + wMisc
	nOps := 10 + rng.IntN(290)
	var ops []c20Op
	adv := func(base float64) {
		d := base * (0.5 + rng.Float64()*jitter)
		if d < 1 {
			d = 1
		}
		ops = append(ops, c20Op{K: "T", A: int64(d)})
	}
	sizeArg := func() int64 {
		if rng.IntN(3) == 0 {
			return int64(1 + rng.IntN(1500))
		}
		return 0
	}
	burst := func() int64 {
		switch {
		case big && rng.IntN(2) == 0:
			return int64(2000 + rng.IntN(10000))
		case rng.IntN(4) == 0:
			return int64(1 + rng.IntN(400))
		default:
			return int64(1 + rng.IntN(48))
		}
	}
	ackDelay := func() int64 {
		if rng.IntN(2) == 0 {
			return 0
		}
		return int64(rng.IntN(30000))
	}
	for len(ops) < nOps {
		x := rng.IntN(total)
		switch {
		case x < wBulk: // keep the window full, ACKs in order about one RTT later
			n := burst()
			ops = append(ops, c20Op{K: "S", A: n, B: sizeArg(), C: int64(rng.IntN(4) / 3)})
			adv(rtt)
			ops = append(ops, c20Op{K: "A", A: 0, B: 1 + rng.Int64N(n+1), E: ackDelay()})
		case x < wBulk+wApp: // application-limited: a few packets, all acknowledged
			n := int64(1 + rng.IntN(3))
			ops = append(ops, c20Op{K: "S", A: n, B: sizeArg(), C: int64(rng.IntN(2))})
			adv(rtt)
			ops = append(ops, c20Op{K: "A", A: int64(rng.IntN(2)), B: 1 + rng.Int64N(100), E: ackDelay()})
		case x < wBulk+wApp+wLoss: // loss
			switch rng.IntN(4) {
			case 0:
				ops = append(ops, c20Op{K: "L", B: int64(1 + rng.IntN(4))})
			case 1:
				ops = append(ops, c20Op{K: "A", A: int64(1 + rng.IntN(3) | 4*(rng.IntN(4)/3)), B: int64(1 + rng.IntN(8)), C: int64(rng.IntN(4)), D: int64(rng.IntN(64)), E: ackDelay()})
			default:
				ops = append(ops, c20Op{K: "S", A: burst(), B: sizeArg(), C: int64(rng.IntN(2))})
				adv(rtt)
				ops = append(ops, c20Op{K: "A", A: int64(1+rng.IntN(3)) | int64(4*(rng.IntN(8)/7)) | int64(8*(rng.IntN(8)/7)), B: int64(1 + rng.IntN(8)), C: int64(1 + rng.IntN(3)), D: int64(rng.IntN(64)), E: ackDelay()})
			}
		case x < wBulk+wApp+wLoss+wMTU:
			ops = append(ops, c20Op{K: "M", A: c20Sizes[rng.IntN(len(c20Sizes))]})
		case x < wBulk+wApp+wLoss+wMTU+wIdle:
			switch rng.IntN(4) {
			case 0:
				ops = append(ops, c20Op{K: "T", A: c20LogDur(rng, 1e3, 1e13)}) // up to 10000 s
			case 1:
				ops = append(ops, c20Op{K: "T", A: c20LogDur(rng, 1e9, 1e12)})
			default:
				adv(rtt * 3)
			}
		case x < wBulk+wApp+wLoss+wMTU+wIdle+wTrickle: // window stays full, ACKs trickle in slowly
			ops = append(ops, c20Op{K: "S", A: burst(), C: 1})
			ops = append(ops, c20Op{K: "T", A: c20LogDur(rng, 1e8, 3e10)})
			ops = append(ops, c20Op{K: "A", A: 0, B: int64(1 + rng.IntN(3)), E: ackDelay()})
		default:
			switch rng.IntN(8) {
			case 0, 1:
				ops = append(ops, c20Op{K: "P", A: int64(1 + rng.IntN(2)), B: sizeArg()})
			case 2, 3:
				ops = append(ops, c20Op{K: "N", B: int64(30 + rng.IntN(100))})
			case 4:
				ops = append(ops, c20Op{K: "K"})
			case 5:
				ops = append(ops, c20Op{K: "Q"})
			case 6:
				if rng.IntN(4) == 0 {
					ops = append(ops, c20Op{K: "R", A: int64(rng.IntN(2))})
				} else {
					ops = append(ops, c20Op{K: "Q"})
				}
			default:
				ops = append(ops, c20Op{K: "A", A: int64(rng.IntN(4)) | 8, B: int64(1 + rng.IntN(20)), D: int64(rng.IntN(64))})
			}
		}
	}
	return cfg, ops
}

// ---------------------------------------------------------------------------------------
// shrinking a failing history

type c20Shrinker struct {
	cfg    c20Cfg
	sig    string
	noPace bool
	work   int // packets sent in re-executions so far
	execs  int
}

func (sh *c20Shrinker) spent() bool { return sh.work > 400000 || sh.execs > 1500 }

func (sh *c20Shrinker) has(ops []c20Op) (bool, string) {
	r := c20NewRun(sh.cfg)
	r.noPace = sh.noPace
	r.exec(ops)
	sh.work += r.work + len(ops)
	sh.execs++
	for _, v := range r.viols {
		if v.sig == sh.sig {
			return true, v.detail
		}
	}
	return false, ""
}

func c20Shrink(cfg c20Cfg, ops []c20Op, v c20Viol) ([]c20Op, string) {
	if v.op+1 < len(ops) {
		ops = ops[:v.op+1]
	}
	ops = append([]c20Op(nil), ops...)
	detail := v.detail
	sh := &c20Shrinker{cfg: cfg, sig: v.sig, noPace: !strings.Contains(v.sig, "pacer")}
	for chunk := max(1, len(ops)/2); !sh.spent(); {
		removed := false
		for i := 0; i+chunk <= len(ops) && !sh.spent(); {
			cand := append(append([]c20Op(nil), ops[:i]...), ops[i+chunk:]...)
			if ok, d := sh.has(cand); ok {
				ops, detail, removed = cand, d, true
			} else {
				i += chunk
			}
		}
		if chunk == 1 {
			if !removed {
				break
			}
		} else {
			chunk /= 2
		}
	}
	// make the numbers smaller where that keeps the failure
	for i := range ops {
		if ops[i].K != "S" && ops[i].K != "A" {
			continue
		}
		for _, f := range []*int64{&ops[i].A, &ops[i].B, &ops[i].E} {
			if ops[i].K == "A" && f == &ops[i].A {
				continue
			}
			for *f > 0 && !sh.spent() {
				old := *f
				*f = old / 2
				if ok, d := sh.has(ops); ok {
					detail = d
				} else {
					*f = old
					break
				}
			}
		}
	}
	return ops, detail
}

func c20OpsString(ops []c20Op) string {
	var b strings.Builder
	for i, o := range ops {
		if i > 0 {
			b.WriteByte(' ')
		}
		fmt.Fprintf(&b, "%s(%d,%d,%d,%d,%d)", o.K, o.A, o.B, o.C, o.D, o.E)
	}
	return b.String()
}

// ---------------------------------------------------------------------------------------
// tests

func c20AddStats(l *evlog.Log, s *c20Stats, mode string) {
	l.Count("histories_"+mode, 1)
	l.Count("packets_sent", int64(s.sent))
	l.Count("probe_packets_sent", int64(s.probes))
	l.Count("ack_only_packets_sent", int64(s.ackOnly))
	l.Count("ack_events", int64(s.ackEvents))
	l.Count("packets_acked", int64(s.acked))
	l.Count("packets_lost", int64(s.lost))
	l.Count("ecn_congestion_events", int64(s.ecn))
	l.Count("window_cutbacks", int64(s.cuts))
	l.Count("window_growths", int64(s.grows))
	l.Count("acks_window_limited", int64(s.limitedAcks))
	l.Count("acks_app_limited", int64(s.appLtdAcks))
	l.Count("acks_in_recovery", int64(s.recoveryAcks))
	l.Count("mtu_increases", int64(s.mtu))
	l.Count("mtu_rebase_of_minimal_window", int64(s.mtuRebase))
	l.Count("loss_raised_window_to_floor", int64(s.floorHits))
	l.Count("slow_start_exits", int64(s.ssExit))
	l.Count("rtt_samples", int64(s.rttSamples))
	l.Count("rto_events", int64(s.rto))
	l.Count("pacer_waits", int64(s.paceWaits))
	l.Count("sends_blocked_by_pacer", int64(s.paceBlocked))
	l.Count("sends_blocked_by_window", int64(s.cwndBlocked))
	l.Count("observations_window_at_max", int64(s.atMax))
	l.Count("observations_window_at_min", int64(s.atMin))
	l.Count("pacer_interval_pairs_covered", s.pairs)
}

type c20Reporter struct {
	c        *evlog.Case
	l        *evlog.Log
	reported map[string]int
}

func (rp *c20Reporter) report(cfg c20Cfg, ops []c20Op, viols []c20Viol) {
	for _, v := range viols {
		rp.reported[v.sig]++
		rp.l.Count("violations_"+v.sig, 1)
		if rp.reported[v.sig] > 2 {
			continue // same signature again in this shard: counted, not logged
		}
		small, detail := c20Shrink(cfg, ops, v)
		rp.c.Violation(v.sig, detail, map[string]any{
			"cfg": cfg, "ops": small, "ops_text": c20OpsString(small), "original_len": len(ops),
		})
	}
}

func TestVerifC20Sender(t *testing.T) {
	l := evlog.Open("C20")
	defer l.Close()
	const perBatch = 250
	batches := l.Pick(400, 20000)
	rp := &c20Reporter{l: l, reported: map[string]int{}}
	c20PairFallbacks = 0
	defer func() { l.Count("pacer_traces_needing_pair_evaluation", c20PairFallbacks) }()
	for b := 0; b < batches; b++ {
		if !l.Mine(b) {
			continue
		}
		id := fmt.Sprintf("sender/batch%05d", b)
		c := l.Begin(id, map[string]any{"histories": perBatch})
		if c == nil {
			continue
		}
		rp.c = c
		rng := l.Rand(id)
		for h := 0; h < perBatch; h++ {
			cfg, ops := c20Gen(rng)
			r := c20NewRun(cfg)
			r.exec(ops)
			c.Eval(r.fingerprint())
			c20AddStats(l, &r.st, cfg.mode())
			l.Count("ops_executed", int64(len(ops)))
			if len(r.viols) > 0 {
				rp.report(cfg, ops, r.viols)
			}
		}
		c.End()
	}
}

// TestVerifC20Scripted runs a few fixed histories that pin the corners named in the design
// (MTU increase after a cut-back, window at the maximum, long idle periods in Cubic mode).
func TestVerifC20Scripted(t *testing.T) {
	l := evlog.Open("C20")
	defer l.Close()
	if !l.Mine(0) {
		return
	}
	c := l.Begin("sender/scripted", nil)
	if c == nil {
		return
	}
	defer c.End()
	rp := &c20Reporter{c: c, l: l, reported: map[string]int{}}
	for _, cubic := range []bool{false, true} {
		for _, mds := range c20Sizes {
			for _, to := range c20Sizes {
				if to <= mds {
					continue
				}
				// Cut the window back in successive epochs down to the floor, let it grow by one
				// packet, cut it once more, then raise the datagram size.
				for grow := 0; grow < 4; grow++ {
					cfg := c20Cfg{Cubic: cubic, MDS: mds, Start: int64(time.Hour)}
					var ops []c20Op
					for k := 0; k < 10; k++ {
						ops = append(ops, c20Op{K: "S", A: 3}, c20Op{K: "T", A: int64(50 * time.Millisecond)}, c20Op{K: "A", A: 1, B: 1, C: 1}, c20Op{K: "A", A: 0, B: 100})
					}
					for k := 0; k < grow; k++ {
						ops = append(ops, c20Op{K: "S", A: 4}, c20Op{K: "T", A: int64(50 * time.Millisecond)}, c20Op{K: "A", A: 0, B: 4})
					}
					ops = append(ops, c20Op{K: "S", A: 3}, c20Op{K: "T", A: int64(50 * time.Millisecond)}, c20Op{K: "A", A: 1, B: 1, C: 1}, c20Op{K: "A", A: 0, B: 100})
					ops = append(ops, c20Op{K: "M", A: to})
					ops = append(ops, c20Op{K: "S", A: 3}, c20Op{K: "T", A: int64(50 * time.Millisecond)}, c20Op{K: "A", A: 0, B: 3})
					r := c20NewRun(cfg)
					r.exec(ops)
					c.Eval("scripted|mtu|" + r.fingerprint())
					c20AddStats(l, &r.st, cfg.mode())
					rp.report(cfg, ops, r.viols)
				}
			}
		}
		// window at the maximum: slow start from just below the cap, every ACK window-limited
		for _, mds := range []int64{1200, 1452} {
			cfg := c20Cfg{Cubic: cubic, MDS: mds, InitPkts: c20MaxPkts - 3, Start: int64(time.Hour)}
			ops := []c20Op{{K: "S", A: 12000, C: 1}, {K: "T", A: int64(20 * time.Millisecond)}, {K: "A", A: 0, B: 50}, {K: "S", A: 100, C: 1}, {K: "A", A: 0, B: 50}, {K: "M", A: 1452}, {K: "S", A: 100, C: 1}, {K: "A", A: 0, B: 50}}
			r := c20NewRun(cfg)
			r.exec(ops)
			c.Eval("scripted|max|" + r.fingerprint())
			c20AddStats(l, &r.st, cfg.mode())
			rp.report(cfg, ops, r.viols)
		}
		// congestion avoidance, one ACK for a full window, idle, next full window
		for _, idle := range []time.Duration{time.Second, 30 * time.Second, 200 * time.Second, 300 * time.Second, 1000 * time.Second, 3600 * time.Second} {
			cfg := c20Cfg{Cubic: cubic, MDS: 1280, Start: int64(time.Hour)}
			ops := []c20Op{{K: "S", A: 40, C: 1}, {K: "T", A: int64(30 * time.Millisecond)}, {K: "A", A: 1, B: 30, C: 1}}
			for k := 0; k < 6; k++ {
				ops = append(ops, c20Op{K: "S", A: 400, C: 1}, c20Op{K: "T", A: int64(30 * time.Millisecond)}, c20Op{K: "A", A: 0, B: 400})
			}
			ops = append(ops, c20Op{K: "T", A: int64(idle)})
			for k := 0; k < 3; k++ {
				ops = append(ops, c20Op{K: "S", A: 400, C: 1}, c20Op{K: "T", A: int64(30 * time.Millisecond)}, c20Op{K: "A", A: 0, B: 400})
			}
			r := c20NewRun(cfg)
			r.exec(ops)
			c.Eval(fmt.Sprintf("scripted|idle%d|", idle/time.Second) + r.fingerprint())
			c20AddStats(l, &r.st, cfg.mode())
			rp.report(cfg, ops, r.viols)
		}
	}
}

// ---------------------------------------------------------------------------------------
// the pacer, driven directly

type c20POp struct {
	K string `json:"k"` // B set bandwidth (bits/s, as uint64), T advance, S greedy sends (A max, B size), U unauthorised send of size A, M set datagram size, W jump to TimeUntilSend, Q query Budget(now-A)
	A uint64 `json:"a,omitempty"`
	B uint64 `json:"b,omitempty"`
}

var c20BWs = []uint64{0, 1, 7, 8, 9, 15, 16, 8 * 1000, 8 * 12800, 8 * 1e6, 8 * 125e6, 8 * 1e10, 8 * 1e13, 1 << 40, 1 << 53, 1 << 60, 1 << 62, 1<<63 - 1, 1 << 63, math.MaxUint64 - 7, math.MaxUint64,
	8 * (math.MaxUint64 / 5 * 4 / uint64(2*time.Millisecond)), 8 * (math.MaxUint64 / 5 * 4 / uint64(time.Second))}

var c20Steps = []uint64{0, 1, 999, 1000, 1e6 - 1, 1e6, 1e6 + 1, 2e6, 2e6 + 1, 1e7, 1e9, 60e9, 3600e9, 1 << 50, 1 << 56, 1 << 60}

func c20GenPacer(rng *rand.Rand) (start int64, ops []c20POp) {
	switch rng.IntN(4) {
	case 0:
		start = 1
	case 1:
		start = 1 << 60
	default:
		start = int64(time.Hour) + rng.Int64N(int64(time.Hour))
	}
	n := 5 + rng.IntN(120)
	bwStyle := rng.IntN(3)
	pickBW := func() uint64 {
		switch bwStyle {
		case 0:
			return c20BWs[rng.IntN(len(c20BWs))]
		case 1:
			return uint64(8 * math.Exp(rng.Float64()*math.Log(1e13)))
		default:
			if rng.IntN(2) == 0 {
				return c20BWs[rng.IntN(len(c20BWs))]
			}
			return rng.Uint64() >> uint(rng.IntN(64))
		}
	}
	ops = append(ops, c20POp{K: "B", A: pickBW()})
	for len(ops) < n {
		switch rng.IntN(12) {
		case 0, 1:
			ops = append(ops, c20POp{K: "B", A: pickBW()})
		case 2, 3, 4:
			if rng.IntN(3) == 0 {
				ops = append(ops, c20POp{K: "T", A: uint64(c20LogDur(rng, 1, 1e13))})
			} else {
				ops = append(ops, c20POp{K: "T", A: c20Steps[rng.IntN(len(c20Steps))]})
			}
		case 5, 6, 7:
			ops = append(ops, c20POp{K: "S", A: uint64(1 + rng.IntN(40)), B: uint64(rng.IntN(3)) / 2 * uint64(1+rng.IntN(1500))})
		case 8:
			ops = append(ops, c20POp{K: "U", A: uint64(1 + rng.IntN(3000))})
		case 9:
			ops = append(ops, c20POp{K: "M", A: uint64(c20Sizes[rng.IntN(len(c20Sizes))])})
		case 10:
			ops = append(ops, c20POp{K: "W"})
		default:
			ops = append(ops, c20POp{K: "Q", A: c20Steps[rng.IntN(len(c20Steps))]})
		}
	}
	return
}

type c20PRun struct {
	p        *pacer
	bw       uint64
	now      monotime.Time
	mds      protocol.ByteCount
	trace    []c20Pace
	viols    []c20Viol
	seen     map[string]bool
	opIdx    int
	sends    int
	unauth   int
	waits    int
	zeroBW   int
	guardHit int
	capHit   int
	refused  int
	pairs    int64
	bwCalls  int
	last     monotime.Time // time of the last SentPacket
}

func (r *c20PRun) fail(sig, f string, a ...any) {
	if r.seen[sig] {
		return
	}
	r.seen[sig] = true
	r.viols = append(r.viols, c20Viol{sig: sig, detail: fmt.Sprintf("op %d: ", r.opIdx) + fmt.Sprintf(f, a...), op: r.opIdx})
}

func (r *c20PRun) bytesPerSec() float64 { return float64(r.bw / 8) }

func (r *c20PRun) budget(at monotime.Time) protocol.ByteCount {
	b := r.p.Budget(at)
	burst := c20Burst(r.bytesPerSec(), r.mds)
	if b < 0 {
		r.fail("C20|pacer|negative-budget", "Budget = %d (bw %d bit/s, now-last = %s)", b, r.bw, at.Sub(r.last))
	}
	if float64(b) > burst+1 {
		r.fail("C20|pacer|budget-exceeds-burst", "Budget = %d > one burst %.0f (bw %d bit/s, mds %d)", b, burst, r.bw, r.mds)
	}
	if float64(b) >= burst-1 {
		r.capHit++
	}
	return b
}

func (r *c20PRun) exec(start int64, ops []c20POp) {
	defer func() {
		if e := recover(); e != nil {
			r.fail("C20|pacer|panic", "panic: %v (bw %d bit/s)", e, r.bw)
		}
	}()
	r.seen = map[string]bool{}
	r.now = monotime.Time(start)
	r.mds = initialMaxDatagramSize
	r.p = newPacer(func() Bandwidth { r.bwCalls++; return Bandwidth(r.bw) })
	for i, op := range ops {
		r.opIdx = i
		switch op.K {
		case "B":
			r.bw = op.A
			if r.bw/8*5/4 == 0 {
				r.zeroBW++
			}
		case "T":
			if int64(r.now) < math.MaxInt64/2 && op.A < math.MaxInt64/4 {
				r.now = r.now.Add(time.Duration(op.A))
			}
		case "M":
			if s := protocol.ByteCount(op.A); s >= r.mds {
				r.mds = s
				r.p.SetMaxDatagramSize(s)
			}
		case "S":
			size := r.mds
			if op.B > 0 && protocol.ByteCount(op.B) < r.mds {
				size = protocol.ByteCount(op.B)
			}
			for k := uint64(0); k < op.A; k++ {
				if r.budget(r.now) < r.mds { // this is cubicSender.HasPacingBudget
					r.refused++
					break
				}
				r.trace = append(r.trace, c20Pace{t: r.now, bytes: size, bw: r.bytesPerSec(), mds: r.mds})
				r.p.SentPacket(r.now, size)
				r.last = r.now
				r.sends++
			}
		case "U":
			r.budget(r.now)
			r.trace = append(r.trace, c20Pace{t: r.now, bytes: 0, bw: r.bytesPerSec(), mds: r.mds})
			r.p.SentPacket(r.now, protocol.ByteCount(op.A))
			r.last = r.now
			r.unauth++
		case "W":
			if r.bw/8*5/4 == 0 {
				continue // no caller can produce a zero estimate; TimeUntilSend is not defined for it
			}
			t := r.p.TimeUntilSend()
			if t.After(r.now) && int64(t) < math.MaxInt64/2 {
				r.now = t
				r.waits++
			}
			r.budget(r.now)
		case "Q":
			at := r.now
			if op.A < uint64(at) {
				at = at.Add(-time.Duration(op.A)) // a query that is stale by A ns (delta <= 0 relative to the last send)
			}
			if !at.IsZero() {
				r.budget(at)
			}
		}
		if bw := r.bw / 8 * 5 / 4; bw > 0 && !r.last.IsZero() {
			if d := r.now.Sub(r.last); d > 0 && uint64(d) > math.MaxUint64/bw {
				r.guardHit++
			}
		}
	}
	r.opIdx = len(ops)
	if v := c20PairCheck(r.trace, &r.pairs); v != "" {
		r.fail("C20|pacer|pacer-exceeds-burst-plus-rate", "%s", v)
	}
}

func TestVerifC20Pacer(t *testing.T) {
	l := evlog.Open("C20")
	defer l.Close()
	const perBatch = 500
	batches := l.Pick(100, 6000)
	reported := map[string]int{}
	for b := 0; b < batches; b++ {
		if !l.Mine(b) {
			continue
		}
		id := fmt.Sprintf("pacer/batch%05d", b)
		c := l.Begin(id, map[string]any{"histories": perBatch})
		if c == nil {
			continue
		}
		rng := l.Rand(id)
		for h := 0; h < perBatch; h++ {
			start, ops := c20GenPacer(rng)
			r := &c20PRun{}
			r.exec(start, ops)
			fp := ""
			if r.sends > 0 {
				fp = fmt.Sprintf("pacer|s%d|u%d|w%d|z%d|g%d|c%d|r%d|st%d", c20Bucket(r.sends), min(r.unauth, 3), c20Bucket(r.waits), min(r.zeroBW, 2), min(r.guardHit, 3), c20Bucket(r.capHit), min(r.refused, 3), c20Bucket(int(start>>30)))
			}
			c.Eval(fp)
			l.Count("pacer_histories", 1)
			l.Count("pacer_authorised_sends", int64(r.sends))
			l.Count("pacer_unauthorised_sends", int64(r.unauth))
			l.Count("pacer_time_until_send_jumps", int64(r.waits))
			l.Count("pacer_zero_bandwidth_settings", int64(r.zeroBW))
			l.Count("pacer_overflow_guard_reached", int64(r.guardHit))
			l.Count("pacer_budget_at_burst_cap", int64(r.capHit))
			l.Count("pacer_sends_refused", int64(r.refused))
			l.Count("pacer_direct_interval_pairs_covered", r.pairs)
			for _, v := range r.viols {
				reported[v.sig]++
				l.Count("violations_"+v.sig, 1)
				if reported[v.sig] > 2 {
					continue
				}
				small := ops
				if v.op+1 < len(ops) {
					small = ops[:v.op+1]
				}
				// shrink by deleting operations
				small = append([]c20POp(nil), small...)
				for i := 0; i < len(small); {
					cand := append(append([]c20POp(nil), small[:i]...), small[i+1:]...)
					rr := &c20PRun{}
					rr.exec(start, cand)
					found := false
					for _, vv := range rr.viols {
						if vv.sig == v.sig {
							found = true
							v.detail = vv.detail
						}
					}
					if found {
						small = cand
					} else {
						i++
					}
				}
				c.Violation(v.sig, v.detail, map[string]any{"start": start, "ops": small, "original_len": len(ops)})
			}
		}
		c.End()
	}
}

// TestVerifC20Debug replays one history by hand: C20_DEBUG=<file with {"cfg":…,"ops":[…]}> (the
// "trace" object of a violation record) and prints the window after every operation.
func TestVerifC20Debug(t *testing.T) {
	fn := os.Getenv("C20_DEBUG")
	if fn == "" {
		t.Skip("C20_DEBUG not set")
	}
	b, err := os.ReadFile(fn)
	if err != nil {
		t.Fatal(err)
	}
	var in struct {
		Cfg c20Cfg  `json:"cfg"`
		Ops []c20Op `json:"ops"`
	}
	if err := json.Unmarshal(b, &in); err != nil {
		t.Fatal(err)
	}
	r := c20NewRun(in.Cfg)
	fmt.Printf("init: cwnd %d mds %d\n", r.s.GetCongestionWindow(), r.mds)
	for i, op := range in.Ops {
		r.exec([]c20Op{op})
		r.opIdx = i
		fmt.Printf("%3d %s(%d,%d,%d,%d,%d): t=+%s cwnd %d inflight %d (%d pkts) mds %d ss=%v rec=%v srtt=%s minrtt=%s bw=%.0fB/s\n", i, op.K, op.A, op.B, op.C, op.D, op.E,
			r.clk.now.Sub(monotime.Time(in.Cfg.Start)), r.s.GetCongestionWindow(), r.infl, len(r.out), r.mds, r.s.InSlowStart(), r.s.InRecovery(), r.rtt.SmoothedRTT(), r.rtt.MinRTT(), r.bwBytes())
	}
	for _, v := range r.viols {
		fmt.Printf("VIOLATION %s: %s\n", v.sig, v.detail)
	}
}
