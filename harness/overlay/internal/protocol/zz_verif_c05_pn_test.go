package protocol

// C05 part (5) — packet number truncation / recovery.
//
// Runtime monitor: the real PacketNumberLengthForHeader / DecodePacketNumber are run on
// enumerated (largest acked, packet number, receiver's largest received) triples.  Ground truth is
// the true packet number; wiretap.DecodePN (independent RFC 9000 A.3 implementation, validated on
// the RFC vectors) is the second opinion that tells "length too short" from "decoder wrong".

import (
	"fmt"
	"testing"

	"github.com/refraction-networking/uquic/internal/verif/evlog"
	"github.com/refraction-networking/uquic/internal/verif/wiretap"
)

const c05MaxPN PacketNumber = 1<<62 - 1

func c05Trunc(pn PacketNumber, l PacketNumberLen) PacketNumber {
	return pn & (PacketNumber(1)<<(8*uint(l)) - 1)
}

// c05Receivers lists values the receiver's "largest received" may have when packet pn arrives in
// order: anything from the sender's largest acked (the receiver acknowledged it, so it received
// it; the openers start at 0) up to pn-1, with emphasis on the ends and on the decoder's window edge.
func c05Receivers(buf []PacketNumber, la, pn PacketNumber, l PacketNumberLen) []PacketNumber {
	lo := max(la, 0)
	hi := max(pn-1, lo)
	hwin := PacketNumber(1) << (8*uint(l) - 1)
	buf = buf[:0]
	add := func(r PacketNumber) {
		if r < lo || r > hi {
			return
		}
		for _, x := range buf {
			if x == r {
				return
			}
		}
		buf = append(buf, r)
	}
	add(lo)
	add(lo + 1)
	add(hi)
	add(hi - 1)
	add(lo + (hi-lo)/2)
	for d := PacketNumber(-2); d <= 2; d++ {
		add(pn - hwin + d)
	}
	return buf
}

type c05PNFail struct{ sig, detail string }

// c05CheckSenderPair checks one (largest acked, pn) pair the way the sender/receiver use the
// functions; returns the number of decodes done.
func c05CheckSenderPair(la, pn PacketNumber, buf *[]PacketNumber, fail *c05PNFail) int {
	l := PacketNumberLengthForHeader(pn, la)
	n := 0
	if l < 1 || l > 4 {
		if fail.sig == "" {
			*fail = c05PNFail{"C05|pn|invalid-length", fmt.Sprintf("PacketNumberLengthForHeader(%d, %d) = %d", pn, la, l)}
		}
		return 0
	}
	// RFC 9000 17.1: the encoding must be able to represent more than twice the distance to the
	// largest acknowledged packet (4 bytes are the maximum, so the rule can bind only below 2^31)
	if unacked := pn - la; unacked < 1<<31 && PacketNumber(1)<<(8*uint(l)) <= 2*unacked && fail.sig == "" {
		*fail = c05PNFail{fmt.Sprintf("C05|pn|length-below-rfc9000-17.1|len=%d", l), fmt.Sprintf("pn=%d largestAcked=%d: %d byte(s) chosen, the distance is %d", pn, la, l, unacked)}
	}
	t := c05Trunc(pn, l)
	*buf = c05Receivers(*buf, la, pn, l)
	for _, r := range *buf {
		n++
		got := DecodePacketNumber(l, r, t)
		if got == pn {
			continue
		}
		if fail.sig != "" {
			continue
		}
		ref := PacketNumber(wiretap.DecodePN(int64(r), uint64(t), 8*uint(l)))
		if ref != pn {
			*fail = c05PNFail{fmt.Sprintf("C05|pn|length-too-short|len=%d", l), fmt.Sprintf("pn=%d largestAcked=%d: PacketNumberLengthForHeader chose %d byte(s); truncated %#x decodes to %d at a receiver whose largest received is %d (RFC 9000 A.3 reference decodes to %d as well)", pn, la, l, t, got, r, ref)}
		} else {
			*fail = c05PNFail{fmt.Sprintf("C05|pn|decode-wrong|len=%d", l), fmt.Sprintf("pn=%d largestAcked=%d len=%d truncated=%#x receiver-largest=%d: DecodePacketNumber=%d, true pn and RFC 9000 A.3 reference=%d", pn, la, l, t, r, got, ref)}
		}
	}
	return n
}

// c05CheckDecode compares the decoder with the reference on an arbitrary input and, when the true
// pn lies inside the RFC A.3 window (expected-hwin, expected+hwin], with the truth.
func c05CheckDecode(l PacketNumberLen, largest, pn PacketNumber, fail *c05PNFail) {
	if pn < 0 || pn > c05MaxPN || largest < 0 || largest > c05MaxPN {
		return
	}
	t := c05Trunc(pn, l)
	got := DecodePacketNumber(l, largest, t)
	ref := PacketNumber(wiretap.DecodePN(int64(largest), uint64(t), 8*uint(l)))
	if got != ref && fail.sig == "" {
		*fail = c05PNFail{fmt.Sprintf("C05|pn|decode-differs-from-rfc-a3|len=%d", l), fmt.Sprintf("DecodePacketNumber(len=%d, largest=%d, truncated=%#x) = %d, RFC 9000 A.3 reference = %d (true pn of the probe %d)", l, largest, t, got, ref, pn)}
	}
	hwin := PacketNumber(1) << (8*uint(l) - 1)
	exp := largest + 1
	if pn > exp-hwin && pn <= exp+hwin && got != pn && fail.sig == "" {
		*fail = c05PNFail{fmt.Sprintf("C05|pn|decode-wrong|len=%d", l), fmt.Sprintf("pn=%d lies in the window (%d, %d] of largest=%d at len %d, truncated=%#x decodes to %d", pn, exp-hwin, exp+hwin, largest, l, t, got)}
	}
}

func TestVerifC05PN(t *testing.T) {
	l := evlog.Open("C05")
	defer l.Close()
	var buf []PacketNumber

	// ---- (a) exhaustive small window: largestAcked in [-1,300], pn in (la, la+70000]
	span := PacketNumber(l.Pick(70000, 70000))
	idx := 0
	for la := PacketNumber(-1); la <= 300; la++ {
		if !l.Mine(idx) {
			idx++
			continue
		}
		idx++
		id := fmt.Sprintf("C05/pn/exh/la%d", la)
		c := l.Begin(id, map[string]any{"largest_acked": la, "span": span})
		if c == nil {
			continue
		}
		var fail c05PNFail
		var decodes, pairs int64
		lens := [5]int64{}
		for pn := la + 1; pn <= la+span; pn++ {
			decodes += int64(c05CheckSenderPair(la, pn, &buf, &fail))
			pairs++
			ln := PacketNumberLengthForHeader(pn, la)
			if ln <= 4 {
				lens[ln]++
			}
			// a 1-byte encoding is permitted by RFC 9000 A.2 while pn-la <= 128: the decoder must handle it
			if pn-la <= 128 {
				for _, r := range c05Receivers(buf, la, pn, 1) {
					if r+1-pn < 128 { // always true here (r < pn)
						c05CheckDecode(1, r, pn, &fail)
						decodes++
					}
				}
			}
			if (pn-la)%1000 == 0 {
				c.Eval(fmt.Sprintf("exh/la%d/blk%d/l%d", la, (pn-la)/1000, ln))
			}
		}
		l.Count("pn_pairs", pairs)
		l.Count("pn_decodes", decodes)
		l.Count("pn_len2", lens[2])
		l.Count("pn_len3", lens[3])
		l.Count("pn_len4", lens[4])
		if fail.sig != "" {
			c.Violation(fail.sig, fail.detail, map[string]any{"largest_acked": la})
		}
		c.End()
	}

	// ---- (b) boundary values: +-3 around 2^7 k, 2^15 k, 2^23 k, 2^31 k and below 2^62-1
	var vals []PacketNumber
	seen := map[PacketNumber]bool{}
	addv := func(v PacketNumber) {
		if v < 0 || v > c05MaxPN || seen[v] {
			return
		}
		seen[v] = true
		vals = append(vals, v)
	}
	around := func(v PacketNumber) {
		for d := PacketNumber(-3); d <= 3; d++ {
			addv(v + d)
		}
	}
	for k := 1; k <= l.Pick(520, 1500); k++ {
		around(PacketNumber(k) << 7)
	}
	for k := 1; k <= l.Pick(260, 800); k++ {
		around(PacketNumber(k) << 15)
	}
	for k := 1; k <= l.Pick(260, 400); k++ {
		around(PacketNumber(k) << 23)
	}
	for k := 1; k <= 16; k++ {
		around(PacketNumber(k) << 31)
		around(c05MaxPN + 1 - PacketNumber(k)<<31)
	}
	for j := uint(32); j <= 61; j++ {
		around(PacketNumber(1) << j)
	}
	around(c05MaxPN - 3)
	for k := 1; k <= 40; k++ {
		around(c05MaxPN + 1 - PacketNumber(k)<<7)
		around(c05MaxPN + 1 - PacketNumber(k)<<15)
		around(c05MaxPN + 1 - PacketNumber(k)<<23)
	}
	// sender pairs: la (or none) x pn from the value set, as long as 4 bytes can carry the distance
	const blk = 64
	las := append([]PacketNumber{-1}, vals...)
	for bi := 0; bi*blk < len(las); bi++ {
		if !l.Mine(bi) {
			continue
		}
		id := fmt.Sprintf("C05/pn/bnd/%04d", bi)
		c := l.Begin(id, map[string]any{"block": bi, "values": len(vals)})
		if c == nil {
			continue
		}
		var fail c05PNFail
		var pairs, decodes, skipped int64
		var tot [5]int64
		for _, la := range las[bi*blk : min(len(las), (bi+1)*blk)] {
			var lens [5]int
			for _, pn := range vals {
				if pn <= la {
					continue
				}
				if pn-la > 1<<31 {
					skipped++ // more packets in flight than a 4-byte packet number can distinguish
					continue
				}
				pairs++
				decodes += int64(c05CheckSenderPair(la, pn, &buf, &fail))
				if ln := PacketNumberLengthForHeader(pn, la); ln <= 4 {
					lens[ln]++
					tot[ln]++
				}
			}
			c.Eval(fmt.Sprintf("bnd/la%d/%v", la, [3]bool{lens[2] > 0, lens[3] > 0, lens[4] > 0}))
		}
		l.Count("pn_pairs", pairs)
		l.Count("pn_decodes", decodes)
		l.Count("pn_pairs_beyond_4_bytes_skipped", skipped)
		l.Count("pn_len2", tot[2])
		l.Count("pn_len3", tot[3])
		l.Count("pn_len4", tot[4])
		if fail.sig != "" {
			c.Violation(fail.sig, fail.detail, map[string]any{"block": bi})
		}
		c.End()
	}

	// ---- (c) decoder against RFC A.3 on and around the window edges, all four lengths
	for bi := 0; bi*blk < len(vals); bi++ {
		if !l.Mine(bi) {
			continue
		}
		id := fmt.Sprintf("C05/pn/edge/%04d", bi)
		c := l.Begin(id, map[string]any{"block": bi})
		if c == nil {
			continue
		}
		var fail c05PNFail
		var probes int64
		for _, largest := range vals[bi*blk : min(len(vals), (bi+1)*blk)] {
			for ln := PacketNumberLen1; ln <= PacketNumberLen4; ln++ {
				win := PacketNumber(1) << (8 * uint(ln))
				exp := largest + 1
				for _, base := range []PacketNumber{exp, exp - win/2, exp + win/2, exp - win, exp + win, exp &^ (win - 1), exp | (win - 1), 0, win, c05MaxPN, c05MaxPN - win} {
					for d := PacketNumber(-3); d <= 3; d++ {
						c05CheckDecode(ln, largest, base+d, &fail)
						probes++
					}
				}
			}
			c.Eval(fmt.Sprintf("edge/%d", largest))
		}
		l.Count("pn_edge_probes", probes)
		if fail.sig != "" {
			c.Violation(fail.sig, fail.detail, map[string]any{"block": bi})
		}
		c.End()
	}
}
