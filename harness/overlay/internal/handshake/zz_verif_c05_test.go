package handshake

// C05 parts (1) and (2) — packet protection matches RFC 9001/9369 and rejects tampering.
//
// Runtime monitor: the repository's real sealers/openers (NewInitialAEAD, the long-header
// sealer/opener built the way cryptoSetup builds them, updatableAEAD for 1-RTT,
// GetRetryIntegrityTag) are driven exactly the way packet_packer.encryptPacket and
// packet_unpacker.unpack{Long,Short}Header drive them.  Oracle: wiretap, an independent
// implementation of the RFC 9001/9369 key schedule, AEAD nonce and header protection that
// reproduces the RFC vectors (selftest_test.go) and imports nothing from the repository.
// AEAD sealing is deterministic, so byte equality of whole protected packets is the relation.

import (
	"bytes"
	"crypto/sha256"
	"crypto/sha512"
	"fmt"
	"hash"
	"math/rand/v2"
	"sync"
	"testing"

	"github.com/refraction-networking/uquic/internal/monotime"
	"github.com/refraction-networking/uquic/internal/protocol"
	"github.com/refraction-networking/uquic/internal/verif/evlog"
	"github.com/refraction-networking/uquic/internal/verif/wiretap"
)

var c05SuiteIDs = []uint16{wiretap.SuiteAES128, wiretap.SuiteAES256, wiretap.SuiteChaCha}

func c05SuiteHash(id uint16) func() hash.Hash {
	if id == wiretap.SuiteAES256 {
		return sha512.New384
	}
	return sha256.New
}

func c05SecretLen(id uint16) int {
	if id == wiretap.SuiteAES256 {
		return 48
	}
	return 32
}

func c05Bytes(rng *rand.Rand, n int) []byte {
	b := make([]byte, n)
	for i := range b {
		b[i] = byte(rng.Uint32())
	}
	return b
}

func c05VersionName(v protocol.Version) string {
	if v == protocol.Version2 {
		return "v2"
	}
	return "v1"
}

// ---------------------------------------------------------------------------------------
// driving the repository's sealers / openers the way the packer / unpacker do

type c05Sealer interface {
	Seal(dst, src []byte, pn protocol.PacketNumber, ad []byte) []byte
	EncryptHeader(sample []byte, firstByte *byte, pnBytes []byte)
	Overhead() int
}

// c05RepoSeal = packetPacker.encryptPacket
func c05RepoSeal(s c05Sealer, hdr []byte, pnLen int, pn uint64, payload []byte) []byte {
	po := len(hdr)
	raw := make([]byte, po+len(payload), po+len(payload)+s.Overhead()+8)
	copy(raw, hdr)
	copy(raw[po:], payload)
	_ = s.Seal(raw[po:po], raw[po:], protocol.PacketNumber(pn), raw[:po])
	raw = raw[:len(raw)+s.Overhead()]
	pnOff := po - pnLen
	s.EncryptHeader(raw[pnOff+4:pnOff+4+16], &raw[0], raw[pnOff:po])
	return raw
}

type c05Opener interface {
	DecryptHeader(sample []byte, firstByte *byte, pnBytes []byte)
	DecodePacketNumber(wirePN protocol.PacketNumber, wirePNLen protocol.PacketNumberLen) protocol.PacketNumber
	c05Open(dst, src []byte, pn protocol.PacketNumber, firstByte byte, ad []byte) ([]byte, error)
}

type c05LongO struct{ LongHeaderOpener }

func (o c05LongO) c05Open(dst, src []byte, pn protocol.PacketNumber, _ byte, ad []byte) ([]byte, error) {
	return o.Open(dst, src, pn, ad)
}

type c05ShortO struct {
	*updatableAEAD
	now monotime.Time
}

func (o c05ShortO) c05Open(dst, src []byte, pn protocol.PacketNumber, fb byte, ad []byte) ([]byte, error) {
	kp := protocol.KeyPhaseZero
	if fb&0x04 != 0 {
		kp = protocol.KeyPhaseOne
	}
	return o.Open(dst, src, o.now, pn, kp, ad)
}

type c05Opened struct {
	hdr     []byte
	pn      protocol.PacketNumber
	payload []byte
	err     error
	short   bool // too short for a header protection sample: rejected before any key is used
}

// c05RepoOpen = packetUnpacker.unpack{Long,Short}Header + Open: remove header protection
// assuming a 4-byte packet number, learn the length, restore the bytes that were not packet
// number, expand the packet number with the opener, open.  explicitPN >= 0 bypasses the packet
// number expansion (used where the receiver state cannot be brought near a huge packet number).
func c05RepoOpen(o c05Opener, pkt []byte, pnOff int, explicitPN int64) c05Opened {
	if len(pkt) < pnOff+4+16 {
		return c05Opened{short: true, err: fmt.Errorf("packet too small")}
	}
	data := append([]byte(nil), pkt...)
	var orig [4]byte
	copy(orig[:], data[pnOff:pnOff+4])
	o.DecryptHeader(data[pnOff+4:pnOff+4+16], &data[0], data[pnOff:pnOff+4])
	pnLen := int(data[0]&3) + 1
	var w protocol.PacketNumber
	for i := 0; i < pnLen; i++ {
		w = w<<8 | protocol.PacketNumber(data[pnOff+i])
	}
	copy(data[pnOff+pnLen:pnOff+4], orig[pnLen:])
	pn := o.DecodePacketNumber(w, protocol.PacketNumberLen(pnLen))
	if explicitPN >= 0 {
		pn = protocol.PacketNumber(explicitPN)
	}
	l := pnOff + pnLen
	dec, err := o.c05Open(data[l:l], data[l:], pn, data[0], data[:l])
	if err != nil {
		return c05Opened{err: err}
	}
	return c05Opened{hdr: data[:l], pn: pn, payload: dec}
}

// ---------------------------------------------------------------------------------------
// header construction

func c05PNBytes(pn uint64, pnLen int) []byte {
	b := make([]byte, pnLen)
	for i := 0; i < pnLen; i++ {
		b[pnLen-1-i] = byte(pn >> (8 * i))
	}
	return b
}

// c05LongHeader builds an RFC 9000 long header (typ: 0 Initial, 1 0-RTT, 2 Handshake) for the version.
func c05LongHeader(v protocol.Version, typ int, dcid, scid, token []byte, pnLen int, pn uint64, payloadLen int) []byte {
	bits := byte(typ)
	if v == protocol.Version2 {
		bits = byte(typ+1) & 3
	}
	h := []byte{0xc0 | bits<<4 | byte(pnLen-1), byte(uint32(v) >> 24), byte(uint32(v) >> 16), byte(uint32(v) >> 8), byte(uint32(v))}
	h = append(h, byte(len(dcid)))
	h = append(h, dcid...)
	h = append(h, byte(len(scid)))
	h = append(h, scid...)
	if typ == 0 {
		h = append(h, byte(len(token))) // < 64: one-byte varint
		h = append(h, token...)
	}
	n := pnLen + payloadLen + 16
	h = append(h, 0x40|byte(n>>8), byte(n))
	return append(h, c05PNBytes(pn, pnLen)...)
}

func c05ShortHeader(dcid []byte, kpBit int, pnLen int, pn uint64) []byte {
	h := []byte{0x40 | byte(kpBit)<<2 | byte(pnLen-1)}
	h = append(h, dcid...)
	return append(h, c05PNBytes(pn, pnLen)...)
}

// ---------------------------------------------------------------------------------------
// one direction of one encryption level: repo sealer at the sender, repo opener at the receiver,
// wiretap keys for the same traffic secret

type c05Dir struct {
	level   string // initial / handshake / 0rtt / 1rtt
	v       protocol.Version
	suite   uint16
	sealer  c05Sealer
	mkOpen  func() c05Opener // fresh receiver state
	wk      *wiretap.Keys
	long    bool
	typ     int
	descr   map[string]any
	primePN int64 // receiver's largest received packet number before the packet under test (-1: none)
}

func c05InitialDir(dcid []byte, v protocol.Version, sender protocol.Perspective) (*c05Dir, error) {
	cid := protocol.ParseConnectionID(dcid)
	sealer, _ := NewInitialAEAD(cid, sender, v)
	cs, ss := wiretap.InitialSecrets(uint32(v), dcid)
	sec := cs
	if sender == protocol.PerspectiveServer {
		sec = ss
	}
	wk, err := wiretap.NewKeys(uint32(v), wiretap.SuiteAES128, sec)
	if err != nil {
		return nil, err
	}
	return &c05Dir{level: "initial", v: v, suite: wiretap.SuiteAES128, sealer: sealer, wk: wk, long: true, typ: 0,
		mkOpen: func() c05Opener {
			_, o := NewInitialAEAD(cid, sender.Opposite(), v)
			return c05LongO{o}
		},
		descr: map[string]any{"level": "initial", "version": c05VersionName(v), "dcid": fmt.Sprintf("%x", dcid), "sender": sender.String()},
	}, nil
}

func c05SecretDir(level string, v protocol.Version, suite uint16, secret []byte) (*c05Dir, error) {
	cs := getCipherSuite(suite)
	wk, err := wiretap.NewKeys(uint32(v), suite, secret)
	if err != nil {
		return nil, err
	}
	d := &c05Dir{level: level, v: v, suite: suite, wk: wk,
		descr: map[string]any{"level": level, "version": c05VersionName(v), "suite": fmt.Sprintf("%#04x", suite), "secret": fmt.Sprintf("%x", secret)}}
	switch level {
	case "handshake", "0rtt":
		d.long = true
		d.typ = 2
		if level == "0rtt" {
			d.typ = 1
		}
		// exactly what cryptoSetup.SetWriteKey / SetReadKey do for these levels
		d.sealer = newLongHeaderSealer(createAEAD(cs, secret, v), newHeaderProtector(cs, secret, true, v))
		d.mkOpen = func() c05Opener {
			return c05LongO{newLongHeaderOpener(createAEAD(cs, secret, v), newHeaderProtector(cs, secret, true, v))}
		}
	default: // 1rtt, key phase 0
		snd := newUpdatableAEAD(c05RTT(), nil, c05Logger, v)
		snd.SetWriteKey(cs, secret)
		d.sealer = snd
		d.mkOpen = func() c05Opener {
			rcv := newUpdatableAEAD(c05RTT(), nil, c05Logger, v)
			rcv.SetReadKey(cs, secret)
			return c05ShortO{rcv, monotime.Time(1 << 40)}
		}
	}
	return d, nil
}

// c05Packet is one plaintext packet for a direction.
type c05Packet struct {
	hdr     []byte
	pnOff   int
	pnLen   int
	pn      uint64
	payload []byte
}

func (d *c05Dir) header(rng *rand.Rand, dcid []byte, pnLen int, pn uint64, payloadLen int) []byte {
	if d.long {
		var token []byte
		if d.typ == 0 && rng.IntN(3) == 0 {
			token = c05Bytes(rng, rng.IntN(40))
		}
		return c05LongHeader(d.v, d.typ, dcid, c05Bytes(rng, rng.IntN(21)), token, pnLen, pn, payloadLen)
	}
	return c05ShortHeader(dcid, 0, pnLen, pn)
}

// c05PrimeOpener brings a fresh receiver to "largest received = prime" by letting it open one
// packet (sealed by the oracle) with a 4-byte packet number.  prime must be < 2^31.
func (d *c05Dir) primed(prime int64) (c05Opener, string) {
	o := d.mkOpen()
	if prime <= 0 {
		return o, ""
	}
	hdr := []byte{0x43, 1, 2, 3, 4}
	if d.long {
		hdr = c05LongHeader(d.v, d.typ, []byte{1, 2, 3, 4}, nil, nil, 4, uint64(prime), 5)
	} else {
		hdr = append(hdr, c05PNBytes(uint64(prime), 4)...)
	}
	pkt := d.wk.ProtectPacket(hdr, 4, uint64(prime), []byte("prime"))
	r := c05RepoOpen(o, pkt, len(hdr)-4, -1)
	if r.err != nil || int64(r.pn) != prime {
		return o, fmt.Sprintf("priming packet pn=%d (4-byte) sealed by the reference: repo opener returned pn=%d err=%v", prime, r.pn, r.err)
	}
	return o, ""
}

// c05CheckPacket runs the four comparisons for one plaintext packet; returns (sig, detail).
func (d *c05Dir) check(p c05Packet, prime int64, explicit bool) (string, string) {
	repoPkt := c05RepoSeal(d.sealer, p.hdr, p.pnLen, p.pn, p.payload)
	refPkt := d.wk.ProtectPacket(p.hdr, p.pnLen, p.pn, p.payload)
	pre := "C05|" + d.level + "|"
	cls := "|" + c05VersionName(d.v) + fmt.Sprintf("/%#04x", d.suite)
	var sig, detail string
	if !bytes.Equal(repoPkt, refPkt) {
		what := "header-protection-differs"
		if len(repoPkt) != len(refPkt) {
			what = "length-differs"
		} else if !bytes.Equal(repoPkt[len(p.hdr):], refPkt[len(p.hdr):]) {
			what = "ciphertext-differs"
		}
		sig, detail = pre+what+cls, fmt.Sprintf("same plaintext packet (pn=%d pnLen=%d payload %d B): repo %x, RFC reference %x", p.pn, p.pnLen, len(p.payload), repoPkt, refPkt)
	}
	expl := int64(-1)
	if explicit {
		expl = int64(p.pn)
	}
	if explicit {
		prime = -1 // the receiver state cannot be brought there; the packet number expansion is bypassed
	}
	// the repo's receiver opens the reference packet
	o, perr := d.primed(prime)
	if perr != "" && sig == "" {
		sig, detail = pre+"repo-rejects-reference-packet"+cls, perr
	}
	r := c05RepoOpen(o, refPkt, p.pnOff, expl)
	if sig == "" {
		switch {
		case r.err != nil:
			sig, detail = pre+"repo-rejects-reference-packet"+cls, fmt.Sprintf("reference packet %x (pn=%d pnLen=%d, receiver largest %d): %v", refPkt, p.pn, p.pnLen, prime, r.err)
		case uint64(r.pn) != p.pn || !bytes.Equal(r.hdr, p.hdr) || !bytes.Equal(r.payload, p.payload):
			sig, detail = pre+"repo-opens-to-different-plaintext"+cls, fmt.Sprintf("reference packet pn=%d hdr=%x payload=%x opened as pn=%d hdr=%x payload=%x", p.pn, p.hdr, p.payload, r.pn, r.hdr, r.payload)
		}
	}
	// the repo's receiver opens the repo's packet (round trip)
	if !bytes.Equal(repoPkt, refPkt) {
		o2, _ := d.primed(prime)
		r2 := c05RepoOpen(o2, repoPkt, p.pnOff, expl)
		if r2.err == nil && (uint64(r2.pn) != p.pn || !bytes.Equal(r2.hdr, p.hdr) || !bytes.Equal(r2.payload, p.payload)) {
			sig, detail = pre+"round-trip-different-plaintext"+cls, fmt.Sprintf("pn=%d hdr=%x payload=%x opened as pn=%d hdr=%x payload=%x", p.pn, p.hdr, p.payload, r2.pn, r2.hdr, r2.payload)
		}
	}
	// the reference opens the repo's packet
	largest := prime
	if explicit {
		largest = int64(p.pn) - 1
	}
	h, pn, pnLen, pl, err := d.wk.Unprotect(repoPkt, p.pnOff, largest)
	if sig == "" {
		switch {
		case err != nil:
			sig, detail = pre+"reference-rejects-repo-packet"+cls, fmt.Sprintf("repo packet %x (pn=%d): %v", repoPkt, p.pn, err)
		case pn != p.pn || pnLen != p.pnLen || !bytes.Equal(h, p.hdr) || !bytes.Equal(pl, p.payload):
			sig, detail = pre+"reference-opens-to-different-plaintext"+cls, fmt.Sprintf("pn=%d hdr=%x opened as pn=%d hdr=%x", p.pn, p.hdr, pn, h)
		}
	}
	return sig, detail
}

// c05PNChoice picks (receiver's largest received, packet number) for a packet number length so
// that the truncated number decodes (RFC 9000 A.3 window), and tells whether the receiver state can
// be reached (explicit=false) or the expansion has to be bypassed.
func c05PNChoice(rng *rand.Rand, pnLen int) (prime int64, pn uint64, explicit bool) {
	hwin := int64(1) << (8*pnLen - 1)
	switch rng.IntN(8) {
	case 0:
		prime = -1
	case 1, 2:
		prime = rng.Int64N(300)
	case 3, 4:
		prime = 1<<16 + rng.Int64N(1<<31-1<<17)
	case 5:
		prime = 1<<31 - 2 - rng.Int64N(1000)
	default:
		// beyond what one 4-byte priming packet can reach: 2^32 .. 2^62-1, around byte boundaries
		sh := 32 + rng.IntN(30)
		base := int64(1)<<sh + rng.Int64N(int64(1)<<sh)
		if rng.IntN(3) == 0 {
			base = int64(1)<<62 - 1 - rng.Int64N(1000)
		}
		if rng.IntN(3) == 0 {
			base = int64(1)<<(8*(4+rng.IntN(4))) - 1 + rng.Int64N(3) // ..ff / ..00 / ..01 across byte 4..7 carries
		}
		return base - 1, uint64(base), true
	}
	exp := prime + 1
	if prime < 0 {
		exp = 1 // a fresh repo opener starts with largest = 0
	}
	d := rng.Int64N(hwin) // pn in [exp, exp+hwin)
	if rng.IntN(4) == 0 {
		d = rng.Int64N(min(hwin, 4))
	}
	if prime < 0 && rng.IntN(3) == 0 {
		return prime, 0, false
	}
	return prime, uint64(exp + d), false
}

func (d *c05Dir) sweep(c *evlog.Case, l *evlog.Log, rng *rand.Rand, dcid []byte, tag string) {
	for pnLen := 1; pnLen <= 4; pnLen++ {
		minPayload := 4 - pnLen // smallest payload that still leaves a 16-byte sample at pn_offset+4
		sizes := make([]int, 0, 24)
		for s := minPayload; s <= minPayload+17; s++ {
			sizes = append(sizes, s)
		}
		sizes = append(sizes, 18+rng.IntN(100), 120+rng.IntN(1000), 1162+rng.IntN(290))
		for _, sz := range sizes {
			prime, pn, explicit := c05PNChoice(rng, pnLen)
			payload := c05Bytes(rng, sz)
			hdr := d.header(rng, dcid, pnLen, pn, sz)
			p := c05Packet{hdr: hdr, pnOff: len(hdr) - pnLen, pnLen: pnLen, pn: pn, payload: payload}
			sig, detail := d.check(p, prime, explicit)
			szc := "min"
			if sz > minPayload {
				szc = "small"
			}
			if sz > minPayload+17 {
				szc = "large"
			}
			c.Eval(fmt.Sprintf("%s/%s/pl%d/%s/x%v", tag, d.level, pnLen, szc, explicit))
			l.Count("seal_open_pairs_"+d.level, 1)
			if explicit {
				l.Count("seal_open_pn_above_2^32", 1)
			}
			if sz == minPayload {
				l.Count("seal_open_min_payload", 1)
			}
			if sig != "" {
				tr := map[string]any{"hdr": fmt.Sprintf("%x", hdr), "pn": pn, "pn_len": pnLen, "payload": fmt.Sprintf("%x", payload), "receiver_largest": prime}
				for k, v := range d.descr {
					tr[k] = v
				}
				c.Violation(sig, detail, tr)
				return
			}
		}
	}
}

func c05EdgeDCIDs(rng *rand.Rand, n int, variant int) []byte {
	switch variant % 4 {
	case 0:
		return c05Bytes(rng, n)
	case 1:
		return make([]byte, n)
	case 2:
		return bytes.Repeat([]byte{0xff}, n)
	default:
		b := []byte{0x83, 0x94, 0xc8, 0xf0, 0x3e, 0x51, 0x57, 0x08, 0x83, 0x94, 0xc8, 0xf0, 0x3e, 0x51, 0x57, 0x08, 0x83, 0x94, 0xc8, 0xf0}
		return b[:n]
	}
}

func TestVerifC05Seal(t *testing.T) {
	l := evlog.Open("C05")
	defer l.Close()

	// ---- Initial: DCID length 0..20 x {v1,v2} x both senders
	nInit := l.Pick(4, 120)
	idx := 0
	for bi := 0; bi < nInit; bi++ {
		for n := 0; n <= 20; n++ {
			if !l.Mine(idx) {
				idx++
				continue
			}
			idx++
			id := fmt.Sprintf("C05/seal/initial/%03d/len%02d", bi, n)
			c := l.Begin(id, map[string]any{"batch": bi, "dcid_len": n})
			if c == nil {
				continue
			}
			rng := l.Rand(id)
			dcid := c05EdgeDCIDs(rng, n, bi)
			for _, v := range []protocol.Version{protocol.Version1, protocol.Version2} {
				for _, sender := range []protocol.Perspective{protocol.PerspectiveClient, protocol.PerspectiveServer} {
					d, err := c05InitialDir(dcid, v, sender)
					if err != nil {
						c.Inconclusive(err.Error())
						continue
					}
					d.sweep(c, l, rng, dcid, fmt.Sprintf("cid%d/%s/%s", n, c05VersionName(v), sender))
				}
			}
			c.End()
		}
	}

	// ---- Handshake / 0-RTT / 1-RTT from random traffic secrets, three suites
	nSec := l.Pick(14, 600)
	for bi := 0; bi < nSec; bi++ {
		if !l.Mine(idx) {
			idx++
			continue
		}
		idx++
		id := fmt.Sprintf("C05/seal/secret/%04d", bi)
		c := l.Begin(id, map[string]any{"batch": bi})
		if c == nil {
			continue
		}
		rng := l.Rand(id)
		for _, v := range []protocol.Version{protocol.Version1, protocol.Version2} {
			for _, suite := range c05SuiteIDs {
				for _, level := range []string{"handshake", "0rtt", "1rtt"} {
					secret := c05Bytes(rng, c05SecretLen(suite))
					d, err := c05SecretDir(level, v, suite, secret)
					if err != nil {
						c.Inconclusive(err.Error())
						continue
					}
					d.sweep(c, l, rng, c05Bytes(rng, rng.IntN(21)), fmt.Sprintf("%s/%#04x", c05VersionName(v), suite))
				}
			}
		}
		c.End()
	}

	// ---- Retry integrity tag
	nRetry := l.Pick(4, 100)
	for bi := 0; bi < nRetry; bi++ {
		if !l.Mine(idx) {
			idx++
			continue
		}
		idx++
		id := fmt.Sprintf("C05/seal/retry/%03d", bi)
		c := l.Begin(id, map[string]any{"batch": bi})
		if c == nil {
			continue
		}
		rng := l.Rand(id)
		for k := 0; k < 1000; k++ {
			v := protocol.Version1
			if k&1 == 1 {
				v = protocol.Version2
			}
			odcid := c05EdgeDCIDs(rng, (k/2)%21, k/42)
			retry := c05Bytes(rng, rng.IntN(200))
			got := GetRetryIntegrityTag(retry, protocol.ParseConnectionID(odcid), v)
			want := wiretap.RetryTag(uint32(v), retry, odcid)
			c.Eval(fmt.Sprintf("retry/%s/cid%d/n%d", c05VersionName(v), len(odcid), len(retry)/50))
			l.Count("retry_tags", 1)
			if !bytes.Equal(got[:], want) {
				c.Violation("C05|retry|integrity-tag-differs|"+c05VersionName(v), fmt.Sprintf("retry=%x odcid=%x: repo %x, RFC reference %x", retry, odcid, got[:], want),
					map[string]any{"retry": fmt.Sprintf("%x", retry), "odcid": fmt.Sprintf("%x", odcid), "version": c05VersionName(v)})
				break
			}
		}
		c.End()
	}
}

// ---------------------------------------------------------------------------------------
// (2) tampering

func TestVerifC05Tamper(t *testing.T) {
	l := evlog.Open("C05")
	defer l.Close()
	nSets := l.Pick(320, 24000)
	const perCase = 8
	for bi := 0; bi*perCase < nSets; bi++ {
		if !l.Mine(bi) {
			continue
		}
		id := fmt.Sprintf("C05/tamper/%05d", bi)
		c := l.Begin(id, map[string]any{"batch": bi, "sets": perCase})
		if c == nil {
			continue
		}
		rng := l.Rand(id)
		for k := 0; k < perCase; k++ {
			set := bi*perCase + k
			v := protocol.Version1
			if set&1 == 1 {
				v = protocol.Version2
			}
			dcid := c05Bytes(rng, []int{0, 1, 8, 20, rng.IntN(21)}[rng.IntN(5)])
			var d *c05Dir
			var err error
			switch (set / 2) % 4 {
			case 0:
				sender := protocol.PerspectiveClient
				if rng.IntN(2) == 0 {
					sender = protocol.PerspectiveServer
				}
				d, err = c05InitialDir(dcid, v, sender)
			case 1:
				suite := c05SuiteIDs[(set/8)%3]
				d, err = c05SecretDir("handshake", v, suite, c05Bytes(rng, c05SecretLen(suite)))
			default:
				suite := c05SuiteIDs[(set/8)%3]
				d, err = c05SecretDir("1rtt", v, suite, c05Bytes(rng, c05SecretLen(suite)))
			}
			if err != nil {
				c.Inconclusive(err.Error())
				continue
			}
			pnLen := 1 + rng.IntN(4)
			prime, pn, explicit := c05PNChoice(rng, pnLen)
			for explicit {
				prime, pn, explicit = c05PNChoice(rng, pnLen)
			}
			var sz int
			switch rng.IntN(4) {
			case 0:
				sz = 4 - pnLen
			case 1, 2:
				sz = 4 - pnLen + rng.IntN(20)
			default:
				sz = 40 + rng.IntN(1300)
			}
			if !d.long && rng.IntN(2) == 0 {
				dcid = dcid[:min(len(dcid), 8)]
			}
			payload := c05Bytes(rng, sz)
			hdr := d.header(rng, dcid, pnLen, pn, sz)
			pnOff := len(hdr) - pnLen
			pkt := c05RepoSeal(d.sealer, hdr, pnLen, pn, payload)
			o, perr := d.primed(prime)
			if perr != "" {
				c.Violation("C05|"+d.level+"|repo-rejects-reference-packet|"+c05VersionName(d.v)+fmt.Sprintf("/%#04x", d.suite), perr, d.descr)
				continue
			}
			// mutations: (kind, position)
			type mut struct{ bit, trunc int }
			var muts []mut
			nbits := len(pkt) * 8
			if len(pkt) <= 64 {
				for b := 0; b < nbits; b++ {
					muts = append(muts, mut{bit: b, trunc: -1})
				}
				for n := 0; n < len(pkt); n++ {
					muts = append(muts, mut{bit: -1, trunc: n})
				}
			} else {
				for b := 0; b < (len(hdr)+4+16)*8 && b < nbits; b++ { // header, the 4 assumed pn bytes and the sample
					muts = append(muts, mut{bit: b, trunc: -1})
				}
				for j := 0; j < 256; j++ {
					muts = append(muts, mut{bit: rng.IntN(nbits), trunc: -1})
				}
				for b := nbits - 16*8; b < nbits; b++ { // the tag
					muts = append(muts, mut{bit: b, trunc: -1})
				}
				for j := 0; j < 24; j++ {
					muts = append(muts, mut{bit: -1, trunc: rng.IntN(len(pkt))})
				}
				for n := len(pkt) - 20; n < len(pkt); n++ {
					muts = append(muts, mut{bit: -1, trunc: n})
				}
			}
			accepted := 0
			var short, rejected int64
			for _, m := range muts {
				var mp []byte
				if m.trunc >= 0 {
					mp = pkt[:m.trunc]
				} else {
					mp = append([]byte(nil), pkt...)
					mp[m.bit/8] ^= 1 << (7 - m.bit%8)
				}
				r := c05RepoOpen(o, mp, pnOff, -1)
				if r.err != nil {
					if r.short {
						short++
					} else {
						rejected++
					}
					continue
				}
				accepted++
				same := uint64(r.pn) == pn && bytes.Equal(r.hdr, hdr) && bytes.Equal(r.payload, payload)
				what := fmt.Sprintf("bit %d flipped", m.bit)
				if m.trunc >= 0 {
					what = fmt.Sprintf("truncated to %d bytes", m.trunc)
				}
				tr := map[string]any{"packet": fmt.Sprintf("%x", pkt), "pn_offset": pnOff, "pn": pn, "pn_len": pnLen, "receiver_largest": prime, "mutation": what}
				for k, v := range d.descr {
					tr[k] = v
				}
				sigc := "different-plaintext"
				if same {
					sigc = "same-plaintext"
				}
				c.Violation("C05|tamper|modified-packet-accepted|"+d.level+"|"+sigc, fmt.Sprintf("%s packet of %d bytes, %s: opened without error to pn=%d hdr=%x payload=%x (original pn=%d hdr=%x payload=%x)", d.level, len(pkt), what, r.pn, r.hdr, r.payload, pn, hdr, payload), tr)
				break
			}
			// the untouched packet still opens afterwards (the failed attempts did not corrupt the receiver)
			r := c05RepoOpen(o, pkt, pnOff, -1)
			if accepted == 0 && (r.err != nil || uint64(r.pn) != pn || !bytes.Equal(r.payload, payload) || !bytes.Equal(r.hdr, hdr)) {
				tr := map[string]any{"packet": fmt.Sprintf("%x", pkt), "pn_offset": pnOff, "pn": pn, "pn_len": pnLen, "receiver_largest": prime}
				for k, v := range d.descr {
					tr[k] = v
				}
				c.Violation("C05|tamper|original-rejected-after-forgeries|"+d.level, fmt.Sprintf("after %d rejected forgeries the original packet gives pn=%d err=%v", len(muts), r.pn, r.err), tr)
			}
			small := len(pkt) <= 64
			c.Eval(fmt.Sprintf("tamper/%s/%s/%#04x/pl%d/small%v/cid%d", d.level, c05VersionName(v), d.suite, pnLen, small, min(len(dcid), 9)))
			l.Count("tamper_sets", 1)
			if small {
				l.Count("tamper_sets_all_bits", 1)
			}
			l.Count("tamper_mutations", int64(len(muts)))
			l.Count("tamper_rejected_by_aead", rejected)
			l.Count("tamper_rejected_too_short", short)
		}
		c.End()
	}
}

// ---------------------------------------------------------------------------------------
// Retry integrity tags computed concurrently (the implementation shares a scratch buffer between
// all connections of the process): every goroutine must still get the RFC value for its own input.
// The job is also run under the race detector.

func TestVerifC05RetryConcurrent(t *testing.T) {
	l := evlog.Open("C05")
	defer l.Close()
	rounds := l.Pick(6, 60)
	for bi := 0; bi < rounds; bi++ {
		if !l.Mine(bi) {
			continue
		}
		id := fmt.Sprintf("C05/retry-concurrent/%03d", bi)
		c := l.Begin(id, map[string]any{"batch": bi})
		if c == nil {
			continue
		}
		const workers = 8
		type miss struct{ retry, odcid, got, want string }
		var mu sync.Mutex
		var first *miss
		var wg sync.WaitGroup
		for g := 0; g < workers; g++ {
			wg.Add(1)
			rng := l.Rand(fmt.Sprintf("%s/g%d", id, g))
			go func() {
				defer wg.Done()
				for k := 0; k < 1500; k++ {
					v := protocol.Version1
					if (k+g)&1 == 1 {
						v = protocol.Version2
					}
					odcid := c05EdgeDCIDs(rng, (k/2)%21, k/42)
					retry := c05Bytes(rng, 20+rng.IntN(400))
					got := GetRetryIntegrityTag(retry, protocol.ParseConnectionID(odcid), v)
					want := wiretap.RetryTag(uint32(v), retry, odcid)
					if !bytes.Equal(got[:], want) {
						mu.Lock()
						if first == nil {
							first = &miss{fmt.Sprintf("%x", retry), fmt.Sprintf("%x", odcid), fmt.Sprintf("%x", got[:]), fmt.Sprintf("%x", want)}
						}
						mu.Unlock()
						return
					}
				}
			}()
		}
		wg.Wait()
		c.Eval(fmt.Sprintf("retry-concurrent/%d", bi))
		l.Count("retry_tags_concurrent", workers*1500)
		if first != nil {
			c.Violation("C05|retry|integrity-tag-differs|concurrent", fmt.Sprintf("with %d goroutines computing tags at once: retry=%s odcid=%s: repo %s, RFC reference %s", workers, first.retry, first.odcid, first.got, first.want), nil)
		}
		c.End()
	}
}
