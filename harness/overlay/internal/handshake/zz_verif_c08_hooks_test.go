package handshake_test

// C08 (4): fuzzing/tokens.Fuzz imports internal/handshake, so it is linked from the external
// test package and called by the in-package monitor through handshake.C08FuzzHooks.

import (
	"github.com/refraction-networking/uquic/fuzzing/tokens"
	"github.com/refraction-networking/uquic/internal/handshake"
)

func init() { handshake.C08FuzzHooks["tokens"] = tokens.Fuzz }
