package handshake

// C14 (c), component level: address-validation tokens prove only the address they were issued
// for, carry back exactly the connection IDs they were issued with, and any truncated,
// bit-flipped or foreign-key token is rejected by DecodeToken (treated as absent or invalid).

import (
	"crypto/rand"
	"fmt"
	"net"
	"testing"

	"github.com/refraction-networking/uquic/internal/protocol"
	"github.com/refraction-networking/uquic/internal/verif/evlog"
)

type c14Addr string

func (a c14Addr) Network() string { return "weird" }
func (a c14Addr) String() string  { return string(a) }

func TestVerifC14TokenGenerator(t *testing.T) {
	l := evlog.Open("C14")
	defer l.Close()
	n := l.Pick(400, 20000)
	const batch = 20
	for bi := 0; bi*batch < n; bi++ {
		if !l.Mine(bi) {
			continue
		}
		id := fmt.Sprintf("C14/tokgen/%05d", bi)
		c := l.Begin(id, map[string]any{"batch": bi, "n": batch})
		if c == nil {
			continue
		}
		rng := l.Rand(id)
		for k := 0; k < batch; k++ {
			var key, otherKey TokenProtectorKey
			rand.Read(key[:])
			rand.Read(otherKey[:])
			g, other := NewTokenGenerator(key), NewTokenGenerator(otherKey)
			ip := net.IPv4(byte(1+rng.IntN(200)), byte(rng.IntN(256)), byte(rng.IntN(256)), byte(1+rng.IntN(250)))
			if rng.IntN(3) == 0 {
				ip = net.ParseIP(fmt.Sprintf("2001:db8::%x:%x", rng.IntN(65536), 1+rng.IntN(65000)))
			}
			var addr net.Addr = &net.UDPAddr{IP: ip, Port: 1 + rng.IntN(65000)}
			if rng.IntN(8) == 0 {
				addr = c14Addr(fmt.Sprintf("host-%d", rng.IntN(1000)))
			}
			odcid := make([]byte, rng.IntN(21))
			rscid := make([]byte, rng.IntN(21))
			rand.Read(odcid)
			rand.Read(rscid)
			retry := rng.IntN(2) == 0
			var tok []byte
			var err error
			if retry {
				tok, err = g.NewRetryToken(addr, protocol.ParseConnectionID(odcid), protocol.ParseConnectionID(rscid))
			} else {
				tok, err = g.NewToken(addr, 0)
			}
			if err != nil {
				c.Violation("C14|tokgen|generation-failed", err.Error(), nil)
				continue
			}
			tr := map[string]any{"token": fmt.Sprintf("%x", tok), "addr": addr.String(), "retry": retry}
			dec, err := g.DecodeToken(tok)
			if err != nil || dec == nil {
				c.Violation("C14|tokgen|own-token-rejected", fmt.Sprint(err), tr)
				continue
			}
			if !dec.ValidateRemoteAddr(addr) {
				c.Violation("C14|tokgen|own-address-rejected", "token does not validate for the address it was issued for", tr)
			}
			if dec.IsRetryToken != retry {
				c.Violation("C14|tokgen|token-kind-changed", "", tr)
			}
			if retry && (string(dec.OriginalDestConnectionID.Bytes()) != string(odcid) || string(dec.RetrySrcConnectionID.Bytes()) != string(rscid)) {
				c.Violation("C14|tokgen|retry-token-connection-ids-differ", fmt.Sprintf("odcid %x -> %x, retry scid %x -> %x", odcid, dec.OriginalDestConnectionID.Bytes(), rscid, dec.RetrySrcConnectionID.Bytes()), tr)
			}
			// other addresses
			if u, ok := addr.(*net.UDPAddr); ok {
				ip2 := append(net.IP(nil), u.IP...)
				ip2[len(ip2)-1] ^= byte(1 + rng.IntN(255))
				if dec.ValidateRemoteAddr(&net.UDPAddr{IP: ip2, Port: u.Port}) {
					c.Violation("C14|tokgen|validates-for-other-ip", fmt.Sprintf("issued for %s, validates for %s", u.IP, ip2), tr)
				}
				if dec.ValidateRemoteAddr(c14Addr(u.String())) {
					c.Violation("C14|tokgen|validates-for-non-udp-address", "", tr)
				}
				l.Count("tokgen_other_address_checks", 2)
			} else if dec.ValidateRemoteAddr(c14Addr(addr.String() + "x")) {
				c.Violation("C14|tokgen|validates-for-other-address", "", tr)
			}
			// foreign key
			if d2, err := other.DecodeToken(tok); err == nil && d2 != nil {
				c.Violation("C14|tokgen|token-accepted-under-other-key", "", tr)
			}
			l.Count("tokgen_foreign_key_checks", 1)
			// every truncation, every single-bit flip
			for cut := 1; cut < len(tok); cut++ {
				if d2, err := g.DecodeToken(tok[:cut]); err == nil && d2 != nil && d2.ValidateRemoteAddr(addr) {
					c.Violation("C14|tokgen|truncated-token-validates", fmt.Sprintf("truncated to %d of %d bytes", cut, len(tok)), tr)
					break
				}
			}
			l.Count("tokgen_truncations", int64(len(tok)-1))
			for bit := 0; bit < 8*len(tok); bit++ {
				m := append([]byte(nil), tok...)
				m[bit/8] ^= 1 << (bit % 8)
				if d2, err := g.DecodeToken(m); err == nil && d2 != nil {
					c.Violation("C14|tokgen|bit-flipped-token-accepted", fmt.Sprintf("bit %d flipped", bit), tr)
					break
				}
			}
			l.Count("tokgen_bit_flips", int64(8*len(tok)))
			// appended garbage
			if d2, err := g.DecodeToken(append(append([]byte(nil), tok...), byte(rng.IntN(256)))); err == nil && d2 != nil {
				c.Violation("C14|tokgen|extended-token-accepted", "", tr)
			}
			kind := "new_token"
			if retry {
				kind = "retry"
			}
			c.Eval(fmt.Sprintf("%s/%T/od%d/rs%d", kind, addr, len(odcid), len(rscid)))
		}
		c.End()
	}
}
