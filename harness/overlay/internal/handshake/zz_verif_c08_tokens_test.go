package handshake

// C08 — address validation tokens (TokenGenerator) and the session ticket codec.
//
// Generated tokens (both kinds, every connection ID length, address forms, RTT boundaries) must
// decode to what was put in; every truncation, seeded mutation and random string must be refused
// without a panic; the ASN.1 layer under the AEAD is driven with mutated plaintexts sealed under
// the real key.  Session tickets: Marshal/Unmarshal round trip on boundary values, totality on
// truncations, mutations and noise.

import (
	"bytes"
	"encoding/asn1"
	"encoding/hex"
	"fmt"
	"math"
	"math/rand/v2"
	"net"
	"regexp"
	"runtime/debug"
	"testing"
	"time"

	"github.com/refraction-networking/uquic/internal/protocol"
	"github.com/refraction-networking/uquic/internal/verif/evlog"
	"github.com/refraction-networking/uquic/internal/wire"
	"github.com/refraction-networking/uquic/quicvarint"
)

// C08FuzzHooks is filled by the external test package with fuzzing/tokens.Fuzz.
var C08FuzzHooks = map[string]func([]byte) int{}

type c08TX struct {
	l    *evlog.Log
	c    *evlog.Case
	seen map[string]int
}

func (x *c08TX) viol(sig, detail string, trace map[string]any) {
	x.seen[sig]++
	if x.seen[sig] > 3 {
		return
	}
	x.c.Violation(sig, detail, trace)
}

var c08NumRe = regexp.MustCompile(`0x[0-9a-fA-F]+|\d+`)

func c08Guard(fn func()) (pv any, stack string) {
	defer func() {
		if r := recover(); r != nil {
			pv = r
			stack = string(debug.Stack())
		}
	}()
	fn()
	return nil, ""
}

func c08Class(pv any) string {
	s := fmt.Sprint(pv)
	if e, ok := pv.(error); ok {
		s = e.Error()
	}
	s = c08NumRe.ReplaceAllString(s, "N")
	if len(s) > 80 {
		s = s[:80]
	}
	return s
}

func c08Bytes(r *rand.Rand, n int) []byte {
	b := make([]byte, n)
	for i := range b {
		b[i] = byte(r.Uint32())
	}
	return b
}

func c08Mutate(r *rand.Rand, b []byte) []byte {
	o := append([]byte(nil), b...)
	for range 1 + r.IntN(3) {
		if len(o) == 0 {
			o = append(o, byte(r.Uint32()))
			continue
		}
		i := r.IntN(len(o))
		switch r.IntN(6) {
		case 0:
			o[i] ^= 1 << r.IntN(8)
		case 1:
			o[i] = []byte{0, 1, 0x7f, 0x80, 0xff, 20, 21, 0x30, 0x04, 0x02}[r.IntN(10)]
		case 2:
			o = append(o[:i], o[i+1:]...)
		case 3:
			o = append(o[:i], append([]byte{byte(r.Uint32())}, o[i:]...)...)
		case 4:
			o = o[:i]
		default:
			o = append(o, c08Bytes(r, 1+r.IntN(8))...)
		}
	}
	return o
}

func c08Addrs(r *rand.Rand) []net.Addr {
	v6 := net.IP(c08Bytes(r, 16))
	return []net.Addr{
		&net.UDPAddr{IP: net.IPv4(192, 0, 2, byte(r.IntN(256))), Port: 1 + r.IntN(65535)},
		&net.UDPAddr{IP: net.IP{10, 0, 0, byte(r.IntN(256))}, Port: 443},
		&net.UDPAddr{IP: v6, Port: r.IntN(65536)},
		&net.UDPAddr{},
		&net.TCPAddr{IP: net.IPv4(198, 51, 100, byte(r.IntN(256))), Port: 1 + r.IntN(65535)},
		&net.UnixAddr{Name: "/tmp/sock" + fmt.Sprint(r.IntN(100)), Net: "unixgram"},
	}
}

func c08OtherAddr(a net.Addr) net.Addr {
	switch a := a.(type) {
	case *net.UDPAddr:
		ip := append(net.IP(nil), a.IP...)
		if len(ip) == 0 {
			ip = net.IP{1, 2, 3, 4}
		} else {
			ip[len(ip)-1] ^= 1
		}
		return &net.UDPAddr{IP: ip, Port: a.Port}
	case *net.TCPAddr:
		return &net.TCPAddr{IP: a.IP, Port: a.Port ^ 1}
	}
	return &net.UnixAddr{Name: "/other", Net: "unixgram"}
}

// decodeTotal: DecodeToken on an arbitrary byte string; orig is the genuine token it was derived
// from (nil for noise).  Returns the fingerprint.
func (x *c08TX) decodeTotal(g *TokenGenerator, in, orig []byte, key TokenProtectorKey) string {
	trace := map[string]any{"hex": hex.EncodeToString(in), "key": hex.EncodeToString(key[:])}
	var tok *Token
	var err error
	if pv, st := c08Guard(func() { tok, err = g.DecodeToken(in) }); pv != nil {
		x.viol("C08|token|panic|"+c08Class(pv), fmt.Sprintf("DecodeToken panicked: %v", pv), map[string]any{"hex": hex.EncodeToString(in), "key": hex.EncodeToString(key[:]), "stack": st})
		return "panic"
	}
	if len(in) == 0 {
		if tok != nil || err != nil {
			x.viol("C08|token|empty-token-result", fmt.Sprintf("%v %v", tok, err), trace)
		}
		return "empty"
	}
	if err == nil && tok == nil {
		x.viol("C08|token|nil-token-without-error", "", trace)
		return "bad"
	}
	if err == nil && !bytes.Equal(in, orig) {
		x.viol("C08|token|modified-token-accepted", fmt.Sprintf("a byte string that no generator produced decodes to %+v", *tok), trace)
		return "forged"
	}
	if h := C08FuzzHooks["tokens"]; h != nil {
		fin := append(append(append([]byte(nil), key[:]...), 0), in...)
		if pv, st := c08Guard(func() { h(fin) }); pv != nil {
			x.viol("C08|repofuzz-tokens|panic|"+c08Class(pv), fmt.Sprintf("fuzzing/tokens.Fuzz panicked: %v", pv), map[string]any{"fuzz_input_hex": hex.EncodeToString(fin), "stack": st})
		}
		x.l.Count("repofuzz_tokens_calls", 1)
	}
	if err != nil {
		return fmt.Sprintf("rej|len%d", min(len(in)/16, 12))
	}
	return "ok"
}

func TestVerifC08Tokens(t *testing.T) {
	l := evlog.Open("C08")
	defer l.Close()
	x := &c08TX{l: l, seen: map[string]int{}}
	idx := 0
	next := func(id string) bool {
		mine := l.Mine(idx)
		idx++
		if !mine {
			return false
		}
		x.c = l.Begin(id, nil)
		return x.c != nil
	}
	nMut := l.Pick(40, 300)
	rtts := []time.Duration{0, 1, 999, time.Microsecond, 1500 * time.Nanosecond, time.Millisecond, 333 * time.Millisecond, time.Hour, math.MaxInt64}

	for part := range 4 {
		id := fmt.Sprintf("tokens/rt/%d", part)
		if !next(id) {
			continue
		}
		r := l.Rand(id)
		var key, key2 TokenProtectorKey
		copy(key[:], c08Bytes(r, 32))
		copy(key2[:], c08Bytes(r, 32))
		g, g2 := NewTokenGenerator(key), NewTokenGenerator(key2)
		type gen struct {
			enc   []byte
			class string
		}
		var corpus []gen
		for ai, addr := range c08Addrs(r) {
			// regular (NEW_TOKEN) tokens
			for ri, rtt := range rtts {
				if (ai+ri)%4 != part {
					continue
				}
				t0 := time.Now()
				enc, err := g.NewToken(addr, rtt)
				trace := map[string]any{"addr": addr.String(), "rtt_ns": int64(rtt), "hex": hex.EncodeToString(enc)}
				if err != nil {
					x.viol("C08|token|encode-error", err.Error(), trace)
					continue
				}
				tok, err := g.DecodeToken(enc)
				t1 := time.Now()
				l.Count("gen_token_regular", 1)
				switch {
				case err != nil || tok == nil:
					x.viol("C08|token|valid-rejected", fmt.Sprint(err), trace)
				case tok.IsRetryToken || tok.RTT != rtt/time.Microsecond*time.Microsecond || !tok.ValidateRemoteAddr(addr) || tok.ValidateRemoteAddr(c08OtherAddr(addr)) ||
					tok.OriginalDestConnectionID.Len() != 0 || tok.RetrySrcConnectionID.Len() != 0 ||
					tok.SentTime.Before(t0.Add(-time.Second)) || tok.SentTime.After(t1.Add(time.Second)):
					x.viol("C08|token|roundtrip-differs", fmt.Sprintf("%+v", *tok), trace)
				}
				x.c.Eval(fmt.Sprintf("rt|token|a%d|r%d", ai, ri))
				corpus = append(corpus, gen{enc, "regular"})
			}
			// Retry tokens
			for _, ol := range []int{0, 1, 8, 19, 20} {
				for _, rl := range []int{0, 1, 8, 20} {
					if (ai+ol+rl)%4 != part {
						continue
					}
					odcid, rscid := protocol.ParseConnectionID(c08Bytes(r, ol)), protocol.ParseConnectionID(c08Bytes(r, rl))
					t0 := time.Now()
					enc, err := g.NewRetryToken(addr, odcid, rscid)
					trace := map[string]any{"addr": addr.String(), "odcid": odcid.String(), "rscid": rscid.String(), "hex": hex.EncodeToString(enc)}
					if err != nil {
						x.viol("C08|token|encode-error", err.Error(), trace)
						continue
					}
					tok, err := g.DecodeToken(enc)
					t1 := time.Now()
					l.Count("gen_token_retry", 1)
					switch {
					case err != nil || tok == nil:
						x.viol("C08|token|valid-rejected", fmt.Sprint(err), trace)
					case !tok.IsRetryToken || tok.OriginalDestConnectionID != odcid || tok.RetrySrcConnectionID != rscid || !tok.ValidateRemoteAddr(addr) || tok.ValidateRemoteAddr(c08OtherAddr(addr)) ||
						tok.SentTime.Before(t0.Add(-time.Second)) || tok.SentTime.After(t1.Add(time.Second)):
						x.viol("C08|token|roundtrip-differs", fmt.Sprintf("%+v", *tok), trace)
					}
					x.c.Eval(fmt.Sprintf("rt|retrytoken|a%d|o%d|r%d", ai, ol, rl))
					if len(corpus) < 60 || r.IntN(3) == 0 {
						corpus = append(corpus, gen{enc, "retry"})
					}
				}
			}
		}
		// totality on the ciphertext
		x.c.Eval(x.decodeTotal(g, nil, nil, key))
		for ci, e := range corpus {
			x.c.Eval(x.decodeTotal(g, e.enc, e.enc, key))
			if pv, _ := c08Guard(func() {
				if tok, err := g2.DecodeToken(e.enc); err == nil {
					x.viol("C08|token|modified-token-accepted", fmt.Sprintf("token accepted under a different key: %+v", tok), map[string]any{"hex": hex.EncodeToString(e.enc)})
				}
			}); pv != nil {
				x.viol("C08|token|panic|"+c08Class(pv), "DecodeToken with another key panicked", map[string]any{"hex": hex.EncodeToString(e.enc)})
			}
			l.Count("token_wrong_key_rejections", 1)
			if ci%3 != 0 {
				continue
			}
			for cut := 0; cut < len(e.enc); cut++ {
				x.c.Eval(x.decodeTotal(g, e.enc[:cut], e.enc, key))
				l.Count("truncations_tokens", 1)
			}
			for range nMut {
				m := c08Mutate(r, e.enc)
				x.c.Eval(x.decodeTotal(g, m, e.enc, key))
				l.Count("mutations_tokens", 1)
			}
		}
		for range l.Pick(400, 20000) {
			x.c.Eval(x.decodeTotal(g, c08Bytes(r, r.IntN(160)), nil, key))
			l.Count("random_tokens", 1)
		}
		x.c.End()
	}

	// the ASN.1 layer: mutated plaintexts sealed under the real key
	for part := range l.Pick(2, 16) {
		id := fmt.Sprintf("tokens/plaintext/%d", part)
		if !next(id) {
			continue
		}
		r := l.Rand(id)
		var key TokenProtectorKey
		copy(key[:], c08Bytes(r, 32))
		g := NewTokenGenerator(key)
		for range l.Pick(1500, 8000) {
			tk := token{IsRetryToken: r.IntN(2) == 0, RemoteAddr: c08Bytes(r, r.IntN(20)), Timestamp: int64(r.Uint64()), RTT: int64(r.Uint64() >> uint(r.IntN(64)))}
			if r.IntN(2) == 0 {
				tk.RTT = -tk.RTT
			}
			if tk.IsRetryToken {
				tk.OriginalDestConnectionID, tk.RetrySrcConnectionID = c08Bytes(r, r.IntN(25)), c08Bytes(r, r.IntN(25))
			}
			plain, err := asn1.Marshal(tk)
			if err != nil {
				continue
			}
			mutated := r.IntN(3) > 0
			if mutated {
				plain = c08Mutate(r, plain)
			}
			enc, err := g.tokenProtector.NewToken(plain)
			if err != nil {
				continue
			}
			var tok *Token
			pv, st := c08Guard(func() { tok, err = g.DecodeToken(enc) })
			l.Count("token_sealed_plaintexts", 1)
			fp := "plain|"
			switch {
			case pv != nil && c08Class(pv) == "invalid conn id length":
				// Only reachable with the server's own key (a connection ID field longer than 20 bytes inside an
				// authentic token): outside what a peer can present; recorded as an observation, not as a violation.
				l.Count("token_authentic_oversize_connid_panics", 1)
				x.c.Sample("authentic-plaintext-oversize-connid-panic", map[string]any{"plaintext_hex": hex.EncodeToString(plain)})
				fp += "oversize-connid"
			case pv != nil:
				x.viol("C08|token|panic|"+c08Class(pv), fmt.Sprintf("DecodeToken panicked on an authentic token with plaintext %x: %v", plain, pv), map[string]any{"plaintext_hex": hex.EncodeToString(plain), "stack": st})
				fp += "panic"
			case err != nil:
				fp += "rej"
			case !mutated:
				ok := tok.IsRetryToken == tk.IsRetryToken && tok.SentTime.UnixNano() == tk.Timestamp
				if tk.IsRetryToken {
					ok = ok && bytes.Equal(tok.OriginalDestConnectionID.Bytes(), tk.OriginalDestConnectionID) && bytes.Equal(tok.RetrySrcConnectionID.Bytes(), tk.RetrySrcConnectionID)
				}
				if !ok {
					x.viol("C08|token|roundtrip-differs|plaintext", fmt.Sprintf("%+v from %+v", *tok, tk), map[string]any{"plaintext_hex": hex.EncodeToString(plain)})
				}
				fp += fmt.Sprintf("ok|retry%v", tk.IsRetryToken)
			default:
				fp += "ok-mutated"
			}
			x.c.Eval(fp)
		}
		x.c.End()
	}

	// the repository's token fuzzer on structured inputs for its generator branches
	if h := C08FuzzHooks["tokens"]; h != nil && next("tokens/repofuzz") {
		r := l.Rand("tokens/repofuzz")
		for i := range l.Pick(600, 20000) {
			in := c08Bytes(r, 32)
			switch i % 3 {
			case 0:
				in = append(in, 1, byte(r.IntN(2)))
				in = append(in, c08Bytes(r, 18+r.IntN(3))...)
			case 1:
				ol, rl := r.IntN(21), r.IntN(21)
				in = append(in, 2, byte(ol), byte(rl))
				in = append(in, c08Bytes(r, ol+rl+1+18)...)
			default:
				in = append(in, c08Bytes(r, r.IntN(64))...)
			}
			if pv, st := c08Guard(func() { h(in) }); pv != nil {
				x.viol("C08|repofuzz-tokens|panic|"+c08Class(pv), fmt.Sprintf("fuzzing/tokens.Fuzz panicked: %v", pv), map[string]any{"fuzz_input_hex": hex.EncodeToString(in), "stack": st})
			}
			l.Count("repofuzz_tokens_calls", 1)
			x.c.Eval(fmt.Sprintf("repofuzz|tokens|%d", i%3))
		}
		x.c.End()
	}
}

// ---------------------------------------------------------------------------------------
// session tickets

var c08Bnd = []uint64{0, 1, 2, 62, 63, 64, 65, 16382, 16383, 16384, 16385, 1<<30 - 2, 1<<30 - 1, 1 << 30, 1<<30 + 1, 1<<60 - 1, 1 << 60, 1<<62 - 2, 1<<62 - 1}

func c08Pick(r *rand.Rand, lo, hi uint64) uint64 {
	for {
		v := c08Bnd[r.IntN(len(c08Bnd))]
		if r.IntN(4) == 0 {
			v = r.Uint64() >> uint(2+r.IntN(62))
		}
		if v >= lo && v <= hi {
			return v
		}
	}
}

func c08TicketDiff(a, b *wire.TransportParameters) string {
	switch {
	case a.InitialMaxStreamDataBidiLocal != b.InitialMaxStreamDataBidiLocal:
		return "InitialMaxStreamDataBidiLocal"
	case a.InitialMaxStreamDataBidiRemote != b.InitialMaxStreamDataBidiRemote:
		return "InitialMaxStreamDataBidiRemote"
	case a.InitialMaxStreamDataUni != b.InitialMaxStreamDataUni:
		return "InitialMaxStreamDataUni"
	case a.InitialMaxData != b.InitialMaxData:
		return "InitialMaxData"
	case a.MaxBidiStreamNum != b.MaxBidiStreamNum:
		return "MaxBidiStreamNum"
	case a.MaxUniStreamNum != b.MaxUniStreamNum:
		return "MaxUniStreamNum"
	case a.ActiveConnectionIDLimit != b.ActiveConnectionIDLimit:
		return "ActiveConnectionIDLimit"
	case a.MaxDatagramFrameSize != b.MaxDatagramFrameSize:
		return "MaxDatagramFrameSize"
	case a.EnableResetStreamAt != b.EnableResetStreamAt:
		return "EnableResetStreamAt"
	}
	return ""
}

func (x *c08TX) ticketTotal(in []byte) string {
	trace := map[string]any{"hex": hex.EncodeToString(in)}
	var st sessionTicket
	var err error
	if pv, stack := c08Guard(func() { err = st.Unmarshal(in) }); pv != nil {
		x.viol("C08|ticket|panic|"+c08Class(pv), fmt.Sprintf("sessionTicket.Unmarshal panicked: %v", pv), map[string]any{"hex": hex.EncodeToString(in), "stack": stack})
		return "panic"
	}
	if err != nil {
		return "rej"
	}
	if st.Parameters == nil {
		x.viol("C08|ticket|nil-parameters-without-error", "", trace)
		return "bad"
	}
	if rev, _, rerr := quicvarint.Parse(in); rerr != nil || rev != sessionTicketRevision {
		x.viol("C08|ticket|out-of-range-accepted|revision", fmt.Sprintf("a ticket of revision %d (err %v) was accepted, this build writes revision %d", rev, rerr, sessionTicketRevision), trace)
	}
	p := st.Parameters
	if uint64(p.MaxBidiStreamNum) > 1<<60 || uint64(p.MaxUniStreamNum) > 1<<60 || p.ActiveConnectionIDLimit < 2 {
		x.viol("C08|ticket|out-of-range-accepted", p.String(), trace)
	}
	out := st.Marshal()
	var st2 sessionTicket
	if err := st2.Unmarshal(out); err != nil {
		x.viol("C08|ticket|reencoded-does-not-parse", fmt.Sprintf("%x: %v", out, err), trace)
		return "bad"
	}
	if d := c08TicketDiff(p, st2.Parameters); d != "" {
		x.viol("C08|ticket|reparse-differs", d, trace)
	}
	x.l.Count("parsed_ok_ticket", 1)
	return "ok"
}

func TestVerifC08SessionTicket(t *testing.T) {
	l := evlog.Open("C08")
	defer l.Close()
	x := &c08TX{l: l, seen: map[string]int{}}
	nMut := l.Pick(40, 300)
	for part := range l.Pick(4, 24) {
		if !l.Mine(part) {
			continue
		}
		id := fmt.Sprintf("ticket/%d", part)
		x.c = l.Begin(id, nil)
		if x.c == nil {
			continue
		}
		r := l.Rand(id)
		for range l.Pick(150, 600) {
			mv := uint64(1<<62 - 1)
			p := &wire.TransportParameters{
				InitialMaxStreamDataBidiLocal:  protocol.ByteCount(c08Pick(r, 0, mv)),
				InitialMaxStreamDataBidiRemote: protocol.ByteCount(c08Pick(r, 0, mv)),
				InitialMaxStreamDataUni:        protocol.ByteCount(c08Pick(r, 0, mv)),
				InitialMaxData:                 protocol.ByteCount(c08Pick(r, 0, mv)),
				MaxBidiStreamNum:               protocol.StreamNum(c08Pick(r, 0, 1<<60)),
				MaxUniStreamNum:                protocol.StreamNum(c08Pick(r, 0, 1<<60)),
				ActiveConnectionIDLimit:        c08Pick(r, 2, mv),
				MaxDatagramFrameSize:           protocol.InvalidByteCount,
				EnableResetStreamAt:            r.IntN(2) == 0,
			}
			if r.IntN(2) == 0 {
				p.MaxDatagramFrameSize = protocol.ByteCount(c08Pick(r, 0, mv))
			}
			var enc []byte
			trace := map[string]any{"params": p.String()}
			if pv, st := c08Guard(func() {
				enc = (&sessionTicket{Parameters: p}).Marshal()
				trace["hex"] = hex.EncodeToString(enc)
				var got sessionTicket
				if err := got.Unmarshal(enc); err != nil {
					x.viol("C08|ticket|valid-rejected", err.Error(), trace)
					return
				}
				if d := c08TicketDiff(p, got.Parameters); d != "" {
					x.viol("C08|ticket|roundtrip-differs", d, trace)
				}
				if rev, n, err := quicvarint.Parse(enc); err != nil || rev != sessionTicketRevision || n != 1 {
					x.viol("C08|ticket|revision", fmt.Sprint(rev), trace)
				}
				if !bytes.Equal(enc, got.Marshal()) {
					x.viol("C08|ticket|reencode-not-stable", "", trace)
				}
			}); pv != nil {
				x.viol("C08|ticket|panic|"+c08Class(pv), fmt.Sprint(pv), map[string]any{"params": p.String(), "stack": st})
				continue
			}
			l.Count("gen_session_ticket", 1)
			x.c.Eval(fmt.Sprintf("rt|ticket|len%d|dg%v|rsa%v", len(enc)/8, p.MaxDatagramFrameSize != protocol.InvalidByteCount, p.EnableResetStreamAt))
			if r.IntN(4) != 0 {
				continue
			}
			for cut := 0; cut < len(enc); cut++ {
				x.c.Eval("tot|ticket|" + x.ticketTotal(enc[:cut]))
				l.Count("truncations_tickets", 1)
			}
			for range nMut {
				x.c.Eval("tot|ticket|" + x.ticketTotal(c08Mutate(r, enc)))
				l.Count("mutations_tickets", 1)
			}
		}
		for range l.Pick(500, 10000) {
			b := c08Bytes(r, r.IntN(60))
			if len(b) > 1 && r.IntN(2) == 0 {
				b[0], b[1] = sessionTicketRevision, 1
			}
			x.c.Eval("tot|ticket|" + x.ticketTotal(b))
			l.Count("random_tickets", 1)
		}
		x.c.End()
	}
}
