package handshake

// C05 part (3) — key phases.
//
// Runtime monitor: a client/server pair of real updatableAEADs is driven through generated
// histories (sends the way the packer does them: KeyPhase(), Seal, EncryptHeader; deliveries the
// way the unpacker does them: DecryptHeader, ParseShortHeader, DecodePacketNumber, Open; ACKs via
// SetLargestAcked after a packet carrying them was opened; handshake confirmation, RTT updates,
// time) plus, in adversarial histories, packets forged by a peer that owns the keys but breaks
// the key update rules.  Oracle: a key-schedule reference model.  Keys per generation come from
// wiretap (RFC 9001 6 / RFC 9369 3.3.2 "ku" chain); what each endpoint must / must not open is decided from that
// endpoint's own observations only (RFC 9001 6.1-6.5), so the verdicts stay sound when the two
// ends are out of step.

import (
	"bytes"
	"errors"
	"fmt"
	"math/rand/v2"
	"testing"
	"time"

	"github.com/refraction-networking/uquic/internal/monotime"
	"github.com/refraction-networking/uquic/internal/protocol"
	"github.com/refraction-networking/uquic/internal/qerr"
	"github.com/refraction-networking/uquic/internal/utils"
	"github.com/refraction-networking/uquic/internal/verif/evlog"
	"github.com/refraction-networking/uquic/internal/verif/wiretap"
	"github.com/refraction-networking/uquic/internal/wire"
)

var c05Logger = utils.DefaultLogger

func c05RTT() *utils.RTTStats { return utils.NewRTTStats() }

// c05Chain is the reference key schedule of one direction: generation g = secret_0 updated g times.
type c05Chain struct {
	v     uint32
	suite uint16
	keys  []*wiretap.Keys
	// asImplemented: derive updates with the label "quic ku" regardless of the version.  Only
	// switched on after that deviation has been reported for the history, so that the remaining
	// checks of the history are not masked by it.
	asImplemented bool
}

func newC05Chain(v uint32, suite uint16, secret []byte) *c05Chain {
	k, err := wiretap.NewKeys(v, suite, secret)
	if err != nil {
		panic(err)
	}
	return &c05Chain{v: v, suite: suite, keys: []*wiretap.Keys{k}}
}

func (ch *c05Chain) at(g int) *wiretap.Keys {
	for len(ch.keys) <= g {
		last := ch.keys[len(ch.keys)-1]
		if ch.asImplemented {
			sec := wiretap.HKDFExpandLabel(c05SuiteHash(ch.suite), last.Secret, "quic ku", len(last.Secret))
			k, err := wiretap.NewKeys(ch.v, ch.suite, sec)
			if err != nil {
				panic(err)
			}
			ch.keys = append(ch.keys, k)
		} else {
			ch.keys = append(ch.keys, last.Next())
		}
	}
	return ch.keys[g]
}

func (ch *c05Chain) reset(asImplemented bool) {
	ch.keys = ch.keys[:1]
	ch.asImplemented = asImplemented
}

// protect seals with generation g and applies header protection with the (never updated) hp key.
func (ch *c05Chain) protect(g int, hdr []byte, pnLen int, pn uint64, payload []byte) []byte {
	k := ch.at(g)
	out := append([]byte(nil), hdr...)
	out = append(out, k.Seal(pn, hdr, payload)...)
	pnOff := len(hdr) - pnLen
	mask := ch.keys[0].Mask(out[pnOff+4 : pnOff+20])
	out[0] ^= mask[0] & 0x1f
	for i := 0; i < pnLen; i++ {
		out[pnOff+i] ^= mask[1+i]
	}
	return out
}

type c05Pkt struct {
	From, To int
	PN       int64
	PNLen    int
	Gen      int
	Bit      int
	Ack      int64
	Forged   bool
	hdr      []byte
	payload  []byte
	wire     []byte
}

type c05Side struct {
	name string
	a    *updatableAEAD
	rtt  *utils.RTTStats
	send *c05Chain
	recv *c05Chain

	// reference model, from this endpoint's point of view
	gen          int
	confirmed    bool
	sentCur      bool
	firstSentCur int64
	ackedCur     bool
	lastAck      int64
	rcvdCur      bool
	minRcvdCur   int64
	maxRcvdCur   int64
	prevAvail    bool
	expirySet    bool
	expiry       monotime.Time
	highestRcvd  int64
	everRcvd     bool
	nextPN       int64
	largestSent  int64

	inflight []*c05Pkt
}

type c05Hist struct {
	rng     *rand.Rand
	v       protocol.Version
	suite   uint16
	dcid    []byte
	side    [2]*c05Side
	now     monotime.Time
	trace   []string
	fails   [][2]string // (signature, detail), one per signature
	fatal   bool
	quirked bool

	// observations for the fingerprint / counters
	nSend, nDeliver, nLocalUpd, nRemoteUpd, nPrevOpen, nPrevDropped, nKUE, nForged, nForgedRejected, nReordered, nEither, nPreConfirmSends int
	maxGen                                                                                                                                int
}

func (h *c05Hist) fail(sig, f string, a ...any) {
	for _, x := range h.fails {
		if x[0] == sig {
			return
		}
	}
	h.fails = append(h.fails, [2]string{sig, fmt.Sprintf(f, a...)})
}

func (h *c05Hist) log(f string, a ...any) { h.trace = append(h.trace, fmt.Sprintf(f, a...)) }

func newC05Hist(rng *rand.Rand, v protocol.Version, suite uint16) *c05Hist {
	h := &c05Hist{rng: rng, v: v, suite: suite, now: monotime.Time(1 << 40)}
	cs := getCipherSuite(suite)
	n := c05SecretLen(suite)
	secC, secS := c05Bytes(rng, n), c05Bytes(rng, n) // client write secret, server write secret
	h.dcid = c05Bytes(rng, []int{0, 4, 8, 20}[rng.IntN(4)])
	chC, chS := newC05Chain(uint32(v), suite, secC), newC05Chain(uint32(v), suite, secS)
	for i := range h.side {
		s := &c05Side{name: []string{"client", "server"}[i], rtt: utils.NewRTTStats(), lastAck: -1, largestSent: -1}
		s.a = newUpdatableAEAD(s.rtt, nil, c05Logger, v)
		if i == 0 { // the client gets its read key first, the server its write key (see SetReadKey's comment)
			s.a.SetReadKey(cs, secS)
			s.a.SetWriteKey(cs, secC)
			s.send, s.recv = chC, chS
		} else {
			s.a.SetWriteKey(cs, secS)
			s.a.SetReadKey(cs, secC)
			s.send, s.recv = chS, chC
		}
		s.nextPN = int64(rng.IntN(3))
		h.side[i] = s
	}
	h.log("setup version=%s suite=%#04x dcid=%x client_secret=%x server_secret=%x", c05VersionName(v), suite, h.dcid, secC, secS)
	// Probe the update derivation once up front (on a throw-away endpoint), so that a deviation in
	// it is reported under its own signature and the forged packets of this history are made with
	// the keys the endpoints really have.
	probe := newUpdatableAEAD(utils.NewRTTStats(), nil, c05Logger, v)
	probe.SetWriteKey(cs, secC)
	probe.rollKeys()
	hdr, pl := c05ShortHeader(h.dcid, 1, 2, 7), []byte("probe")
	got := probe.Seal(nil, pl, 7, hdr)
	if !bytes.Equal(got, chC.at(1).Seal(7, hdr, pl)) {
		alt := newC05Chain(uint32(v), suite, secC)
		alt.asImplemented = true
		if v == protocol.Version2 && bytes.Equal(got, alt.at(1).Seal(7, hdr, pl)) {
			h.fail("C05|keyphase|v2-key-update-uses-v1-ku-label", "QUIC v2, suite %#04x, write secret %x: after one key update the endpoint seals with keys from HKDF-Expand-Label(secret, \"quic ku\"); RFC 9369 3.3.2 requires the label \"quicv2 ku\" (pn=7 hdr=%x payload=%x: repo %x, RFC %x)", suite, secC, hdr, pl, got, chC.at(1).Seal(7, hdr, pl))
			h.quirked = true
			chC.reset(true)
			chS.reset(true)
		}
	}
	return h
}

func c05BitOf(kp protocol.KeyPhaseBit) int {
	switch kp {
	case protocol.KeyPhaseZero:
		return 0
	case protocol.KeyPhaseOne:
		return 1
	}
	return -1
}

// send: what packetPacker does for a 1-RTT packet.
func (h *c05Hist) send(i int) {
	x := h.side[i]
	kp := x.a.KeyPhase()
	bit := c05BitOf(kp)
	if bit < 0 {
		h.fail("C05|keyphase|undefined-key-phase-bit", "%s: KeyPhase() = %v", x.name, kp)
		h.fatal = true
		return
	}
	if bit != x.gen&1 {
		// the endpoint initiated a key update
		switch {
		case !x.confirmed:
			h.fail("C05|keyphase|update-initiated|before-handshake-confirmed", "%s initiated a key update from generation %d before the handshake was confirmed (RFC 9001 6.1)", x.name, x.gen)
		case x.gen > 0 && !x.ackedCur:
			h.fail("C05|keyphase|update-initiated|before-ack-in-current-phase", "%s initiated a key update from generation %d without an acknowledgement for a packet sent in that phase (first sent in phase: %v/%d, acks seen up to %d) (RFC 9001 6.1)", x.name, x.gen, x.sentCur, x.firstSentCur, x.lastAck)
		}
		x.gen++
		x.sentCur, x.ackedCur, x.rcvdCur = false, false, false
		x.prevAvail, x.expirySet = true, false
		h.nLocalUpd++
		h.maxGen = max(h.maxGen, x.gen)
		h.log("%s initiates key update -> generation %d", x.name, x.gen)
	}
	if !x.confirmed {
		h.nPreConfirmSends++
	}
	pn := x.nextPN
	x.nextPN++
	if h.rng.IntN(12) == 0 {
		x.nextPN++ // skipped packet number
	}
	pnLen := int(protocol.PacketNumberLengthForHeader(protocol.PacketNumber(pn), protocol.PacketNumber(x.lastAck)))
	if r := h.rng.IntN(6); r == 0 {
		pnLen = 4
	} else if r == 1 && pnLen < 3 {
		pnLen = 3
	}
	// the packer pads so that packet number + payload are at least 4 bytes (header protection sample)
	payload := c05Bytes(h.rng, max(4-pnLen, 1, []int{0, 1 + h.rng.IntN(30), 30 + h.rng.IntN(1200)}[h.rng.IntN(3)]))
	hdrRepo, err := wire.AppendShortHeader(nil, protocol.ParseConnectionID(h.dcid), protocol.PacketNumber(pn), protocol.PacketNumberLen(pnLen), kp)
	hdr := c05ShortHeader(h.dcid, bit, pnLen, uint64(pn))
	if err != nil || !bytes.Equal(hdrRepo, hdr) {
		h.fail("C05|keyphase|short-header-encoding", "AppendShortHeader(dcid=%x pn=%d len=%d kp=%v) = %x, %v; RFC 9000 17.3.1: %x", h.dcid, pn, pnLen, kp, hdrRepo, err, hdr)
		h.fatal = true
		return
	}
	pkt := c05RepoSeal(x.a, hdr, pnLen, uint64(pn), payload)
	ack := int64(-1)
	if x.everRcvd {
		ack = x.highestRcvd
	}
	p := &c05Pkt{From: i, To: 1 - i, PN: pn, PNLen: pnLen, Gen: x.gen, Bit: bit, Ack: ack, hdr: hdr, payload: payload, wire: pkt}
	h.log("%s sends pn=%d len=%d gen=%d bit=%d payload=%dB ack=%d", x.name, pn, pnLen, x.gen, bit, len(payload), ack)
	h.nSend++
	// ciphertext must be what the reference produces with the keys of the model's generation
	want := x.send.protect(x.gen, hdr, pnLen, uint64(pn), payload)
	if !bytes.Equal(pkt, want) {
		h.diagnoseSeal(x, p, want)
		if h.fatal {
			return
		}
	}
	if !x.sentCur {
		x.sentCur, x.firstSentCur = true, pn
	}
	x.largestSent = pn
	h.side[1-i].inflight = append(h.side[1-i].inflight, p)
}

func (h *c05Hist) diagnoseSeal(x *c05Side, p *c05Pkt, want []byte) {
	cls := fmt.Sprintf("%s/%#04x", c05VersionName(h.v), h.suite)
	if !bytes.Equal(p.wire[len(p.hdr):], want[len(p.hdr):]) {
		// which keys did it use?
		if h.v == protocol.Version2 && !h.quirked && x.gen > 0 {
			alt := newC05Chain(x.send.v, x.send.suite, x.send.keys[0].Secret)
			alt.asImplemented = true
			if bytes.Equal(alt.protect(x.gen, p.hdr, p.PNLen, uint64(p.PN), p.payload), p.wire) {
				h.fail("C05|keyphase|v2-key-update-uses-v1-ku-label", "QUIC v2, %s, generation %d: the packet is protected with a secret derived with HKDF label \"quic ku\"; RFC 9369 3.3.2 requires \"quicv2 ku\" (repo packet %x, RFC packet %x)", x.name, x.gen, p.wire, want)
				h.quirked = true
				for _, s := range h.side {
					s.send.reset(true)
				}
				return
			}
		}
		for g := max(0, x.gen-2); g <= x.gen+3; g++ {
			if g != x.gen && bytes.Equal(x.send.protect(g, p.hdr, p.PNLen, uint64(p.PN), p.payload), p.wire) {
				h.fail(fmt.Sprintf("C05|keyphase|sealed-with-wrong-generation|delta=%+d", g-x.gen), "%s: packet pn=%d carries key phase bit %d, reference generation %d, but is sealed with the keys of generation %d", x.name, p.PN, p.Bit, x.gen, g)
				h.fatal = true
				return
			}
		}
		h.fail("C05|keyphase|ciphertext-differs|"+cls, "%s generation %d pn=%d: repo %x, RFC reference %x", x.name, x.gen, p.PN, p.wire, want)
	} else {
		h.fail("C05|keyphase|header-protection-differs|"+cls, "%s generation %d pn=%d: repo %x, RFC reference %x", x.name, x.gen, p.PN, p.wire, want)
	}
	h.fatal = true
}

func c05IsKUE(err error) bool {
	var te *qerr.TransportError
	return errors.As(err, &te) && te.ErrorCode == qerr.KeyUpdateError
}

// deliver: what packetUnpacker.UnpackShortHeader + Conn.handleAckFrame do.
func (h *c05Hist) deliver(p *c05Pkt) {
	y := h.side[p.To]
	t := h.now
	if y.prevAvail && y.expirySet && t.After(y.expiry) {
		y.prevAvail = false
	}
	c, g := y.gen, p.Gen
	// ---- reference verdict, from y's observations only
	const (
		mustOpen = iota
		mustReject
		either
	)
	verdict, why := mustReject, ""
	switch {
	case p.Bit != g&1:
		why = "key-phase-bit-does-not-match-keys"
	case g == c:
		verdict, why = mustOpen, "current"
	case g == c+1:
		switch {
		case c > 0 && !y.sentCur:
			why = "premature-update" // the peer cannot have seen an ACK for a packet of phase c: nothing was sent in it
		case c > 0 && !y.rcvdCur:
			why = "update-before-previous-confirmed"
		case y.rcvdCur && p.PN < y.minRcvdCur:
			why = "newer-keys-lower-pn"
		case y.rcvdCur && p.PN < y.maxRcvdCur:
			verdict, why = either, "newer-keys-pn-inside-current-phase"
		default:
			verdict, why = mustOpen, "next"
		}
	case g == c-1:
		switch {
		case !y.prevAvail:
			why = "previous-keys-discarded"
		case !y.rcvdCur || p.PN < y.minRcvdCur:
			verdict, why = mustOpen, "previous"
		case p.PN > y.maxRcvdCur:
			why = "older-keys-higher-pn"
		default:
			verdict, why = either, "older-keys-pn-inside-current-phase"
		}
	default:
		why = "far-generation"
	}
	// ---- the real endpoint
	data := append([]byte(nil), p.wire...)
	hl := 1 + len(h.dcid)
	var orig [4]byte
	copy(orig[:], data[hl:hl+4])
	y.a.DecryptHeader(data[hl+4:hl+4+16], &data[0], data[hl:hl+4])
	l, wpn, pnLen, kp, perr := wire.ParseShortHeader(data, len(h.dcid))
	if perr != nil {
		h.fail("C05|keyphase|header-unprotect", "%s: header of pn=%d gen=%d does not parse after removing header protection: %v (first byte %#x, sent %#x)", y.name, p.PN, g, perr, data[0], p.hdr[0])
		h.fatal = true
		return
	}
	if pnLen != protocol.PacketNumberLen4 {
		copy(data[hl+int(pnLen):hl+4], orig[int(pnLen):])
	}
	pn := y.a.DecodePacketNumber(wpn, pnLen)
	dec, err := y.a.Open(data[l:l], data[l:], t, pn, kp, data[:l])
	h.nDeliver++
	if p.PN < y.highestRcvd {
		h.nReordered++
	}
	if p.Forged {
		h.nForged++
	}
	h.log("t=+%v deliver to %s pn=%d gen=%d bit=%d forged=%v (receiver gen=%d): verdict=%s -> err=%v", time.Duration(t-monotime.Time(1<<40)), y.name, p.PN, g, p.Bit, p.Forged, c, why, err)
	opened := err == nil
	if opened {
		if int(pnLen) != p.PNLen || int64(pn) != p.PN || c05BitOf(kp) != p.Bit || !bytes.Equal(data[:l], p.hdr) || !bytes.Equal(dec, p.payload) {
			h.fail("C05|keyphase|opened-to-different-plaintext", "%s: packet pn=%d hdr=%x payload=%x opened as pn=%d hdr=%x payload=%x", y.name, p.PN, p.hdr, p.payload, pn, data[:l], dec)
			h.fatal = true
			return
		}
	}
	switch verdict {
	case mustOpen:
		if !opened {
			h.fail("C05|keyphase|valid-packet-rejected|"+why, "%s at generation %d (sent in phase: %v, received in phase: %v [%d,%d], previous keys available: %v) rejected a packet of generation %d pn=%d (decoded %d): %v", y.name, c, y.sentCur, y.rcvdCur, y.minRcvdCur, y.maxRcvdCur, y.prevAvail, g, p.PN, pn, err)
			h.fatal = true
			return
		}
	case mustReject:
		if opened {
			sig := "C05|keyphase|opened-what-must-be-rejected|" + why
			h.fail(sig, "%s at generation %d (sent in phase: %v, received in phase: %v [%d,%d], previous keys expiry set %v at +%v, now +%v) opened a packet of generation %d pn=%d", y.name, c, y.sentCur, y.rcvdCur, y.minRcvdCur, y.maxRcvdCur, y.expirySet, time.Duration(y.expiry-monotime.Time(1<<40)), time.Duration(t-monotime.Time(1<<40)), g, p.PN)
			h.fatal = true
			return
		}
		if p.Forged {
			h.nForgedRejected++
		}
		if why == "previous-keys-discarded" {
			h.nPrevDropped++
		}
		if c05IsKUE(err) {
			h.nKUE++
			if why != "premature-update" {
				h.fail("C05|keyphase|fatal-error-for-droppable-packet|"+why, "%s: KEY_UPDATE_ERROR (%v) for a packet that only has to be dropped", y.name, err)
			}
			h.fatal = true // the connection is closed
			return
		}
		if err != ErrDecryptionFailed && err != ErrKeysDropped {
			h.fail("C05|keyphase|fatal-error-for-droppable-packet|"+why, "%s: %v (the connection only drops packets on ErrDecryptionFailed / ErrKeysDropped)", y.name, err)
			h.fatal = true
		}
		return
	default:
		h.nEither++
		if !opened {
			if c05IsKUE(err) {
				h.fatal = true
			}
			return
		}
	}
	// ---- opened: advance the model
	switch {
	case g == c:
		if !y.rcvdCur {
			y.rcvdCur, y.minRcvdCur, y.maxRcvdCur = true, p.PN, p.PN
			if c > 0 { // first packet in a phase this endpoint initiated: the peer followed; old keys go after 3 PTO
				y.expirySet, y.expiry = true, t.Add(3*y.rtt.PTO(true))
			}
		}
	case g == c+1:
		y.gen++
		y.sentCur, y.ackedCur = false, false
		y.rcvdCur, y.minRcvdCur, y.maxRcvdCur = true, p.PN, p.PN
		y.prevAvail, y.expirySet, y.expiry = true, true, t.Add(3*y.rtt.PTO(true))
		h.nRemoteUpd++
		h.maxGen = max(h.maxGen, y.gen)
	case g == c-1:
		h.nPrevOpen++
	}
	if g == y.gen {
		y.minRcvdCur, y.maxRcvdCur = min(y.minRcvdCur, p.PN), max(y.maxRcvdCur, p.PN)
	}
	y.highestRcvd, y.everRcvd = max(y.highestRcvd, p.PN), true
	// ---- ACK carried by the packet (an ACK for a packet number that was never sent is refused by
	// the ACK handler before it gets here)
	if p.Ack >= 0 && p.Ack <= y.largestSent && (p.Ack > y.lastAck || h.rng.IntN(10) == 0) {
		acksCur := y.sentCur && p.Ack >= y.firstSentCur
		err := y.a.SetLargestAcked(protocol.PacketNumber(p.Ack))
		h.log("  %s: SetLargestAcked(%d) -> %v", y.name, p.Ack, err)
		if err != nil {
			// RFC 9001 6.2: MAY be treated as KEY_UPDATE_ERROR iff a packet of the current phase is
			// acknowledged in a packet protected with older keys
			if !(acksCur && g < y.gen) || !c05IsKUE(err) {
				h.fail("C05|keyphase|spurious-key-update-error|on-ack", "%s at generation %d: SetLargestAcked(%d) = %v; the ACK arrived in a packet of generation %d, first packet sent in the current phase: %v/%d", y.name, y.gen, p.Ack, err, g, y.sentCur, y.firstSentCur)
			}
			h.nKUE++
			h.fatal = true
			return
		}
		if acksCur {
			y.ackedCur = true
		}
		y.lastAck = max(y.lastAck, p.Ack)
	}
}

// forge builds a packet for y with the peer's keys of generation y.gen+delta.
func (h *c05Hist) forge(to int) *c05Pkt {
	y := h.side[to]
	delta := []int{-2, -1, -1, 0, 0, 1, 1, 1, 1, 2, 2, 3}[h.rng.IntN(12)]
	g := y.gen + delta
	if g < 0 {
		return nil
	}
	var pn int64
	switch r := h.rng.IntN(10); {
	case r < 6 || !y.rcvdCur:
		pn = max(y.highestRcvd, y.maxRcvdCur) + 1 + int64(h.rng.IntN(3))
	case r < 8:
		pn = y.minRcvdCur - 1 - int64(h.rng.IntN(3))
	default:
		pn = y.minRcvdCur + h.rng.Int64N(y.maxRcvdCur-y.minRcvdCur+1)
	}
	if pn < 0 {
		return nil
	}
	bit := g & 1
	if h.rng.IntN(10) == 0 {
		bit ^= 1
	}
	ack := int64(-1)
	if y.largestSent >= 0 && h.rng.IntN(4) == 0 {
		ack = y.largestSent - int64(h.rng.IntN(int(min(y.largestSent+1, 3))))
	}
	pnLen := 2 + h.rng.IntN(3)
	payload := c05Bytes(h.rng, 3+h.rng.IntN(40))
	hdr := c05ShortHeader(h.dcid, bit, pnLen, uint64(pn))
	return &c05Pkt{From: 1 - to, To: to, PN: pn, PNLen: pnLen, Gen: g, Bit: bit, Ack: ack, Forged: true, hdr: hdr, payload: payload,
		wire: y.recv.protect(g, hdr, pnLen, uint64(pn), payload)}
}

func (h *c05Hist) advance() {
	var d time.Duration
	pto := h.side[h.rng.IntN(2)].rtt.PTO(true)
	switch h.rng.IntN(8) {
	case 0, 1:
		d = time.Duration(h.rng.Int64N(int64(time.Millisecond)))
	case 2, 3:
		d = time.Duration(h.rng.Int64N(int64(pto)))
	case 4:
		d = 3*pto + time.Duration(h.rng.Int64N(2000)-1000)
	case 5:
		d = 10 * pto
	default:
		// land right before / after a scheduled key drop
		for _, s := range h.side {
			if s.expirySet && s.prevAvail && s.expiry.After(h.now) {
				d = s.expiry.Sub(h.now) + time.Duration(h.rng.Int64N(3)-1)
				break
			}
		}
	}
	if d < 0 {
		d = 0
	}
	h.now = h.now.Add(d)
	for _, s := range h.side {
		if s.expirySet && s.prevAvail && h.now.Equal(s.expiry) {
			h.now = h.now.Add(1) // the RFC does not say which way the instant itself goes
		}
	}
}

type c05Params struct {
	Version     string
	Suite       uint16
	Adversarial bool
	First       uint64
	Interval    uint64
	Ops         int
	ConfirmAt0  bool
}

func runC05History(rng *rand.Rand, p c05Params) *c05Hist {
	v := protocol.Version1
	if p.Version == "v2" {
		v = protocol.Version2
	}
	reset := SetKeyUpdateInterval(p.Interval)
	oldFirst := FirstKeyUpdateInterval
	FirstKeyUpdateInterval = p.First
	defer func() { reset(); FirstKeyUpdateInterval = oldFirst }()

	h := newC05Hist(rng, v, p.Suite)
	confirm := func(i int) {
		if !h.side[i].confirmed {
			h.side[i].a.SetHandshakeConfirmed()
			h.side[i].confirmed = true
			h.log("%s: handshake confirmed", h.side[i].name)
		}
	}
	if p.ConfirmAt0 {
		confirm(0)
		confirm(1)
	}
	for step := 0; step < p.Ops && !h.fatal; step++ {
		switch x := rng.IntN(100); {
		case x < 38:
			h.send(rng.IntN(2))
		case x < 74:
			y := h.side[rng.IntN(2)]
			if len(y.inflight) == 0 {
				continue
			}
			k := 0
			if rng.IntN(100) >= 65 {
				k = rng.IntN(len(y.inflight))
			}
			p := y.inflight[k]
			if rng.IntN(100) >= 8 { // otherwise: stays, will be delivered again (duplicate)
				y.inflight = append(y.inflight[:k], y.inflight[k+1:]...)
			}
			h.deliver(p)
		case x < 82:
			h.advance()
		case x < 85:
			confirm(rng.IntN(2))
		case x < 87:
			s := h.side[rng.IntN(2)]
			sample := time.Duration(1+rng.IntN(300)) * time.Millisecond
			s.rtt.UpdateRTT(sample, 0)
			h.log("%s: rtt sample %v -> PTO %v", s.name, sample, s.rtt.PTO(true))
		case x < 90:
			y := h.side[rng.IntN(2)]
			if len(y.inflight) > 0 {
				h.log("packet pn=%d to %s lost", y.inflight[0].PN, y.name)
				y.inflight = y.inflight[1:]
			}
		default:
			if !p.Adversarial {
				// burst: one side sends several packets in a row (drives the packet-count triggers)
				i := rng.IntN(2)
				for k := rng.IntN(6); k >= 0 && !h.fatal; k-- {
					h.send(i)
				}
				continue
			}
			if f := h.forge(rng.IntN(2)); f != nil {
				h.deliver(f)
			}
		}
	}
	return h
}

func (h *c05Hist) fingerprint(p c05Params) string {
	b := func(n, cap int) int { return min(n, cap) }
	return fmt.Sprintf("kp/%s/%#04x/adv%v/f%d/i%d/lu%d/ru%d/prev%d/drop%d/kue%d/forg%d/reord%d/pre%d/g%d", p.Version, p.Suite, p.Adversarial, p.First, p.Interval,
		b(h.nLocalUpd, 3), b(h.nRemoteUpd, 3), b(h.nPrevOpen, 2), b(h.nPrevDropped, 1), b(h.nKUE, 1), b(h.nForgedRejected, 2), b(h.nReordered, 2), b(h.nPreConfirmSends, 1), b(h.maxGen, 4))
}

func TestVerifC05KeyPhase(t *testing.T) {
	l := evlog.Open("C05")
	defer l.Close()
	nHist := l.Pick(10000, 500000)
	const batch = 100
	for bi := 0; bi*batch < nHist; bi++ {
		if !l.Mine(bi) {
			continue
		}
		id := fmt.Sprintf("C05/keyphase/%05d", bi)
		c := l.Begin(id, map[string]any{"batch": bi, "n": batch})
		if c == nil {
			continue
		}
		rng := l.Rand(id)
		reported := map[string]bool{} // one report per signature and case (every history's counters still count)
		for k := 0; k < batch; k++ {
			p := c05Params{
				Version:     []string{"v1", "v2"}[rng.IntN(2)],
				Suite:       c05SuiteIDs[rng.IntN(3)],
				Adversarial: rng.IntN(5) < 2,
				First:       []uint64{1, 2, 3, 5, 8, 1000}[rng.IntN(6)],
				Interval:    []uint64{1, 2, 3, 5, 10, 20, 100000}[rng.IntN(7)],
				Ops:         20 + rng.IntN(280),
				ConfirmAt0:  rng.IntN(2) == 0,
			}
			h := runC05History(rng, p)
			c.Eval(h.fingerprint(p))
			l.Count("kp_histories", 1)
			l.Count("kp_sends", int64(h.nSend))
			l.Count("kp_deliveries", int64(h.nDeliver))
			l.Count("kp_reordered_deliveries", int64(h.nReordered))
			l.Count("kp_local_updates", int64(h.nLocalUpd))
			l.Count("kp_remote_updates", int64(h.nRemoteUpd))
			l.Count("kp_opened_with_previous_keys", int64(h.nPrevOpen))
			l.Count("kp_rejected_previous_keys_discarded", int64(h.nPrevDropped))
			l.Count("kp_key_update_errors", int64(h.nKUE))
			l.Count("kp_forged_packets", int64(h.nForged))
			l.Count("kp_forged_rejected", int64(h.nForgedRejected))
			l.Count("kp_sends_before_confirmation", int64(h.nPreConfirmSends))
			l.Count("kp_verdict_either", int64(h.nEither))
			l.Count(fmt.Sprintf("kp_histories_reaching_generation_%d", min(h.maxGen, 5)), 1)
			for _, f := range h.fails {
				l.Count("kp_violating_histories", 1)
				if !reported[f[0]] {
					reported[f[0]] = true
					c.Violation(f[0], f[1], map[string]any{"params": p, "history_index": k, "history": h.trace})
				}
			}
			if h.maxGen >= 3 {
				c.Sample("keyphase-history", map[string]any{"params": p, "sends": h.nSend, "deliveries": h.nDeliver, "local_updates": h.nLocalUpd, "remote_updates": h.nRemoteUpd, "generations": h.maxGen})
			}
		}
		c.End()
	}
}
