package wire

// C08 part 3: long/short packet headers, Retry, Version Negotiation.

import (
	"bytes"
	"encoding/binary"
	"errors"
	"fmt"
	"io"
	"math/rand/v2"
	"testing"

	"github.com/refraction-networking/uquic/internal/protocol"
	"github.com/refraction-networking/uquic/internal/verif/evlog"
	"github.com/refraction-networking/uquic/quicvarint"
)

func c08PNValue(b []byte) protocol.PacketNumber {
	var v uint64
	for _, c := range b {
		v = v<<8 | uint64(c)
	}
	return protocol.PacketNumber(v)
}

func c08HdrEq(a, b *Header) string {
	switch {
	case a.Type != b.Type:
		return fmt.Sprintf("Type %v vs %v", a.Type, b.Type)
	case a.Version != b.Version:
		return fmt.Sprintf("Version %v vs %v", a.Version, b.Version)
	case a.DestConnectionID != b.DestConnectionID:
		return fmt.Sprintf("DestConnectionID %v vs %v", a.DestConnectionID, b.DestConnectionID)
	case a.SrcConnectionID != b.SrcConnectionID:
		return fmt.Sprintf("SrcConnectionID %v vs %v", a.SrcConnectionID, b.SrcConnectionID)
	case a.Length != b.Length:
		return fmt.Sprintf("Length %d vs %d", a.Length, b.Length)
	case !bytes.Equal(a.Token, b.Token):
		return fmt.Sprintf("Token %x vs %x", a.Token, b.Token)
	}
	return ""
}

func c08TypeName(h *Header) string {
	if h.Version == 0 {
		return "VN"
	}
	return h.Type.String()
}

// hdrTotal applies every header parsing entry point to one byte string and compares with
// independent predictions.  Returns the behaviour fingerprint.
func (x *c08X) hdrTotal(data []byte) string {
	trace := map[string]any{"hex": c08Hex(data)}
	fp := "hdr|"
	pv, st := c08Guard(func() {
		long := len(data) > 0 && data[0]&0x80 != 0
		// ParseConnectionID
		for _, n := range []int{0, 4, 8, 20} {
			cid, err := ParseConnectionID(data, n)
			var want []byte
			wantErr := ""
			switch {
			case len(data) == 0:
				wantErr = "eof"
			case !long:
				if len(data) < 1+n {
					wantErr = "eof"
				} else {
					want = data[1 : 1+n]
				}
			case len(data) < 6:
				wantErr = "eof"
			case data[5] > 20:
				wantErr = "len"
			case len(data) < 6+int(data[5]):
				wantErr = "eof"
			default:
				want = data[6 : 6+int(data[5])]
			}
			if wantErr == "len" && err == nil {
				x.viol("C08|header|out-of-range-accepted|connid-len-gt-20", fmt.Sprintf("ParseConnectionID accepted destination connection ID length %d", data[5]), trace)
			} else if (wantErr != "") != (err != nil) {
				x.viol("C08|header|ParseConnectionID-differs", fmt.Sprintf("shortHeaderConnIDLen=%d: err=%v, expected error class %q", n, err, wantErr), trace)
			} else if err == nil && !bytes.Equal(cid.Bytes(), want) {
				x.viol("C08|header|ParseConnectionID-differs", fmt.Sprintf("shortHeaderConnIDLen=%d: %x, expected %x", n, cid.Bytes(), want), trace)
			}
		}
		// ParseVersion / IsVersionNegotiationPacket / Is0RTTPacket
		ver, verr := ParseVersion(data)
		if (len(data) < 5) != (verr != nil) || (verr == nil && uint32(ver) != binary.BigEndian.Uint32(data[1:5])) {
			x.viol("C08|header|ParseVersion-differs", fmt.Sprintf("%v %v", ver, verr), trace)
		}
		isVN := IsVersionNegotiationPacket(data)
		if isVN != (len(data) >= 5 && long && binary.BigEndian.Uint32(data[1:5]) == 0) {
			x.viol("C08|header|IsVersionNegotiationPacket-differs", fmt.Sprint(isVN), trace)
		}
		is0 := Is0RTTPacket(data)
		want0 := false
		if len(data) >= 5 && long {
			switch binary.BigEndian.Uint32(data[1:5]) {
			case 1:
				want0 = data[0]>>4&3 == 1
			case 0x6b3343cf:
				want0 = data[0]>>4&3 == 2
			}
		}
		if is0 != want0 {
			x.viol("C08|header|Is0RTTPacket-differs", fmt.Sprintf("%v, expected %v", is0, want0), trace)
		}
		// ParseArbitraryLenConnectionIDs / ParseVersionNegotiationPacket
		n, dest, src, aerr := ParseArbitraryLenConnectionIDs(data)
		wantN := -1
		if len(data) >= 7 {
			d := int(data[5])
			if len(data) >= 7+d {
				s := int(data[6+d])
				if len(data) >= 7+d+s {
					wantN = 7 + d + s
				}
			}
		}
		if (wantN < 0) != (aerr != nil) {
			x.viol("C08|header|ParseArbitraryLenConnectionIDs-differs", fmt.Sprintf("err=%v, expected parsed length %d", aerr, wantN), trace)
		} else if aerr == nil {
			d := int(data[5])
			if n != wantN || !bytes.Equal(dest, data[6:6+d]) || !bytes.Equal(src, data[7+d:wantN]) {
				x.viol("C08|header|ParseArbitraryLenConnectionIDs-differs", fmt.Sprintf("n=%d dest=%x src=%x, expected n=%d", n, []byte(dest), []byte(src), wantN), trace)
			}
		} else if n != 0 {
			x.viol("C08|header|consumed-out-of-range|ParseArbitraryLenConnectionIDs", fmt.Sprintf("n=%d with error", n), trace)
		}
		vd, vs, vers, vnErr := ParseVersionNegotiationPacket(data)
		wantVN := wantN >= 0 && len(data) > wantN && (len(data)-wantN)%4 == 0
		if wantVN != (vnErr == nil) {
			x.viol("C08|header|ParseVersionNegotiationPacket-differs", fmt.Sprintf("err=%v, expected ok=%v", vnErr, wantVN), trace)
		} else if vnErr == nil {
			ok := bytes.Equal(vd, dest) && bytes.Equal(vs, src) && len(vers) == (len(data)-wantN)/4
			for i := 0; ok && i < len(vers); i++ {
				ok = uint32(vers[i]) == binary.BigEndian.Uint32(data[wantN+4*i:])
			}
			if !ok {
				x.viol("C08|header|ParseVersionNegotiationPacket-differs", fmt.Sprintf("dest=%x src=%x versions=%v", []byte(vd), []byte(vs), vers), trace)
			}
			if isVN {
				fp += "vn-ok|"
				x.l.Count("parsed_ok_hdr_VN", 1)
				// re-encode: Compose adds exactly one reserved (greased) version
				out := ComposeVersionNegotiation(vd, vs, vers)
				d2, s2, v2, err2 := ParseVersionNegotiationPacket(out)
				if err2 != nil || !bytes.Equal(d2, vd) || !bytes.Equal(s2, vs) || !c08VersionsPlusOne(vers, v2) || !IsVersionNegotiationPacket(out) {
					x.viol("C08|header|reparse-differs|VN", fmt.Sprintf("recomposed %x: %v", out, err2), trace)
				}
			}
		}
		if long {
			fp += x.hdrLong(data, trace)
		} else if len(data) > 0 {
			fp += x.hdrShort(data, trace)
		}
	})
	if pv != nil {
		x.viol("C08|header|panic|"+c08PanicClass(pv, st), fmt.Sprintf("panic: %v", pv), map[string]any{"hex": c08Hex(data), "stack": st})
		fp += "panic"
	}
	if h := C08FuzzHooks["header"]; h != nil {
		for _, pre := range []byte{0, 8, 20} {
			in := append([]byte{pre}, data...)
			if pv, st := c08Guard(func() { h(in) }); pv != nil {
				x.viol("C08|repofuzz-header|panic|"+c08FuzzClass(pv), fmt.Sprintf("fuzzing/header.Fuzz panicked: %v", pv), map[string]any{"fuzz_input_hex": c08Hex(in), "stack": st})
			}
			x.l.Count("repofuzz_header_calls", 1)
		}
	}
	return fp
}

func c08VersionsPlusOne(in, out []protocol.Version) bool {
	if len(out) != len(in)+1 {
		return false
	}
	for skip := range out {
		rest := append(append([]protocol.Version(nil), out[:skip]...), out[skip+1:]...)
		ok := true
		for i := range in {
			ok = ok && in[i] == rest[i]
		}
		if ok && uint32(out[skip])&0x0f0f0f0f == 0x0a0a0a0a {
			return true
		}
	}
	return false
}

func (x *c08X) hdrLong(data []byte, trace map[string]any) string {
	hdr, pkt, rest, err := ParsePacket(data)
	supported := len(data) >= 5 && (binary.BigEndian.Uint32(data[1:5]) == 1 || binary.BigEndian.Uint32(data[1:5]) == 0x6b3343cf)
	if err == nil && len(data) >= 7 && supported {
		d := int(data[5])
		if d > 20 || (len(data) > 6+d && data[6+d] > 20) {
			x.viol("C08|header|out-of-range-accepted|connid-len-gt-20", "ParsePacket accepted a connection ID longer than 20 bytes in a v1/v2 packet", trace)
		}
	}
	if err != nil {
		if errors.Is(err, ErrUnsupportedVersion) {
			if hdr == nil || uint32(hdr.Version) != binary.BigEndian.Uint32(data[1:5]) || pkt != nil || rest != nil {
				x.viol("C08|header|unsupported-version-result", fmt.Sprintf("hdr=%v", hdr), trace)
			} else if cid, e := ParseConnectionID(data, 0); e != nil || cid != hdr.DestConnectionID {
				x.viol("C08|header|connid-inconsistent", "ParsePacket(unsupported version) vs ParseConnectionID", trace)
			}
			return "long-unsupported"
		}
		if hdr != nil || pkt != nil || rest != nil {
			x.viol("C08|header|result-with-error", fmt.Sprintf("err=%v but hdr=%v", err, hdr), trace)
		}
		return "long-err"
	}
	if hdr == nil {
		x.viol("C08|header|nil-header-without-error", "", trace)
		return "bad"
	}
	tn := c08TypeName(hdr)
	x.l.Count("parsed_ok_hdr_"+tn+"_"+hdr.Version.String(), 1)
	pl := int(hdr.ParsedLen())
	if len(pkt)+len(rest) != len(data) || !bytes.Equal(pkt, data[:len(pkt)]) || !bytes.Equal(rest, data[len(pkt):]) {
		x.viol("C08|header|consumed-inexact|ParsePacket", fmt.Sprintf("packet %d + rest %d bytes of %d", len(pkt), len(rest), len(data)), trace)
		return "bad"
	}
	if pl < 7 || pl > len(pkt) || (hdr.Version != 0 && hdr.Type != protocol.PacketTypeRetry && int64(pl)+int64(hdr.Length) != int64(len(pkt))) {
		x.viol("C08|header|consumed-inexact|ParsePacket", fmt.Sprintf("ParsedLen %d, Length %d, packet %d bytes", pl, hdr.Length, len(pkt)), trace)
		return "bad"
	}
	if cid, e := ParseConnectionID(data, 0); e != nil || cid != hdr.DestConnectionID {
		x.viol("C08|header|connid-inconsistent", fmt.Sprintf("ParsePacket %v vs ParseConnectionID %v (%v)", hdr.DestConnectionID, cid, e), trace)
	}
	if hdr.Version != 0 && (hdr.Type == protocol.PacketType0RTT) != Is0RTTPacket(data) {
		x.viol("C08|header|0rtt-inconsistent", fmt.Sprintf("type %v", hdr.Type), trace)
	}
	// exactness: the packet alone gives the same header
	h2, pkt2, rest2, err2 := ParsePacket(pkt)
	if err2 != nil || h2 == nil || len(rest2) != 0 || len(pkt2) != len(pkt) || c08HdrEq(hdr, h2) != "" || h2.ParsedLen() != hdr.ParsedLen() {
		x.viol("C08|header|consumed-inexact|ParsePacket", fmt.Sprintf("re-parsing exactly the reported packet: err=%v", err2), trace)
	}
	if hdr.Version == 0 {
		return "long-vn"
	}
	if hdr.Type == protocol.PacketTypeRetry {
		if len(hdr.Token) == 0 || pl != len(data) {
			x.viol("C08|header|retry-result", fmt.Sprintf("token %d bytes, parsed %d of %d", len(hdr.Token), pl, len(data)), trace)
		}
		ext := &ExtendedHeader{Header: *hdr}
		b2, aerr := ext.Append(nil, hdr.Version)
		if aerr != nil {
			x.viol("C08|header|append-error-after-parse|Retry", aerr.Error(), trace)
			return "bad"
		}
		b2 = append(b2, data[len(data)-16:]...)
		h3, _, _, err3 := ParsePacket(b2)
		if err3 != nil || c08HdrEq(hdr, h3) != "" {
			x.viol("C08|header|reparse-differs|Retry", fmt.Sprintf("%x: %v", b2, err3), trace)
		}
		return "long-retry"
	}
	// extended header (after header protection removal the caller passes the same packet)
	pnLen := int(data[0]&3) + 1
	ext, eerr := hdr.ParseExtended(data)
	if len(data) < pl+pnLen {
		if eerr != io.EOF || ext != nil {
			x.viol("C08|header|ParseExtended-differs", fmt.Sprintf("short packet: err=%v", eerr), trace)
		}
		return "long-" + tn + "-ext-eof"
	}
	if (eerr != nil && eerr != ErrInvalidReservedBits) || ext == nil {
		x.viol("C08|header|ParseExtended-differs", fmt.Sprintf("err=%v", eerr), trace)
		return "bad"
	}
	if (eerr == ErrInvalidReservedBits) != (data[0]&0x0c != 0) {
		x.viol("C08|header|reserved-bits", fmt.Sprintf("first byte %#x, err %v", data[0], eerr), trace)
	}
	if int(ext.PacketNumberLen) != pnLen || ext.PacketNumber != c08PNValue(data[pl:pl+pnLen]) || int(ext.ParsedLen()) != pl+pnLen {
		x.viol("C08|header|ParseExtended-differs", fmt.Sprintf("pn %d len %d parsedLen %d; expected pn %d len %d parsedLen %d", ext.PacketNumber, ext.PacketNumberLen, ext.ParsedLen(), c08PNValue(data[pl:pl+pnLen]), pnLen, pl+pnLen), trace)
	}
	if hdr.Length > 16383 {
		return "long-" + tn + "-biglen" // the encoder always writes a 2-byte Length (documented)
	}
	b2, aerr := ext.Append(nil, hdr.Version)
	if aerr != nil {
		x.viol("C08|header|append-error-after-parse|"+tn, aerr.Error(), trace)
		return "bad"
	}
	if int(ext.GetLength(hdr.Version)) != len(b2) {
		x.viol("C08|header|length-mismatch|"+tn, fmt.Sprintf("GetLength()=%d, Append wrote %d", ext.GetLength(hdr.Version), len(b2)), trace)
	}
	full := append(append([]byte(nil), b2...), make([]byte, max(0, int(hdr.Length)-pnLen))...)
	h3, _, _, err3 := ParsePacket(full)
	if err3 != nil || c08HdrEq(hdr, h3) != "" {
		why := ""
		if h3 != nil {
			why = c08HdrEq(hdr, h3)
		}
		x.viol("C08|header|reparse-differs|"+tn, fmt.Sprintf("%x: %v %s", b2, err3, why), trace)
		return "bad"
	}
	e3, err4 := h3.ParseExtended(full)
	if err4 != nil || e3.PacketNumber != ext.PacketNumber || e3.PacketNumberLen != ext.PacketNumberLen {
		x.viol("C08|header|reparse-differs|"+tn, fmt.Sprintf("extended: %v", err4), trace)
	}
	return fmt.Sprintf("long-%s-%s-ok-pn%d-tok%d", tn, hdr.Version, pnLen, c08W(uint64(len(hdr.Token))))
}

func (x *c08X) hdrShort(data []byte, trace map[string]any) string {
	fp := "short"
	for _, n := range []int{0, 4, 8, 20} {
		l, pn, pnLen, kp, err := ParseShortHeader(data, n)
		wantPNLen := int(data[0]&3) + 1
		switch {
		case data[0]&0x40 == 0:
			if err == nil || err == ErrInvalidReservedBits {
				x.viol("C08|header|ParseShortHeader-differs", "fixed bit 0 accepted", trace)
			}
			fp += "-nofixed"
		case len(data) < 1+wantPNLen+n:
			if err != io.EOF {
				x.viol("C08|header|ParseShortHeader-differs", fmt.Sprintf("connIDLen=%d on %d bytes: err=%v, expected io.EOF", n, len(data), err), trace)
			}
			fp += "-eof"
		default:
			if err != nil && err != ErrInvalidReservedBits {
				x.viol("C08|header|ParseShortHeader-differs", fmt.Sprintf("connIDLen=%d: err=%v", n, err), trace)
				continue
			}
			wantKP := protocol.KeyPhaseZero
			if data[0]&4 != 0 {
				wantKP = protocol.KeyPhaseOne
			}
			if l != 1+n+wantPNLen || int(pnLen) != wantPNLen || pn != c08PNValue(data[1+n:1+n+wantPNLen]) || kp != wantKP || (err != nil) != (data[0]&0x18 != 0) {
				x.viol("C08|header|ParseShortHeader-differs", fmt.Sprintf("connIDLen=%d: len %d pn %d pnLen %d kp %v err %v", n, l, pn, pnLen, kp, err), trace)
				continue
			}
			x.l.Count("parsed_ok_hdr_short", 1)
			cid, cerr := ParseConnectionID(data, n)
			if cerr != nil {
				x.viol("C08|header|connid-inconsistent", "ParseConnectionID failed where ParseShortHeader succeeded", trace)
				continue
			}
			b2, aerr := AppendShortHeader(nil, cid, pn, pnLen, kp)
			if aerr != nil || len(b2) != l || int(ShortHeaderLen(cid, pnLen)) != l {
				x.viol("C08|header|length-mismatch|short", fmt.Sprintf("Append wrote %d (%v), ShortHeaderLen %d, parsed %d", len(b2), aerr, ShortHeaderLen(cid, pnLen), l), trace)
				continue
			}
			if b2[0] != data[0]&^0x38 || !bytes.Equal(b2[1:], data[1:l]) {
				x.viol("C08|header|reparse-differs|short", fmt.Sprintf("%x vs %x", b2, data[:l]), trace)
			}
			fp += fmt.Sprintf("-ok%d", wantPNLen)
		}
	}
	return fp
}

// ---------------------------------------------------------------------------------------
// generators

type c08GenHdr struct {
	ext     *ExtendedHeader
	payload int // bytes after the packet number that belong to the packet
}

func c08CID(r *rand.Rand, n int) protocol.ConnectionID {
	return protocol.ParseConnectionID(c08Bytes(r, n))
}

func c08GenLongHeaders(r *rand.Rand, nRandom int) []*ExtendedHeader {
	var out []*ExtendedHeader
	types := []protocol.PacketType{protocol.PacketTypeInitial, protocol.PacketType0RTT, protocol.PacketTypeHandshake, protocol.PacketTypeRetry}
	cidLens := []int{0, 1, 4, 8, 19, 20}
	tokLens := []int{0, 1, 62, 63, 64, 65, 200, 1200, 16383, 16384}
	lengths := []protocol.ByteCount{4, 5, 62, 63, 64, 65, 1200, 1452, 16382, 16383}
	mk := func(typ protocol.PacketType, v protocol.Version, dl, sl, tl int, length protocol.ByteCount, pnLen int) *ExtendedHeader {
		h := &ExtendedHeader{}
		h.Type, h.Version = typ, v
		h.DestConnectionID, h.SrcConnectionID = c08CID(r, dl), c08CID(r, sl)
		if typ == protocol.PacketTypeInitial && tl > 0 {
			h.Token = c08Bytes(r, tl)
		}
		if typ == protocol.PacketTypeRetry {
			h.Token = c08Bytes(r, max(1, tl))
			return h
		}
		h.Length = length
		h.PacketNumberLen = protocol.PacketNumberLen(pnLen)
		mx := uint64(1)<<(8*pnLen) - 1
		switch r.IntN(4) {
		case 0:
			h.PacketNumber = protocol.PacketNumber(mx)
		case 1:
			h.PacketNumber = protocol.PacketNumber(r.Uint64N(2))
		default:
			h.PacketNumber = protocol.PacketNumber(r.Uint64N(mx + 1))
		}
		return h
	}
	for _, typ := range types {
		for _, v := range c08Versions {
			for _, dl := range cidLens {
				out = append(out, mk(typ, v, dl, cidLens[r.IntN(len(cidLens))], tokLens[r.IntN(6)], lengths[r.IntN(len(lengths))], 1+r.IntN(4)))
				out = append(out, mk(typ, v, cidLens[r.IntN(len(cidLens))], dl, tokLens[r.IntN(6)], lengths[r.IntN(len(lengths))], 1+r.IntN(4)))
			}
			for _, tl := range tokLens {
				out = append(out, mk(typ, v, 8, 8, tl, lengths[r.IntN(len(lengths))], 1+r.IntN(4)))
			}
			for _, ln := range lengths {
				for pnLen := 1; pnLen <= 4; pnLen++ {
					out = append(out, mk(typ, v, r.IntN(21), r.IntN(21), tokLens[r.IntN(5)], ln, pnLen))
				}
			}
		}
	}
	for range nRandom {
		tl := r.IntN(80)
		if r.IntN(10) == 0 {
			tl = r.IntN(1300)
		}
		out = append(out, mk(types[r.IntN(4)], c08Versions[r.IntN(2)], r.IntN(21), r.IntN(21), tl, protocol.ByteCount(4+r.IntN(16380)), 1+r.IntN(4)))
	}
	return out
}

// longRoundTrip is oracle (1) for a generated long header; returns a full packet.
func (x *c08X) longRoundTrip(h *ExtendedHeader, r *rand.Rand) []byte {
	v := h.Version
	tn := h.Type.String()
	trace := map[string]any{"header": fmt.Sprintf("%+v", *h)}
	var b []byte
	var err error
	if pv, st := c08Guard(func() { b, err = h.Append(nil, v) }); pv != nil {
		x.viol("C08|header|panic-in-encoder|"+c08PanicClass(pv, st), fmt.Sprint(pv), trace)
		return nil
	}
	if err != nil {
		x.viol("C08|header|append-error|"+tn, err.Error(), trace)
		return nil
	}
	x.l.Count("gen_hdr_"+tn+"_"+v.String(), 1)
	retry := h.Type == protocol.PacketTypeRetry
	if !retry && int(h.GetLength(v)) != len(b) {
		x.viol("C08|header|length-mismatch|"+tn, fmt.Sprintf("GetLength()=%d, Append wrote %d", h.GetLength(v), len(b)), trace)
	}
	pkt := append([]byte(nil), b...)
	var next []byte
	if retry {
		pkt = append(pkt, c08Bytes(r, 16)...)
	} else {
		pkt = append(pkt, c08Bytes(r, int(h.Length)-int(h.PacketNumberLen))...)
		next = c08Bytes(r, r.IntN(40)) // a coalesced packet
	}
	data := append(append([]byte(nil), pkt...), next...)
	trace["hex"] = c08Hex(data)
	pv, st := c08Guard(func() {
		hdr, p, rest, perr := ParsePacket(data)
		if perr != nil {
			x.viol("C08|header|valid-rejected|"+tn, perr.Error(), trace)
			return
		}
		if why := c08HdrEq(&h.Header, hdr); why != "" {
			x.viol("C08|header|roundtrip-differs|"+tn, why, trace)
			return
		}
		if !bytes.Equal(p, pkt) || !bytes.Equal(rest, next) {
			x.viol("C08|header|consumed-mismatch|"+tn, fmt.Sprintf("packet %d bytes (expected %d), rest %d (expected %d)", len(p), len(pkt), len(rest), len(next)), trace)
		}
		wantPL := len(b) - int(h.PacketNumberLen)
		if retry {
			wantPL = len(pkt)
		}
		if int(hdr.ParsedLen()) != wantPL {
			x.viol("C08|header|consumed-mismatch|"+tn, fmt.Sprintf("ParsedLen %d, expected %d", hdr.ParsedLen(), wantPL), trace)
		}
		if retry {
			return
		}
		ext, eerr := hdr.ParseExtended(data)
		if eerr != nil {
			x.viol("C08|header|valid-rejected|"+tn, "ParseExtended: "+eerr.Error(), trace)
			return
		}
		if ext.PacketNumber != h.PacketNumber || ext.PacketNumberLen != h.PacketNumberLen || int(ext.ParsedLen()) != len(b) {
			x.viol("C08|header|roundtrip-differs|"+tn, fmt.Sprintf("pn %d/%d len %d/%d parsedLen %d/%d", ext.PacketNumber, h.PacketNumber, ext.PacketNumberLen, h.PacketNumberLen, ext.ParsedLen(), len(b)), trace)
		}
		b2, _ := ext.Append(nil, v)
		if !bytes.Equal(b, b2) {
			x.viol("C08|header|reencode-not-stable|"+tn, fmt.Sprintf("%x vs %x", b, b2), trace)
		}
	})
	if pv != nil {
		x.viol("C08|header|panic|"+c08PanicClass(pv, st), fmt.Sprintf("panic on a valid %s header: %v", tn, pv), trace)
	}
	return data
}

func (x *c08X) shortRoundTrip(r *rand.Rand, cidLen, pnLen int) []byte {
	cid := c08CID(r, cidLen)
	mx := uint64(1)<<(8*pnLen) - 1
	pn := protocol.PacketNumber([]uint64{0, 1, mx, mx - 1, r.Uint64N(mx + 1)}[r.IntN(5)])
	kp := []protocol.KeyPhaseBit{protocol.KeyPhaseZero, protocol.KeyPhaseOne}[r.IntN(2)]
	b, err := AppendShortHeader(nil, cid, pn, protocol.PacketNumberLen(pnLen), kp)
	trace := map[string]any{"hex": c08Hex(b), "cid": cid.String(), "pn": pn, "pnLen": pnLen, "kp": kp.String()}
	if err != nil {
		x.viol("C08|header|append-error|short", err.Error(), trace)
		return nil
	}
	x.l.Count("gen_hdr_short", 1)
	if int(ShortHeaderLen(cid, protocol.PacketNumberLen(pnLen))) != len(b) {
		x.viol("C08|header|length-mismatch|short", fmt.Sprintf("ShortHeaderLen()=%d, Append wrote %d", ShortHeaderLen(cid, protocol.PacketNumberLen(pnLen)), len(b)), trace)
	}
	data := append(append([]byte(nil), b...), c08Bytes(r, r.IntN(30))...)
	l, pn2, pnLen2, kp2, perr := ParseShortHeader(data, cidLen)
	if perr != nil || l != len(b) || pn2 != pn || int(pnLen2) != pnLen || kp2 != kp {
		x.viol("C08|header|roundtrip-differs|short", fmt.Sprintf("len %d pn %d pnLen %d kp %v err %v", l, pn2, pnLen2, kp2, perr), trace)
	}
	if c2, e := ParseConnectionID(data, cidLen); e != nil || c2 != cid {
		x.viol("C08|header|roundtrip-differs|short", fmt.Sprintf("connection ID %v (%v)", c2, e), trace)
	}
	return data
}

func (x *c08X) vnRoundTrip(r *rand.Rand, dl, sl, nv int) []byte {
	dest := protocol.ArbitraryLenConnectionID(c08Bytes(r, dl))
	src := protocol.ArbitraryLenConnectionID(c08Bytes(r, sl))
	vers := make([]protocol.Version, nv)
	for i := range vers {
		vers[i] = protocol.Version(r.Uint32())
		if r.IntN(3) == 0 {
			vers[i] = c08Versions[r.IntN(2)]
		}
	}
	var b []byte
	trace := map[string]any{"dest": fmt.Sprintf("%x", []byte(dest)), "src": fmt.Sprintf("%x", []byte(src)), "versions": fmt.Sprint(vers)}
	if pv, st := c08Guard(func() { b = ComposeVersionNegotiation(dest, src, vers) }); pv != nil {
		x.viol("C08|header|panic-in-encoder|"+c08PanicClass(pv, st), fmt.Sprint(pv), trace)
		return nil
	}
	trace["hex"] = c08Hex(b)
	x.l.Count("gen_hdr_VN", 1)
	if want := 7 + dl + sl + 4*(nv+1); len(b) != want {
		x.viol("C08|header|length-mismatch|VN", fmt.Sprintf("%d bytes, expected %d", len(b), want), trace)
	}
	d2, s2, v2, err := ParseVersionNegotiationPacket(b)
	if err != nil || !bytes.Equal(d2, dest) || !bytes.Equal(s2, src) || !c08VersionsPlusOne(vers, v2) || !IsVersionNegotiationPacket(b) {
		x.viol("C08|header|roundtrip-differs|VN", fmt.Sprintf("dest %x src %x versions %v err %v", []byte(d2), []byte(s2), v2, err), trace)
	}
	return b
}

func TestVerifC08Headers(t *testing.T) {
	l := evlog.Open("C08")
	defer l.Close()
	x := &c08X{l: l, seen: map[string]int{}}
	idx := 0
	next := func(id string, in map[string]any) bool {
		mine := l.Mine(idx)
		idx++
		if !mine {
			return false
		}
		x.c = l.Begin(id, in)
		return x.c != nil
	}
	nMut := l.Pick(24, 128)

	// (1) + (2) long headers
	nSets := l.Pick(4, 24)
	for si := range nSets {
		id := fmt.Sprintf("headers/long/%d", si)
		if !next(id, nil) {
			continue
		}
		r := l.Rand(id)
		hs := c08GenLongHeaders(r, l.Pick(100, 600))
		for hi, h := range hs {
			if hi%nSets != si && hi >= 0 && si > 0 && hi < len(hs)-l.Pick(100, 600) {
				// the systematic part is the same in every set up to the random choices; keep 1/nSets of it
				continue
			}
			data := x.longRoundTrip(h, r)
			x.c.Eval(fmt.Sprintf("rt|%s|%s|d%d|s%d|t%d|l%d|p%d", h.Type, h.Version, h.DestConnectionID.Len(), h.SrcConnectionID.Len(), c08W(uint64(len(h.Token))), c08W(uint64(h.Length)), h.PacketNumberLen))
			if data == nil || len(data) > 400 && r.IntN(8) > 0 {
				continue
			}
			hl := len(data)
			if h.Type != protocol.PacketTypeRetry {
				hl = int(h.GetLength(h.Version)) + 2
			}
			for _, cut := range c08Truncations(r, min(hl, len(data))) {
				x.c.Eval(x.hdrTotal(data[:cut]))
				l.Count("truncations_headers", 1)
			}
			for range nMut {
				m := append([]byte(nil), data...)
				head := c08Mutate(r, m[:min(hl, len(m))])
				m = append(head, m[min(hl, len(m)):]...)
				x.c.Eval(x.hdrTotal(m))
				l.Count("mutations_headers", 1)
			}
		}
		x.c.End()
	}
	// short headers
	if next("headers/short", nil) {
		r := l.Rand("headers/short")
		for _, cidLen := range []int{0, 4, 8, 20} {
			for pnLen := 1; pnLen <= 4; pnLen++ {
				for range l.Pick(6, 40) {
					data := x.shortRoundTrip(r, cidLen, pnLen)
					x.c.Eval(fmt.Sprintf("rt|short|c%d|p%d", cidLen, pnLen))
					for cut := range len(data) {
						x.c.Eval(x.hdrTotal(data[:cut]))
						l.Count("truncations_headers", 1)
					}
					for range nMut {
						x.c.Eval(x.hdrTotal(c08Mutate(r, data)))
						l.Count("mutations_headers", 1)
					}
				}
			}
		}
		x.c.End()
	}
	// version negotiation
	if next("headers/vn", nil) {
		r := l.Rand("headers/vn")
		for _, dl := range []int{0, 1, 8, 20, 21, 64, 255} {
			for _, sl := range []int{0, 1, 8, 20, 21, 255} {
				for _, nv := range []int{0, 1, 2, 7} {
					data := x.vnRoundTrip(r, dl, sl, nv)
					x.c.Eval(fmt.Sprintf("rt|vn|d%d|s%d|n%d", dl, sl, nv))
					if data == nil {
						continue
					}
					for _, cut := range c08Truncations(r, len(data)) {
						x.c.Eval(x.hdrTotal(data[:cut]))
						l.Count("truncations_headers", 1)
					}
					for range nMut / 2 {
						x.c.Eval(x.hdrTotal(c08Mutate(r, data)))
						l.Count("mutations_headers", 1)
					}
				}
			}
		}
		x.c.End()
	}
	// RFC-range negatives: connection IDs longer than 20 bytes in v1/v2 long headers
	if next("headers/negative", nil) {
		r := l.Rand("headers/negative")
		for _, v := range c08Versions {
			for typ := 0; typ < 4; typ++ {
				for _, bad := range []int{21, 22, 64, 255} {
					for which := 0; which < 2; which++ {
						b := []byte{0xc0 | byte(typ)<<4}
						b = binary.BigEndian.AppendUint32(b, uint32(v))
						dl, sl := 8, 8
						if which == 0 {
							dl = bad
						} else {
							sl = bad
						}
						b = append(append(b, byte(dl)), c08Bytes(r, dl)...)
						b = append(append(b, byte(sl)), c08Bytes(r, sl)...)
						b = append(b, 0)    // token length (Initial) / start of something else
						b = append(b, 0x10) // length
						b = append(b, c08Bytes(r, 40)...)
						if pv, st := c08Guard(func() {
							hdr, _, _, err := ParsePacket(b)
							if err == nil {
								x.viol("C08|header|out-of-range-accepted|connid-len-gt-20", fmt.Sprintf("ParsePacket accepted dcid len %d scid len %d: %+v", dl, sl, hdr), map[string]any{"hex": c08Hex(b)})
							}
							if which == 0 {
								if _, err := ParseConnectionID(b, 8); err == nil {
									x.viol("C08|header|out-of-range-accepted|connid-len-gt-20", fmt.Sprintf("ParseConnectionID accepted dcid len %d", dl), map[string]any{"hex": c08Hex(b)})
								}
							}
						}); pv != nil {
							x.viol("C08|header|panic|"+c08PanicClass(pv, st), fmt.Sprintf("panic: %v", pv), map[string]any{"hex": c08Hex(b), "stack": st})
						}
						l.Count("negative_tests_headers", 1)
						x.c.Eval(fmt.Sprintf("neg|%s|t%d|w%d|%d", v, typ, which, bad))
						x.c.Eval(x.hdrTotal(b))
					}
				}
			}
		}
		x.c.End()
	}
	// all 256 first bytes x version fields, random tails
	versions := []uint32{1, 0x6b3343cf, 0, 0xff00001d, 0x0a0a0a0a, 2}
	for vi, ver := range versions {
		id := fmt.Sprintf("headers/firstbyte/%#x", ver)
		if !next(id, nil) {
			continue
		}
		r := l.Rand(id)
		for fb := 0; fb < 256; fb++ {
			for ti := range l.Pick(10, 120) {
				b := []byte{byte(fb)}
				b = binary.BigEndian.AppendUint32(b, ver)
				switch ti % 3 {
				case 0:
					b = append(b, c08Bytes(r, r.IntN(60))...)
				default: // plausible connection ID lengths, token length, length
					dl, sl := r.IntN(23), r.IntN(23)
					b = append(append(b, byte(dl)), c08Bytes(r, dl)...)
					b = append(append(b, byte(sl)), c08Bytes(r, sl)...)
					tl := r.IntN(6)
					b = quicvarint.Append(b, uint64(tl))
					b = append(b, c08Bytes(r, tl)...)
					b = quicvarint.Append(b, uint64(r.IntN(50)))
					b = append(b, c08Bytes(r, r.IntN(60))...)
				}
				x.c.Eval(x.hdrTotal(b))
				l.Count("firstbyte_headers", 1)
			}
		}
		_ = vi
		x.c.End()
	}
	// random strings
	for bi := range l.Pick(8, 200) {
		id := fmt.Sprintf("headers/random/%d", bi)
		if !next(id, nil) {
			continue
		}
		r := l.Rand(id)
		for range 2000 {
			x.c.Eval(x.hdrTotal(c08Bytes(r, r.IntN(80))))
			l.Count("random_headers", 1)
		}
		x.c.End()
	}
}
