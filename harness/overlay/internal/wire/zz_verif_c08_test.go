package wire

// C08 — wire codecs are total, consistent with their length predictions, and round-trip.
//
// Runtime monitor (part 1: shared helpers and the frame codec).  The real FrameParser and the
// real Append/Length pairs are run on generated values (every frame type, every varint field at
// every width boundary), on every truncation and on seeded mutations of the valid encodings, on
// all frame-type bytes x encryption levels and on random strings.  Oracles: Append/Length
// agreement, parse(Append(x)) == x, reported consumption == bytes needed (prefix independence),
// re-encode-of-parsed fixpoint, RFC 9000 range rejections, no panic.  Built with -race (checkptr).

import (
	"bytes"
	"encoding/hex"
	"fmt"
	"io"
	"math"
	"math/rand/v2"
	"reflect"
	"regexp"
	"runtime/debug"
	"strings"
	"time"

	"github.com/refraction-networking/uquic/internal/protocol"
	"github.com/refraction-networking/uquic/internal/qerr"
	"github.com/refraction-networking/uquic/internal/verif/evlog"
	"github.com/refraction-networking/uquic/quicvarint"
)

// C08FuzzHooks is filled by the external test package (zz_verif_c08_hooks_test.go) with the
// repository's own fuzz entry points (fuzzing/*/Fuzz), which cannot be imported from an
// in-package test (import cycle).
var C08FuzzHooks = map[string]func([]byte) int{}

// ---------------------------------------------------------------------------------------
// shared helpers

type c08X struct {
	l    *evlog.Log
	c    *evlog.Case
	seen map[string]int
}

func (x *c08X) viol(sig, detail string, trace map[string]any) {
	x.seen[sig]++
	if x.seen[sig] > 3 {
		x.l.Count("viol_duplicates_suppressed", 1)
		return
	}
	x.c.Violation(sig, detail, trace)
}

var c08NumRe = regexp.MustCompile(`0x[0-9a-fA-F]+|\d+`)

// c08PanicClass turns a recovered value and its stack into a signature component without
// per-run randomness: the message with numbers removed.
func c08PanicClass(pv any, stack string) string {
	msg := fmt.Sprint(pv)
	if e, ok := pv.(error); ok {
		msg = e.Error()
	}
	msg = c08NumRe.ReplaceAllString(msg, "N")
	if len(msg) > 80 {
		msg = msg[:80]
	}
	_ = stack // the innermost repository function is in the trace; it is kept out of the signature (inlining changes it)
	return msg
}

// c08FuzzClass is the signature component for a panic raised by one of the repository's fuzz
// functions: the message up to the first value dump, numbers removed.
func c08FuzzClass(pv any) string {
	msg := fmt.Sprint(pv)
	if e, ok := pv.(error); ok {
		msg = e.Error()
	}
	for _, cut := range []string{"&", "{", ": "} {
		if i := strings.Index(msg, cut); i > 8 {
			msg = msg[:i]
		}
	}
	msg = strings.TrimSpace(c08NumRe.ReplaceAllString(msg, "N"))
	if len(msg) > 80 {
		msg = msg[:80]
	}
	return msg
}

// c08Guard runs fn and reports a panic, if any.
func c08Guard(fn func()) (pv any, stack string) {
	defer func() {
		if r := recover(); r != nil {
			pv = r
			stack = string(debug.Stack())
		}
	}()
	fn()
	return nil, ""
}

func c08Hex(b []byte) string {
	if len(b) > 4096 {
		return hex.EncodeToString(b[:4096]) + fmt.Sprintf("...(+%d bytes)", len(b)-4096)
	}
	return hex.EncodeToString(b)
}

const c08MaxVarint = uint64(1<<62 - 1)

var c08Bnd = []uint64{0, 1, 62, 63, 64, 65, 16382, 16383, 16384, 16385, 1<<30 - 2, 1<<30 - 1, 1 << 30, 1<<30 + 1, 1<<62 - 2, 1<<62 - 1}

// c08V draws a value <= max: mostly a varint-width boundary (+-1), otherwise uniform in a width class.
func c08V(r *rand.Rand, max uint64) uint64 {
	var v uint64
	switch r.IntN(10) {
	case 0, 1, 2, 3, 4, 5:
		v = c08Bnd[r.IntN(len(c08Bnd))]
	case 6:
		v = r.Uint64N(64)
	case 7:
		v = 64 + r.Uint64N(16384-64)
	case 8:
		v = 16384 + r.Uint64N(1<<30-16384)
	default:
		v = 1<<30 + r.Uint64N(1<<62-1<<30)
	}
	if v > max {
		v = max - r.Uint64N(min(max, 2)+1)
	}
	return v
}

func c08Bytes(r *rand.Rand, n int) []byte {
	b := make([]byte, n)
	for i := range b {
		b[i] = byte(r.Uint32())
	}
	return b
}

func c08W(v uint64) int { return quicvarint.Len(v & c08MaxVarint) }

// c08Mutate returns a seeded mutation of b.
func c08Mutate(r *rand.Rand, b []byte) []byte {
	o := append([]byte(nil), b...)
	interesting := []byte{0, 1, 0x3f, 0x40, 0x7f, 0x80, 0xbf, 0xc0, 0xff, 20, 21, 0x14, 0x15}
	n := 1 + r.IntN(3)
	for range n {
		if len(o) == 0 {
			o = append(o, byte(r.Uint32()))
			continue
		}
		i := r.IntN(len(o))
		switch r.IntN(8) {
		case 0:
			o[i] ^= 1 << r.IntN(8)
		case 1:
			o[i] = interesting[r.IntN(len(interesting))]
		case 2:
			o[i] = byte(r.Uint32())
		case 3: // delete
			o = append(o[:i], o[i+1:]...)
		case 4: // insert
			o = append(o[:i], append([]byte{interesting[r.IntN(len(interesting))]}, o[i:]...)...)
		case 5: // widen: turn the byte at i, read as a 1-byte varint, into a non-minimal wider one
			if o[i] < 0x40 {
				w := []int{2, 4, 8}[r.IntN(3)]
				enc := quicvarint.AppendWithLen(nil, uint64(o[i]), w)
				o = append(o[:i], append(enc, o[i+1:]...)...)
			} else {
				o[i] |= 0xc0
			}
		case 6: // set a maximal 8-byte varint
			enc := quicvarint.Append(nil, c08MaxVarint-r.Uint64N(2))
			o = append(o[:i], append(enc, o[i:]...)...)
		default: // duplicate a chunk
			j := i + r.IntN(min(len(o)-i, 24)+1)
			o = append(o[:j], append(append([]byte(nil), o[i:j]...), o[j:]...)...)
		}
	}
	return o
}

// c08Truncations returns the cut points to try for an encoding of length n (all of them when
// short; the head, the tail and a sample otherwise).
func c08Truncations(r *rand.Rand, n int) []int {
	var cuts []int
	if n <= 96 {
		for i := 0; i < n; i++ {
			cuts = append(cuts, i)
		}
		return cuts
	}
	for i := 0; i < 48; i++ {
		cuts = append(cuts, i)
	}
	for i := 0; i < 16; i++ {
		cuts = append(cuts, 48+r.IntN(n-48-16))
	}
	for i := n - 16; i < n; i++ {
		cuts = append(cuts, i)
	}
	return cuts
}

var c08Levels = []protocol.EncryptionLevel{protocol.EncryptionInitial, protocol.EncryptionHandshake, protocol.Encryption0RTT, protocol.Encryption1RTT}
var c08Versions = []protocol.Version{protocol.Version1, protocol.Version2}

// ---------------------------------------------------------------------------------------
// frames: names, equality, semantic validation

func c08FrameName(ft FrameType) string {
	switch {
	case ft.IsStreamFrameType():
		return fmt.Sprintf("STREAM_%02x", uint64(ft))
	}
	switch ft {
	case FrameTypePing:
		return "PING"
	case FrameTypeAck:
		return "ACK"
	case FrameTypeAckECN:
		return "ACK_ECN"
	case FrameTypeResetStream:
		return "RESET_STREAM"
	case FrameTypeStopSending:
		return "STOP_SENDING"
	case FrameTypeCrypto:
		return "CRYPTO"
	case FrameTypeNewToken:
		return "NEW_TOKEN"
	case FrameTypeMaxData:
		return "MAX_DATA"
	case FrameTypeMaxStreamData:
		return "MAX_STREAM_DATA"
	case FrameTypeBidiMaxStreams:
		return "MAX_STREAMS_BIDI"
	case FrameTypeUniMaxStreams:
		return "MAX_STREAMS_UNI"
	case FrameTypeDataBlocked:
		return "DATA_BLOCKED"
	case FrameTypeStreamDataBlocked:
		return "STREAM_DATA_BLOCKED"
	case FrameTypeBidiStreamBlocked:
		return "STREAMS_BLOCKED_BIDI"
	case FrameTypeUniStreamBlocked:
		return "STREAMS_BLOCKED_UNI"
	case FrameTypeNewConnectionID:
		return "NEW_CONNECTION_ID"
	case FrameTypeRetireConnectionID:
		return "RETIRE_CONNECTION_ID"
	case FrameTypePathChallenge:
		return "PATH_CHALLENGE"
	case FrameTypePathResponse:
		return "PATH_RESPONSE"
	case FrameTypeConnectionClose:
		return "CONNECTION_CLOSE"
	case FrameTypeApplicationClose:
		return "APPLICATION_CLOSE"
	case FrameTypeHandshakeDone:
		return "HANDSHAKE_DONE"
	case FrameTypeResetStreamAt:
		return "RESET_STREAM_AT"
	case FrameTypeAckFrequency:
		return "ACK_FREQUENCY"
	case FrameTypeImmediateAck:
		return "IMMEDIATE_ACK"
	case FrameTypeDatagramNoLength:
		return "DATAGRAM"
	case FrameTypeDatagramWithLength:
		return "DATAGRAM_LEN"
	}
	return fmt.Sprintf("UNKNOWN_%x", uint64(ft))
}

// c08AllFrameNames lists every wire frame type the generators must have produced.
func c08AllFrameNames() []string {
	var out []string
	for _, ft := range []FrameType{FrameTypePing, FrameTypeAck, FrameTypeAckECN, FrameTypeResetStream, FrameTypeStopSending, FrameTypeCrypto, FrameTypeNewToken,
		8, 9, 10, 11, 12, 13, 14, 15,
		FrameTypeMaxData, FrameTypeMaxStreamData, FrameTypeBidiMaxStreams, FrameTypeUniMaxStreams, FrameTypeDataBlocked, FrameTypeStreamDataBlocked,
		FrameTypeBidiStreamBlocked, FrameTypeUniStreamBlocked, FrameTypeNewConnectionID, FrameTypeRetireConnectionID, FrameTypePathChallenge, FrameTypePathResponse,
		FrameTypeConnectionClose, FrameTypeApplicationClose, FrameTypeHandshakeDone, FrameTypeResetStreamAt, FrameTypeAckFrequency, FrameTypeImmediateAck,
		FrameTypeDatagramNoLength, FrameTypeDatagramWithLength} {
		out = append(out, c08FrameName(ft))
	}
	return out
}

const c08AckUnit = time.Duration(1000 * (1 << protocol.AckDelayExponent)) // resolution of the ACK delay encoder

// c08FrameEq compares a frame with the result of parsing its re-encoding.  strictDur: durations
// must be exactly equal (they were produced by a parser working at the encoder's resolution, or by
// a generator that only emits representable values); otherwise they are compared after the
// encoder's documented truncation to its unit.  MaxInt64 is the parsers' explicit saturation
// value and is compared after truncation in both modes.
func c08FrameEq(a, b Frame, strictDur bool) (bool, string) {
	if reflect.TypeOf(a) != reflect.TypeOf(b) {
		return false, fmt.Sprintf("type %T vs %T", a, b)
	}
	durEq := func(x, y, unit time.Duration) bool {
		if x == y {
			return true
		}
		if strictDur && x != math.MaxInt64 {
			return false
		}
		return y == x/unit*unit
	}
	switch fa := a.(type) {
	case *StreamFrame:
		fb := b.(*StreamFrame)
		if fa.StreamID != fb.StreamID || fa.Offset != fb.Offset || fa.Fin != fb.Fin || fa.DataLenPresent != fb.DataLenPresent || !bytes.Equal(fa.Data, fb.Data) {
			return false, "STREAM fields differ"
		}
		return true, ""
	case *CryptoFrame:
		fb := b.(*CryptoFrame)
		return fa.Offset == fb.Offset && bytes.Equal(fa.Data, fb.Data), "CRYPTO fields differ"
	case *DatagramFrame:
		fb := b.(*DatagramFrame)
		return fa.DataLenPresent == fb.DataLenPresent && bytes.Equal(fa.Data, fb.Data), "DATAGRAM fields differ"
	case *NewTokenFrame:
		fb := b.(*NewTokenFrame)
		return bytes.Equal(fa.Token, fb.Token), "NEW_TOKEN token differs"
	case *AckFrame:
		fb := b.(*AckFrame)
		ra, rb := fa.AckRanges, fb.AckRanges
		if len(ra) > protocol.MaxNumAckRanges && len(rb) == protocol.MaxNumAckRanges { // the encoder writes at most MaxNumAckRanges ranges (documented)
			ra = ra[:protocol.MaxNumAckRanges]
		}
		if len(ra) != len(rb) {
			return false, fmt.Sprintf("ACK range count %d vs %d", len(ra), len(rb))
		}
		for i := range ra {
			if ra[i] != rb[i] {
				return false, fmt.Sprintf("ACK range %d: %v vs %v", i, ra[i], rb[i])
			}
		}
		if fa.ECT0 != fb.ECT0 || fa.ECT1 != fb.ECT1 || fa.ECNCE != fb.ECNCE {
			return false, "ACK ECN counts differ"
		}
		if !durEq(fa.DelayTime, fb.DelayTime, c08AckUnit) {
			return false, fmt.Sprintf("ACK DelayTime %d ns vs %d ns", fa.DelayTime, fb.DelayTime)
		}
		return true, ""
	case *AckFrequencyFrame:
		fb := b.(*AckFrequencyFrame)
		if fa.SequenceNumber != fb.SequenceNumber || fa.AckElicitingThreshold != fb.AckElicitingThreshold || fa.ReorderingThreshold != fb.ReorderingThreshold {
			return false, "ACK_FREQUENCY fields differ"
		}
		if !durEq(fa.RequestMaxAckDelay, fb.RequestMaxAckDelay, time.Microsecond) {
			return false, fmt.Sprintf("ACK_FREQUENCY RequestMaxAckDelay %d ns vs %d ns", fa.RequestMaxAckDelay, fb.RequestMaxAckDelay)
		}
		return true, ""
	}
	if !reflect.DeepEqual(a, b) {
		return false, fmt.Sprintf("%#v vs %#v", a, b)
	}
	return true, ""
}

// c08ValidateFrame checks a successfully parsed frame against the RFC 9000 value ranges; a
// non-empty result names a value that should have been rejected.
func c08ValidateFrame(f Frame) string {
	switch f := f.(type) {
	case *StreamFrame:
		if uint64(f.StreamID) > c08MaxVarint || f.Offset < 0 || uint64(f.Offset)+uint64(len(f.Data)) > c08MaxVarint {
			return "stream-offset-overflow"
		}
	case *AckFrame:
		if len(f.AckRanges) == 0 {
			return "ack-no-range"
		}
		for i, r := range f.AckRanges {
			if r.Smallest < 0 || r.Smallest > r.Largest {
				return "ack-range-inverted"
			}
			if i > 0 && f.AckRanges[i-1].Smallest < r.Largest+2 {
				return "ack-ranges-not-descending"
			}
		}
		if f.DelayTime < 0 {
			return "ack-negative-delay"
		}
	case *NewConnectionIDFrame:
		if f.ConnectionID.Len() < 1 || f.ConnectionID.Len() > 20 {
			return "ncid-connid-len"
		}
		if f.RetirePriorTo > f.SequenceNumber {
			return "ncid-retire-prior-to-gt-seq"
		}
	case *NewTokenFrame:
		if len(f.Token) == 0 {
			return "new-token-empty"
		}
	case *MaxStreamsFrame:
		if uint64(f.MaxStreamNum) > 1<<60 {
			return "max-streams-gt-2^60"
		}
	case *StreamsBlockedFrame:
		if uint64(f.StreamLimit) > 1<<60 {
			return "streams-blocked-gt-2^60"
		}
	case *ResetStreamFrame:
		if f.FinalSize < f.ReliableSize {
			return "reset-stream-at-final-lt-reliable"
		}
	case *ConnectionCloseFrame:
		if f.IsApplicationError && f.FrameType != 0 {
			return "app-close-with-frame-type"
		}
	case *AckFrequencyFrame:
		if f.RequestMaxAckDelay < 0 {
			return "ack-frequency-negative-delay"
		}
	}
	return ""
}

// ---------------------------------------------------------------------------------------
// frames: driving the parser the way connection.handleFrames does

type c08Cfg struct {
	dg, rsa, af bool
	exp         uint8
}

func (c c08Cfg) String() string {
	return fmt.Sprintf("dg%v/rsa%v/af%v/exp%d", c.dg, c.rsa, c.af, c.exp)
}

func (c c08Cfg) parser() *FrameParser {
	p := NewFrameParser(c.dg, c.rsa, c.af)
	p.SetAckDelayExponent(c.exp)
	return p
}

var c08FullCfg = c08Cfg{true, true, true, protocol.DefaultAckDelayExponent}

func c08Dispatch(p *FrameParser, ft FrameType, body []byte, lvl protocol.EncryptionLevel, v protocol.Version) (Frame, int, error) {
	switch {
	case ft.IsStreamFrameType():
		f, n, err := p.ParseStreamFrame(ft, body, v)
		if f == nil {
			return nil, n, err
		}
		return f, n, err
	case ft.IsAckFrameType():
		f, n, err := p.ParseAckFrame(ft, body, lvl, v)
		if f == nil {
			return nil, n, err
		}
		cp := *f // the parser reuses its ACK frame
		cp.AckRanges = append([]AckRange(nil), f.AckRanges...)
		return &cp, n, err
	case ft.IsDatagramFrameType():
		f, n, err := p.ParseDatagramFrame(ft, body, v)
		if f == nil {
			return nil, n, err
		}
		return f, n, err
	}
	return p.ParseLessCommonFrame(ft, body, v)
}

func c08IsNilFrame(f Frame) bool {
	if f == nil {
		return true
	}
	rv := reflect.ValueOf(f)
	return rv.Kind() == reflect.Ptr && rv.IsNil()
}

func c08AllowedIH(ft FrameType) bool {
	switch ft {
	case FrameTypePing, FrameTypeAck, FrameTypeAckECN, FrameTypeCrypto, FrameTypeConnectionClose:
		return true
	}
	return false
}

func (c c08Cfg) knows(ft FrameType) bool {
	if ft >= 1 && ft <= 0x1e {
		return true
	}
	switch ft {
	case FrameTypeDatagramNoLength, FrameTypeDatagramWithLength:
		return c.dg
	case FrameTypeResetStreamAt:
		return c.rsa
	case FrameTypeAckFrequency, FrameTypeImmediateAck:
		return c.af
	}
	return false
}

func c08PutBack(f Frame) {
	if sf, ok := f.(*StreamFrame); ok {
		sf.PutBack()
	}
}

// c08Reencode checks the fixpoint relation for a frame f that some parser returned:
// Append succeeds, has exactly Length() bytes, parses (1-RTT, all extensions, exponent 3) to an
// equal frame consuming everything, and encodes to the same bytes again.
func (x *c08X) reencode(f Frame, v protocol.Version, strictDur bool, origin string, trace map[string]any) {
	name := fmt.Sprintf("%T", f)
	if sf, ok := f.(*StreamFrame); ok && len(sf.Data) == 0 && !sf.Fin {
		x.l.Count("reencode_skipped_empty_stream", 1) // accepted on receipt, never written (documented)
		return
	}
	var b []byte
	var err error
	var pl protocol.ByteCount
	if pv, st := c08Guard(func() { b, err = f.Append(nil, v); pl = f.Length(v) }); pv != nil {
		x.viol("C08|frame|panic-in-encoder|"+c08PanicClass(pv, st), fmt.Sprintf("%s: Append/Length of %#v panicked: %v", origin, f, pv), trace)
		return
	}
	if err != nil {
		x.viol("C08|frame|append-error-after-parse|"+name, fmt.Sprintf("%s: %#v: %v", origin, f, err), trace)
		return
	}
	if int(pl) != len(b) {
		x.viol("C08|frame|length-mismatch|"+name, fmt.Sprintf("%s: Length()=%d but Append wrote %d bytes: %#v", origin, pl, len(b), f), trace)
	}
	p := c08FullCfg.parser()
	var g Frame
	var tl, n int
	var ft FrameType
	var perr error
	if pv, st := c08Guard(func() {
		ft, tl, perr = p.ParseType(b, protocol.Encryption1RTT)
		if perr == nil {
			g, n, perr = c08Dispatch(p, ft, b[tl:], protocol.Encryption1RTT, v)
		}
	}); pv != nil {
		x.viol("C08|frame|panic|"+c08PanicClass(pv, st), fmt.Sprintf("%s: parsing the re-encoding panicked: %v", origin, pv), map[string]any{"reencoded": c08Hex(b), "from": trace})
		return
	}
	if perr != nil || c08IsNilFrame(g) {
		x.viol("C08|frame|reencoded-does-not-parse|"+name, fmt.Sprintf("%s: %#v re-encoded to %s: %v", origin, f, c08Hex(b), perr), trace)
		return
	}
	defer c08PutBack(g)
	if tl+n != len(b) {
		x.viol("C08|frame|reencoded-consumed-mismatch|"+name, fmt.Sprintf("%s: re-encoding has %d bytes, parser consumed %d", origin, len(b), tl+n), trace)
	}
	if ok, why := c08FrameEq(f, g, strictDur); !ok {
		sig := "C08|frame|reparse-differs|" + name
		if strings.Contains(why, "DelayTime") || strings.Contains(why, "RequestMaxAckDelay") {
			sig += "|duration-overflow"
		}
		x.viol(sig, fmt.Sprintf("%s: parse(Append(x)) != x: %s (reencoded %s)", origin, why, c08Hex(b)), trace)
		return
	}
	b2, err2 := g.Append(nil, v)
	if err2 != nil || !bytes.Equal(b, b2) {
		x.viol("C08|frame|reencode-not-stable|"+name, fmt.Sprintf("%s: %s then %s (%v)", origin, c08Hex(b), c08Hex(b2), err2), trace)
	}
}

// c08Total runs one byte string through the parser like connection.handleFrames and applies
// the totality, exactness, range and fixpoint oracles.  It returns the behaviour fingerprint.
func (x *c08X) total(data []byte, cfg c08Cfg, lvl protocol.EncryptionLevel, v protocol.Version) string {
	trace := map[string]any{"hex": c08Hex(data), "level": lvl.String(), "version": v.String(), "parser": cfg.String()}
	var sb strings.Builder
	fmt.Fprintf(&sb, "tot|%s|%s|", lvl, cfg)
	outcome := "end"
	pv, st := c08Guard(func() {
		p := cfg.parser()
		rest := data
		nframes := 0
		for len(rest) > 0 {
			ft, l, err := p.ParseType(rest, lvl)
			if l < 0 || l > len(rest) {
				x.viol("C08|frame|consumed-out-of-range|ParseType", fmt.Sprintf("ParseType reports %d of %d bytes", l, len(rest)), trace)
				outcome = "bad"
				return
			}
			k := 0 // PADDING: varints of value 0 in any width
			for k < len(rest) {
				pvv, pn, perr := quicvarint.Parse(rest[k:])
				if perr != nil || pvv != 0 {
					break
				}
				k += pn
			}
			if err != nil {
				if err == io.EOF {
					if k != len(rest) || l != len(rest) {
						x.viol("C08|frame|padding-eof-inexact", fmt.Sprintf("io.EOF with %d bytes reported, %d leading PADDING bytes, %d bytes available", l, k, len(rest)), trace)
					}
					outcome = "pad-eof"
				} else {
					outcome = "type-err"
				}
				return
			}
			tv, tn, terr := quicvarint.Parse(rest[k:])
			if terr != nil || FrameType(tv) != ft || k+tn != l {
				x.viol("C08|frame|type-consumed-mismatch", fmt.Sprintf("ParseType returned type %#x consuming %d; the input has %d padding bytes then varint %#x (%d bytes, err %v)", uint64(ft), l, k, tv, tn, terr), trace)
				outcome = "bad"
				return
			}
			if !cfg.knows(ft) {
				x.viol("C08|frame|unknown-type-accepted", fmt.Sprintf("frame type %#x accepted by a parser with %s", uint64(ft), cfg), trace)
				outcome = "bad"
				return
			}
			if (lvl == protocol.EncryptionInitial || lvl == protocol.EncryptionHandshake) && !c08AllowedIH(ft) {
				x.viol("C08|frame|forbidden-at-level|"+c08FrameName(ft), fmt.Sprintf("%s accepted at %s (RFC 9000 12.4/17.2)", c08FrameName(ft), lvl), trace)
				outcome = "bad"
				return
			}
			body := rest[l:]
			f, n, err := c08Dispatch(p, ft, body, lvl, v)
			if n < 0 || n > len(body) {
				x.viol("C08|frame|consumed-out-of-range|"+c08FrameName(ft), fmt.Sprintf("parser reports %d of %d bytes (err %v)", n, len(body), err), trace)
				outcome = "bad"
				return
			}
			if err != nil {
				outcome = "err:" + c08FrameName(ft)
				if _, ok := err.(*qerr.TransportError); !ok {
					outcome += ":untyped"
				}
				return
			}
			if c08IsNilFrame(f) {
				x.viol("C08|frame|nil-frame-without-error|"+c08FrameName(ft), "parser returned a nil frame and a nil error", trace)
				outcome = "bad"
				return
			}
			nframes++
			if nframes <= 3 {
				sb.WriteString(c08FrameName(ft))
				sb.WriteByte(',')
			}
			x.l.Count("parsed_ok_"+c08FrameName(ft), 1)
			if bad := c08ValidateFrame(f); bad != "" {
				x.viol("C08|frame|out-of-range-accepted|"+bad, fmt.Sprintf("%#v", f), trace)
			}
			// exactness: the reported bytes, and nothing after them, determine the result
			p2 := cfg.parser()
			f2, n2, err2 := c08Dispatch(p2, ft, body[:n], lvl, v)
			if err2 != nil || n2 != n || c08IsNilFrame(f2) {
				x.viol("C08|frame|consumed-inexact|"+c08FrameName(ft), fmt.Sprintf("parser reported %d bytes; parsing exactly those bytes gives n=%d err=%v", n, n2, err2), trace)
			} else {
				if ok, why := c08FrameEq(f, f2, true); !ok {
					x.viol("C08|frame|consumed-inexact|"+c08FrameName(ft), "result depends on bytes after the reported end: "+why, trace)
				}
				c08PutBack(f2)
			}
			strict := true
			if ft.IsAckFrameType() && lvl == protocol.Encryption1RTT && cfg.exp < protocol.AckDelayExponent {
				strict = false // finer peer resolution than our encoder's: truncation is legitimate
			}
			x.reencode(f, v, strict, "parsed", trace)
			c08PutBack(f)
			rest = body[n:]
		}
	})
	if pv != nil {
		x.viol("C08|frame|panic|"+c08PanicClass(pv, st), fmt.Sprintf("panic: %v", pv), map[string]any{"hex": c08Hex(data), "level": lvl.String(), "version": v.String(), "parser": cfg.String(), "stack": st})
		outcome = "panic"
	}
	// (4) the repository's own fuzz entry point on the same input
	if h := C08FuzzHooks["frames"]; h != nil && lvl != protocol.Encryption0RTT && cfg == c08FullCfg {
		pre := byte(0)
		switch lvl {
		case protocol.EncryptionHandshake:
			pre = 1
		case protocol.Encryption1RTT:
			pre = 2
		}
		in := append([]byte{pre}, data...)
		if pv, st := c08Guard(func() { h(in) }); pv != nil {
			x.viol("C08|repofuzz-frames|panic|"+c08FuzzClass(pv), fmt.Sprintf("fuzzing/frames.Fuzz panicked: %v", pv), map[string]any{"fuzz_input_hex": c08Hex(in), "stack": st})
		}
		x.l.Count("repofuzz_frames_calls", 1)
	}
	sb.WriteString("|" + outcome)
	return sb.String()
}
