package wire_test

// C08 (4): the repository's own fuzz entry points.  They import internal/wire, so they can only be
// linked into the test binary from the external test package; the in-package monitor calls them
// through wire.C08FuzzHooks on the same corpus.

import (
	"github.com/refraction-networking/uquic/fuzzing/frames"
	"github.com/refraction-networking/uquic/fuzzing/header"
	"github.com/refraction-networking/uquic/fuzzing/transportparameters"
	"github.com/refraction-networking/uquic/internal/wire"
)

func init() {
	wire.C08FuzzHooks["frames"] = frames.Fuzz
	wire.C08FuzzHooks["header"] = header.Fuzz
	wire.C08FuzzHooks["transportparameters"] = transportparameters.Fuzz
}
