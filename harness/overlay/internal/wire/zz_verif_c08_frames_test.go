package wire

// C08 part 2: frame generators, RFC-range negative tests and the frame test function.

import (
	"bytes"
	"fmt"
	"math"
	"math/rand/v2"
	"testing"
	"time"

	"github.com/refraction-networking/uquic/internal/protocol"
	"github.com/refraction-networking/uquic/internal/qerr"
	"github.com/refraction-networking/uquic/internal/verif/evlog"
	"github.com/refraction-networking/uquic/quicvarint"
)

type c08Kind struct {
	name  string
	caps  []uint64 // upper bounds of the varint-valued fields
	build func(v []uint64, r *rand.Rand) Frame
	delim bool // the encoding is self-delimiting
}

const c08BigData = 20000

func c08Kinds() []c08Kind {
	mx := c08MaxVarint
	ks := []c08Kind{
		{"PING", nil, func([]uint64, *rand.Rand) Frame { return &PingFrame{} }, true},
		{"HANDSHAKE_DONE", nil, func([]uint64, *rand.Rand) Frame { return &HandshakeDoneFrame{} }, true},
		{"IMMEDIATE_ACK", nil, func([]uint64, *rand.Rand) Frame { return &ImmediateAckFrame{} }, true},
		{"RESET_STREAM", []uint64{mx, mx, mx}, func(v []uint64, _ *rand.Rand) Frame {
			return &ResetStreamFrame{StreamID: protocol.StreamID(v[0]), ErrorCode: qerr.StreamErrorCode(v[1]), FinalSize: protocol.ByteCount(v[2])}
		}, true},
		{"RESET_STREAM_AT", []uint64{mx, mx, mx, mx}, func(v []uint64, _ *rand.Rand) Frame {
			if v[3] == 0 || v[3] > v[2] {
				return nil
			}
			return &ResetStreamFrame{StreamID: protocol.StreamID(v[0]), ErrorCode: qerr.StreamErrorCode(v[1]), FinalSize: protocol.ByteCount(v[2]), ReliableSize: protocol.ByteCount(v[3])}
		}, true},
		{"STOP_SENDING", []uint64{mx, mx}, func(v []uint64, _ *rand.Rand) Frame {
			return &StopSendingFrame{StreamID: protocol.StreamID(v[0]), ErrorCode: qerr.StreamErrorCode(v[1])}
		}, true},
		{"CRYPTO", []uint64{mx, c08BigData}, func(v []uint64, r *rand.Rand) Frame {
			f := &CryptoFrame{Offset: protocol.ByteCount(v[0])}
			if v[1] > 0 {
				f.Data = c08Bytes(r, int(v[1]))
			}
			return f
		}, true},
		{"NEW_TOKEN", []uint64{c08BigData}, func(v []uint64, r *rand.Rand) Frame {
			if v[0] == 0 {
				return nil
			}
			return &NewTokenFrame{Token: c08Bytes(r, int(v[0]))}
		}, true},
		{"MAX_DATA", []uint64{mx}, func(v []uint64, _ *rand.Rand) Frame { return &MaxDataFrame{MaximumData: protocol.ByteCount(v[0])} }, true},
		{"MAX_STREAM_DATA", []uint64{mx, mx}, func(v []uint64, _ *rand.Rand) Frame {
			return &MaxStreamDataFrame{StreamID: protocol.StreamID(v[0]), MaximumStreamData: protocol.ByteCount(v[1])}
		}, true},
		{"MAX_STREAMS_BIDI", []uint64{1 << 60}, func(v []uint64, _ *rand.Rand) Frame {
			return &MaxStreamsFrame{Type: protocol.StreamTypeBidi, MaxStreamNum: protocol.StreamNum(v[0])}
		}, true},
		{"MAX_STREAMS_UNI", []uint64{1 << 60}, func(v []uint64, _ *rand.Rand) Frame {
			return &MaxStreamsFrame{Type: protocol.StreamTypeUni, MaxStreamNum: protocol.StreamNum(v[0])}
		}, true},
		{"DATA_BLOCKED", []uint64{mx}, func(v []uint64, _ *rand.Rand) Frame { return &DataBlockedFrame{MaximumData: protocol.ByteCount(v[0])} }, true},
		{"STREAM_DATA_BLOCKED", []uint64{mx, mx}, func(v []uint64, _ *rand.Rand) Frame {
			return &StreamDataBlockedFrame{StreamID: protocol.StreamID(v[0]), MaximumStreamData: protocol.ByteCount(v[1])}
		}, true},
		{"STREAMS_BLOCKED_BIDI", []uint64{1 << 60}, func(v []uint64, _ *rand.Rand) Frame {
			return &StreamsBlockedFrame{Type: protocol.StreamTypeBidi, StreamLimit: protocol.StreamNum(v[0])}
		}, true},
		{"STREAMS_BLOCKED_UNI", []uint64{1 << 60}, func(v []uint64, _ *rand.Rand) Frame {
			return &StreamsBlockedFrame{Type: protocol.StreamTypeUni, StreamLimit: protocol.StreamNum(v[0])}
		}, true},
		{"NEW_CONNECTION_ID", []uint64{mx, mx, 20}, func(v []uint64, r *rand.Rand) Frame {
			if v[1] > v[0] || v[2] == 0 {
				return nil
			}
			f := &NewConnectionIDFrame{SequenceNumber: v[0], RetirePriorTo: v[1], ConnectionID: protocol.ParseConnectionID(c08Bytes(r, int(v[2])))}
			copy(f.StatelessResetToken[:], c08Bytes(r, 16))
			return f
		}, true},
		{"RETIRE_CONNECTION_ID", []uint64{mx}, func(v []uint64, _ *rand.Rand) Frame { return &RetireConnectionIDFrame{SequenceNumber: v[0]} }, true},
		{"PATH_CHALLENGE", nil, func(_ []uint64, r *rand.Rand) Frame {
			f := &PathChallengeFrame{}
			copy(f.Data[:], c08Bytes(r, 8))
			return f
		}, true},
		{"PATH_RESPONSE", nil, func(_ []uint64, r *rand.Rand) Frame {
			f := &PathResponseFrame{}
			copy(f.Data[:], c08Bytes(r, 8))
			return f
		}, true},
		{"CONNECTION_CLOSE", []uint64{mx, mx, c08BigData}, func(v []uint64, r *rand.Rand) Frame {
			return &ConnectionCloseFrame{ErrorCode: v[0], FrameType: v[1], ReasonPhrase: string(c08Bytes(r, int(v[2])))}
		}, true},
		{"APPLICATION_CLOSE", []uint64{mx, c08BigData}, func(v []uint64, r *rand.Rand) Frame {
			return &ConnectionCloseFrame{IsApplicationError: true, ErrorCode: v[0], ReasonPhrase: string(c08Bytes(r, int(v[1])))}
		}, true},
		{"ACK_FREQUENCY", []uint64{mx, mx, math.MaxInt64 / 1000, mx}, func(v []uint64, _ *rand.Rand) Frame {
			return &AckFrequencyFrame{SequenceNumber: v[0], AckElicitingThreshold: v[1], RequestMaxAckDelay: time.Duration(v[2]) * time.Microsecond, ReorderingThreshold: protocol.PacketNumber(v[3])}
		}, true},
		{"DATAGRAM", []uint64{c08BigData}, func(v []uint64, r *rand.Rand) Frame { return &DatagramFrame{Data: c08Bytes(r, int(v[0]))} }, false},
		{"DATAGRAM_LEN", []uint64{c08BigData}, func(v []uint64, r *rand.Rand) Frame {
			return &DatagramFrame{DataLenPresent: true, Data: c08Bytes(r, int(v[0]))}
		}, true},
	}
	for typ := 8; typ <= 15; typ++ {
		fin, hasLen, hasOff := typ&1 != 0, typ&2 != 0, typ&4 != 0
		ks = append(ks, c08Kind{fmt.Sprintf("STREAM_%02x", typ), []uint64{mx, mx, protocol.MaxPacketBufferSize}, func(v []uint64, r *rand.Rand) Frame {
			off := v[1]
			if !hasOff {
				off = 0
			} else if off == 0 {
				return nil
			}
			if off+v[2] > c08MaxVarint || (v[2] == 0 && !fin) {
				return nil
			}
			f := &StreamFrame{StreamID: protocol.StreamID(v[0]), Offset: protocol.ByteCount(off), Fin: fin, DataLenPresent: hasLen}
			if v[2] > 0 {
				f.Data = c08Bytes(r, int(v[2]))
			}
			return f
		}, hasLen})
	}
	ack := func(ecn bool) func(v []uint64, r *rand.Rand) Frame {
		return func(v []uint64, r *rand.Rand) Frame {
			largest := v[0]
			first := min(v[2], largest)
			f := &AckFrame{DelayTime: time.Duration(v[1]) * c08AckUnit}
			f.AckRanges = append(f.AckRanges, AckRange{Largest: protocol.PacketNumber(largest), Smallest: protocol.PacketNumber(largest - first)})
			extra := 0
			switch r.IntN(12) {
			case 0, 1, 2:
			case 3, 4, 5, 6, 7:
				extra = 1 + r.IntN(6)
			case 8:
				extra = 62 + r.IntN(3) // 63, 64, 65 ranges in total: around MaxNumAckRanges
			case 9:
				extra = 65 + r.IntN(40)
			default:
				extra = r.IntN(64)
			}
			smallest := largest - first
			for range extra {
				if smallest < 2 {
					break
				}
				gap := c08V(r, smallest-2)
				lg := smallest - gap - 2
				ln := c08V(r, lg)
				if r.IntN(3) > 0 { // keep room for more ranges
					gap = min(gap, r.Uint64N(70))
					lg = smallest - gap - 2
					ln = min(lg, r.Uint64N(70))
				}
				f.AckRanges = append(f.AckRanges, AckRange{Largest: protocol.PacketNumber(lg), Smallest: protocol.PacketNumber(lg - ln)})
				smallest = lg - ln
			}
			if ecn {
				f.ECT0, f.ECT1, f.ECNCE = v[3], v[4], v[5]
				if f.ECT0 == 0 && f.ECT1 == 0 && f.ECNCE == 0 {
					return nil
				}
			}
			return f
		}
	}
	ks = append(ks,
		c08Kind{"ACK", []uint64{mx, math.MaxInt64 / uint64(c08AckUnit), mx}, ack(false), true},
		c08Kind{"ACK_ECN", []uint64{mx, math.MaxInt64 / uint64(c08AckUnit), mx, mx, mx, mx}, ack(true), true})
	return ks
}

// c08GenFrames: for every field every boundary value (the others drawn from c08V), then random.
func c08GenFrames(k c08Kind, r *rand.Rand, nRandom int, cov func(field, width int)) []Frame {
	var out []Frame
	try := func(fix int, val uint64) {
		for range 30 {
			v := make([]uint64, len(k.caps))
			for i := range v {
				v[i] = c08V(r, k.caps[i])
			}
			if fix >= 0 {
				v[fix] = val
			}
			if f := k.build(v, r); f != nil {
				out = append(out, f)
				for i := range v {
					cov(i, c08W(v[i]))
				}
				return
			}
		}
	}
	for i, cp := range k.caps {
		vals := append([]uint64(nil), c08Bnd...)
		vals = append(vals, cp, cp-1, 127, 128, 129)
		for _, b := range vals {
			if b <= cp {
				try(i, b)
			}
		}
	}
	if len(k.caps) == 0 {
		nRandom = min(nRandom, 4)
	}
	for range nRandom {
		try(-1, 0)
	}
	return out
}

// roundTrip is oracle (1) for one generated frame; it returns the encoding (nil on failure).
func (x *c08X) roundTrip(k c08Kind, f Frame, r *rand.Rand) []byte {
	v := c08Versions[r.IntN(2)]
	trace := map[string]any{"kind": k.name, "frame": fmt.Sprintf("%#v", f)}
	if s := trace["frame"].(string); len(s) > 2000 {
		trace["frame"] = s[:2000] + "..."
	}
	var b, bp []byte
	var err error
	var pl protocol.ByteCount
	prefix := c08Bytes(r, r.IntN(5))
	if pv, st := c08Guard(func() {
		b, err = f.Append(nil, v)
		pl = f.Length(v)
		bp, _ = f.Append(append([]byte(nil), prefix...), v)
	}); pv != nil {
		x.viol("C08|frame|panic-in-encoder|"+c08PanicClass(pv, st), fmt.Sprintf("Append/Length panicked: %v", pv), trace)
		return nil
	}
	if err != nil {
		x.viol("C08|frame|append-error|"+k.name, err.Error(), trace)
		return nil
	}
	trace["hex"] = c08Hex(b)
	if int(pl) != len(b) {
		x.viol("C08|frame|length-mismatch|"+fmt.Sprintf("%T", f), fmt.Sprintf("Length()=%d but Append wrote %d bytes", pl, len(b)), trace)
	}
	if !bytes.Equal(bp, append(append([]byte(nil), prefix...), b...)) {
		x.viol("C08|frame|append-clobbers-prefix|"+k.name, "Append(prefix) != prefix + Append(nil)", trace)
	}
	tv, _, _ := quicvarint.Parse(b)
	if got := c08FrameName(FrameType(tv)); got != k.name {
		x.viol("C08|frame|wrong-wire-type|"+k.name, "encoded as "+got, trace)
		return nil
	}
	x.l.Count("gen_frame_"+k.name, 1)
	for _, lvl := range c08Levels {
		p := c08FullCfg.parser()
		pad := r.IntN(3)
		in := append(make([]byte, pad), b...)
		tail := 0
		if k.delim && r.IntN(2) == 0 {
			in = append(in, 0x01)
			in = append(in, c08Bytes(r, r.IntN(6))...)
			tail = len(in) - pad - len(b)
		}
		var g Frame
		var ft FrameType
		var tl, n int
		var perr error
		stage := "type"
		if pv, st := c08Guard(func() {
			ft, tl, perr = p.ParseType(in, lvl)
			if perr == nil {
				stage = "body"
				g, n, perr = c08Dispatch(p, ft, in[tl:], lvl, v)
			}
		}); pv != nil {
			x.viol("C08|frame|panic|"+c08PanicClass(pv, st), fmt.Sprintf("parsing a valid %s at %s panicked: %v", k.name, lvl, pv), trace)
			return b
		}
		ih := lvl == protocol.EncryptionInitial || lvl == protocol.EncryptionHandshake
		if ih && !c08AllowedIH(FrameType(tv)) {
			if perr == nil {
				x.viol("C08|frame|forbidden-at-level|"+k.name, fmt.Sprintf("%s accepted at %s", k.name, lvl), trace)
			}
			x.l.Count("level_rejections", 1)
			continue
		}
		if perr != nil {
			if lvl == protocol.Encryption0RTT && stage == "type" {
				x.l.Count("level_rejections_0rtt", 1) // which frames an implementation refuses in 0-RTT is its choice (RFC 9000 12.5: MAY)
				continue
			}
			x.viol("C08|frame|valid-rejected|"+k.name, fmt.Sprintf("valid %s rejected at %s (%s): %v", k.name, lvl, stage, perr), trace)
			continue
		}
		if tl+n != len(in)-tail {
			x.viol("C08|frame|consumed-mismatch|"+k.name, fmt.Sprintf("encoding has %d (+%d padding) bytes, parser consumed %d at %s", len(b), pad, tl+n, lvl), trace)
		}
		if ok, why := c08FrameEq(f, g, true); !ok {
			x.viol("C08|frame|roundtrip-differs|"+k.name, fmt.Sprintf("at %s: %s", lvl, why), trace)
		} else if lvl == protocol.Encryption1RTT {
			x.reencode(g, v, true, "roundtrip", trace)
		}
		c08PutBack(g)
	}
	// extension frames must be refused by a parser that did not negotiate them
	switch FrameType(tv) {
	case FrameTypeDatagramNoLength, FrameTypeDatagramWithLength, FrameTypeResetStreamAt, FrameTypeAckFrequency, FrameTypeImmediateAck:
		p := NewFrameParser(false, false, false)
		if _, _, err := p.ParseType(b, protocol.Encryption1RTT); err == nil {
			x.viol("C08|frame|unknown-type-accepted", k.name+" accepted without the extension", trace)
		}
	}
	return b
}

func c08Enc(typ uint64, vals ...uint64) []byte {
	b := quicvarint.Append(nil, typ)
	for _, v := range vals {
		b = quicvarint.Append(b, v)
	}
	return b
}

type c08Neg struct {
	rule   string
	data   []byte
	lvl    protocol.EncryptionLevel
	cfg    c08Cfg
	wantOK bool
}

func c08FrameNegatives(r *rand.Rand) []c08Neg {
	var out []c08Neg
	add := func(rule string, ok bool, data []byte) {
		out = append(out, c08Neg{rule, data, protocol.Encryption1RTT, c08FullCfg, ok})
	}
	for _, typ := range []uint64{0x12, 0x13, 0x16, 0x17} {
		rule := fmt.Sprintf("stream-count-gt-2^60/type%#x", typ)
		add(rule, true, c08Enc(typ, 1<<60))
		add(rule, true, c08Enc(typ, 1<<60-1))
		add(rule, false, c08Enc(typ, 1<<60+1))
		add(rule, false, c08Enc(typ, c08MaxVarint))
		for range 8 {
			add(rule, false, c08Enc(typ, 1<<60+1+r.Uint64N(c08MaxVarint-1<<60)))
		}
	}
	ncid := func(seq, ret uint64, l int, have int) []byte {
		b := c08Enc(0x18, seq, ret)
		b = append(b, byte(l))
		return append(b, c08Bytes(r, have)...)
	}
	for _, l := range []int{1, 8, 19, 20} {
		add("ncid-connid-len", true, ncid(7, 3, l, l+16))
	}
	for _, l := range []int{0, 21, 22, 64, 255} {
		add("ncid-connid-len", false, ncid(7, 3, l, l+16))
		add("ncid-connid-len", false, ncid(7, 3, l, 300))
	}
	add("ncid-retire-prior-to", true, ncid(7, 7, 8, 24))
	add("ncid-retire-prior-to", false, ncid(7, 8, 8, 24))
	add("ncid-retire-prior-to", false, ncid(0, c08MaxVarint, 8, 24))
	for range 16 {
		fs := c08V(r, c08MaxVarint-1)
		add("reset-stream-at-final-lt-reliable", false, c08Enc(0x24, c08V(r, c08MaxVarint), c08V(r, c08MaxVarint), fs, fs+1+r.Uint64N(c08MaxVarint-fs)))
		add("reset-stream-at-final-lt-reliable", true, c08Enc(0x24, c08V(r, c08MaxVarint), c08V(r, c08MaxVarint), fs, fs-r.Uint64N(fs+1)))
	}
	add("reset-stream-at-final-lt-reliable", false, c08Enc(0x24, 4, 0, 0, 1))
	add("new-token-empty", false, c08Enc(0x07, 0))
	add("new-token-empty", false, append(c08Enc(0x07, 0), 1, 2, 3))
	add("new-token-empty", true, append(c08Enc(0x07, 1), 9))
	// STREAM: offset + length must not exceed 2^62-1
	add("stream-offset-overflow", false, append(c08Enc(0x0e, 4, c08MaxVarint, 1), 0xaa))
	add("stream-offset-overflow", true, append(c08Enc(0x0e, 4, c08MaxVarint-1, 1), 0xaa))
	add("stream-offset-overflow", false, append(c08Enc(0x0c, 4, c08MaxVarint-1), 0xaa, 0xbb))
	add("stream-offset-overflow", true, c08Enc(0x0f, 4, c08MaxVarint, 0))
	// ACK: ranges below zero
	add("ack-first-range-gt-largest", false, c08Enc(0x02, 5, 0, 0, 6))
	add("ack-first-range-gt-largest", true, c08Enc(0x02, 5, 0, 0, 5))
	add("ack-range-underflow", false, c08Enc(0x02, 10, 0, 1, 2, 7, 0)) // smallest 8, gap 7 -> largest -1
	add("ack-range-underflow", true, c08Enc(0x02, 10, 0, 1, 2, 6, 0))  // largest 0
	add("ack-range-underflow", false, c08Enc(0x02, 10, 0, 1, 2, 5, 2)) // largest 1, length 2
	add("ack-range-underflow", false, c08Enc(0x03, 10, 0, 1, 2, 7, 0, 1, 1, 1))
	// frame types nobody defined, with a tail that would satisfy any body parser
	tail := bytes.Repeat([]byte{1}, 64)
	for _, typ := range []uint64{0x1f, 0x20, 0x21, 0x22, 0x23, 0x24, 0x25, 0x2f, 0x30, 0x31, 0x32, 0x3f, 0x40, 0xae, 0xaf, 0xb0, 0xff, 0x3fff, 0x4000, 1 << 30, c08MaxVarint} {
		none := c08Cfg{exp: 3}
		out = append(out, c08Neg{fmt.Sprintf("unknown-frame-type/%#x", typ), append(c08Enc(typ), tail...), protocol.Encryption1RTT, none, false})
	}
	// non-minimal encodings of the frame type are legal input for extension types handled as varints
	return out
}

func (x *c08X) expect(n c08Neg) {
	trace := map[string]any{"hex": c08Hex(n.data), "rule": n.rule, "level": n.lvl.String(), "parser": n.cfg.String()}
	var ok bool
	var f Frame
	var perr error
	if pv, st := c08Guard(func() {
		p := n.cfg.parser()
		ft, tl, err := p.ParseType(n.data, n.lvl)
		if err != nil {
			perr = err
			return
		}
		f, _, err = c08Dispatch(p, ft, n.data[tl:], n.lvl, protocol.Version1)
		perr = err
		ok = err == nil
	}); pv != nil {
		x.viol("C08|frame|panic|"+c08PanicClass(pv, st), fmt.Sprintf("panic: %v", pv), trace)
		return
	}
	if ok && !n.wantOK {
		x.viol("C08|frame|out-of-range-accepted|"+n.rule, fmt.Sprintf("accepted as %#v", f), trace)
	}
	if !ok && n.wantOK {
		x.viol("C08|frame|valid-rejected|"+n.rule, fmt.Sprintf("rejected: %v", perr), trace)
	}
	x.l.Count("negative_tests_frames", 1)
	if ok {
		c08PutBack(f)
	}
}

var c08Cfgs = []c08Cfg{c08FullCfg, {false, false, false, 0}, {true, false, true, 20}, {false, true, false, 10}}

func TestVerifC08Frames(t *testing.T) {
	l := evlog.Open("C08")
	defer l.Close()
	x := &c08X{l: l, seen: map[string]int{}}
	kinds := c08Kinds()
	idx := 0
	next := func(id string, in map[string]any) bool {
		mine := l.Mine(idx)
		idx++
		if !mine {
			return false
		}
		x.c = l.Begin(id, in)
		return x.c != nil
	}

	// (1) structured round trips, then (2) every truncation and seeded mutations of the encodings
	nRandom := l.Pick(120, 1500)
	nCorpus := l.Pick(36, 200)
	nMut := l.Pick(64, 256)
	for _, k := range kinds {
		id := "frames/rt/" + k.name
		if !next(id, map[string]any{"kind": k.name, "random": nRandom}) {
			continue
		}
		r := l.Rand(id)
		frames := c08GenFrames(k, r, nRandom, func(field, width int) { l.Count(fmt.Sprintf("cov_%s_f%d_w%d", k.name, field, width), 1) })
		var corpus [][]byte
		for _, f := range frames {
			b := x.roundTrip(k, f, r)
			x.c.Eval(fmt.Sprintf("rt|%s|len%d", k.name, quicvarint.Len(uint64(len(b)))) + c08WidthFP(b))
			if b != nil && len(b) <= 1600 && (len(corpus) < nCorpus/2 || r.IntN(4) == 0) && len(corpus) < nCorpus {
				corpus = append(corpus, b)
			}
		}
		x.c.End()
		x.c = l.Begin("frames/mut/"+k.name, map[string]any{"kind": k.name, "encodings": len(corpus), "mutations_each": nMut})
		if x.c == nil {
			continue
		}
		for ci, b := range corpus {
			lvl := c08Levels[ci%4]
			if !c08AllowedIH(FrameType(b[0])) && ci%2 == 0 {
				lvl = protocol.Encryption1RTT
			}
			cfg := c08FullCfg
			if ci%5 == 4 {
				cfg.exp = uint8(r.IntN(21))
			}
			for _, cut := range c08Truncations(r, len(b)) {
				x.c.Eval(x.total(b[:cut], cfg, lvl, c08Versions[cut%2]))
				l.Count("truncations_frames", 1)
			}
			for range nMut {
				m := c08Mutate(r, b)
				x.c.Eval(x.total(m, cfg, lvl, c08Versions[len(m)%2]))
				l.Count("mutations_frames", 1)
			}
			// two valid frames back to back, the second one cut
			o := corpus[r.IntN(len(corpus))]
			if k.delim {
				cat := append(append([]byte(nil), b...), o[:r.IntN(len(o)+1)]...)
				x.c.Eval(x.total(cat, cfg, protocol.Encryption1RTT, protocol.Version1))
			}
		}
		x.c.End()
	}

	// (3) RFC-range negative tests
	if next("frames/negative", nil) {
		for _, n := range c08FrameNegatives(l.Rand("frames/negative")) {
			x.expect(n)
			x.c.Eval(fmt.Sprintf("neg|%s|%v", n.rule, n.wantOK))
		}
		x.c.End()
	}

	// seed-independent probes: durations whose conversion to nanoseconds overflows (found by the random corpus;
	// kept here so that the corresponding signatures do not depend on the seed)
	if next("frames/duration-probes", nil) {
		for _, d := range []uint64{1<<51 - 1, 1 << 51, 2305843009213694, 2305843009213695, 1<<61 + 12345, c08MaxVarint} {
			x.c.Eval(x.total(c08Enc(0x02, 100, d, 0, 0), c08FullCfg, protocol.Encryption1RTT, protocol.Version1))
			x.c.Eval(x.total(c08Enc(0x02, 100, d>>17, 0, 0), c08Cfg{true, true, true, 20}, protocol.Encryption1RTT, protocol.Version1))
		}
		for _, d := range []uint64{math.MaxInt64 / 1000, math.MaxInt64/1000 + 1, 18446744073709552, 18446744073709553, 1<<61 + 12345, c08MaxVarint} {
			x.c.Eval(x.total(c08Enc(0xaf, 1, 2, d, 3), c08FullCfg, protocol.Encryption1RTT, protocol.Version1))
		}
		x.c.End()
	}

	// (2) all 256 first bytes x levels x parser configurations, random tails
	nTails := l.Pick(12, 200)
	for _, lvl := range c08Levels {
		for ci, cfg := range c08Cfgs {
			id := fmt.Sprintf("frames/firstbyte/%s/cfg%d", lvl, ci)
			if !next(id, map[string]any{"tails": nTails}) {
				continue
			}
			r := l.Rand(id)
			for fb := 0; fb < 256; fb++ {
				for ti := range nTails {
					var tail []byte
					switch ti % 4 {
					case 0:
						tail = c08Bytes(r, r.IntN(40))
					case 1: // small varints: most bodies parse
						tail = make([]byte, r.IntN(40))
						for i := range tail {
							tail[i] = byte(r.IntN(0x40))
						}
					case 2:
						for range 1 + r.IntN(6) {
							tail = quicvarint.Append(tail, c08V(r, c08MaxVarint))
						}
						tail = append(tail, c08Bytes(r, r.IntN(30))...)
					default:
						tail = make([]byte, r.IntN(30))
						for i := range tail {
							tail[i] = byte(r.IntN(24))
						}
					}
					x.c.Eval(x.total(append([]byte{byte(fb)}, tail...), cfg, lvl, c08Versions[ti%2]))
					l.Count("firstbyte_frames", 1)
				}
			}
			x.c.End()
		}
	}
	// all two-byte frame types
	for _, lvl := range c08Levels {
		id := "frames/type2/" + lvl.String()
		if !next(id, nil) {
			continue
		}
		r := l.Rand(id)
		for tv := uint64(0); tv < 16384; tv++ {
			in := quicvarint.AppendWithLen(nil, tv, 2)
			for range 6 {
				in = append(in, byte(r.IntN(0x40)))
			}
			in = append(in, c08Bytes(r, 16)...)
			cfg := c08Cfgs[int(tv)%len(c08Cfgs)]
			if tv < 0x40 || tv == 0xaf {
				cfg = c08FullCfg
			}
			x.c.Eval(x.total(in, cfg, lvl, protocol.Version1))
			l.Count("type2_frames", 1)
		}
		x.c.End()
	}

	// (2) random strings: sequences of valid frames, mutated sequences, and plain noise
	nBatches := l.Pick(24, 600)
	const batch = 1500
	for bi := range nBatches {
		id := fmt.Sprintf("frames/random/%d", bi)
		if !next(id, map[string]any{"n": batch}) {
			continue
		}
		r := l.Rand(id)
		for range batch {
			var in []byte
			mode := r.IntN(4)
			if mode == 0 {
				in = c08Bytes(r, r.IntN(64))
			} else {
				for range 1 + r.IntN(5) {
					k := kinds[r.IntN(len(kinds))]
					f := c08RandFrame(k, r)
					if f == nil {
						continue
					}
					if b, err := f.Append(nil, protocol.Version1); err == nil && len(b) < 3000 {
						in = append(in, make([]byte, r.IntN(3))...)
						in = append(in, b...)
					}
				}
				if mode >= 2 {
					in = c08Mutate(r, in)
				}
			}
			cfg := c08Cfgs[r.IntN(len(c08Cfgs))]
			if r.IntN(2) == 0 {
				cfg = c08FullCfg
			}
			if r.IntN(4) == 0 {
				cfg.exp = uint8(r.IntN(21))
			}
			lvl := protocol.Encryption1RTT
			if r.IntN(3) == 0 {
				lvl = c08Levels[r.IntN(4)]
			}
			x.c.Eval(x.total(in, cfg, lvl, c08Versions[r.IntN(2)]))
			l.Count("random_frames", 1)
		}
		x.c.End()
	}
}

// c08RandFrame draws one random valid frame of kind k (nil if the draw was inconsistent).
func c08RandFrame(k c08Kind, r *rand.Rand) Frame {
	v := make([]uint64, len(k.caps))
	for i := range v {
		v[i] = c08V(r, k.caps[i])
		if k.caps[i] == c08BigData && r.IntN(8) > 0 {
			v[i] = min(v[i], uint64(r.IntN(200)))
		}
	}
	return k.build(v, r)
}

// c08WidthFP summarises the varint width classes at the start of an encoding (coarse).
func c08WidthFP(b []byte) string {
	s := "|w"
	for i := 0; i < len(b) && len(s) < 8; {
		w := 1 << (b[i] >> 6)
		s += fmt.Sprint(w)
		i += w
	}
	return s
}
