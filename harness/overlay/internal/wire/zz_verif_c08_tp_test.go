package wire

// C08 part 4: transport parameters (both perspectives) and their session ticket form.

import (
	"bytes"
	"fmt"
	"math"
	"math/rand/v2"
	"net/netip"
	"reflect"
	"testing"
	"time"

	"github.com/refraction-networking/uquic/internal/protocol"
	"github.com/refraction-networking/uquic/internal/verif/evlog"
	"github.com/refraction-networking/uquic/quicvarint"
)

type c08Param struct {
	id   uint64
	body []byte
}

func c08EncTP(ps []c08Param) []byte {
	var b []byte
	for _, p := range ps {
		b = quicvarint.Append(b, p.id)
		b = quicvarint.Append(b, uint64(len(p.body)))
		b = append(b, p.body...)
	}
	return b
}

func c08VI(v uint64) []byte { return quicvarint.Append(nil, v) }

// c08ScanTP is the reference scanner for the transport parameter container.
func c08ScanTP(data []byte) ([]c08Param, bool) {
	var out []c08Param
	for len(data) > 0 {
		id, n, err := quicvarint.Parse(data)
		if err != nil {
			return out, false
		}
		data = data[n:]
		ln, n, err := quicvarint.Parse(data)
		if err != nil {
			return out, false
		}
		data = data[n:]
		if ln > uint64(len(data)) {
			return out, false
		}
		out = append(out, c08Param{id, data[:ln]})
		data = data[ln:]
	}
	return out, true
}

const (
	c08TPResetStreamAt = 0x17f7586d2cb571
	c08TPMinAckDelay   = 0xff04de1b
)

var c08TPNumeric = map[uint64]bool{1: true, 3: true, 4: true, 5: true, 6: true, 7: true, 8: true, 9: true, 0xa: true, 0xb: true, 0xe: true, 0x20: true, c08TPMinAckDelay: true}
var c08TPKnown = []uint64{0, 1, 2, 3, 4, 5, 6, 7, 8, 9, 0xa, 0xb, 0xc, 0xd, 0xe, 0xf, 0x10, 0x20, c08TPResetStreamAt, c08TPMinAckDelay}

func c08TPIsKnown(id uint64) bool {
	for _, k := range c08TPKnown {
		if k == id {
			return true
		}
	}
	return false
}

// c08RefTPReject returns the RFC rule that obliges a receiver to reject, or "".
func c08RefTPReject(ps []c08Param, structOK bool, sentBy protocol.Perspective, ticket bool) string {
	if !structOK {
		return "truncated"
	}
	seen := map[uint64]bool{}
	maxAckDelayMS := uint64(25)
	var minAckDelayUS uint64
	haveMin := false
	for _, p := range ps {
		if c08TPIsKnown(p.id) {
			if seen[p.id] {
				return "duplicate"
			}
			seen[p.id] = true
		}
		client := sentBy == protocol.PerspectiveClient
		if c08TPNumeric[p.id] {
			v, n, err := quicvarint.Parse(p.body)
			if err != nil || n != len(p.body) {
				return "numeric-length"
			}
			switch p.id {
			case 8, 9:
				if v > 1<<60 {
					return "initial-max-streams-gt-2^60"
				}
			case 3:
				if v < 1200 {
					return "max-udp-payload-size-lt-1200"
				}
			case 0xa:
				if v > 20 {
					return "ack-delay-exponent-gt-20"
				}
			case 0xb:
				if v >= 1<<14 {
					return "max-ack-delay-ge-2^14"
				}
				maxAckDelayMS = v
			case 0xe:
				if v < 2 {
					return "active-connection-id-limit-lt-2"
				}
			case c08TPMinAckDelay:
				minAckDelayUS, haveMin = v, true
			}
			continue
		}
		switch p.id {
		case 0xc, c08TPResetStreamAt:
			if len(p.body) != 0 {
				return "flag-with-value"
			}
		case 2:
			if client {
				return "client-sent-stateless-reset-token"
			}
			if len(p.body) != 16 {
				return "stateless-reset-token-length"
			}
		case 0:
			if client {
				return "client-sent-original-destination-connection-id"
			}
			if len(p.body) > 20 {
				return "connid-len-gt-20"
			}
		case 0x10:
			if client {
				return "client-sent-retry-source-connection-id"
			}
			if len(p.body) > 20 {
				return "connid-len-gt-20"
			}
		case 0xf:
			if len(p.body) > 20 {
				return "connid-len-gt-20"
			}
		case 0xd:
			if client {
				return "client-sent-preferred-address"
			}
			if len(p.body) < 41 || int(p.body[24]) > 20 || len(p.body) != 41+int(p.body[24]) {
				return "preferred-address-format"
			}
		}
	}
	if haveMin && minAckDelayUS > maxAckDelayMS*1000 {
		return "min-ack-delay-gt-max-ack-delay"
	}
	if !ticket {
		if !seen[0xf] {
			return "missing-initial-source-connection-id"
		}
		if sentBy == protocol.PerspectiveServer && !seen[0] {
			return "missing-original-destination-connection-id"
		}
	}
	return ""
}

// c08ValidateTP checks the result of a successful Unmarshal against the RFC ranges.
func c08ValidateTP(p *TransportParameters, sentBy protocol.Perspective) string {
	switch {
	case p.AckDelayExponent > 20:
		return "ack-delay-exponent-gt-20"
	case p.MaxAckDelay < 0 || p.MaxAckDelay >= (1<<14)*time.Millisecond:
		return "max-ack-delay-ge-2^14"
	case p.MaxUDPPayloadSize < 1200:
		return "max-udp-payload-size-lt-1200"
	case p.ActiveConnectionIDLimit < 2:
		return "active-connection-id-limit-lt-2"
	case uint64(p.MaxBidiStreamNum) > 1<<60 || uint64(p.MaxUniStreamNum) > 1<<60:
		return "initial-max-streams-gt-2^60"
	case p.MaxIdleTimeout < 0:
		return "negative-max-idle-timeout"
	case p.MinAckDelay != nil && (*p.MinAckDelay < 0 || *p.MinAckDelay > p.MaxAckDelay):
		return "min-ack-delay-gt-max-ack-delay"
	}
	if sentBy == protocol.PerspectiveClient {
		switch {
		case p.StatelessResetToken != nil:
			return "client-sent-stateless-reset-token"
		case p.PreferredAddress != nil:
			return "client-sent-preferred-address"
		case p.RetrySourceConnectionID != nil:
			return "client-sent-retry-source-connection-id"
		case p.OriginalDestinationConnectionID.Len() > 0:
			return "client-sent-original-destination-connection-id"
		}
	}
	if p.PreferredAddress != nil && (p.PreferredAddress.ConnectionID.Len() > 20) {
		return "connid-len-gt-20"
	}
	return ""
}

func c08TPDiff(a, b *TransportParameters) string {
	if reflect.DeepEqual(a, b) {
		return ""
	}
	va, vb := reflect.ValueOf(*a), reflect.ValueOf(*b)
	for i := 0; i < va.NumField(); i++ {
		if !reflect.DeepEqual(va.Field(i).Interface(), vb.Field(i).Interface()) {
			fa, fb := va.Field(i), vb.Field(i)
			if fa.Kind() == reflect.Ptr && !fa.IsNil() {
				fa = fa.Elem()
			}
			if fb.Kind() == reflect.Ptr && !fb.IsNil() {
				fb = fb.Elem()
			}
			return fmt.Sprintf("%s: %v vs %v", va.Type().Field(i).Name, fa.Interface(), fb.Interface())
		}
	}
	return "differ"
}

// tpTotal is oracle (2)+(3) for one byte string under one perspective.
func (x *c08X) tpTotal(data []byte, sentBy protocol.Perspective) string {
	trace := map[string]any{"hex": c08Hex(data), "sent_by": sentBy.String()}
	fp := "tp|" + sentBy.String() + "|"
	ps, structOK := c08ScanTP(data)
	must := c08RefTPReject(ps, structOK, sentBy, false)
	pv, st := c08Guard(func() {
		p := &TransportParameters{}
		err := p.Unmarshal(data, sentBy)
		if err != nil {
			fp += "rej:" + must
			return
		}
		x.l.Count("parsed_ok_tp_"+sentBy.String(), 1)
		if must != "" {
			x.viol("C08|tp|out-of-range-accepted|"+must, "Unmarshal accepted: "+p.String(), trace)
			fp += "bad"
			return
		}
		if bad := c08ValidateTP(p, sentBy); bad != "" {
			x.viol("C08|tp|out-of-range-accepted|"+bad, "Unmarshal produced: "+p.String(), trace)
		}
		_ = p.String()
		out := p.Marshal(sentBy)
		p2 := &TransportParameters{}
		if err := p2.Unmarshal(out, sentBy); err != nil {
			x.viol("C08|tp|reencoded-does-not-parse", fmt.Sprintf("%s re-marshalled to %x: %v", p, out, err), trace)
			return
		}
		if d := c08TPDiff(p, p2); d != "" {
			sig := "C08|tp|reparse-differs"
			if p.MaxIdleTimeout == 0 && p2.MaxIdleTimeout != 0 {
				// absent parses to 0 ("no idle timeout"), which Marshal writes as an explicit 0, which parses to MinRemoteIdleTimeout
				sig += "|max_idle_timeout-zero"
			} else if p.MaxIdleTimeout != p2.MaxIdleTimeout {
				sig += "|max_idle_timeout-overflow"
			}
			x.viol(sig, fmt.Sprintf("parse(Marshal(parse(b))) != parse(b): %s (re-marshalled %x)", d, out), trace)
		}
		fp += fmt.Sprintf("ok:n%d", min(len(ps), 24))
	})
	if pv != nil {
		x.viol("C08|tp|panic|"+c08PanicClass(pv, st), fmt.Sprintf("panic: %v", pv), map[string]any{"hex": c08Hex(data), "sent_by": sentBy.String(), "stack": st})
		fp += "panic"
	}
	return fp
}

func (x *c08X) tpTicketTotal(data []byte) string {
	trace := map[string]any{"hex": c08Hex(data), "form": "session ticket"}
	fp := "tpticket|"
	must := "truncated"
	if ver, n, err := quicvarint.Parse(data); err == nil {
		if ver != 1 {
			must = "ticket-version"
		} else {
			ps, ok := c08ScanTP(data[n:])
			must = c08RefTPReject(ps, ok, protocol.PerspectiveServer, true)
		}
	}
	pv, st := c08Guard(func() {
		p := &TransportParameters{}
		if err := p.UnmarshalFromSessionTicket(data); err != nil {
			fp += "rej:" + must
			return
		}
		x.l.Count("parsed_ok_tp_ticket", 1)
		if must != "" {
			x.viol("C08|tp|out-of-range-accepted|ticket|"+must, "UnmarshalFromSessionTicket accepted: "+p.String(), trace)
			return
		}
		out := p.MarshalForSessionTicket(nil)
		p2 := &TransportParameters{}
		if err := p2.UnmarshalFromSessionTicket(out); err != nil {
			x.viol("C08|tp|reencoded-does-not-parse|ticket", fmt.Sprintf("%x: %v", out, err), trace)
			return
		}
		for _, d := range c08TicketDiff(p, p2) {
			x.viol("C08|tp|reparse-differs|ticket", d, trace)
		}
		fp += "ok"
	})
	if pv != nil {
		x.viol("C08|tp|panic|"+c08PanicClass(pv, st), fmt.Sprintf("panic: %v", pv), map[string]any{"hex": c08Hex(data), "form": "session ticket", "stack": st})
		fp += "panic"
	}
	return fp
}

func c08TicketDiff(a, b *TransportParameters) []string {
	var out []string
	chk := func(name string, x, y any) {
		if !reflect.DeepEqual(x, y) {
			out = append(out, fmt.Sprintf("%s: %v vs %v", name, x, y))
		}
	}
	chk("InitialMaxStreamDataBidiLocal", a.InitialMaxStreamDataBidiLocal, b.InitialMaxStreamDataBidiLocal)
	chk("InitialMaxStreamDataBidiRemote", a.InitialMaxStreamDataBidiRemote, b.InitialMaxStreamDataBidiRemote)
	chk("InitialMaxStreamDataUni", a.InitialMaxStreamDataUni, b.InitialMaxStreamDataUni)
	chk("InitialMaxData", a.InitialMaxData, b.InitialMaxData)
	chk("MaxBidiStreamNum", a.MaxBidiStreamNum, b.MaxBidiStreamNum)
	chk("MaxUniStreamNum", a.MaxUniStreamNum, b.MaxUniStreamNum)
	chk("ActiveConnectionIDLimit", a.ActiveConnectionIDLimit, b.ActiveConnectionIDLimit)
	chk("MaxDatagramFrameSize", a.MaxDatagramFrameSize, b.MaxDatagramFrameSize)
	chk("EnableResetStreamAt", a.EnableResetStreamAt, b.EnableResetStreamAt)
	return out
}

func (x *c08X) tpFuzzHook(data []byte) {
	if h := C08FuzzHooks["transportparameters"]; h != nil {
		for _, pre := range []byte{0, 1, 2} {
			in := append([]byte{pre}, data...)
			if pv, st := c08Guard(func() { h(in) }); pv != nil {
				x.viol("C08|repofuzz-transportparameters|panic|"+c08FuzzClass(pv), fmt.Sprintf("fuzzing/transportparameters.Fuzz panicked: %v", pv), map[string]any{"fuzz_input_hex": c08Hex(in), "stack": st})
			}
			x.l.Count("repofuzz_transportparameters_calls", 1)
		}
	}
}

// ---------------------------------------------------------------------------------------
// generator

// numeric fields: index -> (parameter id, cap)
var c08TPNumFields = []struct {
	id  uint64
	lo  uint64
	cap uint64
}{
	{5, 0, c08MaxVarint}, {6, 0, c08MaxVarint}, {7, 0, c08MaxVarint}, {4, 0, c08MaxVarint},
	{8, 0, 1 << 60}, {9, 0, 1 << 60},
	{1, 5000, math.MaxInt64 / 1000000}, // max_idle_timeout in ms (values below MinRemoteIdleTimeout are raised by the parser by design)
	{3, 1200, c08MaxVarint},
	{0xb, 0, 1<<14 - 1},
	{0xa, 0, 20},
	{0xe, 2, c08MaxVarint},
	{0x20, 0, c08MaxVarint},
	{c08TPMinAckDelay, 0, (1<<14 - 1) * 1000},
}

func c08GenTP(r *rand.Rand, pers protocol.Perspective, fix int, val uint64) *TransportParameters {
	v := make([]uint64, len(c08TPNumFields))
	for i, f := range c08TPNumFields {
		v[i] = c08V(r, f.cap)
		if i == fix {
			v[i] = val
		}
		if v[i] < f.lo {
			v[i] = f.lo + r.Uint64N(3)
		}
	}
	p := &TransportParameters{
		InitialMaxStreamDataBidiLocal:  protocol.ByteCount(v[0]),
		InitialMaxStreamDataBidiRemote: protocol.ByteCount(v[1]),
		InitialMaxStreamDataUni:        protocol.ByteCount(v[2]),
		InitialMaxData:                 protocol.ByteCount(v[3]),
		MaxBidiStreamNum:               protocol.StreamNum(v[4]),
		MaxUniStreamNum:                protocol.StreamNum(v[5]),
		MaxIdleTimeout:                 time.Duration(v[6]) * time.Millisecond,
		MaxUDPPayloadSize:              protocol.ByteCount(v[7]),
		MaxAckDelay:                    time.Duration(v[8]) * time.Millisecond,
		AckDelayExponent:               uint8(v[9]),
		ActiveConnectionIDLimit:        v[10],
		MaxDatagramFrameSize:           protocol.ByteCount(v[11]),
		DisableActiveMigration:         r.IntN(2) == 0,
		EnableResetStreamAt:            r.IntN(2) == 0,
		InitialSourceConnectionID:      c08CID(r, []int{0, 1, 8, 20, r.IntN(21)}[r.IntN(5)]),
	}
	if fix != 11 && r.IntN(3) == 0 {
		p.MaxDatagramFrameSize = protocol.InvalidByteCount
	}
	if fix != 7 && r.IntN(4) == 0 {
		p.MaxUDPPayloadSize = 0 // omitted; the receiver then assumes the maximum
	}
	if fix == 12 || r.IntN(2) == 0 {
		mad := time.Duration(min(v[12], v[8]*1000)) * time.Microsecond
		if fix == 12 {
			p.MaxAckDelay = max(p.MaxAckDelay, (time.Duration(v[12])*time.Microsecond+time.Millisecond-1)/time.Millisecond*time.Millisecond)
			mad = time.Duration(v[12]) * time.Microsecond
		}
		p.MinAckDelay = &mad
	}
	if pers == protocol.PerspectiveServer {
		p.OriginalDestinationConnectionID = c08CID(r, []int{0, 1, 8, 20, r.IntN(21)}[r.IntN(5)])
		if r.IntN(2) == 0 {
			var tok protocol.StatelessResetToken
			copy(tok[:], c08Bytes(r, 16))
			p.StatelessResetToken = &tok
		}
		if r.IntN(2) == 0 {
			cid := c08CID(r, []int{0, 1, 8, 20, r.IntN(21)}[r.IntN(5)])
			p.RetrySourceConnectionID = &cid
		}
		if r.IntN(2) == 0 {
			pa := &PreferredAddress{ConnectionID: c08CID(r, []int{1, 8, 20, 1 + r.IntN(20)}[r.IntN(4)])}
			copy(pa.StatelessResetToken[:], c08Bytes(r, 16))
			if r.IntN(3) > 0 {
				var a [4]byte
				copy(a[:], c08Bytes(r, 4))
				a[0] |= 1
				pa.IPv4 = netip.AddrPortFrom(netip.AddrFrom4(a), uint16(1+r.IntN(65535)))
			}
			if r.IntN(3) > 0 {
				var a [16]byte
				copy(a[:], c08Bytes(r, 16))
				a[0] = 0x20
				pa.IPv6 = netip.AddrPortFrom(netip.AddrFrom16(a), uint16(1+r.IntN(65535)))
			}
			p.PreferredAddress = pa
		}
	}
	return p
}

func c08TPExpected(p *TransportParameters) *TransportParameters {
	e := *p
	e.MaxIdleTimeout = max(protocol.MinRemoteIdleTimeout, p.MaxIdleTimeout)
	if p.MaxUDPPayloadSize == 0 {
		e.MaxUDPPayloadSize = protocol.MaxByteCount
	}
	return &e
}

// tpRoundTrip is oracle (1) for one generated parameter set; returns the encoding.
func (x *c08X) tpRoundTrip(p *TransportParameters, pers protocol.Perspective) []byte {
	trace := map[string]any{"params": p.String(), "sent_by": pers.String()}
	var out []byte
	pv, st := c08Guard(func() {
		out = p.Marshal(pers)
		trace["hex"] = c08Hex(out)
		ps, ok := c08ScanTP(out)
		if why := c08RefTPReject(ps, ok, pers, false); why != "" {
			x.viol("C08|tp|encoder-produces-invalid|"+why, "Marshal output violates "+why, trace)
		}
		for _, q := range ps {
			if c08TPIsKnown(q.id) {
				x.l.Count(fmt.Sprintf("gen_tp_%#x", q.id), 1)
				if c08TPNumeric[q.id] {
					x.l.Count(fmt.Sprintf("cov_tp_%#x_w%d", q.id, len(q.body)), 1)
				}
			} else {
				x.l.Count("gen_tp_grease", 1)
			}
		}
		got := &TransportParameters{}
		if err := got.Unmarshal(out, pers); err != nil {
			x.viol("C08|tp|valid-rejected", err.Error(), trace)
			return
		}
		if d := c08TPDiff(c08TPExpected(p), got); d != "" {
			x.viol("C08|tp|roundtrip-differs", d, trace)
		}
		// session ticket form
		tb := p.MarshalForSessionTicket(nil)
		tp := &TransportParameters{}
		if err := tp.UnmarshalFromSessionTicket(tb); err != nil {
			x.viol("C08|tp|valid-rejected|ticket", err.Error(), map[string]any{"params": p.String(), "hex": c08Hex(tb)})
		} else {
			for _, d := range c08TicketDiff(p, tp) {
				x.viol("C08|tp|roundtrip-differs|ticket", d, map[string]any{"params": p.String(), "hex": c08Hex(tb)})
			}
			if !bytes.Equal(tb, tp.MarshalForSessionTicket(nil)) {
				x.viol("C08|tp|reencode-not-stable|ticket", "", map[string]any{"params": p.String(), "hex": c08Hex(tb)})
			}
		}
	})
	if pv != nil {
		x.viol("C08|tp|panic|"+c08PanicClass(pv, st), fmt.Sprintf("panic on generated parameters: %v", pv), trace)
	}
	return out
}

// ---------------------------------------------------------------------------------------
// RFC-range negative tests, one family per rule

type c08TPNeg struct {
	rule   string
	pers   protocol.Perspective
	ps     []c08Param
	wantOK bool
}

func c08TPNegatives(r *rand.Rand) []c08TPNeg {
	var out []c08TPNeg
	base := func(pers protocol.Perspective) []c08Param {
		ps := []c08Param{{0xf, c08Bytes(r, 8)}}
		if pers == protocol.PerspectiveServer {
			ps = append(ps, c08Param{0, c08Bytes(r, 8)})
		}
		return ps
	}
	both := []protocol.Perspective{protocol.PerspectiveClient, protocol.PerspectiveServer}
	add := func(rule string, pers protocol.Perspective, ok bool, extra ...c08Param) {
		ps := append(base(pers), extra...)
		r.Shuffle(len(ps), func(i, j int) { ps[i], ps[j] = ps[j], ps[i] })
		out = append(out, c08TPNeg{rule, pers, ps, ok})
	}
	num := func(id, v uint64) c08Param { return c08Param{id, c08VI(v)} }
	for _, pers := range both {
		add("baseline", pers, true)
		for _, id := range []uint64{8, 9} {
			add("initial-max-streams-gt-2^60", pers, true, num(id, 1<<60))
			add("initial-max-streams-gt-2^60", pers, false, num(id, 1<<60+1))
			add("initial-max-streams-gt-2^60", pers, false, num(id, c08MaxVarint))
			add("initial-max-streams-gt-2^60", pers, false, num(id, 1<<60+1+r.Uint64N(c08MaxVarint-1<<60)))
		}
		add("ack-delay-exponent-gt-20", pers, true, num(0xa, 20))
		for _, v := range []uint64{21, 22, 63, 64, 255, 256, 1 << 30, c08MaxVarint} {
			add("ack-delay-exponent-gt-20", pers, false, num(0xa, v))
		}
		add("max-ack-delay-ge-2^14", pers, true, num(0xb, 1<<14-1))
		for _, v := range []uint64{1 << 14, 1<<14 + 1, 1 << 30, c08MaxVarint} {
			add("max-ack-delay-ge-2^14", pers, false, num(0xb, v))
		}
		add("active-connection-id-limit-lt-2", pers, true, num(0xe, 2))
		add("active-connection-id-limit-lt-2", pers, false, num(0xe, 0))
		add("active-connection-id-limit-lt-2", pers, false, num(0xe, 1))
		add("active-connection-id-limit-lt-2", pers, false, c08Param{0xe, quicvarint.AppendWithLen(nil, 1, 4)})
		add("max-udp-payload-size-lt-1200", pers, true, num(3, 1200))
		for _, v := range []uint64{0, 1, 63, 64, 1199} {
			add("max-udp-payload-size-lt-1200", pers, false, num(3, v))
		}
		// numeric parameters whose length field does not match the varint
		for id := range c08TPNumeric {
			add("numeric-length", pers, false, c08Param{id, nil})
			add("numeric-length", pers, false, c08Param{id, append(c08VI(100), 0)})
			add("numeric-length", pers, false, c08Param{id, []byte{0x40}})
		}
		add("flag-with-value", pers, false, c08Param{0xc, []byte{0}})
		add("flag-with-value", pers, true, c08Param{0xc, nil})
		add("flag-with-value", pers, false, c08Param{c08TPResetStreamAt, []byte{1}})
		add("min-ack-delay-gt-max-ack-delay", pers, false, num(c08TPMinAckDelay, 25001))
		add("min-ack-delay-gt-max-ack-delay", pers, true, num(c08TPMinAckDelay, 25000))
		add("min-ack-delay-gt-max-ack-delay", pers, false, num(c08TPMinAckDelay, 1001), num(0xb, 1))
		add("min-ack-delay-gt-max-ack-delay", pers, false, num(c08TPMinAckDelay, c08MaxVarint))
		// duplicates of every known parameter (value-valid ones)
		valid := map[uint64][]byte{0: c08Bytes(r, 8), 1: c08VI(30000), 2: c08Bytes(r, 16), 3: c08VI(1400), 4: c08VI(1), 5: c08VI(1), 6: c08VI(1), 7: c08VI(1), 8: c08VI(1), 9: c08VI(1),
			0xa: c08VI(4), 0xb: c08VI(30), 0xc: nil, 0xe: c08VI(4), 0xf: c08Bytes(r, 8), 0x10: c08Bytes(r, 8), 0x20: c08VI(1200), c08TPResetStreamAt: nil, c08TPMinAckDelay: c08VI(100)}
		for id, body := range valid {
			if pers == protocol.PerspectiveClient && (id == 0 || id == 2 || id == 0x10) {
				continue
			}
			ps := []c08Param{{id, body}, {id, body}}
			if id == 0 || id == 0xf {
				ps = ps[:1] // the base set already has one
			}
			add("duplicate", pers, false, ps...)
		}
		// connection IDs longer than 20 bytes
		for _, n := range []int{21, 22, 64, 255} {
			out = append(out, c08TPNeg{"connid-len-gt-20", pers, append(base(pers)[1:], c08Param{0xf, c08Bytes(r, n)}), false})
		}
		// missing mandatory parameters
		out = append(out, c08TPNeg{"missing-initial-source-connection-id", pers, base(pers)[1:], false})
	}
	srv, cli := protocol.PerspectiveServer, protocol.PerspectiveClient
	out = append(out, c08TPNeg{"missing-original-destination-connection-id", srv, []c08Param{{0xf, c08Bytes(r, 8)}}, false})
	for _, n := range []int{21, 22, 255} {
		out = append(out, c08TPNeg{"connid-len-gt-20", srv, []c08Param{{0xf, c08Bytes(r, 8)}, {0, c08Bytes(r, n)}}, false})
		add("connid-len-gt-20", srv, false, c08Param{0x10, c08Bytes(r, n)})
	}
	add("connid-len-gt-20", srv, true, c08Param{0x10, c08Bytes(r, 20)})
	add("connid-len-gt-20", srv, true, c08Param{0x10, nil})
	pa := func(cidLen, have int) c08Param {
		b := c08Bytes(r, 24)
		b = append(b, byte(cidLen))
		return c08Param{0xd, append(b, c08Bytes(r, have)...)}
	}
	add("preferred-address-format", srv, true, pa(8, 24))
	add("preferred-address-format", srv, true, pa(20, 36))
	add("preferred-address-format", srv, false, pa(21, 37))
	add("preferred-address-format", srv, false, pa(255, 255+16))
	add("preferred-address-format", srv, false, pa(8, 23))
	add("preferred-address-format", srv, false, pa(8, 25))
	add("preferred-address-format", srv, false, c08Param{0xd, c08Bytes(r, 10)})
	add("stateless-reset-token-length", srv, true, c08Param{2, c08Bytes(r, 16)})
	add("stateless-reset-token-length", srv, false, c08Param{2, c08Bytes(r, 15)})
	add("stateless-reset-token-length", srv, false, c08Param{2, c08Bytes(r, 17)})
	add("stateless-reset-token-length", srv, false, c08Param{2, nil})
	// perspective-forbidden parameters
	out = append(out, c08TPNeg{"client-sent-original-destination-connection-id", cli, []c08Param{{0xf, c08Bytes(r, 8)}, {0, c08Bytes(r, 8)}}, false})
	out = append(out, c08TPNeg{"client-sent-original-destination-connection-id", cli, []c08Param{{0, nil}, {0xf, c08Bytes(r, 8)}}, false})
	add("client-sent-stateless-reset-token", cli, false, c08Param{2, c08Bytes(r, 16)})
	add("client-sent-preferred-address", cli, false, pa(8, 24))
	add("client-sent-retry-source-connection-id", cli, false, c08Param{0x10, c08Bytes(r, 8)})
	add("client-sent-retry-source-connection-id", cli, false, c08Param{0x10, nil})
	return out
}

func TestVerifC08TransportParams(t *testing.T) {
	l := evlog.Open("C08")
	defer l.Close()
	x := &c08X{l: l, seen: map[string]int{}}
	idx := 0
	next := func(id string, in map[string]any) bool {
		mine := l.Mine(idx)
		idx++
		if !mine {
			return false
		}
		x.c = l.Begin(id, in)
		return x.c != nil
	}
	both := []protocol.Perspective{protocol.PerspectiveClient, protocol.PerspectiveServer}
	nMut := l.Pick(48, 200)
	nRandom := l.Pick(150, 2500)
	totalAll := func(data []byte) {
		for _, pers := range both {
			x.c.Eval(x.tpTotal(data, pers))
		}
		x.c.Eval(x.tpTicketTotal(data))
		x.tpFuzzHook(data)
	}
	for _, pers := range both {
		for part := range 4 {
			id := fmt.Sprintf("tp/rt/%s/%d", pers, part)
			if !next(id, nil) {
				continue
			}
			r := l.Rand(id)
			var ps []*TransportParameters
			for i, f := range c08TPNumFields {
				if i%4 != part {
					continue
				}
				vals := append([]uint64(nil), c08Bnd...)
				vals = append(vals, f.cap, f.cap-1, f.lo, f.lo+1, 20, 21, 1199, 1200, 1201, 1<<14-1, 1<<60-1, 1<<60)
				for _, b := range vals {
					if b >= f.lo && b <= f.cap {
						ps = append(ps, c08GenTP(r, pers, i, b))
					}
				}
			}
			for range nRandom / 4 {
				ps = append(ps, c08GenTP(r, pers, -1, 0))
			}
			for pi, p := range ps {
				out := x.tpRoundTrip(p, pers)
				x.c.Eval(fmt.Sprintf("rt|tp|%s|len%d|pa%v|min%v", pers, len(out)/16, p.PreferredAddress != nil, p.MinAckDelay != nil))
				if out == nil || pi%3 != 0 {
					continue
				}
				for _, cut := range c08Truncations(r, len(out)) {
					totalAll(out[:cut])
					l.Count("truncations_tp", 1)
				}
				for range nMut {
					totalAll(c08Mutate(r, out))
					l.Count("mutations_tp", 1)
				}
				// the session ticket form
				tb := p.MarshalForSessionTicket(nil)
				for cut := range len(tb) {
					x.c.Eval(x.tpTicketTotal(tb[:cut]))
				}
				for range nMut / 4 {
					m := c08Mutate(r, tb)
					x.c.Eval(x.tpTicketTotal(m))
					x.tpFuzzHook(m)
				}
			}
			x.c.End()
		}
	}
	if next("tp/negative", nil) {
		for _, n := range c08TPNegatives(l.Rand("tp/negative")) {
			data := c08EncTP(n.ps)
			trace := map[string]any{"hex": c08Hex(data), "rule": n.rule, "sent_by": n.pers.String()}
			p := &TransportParameters{}
			var err error
			if pv, st := c08Guard(func() { err = p.Unmarshal(data, n.pers) }); pv != nil {
				x.viol("C08|tp|panic|"+c08PanicClass(pv, st), fmt.Sprint(pv), trace)
				continue
			}
			if err == nil && !n.wantOK {
				x.viol("C08|tp|out-of-range-accepted|"+n.rule, "accepted: "+p.String(), trace)
			}
			if err != nil && n.wantOK {
				x.viol("C08|tp|valid-rejected|"+n.rule, err.Error(), trace)
			}
			l.Count("negative_tests_tp", 1)
			x.c.Eval(fmt.Sprintf("neg|tp|%s|%s|%v", n.rule, n.pers, n.wantOK))
			totalAll(data)
		}
		x.c.End()
	}
	// seed-independent probes for max_idle_timeout: explicit 0, and values whose conversion to nanoseconds overflows
	if next("tp/idle-timeout-probes", nil) {
		for _, pers := range both {
			for _, v := range []uint64{0, 1, 4999, 5000, math.MaxInt64 / 1000000, math.MaxInt64/1000000 + 1, 18446744073710, 18446744073710 + 5001, 18446744073710 + 123456, 1<<61 + 12345, c08MaxVarint} {
				for _, with := range []bool{true, false} {
					ps := []c08Param{{0xf, []byte{1, 2, 3, 4}}}
					if pers == protocol.PerspectiveServer {
						ps = append(ps, c08Param{0, []byte{5, 6, 7, 8}})
					}
					if with {
						ps = append(ps, c08Param{1, c08VI(v)})
					}
					x.c.Eval(x.tpTotal(c08EncTP(ps), pers))
				}
			}
		}
		x.c.End()
	}

	// random parameter containers: random ids (biased to the known ones) with random bodies
	for bi := range l.Pick(12, 300) {
		id := fmt.Sprintf("tp/random/%d", bi)
		if !next(id, nil) {
			continue
		}
		r := l.Rand(id)
		for range 1000 {
			var ps []c08Param
			if r.IntN(3) > 0 {
				ps = append(ps, c08Param{0xf, c08Bytes(r, r.IntN(22))})
			}
			if r.IntN(2) > 0 {
				ps = append(ps, c08Param{0, c08Bytes(r, r.IntN(22))})
			}
			for range r.IntN(8) {
				pid := c08TPKnown[r.IntN(len(c08TPKnown))]
				if r.IntN(6) == 0 {
					pid = c08V(r, c08MaxVarint)
				}
				var body []byte
				switch r.IntN(4) {
				case 0:
					body = c08Bytes(r, r.IntN(44))
				case 1:
					body = nil
				default:
					body = c08VI(c08V(r, c08MaxVarint))
					if r.IntN(4) == 0 {
						body = c08VI(uint64(r.IntN(3000)))
					}
				}
				ps = append(ps, c08Param{pid, body})
			}
			r.Shuffle(len(ps), func(i, j int) { ps[i], ps[j] = ps[j], ps[i] })
			data := c08EncTP(ps)
			switch r.IntN(6) {
			case 0:
				data = c08Bytes(r, r.IntN(48))
			case 1:
				data = c08Mutate(r, data)
			case 2:
				data = append([]byte{1}, data...) // a session ticket version prefix
			}
			totalAll(data)
			l.Count("random_tp", 1)
		}
		x.c.End()
	}
}
