package flowcontrol

// C04 — flow control: senders stay within advertised credit, receivers enforce it.
//
// Runtime monitor, layers (a) and (d) of DESIGN.md §C04.
//
// (a) TestVerifC04FC: random operation histories on one real connection flow controller and up to
//     8 real stream flow controllers next to shadow counters.  The connection controller is wrapped
//     by c04ConnWrap, which only counts/records calls and forwards them unchanged; the stream
//     controllers talk to the wrapper, so every byte of connection-level read credit is observed.
// (d) TestVerifC04E4 (built with -race): goroutines hammer one connection controller and 4 stream
//     controllers in real time, respecting the locking discipline of the real callers (receive side
//     of one stream serialised by the stream mutex, send side confined to one goroutine, everything
//     on the connection controller fully concurrent).  The call/return history at the API boundary,
//     stamped by one logical monotonic clock, is checked by porcupine against the counter model,
//     one partition for the connection controller and one per stream controller.
//
// What the oracle demands is only what the property states:
//   - SendWindowSize == max(0, min(stream limit - stream sent, connection limit - connection sent))
//     where the limits are the largest values ever given (stale / duplicate updates change nothing);
//   - a controller reports "newly blocked" at most once per distinct limit (and the connection
//     controller names the limit in force);
//   - an offset is refused iff it exceeds the largest limit advertised so far (initial window or a
//     non-zero GetWindowUpdate result) on the stream or, summed over streams, on the connection; a
//     refusal is a FLOW_CONTROL_ERROR;
//   - non-zero GetWindowUpdate results never decrease and equal consumed + w with
//     (window size seen so far) <= w <= configured maximum window;
//   - connection-level read credit == sum over streams of (bytes read + bytes abandoned), after
//     every operation.

import (
	"errors"
	"fmt"
	"math/rand/v2"
	"runtime"
	"sort"
	"sync"
	"sync/atomic"
	"testing"
	"time"

	"github.com/anishathalye/porcupine"

	"github.com/refraction-networking/uquic/internal/monotime"
	"github.com/refraction-networking/uquic/internal/protocol"
	"github.com/refraction-networking/uquic/internal/qerr"
	"github.com/refraction-networking/uquic/internal/utils"
	"github.com/refraction-networking/uquic/internal/verif/evlog"
)

type c04bc = protocol.ByteCount

// c04ConnExt is the part of the connection controller that stream controllers use internally.
type c04ConnExt interface {
	EnsureMinimumWindowSize(protocol.ByteCount, monotime.Time)
	IncrementHighestReceived(protocol.ByteCount, monotime.Time) error
}

// c04ConnWrap forwards everything to the real connection flow controller, counts the read credit
// and (for E4) records call/return events.
type c04ConnWrap struct {
	ConnectionFlowController
	ext c04ConnExt

	credit      atomic.Int64
	creditCalls atomic.Int64
	incCalls    atomic.Int64
	ensureCalls atomic.Int64
	lastIncErr  error // written only by the (single) receiving goroutine

	rec *c04Rec // nil in the sequential monitor
}

func newC04ConnWrap(recvW, maxW c04bc, allow func(c04bc) bool, rtt *utils.RTTStats) *c04ConnWrap {
	real := NewConnectionFlowController(recvW, maxW, allow, rtt, utils.DefaultLogger)
	return &c04ConnWrap{ConnectionFlowController: real, ext: real}
}

func (w *c04ConnWrap) AddBytesRead(n protocol.ByteCount) bool {
	w.credit.Add(int64(n))
	w.creditCalls.Add(1)
	if w.rec == nil {
		return w.ConnectionFlowController.AddBytesRead(n)
	}
	call := w.rec.tick()
	r := w.ConnectionFlowController.AddBytesRead(n)
	ret := w.rec.tick()
	w.rec.addConn(porcupine.Operation{Input: c04In{K: c04KRead, N: int64(n)}, Call: call, Output: c04Out{}, Return: ret})
	return r
}

func (w *c04ConnWrap) GetWindowUpdate(now monotime.Time) protocol.ByteCount {
	if w.rec == nil {
		return w.ConnectionFlowController.GetWindowUpdate(now)
	}
	call := w.rec.tick()
	o := w.ConnectionFlowController.GetWindowUpdate(now)
	ret := w.rec.tick()
	if o != 0 { // a zero result is a no-op of the model; leaving it out keeps histories short
		w.rec.addConn(porcupine.Operation{Input: c04In{K: c04KWU}, Call: call, Output: c04Out{O: int64(o)}, Return: ret})
	}
	return o
}

func (w *c04ConnWrap) EnsureMinimumWindowSize(inc protocol.ByteCount, now monotime.Time) {
	w.ensureCalls.Add(1)
	w.ext.EnsureMinimumWindowSize(inc, now)
}

func (w *c04ConnWrap) IncrementHighestReceived(inc protocol.ByteCount, now monotime.Time) error {
	w.incCalls.Add(1)
	if w.rec == nil {
		return w.ext.IncrementHighestReceived(inc, now)
	}
	call := w.rec.tick()
	err := w.ext.IncrementHighestReceived(inc, now)
	ret := w.rec.tick()
	w.lastIncErr = err
	w.rec.addConn(porcupine.Operation{Input: c04In{K: c04KInc, N: int64(inc)}, Call: call, Output: c04Out{E: c04ErrClass(err)}, Return: ret})
	return err
}

func c04ErrClass(err error) string {
	if err == nil {
		return "ok"
	}
	var te *qerr.TransportError
	if errors.As(err, &te) && te.ErrorCode == qerr.FlowControlError {
		return "fce"
	}
	return "other"
}

// ---------------------------------------------------------------------------------------
// (a) sequential histories against shadow counters

type c04Op struct {
	K    string
	S    int    // stream index, -1 = connection
	A, B int64  // arguments
	R, Q int64  // results
	E    string `json:",omitempty"`
}

type c04SStream struct {
	fc        StreamFlowController
	sendLimit c04bc
	sent      c04bc
	reported  map[c04bc]bool

	initW, maxW c04bc
	adv, ws     c04bc
	highest     c04bc
	read        c04bc // bytes read + bytes abandoned == what must have been credited
	final       bool
	abandoned   bool
}

type c04Cfg struct {
	Scale     int
	Streams   int
	ConnW     int64
	ConnMaxW  int64
	RTTns     int64
	Allow     int // 0 always, 1 never, 2 random
	ZeroRTT   bool
	Ops       int
	StreamCfg [][3]int64 // recv window, max recv window, initial send window
}

type c04Run struct {
	rng  *rand.Rand
	cfg  c04Cfg
	conn *c04ConnWrap
	rtt  *utils.RTTStats
	now  monotime.Time

	cSendLimit, cSent c04bc
	cReported         map[c04bc]bool
	cAdv, cWs         c04bc
	cHighest          c04bc

	streams []*c04SStream
	ops     []c04Op
	sig     string
	err     string
	ended   string // "", "fce-stream", "fce-conn"

	allowCalls, allowYes int
	n                    map[string]int
}

func (r *c04Run) fail(sig, f string, a ...any) {
	if r.err == "" {
		r.sig = sig
		r.err = fmt.Sprintf(f, a...)
	}
}

func (r *c04Run) log(op c04Op) { r.ops = append(r.ops, op) }

func (r *c04Run) credited() c04bc {
	var s c04bc
	for _, st := range r.streams {
		s += st.read
	}
	return s
}

func c04Pick(rng *rand.Rand, scale int) int64 {
	switch scale {
	case 0:
		return 1 + rng.Int64N(40)
	case 1:
		return 50 + rng.Int64N(2000)
	default:
		return 1<<14 + rng.Int64N(1<<20)
	}
}

func c04MaxOf(rng *rand.Rand, w int64) int64 {
	switch rng.IntN(4) {
	case 3:
		// a maximum below the initial window (nothing in Config forbids it): the window must simply never grow
		return max(1, w-rng.Int64N(w))
	case 0:
		return w
	case 1:
		return w + rng.Int64N(w+1)
	default:
		return w * int64(2+rng.IntN(15))
	}
}

func c04GenCfg(rng *rand.Rand) c04Cfg {
	cfg := c04Cfg{Scale: rng.IntN(3), Streams: 1 + rng.IntN(8), Allow: 0, Ops: 30 + rng.IntN(120)}
	if x := rng.IntN(6); x == 4 {
		cfg.Allow = 1
	} else if x == 5 {
		cfg.Allow = 2
	}
	cfg.ConnW = c04Pick(rng, cfg.Scale) * int64(1+rng.IntN(cfg.Streams))
	cfg.ConnMaxW = c04MaxOf(rng, cfg.ConnW)
	if rng.IntN(5) > 0 {
		// log-uniform between 1 µs and ~2 s
		cfg.RTTns = int64(1000) << rng.IntN(21)
		cfg.RTTns += rng.Int64N(cfg.RTTns)
	}
	cfg.ZeroRTT = rng.IntN(10) == 0
	for i := 0; i < 8; i++ {
		w := c04Pick(rng, cfg.Scale)
		sw := c04Pick(rng, cfg.Scale)
		if rng.IntN(8) == 0 {
			sw = 0
		}
		cfg.StreamCfg = append(cfg.StreamCfg, [3]int64{w, c04MaxOf(rng, w), sw})
	}
	return cfg
}

func newC04Run(rng *rand.Rand, cfg c04Cfg) *c04Run {
	r := &c04Run{rng: rng, cfg: cfg, n: map[string]int{}, cReported: map[c04bc]bool{}}
	r.rtt = utils.NewRTTStats()
	if cfg.RTTns > 0 {
		r.rtt.UpdateRTT(time.Duration(cfg.RTTns), 0)
	}
	r.now = monotime.Time(1_000_000_000 + rng.Int64N(1_000_000_000))
	allow := func(c04bc) bool {
		r.allowCalls++
		ok := cfg.Allow == 0 || (cfg.Allow == 2 && rng.IntN(2) == 0)
		if ok {
			r.allowYes++
		}
		return ok
	}
	r.conn = newC04ConnWrap(c04bc(cfg.ConnW), c04bc(cfg.ConnMaxW), allow, r.rtt)
	r.cAdv, r.cWs = c04bc(cfg.ConnW), c04bc(cfg.ConnW)
	return r
}

func (r *c04Run) openStream() {
	i := len(r.streams)
	sc := r.cfg.StreamCfg[i]
	st := &c04SStream{
		fc:        NewStreamFlowController(protocol.StreamID(4*i), r.conn, c04bc(sc[0]), c04bc(sc[1]), c04bc(sc[2]), r.rtt, utils.DefaultLogger),
		sendLimit: c04bc(sc[2]), reported: map[c04bc]bool{},
		initW: c04bc(sc[0]), maxW: c04bc(sc[1]), adv: c04bc(sc[0]), ws: c04bc(sc[0]),
	}
	r.streams = append(r.streams, st)
	r.log(c04Op{K: "open", S: i, A: sc[0], B: sc[1], R: sc[2]})
}

// checkSend compares every SendWindowSize with the shadow counters.
func (r *c04Run) checkSend() {
	cw := max(0, r.cSendLimit-r.cSent)
	if got := r.conn.SendWindowSize(); got != cw {
		r.fail("C04|fc|conn-send-window", "connection SendWindowSize()=%d, limit %d - sent %d = %d", got, r.cSendLimit, r.cSent, cw)
	}
	for i, st := range r.streams {
		want := max(0, min(st.sendLimit-st.sent, r.cSendLimit-r.cSent))
		if got := st.fc.SendWindowSize(); got != want {
			what := "stream-send-window"
			if got > want {
				what = "stream-send-window-exceeds-credit"
			}
			r.fail("C04|fc|"+what, "stream %d SendWindowSize()=%d, want max(0,min(%d-%d, %d-%d))=%d", i, got, st.sendLimit, st.sent, r.cSendLimit, r.cSent, want)
		}
	}
}

func (r *c04Run) checkCredit(after string) {
	want := r.credited()
	if got := c04bc(r.conn.credit.Load()); got != want {
		what := "credit-missing"
		if got > want {
			what = "credit-twice"
		}
		r.fail("C04|fc|"+what, "after %s: connection was credited %d bytes, streams consumed+abandoned %d", after, got, want)
	}
}

func (r *c04Run) opSend() {
	i := r.rng.IntN(len(r.streams))
	st := r.streams[i]
	w := st.fc.SendWindowSize()
	want := max(0, min(st.sendLimit-st.sent, r.cSendLimit-r.cSent))
	if w != want {
		r.checkSend()
		return
	}
	if w == 0 {
		r.n["send_blocked"]++
		return
	}
	n := 1 + c04bc(r.rng.Int64N(int64(w)))
	if r.rng.IntN(3) == 0 {
		n = w
	}
	st.fc.AddBytesSent(n)
	st.sent += n
	r.cSent += n
	r.n["send"]++
	r.log(c04Op{K: "send", S: i, A: int64(n), R: int64(w)})
	r.checkSend()
}

func (r *c04Run) pickLimit(cur c04bc) c04bc {
	switch x := r.rng.IntN(10); {
	case x < 5:
		r.n["upd_raise"]++
		return cur + 1 + c04bc(r.rng.Int64N(c04Pick(r.rng, r.cfg.Scale)))
	case x < 7:
		r.n["upd_dup"]++
		return cur
	default:
		r.n["upd_stale"]++
		return c04bc(r.rng.Int64N(int64(cur) + 1))
	}
}

func (r *c04Run) opUpdStream() {
	i := r.rng.IntN(len(r.streams))
	st := r.streams[i]
	v := r.pickLimit(st.sendLimit)
	upd := st.fc.UpdateSendWindow(v)
	st.sendLimit = max(st.sendLimit, v)
	r.log(c04Op{K: "updS", S: i, A: int64(v), R: c04b2i(upd)})
	r.checkSend()
}

func (r *c04Run) opUpdConn() {
	v := r.pickLimit(r.cSendLimit)
	upd := r.conn.UpdateSendWindow(v)
	r.cSendLimit = max(r.cSendLimit, v)
	r.log(c04Op{K: "updC", S: -1, A: int64(v), R: c04b2i(upd)})
	r.checkSend()
}

func c04b2i(b bool) int64 {
	if b {
		return 1
	}
	return 0
}

func (r *c04Run) opBlockedStream() {
	i := r.rng.IntN(len(r.streams))
	st := r.streams[i]
	b := st.fc.IsNewlyBlocked()
	r.log(c04Op{K: "blkS", S: i, R: c04b2i(b)})
	if !b {
		return
	}
	r.n["blocked_stream"]++
	if st.sendLimit > st.sent {
		r.n["blocked_reported_while_open"]++
	}
	if st.reported[st.sendLimit] {
		r.fail("C04|fc|stream-blocked-twice", "stream %d reported newly blocked a second time at limit %d", i, st.sendLimit)
	}
	st.reported[st.sendLimit] = true
}

func (r *c04Run) opBlockedConn() {
	b, off := r.conn.IsNewlyBlocked()
	r.log(c04Op{K: "blkC", S: -1, R: c04b2i(b), Q: int64(off)})
	if !b {
		return
	}
	r.n["blocked_conn"]++
	if r.cSendLimit > r.cSent {
		r.n["blocked_reported_while_open"]++
	}
	if off != r.cSendLimit {
		r.fail("C04|fc|conn-blocked-wrong-limit", "connection reported blocked at %d, the limit in force is %d", off, r.cSendLimit)
		return
	}
	if r.cReported[r.cSendLimit] {
		r.fail("C04|fc|conn-blocked-twice", "connection reported newly blocked a second time at limit %d", r.cSendLimit)
	}
	r.cReported[r.cSendLimit] = true
}

// recv performs UpdateHighestReceived(off, final) on stream i and checks the verdict.
func (r *c04Run) recv(i int, off c04bc, final bool) {
	st := r.streams[i]
	err := st.fc.UpdateHighestReceived(off, final, r.now)
	cls := c04ErrClass(err)
	r.log(c04Op{K: "recv", S: i, A: int64(off), B: c04b2i(final), E: cls})
	if final {
		st.final = true
	}
	if off <= st.highest {
		r.n["recv_stale"]++
		if cls != "ok" {
			r.fail("C04|fc|within-limit-rejected", "stream %d: offset %d (<= highest %d, limit %d) answered with %v", i, off, st.highest, st.adv, err)
		}
		return
	}
	inc := off - st.highest
	switch {
	case off > st.adv:
		r.n["recv_beyond_stream"]++
		if off == st.adv+1 {
			r.n["recv_first_byte_beyond"]++
		}
		if cls != "fce" {
			r.fail("C04|fc|beyond-stream-limit-accepted", "stream %d: offset %d beyond advertised stream limit %d answered with %q (%v)", i, off, st.adv, cls, err)
		}
		r.ended = "fce-stream"
	case r.cHighest+inc > r.cAdv:
		r.n["recv_beyond_conn"]++
		if r.cHighest+inc == r.cAdv+1 {
			r.n["recv_first_byte_beyond"]++
		}
		if cls != "fce" {
			r.fail("C04|fc|beyond-conn-limit-accepted", "stream %d: offset %d raises the connection total to %d beyond advertised connection limit %d, answered with %q (%v)", i, off, r.cHighest+inc, r.cAdv, cls, err)
		}
		r.ended = "fce-conn"
	default:
		r.n["recv_new"]++
		if off == st.adv || r.cHighest+inc == r.cAdv {
			r.n["recv_exactly_at_limit"]++
		}
		if cls != "ok" {
			r.fail("C04|fc|within-limit-rejected", "stream %d: offset %d within stream limit %d and connection total %d within %d answered with %v", i, off, st.adv, r.cHighest+inc, r.cAdv, err)
			r.ended = "spurious"
		}
		st.highest = off
		r.cHighest += inc
	}
}

func (r *c04Run) opRecv() {
	// candidates: streams whose final offset is not yet known (or stale offsets on any)
	i := r.rng.IntN(len(r.streams))
	st := r.streams[i]
	if st.final {
		// only offsets up to the final offset are legal now
		off := c04bc(r.rng.Int64N(int64(st.highest) + 1))
		r.recv(i, off, off == st.highest && r.rng.IntN(2) == 0)
		return
	}
	roomS := st.adv - st.highest
	roomC := r.cAdv - r.cHighest
	room := min(roomS, roomC)
	x := r.rng.IntN(100)
	final := r.rng.IntN(20) == 0
	switch {
	case x < 2: // first byte beyond the stream limit
		r.recv(i, st.adv+1, final)
	case x < 3 && roomC+1 <= roomS: // first byte beyond the connection limit, within the stream limit
		r.recv(i, st.highest+roomC+1, final)
	case x < 4: // far beyond
		r.recv(i, st.adv+1+c04bc(r.rng.Int64N(int64(st.adv)+10)), final)
	case x < 16 || room == 0: // reordered / duplicate
		off := c04bc(r.rng.Int64N(int64(st.highest) + 1))
		r.recv(i, off, final && off == st.highest)
	default:
		off := st.highest + 1 + c04bc(r.rng.Int64N(int64(room)))
		if r.rng.IntN(4) == 0 {
			off = st.highest + room
		}
		r.recv(i, off, final)
	}
}

func (r *c04Run) opRead() {
	i := r.rng.IntN(len(r.streams))
	st := r.streams[i]
	avail := st.highest - st.read
	if st.abandoned || avail <= 0 {
		return
	}
	n := 1 + c04bc(r.rng.Int64N(int64(avail)))
	if r.rng.IntN(3) == 0 {
		n = avail
	}
	hs, hc := st.fc.AddBytesRead(n)
	st.read += n
	r.n["read"]++
	r.log(c04Op{K: "read", S: i, A: int64(n), R: c04b2i(hs), Q: c04b2i(hc)})
	r.checkCredit("AddBytesRead")
	if hs && r.rng.IntN(2) == 0 {
		r.wuStream(i)
	}
	if hc && r.rng.IntN(2) == 0 {
		r.wuConn()
	}
}

func (r *c04Run) opAbandon() {
	i := r.rng.IntN(len(r.streams))
	st := r.streams[i]
	st.fc.Abandon()
	if st.highest > st.read {
		r.n["abandon_with_unread"]++
	}
	st.read = st.highest
	st.abandoned = true
	r.n["abandon"]++
	r.log(c04Op{K: "abandon", S: i})
	r.checkCredit("Abandon")
}

func (r *c04Run) wuStream(i int) {
	st := r.streams[i]
	consumed := st.read
	o := st.fc.GetWindowUpdate(r.now)
	r.log(c04Op{K: "wuS", S: i, A: int64(r.now), R: int64(o)})
	if o == 0 {
		return
	}
	r.n["wu_stream"]++
	if o < st.adv {
		r.fail("C04|fc|stream-limit-decreased", "stream %d: GetWindowUpdate()=%d below the limit %d advertised earlier", i, o, st.adv)
		return
	}
	w := o - consumed
	if w > max(st.maxW, st.initW) {
		r.fail("C04|fc|stream-limit-above-consumed-plus-window", "stream %d: GetWindowUpdate()=%d = consumed %d + %d, maximum window %d", i, o, consumed, w, st.maxW)
		return
	}
	if w < st.ws {
		r.fail("C04|fc|stream-limit-below-consumed-plus-window", "stream %d: GetWindowUpdate()=%d = consumed %d + %d, window was already %d", i, o, consumed, w, st.ws)
		return
	}
	if w > st.ws {
		r.n["autotune_stream"]++
	}
	st.adv, st.ws = o, w
}

func (r *c04Run) wuConn() {
	consumed := r.credited()
	o := r.conn.GetWindowUpdate(r.now)
	r.log(c04Op{K: "wuC", S: -1, A: int64(r.now), R: int64(o)})
	if o == 0 {
		return
	}
	r.n["wu_conn"]++
	if o < r.cAdv {
		r.fail("C04|fc|conn-limit-decreased", "connection: GetWindowUpdate()=%d below the limit %d advertised earlier", o, r.cAdv)
		return
	}
	w := o - consumed
	if w > c04bc(max(r.cfg.ConnMaxW, r.cfg.ConnW)) {
		r.fail("C04|fc|conn-limit-above-consumed-plus-window", "connection: GetWindowUpdate()=%d = consumed %d + %d, maximum window %d", o, consumed, w, r.cfg.ConnMaxW)
		return
	}
	if w < r.cWs {
		r.fail("C04|fc|conn-limit-below-consumed-plus-window", "connection: GetWindowUpdate()=%d = consumed %d + %d, window was already %d", o, consumed, w, r.cWs)
		return
	}
	if w > r.cWs {
		r.n["autotune_conn"]++
	}
	r.cAdv, r.cWs = o, w
}

func (r *c04Run) opTime() {
	// log-uniform step between 0 and ~8 s
	var d int64
	if x := r.rng.IntN(34); x > 0 {
		d = r.rng.Int64N(int64(1) << x)
	}
	r.now = r.now.Add(time.Duration(d))
}

// zeroRTT is the 0-RTT prologue: remembered limits, a little data, rejection, Reset.
func (r *c04Run) zeroRTT() {
	v := c04bc(c04Pick(r.rng, r.cfg.Scale))
	r.conn.UpdateSendWindow(v)
	r.cSendLimit = v
	r.log(c04Op{K: "updC", S: -1, A: int64(v), R: 1})
	tmp := NewStreamFlowController(0, r.conn, 100, 100, v, r.rtt, utils.DefaultLogger)
	for k := 0; k < 3; k++ {
		w := tmp.SendWindowSize()
		if want := max(0, r.cSendLimit-r.cSent); w != want {
			r.fail("C04|fc|stream-send-window", "0-RTT stream SendWindowSize()=%d, want %d", w, want)
			return
		}
		if w == 0 {
			break
		}
		n := 1 + c04bc(r.rng.Int64N(int64(w)))
		tmp.AddBytesSent(n)
		r.cSent += n
		r.log(c04Op{K: "send0rtt", S: -1, A: int64(n)})
	}
	if r.rng.IntN(2) == 0 {
		r.opBlockedConn()
	}
	err := r.conn.Reset()
	r.log(c04Op{K: "reset", S: -1, E: fmt.Sprint(err)})
	if err != nil {
		// not a flow-control question; the history continues as if nothing had been reset
		r.n["reset_refused"]++
		return
	}
	r.n["reset"]++
	r.cSendLimit, r.cSent = 0, 0
	r.cReported = map[c04bc]bool{}
	r.checkSend()
}

func (r *c04Run) run() {
	if r.cfg.ZeroRTT {
		r.zeroRTT()
	}
	if r.rng.IntN(6) > 0 { // transport parameters
		v := c04bc(c04Pick(r.rng, r.cfg.Scale) * int64(1+r.rng.IntN(r.cfg.Streams)))
		r.conn.UpdateSendWindow(v)
		r.cSendLimit = max(r.cSendLimit, v)
		r.log(c04Op{K: "updC", S: -1, A: int64(v)})
	}
	nOpen := 1 + r.rng.IntN(r.cfg.Streams)
	for i := 0; i < nOpen; i++ {
		r.openStream()
	}
	r.checkSend()
	for k := 0; k < r.cfg.Ops && r.err == "" && r.ended == ""; k++ {
		switch x := r.rng.IntN(120); {
		case x < 18:
			r.opSend()
		case x < 26:
			r.opUpdStream()
		case x < 32:
			r.opUpdConn()
		case x < 39:
			r.opBlockedStream()
		case x < 44:
			r.opBlockedConn()
		case x < 64:
			r.opRecv()
		case x < 86:
			r.opRead()
		case x < 88:
			r.opAbandon()
		case x < 97:
			r.wuStream(r.rng.IntN(len(r.streams)))
		case x < 104:
			r.wuConn()
		case x < 105:
			inc := c04bc(r.rng.Int64N(2*r.cfg.ConnMaxW + 2))
			r.conn.EnsureMinimumWindowSize(inc, r.now)
			r.n["ensure"]++
			r.log(c04Op{K: "ensure", S: -1, A: int64(inc)})
		case x < 107:
			s := time.Duration(1 + r.rng.Int64N(int64(2*time.Second)))
			r.rtt.UpdateRTT(s, 0)
			r.log(c04Op{K: "rtt", S: -1, A: int64(s), R: int64(r.rtt.SmoothedRTT())})
		case x < 109:
			if len(r.streams) < r.cfg.Streams {
				r.openStream()
				r.checkSend()
			}
		default:
			r.opTime()
		}
	}
	// every history that is still alive ends with a probe of the first byte beyond a limit
	if r.err == "" && r.ended == "" {
		var cand []int
		for i, st := range r.streams {
			if !st.final {
				cand = append(cand, i)
			}
		}
		if len(cand) > 0 {
			i := cand[r.rng.IntN(len(cand))]
			st := r.streams[i]
			roomS, roomC := st.adv-st.highest, r.cAdv-r.cHighest
			if r.rng.IntN(2) == 0 && roomC+1 <= roomS {
				r.recv(i, st.highest+roomC+1, false)
			} else {
				r.recv(i, st.adv+1, false)
			}
		}
	}
	r.checkCredit("end of history")
}

func c04Bucket(n int) int {
	switch {
	case n == 0:
		return 0
	case n == 1:
		return 1
	case n < 4:
		return 2
	case n < 8:
		return 3
	default:
		return 4
	}
}

func (r *c04Run) fingerprint() string {
	if r.n["recv_new"]+r.n["send"]+r.n["read"] < 2 {
		return ""
	}
	b := func(ks ...string) int {
		n := 0
		for _, k := range ks {
			n += r.n[k]
		}
		return min(c04Bucket(n), 2)
	}
	return fmt.Sprintf("s%d/z%v/%s/snd%d/upd%d/blk%d/rcv%d.%d/rd%d/ab%d/wu%d.%d/at%d",
		min(c04Bucket(len(r.streams)), 3), r.n["reset"] > 0, r.ended,
		b("send"), b("upd_dup", "upd_stale"), b("blocked_stream", "blocked_conn"), b("recv_new"), b("recv_stale"), b("read"),
		b("abandon_with_unread"), b("wu_stream"), b("wu_conn"), b("autotune_stream", "autotune_conn"))
}

func TestVerifC04FC(t *testing.T) {
	l := evlog.Open("C04")
	defer l.Close()

	nHist := l.Pick(60000, 5000000)
	const batch = 500
	for bi := 0; bi*batch < nHist; bi++ {
		if !l.Mine(bi) {
			continue
		}
		id := fmt.Sprintf("C04/fc/rand/%06d", bi)
		c := l.Begin(id, map[string]any{"batch": bi, "n": batch})
		if c == nil {
			continue
		}
		rng := l.Rand(id)
		tot := map[string]int{}
		for k := 0; k < batch; k++ {
			cfg := c04GenCfg(rng)
			r := newC04Run(rng, cfg)
			r.run()
			c.Eval(r.fingerprint())
			for key, v := range r.n {
				tot[key] += v
			}
			tot["allow_window_increase_calls"] += r.allowCalls
			tot["ops"] += len(r.ops)
			tot["conn_credit_calls"] += int(r.conn.creditCalls.Load())
			tot["conn_increment_calls"] += int(r.conn.incCalls.Load())
			tot["conn_ensure_min_window_calls"] += int(r.conn.ensureCalls.Load())
			if r.ended != "" {
				tot["ended_"+r.ended]++
			}
			if r.err != "" {
				c.Violation(r.sig, r.err, map[string]any{"batch": bi, "index": k, "cfg": cfg, "ops": r.ops})
			} else if r.n["autotune_stream"] > 0 && r.ended == "fce-conn" {
				c.Sample("fc-autotune-then-conn-violation", map[string]any{"cfg": cfg, "nops": len(r.ops)})
			}
		}
		for key, v := range tot {
			l.Count("fc_"+key, int64(v))
		}
		c.End()
	}
}

// ---------------------------------------------------------------------------------------
// (d) E4: concurrent histories, checked by porcupine against the counter model

const (
	c04KInc     = iota // connection: IncrementHighestReceived(N) -> E
	c04KRead           // AddBytesRead(N)
	c04KWU             // GetWindowUpdate() -> O (non-zero)
	c04KRecv           // stream: UpdateHighestReceived(N, Final) -> E ; ConnE = what the connection answered inside
	c04KAbandon        // stream: Abandon()
)

type c04In struct {
	K     int
	N     int64
	Final bool
	ConnE string
}

type c04Out struct {
	E string
	O int64
}

// c04State is the counter model of one controller's receive side.
type c04State struct {
	Highest, Read, Adv, Ws int64
}

func c04Model(initW, maxW int64) porcupine.Model {
	return porcupine.Model{
		Init: func() interface{} { return c04State{Adv: initW, Ws: initW} },
		Step: func(state, input, output interface{}) (bool, interface{}) {
			s := state.(c04State)
			in := input.(c04In)
			out := output.(c04Out)
			switch in.K {
			case c04KInc:
				s.Highest += in.N
				if s.Highest > s.Adv {
					return out.E == "fce", s
				}
				return out.E == "ok", s
			case c04KRecv:
				if in.N <= s.Highest {
					return out.E == "ok", s
				}
				s.Highest = in.N
				if in.N > s.Adv {
					return out.E == "fce", s
				}
				// within the stream limit: the verdict is the connection's
				return out.E == in.ConnE, s
			case c04KRead:
				s.Read += in.N
				return true, s
			case c04KAbandon:
				s.Read = s.Highest
				return true, s
			case c04KWU:
				w := out.O - s.Read
				if out.O < s.Adv || w < s.Ws || w > max(maxW, initW) {
					return false, s
				}
				s.Adv, s.Ws = out.O, w
				return true, s
			}
			return false, s
		},
		DescribeOperation: func(input, output interface{}) string {
			return fmt.Sprintf("%+v -> %+v", input, output)
		},
	}
}

// c04Rec records operations without locks (a mutex here would serialise the goroutines between
// operations and remove most of the overlap that the history is supposed to contain).
type c04Rec struct {
	clock atomic.Int64
	nConn atomic.Int64
	nStr  [4]atomic.Int64
	connB []porcupine.Operation
	strB  [4][]porcupine.Operation
	lost  atomic.Int64

	conn   []porcupine.Operation // filled by seal()
	stream [4][]porcupine.Operation
}

const c04RecCap = 1 << 13

func newC04Rec() *c04Rec {
	r := &c04Rec{connB: make([]porcupine.Operation, c04RecCap)}
	for i := range r.strB {
		r.strB[i] = make([]porcupine.Operation, c04RecCap)
	}
	return r
}

func (r *c04Rec) tick() int64 { return r.clock.Add(1) }

func (r *c04Rec) addConn(op porcupine.Operation) {
	if k := r.nConn.Add(1) - 1; k < c04RecCap {
		r.connB[k] = op
	} else {
		r.lost.Add(1)
	}
}

func (r *c04Rec) addStream(i int, op porcupine.Operation) {
	if k := r.nStr[i].Add(1) - 1; k < c04RecCap {
		r.strB[i][k] = op
	} else {
		r.lost.Add(1)
	}
}

// seal is called when all goroutines have exited.
func (r *c04Rec) seal() {
	r.conn = r.connB[:min(r.nConn.Load(), c04RecCap)]
	for i := range r.strB {
		r.stream[i] = r.strB[i][:min(r.nStr[i].Load(), c04RecCap)]
	}
}

// c04YieldLogger is the logger handed to the controllers in E4.  The connection controller consults
// logger.Debug() inside its critical section on every GetWindowUpdate; yielding there lets the other
// goroutines run into the held mutex, so that operations really overlap (adversarial schedule through
// an injected dependency, the code under test is untouched).
type c04YieldLogger struct {
	utils.Logger
	yields *atomic.Int64
}

func (l c04YieldLogger) Debug() bool {
	l.yields.Add(1)
	runtime.Gosched()
	return false
}

func (l c04YieldLogger) Debugf(string, ...any) { runtime.Gosched() }

type c04EStream struct {
	fc          StreamFlowController
	mu          sync.Mutex // plays the role of the ReceiveStream mutex
	initW, maxW int64

	// owned by the receiving goroutine, guarded by mu
	highest   int64
	finalSent bool

	highestPub atomic.Int64
	advPub     atomic.Int64
	finalPub   atomic.Bool

	// owned by the reader
	read      int64
	abandoned int64
}

type c04ECfg struct {
	ConnW, ConnMaxW int64
	StreamW         [4][2]int64
	RTTns           int64
	Ops             int
}

type c04EResult struct {
	sig, err   string
	trace      any
	timeouts   int
	n          map[string]int64
	overlap    int64
	nonzeroWU  int
	abandons   int
	finals     int
	autotuned  bool
	connOps    int
	streamOps  int
	goroutines int
}

// c04Overlap counts the operations that were in flight together with an earlier-called one.
func c04Overlap(ops []porcupine.Operation) int64 {
	s := append([]porcupine.Operation(nil), ops...)
	sort.Slice(s, func(i, j int) bool { return s[i].Call < s[j].Call })
	var n, maxRet int64
	for _, o := range s {
		if o.Call < maxRet {
			n++
		}
		maxRet = max(maxRet, o.Return)
	}
	return n
}

func c04E4History(rng *rand.Rand, cfg c04ECfg) *c04EResult {
	res := &c04EResult{n: map[string]int64{}}
	rec := newC04Rec()
	rtt := utils.NewRTTStats()
	if cfg.RTTns > 0 {
		rtt.UpdateRTT(time.Duration(cfg.RTTns), 0)
	}
	var allowCalls atomic.Int64
	var yields atomic.Int64
	ylog := c04YieldLogger{Logger: utils.DefaultLogger, yields: &yields}
	realConn := NewConnectionFlowController(c04bc(cfg.ConnW), c04bc(cfg.ConnMaxW), func(c04bc) bool { allowCalls.Add(1); runtime.Gosched(); return true }, rtt, ylog)
	conn := &c04ConnWrap{ConnectionFlowController: realConn, ext: realConn}
	conn.rec = rec
	var streams [4]*c04EStream
	for i := range streams {
		w := cfg.StreamW[i]
		st := &c04EStream{initW: w[0], maxW: w[1]}
		st.fc = NewStreamFlowController(protocol.StreamID(4*i), conn, c04bc(w[0]), c04bc(w[1]), c04bc(w[0]), rtt, ylog)
		st.advPub.Store(w[0])
		streams[i] = st
	}
	var connAdvPub atomic.Int64
	connAdvPub.Store(cfg.ConnW)
	var vnow atomic.Int64
	vnow.Store(2_000_000_000)
	now := func(step int64) monotime.Time { return monotime.Time(vnow.Add(step)) }
	storeMax := func(a *atomic.Int64, v int64) {
		for {
			cur := a.Load()
			if v <= cur || a.CompareAndSwap(cur, v) {
				return
			}
		}
	}

	seeds := make([][2]uint64, 8)
	for i := range seeds {
		seeds[i] = [2]uint64{rng.Uint64(), rng.Uint64()}
	}
	// start barrier: every goroutine spins until all are running, so that they start on hot Ps at the
	// same time (waking idle Ps takes longer than a whole short history)
	const nGoroutines = 8
	var ready atomic.Int64
	barrier := func() {
		ready.Add(1)
		for spins := 0; ready.Load() < nGoroutines; spins++ {
			if spins > 200 {
				runtime.Gosched()
			}
		}
	}
	var appWG, pollWG sync.WaitGroup
	var stop atomic.Bool
	const idleMax = 20000

	// receiving goroutine (the connection's run loop handling STREAM frames)
	var connHighest int64
	var recvErr atomic.Value
	appWG.Add(1)
	go func() {
		defer appWG.Done()
		rg := rand.New(rand.NewPCG(seeds[0][0], seeds[0][1]))
		barrier()
		idle := 0
		for k := 0; k < cfg.Ops*4 && idle < idleMax; {
			i := rg.IntN(4)
			st := streams[i]
			if st.finalSent {
				idle++
				continue
			}
			room := min(st.advPub.Load()-st.highest, connAdvPub.Load()-connHighest)
			var off int64
			final := false
			if room <= 0 {
				if st.highest == 0 || rg.IntN(8) != 0 {
					idle++
					runtime.Gosched()
					continue
				}
				off = rg.Int64N(st.highest + 1)
			} else {
				off = st.highest + 1 + rg.Int64N(min(room, st.initW/4+1))
				if rg.IntN(6) == 0 {
					off = st.highest + room
				}
				final = rg.IntN(150) == 0
			}
			st.mu.Lock()
			conn.lastIncErr = nil
			call := rec.tick()
			err := st.fc.UpdateHighestReceived(c04bc(off), final, now(int64(rg.IntN(50000))))
			ret := rec.tick()
			connE := c04ErrClass(conn.lastIncErr)
			if off > st.highest {
				connHighest += off - st.highest
				st.highest = off
				st.highestPub.Store(off)
			}
			if final {
				st.finalSent = true
				st.finalPub.Store(true)
			}
			st.mu.Unlock()
			rec.addStream(i, porcupine.Operation{Input: c04In{K: c04KRecv, N: off, Final: final, ConnE: connE}, Call: call, Output: c04Out{E: c04ErrClass(err)}, Return: ret})
			if err != nil {
				recvErr.Store(fmt.Sprintf("stream %d offset %d final %v: %v", i, off, final, err))
				return
			}
			k++
		}
	}()

	// one reader per stream (the application)
	for i := range streams {
		appWG.Add(1)
		go func(i int) {
			defer appWG.Done()
			st := streams[i]
			rg := rand.New(rand.NewPCG(seeds[1+i][0], seeds[1+i][1]))
			barrier()
			idle := 0
			abandon := func() {
				var unread int64
				if st.finalPub.Load() && rg.IntN(2) == 0 {
					// like CancelRead: outside the stream mutex, the final offset is known
					unread = st.highestPub.Load() - st.read - st.abandoned
					call := rec.tick()
					st.fc.Abandon()
					ret := rec.tick()
					rec.addStream(i, porcupine.Operation{Input: c04In{K: c04KAbandon}, Call: call, Output: c04Out{}, Return: ret})
				} else {
					st.mu.Lock()
					unread = st.highest - st.read - st.abandoned
					call := rec.tick()
					st.fc.Abandon()
					ret := rec.tick()
					st.mu.Unlock()
					rec.addStream(i, porcupine.Operation{Input: c04In{K: c04KAbandon}, Call: call, Output: c04Out{}, Return: ret})
				}
				st.abandoned += unread
			}
			for k := 0; k < cfg.Ops && idle < idleMax; {
				if rg.IntN(150) == 0 {
					abandon()
					if rg.IntN(2) == 0 {
						abandon() // a second call credits only what arrived in between
					}
					return
				}
				avail := st.highestPub.Load() - st.read
				if avail <= 0 {
					idle++
					runtime.Gosched()
					continue
				}
				n := 1 + rg.Int64N(min(avail, st.initW/16+1))
				if rg.IntN(8) == 0 {
					n = avail
				}
				st.mu.Lock()
				call := rec.tick()
				st.fc.AddBytesRead(c04bc(n))
				ret := rec.tick()
				st.mu.Unlock()
				st.read += n
				rec.addStream(i, porcupine.Operation{Input: c04In{K: c04KRead, N: n}, Call: call, Output: c04Out{}, Return: ret})
				k++
			}
		}(i)
	}

	// window-update poller (the packer asking for MAX_DATA / MAX_STREAM_DATA)
	pollOne := func(target int, step int64) {
		if target == 4 {
			if o := conn.GetWindowUpdate(now(step)); o != 0 {
				storeMax(&connAdvPub, int64(o))
			}
			return
		}
		st := streams[target]
		st.mu.Lock()
		call := rec.tick()
		o := st.fc.GetWindowUpdate(now(step))
		ret := rec.tick()
		if o != 0 {
			storeMax(&st.advPub, int64(o))
		}
		st.mu.Unlock()
		if o != 0 {
			rec.addStream(target, porcupine.Operation{Input: c04In{K: c04KWU}, Call: call, Output: c04Out{O: int64(o)}, Return: ret})
		}
	}
	for p := 0; p < 2; p++ {
		pollWG.Add(1)
		go func(p int) {
			defer pollWG.Done()
			rg := rand.New(rand.NewPCG(seeds[5+p][0], seeds[5+p][1]))
			barrier()
			for k := 0; k < 400000 && !stop.Load(); k++ {
				pollOne(min(rg.IntN(7), 4), int64(rg.IntN(200000)))
				runtime.Gosched()
			}
		}(p)
	}

	// sender (send side is confined to the run loop in the real callers: one goroutine, checked inline)
	var sendFail [2]string
	appWG.Add(1)
	go func() {
		defer appWG.Done()
		rg := rand.New(rand.NewPCG(seeds[7][0], seeds[7][1]))
		barrier()
		var cLimit, cSent c04bc
		var sLimit, sSent [4]c04bc
		var cRep = map[c04bc]bool{}
		var sRep [4]map[c04bc]bool
		for i := range sLimit {
			sLimit[i] = c04bc(cfg.StreamW[i][0])
			sRep[i] = map[c04bc]bool{}
		}
		bad := func(sig, f string, a ...any) {
			if sendFail[0] == "" {
				sendFail = [2]string{sig, fmt.Sprintf(f, a...)}
			}
		}
		for k := 0; k < cfg.Ops*2 && sendFail[0] == ""; k++ {
			i := rg.IntN(4)
			st := streams[i]
			switch rg.IntN(6) {
			case 0:
				v := cLimit + c04bc(rg.Int64N(cfg.ConnW+1)) - c04bc(rg.Int64N(cfg.ConnW/4+1))
				conn.UpdateSendWindow(v)
				cLimit = max(cLimit, v)
			case 1:
				v := sLimit[i] + c04bc(rg.Int64N(cfg.StreamW[i][0]+1)) - c04bc(rg.Int64N(cfg.StreamW[i][0]/4+1))
				st.fc.UpdateSendWindow(v)
				sLimit[i] = max(sLimit[i], v)
			case 2:
				if st.fc.IsNewlyBlocked() {
					res.n["e4_blocked_stream"]++
					if sRep[i][sLimit[i]] {
						bad("C04|e4|stream-blocked-twice", "stream %d reported newly blocked twice at %d", i, sLimit[i])
					}
					sRep[i][sLimit[i]] = true
				}
			case 3:
				if b, off := conn.IsNewlyBlocked(); b {
					res.n["e4_blocked_conn"]++
					if off != cLimit || cRep[off] {
						bad("C04|e4|conn-blocked-twice", "connection reported newly blocked at %d (limit %d, reported before: %v)", off, cLimit, cRep[off])
					}
					cRep[off] = true
				}
			default:
				w := st.fc.SendWindowSize()
				want := max(0, min(sLimit[i]-sSent[i], cLimit-cSent))
				if w != want {
					bad("C04|e4|stream-send-window", "stream %d SendWindowSize()=%d want %d", i, w, want)
					break
				}
				if w > 0 {
					n := 1 + c04bc(rg.Int64N(int64(w)))
					if rg.IntN(3) == 0 {
						n = w
					}
					st.fc.AddBytesSent(n)
					sSent[i] += n
					cSent += n
					res.n["e4_send"]++
				}
			}
			if rg.IntN(4) == 0 {
				runtime.Gosched()
			}
		}
	}()

	appWG.Wait()
	stop.Store(true)
	pollWG.Wait()

	// sequential epilogue: last window updates, then the first byte beyond each limit
	for i := 0; i < 5; i++ {
		pollOne(i, 1000)
	}
	if v := recvErr.Load(); v == nil {
		// one probe only: the connection is closed after a violation
		j0 := rng.IntN(4)
		for d := 0; d < 4; d++ {
			i := (j0 + d) % 4
			st := streams[i]
			if st.finalSent {
				continue
			}
			off := st.advPub.Load() + 1
			if rng.IntN(2) == 0 && connAdvPub.Load()-connHighest+1 <= st.advPub.Load()-st.highest {
				off = st.highest + connAdvPub.Load() - connHighest + 1 // first byte beyond the connection limit
			}
			conn.lastIncErr = nil
			call := rec.tick()
			err := st.fc.UpdateHighestReceived(c04bc(off), false, now(1))
			ret := rec.tick()
			rec.addStream(i, porcupine.Operation{Input: c04In{K: c04KRecv, N: off, ConnE: c04ErrClass(conn.lastIncErr)}, Call: call, Output: c04Out{E: c04ErrClass(err)}, Return: ret})
			res.n["e4_probe_"+c04ErrClass(err)]++
			break
		}
	}

	// ---- oracle
	rec.seal()
	fail := func(sig, detail string, trace any) {
		if res.err == "" {
			res.sig, res.err, res.trace = sig, detail, trace
		}
	}
	if sendFail[0] != "" {
		fail(sendFail[0], sendFail[1], nil)
	}
	if v := recvErr.Load(); v != nil {
		fail("C04|e4|within-limit-rejected", "offset within every advertised limit was refused: "+v.(string), map[string]any{"cfg": cfg})
	}
	var want int64
	for _, st := range streams {
		want += st.read + st.abandoned
		if st.abandoned > 0 {
			res.abandons++
		}
		if st.finalSent {
			res.finals++
		}
	}
	if got := conn.credit.Load(); got != want {
		what := "credit-missing"
		if got > want {
			what = "credit-twice"
		}
		fail("C04|e4|"+what, fmt.Sprintf("connection was credited %d bytes, streams consumed+abandoned %d", got, want), map[string]any{"cfg": cfg})
	}
	dump := func(ops []porcupine.Operation) any {
		out := make([]map[string]any, 0, len(ops))
		for _, o := range ops {
			out = append(out, map[string]any{"call": o.Call, "ret": o.Return, "in": o.Input, "out": o.Output})
		}
		return out
	}
	check := func(name string, m porcupine.Model, ops []porcupine.Operation) {
		switch porcupine.CheckOperationsTimeout(m, ops, 20*time.Second) {
		case porcupine.Illegal:
			fail("C04|e4|"+name+"-history-not-linearizable", fmt.Sprintf("%d operations on the %s flow controller admit no linearization in the counter model", len(ops), name), map[string]any{"cfg": cfg, "ops": dump(ops)})
		case porcupine.Unknown:
			res.timeouts++
		}
	}
	check("conn", c04Model(cfg.ConnW, cfg.ConnMaxW), rec.conn)
	res.connOps = len(rec.conn)
	res.overlap = c04Overlap(rec.conn)
	for i, st := range streams {
		check("stream", c04Model(st.initW, st.maxW), rec.stream[i])
		res.streamOps += len(rec.stream[i])
		for _, o := range rec.stream[i] {
			if in := o.Input.(c04In); in.K == c04KWU {
				res.nonzeroWU++
			}
		}
	}
	res.autotuned = allowCalls.Load() > 0
	for _, o := range rec.conn {
		switch o.Input.(c04In).K {
		case c04KWU:
			res.nonzeroWU++
			res.n["e4_conn_window_updates"]++
		case c04KRead:
			res.n["e4_conn_credit_calls"]++
		case c04KInc:
			res.n["e4_conn_increment_calls"]++
		}
	}
	res.n["e4_allow_window_increase_calls"] += allowCalls.Load()
	res.n["e4_yields_inside_conn_critical_section"] += yields.Load()
	res.n["e4_ensure_min_window_calls"] += conn.ensureCalls.Load()
	return res
}

func TestVerifC04E4(t *testing.T) {
	l := evlog.Open("C04")
	defer l.Close()

	nHist := l.Pick(1200, 40000)
	const batch = 25
	for bi := 0; bi*batch < nHist; bi++ {
		if !l.Mine(bi) {
			continue
		}
		id := fmt.Sprintf("C04/e4/%05d", bi)
		c := l.Begin(id, map[string]any{"batch": bi, "n": batch})
		if c == nil {
			continue
		}
		rng := l.Rand(id)
		for k := 0; k < batch; k++ {
			cfg := c04ECfg{Ops: 30 + rng.IntN(70)}
			scale := rng.IntN(2)
			cfg.ConnW = c04Pick(rng, scale) * int64(1+rng.IntN(4))
			cfg.ConnMaxW = cfg.ConnW
			if rng.IntN(2) == 0 {
				cfg.ConnMaxW = c04MaxOf(rng, cfg.ConnW)
			}
			for i := range cfg.StreamW {
				w := c04Pick(rng, scale)
				cfg.StreamW[i] = [2]int64{w, w}
				if rng.IntN(2) == 0 {
					cfg.StreamW[i][1] = c04MaxOf(rng, w)
				}
			}
			if rng.IntN(4) > 0 {
				cfg.RTTns = int64(time.Millisecond) << rng.IntN(10)
			}
			res := c04E4History(rng, cfg)
			fp := ""
			if res.connOps > 4 {
				fp = fmt.Sprintf("ex%v/wu%d/ab%d/fin%d/at%v/ov%d/co%d/so%d", cfg.ConnMaxW == cfg.ConnW, c04Bucket(res.nonzeroWU), res.abandons, res.finals,
					res.autotuned, c04Bucket(int(res.overlap)), c04Bucket(res.connOps/16), c04Bucket(res.streamOps/32))
			}
			c.Eval(fp)
			l.Count("e4_histories", 1)
			l.Count("e4_conn_ops", int64(res.connOps))
			l.Count("e4_stream_ops", int64(res.streamOps))
			l.Count("e4_overlapping_conn_ops", res.overlap)
			for key, v := range res.n {
				l.Count(key, v)
			}
			if res.timeouts > 0 {
				l.Count("e4_porcupine_timeouts", int64(res.timeouts))
				c.Inconclusive("porcupine timeout")
			}
			if res.err != "" {
				c.Violation(res.sig, res.err, res.trace)
			}
		}
		c.End()
	}
}
