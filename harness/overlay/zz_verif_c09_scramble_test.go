package quic

// C09 monitor (4): initialCryptoStream — the default splitter and the anti-DPI ClientHello
// scrambler — driven the way packetPacker.maybeGetCryptoPacket drives it: the ClientHello is
// written in 1..3 parts, then for every packet a byte budget is chosen and PopCryptoFrame is
// called with the remaining budget until it returns nil or HasData is false.  All frames of
// all packets together must carry every written byte at its absolute offset.

import (
	"fmt"
	"math/rand/v2"
	"testing"

	"github.com/refraction-networking/uquic/internal/protocol"
	"github.com/refraction-networking/uquic/internal/verif/evlog"
)

type c09PopFrame struct {
	Off  uint64
	Data []byte // the slice handed out (aliasing the stream's buffer, as the packer sees it)
	Copy []byte // its content at the time of the pop
}

type c09ScrRun struct {
	Scramble  bool
	Parts     []int // write sizes (ClientHello parts, then trailing data)
	Trail     int   // bytes written after the ClientHello (second flight / HelloRetryRequest answer)
	TrailLate bool  // trailing data written after some packets were popped
	BudgetSeq []int
	Mode      string
}

// c09DriveStream returns failure class / detail ("" = fine) and the behaviour fingerprint.
func c09DriveStream(ch []byte, trail []byte, run *c09ScrRun, rng *rand.Rand, wellFormed bool) (cls, detail, fp string, frames []c09PopFrame, st c09Stats) {
	s := newInitialCryptoStream(true)
	if !run.Scramble {
		s.DisableScrambling()
	}
	ref := append(append([]byte(nil), ch...), trail...)
	written := 0
	write := func(b []byte) error {
		_, err := s.Write(b)
		written += len(b)
		return err
	}
	var werr error
	at := 0
	for i, n := range run.Parts {
		_ = i
		if werr = write(ch[at : at+n]); werr != nil {
			break
		}
		at += n
	}
	if werr == nil && len(trail) > 0 && !run.TrailLate {
		werr = write(trail)
	}
	if werr != nil {
		// rejected before anything was handed out
		return "", "", "write-error", nil, st
	}
	var payloadFrames []c09PopFrame
	budgetOf := func(i int) int {
		switch run.Mode {
		case "full":
			return 1200 + rng.IntN(300)
		case "tiny":
			return 1 + rng.IntN(40)
		case "mixed":
			if rng.IntN(3) == 0 {
				return 1 + rng.IntN(1500)
			}
			return []int{1, 2, 3, 4, 5, 6, 7, 8, 16, 63, 64, 65, 66, 67, 68, 100, 1162, 1500}[rng.IntN(18)]
		}
		return 1 + rng.IntN(1500)
	}
	packets, emptyPackets, lateDone := 0, 0, !run.TrailLate || len(trail) == 0
	limit := 4*len(ref) + 2000
	for packets < limit {
		if !s.HasData() {
			if !lateDone {
				lateDone = true
				if err := write(trail); err != nil {
					if len(payloadFrames) == 0 {
						return "", "", "write-error", nil, st
					}
					return "error-after-output", fmt.Sprintf("Write of trailing data failed after %d frames were handed out: %v", len(payloadFrames), err), "", payloadFrames, st
				}
				continue
			}
			break
		}
		if !lateDone && packets >= 1 && rng.IntN(3) == 0 {
			lateDone = true
			if err := write(trail); err != nil {
				if len(payloadFrames) == 0 {
					return "", "", "write-error", nil, st
				}
				return "error-after-output", fmt.Sprintf("Write of trailing data failed after %d frames were handed out: %v", len(payloadFrames), err), "", payloadFrames, st
			}
		}
		b := budgetOf(packets)
		if packets > limit-len(ref)-1000 {
			b = 1500 // drain phase: a stream that cannot be drained with full-size packets is stuck
		}
		if len(run.BudgetSeq) < 40 {
			run.BudgetSeq = append(run.BudgetSeq, b)
		}
		packets++
		got := 0
		for s.HasData() && b > 0 {
			f := s.PopCryptoFrame(protocol.ByteCount(b))
			if f == nil {
				break
			}
			got++
			payloadFrames = append(payloadFrames, c09PopFrame{Off: uint64(f.Offset), Data: f.Data, Copy: append([]byte(nil), f.Data...)})
			b -= 1 + c09VarintLen(uint64(f.Offset)) + c09VarintLen(uint64(len(f.Data))) + len(f.Data)
		}
		if got == 0 {
			emptyPackets++
		}
	}
	if !lateDone {
		ref = ref[:len(ch)]
	}
	ref = ref[:written]
	stuck := s.HasData()
	// verdict: a coverage mask over everything written
	mask := make([]bool, len(ref))
	for i, f := range payloadFrames {
		st.NCrypto++
		st.OffW |= c09VarintLen(f.Off)
		st.LenW |= c09VarintLen(uint64(len(f.Copy)))
		if f.Off > uint64(len(ref)) || uint64(len(f.Copy)) > uint64(len(ref))-f.Off {
			return "range-past-end", fmt.Sprintf("frame %d: CRYPTO [%d,+%d) reaches past the %d bytes written", i, f.Off, len(f.Copy), len(ref)), "", payloadFrames, st
		}
		if len(f.Copy) == 0 {
			st.EmptyCrypto++
		}
		for k := range f.Copy {
			p := int(f.Off) + k
			if f.Copy[k] != ref[p] {
				return "byte-mismatch", fmt.Sprintf("frame %d: CRYPTO [%d,+%d): byte at absolute offset %d is 0x%02x, ClientHello has 0x%02x", i, f.Off, len(f.Copy), p, f.Copy[k], ref[p]), "", payloadFrames, st
			}
			if f.Data[k] != ref[p] {
				return "frame-data-overwritten", fmt.Sprintf("frame %d: CRYPTO [%d,+%d): the slice handed to the packer changed afterwards at absolute offset %d", i, f.Off, len(f.Copy), p), "", payloadFrames, st
			}
			if mask[p] {
				st.Overlap = true
			} else {
				mask[p] = true
				st.Covered++
			}
		}
	}
	ready := len(payloadFrames) > 0
	switch {
	case st.Covered == len(ref):
		// complete (a stream that still claims to have data although everything was handed
		// out is not a framing matter)
		if stuck {
			st.Datagrams = -1
		}
	case !ready && !stuck && run.Scramble && !wellFormed:
		// the scrambler waits for a complete ClientHello; what it was given is not one, so it
		// never releases anything — nothing was sent, nothing is demanded
		return "", "", "never-ready", payloadFrames, st
	case stuck:
		first := 0
		for first < len(mask) && mask[first] {
			first++
		}
		return "stuck", fmt.Sprintf("HasData() stays true but PopCryptoFrame(1500) yields nothing: %d of %d bytes were handed out (first missing absolute offset %d) after %d packets", st.Covered, len(ref), first, packets), "", payloadFrames, st
	default:
		first := 0
		for first < len(mask) && mask[first] {
			first++
		}
		return "not-covered", fmt.Sprintf("stream reports no more data but %d of %d written bytes were never handed out (first missing absolute offset %d)", len(ref)-st.Covered, len(ref), first), "", payloadFrames, st
	}
	if st.Datagrams == -1 {
		return "", "", "complete-but-hasdata", payloadFrames, st
	}
	st.Datagrams = min(packets-emptyPackets, 5)
	return "", "", fmt.Sprintf("%s p%d t%v/%v ov%v %s", run.Mode, len(run.Parts), len(trail) > 0, run.TrailLate, st.Overlap, st.fp()), payloadFrames, st
}

// c09Malform damages a well-formed ClientHello in a way that matters to findSNIAndECH.
func c09Malform(r *rand.Rand, ch []byte) ([]byte, string) {
	b := append([]byte(nil), ch...)
	switch r.IntN(7) {
	case 0:
		if len(b) > 0 {
			b[0] = 2
		}
		return b, "not-clienthello"
	case 1:
		return b[:r.IntN(len(b)+1)], "truncated"
	case 2:
		for i := 0; i < 3 && len(b) > 43; i++ {
			b[43+r.IntN(len(b)-43)] ^= byte(1 + r.IntN(255))
		}
		return b, "bitflips"
	case 3:
		return c09Bytes(r, r.IntN(300)), "random-bytes"
	case 4:
		x := c09Bytes(r, 4+r.IntN(200))
		x[0] = 1
		hl := len(x) - 4
		x[1], x[2], x[3] = byte(hl>>16), byte(hl>>8), byte(hl)
		return x, "random-with-header"
	case 5:
		return append(b, c09Bytes(r, 1+r.IntN(5))...), "excess-bytes"
	}
	for i := range b[min(4, len(b)):] {
		b[4+i] = 0
	}
	return b, "zeros"
}

func TestVerifC09Scramble(t *testing.T) {
	l := evlog.Open("C09")
	defer l.Close()
	t.Setenv(disableClientHelloScramblingEnv, "")
	nBatch := l.Pick(800, 16000)
	const per = 60
	for bi := 0; bi < nBatch; bi++ {
		if !l.Mine(bi) {
			continue
		}
		id := fmt.Sprintf("C09/scramble/%05d", bi)
		c := l.Begin(id, map[string]any{"batch": bi, "runs": per})
		if c == nil {
			continue
		}
		rp := newC09Rep(c)
		rng := l.Rand(id)
		for k := 0; k < per; k++ {
			// ClientHello: SNI / ECH at every position, absent, all length boundaries
			sp := c09CHSpec{NFill: rng.IntN(8), SNIPos: -1, ECHPos: -1, SessLen: []int{0, 32}[rng.IntN(2)], NSuites: 1 + rng.IntN(17)}
			sp.Target = []int{0, 0, 61, 62, 63, 64, 65, 66, 255, 256, 257, 1162, 1734, 2300, 4800, 16383, 16384, 16385}[rng.IntN(18)]
			if rng.IntN(3) == 0 {
				sp.Target = 47 + rng.IntN(2500)
			}
			inClass := ""
			switch rng.IntN(8) {
			case 0: // neither
			case 1: // ECH only
				sp.ECHPos = rng.IntN(sp.NFill + 1)
			case 2, 3: // SNI only
				sp.SNIPos = rng.IntN(sp.NFill + 1)
			default:
				sp.SNIPos = rng.IntN(sp.NFill + 2)
				sp.ECHPos = rng.IntN(sp.NFill + 2)
			}
			if sp.SNIPos >= 0 {
				sp.SNILen = []int{1, 1, 2, 3, 4, 9, 16, 17, 30, 63, 64, 253}[rng.IntN(12)]
				sp.OtherNameFirst = rng.IntN(12) == 0
			}
			if sp.ECHPos >= 0 {
				sp.ECHLen = []int{0, 1, 2, 5, 11, 12, 13, 14, 16, 40, 186, 250}[rng.IntN(12)]
			}
			if sp.Target > 300 && sp.NFill == 0 {
				sp.NFill = 1
			}
			ch := c09MakeCH(rng, sp)
			wellFormed := true
			if rng.IntN(40) == 0 {
				sp.SNILen = 0 // an SNI extension with an empty host name: syntactically a ClientHello for findSNIAndECH
				if sp.SNIPos < 0 {
					sp.SNIPos = 0
				}
				ch = c09MakeCH(rng, sp)
			} else if rng.IntN(10) == 0 {
				var how string
				ch, how = c09Malform(rng, ch)
				wellFormed = false
				inClass = "|malformed"
				c.Count("malformed_"+how, 1)
			}
			if wellFormed {
				inClass = c09CHClass(sp)
			}
			run := &c09ScrRun{Scramble: rng.IntN(5) != 0, Mode: []string{"full", "full", "tiny", "mixed", "any", "any"}[rng.IntN(6)]}
			if len(ch) > 6000 && run.Mode == "tiny" {
				run.Mode = "mixed"
			}
			// write in 1..3 parts
			parts := 1 + rng.IntN(3)
			left := len(ch)
			for i := 0; i < parts; i++ {
				n := left
				if i+1 < parts {
					n = rng.IntN(left + 1)
					if rng.IntN(4) == 0 {
						n = min(left, rng.IntN(5)) // split inside the handshake header
					}
				}
				run.Parts = append(run.Parts, n)
				left -= n
			}
			var trail []byte
			if rng.IntN(4) == 0 {
				trail = c09Bytes(rng, 1+rng.IntN(600))
				run.Trail = len(trail)
				run.TrailLate = rng.IntN(2) == 0
			}
			comp := "splitter"
			if run.Scramble {
				comp = "scrambler"
			}
			var cls, detail, fp string
			var frames []c09PopFrame
			var st c09Stats
			pan, val, stack := c09Safe(func() {
				cls, detail, fp, frames, st = c09DriveStream(ch, trail, run, rng, wellFormed)
			})
			trace := func() map[string]any {
				fr := make([][2]int, 0, len(frames))
				for _, f := range frames {
					fr = append(fr, [2]int{int(f.Off), len(f.Copy)})
				}
				if len(fr) > 200 {
					fr = fr[:200]
				}
				return map[string]any{"ch": sp, "clienthello": c09Hex(ch), "run": run, "frames_off_len": fr}
			}
			switch {
			case pan:
				tr := trace()
				tr["panic"], tr["stack"] = val, stack
				rp.viol("C09|"+comp+"|panic|"+c09PanicClass(val)+inClass, "initialCryptoStream panicked: "+val, tr)
				c.Eval("scr panic")
			case cls != "":
				rp.viol("C09|"+comp+"|"+cls+inClass, detail, trace())
				c.Eval("scr viol " + cls)
			default:
				c.Count("stream_frames", int64(st.NCrypto))
				c.Count("bytes_compared", int64(st.Covered))
				if st.Overlap {
					c.Count("outputs_with_overlap", 1)
				}
				if run.Scramble && wellFormed && (sp.SNIPos >= 0 || sp.ECHPos >= 0) {
					c.Count("scrambled_clienthellos", 1)
				}
				switch fp {
				case "complete-but-hasdata":
					c.Count("stream_complete_but_hasdata_stays_true", 1)
					c.Eval("scr complete-but-hasdata")
				case "never-ready":
					c.Count("scrambler_never_ready_on_malformed", 1)
					c.Eval("")
				case "write-error":
					c.Count("rejected_with_error", 1)
					c.Eval("scr write-error")
				default:
					c.Eval(fmt.Sprintf("scr %s s%d e%d %s", comp, min(sp.SNIPos, 3), min(sp.ECHPos, 3), fp))
				}
			}
		}
		c.End()
	}
}
