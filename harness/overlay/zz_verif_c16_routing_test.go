package quic_test

// C16, end-to-end part: packets are routed to a connection for precisely its issued and not yet
// expired connection IDs; after the connection closes every ID and stateless-reset token is
// removed once the closing period ends; a retired or foreign ID does not reach the connection.
// Real connections over the simulated network; the wire observer knows every connection ID that
// was issued or retired; the Transports' routing tables are read through an in-package bridge.

import (
	"context"
	"fmt"
	"net"
	"testing"
	"testing/synctest"
	"time"

	quic "github.com/refraction-networking/uquic"
	"github.com/refraction-networking/uquic/internal/verif/evlog"
	"github.com/refraction-networking/uquic/internal/verif/quicworld"
	"github.com/refraction-networking/uquic/internal/verif/wiretap"
)

type c16Case struct {
	Name      string `json:"name"`
	Client    string `json:"client"`
	ServerCID int    `json:"server_cid_len"`
	ClientCID int    `json:"client_cid_len"`
	Close     string `json:"close"`   // client server idle client-transport server-transport client-send-error server-send-error
	BulkMB    int    `json:"bulk_mb"` // > 0: enough packets to make the endpoints rotate connection IDs
	Dials     int    `json:"dials"`
	Retry     bool   `json:"retry,omitempty"` // the server validates addresses with a Retry: the connection is created under the Retry's connection ID
}

func TestVerifC16Routing(t *testing.T) {
	l := evlog.Open("C16")
	defer l.Close()
	var cases []c16Case
	for _, cl := range []string{"plain", "Chrome_115_IPv4", "Firefox_116A"} {
		for _, scid := range []int{4, 8, 20} {
			for _, cc := range []int{4, 9} {
				if cl != "plain" && cc != 4 {
					continue
				}
				for _, how := range []string{"client", "server", "idle", "client-transport", "server-transport", "client-send-error", "server-send-error"} {
					cases = append(cases, c16Case{Name: fmt.Sprintf("%s/scid%d/ccid%d/%s", cl, scid, cc, how), Client: cl, ServerCID: scid, ClientCID: cc, Close: how, Dials: 2})
					if scid == 8 {
						cases = append(cases, c16Case{Name: fmt.Sprintf("%s/scid%d/ccid%d/%s/retry", cl, scid, cc, how), Client: cl, ServerCID: scid, ClientCID: cc, Close: how, Dials: 2, Retry: true})
					}
				}
			}
		}
	}
	nb := l.Pick(2, 12)
	for i := 0; i < nb; i++ {
		cases = append(cases, c16Case{Name: fmt.Sprintf("rotation/%d", i), Client: []string{"plain", "Firefox_116A"}[i%2], ServerCID: []int{4, 8, 20}[i%3], ClientCID: 4, Close: []string{"client", "server"}[i%2], BulkMB: 16, Dials: 1})
	}
	for i, cs := range cases {
		if !l.Mine(i) {
			continue
		}
		c := l.Begin("C16/routing/"+cs.Name, cs)
		if c == nil {
			continue
		}
		synctest.Test(t, func(t *testing.T) { runC16Routing(l, c, &cs) })
		c.End()
	}
}

func runC16Routing(l *evlog.Log, c *evlog.Case, cs *c16Case) {
	var world *quicworld.World
	viol := func(sig, f string, a ...any) {
		tr := map[string]any{"case": cs}
		if world != nil {
			if taps := world.Wire.Snapshot(); len(taps) > 0 {
				tr["wire_tail"] = taps[len(taps)-1].Describe(12)
			}
		}
		c.Violation("C16|routing|"+sig, fmt.Sprintf(f, a...), tr)
	}
	idle := 30 * time.Second
	if cs.Close == "idle" {
		idle = 2 * time.Second
	}
	opt := quicworld.Options{RTT: 10 * time.Millisecond, ServerCIDLen: cs.ServerCID, ClientCIDLen: cs.ClientCID,
		ClientConf: &quic.Config{MaxIdleTimeout: idle, InitialStreamReceiveWindow: 1 << 20, InitialConnectionReceiveWindow: 2 << 20},
		ServerConf: &quic.Config{MaxIdleTimeout: idle, InitialStreamReceiveWindow: 1 << 20, InitialConnectionReceiveWindow: 2 << 20}}
	if cs.Retry {
		opt.VerifySourceAddress = func(net.Addr) bool { return true }
	}
	if cs.Client != "plain" {
		spec, err := quic.QUICID2Spec(quicworld.QUICIDs[cs.Client])
		if err != nil {
			viol("harness", "%v", err)
			return
		}
		opt.ClientKind, opt.Spec = "spec", &spec
	}
	w, err := quicworld.New(opt)
	if err != nil {
		viol("harness", "world: %v", err)
		return
	}
	world = w
	defer func() {
		w.Close()
		time.Sleep(time.Minute)
		synctest.Wait()
		if lk := quicworld.BubbleGoroutines(); len(lk) > 0 {
			viol("leak|goroutines-alive-after-close", "%s", lk[0])
		}
	}()
	for dial := 0; dial < cs.Dials; dial++ {
		ctx, cancel := context.WithTimeout(context.Background(), 10*time.Minute)
		type acc struct {
			c   *quic.Conn
			err error
		}
		accCh := make(chan acc, 1)
		go func() {
			sc, err := w.Accept(ctx)
			accCh <- acc{sc, err}
		}()
		cc, err := w.Dial(ctx)
		if err != nil {
			cancel()
			<-accCh
			viol("harness|dial-failed", "%v", err)
			return
		}
		a := <-accCh
		if a.err != nil {
			cancel()
			viol("harness|accept-failed", "%v", a.err)
			return
		}
		sc := a.c
		ts := quicworld.TransferSpec{Streams: []quicworld.StreamSpec{{Bytes: 20000, Reply: 20000}}, ChunkSeed: uint64(dial)}
		if cs.BulkMB > 0 {
			ts.Streams = []quicworld.StreamSpec{{Bytes: int64(cs.BulkMB) << 20, Reply: int64(cs.BulkMB) << 20}}
			ts.MaxChunk = 60000
			ts.Deadline = 5 * time.Minute
		}
		tr := quicworld.RunTransfer(ctx, cc, sc, dial, ts)
		if !tr.Completed {
			cancel()
			viol("harness|transfer-incomplete", "client %v server %v", tr.ClientCause, tr.ServerCause)
			return
		}
		time.Sleep(500 * time.Millisecond) // let NEW_CONNECTION_ID / RETIRE_CONNECTION_ID exchanges settle
		taps := w.Wire.Snapshot()
		tap := taps[len(taps)-1]

		// ---- while the connection is alive: every issued and not retired ID is routed by its issuer
		check := func(side string, tr *quic.Transport, issuer wiretap.Dir, hsCID []byte) {
			routed, _, tokens := quic.VerifRouting(tr)
			w.Wire.Lock()
			issued := map[uint64][]byte{}
			for s, id := range tap.IssuedCIDs[issuer] {
				issued[s] = id
			}
			retired := map[uint64]bool{}
			for s := range tap.RetiredSeqs[issuer.Other()] {
				retired[s] = true
			}
			w.Wire.Unlock()
			if len(hsCID) > 0 && !retired[0] {
				issued[0] = hsCID
			}
			live := 0
			for seq, id := range issued {
				if retired[seq] {
					continue
				}
				live++
				if !routed[string(id)] {
					viol("issued-id-not-routed|"+side, "%s issued connection ID %x (sequence number %d), the peer has not retired it, but the transport does not route it; routed: %d IDs", side, id, seq, len(routed))
				}
			}
			l.Count("live_ids_checked_"+side, int64(live))
			l.Count("retired_ids_seen_"+side, int64(len(retired)))
			l.Max("max:reset_tokens_"+side, int64(tokens))
			// a foreign ID is not routed
			foreign := []byte{0xde, 0xad, 0xbe, 0xef, 0x01, 0x02, 0x03, 0x04, 0x05}
			if routed[string(foreign)] {
				viol("foreign-id-routed|"+side, "a connection ID that was never issued is routed")
			}
			if side == "client" && tokens == 0 && len(tap.ResetTokens[wiretap.S2C]) > 0 {
				viol("reset-token-not-registered|client", "the server issued %d stateless reset tokens, the client transport has none registered", len(tap.ResetTokens[wiretap.S2C]))
			}
		}
		check("server", w.ServerTr, wiretap.S2C, tap.ServerSCID)
		check("client", w.ClientTr, wiretap.C2S, tap.ClientSCID)
		// ---- a foreign ID never reaches the connection, also not behind a packet with a valid ID: a datagram
		// whose first packet is a long header packet for the connection (right version and ID, undecryptable:
		// the Initial keys are gone) followed by a correctly protected 1-RTT packet that names another
		// connection ID and carries a CONNECTION_CLOSE.  Processing the second packet would end the connection.
		for _, victimIsClient := range []bool{true, false} {
			sender, from, to := wiretap.S2C, net.Addr(quicworld.ServerAddr), net.Addr(quicworld.ClientAddr)
			if !victimIsClient {
				sender, from, to = wiretap.C2S, to, from
			}
			w.Wire.Lock()
			valid := append([]byte(nil), tap.LastDCID[sender]...)
			ver := tap.Version
			w.Wire.Unlock()
			if len(valid) == 0 {
				continue // the victim uses zero-length IDs: there is no "other" ID of the same length
			}
			foreign := make([]byte, len(valid))
			for i := range foreign {
				foreign[i] = valid[i] ^ 0x5a
			}
			short, err := tap.ForgeShortTo(sender, foreign, wiretap.ConnectionCloseFrame(0x0a, "forged"))
			if err != nil {
				viol("harness|forge", "%v", err)
				break
			}
			long := wiretap.InitialPacket(ver, sender, []byte{1, 2, 3, 4, 5, 6, 7, 8}, valid, []byte{9, 9, 9, 9}, nil, 3, []byte{0x01}, 300)
			w.Router.Inject(sender, from, to, append(long, short...), 0)
			time.Sleep(200 * time.Millisecond)
			l.Count("coalesced_foreign_id_datagrams", 1)
			if cc.Context().Err() != nil || sc.Context().Err() != nil {
				viol("foreign-id-reached-connection|coalesced", "a 1-RTT packet with destination connection ID %x (never issued) coalesced behind a long header packet for %x was processed: client %v, server %v", foreign, valid, context.Cause(cc.Context()), context.Cause(sc.Context()))
				cancel()
				return
			}
		}
		if cs.BulkMB > 0 {
			w.Wire.Lock()
			rot := len(tap.RetiredSeqs[wiretap.C2S]) + len(tap.RetiredSeqs[wiretap.S2C])
			w.Wire.Unlock()
			l.Count("retire_frames_in_rotation_cases", int64(rot))
		}

		// ---- end the connection
		switch cs.Close {
		case "client":
			cc.CloseWithError(7, "bye")
		case "server":
			sc.CloseWithError(8, "bye")
		case "idle":
			w.Router.SetBlackhole(wiretap.C2S, true)
			w.Router.SetBlackhole(wiretap.S2C, true)
			time.Sleep(idle + 2*time.Second)
			w.Router.SetBlackhole(wiretap.C2S, false)
			w.Router.SetBlackhole(wiretap.S2C, false)
		case "client-send-error":
			// the socket refuses the CONNECTION_CLOSE datagram: the connection must be unrouted all the same
			w.ClientSendFails.Store(true)
			cc.CloseWithError(7, "bye")
			time.Sleep(10 * time.Millisecond)
			w.ClientSendFails.Store(false)
			sc.CloseWithError(0, "")
		case "server-send-error":
			w.ServerSendFails.Store(true)
			sc.CloseWithError(8, "bye")
			time.Sleep(10 * time.Millisecond)
			w.ServerSendFails.Store(false)
			cc.CloseWithError(0, "")
		case "client-transport":
			if dial == cs.Dials-1 {
				w.ClientTr.Close()
			} else {
				cc.CloseWithError(0, "")
			}
		case "server-transport":
			if dial == cs.Dials-1 {
				w.Listener.Close()
				w.ServerTr.Close()
			} else {
				sc.CloseWithError(0, "")
			}
		}
		select {
		case <-cc.Context().Done():
		case <-time.After(idle + 5*time.Second):
			viol("harness|client-not-closed", "")
		}
		select {
		case <-sc.Context().Done():
		case <-time.After(idle + 5*time.Second):
			sc.CloseWithError(0, "")
		}
		cancel()
		// ---- right after the close the IDs may still be routed (to a closed-connection placeholder) ...
		_, closedS, _ := quic.VerifRouting(w.ServerTr)
		_, closedC, _ := quic.VerifRouting(w.ClientTr)
		l.Count("closed_placeholders_seen", int64(closedS+closedC))
		// ---- ... and after the closing period everything is gone
		time.Sleep(30 * time.Second)
		for side, tr := range map[string]*quic.Transport{"server": w.ServerTr, "client": w.ClientTr} {
			routed, _, tokens := quic.VerifRouting(tr)
			if len(routed) > 0 {
				ids := ""
				for id := range routed {
					ids += fmt.Sprintf(" %x", id)
				}
				viol("ids-still-routed-after-closing-period|"+side, "30 s (virtual) after the connection ended (%s) the %s transport still routes %d connection IDs:%s", cs.Close, side, len(routed), ids)
			}
			if tokens > 0 {
				viol("reset-tokens-left-after-closing-period|"+side, "%d stateless reset tokens still registered at the %s transport", tokens, side)
			}
		}
		l.Count("connections_checked", 1)
		c.Eval(fmt.Sprintf("%s/dial%d", cs.Name, dial))
	}
	c.Sample(cs.Close, map[string]any{"case": cs.Name})
}
