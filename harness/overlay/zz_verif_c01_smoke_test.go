package quic_test

import (
	"context"
	"fmt"
	"io"
	"testing"
	"testing/synctest"
	"time"

	"github.com/refraction-networking/uquic/internal/verif/quicworld"
)

func TestVerifC01Smoke(t *testing.T) {
	synctest.Test(t, func(t *testing.T) {
		w, err := quicworld.New(quicworld.Options{})
		if err != nil {
			t.Fatal(err)
		}
		defer w.Close()
		ctx, cancel := context.WithTimeout(context.Background(), 30*time.Second)
		defer cancel()
		go func() {
			sc, err := w.Accept(ctx)
			if err != nil {
				return
			}
			s, err := sc.AcceptStream(ctx)
			if err != nil {
				return
			}
			b, _ := io.ReadAll(s)
			s.Write(b)
			s.Close()
		}()
		c, err := w.Dial(ctx)
		if err != nil {
			t.Fatal(err)
		}
		s, _ := c.OpenStreamSync(ctx)
		s.Write(make([]byte, 30000))
		s.Close()
		b, err := io.ReadAll(s)
		fmt.Println("echo", len(b), err)
		c.CloseWithError(0, "")
		time.Sleep(time.Second)
		for _, ct := range w.Wire.Snapshot() {
			fmt.Println("conn", ct.ID, "unopened", ct.Unopened, "anomalies", ct.Anomalies, "suite", ct.Suite, "alpn", ct.ALPN)
			for k, v := range ct.Counts {
				fmt.Println("  ", k, v)
			}
			fmt.Println(" clientTP", ct.ClientTP != nil, "serverTP", ct.ServerTP != nil, "closes", len(ct.Closes[0]), len(ct.Closes[1]))
		}
	})
}
