package quic_test

import (
	"context"
	"fmt"
	"sync"
	"testing"
	"testing/synctest"
	"time"

	quic "github.com/refraction-networking/uquic"
	"github.com/refraction-networking/uquic/internal/verif/quicworld"
	"github.com/refraction-networking/uquic/internal/verif/simworld"
	"github.com/refraction-networking/uquic/internal/verif/specgen"
	"github.com/refraction-networking/uquic/internal/verif/wiretap"
)

func probeRun(t *testing.T, name string, spec *quic.QUICSpec, conf *quic.Config, live bool, wait time.Duration) {
	probeRunPN(t, name, spec, conf, live, wait, -1)
}

func probeRunPN(t *testing.T, name string, spec *quic.QUICSpec, conf *quic.Config, live bool, wait time.Duration, exp0 int64) {
	synctest.Test(t, func(t *testing.T) {
		opt := quicworld.Options{ClientKind: "spec", Spec: spec, NoServer: !live, NoTap: true, ClientConf: conf}
		w, err := quicworld.New(opt)
		if err != nil {
			t.Fatal(err)
		}
		var mu sync.Mutex
		var caps [][]byte
		w.Router.OnEmit = func(d *wiretap.DatagramInfo) *simworld.Action {
			if d.Dir == wiretap.C2S {
				mu.Lock()
				caps = append(caps, d.Raw)
				mu.Unlock()
			}
			return nil
		}
		for dial := 0; dial < 1; dial++ {
			ctx, cancel := context.WithTimeout(context.Background(), wait)
			conn, err := w.Dial(ctx)
			cancel()
			if conn != nil {
				conn.CloseWithError(0, "")
			}
			time.Sleep(100 * time.Millisecond)
			mu.Lock()
			cs := caps
			caps = nil
			mu.Unlock()
			fmt.Printf("== %s dial %d err=%v datagrams=%d\n", name, dial, err, len(cs))
			exp := exp0
			prev := int64(-1)
			for i, raw := range cs {
				if i >= 4 {
					break
				}
				d := specgen.Decode(raw, nil, exp, prev)
				for _, p := range d.Pkts {
					if p.Opened {
						prev = int64(p.PN)
						if exp >= 0 {
							exp++
						}
					}
					lay := p.Layout()
					if len(lay) > 150 {
						lay = lay[:150] + "..."
					}
					fmt.Printf("  dg%d len=%d trail=%d kind=%v dcid=%d scid=%d tok=%d pn=%d/%d hint=%s opened=%v err=%s payload=%d hdr=%d : %s\n", i, len(raw), d.Trailing, p.Kind, len(p.DCID), len(p.SCID), len(p.Token), p.PN, p.PNLen, p.Hint, p.Opened, p.Err, len(p.Payload), p.HdrLen, lay)
				}
				if len(d.Pkts) == 0 {
					fmt.Printf("  dg%d len=%d no packets: %s\n", i, len(raw), d.SplitErr)
				}
			}
		}
		w.Close()
		time.Sleep(3 * time.Second)
	})
}

func TestVerifC10Probe(t *testing.T) {
	mk := func(k string, f func(s *quic.QUICSpec)) *quic.QUICSpec {
		spec := &quic.QUICSpec{InitialPacketSpec: quic.InitialPacketSpec{DestConnIDLength: 8, SrcConnIDLength: 3}, ClientHelloSpec: specgen.HelloSpec(k, specgen.DefaultQTP())}
		f(spec)
		return spec
	}
	w := 500 * time.Millisecond
	probeRun(t, "udp 1452", mk("small", func(s *quic.QUICSpec) { s.UDPDatagramMinSize = 1452 }), nil, false, w)
	probeRun(t, "pn 2^64-1 deprecated len 1 + token store", mk("small", func(s *quic.QUICSpec) { s.InitialPacketSpec.InitPacketNumber = 1<<64 - 1; s.InitialPacketSpec.InitPacketNumberLength = 1; s.InitialPacketSpec.TokenStore = &specgen.TokenStore{Tok: []byte("hello")} }), nil, false, w)
	probeRun(t, "random overshoot pq", mk("pq", func(s *quic.QUICSpec) { s.InitialPacketSpec.FrameBuilder = &quic.QUICRandomFrames{MinPING: 3, MaxPING: 4, MinCRYPTO: 40, MaxCRYPTO: 41, MinPADDING: 1, MaxPADDING: 2, Length: 1250} }), nil, false, w)
	probeRun(t, "random plan size", mk("pq", func(s *quic.QUICSpec) { s.InitialPacketSpec.FrameBuilder = &quic.QUICRandomFrames{MinPING: 1, MaxPING: 2, MinCRYPTO: 2, MaxCRYPTO: 3, MinPADDING: 1, MaxPADDING: 3, Length: 1000}; s.InitialPacketSpec.InitialPackets = []quic.InitialPacketPlan{{CryptoLength: 900, PacketSize: 1250}, {PacketSize: 1220}} }), nil, false, w)
	probeRun(t, "plan 100/1200, 0/1250", mk("mid", func(s *quic.QUICSpec) { s.InitialPacketSpec.InitialPackets = []quic.InitialPacketPlan{{CryptoLength: 100, PacketSize: 1200}, {PacketSize: 1250}} }), nil, false, w)
	probeRun(t, "plan size 300 too small", mk("mid", func(s *quic.QUICSpec) { s.InitialPacketSpec.InitialPackets = []quic.InitialPacketPlan{{PacketSize: 300}} }), nil, false, w)
	probeRun(t, "plan size 1400 > 1280", mk("mid", func(s *quic.QUICSpec) { s.InitialPacketSpec.InitialPackets = []quic.InitialPacketPlan{{PacketSize: 1400}} }), nil, false, w)
	probeRun(t, "frames", mk("mid", func(s *quic.QUICSpec) { s.InitialPacketSpec.FrameBuilder = quic.QUICFrames{quic.QUICFramePing{}, quic.QUICFrameCrypto{Offset: 100, Length: 0}, quic.QUICFramePadding{Length: 10}, quic.QUICFramePadding{Length: 5}, quic.QUICFrameCrypto{Offset: 0, Length: 100}} }), nil, false, w)
	probeRun(t, "flight", mk("mid", func(s *quic.QUICSpec) { s.InitialPacketSpec.FrameBuilder = &quic.QUICFlightFrames{Datagrams: []quic.QUICFrames{{quic.QUICFrameCrypto{Offset: -100}, quic.QUICFramePing{}}, {quic.QUICFrameCrypto{Offset: 0, Length: -100}}}} }), nil, false, w)
}
