package quic_test

// C13 — handshakes converge or fail cleanly; forged packets cannot change the outcome.
//
// One synctest bubble per case.  A real client and server establish a connection over the
// simulated network while the fault router drops / duplicates / reorders handshake datagrams and
// acts as an on-path attacker that injects crafted Version Negotiation, Retry and Initial
// packets (built by the independent wire observer, not by the code under test).

import (
	"bytes"
	"context"
	"fmt"
	"io"
	"net"
	"sort"
	"strings"
	"sync"
	"testing"
	"testing/synctest"
	"time"

	quic "github.com/refraction-networking/uquic"
	"github.com/refraction-networking/uquic/internal/verif/evlog"
	"github.com/refraction-networking/uquic/internal/verif/quicworld"
	"github.com/refraction-networking/uquic/internal/verif/simworld"
	"github.com/refraction-networking/uquic/internal/verif/wiretap"
	tls "github.com/refraction-networking/utls"
)

type c13Case struct {
	Name     string            `json:"name"`
	Scenario string            `json:"scenario"` // plain retry vneg longchain resume 0rtt-accept 0rtt-reject
	Client   string            `json:"client"`
	Sched    simworld.Schedule `json:"schedule"`
	Inject   string            `json:"inject,omitempty"` // vn vn-listing-offered retry-valid retry-badtag retry-wrong-odcid initial-close initial-garbage initial-other-scid
	When     string            `json:"when,omitempty"`   // before | after (a genuine server packet was processed by the client)
	// 0-RTT scenarios: this many additional unidirectional streams of EarlySize bytes each are written and
	// closed before the handshake completes (more early data than the initial congestion window lets out at once)
	EarlyStreams int `json:"early_streams,omitempty"`
	EarlySize    int `json:"early_size,omitempty"`
}

const c13HandshakeIdle = 5 * time.Second

func TestVerifC13Handshake(t *testing.T) { c13Test(t, false) }

// The same handshakes under the race detector (job built with -race): the fault-free case, single
// faults and injections of every scenario, and a sample of the multi-fault schedules.
func TestVerifC13HandshakeRace(t *testing.T) { c13Test(t, true) }

func c13Test(t *testing.T, race bool) {
	l := evlog.Open("C13")
	defer l.Close()
	var cases []c13Case
	rtt := 10 * time.Millisecond
	acts := []simworld.Action{{Kind: "drop"}, {Kind: "dup", Delay: 2 * rtt}, {Kind: "delay", Delay: 4 * rtt}}
	clients := []string{"plain", "Chrome_115_IPv4", "Firefox_116A"}
	scen := []string{"plain", "retry", "vneg", "longchain", "resume", "0rtt-accept", "0rtt-reject"}
	for _, sc := range scen {
		for _, cl := range clients {
			if cl != "plain" && (sc == "vneg" || sc == "0rtt-accept" || sc == "0rtt-reject" || sc == "resume") {
				continue // parrots pin their own ClientHello (no session cache) and version
			}
			cases = append(cases, c13Case{Name: fmt.Sprintf("clean/%s/%s", sc, cl), Scenario: sc, Client: cl})
			n := l.Pick(8, 10)
			if cl != "plain" && l.Quick() {
				n = 5
			}
			for d := 0; d < 2; d++ {
				for o := 0; o < n; o++ {
					for ai, a := range acts {
						cases = append(cases, c13Case{Name: fmt.Sprintf("k1/%s/%s/d%d-o%d-f%d", sc, cl, d, o, ai), Scenario: sc, Client: cl,
							Sched: simworld.Schedule{Faults: []simworld.Fault{{Dir: wiretap.Dir(d), Ordinal: o, Action: a}}}})
					}
				}
			}
		}
	}
	injects := []string{"vn", "vn-listing-offered", "retry-valid", "retry-badtag", "retry-wrong-odcid", "initial-close", "initial-garbage", "initial-other-scid"}
	for _, sc := range []string{"plain", "retry", "longchain"} {
		for _, cl := range clients {
			for _, inj := range injects {
				for _, when := range []string{"before", "after"} {
					cases = append(cases, c13Case{Name: fmt.Sprintf("inject/%s/%s/%s/%s", sc, cl, inj, when), Scenario: sc, Client: cl, Inject: inj, When: when})
					{
						// the same injection combined with a loss on the genuine exchange
						for _, o := range []int{0, 1} {
							cases = append(cases, c13Case{Name: fmt.Sprintf("inject+loss/%s/%s/%s/%s/s2c-o%d", sc, cl, inj, when, o), Scenario: sc, Client: cl, Inject: inj, When: when,
								Sched: simworld.Schedule{Faults: []simworld.Fault{{Dir: wiretap.S2C, Ordinal: o, Action: simworld.Action{Kind: "drop"}}}}})
						}
					}
				}
			}
		}
	}
	// forged client Initial packets with a foreign source connection ID, aimed at the server after it answered
	for _, sc := range []string{"plain", "retry", "longchain"} {
		for _, cl := range clients {
			for _, inj := range []string{"c2s-initial-other-scid-close", "c2s-initial-other-scid-garbage"} {
				cases = append(cases, c13Case{Name: fmt.Sprintf("inject/%s/%s/%s/after", sc, cl, inj), Scenario: sc, Client: cl, Inject: inj, When: "server-answered"})
				cases = append(cases, c13Case{Name: fmt.Sprintf("inject+loss/%s/%s/%s/after/s2c-o0", sc, cl, inj), Scenario: sc, Client: cl, Inject: inj, When: "server-answered",
					Sched: simworld.Schedule{Faults: []simworld.Fault{{Dir: wiretap.S2C, Ordinal: 0, Action: simworld.Action{Kind: "drop"}}}}})
			}
		}
	}
	// version negotiation: a forged Version Negotiation packet that follows the genuine one (aimed at the
	// re-created connection, before the server's first reply) must be ignored
	for _, cl := range []string{"plain", "unil"} {
		for _, inj := range []string{"vn", "vn-listing-offered"} {
			cases = append(cases, c13Case{Name: fmt.Sprintf("inject/vneg/%s/%s/after-genuine-vn", cl, inj), Scenario: "vneg", Client: cl, Inject: inj, When: "after-genuine-vn"})
			cases = append(cases, c13Case{Name: fmt.Sprintf("inject+loss/vneg/%s/%s/after-genuine-vn/s2c-o1", cl, inj), Scenario: "vneg", Client: cl, Inject: inj, When: "after-genuine-vn",
				Sched: simworld.Schedule{Faults: []simworld.Fault{{Dir: wiretap.S2C, Ordinal: 1, Action: simworld.Action{Kind: "drop"}}}}})
		}
	}
	for _, sc := range scen {
		// UTransport without a spec through every scenario (fault-free and with single drops)
		cases = append(cases, c13Case{Name: fmt.Sprintf("clean/%s/unil", sc), Scenario: sc, Client: "unil"})
		for d := 0; d < 2; d++ {
			for o := 0; o < l.Pick(3, 8); o++ {
				cases = append(cases, c13Case{Name: fmt.Sprintf("k1/%s/unil/d%d-o%d-drop", sc, d, o), Scenario: sc, Client: "unil",
					Sched: simworld.Schedule{Faults: []simworld.Fault{{Dir: wiretap.Dir(d), Ordinal: o, Action: simworld.Action{Kind: "drop"}}}}})
			}
		}
	}
	{
		// seeded schedules of two and three faults, over every client kind the scenario allows
		rng := l.Rand("c13k2")
		for i := 0; i < l.Pick(15000, 200000); i++ {
			sc := scen[rng.IntN(len(scen))]
			cl := "plain"
			switch sc {
			case "vneg", "0rtt-accept", "0rtt-reject", "resume":
				cl = []string{"plain", "unil"}[rng.IntN(2)]
			default:
				cl = []string{"plain", "unil", "Chrome_115_IPv4", "Firefox_116A"}[rng.IntN(4)]
			}
			var fs []simworld.Fault
			for j := 0; j < 2+rng.IntN(2); j++ {
				fs = append(fs, simworld.Fault{Dir: wiretap.Dir(rng.IntN(2)), Ordinal: rng.IntN(10), Action: acts[rng.IntN(len(acts))]})
			}
			cases = append(cases, c13Case{Name: fmt.Sprintf("k%d/%s/%s/%04d", len(fs), sc, cl, i), Scenario: sc, Client: cl, Sched: simworld.Schedule{Faults: fs}})
		}
	}
	{
		// early data volume: two thirds of the 0-RTT cases carry 3 / 40 / 90 extra early streams
		vr := l.Rand("c13early")
		for i := range cases {
			if cases[i].Scenario == "0rtt-accept" || cases[i].Scenario == "0rtt-reject" {
				cases[i].EarlyStreams = []int{0, 3, 40, 90}[vr.IntN(4)]
				cases[i].EarlySize = []int{1, 200, 1000, 1300}[vr.IntN(4)]
			}
		}
	}
	if race {
		// every 4th single-fault / injection case, every 40th multi-fault schedule
		var sub []c13Case
		for i, cs := range cases {
			multi := len(cs.Sched.Faults) > 1
			if (!multi && i%4 == int(l.Seed()%4)) || (multi && i%40 == int(l.Seed()%40)) {
				sub = append(sub, cs)
			}
		}
		cases = sub
	}
	for i, cs := range cases {
		if !l.Mine(i) {
			continue
		}
		c := l.Begin("C13/"+cs.Name, cs)
		if c == nil {
			continue
		}
		synctest.Test(t, func(t *testing.T) { runC13(l, c, &cs, i) })
		c.End()
	}
}

type c13Outcome struct {
	dialErr, acceptErr error
	dialTook           time.Duration
	cstate, sstate     *quic.ConnectionState
	earlyRead          map[string]int // 0-RTT payload id -> times the server application read it
	echoOK             bool
}

func runC13(l *evlog.Log, c *evlog.Case, cs *c13Case, idx int) {
	var world *quicworld.World
	viol := func(sig, f string, a ...any) {
		tr := map[string]any{"case": cs}
		if world != nil {
			tr["router"] = world.Router.LogCopy()
			if taps := world.Wire.Snapshot(); len(taps) > 0 {
				tr["wire"] = taps[len(taps)-1].Describe(30)
			}
		}
		c.Violation("C13|"+cs.Scenario+"|"+sig, fmt.Sprintf(f, a...), tr)
	}
	opt := quicworld.Options{RTT: 10 * time.Millisecond, Schedule: cs.Sched}
	sconf := &quic.Config{HandshakeIdleTimeout: c13HandshakeIdle, MaxIdleTimeout: 30 * time.Second}
	cconf := &quic.Config{HandshakeIdleTimeout: c13HandshakeIdle, MaxIdleTimeout: 30 * time.Second}
	opt.ServerConf, opt.ClientConf = sconf, cconf
	switch cs.Scenario {
	case "retry":
		opt.VerifySourceAddress = func(net.Addr) bool { return true }
	case "vneg":
		sconf.Versions = []quic.Version{quic.Version1}
		cconf.Versions = []quic.Version{quic.Version2, quic.Version1}
	case "longchain":
		opt.CertIntermediates = 8
	case "resume", "0rtt-accept", "0rtt-reject":
		cache := tls.NewLRUClientSessionCache(10)
		opt.ClientTLS = func(c *tls.Config) { c.ClientSessionCache = cache }
		opt.Early = true
		sconf.Allow0RTT = cs.Scenario != "resume"
	}
	if cs.Client == "unil" {
		opt.ClientKind = "unil"
	} else if cs.Client != "plain" {
		spec, err := quic.QUICID2Spec(quicworld.QUICIDs[cs.Client])
		if err != nil {
			viol("harness", "QUICID2Spec: %v", err)
			return
		}
		opt.ClientKind, opt.Spec = "spec", &spec
	}
	w, err := quicworld.New(opt)
	if err != nil {
		viol("harness", "world: %v", err)
		return
	}
	world = w
	defer func() {
		// "releases its state": long after every connection of the case ended (completed ones were closed,
		// failed ones timed out) neither transport may still route a connection ID or hold a reset token
		time.Sleep(3 * time.Minute)
		synctest.Wait()
		for _, tr := range []struct {
			name string
			t    *quic.Transport
		}{{"client", w.ClientTr}, {"server", w.ServerTr}} {
			if tr.t == nil {
				continue
			}
			cids, closed, tokens := quic.VerifRouting(tr.t)
			l.Count("routing_tables_inspected", 1)
			if len(cids) > 0 || tokens > 0 {
				var ids []string
				for id := range cids {
					ids = append(ids, fmt.Sprintf("%x", id))
				}
				sort.Strings(ids)
				viol("leak|routing-entries-after-the-end|"+tr.name, "3 min (virtual) after the case ended the %s transport still routes %d connection ID(s) %v (%d to closed-connection placeholders) and holds %d stateless reset token(s)", tr.name, len(cids), ids, closed, tokens)
			}
		}
		w.Close()
		time.Sleep(time.Minute)
		synctest.Wait()
		if lk := quicworld.BubbleGoroutines(); len(lk) > 0 {
			viol("leak|goroutines-alive-after-close", "%d goroutine(s) still alive 1 min (virtual) after everything was closed:\n%s", len(lk), lk[0])
		}
	}()

	// ---- the on-path attacker
	var imu sync.Mutex
	injected := false
	genuineProcessed := false
	genuineVN := false
	oldSCIDs := map[string]bool{}
	clientSentHandshake := false // the client discards its Initial keys when it first sends a Handshake packet
	injectedAfterHandshakePkt := false
	forgedToken := []byte("forged-retry-token-0123456789")
	if cs.Inject != "" {
		w.Router.SetOnEmit(func(d *wiretap.DatagramInfo) *simworld.Action {
			if d.Dir == wiretap.S2C {
				for _, p := range d.Packets {
					if p.Kind == wiretap.KindVN {
						imu.Lock()
						genuineVN = true
						imu.Unlock()
					}
				}
				// forged *client* Initial packets (public keys, another source connection ID) aimed at the server
				// right after it has answered the genuine Initial
				if strings.HasPrefix(cs.Inject, "c2s-") && d.Conn != nil && len(d.Packets) > 0 && (d.Packets[0].Kind == wiretap.KindInitial || d.Packets[0].Kind == wiretap.KindHandshake) {
					imu.Lock()
					defer imu.Unlock()
					if injected {
						return nil
					}
					tap := d.Conn
					ver, odcid := tap.Version, tap.ODCID
					payload := wiretap.ConnectionCloseFrame(0x2, "forged")
					if cs.Inject == "c2s-initial-other-scid-garbage" {
						payload = wiretap.CryptoFrame(0, []byte{1, 0, 0, 9, 0xde, 0xad, 0xbe, 0xef, 1, 2, 3, 4, 5})
					}
					pkt := wiretap.InitialPacket(ver, wiretap.C2S, odcid, odcid, []byte{0x66, 0x6f, 0x72, 0x67, 0x65, 0x64}, nil, 9, payload, 1200)
					injected = true
					injectedAfterHandshakePkt = true
					w.Router.Inject(wiretap.C2S, quicworld.ClientAddr, quicworld.ServerAddr, pkt, time.Millisecond)
				}
				return nil
			}
			if d.Conn == nil || strings.HasPrefix(cs.Inject, "c2s-") {
				return nil
			}
			imu.Lock()
			defer imu.Unlock()
			if cs.When == "after-genuine-vn" {
				// the first Initial of the re-created connection: the old connection keeps its source
				// connection ID and answers with a CONNECTION_CLOSE in the old version, so the new one
				// is recognised by a source connection ID that was not seen before the genuine packet
				if len(d.Packets) == 0 || d.Packets[0].Kind != wiretap.KindInitial {
					return nil
				}
				first := d.Packets[0]
				if !genuineVN {
					oldSCIDs[string(first.SCID)] = true
					return nil
				}
				if injected || oldSCIDs[string(first.SCID)] {
					return nil
				}
				vers := []uint32{0x1a2a3a4a, 0xff00001d}
				if cs.Inject == "vn-listing-offered" {
					vers = []uint32{0x1a2a3a4a, first.Version}
				}
				injected = true
				injectedAfterHandshakePkt = true
				w.Router.Inject(wiretap.S2C, quicworld.ServerAddr, quicworld.ClientAddr, wiretap.VersionNegotiation(first.DCID, first.SCID, vers), time.Millisecond)
				return nil
			}
			// the client has processed a genuine server packet once it acknowledges one or sends Handshake packets
			for _, p := range d.Packets {
				if p.Kind == wiretap.KindHandshake {
					genuineProcessed = true
					clientSentHandshake = true
				}
				for _, f := range p.Frames {
					if f.Type == wiretap.FtAck || f.Type == wiretap.FtAckECN {
						genuineProcessed = true
					}
				}
			}
			if injected || (cs.When == "after") != genuineProcessed {
				return nil
			}
			if len(d.Packets) == 0 {
				return nil
			}
			first := d.Packets[0]
			if cs.When == "before" && first.Kind != wiretap.KindInitial {
				return nil
			}
			tap := d.Conn
			ver, odcid, cscid := tap.Version, tap.ODCID, tap.ClientSCID
			sscid := tap.ServerSCID
			if len(sscid) == 0 {
				sscid = []byte{9, 9, 9, 9, 9, 9, 9, 9}
			}
			var pkt []byte
			switch cs.Inject {
			case "vn":
				pkt = wiretap.VersionNegotiation(first.DCID, cscid, []uint32{0x1a2a3a4a, 0xff00001d})
			case "vn-listing-offered":
				pkt = wiretap.VersionNegotiation(first.DCID, cscid, []uint32{0x1a2a3a4a, ver})
			case "retry-valid":
				pkt = wiretap.Retry(ver, cscid, []byte{7, 7, 7, 7, 7, 7, 7, 7}, forgedToken, first.DCID, false)
			case "retry-badtag":
				pkt = wiretap.Retry(ver, cscid, []byte{7, 7, 7, 7, 7, 7, 7, 7}, forgedToken, first.DCID, true)
			case "retry-wrong-odcid":
				pkt = wiretap.Retry(ver, cscid, []byte{7, 7, 7, 7, 7, 7, 7, 7}, forgedToken, []byte{1, 2, 3, 4, 5, 6, 7, 8, 9}, false)
			case "initial-close":
				pkt = wiretap.InitialPacket(ver, wiretap.S2C, odcid, cscid, sscid, nil, 77, wiretap.ConnectionCloseFrame(0x2, "forged"), 1200)
			case "initial-garbage":
				pkt = wiretap.InitialPacket(ver, wiretap.S2C, odcid, cscid, sscid, nil, 78, wiretap.CryptoFrame(0, []byte{2, 0, 0, 9, 0xde, 0xad, 0xbe, 0xef, 1, 2, 3, 4, 5}), 1200)
			case "initial-other-scid":
				pkt = wiretap.InitialPacket(ver, wiretap.S2C, odcid, cscid, []byte{6, 6, 6, 6, 6, 6}, nil, 79, []byte{0x01}, 1200)
			}
			injected = true
			injectedAfterHandshakePkt = clientSentHandshake
			w.Router.Inject(wiretap.S2C, quicworld.ServerAddr, quicworld.ClientAddr, pkt, time.Millisecond)
			return nil
		})
	}

	// ---- first connection for resumption scenarios (fault-free: the schedule applies to the measured dial)
	payloadID := fmt.Sprintf("early-%d", idx)
	var earlyMu sync.Mutex
	earlyRead := map[string]int{}
	earlyKey := func(b []byte) string { // extra early streams carry "<id>|filler"
		if i := bytes.IndexByte(b, '|'); i >= 0 {
			return string(b[:i])
		}
		return string(b)
	}
	serve := func(ctx context.Context, sc *quic.Conn) {
		go func() {
			for {
				s, err := sc.AcceptUniStream(ctx)
				if err != nil {
					return
				}
				go func() {
					if b, err := io.ReadAll(s); err == nil {
						earlyMu.Lock()
						earlyRead[earlyKey(b)]++
						earlyMu.Unlock()
					}
				}()
			}
		}()
		// echo server: every stream is read to EOF and answered with the same bytes
		for {
			s, err := sc.AcceptStream(ctx)
			if err != nil {
				return
			}
			go func() {
				b, err := io.ReadAll(s)
				if err == nil {
					earlyMu.Lock()
					earlyRead[string(b)]++
					earlyMu.Unlock()
					s.Write(b)
				}
				s.Close()
			}()
		}
	}
	echo := func(ctx context.Context, cc *quic.Conn, msg string) error {
		s, err := cc.OpenStreamSync(ctx)
		if err != nil {
			return err
		}
		if _, err := s.Write([]byte(msg)); err != nil {
			return err
		}
		s.Close()
		b, err := io.ReadAll(s)
		if err != nil {
			return err
		}
		if string(b) != msg {
			return fmt.Errorf("echo mismatch: %q", b)
		}
		return nil
	}
	var serveWG sync.WaitGroup
	defer serveWG.Wait()
	if cs.Scenario == "resume" || cs.Scenario == "0rtt-accept" || cs.Scenario == "0rtt-reject" {
		saved := w.Router.GetOnEmit()
		w.Router.SetOnEmit(nil)
		w.Router.SuspendFaults(true)
		ctx, cancel := context.WithTimeout(context.Background(), 20*time.Second)
		done := make(chan *quic.Conn, 1)
		go func() {
			sc, err := w.Accept(ctx)
			if err != nil {
				done <- nil
				return
			}
			done <- sc
			serveWG.Add(1)
			go func() { defer serveWG.Done(); serve(ctx, sc) }()
		}()
		cc, err := w.Dial(ctx)
		sc := <-done
		if err != nil || sc == nil {
			cancel()
			c.Eval("")
			l.Count("priming_connection_failed", 1)
			return
		}
		if err := echo(ctx, cc, "prime"); err != nil {
			cancel()
			cc.CloseWithError(0, "")
			sc.CloseWithError(0, "")
			c.Eval("")
			l.Count("priming_connection_failed", 1)
			return
		}
		time.Sleep(100 * time.Millisecond) // session ticket
		cc.CloseWithError(0, "")
		sc.CloseWithError(0, "")
		cancel()
		time.Sleep(200 * time.Millisecond)
		w.Router.SetOnEmit(saved)
		if cs.Scenario == "0rtt-reject" {
			// the server comes back with different transport parameters: 0-RTT must be rejected
			w.EarlyLn.Close()
			conf2 := sconf.Clone()
			conf2.MaxIncomingStreams = 37
			ln, err := w.ServerTr.ListenEarly(w.ServerTLSConf, conf2)
			if err != nil {
				viol("harness", "re-listen: %v", err)
				return
			}
			w.EarlyLn = ln
		}
		w.Wire.ResetOrdinals()
		w.Router.SuspendFaults(false)
	}

	// ---- the measured handshake
	out := &c13Outcome{}
	ctx, cancel := context.WithTimeout(context.Background(), 60*time.Second)
	defer cancel()
	type acc struct {
		c   *quic.Conn
		err error
	}
	accCh := make(chan acc, 1)
	actx, acancel := context.WithCancel(ctx)
	defer acancel()
	go func() {
		sc, err := w.Accept(actx)
		if err == nil {
			serveWG.Add(1)
			go func() { defer serveWG.Done(); serve(ctx, sc) }()
		}
		accCh <- acc{sc, err}
	}()
	t0 := w.Router.Now()
	var cc *quic.Conn
	early := cs.Scenario == "0rtt-accept" || cs.Scenario == "0rtt-reject"
	extraWritten := 0
	if early {
		cc, out.dialErr = w.DialEarly(ctx)
	} else {
		cc, out.dialErr = w.Dial(ctx)
	}
	out.dialTook = w.Router.Now() - t0
	limit := 2*c13HandshakeIdle + time.Second
	if out.dialTook > limit {
		viol("dial-hung", "Dial returned after %s (handshake timeout %s): %v", out.dialTook, 2*c13HandshakeIdle, out.dialErr)
	}
	var sc *quic.Conn
	if out.dialErr == nil {
		var earlyErr error
		if early {
			// 0-RTT: write before the handshake completes
			for k := 0; k < cs.EarlyStreams; k++ {
				us, err := cc.OpenUniStream()
				if err != nil {
					break // stream limit remembered from the previous connection, or already rejected
				}
				msg := append([]byte(fmt.Sprintf("%s-u%d|", payloadID, k)), make([]byte, cs.EarlySize)...)
				if _, err := us.Write(msg); err == nil {
					extraWritten++
				}
				us.Close()
			}
			earlyErr = echo(ctx, cc, payloadID)
			if earlyErr != nil && cs.Scenario == "0rtt-reject" {
				// expected: rejected.  Continue on the next connection, without resending the payload.
				nc, err := cc.NextConnection(ctx)
				if err == nil {
					cc = nc
					earlyErr = nil
				} else {
					earlyErr = fmt.Errorf("NextConnection: %w (after %v)", err, earlyErr)
				}
			}
		}
		select {
		case <-cc.HandshakeComplete():
		case <-cc.Context().Done():
		case <-time.After(limit):
			viol("handshake-hung", "client connection neither complete nor closed %s after Dial returned", limit)
		}
		select {
		case a := <-accCh:
			sc, out.acceptErr = a.c, a.err
		case <-time.After(limit):
			acancel()
			a := <-accCh
			sc, out.acceptErr = a.c, a.err
			if cc.Context().Err() == nil {
				viol("accept-hung", "client handshake complete but Accept did not return within %s: %v", limit, a.err)
			}
		}
		if earlyErr != nil {
			// a call that failed because the connection ended returns before the connection's context is
			// cancelled: "live" is only judged once the close has had time to finish
			select {
			case <-cc.Context().Done():
			case <-time.After(time.Second):
			}
		}
		if earlyErr != nil && cc.Context().Err() == nil {
			viol("early-data-exchange-failed", "0-RTT echo failed on a live connection: %v", earlyErr)
		}
		if sc != nil && cc.Context().Err() == nil && sc.Context().Err() == nil {
			// both complete: they must agree
			if err := echo(ctx, cc, fmt.Sprintf("late-%d", idx)); err != nil {
				if cc.Context().Err() == nil && sc.Context().Err() == nil {
					viol("echo-failed-after-handshake", "both sides completed the handshake but the echo failed: %v", err)
				}
			} else {
				out.echoOK = true
			}
			st1, st2 := cc.ConnectionState(), sc.ConnectionState()
			out.cstate, out.sstate = &st1, &st2
			if st1.Version != st2.Version || st1.TLS.NegotiatedProtocol != st2.TLS.NegotiatedProtocol || st1.Used0RTT != st2.Used0RTT {
				viol("endpoints-disagree", "client: version %v alpn %q 0rtt %v; server: version %v alpn %q 0rtt %v", st1.Version, st1.TLS.NegotiatedProtocol, st1.Used0RTT, st2.Version, st2.TLS.NegotiatedProtocol, st2.Used0RTT)
			}
			if cs.Scenario == "vneg" && st1.Version != quic.Version1 {
				viol("wrong-version-negotiated", "negotiated %v, the server only supports v1", st1.Version)
			}
			if cs.Scenario == "0rtt-reject" && st2.Used0RTT {
				viol("0rtt-accepted-although-parameters-changed", "server reports Used0RTT")
			}
			if cs.Scenario == "resume" || cs.Scenario == "0rtt-accept" {
				if !st1.TLS.DidResume {
					l.Count("resumption_not_used", 1)
				} else {
					l.Count("resumptions", 1)
				}
			}
		}
	} else {
		acancel()
		a := <-accCh
		sc, out.acceptErr = a.c, a.err
	}
	// ---- 0-RTT delivery: exactly once if accepted, never if rejected
	if early && out.dialErr == nil {
		time.Sleep(300 * time.Millisecond)
		earlyMu.Lock()
		n := earlyRead[payloadID]
		earlyMu.Unlock()
		used := out.sstate != nil && out.sstate.Used0RTT
		// was the payload sent as 0-RTT at all?  (A client without a usable ticket falls back to a full
		// handshake and sends it as ordinary 1-RTT data.)
		var zeroRTTPackets int64
		for _, tp := range w.Wire.Snapshot() {
			zeroRTTPackets += tp.Counts["pkt_c->s_0-RTT"]
		}
		l.Count("client_0rtt_packets_on_wire", zeroRTTPackets)
		if zeroRTTPackets == 0 {
			l.Count("early_dial_without_0rtt_packets", 1)
		}
		switch {
		case zeroRTTPackets == 0:
		case n > 1:
			viol("0rtt-data-delivered-twice", "the server application read the 0-RTT payload %d times", n)
		case n == 1 && out.sstate != nil && !used:
			viol("0rtt-data-delivered-although-rejected", "the server application read the 0-RTT payload although 0-RTT was not accepted")
		case n == 0 && used && out.echoOK:
			viol("0rtt-data-lost-although-accepted", "0-RTT accepted on both sides, connection alive, but the payload never reached the server application")
		}
		// the additional early streams: never twice, never if rejected
		if zeroRTTPackets > 0 && cs.EarlyStreams > 0 {
			time.Sleep(2 * time.Second)
			earlyMu.Lock()
			delivered := 0
			for k := 0; k < cs.EarlyStreams; k++ {
				nk := earlyRead[fmt.Sprintf("%s-u%d", payloadID, k)]
				if nk > 0 {
					delivered++
				}
				if nk > 1 {
					viol("0rtt-data-delivered-twice", "the server application read early stream %d of %d %d times", k, cs.EarlyStreams, nk)
					break
				}
			}
			earlyMu.Unlock()
			if delivered > 0 && out.sstate != nil && !used {
				viol("0rtt-data-delivered-although-rejected", "the server application read %d of the %d additional early streams (%d written) although 0-RTT was not accepted", delivered, cs.EarlyStreams, extraWritten)
			}
			l.Count("early_extra_streams_written", int64(extraWritten))
			l.Count("early_extra_streams_delivered", int64(delivered))
		}
		if used {
			l.Count("0rtt_accepted", 1)
		} else if out.sstate != nil {
			l.Count("0rtt_rejected", 1)
		}
	}

	// ---- forged packets
	imu.Lock()
	inj, afterHS := injected, injectedAfterHandshakePkt
	imu.Unlock()
	if cs.Inject != "" && inj {
		l.Count("injections_"+cs.Inject+"_"+cs.When, 1)
		success := out.dialErr == nil && sc != nil && out.echoOK
		// Retry and Version Negotiation packets must be discarded once a genuine packet was processed, and a
		// Retry with an invalid integrity tag always.  Forged Initial packets are sealed with public keys: an
		// on-path attacker can legitimately break the handshake with them for as long as the client still
		// uses Initial keys (RFC 9001 section 4.9.1: until it first sends a Handshake packet); after that they
		// must have no effect.  In every other case the outcome must be "clean failure" or the same agreement
		// (checked above), which is all the property promises.
		isInitial := cs.Inject == "initial-close" || cs.Inject == "initial-garbage" || cs.Inject == "initial-other-scid"
		mustNotMatter := cs.Inject == "retry-badtag" || cs.Inject == "retry-wrong-odcid" || (cs.When == "after" && (!isInitial || afterHS)) || cs.When == "after-genuine-vn" || cs.When == "server-answered"
		if mustNotMatter {
			l.Count("injections_that_must_not_matter", 1)
		}
		if mustNotMatter && !success {
			viol("forged-packet-changed-outcome|"+cs.Inject+"|"+cs.When, "dial: %v; accept: %v; echo ok: %v (the fault-free outcome is success)", out.dialErr, out.acceptErr, out.echoOK)
		}
		// an invalid Retry must have no effect at all: the forged token never shows up in a client Initial
		if cs.Inject == "retry-badtag" || cs.Inject == "retry-wrong-odcid" || cs.When == "after" {
			for _, tap := range w.Wire.Snapshot() {
				w.Wire.Lock()
				for _, d := range tap.Datagrams {
					for _, p := range d.Packets {
						if d.Dir == wiretap.C2S && p.Kind == wiretap.KindInitial && string(p.Token) == string(forgedToken) {
							viol("forged-retry-had-effect|"+cs.Inject+"|"+cs.When, "the client sent an Initial carrying the forged Retry token")
						}
					}
				}
				w.Wire.Unlock()
			}
		}
	}
	if cc != nil {
		cc.CloseWithError(0, "")
	}
	if sc != nil {
		sc.CloseWithError(0, "")
	}
	cancel()
	fa, _ := w.Router.FaultsApplied()
	fp := cs.Name
	if len(cs.Sched.Faults) > 0 && fa == 0 && cs.Inject == "" {
		fp = ""
	}
	if cs.Inject != "" && !inj {
		fp = ""
	}
	c.Eval(fp)
	if out.dialErr == nil {
		l.Count("handshakes_completed", 1)
	} else {
		l.Count("handshakes_failed_cleanly", 1)
	}
	c.Sample(cs.Scenario, map[string]any{"case": cs.Name, "dial_err": fmt.Sprint(out.dialErr), "dial_took": out.dialTook.String(), "injected": inj})
}
