package quic

// C09 monitors that observe the Initial flight where it leaves the packer:
//   TestVerifC09PackFlight — flight builders through uPacketPacker.PackCoalescedPacket
//                            (planInitialFlight / validateInitialFlight / packPlannedInitial)
//   TestVerifC09PackDgram  — per-datagram builders through uPacketPacker (pop, re-frame with base
//                            offset, exact-size padding) and the plain packetPacker with the
//                            default splitter / the anti-DPI scrambler
//   TestVerifC09Parrot     — the 7 built-in browser specs with real uTLS ClientHellos
//
// The packer is the real one; only its collaborators are stubs: a pass-through Initial sealer
// (plaintext stays in place, 16 tag bytes 0xEE), a counting packet number manager, empty frame
// and ACK sources.  Packets are read back with an own long-header reader (RFC 9000 §17.2).

import (
	"context"
	"fmt"
	"math/rand/v2"
	"strings"
	"testing"

	"github.com/refraction-networking/uquic/internal/ackhandler"
	"github.com/refraction-networking/uquic/internal/handshake"
	"github.com/refraction-networking/uquic/internal/monotime"
	"github.com/refraction-networking/uquic/internal/protocol"
	"github.com/refraction-networking/uquic/internal/utils"
	"github.com/refraction-networking/uquic/internal/verif/evlog"
	"github.com/refraction-networking/uquic/internal/wire"
	tls "github.com/refraction-networking/utls"
)

const c09Tag = 16

type c09Sealer struct{}

func (c09Sealer) Seal(dst, src []byte, _ protocol.PacketNumber, _ []byte) []byte {
	dst = append(dst, src...)
	for i := 0; i < c09Tag; i++ {
		dst = append(dst, 0xEE)
	}
	return dst
}
func (c09Sealer) EncryptHeader(_ []byte, _ *byte, _ []byte) {}
func (c09Sealer) Overhead() int                             { return c09Tag }

// c09Seals: only Initial keys at first; later (retransmission phase, coalescing mode) Handshake and
// 1-RTT keys as well.
type c09Seals struct{ later bool }

func (*c09Seals) GetInitialSealer() (handshake.LongHeaderSealer, error) { return c09Sealer{}, nil }
func (s *c09Seals) GetHandshakeSealer() (handshake.LongHeaderSealer, error) {
	if s.later {
		return c09Sealer{}, nil
	}
	return nil, handshake.ErrKeysNotYetAvailable
}
func (*c09Seals) Get0RTTSealer() (handshake.LongHeaderSealer, error) {
	return nil, handshake.ErrKeysNotYetAvailable
}
func (s *c09Seals) Get1RTTSealer() (handshake.ShortHeaderSealer, error) {
	if s.later {
		return c09Sealer1RTT{}, nil
	}
	return nil, handshake.ErrKeysNotYetAvailable
}

type c09Sealer1RTT struct{ c09Sealer }

func (c09Sealer1RTT) KeyPhase() protocol.KeyPhaseBit { return protocol.KeyPhaseZero }

// c09Frames is a framer holding n nine-byte control frames for the 1-RTT packet.
type c09Frames struct{ n int }

func (f *c09Frames) HasData() bool { return f.n > 0 }
func (f *c09Frames) Append(fr []ackhandler.Frame, s []ackhandler.StreamFrame, maxLen protocol.ByteCount, _ monotime.Time, v protocol.Version) ([]ackhandler.Frame, []ackhandler.StreamFrame, protocol.ByteCount) {
	var l protocol.ByteCount
	for f.n > 0 {
		pf := &wire.PathResponseFrame{}
		if l+pf.Length(v) > maxLen {
			break
		}
		fr = append(fr, ackhandler.Frame{Frame: pf})
		l += pf.Length(v)
		f.n--
	}
	return fr, s, l
}

type c09PN struct {
	next   protocol.PacketNumber
	lens   []protocol.PacketNumberLen
	popped int
	other  map[protocol.EncryptionLevel]protocol.PacketNumber // Handshake / 1-RTT spaces
}

func (m *c09PN) PeekPacketNumber(l protocol.EncryptionLevel) (protocol.PacketNumber, protocol.PacketNumberLen) {
	if l != protocol.EncryptionInitial {
		return m.other[l], protocol.PacketNumberLen2
	}
	return m.next, m.lens[min(m.popped, len(m.lens)-1)]
}

func (m *c09PN) PopPacketNumber(l protocol.EncryptionLevel) protocol.PacketNumber {
	if l != protocol.EncryptionInitial {
		if m.other == nil {
			m.other = map[protocol.EncryptionLevel]protocol.PacketNumber{}
		}
		m.other[l]++
		return m.other[l] - 1
	}
	pn := m.next
	m.next++
	m.popped++
	return pn
}

type c09NoFrames struct{}

func (c09NoFrames) HasData() bool { return false }
func (c09NoFrames) Append(f []ackhandler.Frame, s []ackhandler.StreamFrame, _ protocol.ByteCount, _ monotime.Time, _ protocol.Version) ([]ackhandler.Frame, []ackhandler.StreamFrame, protocol.ByteCount) {
	return f, s, 0
}

type c09NoAcks struct{}

func (c09NoAcks) GetAckFrame(protocol.EncryptionLevel, monotime.Time, bool) *wire.AckFrame {
	return nil
}

// c09Env is one packer with its Initial stream.
type c09Env struct {
	MaxSize  int
	PNLens   []protocol.PacketNumberLen
	FirstPN  int
	TokenLen int
	DCIDLen  int
	Scramble bool // plain packer only: anti-DPI scrambling on
	Parts    int  // the ClientHello is written in this many pieces
	Coalesce bool // retransmission phase: Handshake and 1-RTT keys exist, with data to send at both levels
	Second   bool // instead of the retransmission phase: a second ClientHello (as after a HelloRetryRequest) is written behind the first
}

// c09ParseInitial reads one Initial packet produced with the pass-through sealer and returns
// its frame payload.
func c09ParseInitial(d []byte) (payload []byte, total int, errs string) {
	if len(d) < 7 {
		return nil, 0, "short packet"
	}
	if d[0]&0x80 == 0 || d[0]&0x40 == 0 {
		return nil, 0, fmt.Sprintf("first byte 0x%02x is not a long header", d[0])
	}
	if d[0]&0x30 != 0 {
		return nil, 0, fmt.Sprintf("first byte 0x%02x: not an Initial packet", d[0])
	}
	pnLen := int(d[0]&3) + 1
	i := 5
	for k := 0; k < 2; k++ { // DCID, SCID
		if i >= len(d) {
			return nil, 0, "truncated connection ID"
		}
		i += 1 + int(d[i])
	}
	if i > len(d) {
		return nil, 0, "truncated connection ID"
	}
	tl, w, ok := c09Varint(d[i:])
	if !ok {
		return nil, 0, "truncated token length"
	}
	i += w + int(tl)
	if i > len(d) {
		return nil, 0, "truncated token"
	}
	ln, w, ok := c09Varint(d[i:])
	if !ok {
		return nil, 0, "truncated Length"
	}
	i += w
	if int(ln) < pnLen+c09Tag || i+int(ln) > len(d) {
		return nil, 0, fmt.Sprintf("Length field %d does not fit (pnLen %d, %d bytes left)", ln, pnLen, len(d)-i)
	}
	end := i + int(ln)
	for _, b := range d[end-c09Tag : end] {
		if b != 0xEE {
			return nil, 0, "AEAD tag position does not hold the pass-through tag: Length field and payload disagree"
		}
	}
	return d[i+pnLen : end-c09Tag], end, ""
}

// c09CheckCoalesced: the packets the packer says it coalesced behind the Initial packet (which ends at
// offset end) must follow it back to back, each as long as the packer recorded; a 1-RTT packet must end the
// datagram, otherwise whatever remains of it must be zero padding.
func c09CheckCoalesced(p *coalescedPacket, end int) string {
	d := p.buffer.Data
	at := end
	for _, lp := range p.longHdrPackets[1:] {
		if at >= len(d) {
			return fmt.Sprintf("%s packet recorded, datagram ends at %d", lp.header.Type, len(d))
		}
		if d[at]&0x80 == 0 {
			return fmt.Sprintf("byte %d after the previous packet is 0x%02x, not the long header of the %s packet (padding in front of a coalesced packet?)", at, d[at], lp.header.Type)
		}
		at += int(lp.length)
	}
	if sp := p.shortHdrPacket; sp != nil {
		if at >= len(d) {
			return fmt.Sprintf("1-RTT packet recorded, datagram ends at %d", len(d))
		}
		if d[at]&0xc0 != 0x40 {
			return fmt.Sprintf("byte %d after the previous packet is 0x%02x, not a short header (padding in front of the coalesced 1-RTT packet?)", at, d[at])
		}
		at += int(sp.Length)
	}
	if at > len(d) {
		return fmt.Sprintf("recorded packet lengths add up to %d, datagram has %d bytes", at, len(d))
	}
	if len(d) < 1200 {
		return fmt.Sprintf("the datagram carries a client Initial packet and is only %d bytes long (RFC 9000 14.1: at least 1200)", len(d))
	}
	if p.shortHdrPacket != nil && at != len(d) {
		// a short header packet has no length field: it extends to the end of the datagram, and anything
		// behind it becomes part of its ciphertext (the receiver cannot authenticate it)
		return fmt.Sprintf("%d bytes follow the 1-RTT packet, which ends at %d: a short header packet must be the end of the datagram", len(d)-at, at)
	}
	for i := at; i < len(d); i++ {
		if d[i] != 0 {
			return fmt.Sprintf("byte %d behind the last packet is 0x%02x, not padding", i, d[i])
		}
	}
	return ""
}

type c09FlightResult struct {
	Payloads [][]byte
	Sizes    []int
	// retransmission phase (only after a complete, error-free flight): the frames of a seeded subset of
	// the flight's datagrams are declared lost, then the packer is asked for packets again
	LostDgrams     []int
	RetxPayloads   [][]byte
	SecondPayloads [][]byte // the datagrams that carried the second ClientHello
	SecondErr      error
	SecondDone     bool
	Coalesced      int // retransmission datagrams in which other packets follow the Initial packet
	OtherDgrams    int
	RetxErr        error
	Err            error
	ParseErr       string
	Panic          string
	Stack          string
	Calls          int
}

// c09Pack writes ch to a fresh Initial stream and packs Initial packets until the packer
// has nothing left (or fails).  spec == nil: plain packetPacker (default splitter/scrambler).
func c09Pack(spec *QUICSpec, ch []byte, env c09Env, rng *rand.Rand) (res c09FlightResult) {
	initial := newInitialCryptoStream(true)
	if spec != nil || !env.Scramble {
		initial.DisableScrambling()
	}
	pn := &c09PN{next: protocol.PacketNumber(env.FirstPN), lens: env.PNLens}
	dcid := make([]byte, env.DCIDLen)
	for i := range dcid {
		dcid[i] = byte(i + 1)
	}
	destConnID := protocol.ParseConnectionID(dcid)
	seals := &c09Seals{}
	hsStream := newCryptoStream()
	frames := &c09Frames{}
	pp := newPacketPacker(
		protocol.ParseConnectionID([]byte{9, 8, 7, 6}),
		func() protocol.ConnectionID { return destConnID },
		initial,
		hsStream,
		pn,
		newRetransmissionQueue(),
		seals,
		frames,
		c09NoAcks{},
		newDatagramQueue(func() {}, utils.DefaultLogger),
		protocol.PerspectiveClient,
	)
	if env.TokenLen > 0 {
		pp.SetToken(make([]byte, env.TokenLen))
	}
	var pk interface {
		PackCoalescedPacket(bool, protocol.ByteCount, monotime.Time, protocol.Version) (*coalescedPacket, error)
		PackPTOProbePacket(protocol.EncryptionLevel, protocol.ByteCount, bool, monotime.Time, protocol.Version) (*coalescedPacket, error)
	} = pp
	if spec != nil {
		pk = newUPacketPacker(pp, spec)
	}
	pan, val, stack := c09Safe(func() {
		// the ClientHello reaches the stream in one or several writes before the first pack
		parts := max(env.Parts, 1)
		at := 0
		for i := 0; i < parts; i++ {
			to := len(ch)
			if i+1 < parts {
				to = at + rng.IntN(len(ch)-at+1)
			}
			if _, err := initial.Write(ch[at:to]); err != nil {
				res.Err = fmt.Errorf("initialCryptoStream.Write: %w", err)
				return
			}
			at = to
		}
		now := monotime.Now()
		var sentFrames [][]ackhandler.Frame
		maxCalls := len(ch) + 64
		for res.Calls = 0; res.Calls < maxCalls; res.Calls++ {
			p, err := pk.PackCoalescedPacket(false, protocol.ByteCount(env.MaxSize), now, protocol.Version1)
			if err != nil {
				res.Err = err
				return
			}
			if p == nil {
				// ---- the flight is complete
				if len(sentFrames) == 0 {
					return
				}
				if env.Second {
					// a HelloRetryRequest arrived: the TLS stack writes a second ClientHello, which continues
					// the Initial CRYPTO stream where the first one ended
					if _, err := initial.Write(ch); err != nil {
						res.SecondErr = fmt.Errorf("initialCryptoStream.Write: %w", err)
						return
					}
					for k := 0; k < len(ch)+64; k++ {
						sp, err := pk.PackCoalescedPacket(false, protocol.ByteCount(env.MaxSize), now, protocol.Version1)
						if err != nil {
							res.SecondErr = err
							return
						}
						if sp == nil {
							res.SecondDone = true
							return
						}
						pl, _, perr := c09ParseInitial(sp.buffer.Data)
						if perr != "" {
							sp.buffer.Release()
							res.SecondErr = fmt.Errorf("packet unreadable: %s", perr)
							return
						}
						res.SecondPayloads = append(res.SecondPayloads, append([]byte(nil), pl...))
						sp.buffer.Release()
					}
					res.SecondErr = fmt.Errorf("packer still produces Initial packets after %d calls", len(ch)+64)
					return
				}
				// lose some of its datagrams and let the packer retransmit
				for i := range sentFrames {
					if rng.IntN(2) == 0 {
						res.LostDgrams = append(res.LostDgrams, i)
					}
				}
				if len(res.LostDgrams) == 0 {
					res.LostDgrams = []int{rng.IntN(len(sentFrames))}
				}
				for _, i := range res.LostDgrams {
					for _, f := range sentFrames[i] {
						if f.Handler != nil {
							f.Handler.OnLost(f.Frame)
						}
					}
				}
				if env.Coalesce {
					// the server's flight arrived meanwhile: the client's Finished and some 1-RTT frames wait
					// next to the Initial retransmission
					seals.later = true
					hsStream.Write(make([]byte, 36+rng.IntN(120)))
					frames.n = 1 + rng.IntN(14)
				}
				for k := 0; k < 4*len(sentFrames)+8; k++ {
					var rp *coalescedPacket
					var err error
					probe := k%2 == 0
					if env.Coalesce {
						probe = !probe // the ordinary send path first: it is the one that coalesces
					}
					if probe {
						rp, err = pk.PackPTOProbePacket(protocol.EncryptionInitial, protocol.ByteCount(env.MaxSize), false, now, protocol.Version1)
					} else {
						rp, err = pk.PackCoalescedPacket(false, protocol.ByteCount(env.MaxSize), now, protocol.Version1)
					}
					if err != nil {
						res.RetxErr = err
						return
					}
					if rp == nil {
						if !probe && (k > 0 || !env.Coalesce) {
							return
						}
						continue
					}
					if len(rp.buffer.Data) > cap(rp.buffer.Data) || len(rp.buffer.Data) > int(protocol.MaxPacketBufferSize) {
						res.RetxErr = fmt.Errorf("retransmission datagram of %d bytes exceeds the packet buffer", len(rp.buffer.Data))
						rp.buffer.Release()
						return
					}
					if len(rp.longHdrPackets) == 0 || rp.longHdrPackets[0].header.Type != protocol.PacketTypeInitial {
						// a datagram without an Initial packet (Handshake / 1-RTT only): nothing for this property
						res.OtherDgrams++
						rp.buffer.Release()
						continue
					}
					pl, end, perr := c09ParseInitial(rp.buffer.Data)
					if perr != "" {
						res.RetxErr = fmt.Errorf("retransmission packet unreadable: %s", perr)
						rp.buffer.Release()
						return
					}
					if cerr := c09CheckCoalesced(rp, end); cerr != "" {
						res.RetxErr = fmt.Errorf("coalesced datagram malformed: %s", cerr)
						rp.buffer.Release()
						return
					}
					if len(rp.longHdrPackets) > 1 || rp.shortHdrPacket != nil {
						res.Coalesced++
					}
					res.RetxPayloads = append(res.RetxPayloads, append([]byte(nil), pl...))
					rp.buffer.Release()
				}
				return
			}
			if len(p.longHdrPackets) > 0 {
				sentFrames = append(sentFrames, append([]ackhandler.Frame(nil), p.longHdrPackets[0].frames...))
			}
			pl, total, perr := c09ParseInitial(p.buffer.Data)
			if perr != "" {
				res.ParseErr = fmt.Sprintf("packet %d: %s", len(res.Payloads), perr)
				p.buffer.Release()
				return
			}
			res.Payloads = append(res.Payloads, append([]byte(nil), pl...))
			res.Sizes = append(res.Sizes, total)
			p.buffer.Release()
		}
		res.ParseErr = fmt.Sprintf("packer still produces Initial packets after %d calls", maxCalls)
	})
	if pan {
		res.Panic, res.Stack = val, stack
	}
	return res
}

// c09JudgeFlight turns a packed flight into a verdict: error-before-output or correct.
func c09JudgeFlight(c *evlog.Case, rp *c09Rep, comp, inClass string, env c09Env, res c09FlightResult, ch []byte, trace func() map[string]any) (string, c09Stats) {
	full := func() map[string]any {
		tr := trace()
		tr["payloads"] = c09HexAll(res.Payloads)
		tr["packet_sizes"] = res.Sizes
		tr["clienthello"] = c09Hex(ch)
		return tr
	}
	switch {
	case res.Panic != "":
		tr := full()
		tr["panic"], tr["stack"] = res.Panic, res.Stack
		rp.viol("C09|"+comp+"|panic|"+c09PanicClass(res.Panic)+inClass, "packing the Initial flight panicked: "+res.Panic, tr)
		return "viol", c09Stats{}
	case res.ParseErr != "":
		rp.viol("C09|"+comp+"|packet-unreadable"+inClass, res.ParseErr, full())
		return "viol", c09Stats{}
	case res.Err != nil && len(res.Payloads) > 0:
		_, _, st := c09Check(ch, 0, res.Payloads, false)
		tr := full()
		tr["error"] = res.Err.Error()
		kind := "|other-error"
		if strings.Contains(res.Err.Error(), "does not fit the packet buffer") {
			// the environment classes under which the packer is known to size a later datagram
			// too generously are part of the signature
			kind = "|packet-buffer-overflow"
			if strings.Contains(comp, "flight") {
				// flight budgets are computed once, with the header of the first packet
				for _, x := range env.PNLens {
					if x != env.PNLens[0] {
						kind += "|varying-pnlen"
						break
					}
				}
			}
			// (per-datagram builders: re-framing adds frame headers and PINGs to a slice that
			// was popped to fill the packet; the overflow is draw dependent — one signature)
		}
		rp.viol("C09|"+comp+"|error-after-output"+kind+inClass, fmt.Sprintf("%d Initial datagram(s) carrying %d of %d ClientHello bytes were produced before the packer failed with: %v", len(res.Payloads), st.Covered, len(ch), res.Err), tr)
		return "viol", st
	case res.Err != nil:
		c.Count("rejected_with_error", 1)
		return "rejected", c09Stats{}
	}
	cls, detail, st := c09Check(ch, 0, res.Payloads, true)
	if cls != "" {
		rp.viol("C09|"+comp+"|"+cls+inClass, detail, full())
		return "viol", st
	}
	// ---- second ClientHello: its bytes at absolute offsets len(ch)..2*len(ch), completely
	if env.Second && (res.SecondDone || res.SecondErr != nil) {
		tr := func() map[string]any {
			t := full()
			t["second_flight_payloads"] = c09HexAll(res.SecondPayloads)
			return t
		}
		c.Count("second_clienthello_phases", 1)
		if res.SecondErr != nil {
			kind := "|other-error"
			if strings.Contains(res.SecondErr.Error(), "does not fit the packet buffer") {
				kind = "|packet-buffer-overflow"
			}
			rp.viol("C09|"+comp+"|second-clienthello-error"+kind+inClass, fmt.Sprintf("after a complete %d-datagram flight a second ClientHello of %d bytes was written to the Initial stream; the packer failed with: %v", len(res.Payloads), len(ch), res.SecondErr), tr())
			return "viol", st
		}
		if cls, detail, _ := c09Check(ch, uint64(len(ch)), res.SecondPayloads, true); cls != "" {
			rp.viol("C09|"+comp+"|second-clienthello|"+cls+inClass, fmt.Sprintf("second ClientHello (stream offsets %d..%d): %s", len(ch), 2*len(ch), detail), tr())
			return "viol", st
		}
		c.Count("second_clienthello_datagrams", int64(len(res.SecondPayloads)))
	}
	// ---- retransmissions: CRYPTO frames still carry the ClientHello's bytes at their true offsets, and
	// every lost byte is sent again
	if len(res.LostDgrams) > 0 {
		tr := func() map[string]any {
			t := full()
			t["lost_datagrams"] = res.LostDgrams
			t["retransmission_payloads"] = c09HexAll(res.RetxPayloads)
			return t
		}
		if res.RetxErr != nil {
			kind := "|other-error"
			if strings.Contains(res.RetxErr.Error(), "does not fit the packet buffer") {
				kind = "|packet-buffer-overflow"
			}
			rp.viol("C09|"+comp+"|retransmission-error"+kind+inClass, fmt.Sprintf("after losing datagram(s) %v of a %d-datagram flight the packer failed with: %v", res.LostDgrams, len(res.Payloads), res.RetxErr), tr())
			return "viol", st
		}
		if cls, detail, _ := c09Check(ch, 0, res.RetxPayloads, false); cls != "" {
			rp.viol("C09|"+comp+"|retransmission|"+cls+inClass, fmt.Sprintf("retransmission after losing datagram(s) %v: %s", res.LostDgrams, detail), tr())
			return "viol", st
		}
		again := make([]bool, len(ch))
		for _, p := range res.RetxPayloads {
			fr, _, _ := c09Decode(p)
			for _, f := range fr {
				if f.Typ == 0x06 {
					for i := f.Off; i < f.Off+f.Len && i < uint64(len(ch)); i++ {
						again[i] = true
					}
				}
			}
		}
		for _, di := range res.LostDgrams {
			fr, _, _ := c09Decode(res.Payloads[di])
			for _, f := range fr {
				if f.Typ != 0x06 {
					continue
				}
				for i := f.Off; i < f.Off+f.Len && i < uint64(len(ch)); i++ {
					if !again[i] {
						rp.viol("C09|"+comp+"|retransmission|lost-bytes-not-resent"+inClass, fmt.Sprintf("datagram %d was lost, ClientHello byte %d (of its CRYPTO range [%d,%d)) was never sent again", di, i, f.Off, f.Off+f.Len), tr())
						return "viol", st
					}
				}
			}
		}
		c.Count("retransmission_phases", 1)
		c.Count("retransmission_packets", int64(len(res.RetxPayloads)))
		c.Count("retransmission_datagrams_coalesced", int64(res.Coalesced))
		if env.Coalesce {
			c.Count("retransmission_phases_with_later_keys", 1)
		}
	}
	c09CountStats(c, st)
	c.Count("datagrams_packed", int64(len(res.Payloads)))
	c.Count("flights_packed", 1)
	return "ok", st
}

func c09GenEnv(r *rand.Rand) c09Env {
	e := c09Env{
		MaxSize:  []int{1200, 1252, 1280, 1350, 1452}[r.IntN(5)],
		FirstPN:  r.IntN(3),
		TokenLen: []int{0, 0, 0, 16, 61}[r.IntN(5)],
		DCIDLen:  []int{8, 8, 9, 15, 20}[r.IntN(5)],
		Parts:    1 + r.IntN(3),
	}
	switch r.IntN(4) {
	case 0:
		e.PNLens = []protocol.PacketNumberLen{1, 2}
	case 1:
		e.PNLens = []protocol.PacketNumberLen{4}
	case 2:
		e.PNLens = []protocol.PacketNumberLen{1}
	default:
		e.PNLens = []protocol.PacketNumberLen{protocol.PacketNumberLen(1 + r.IntN(4)), protocol.PacketNumberLen(1 + r.IntN(4)), protocol.PacketNumberLen(1 + r.IntN(4))}
	}
	e.Coalesce = r.IntN(3) == 0
	e.Second = !e.Coalesce && r.IntN(3) == 0
	return e
}

// c09GenPlans draws InitialPackets for a spec (nil = unset).
func c09GenPlans(r *rand.Rand, maxSize, datagrams int) []InitialPacketPlan {
	switch r.IntN(5) {
	case 0, 1:
		return nil
	case 2:
		out := make([]InitialPacketPlan, datagrams)
		for i := range out {
			out[i].PacketSize = maxSize
		}
		return out
	case 3:
		out := make([]InitialPacketPlan, 1+r.IntN(4))
		for i := range out {
			out[i].PacketSize = []int{0, 1200, 1250, 1252, 1350, 1452}[r.IntN(6)]
		}
		return out
	}
	out := make([]InitialPacketPlan, 1+r.IntN(3))
	for i := range out {
		out[i].PacketSize = []int{0, 1200, 1250, 1350}[r.IntN(4)]
		out[i].CryptoLength = []int{0, 62, 500, 999, 1100, 2000}[r.IntN(6)]
	}
	return out
}

func TestVerifC09PackFlight(t *testing.T) {
	l := evlog.Open("C09")
	defer l.Close()
	t.Setenv(disableClientHelloScramblingEnv, "")
	nBatch := l.Pick(400, 8000)
	const per = 20
	for bi := 0; bi < nBatch; bi++ {
		if !l.Mine(bi) {
			continue
		}
		id := fmt.Sprintf("C09/packflight/%05d", bi)
		c := l.Begin(id, map[string]any{"batch": bi, "plans": per})
		if c == nil {
			continue
		}
		rp := newC09Rep(c)
		rng := l.Rand(id)
		for k := 0; k < per; k++ {
			n := c09FlightLen(rng, k)
			if n > 6000 {
				n = 1 + rng.IntN(4800)
			}
			data := c09Bytes(rng, n)
			p := c09GenFlight(rng, n)
			// ranges sized so that a covering plan can also fit its datagrams: spread the
			// ranges over enough datagrams for about half of the plans
			if k%2 == 0 {
				p = c09FitFlight(rng, n)
			}
			env := c09GenEnv(rng)
			plans := c09GenPlans(rng, env.MaxSize, p.Datagrams)
			for _, random := range []bool{false, true} {
				var fb QUICFlightFrameBuilder
				comp := "packer-flightframes"
				d := 1
				if random {
					fb = p.asRandomFlight(rng)
					comp = "packer-randomflight"
					d = 25
				} else {
					fb = p.asFlightFrames(rng)
				}
				spec := &QUICSpec{InitialPacketSpec: InitialPacketSpec{FrameBuilder: fb, InitialPackets: plans}, UDPDatagramMinSize: []int{0, 1200, 1357}[rng.IntN(3)]}
				trace := func() map[string]any {
					return map[string]any{"builder": c09FlightDesc(fb), "plan": p, "env": env, "initialPackets": plans, "udpMin": spec.UDPDatagramMinSize}
				}
				rej := 0
				for j := 0; j < d; j++ {
					res := c09Pack(spec, data, env, rng)
					oc, st := c09JudgeFlight(c, rp, comp, "", env, res, data, trace)
					c.Count("flight_"+p.Class+"_"+oc, 1)
					if oc == "ok" && !p.ModelCov {
						c.Count("noncovering_plan_passed_with_covering_output", 1)
					}
					c.Eval(fmt.Sprintf("pf %v %s %s %s", random, oc, p.Class, st.fp()))
					if oc == "rejected" {
						rej++
						if rej == j+1 && rej >= 4 {
							break
						}
					}
				}
			}
		}
		c.End()
	}
}

// c09FitFlight generates a covering plan whose datagrams stay within one Initial packet each:
// consecutive chunks of <= 1000 bytes, dealt to datagrams in a random order (Chrome-like
// "tail first"), written in mixed notations.
func c09FitFlight(r *rand.Rand, n int) c09FlightPlan {
	p := c09FlightPlan{N: n, Class: "cover"}
	chunk := 300 + r.IntN(700)
	type se struct{ s, e int }
	var parts []se
	for s := 0; s < n || len(parts) == 0; s += chunk {
		parts = append(parts, se{s, min(s+chunk, n)})
	}
	p.Datagrams = len(parts)
	order := r.Perm(len(parts))
	for i, pt := range parts {
		// optionally split the chunk once more inside its datagram
		if pt.e-pt.s > 2 && r.IntN(2) == 0 {
			m := pt.s + 1 + r.IntN(pt.e-pt.s-1)
			o, ln := c09Encode(r, m, pt.e, n)
			p.Ranges = append(p.Ranges, c09Range{Dg: order[i], Off: o, Len: ln})
			pt.e = m
		}
		o, ln := c09Encode(r, pt.s, pt.e, n)
		p.Ranges = append(p.Ranges, c09Range{Dg: order[i], Off: o, Len: ln})
	}
	if r.IntN(6) == 0 && n > 0 { // and sometimes lose one byte: must be refused before anything is sent
		p.Class = "gap"
		i := r.IntN(len(p.Ranges))
		s, e, _ := c09Resolve(p.Ranges[i].Off, p.Ranges[i].Len, n)
		if e-s >= 1 {
			if e-s == 1 {
				p.Ranges = append(p.Ranges[:i], p.Ranges[i+1:]...)
				if len(p.Ranges) == 0 {
					p.Ranges = []c09Range{{0, n, 0}}
				}
			} else if r.IntN(2) == 0 {
				p.Ranges[i].Off, p.Ranges[i].Len = s+1, e-s-1
			} else {
				p.Ranges[i].Off, p.Ranges[i].Len = s, e-s-1
			}
		}
	}
	mask := make([]bool, n)
	p.ModelOK = true
	for _, rg := range p.Ranges {
		s, e, ok := c09Resolve(rg.Off, rg.Len, n)
		if !ok {
			p.ModelOK = false
			continue
		}
		for i := s; i < e; i++ {
			mask[i] = true
		}
	}
	p.ModelCov = p.ModelOK
	for _, b := range mask {
		if !b {
			p.ModelCov = false
		}
	}
	return p
}

// ---------------------------------------------------------------------------------------
// per-datagram builders and the plain packer

func c09WellFormedCH(r *rand.Rand, target int) ([]byte, c09CHSpec) {
	sp := c09CHSpec{Target: target, NFill: r.IntN(12), SNIPos: -1, ECHPos: -1, SessLen: []int{0, 32}[r.IntN(2)], NSuites: 1 + r.IntN(17)}
	if r.IntN(6) != 0 {
		sp.SNIPos = r.IntN(sp.NFill + 2)
		sp.SNILen = []int{1, 2, 3, 9, 11, 30, 63, 253}[r.IntN(8)]
	}
	if r.IntN(3) != 0 {
		sp.ECHPos = r.IntN(sp.NFill + 2)
		sp.ECHLen = []int{0, 1, 5, 12, 13, 16, 186, 250}[r.IntN(8)]
	}
	if target > 200 && sp.NFill == 0 {
		sp.NFill = 1
	}
	sp.OtherNameFirst = r.IntN(10) == 0
	return c09MakeCH(r, sp), sp
}

func TestVerifC09PackDgram(t *testing.T) {
	l := evlog.Open("C09")
	defer l.Close()
	t.Setenv(disableClientHelloScramblingEnv, "")
	nBatch := l.Pick(400, 8000)
	const per = 12
	for bi := 0; bi < nBatch; bi++ {
		if !l.Mine(bi) {
			continue
		}
		id := fmt.Sprintf("C09/packdgram/%05d", bi)
		c := l.Begin(id, map[string]any{"batch": bi, "specs": per})
		if c == nil {
			continue
		}
		rp := newC09Rep(c)
		rng := l.Rand(id)
		for k := 0; k < per; k++ {
			target := []int{0, 61, 66, 255, 256, 700, 1162, 1734, 2300, 3500, 4800}[rng.IntN(11)]
			if rng.IntN(3) == 0 {
				target = 60 + rng.IntN(4800)
			}
			ch, chsp := c09WellFormedCH(rng, target)
			env := c09GenEnv(rng)
			kind := (bi*per + k) % 6
			var spec *QUICSpec
			comp := ""
			d := 20
			var desc any
			switch kind {
			case 0: // plain quic-go packer, default splitter
				comp, d = "packer-plain-splitter", 1
				env.Scramble = false
			case 1: // plain quic-go packer, anti-DPI scrambler
				comp, d = "packer-plain-scrambler", 1
				env.Scramble = true
			case 2: // spec without builder / with the empty layout: pass-through re-framing
				comp, d = "packer-passthrough", 1
				spec = &QUICSpec{}
				if rng.IntN(2) == 0 {
					spec.InitialPacketSpec.FrameBuilder = QUICFrames{}
				}
				spec.InitialPacketSpec.InitialPackets = c09GenPlans(rng, env.MaxSize, 1+len(ch)/1100)
			case 3, 4: // QUICRandomFrames in the value range the built-in specs use (up to 2x)
				comp = "packer-randomframes"
				q := &QUICRandomFrames{MinPING: uint8(rng.IntN(3)), MinCRYPTO: uint8(1 + rng.IntN(8)), MinPADDING: uint8(1 + rng.IntN(3))}
				q.MaxPING = q.MinPING + uint8(rng.IntN(6))
				q.MaxCRYPTO = q.MinCRYPTO + uint8(rng.IntN(20))
				q.MaxPADDING = q.MinPADDING + uint8(rng.IntN(6))
				q.Length = uint16([]int{0, 1000, 1162, 1215, 1231, 1300}[rng.IntN(6)])
				spec = &QUICSpec{InitialPacketSpec: InitialPacketSpec{FrameBuilder: q}}
				if rng.IntN(3) == 0 {
					spec.InitialPacketSpec.InitialPackets = c09GenPlans(rng, env.MaxSize, 1+len(ch)/1100)
				}
				desc = *q
			default: // QUICMultiDatagramFrames, all entries valid
				comp = "packer-multidgram"
				m := &QUICMultiDatagramFrames{}
				for i := 1 + rng.IntN(3); i > 0; i-- {
					q := QUICRandomFrames{MinPING: uint8(rng.IntN(3)), MinCRYPTO: uint8(1 + rng.IntN(8)), MinPADDING: 1}
					q.MaxPING = q.MinPING + uint8(rng.IntN(4))
					q.MaxCRYPTO = q.MinCRYPTO + uint8(rng.IntN(12))
					q.MaxPADDING = q.MinPADDING + uint8(rng.IntN(4))
					q.Length = uint16([]int{0, 1162, 1215}[rng.IntN(3)])
					m.PerDatagram = append(m.PerDatagram, q)
				}
				spec = &QUICSpec{InitialPacketSpec: InitialPacketSpec{FrameBuilder: m}}
				desc = m.PerDatagram
			}
			if spec != nil {
				spec.UDPDatagramMinSize = []int{0, 1200, 1357}[rng.IntN(3)]
			}
			trace := func() map[string]any {
				tr := map[string]any{"kind": comp, "builder": desc, "env": env, "ch": chsp, "len": len(ch)}
				if spec != nil {
					tr["initialPackets"] = spec.InitialPacketSpec.InitialPackets
				}
				return tr
			}
			inClass := ""
			if env.Scramble && spec == nil {
				inClass = c09CHClass(chsp) // only the scrambler looks into the ClientHello
			}
			for j := 0; j < d; j++ {
				res := c09Pack(spec, ch, env, rng)
				oc, st := c09JudgeFlight(c, rp, comp, inClass, env, res, ch, trace)
				c.Count(comp+"_"+oc, 1)
				c.Eval(fmt.Sprintf("pd %s %s %s", comp, oc, st.fp()))
				if oc == "rejected" && j >= 3 {
					break
				}
			}
		}
		c.End()
	}
}

// ---------------------------------------------------------------------------------------
// the built-in specs with real uTLS ClientHellos

var c09Parrots = []struct {
	Name string
	ID   QUICID
}{
	{"chrome115v4", QUICChrome_115_IPv4}, {"chrome115v6", QUICChrome_115_IPv6},
	{"firefox116a", QUICFirefox_116A}, {"firefox116b", QUICFirefox_116B}, {"firefox116c", QUICFirefox_116C},
	{"chrome146v4", QUICChrome_146_IPv4}, {"chrome146v6", QUICChrome_146_IPv6},
}

// c09RealClientHello produces the ClientHello uTLS emits for the spec's ClientHelloSpec.
func c09RealClientHello(spec *QUICSpec, serverName string) (ch []byte, err error) {
	pan, val, _ := c09Safe(func() {
		conn := tls.UQUICClient(&tls.QUICConfig{TLSConfig: &tls.Config{ServerName: serverName, MinVersion: tls.VersionTLS13, NextProtos: []string{"h3"}}}, tls.HelloCustom)
		if err = conn.ApplyPreset(spec.ClientHelloSpec); err != nil {
			return
		}
		if err = conn.Start(context.Background()); err != nil {
			return
		}
		defer conn.Close()
		for i := 0; i < 8; i++ {
			ev := conn.NextEvent()
			if ev.Kind == tls.QUICWriteData && ev.Level == tls.QUICEncryptionLevelInitial {
				ch = append(ch, ev.Data...)
			}
			if ev.Kind == tls.QUICNoEvent {
				break
			}
		}
		if len(ch) == 0 {
			err = fmt.Errorf("uTLS produced no Initial data")
		}
	})
	if pan {
		return nil, fmt.Errorf("uTLS panicked: %s", val)
	}
	return ch, err
}

func TestVerifC09Parrot(t *testing.T) {
	l := evlog.Open("C09")
	defer l.Close()
	t.Setenv(disableClientHelloScramblingEnv, "")
	rounds := l.Pick(8, 80)
	idx := 0
	for round := 0; round < rounds; round++ {
		for _, pr := range c09Parrots {
			if !l.Mine(idx) {
				idx++
				continue
			}
			idx++
			id := fmt.Sprintf("C09/parrot/%s/%03d", pr.Name, round)
			c := l.Begin(id, map[string]any{"parrot": pr.Name, "round": round})
			if c == nil {
				continue
			}
			rp := newC09Rep(c)
			rng := l.Rand(id)
			spec, err := QUICID2Spec(pr.ID)
			if err != nil {
				c.Inconclusive("QUICID2Spec: " + err.Error())
				c.End()
				continue
			}
			name := []string{"a.io", "example.com", "quic.verif.example.org", "x23456789.y23456789.z23456789.w23456789.v23456789.u23456789.com"}[round%4]
			ch, err := c09RealClientHello(&spec, name)
			if err != nil {
				c.Inconclusive("no real ClientHello: " + err.Error())
				c.End()
				continue
			}
			c.Count("real_clienthellos", 1)
			l.Max("real_clienthello_max_len", int64(len(ch)))
			c.Sample("parrot-clienthello", map[string]any{"parrot": pr.Name, "len": len(ch)})
			draws := l.Pick(150, 400)
			for j := 0; j < draws; j++ {
				env := c09GenEnv(rng)
				env.MaxSize = []int{1200, 1252, 1280, 1350}[rng.IntN(4)]
				env.DCIDLen = max(spec.InitialPacketSpec.DestConnIDLength, 8)
				if lens := spec.InitialPacketSpec.InitPacketNumberLengths; len(lens) > 0 {
					env.PNLens = nil
					for _, x := range lens {
						env.PNLens = append(env.PNLens, protocol.PacketNumberLen(x))
					}
				} else if x := spec.InitialPacketSpec.InitPacketNumberLength; x > 0 {
					env.PNLens = []protocol.PacketNumberLen{protocol.PacketNumberLen(x)}
				}
				env.FirstPN = int(spec.InitialPacketSpec.InitPacketNumber)
				env.TokenLen = spec.InitialPacketSpec.ClientTokenLength
				res := c09Pack(&spec, ch, env, rng)
				oc, st := c09JudgeFlight(c, rp, "parrot-"+pr.Name, "", env, res, ch, func() map[string]any {
					return map[string]any{"parrot": pr.Name, "env": env}
				})
				c.Count("parrot_flight_"+oc, 1)
				c.Eval(fmt.Sprintf("parrot %s %s %s", pr.Name, oc, st.fp()))
				if j%10 == 0 { // the same ClientHello through stock quic-go framing, scrambler on
					env.Scramble = true
					res := c09Pack(nil, ch, env, rng)
					oc, st := c09JudgeFlight(c, rp, "packer-plain-scrambler", "", env, res, ch, func() map[string]any {
						return map[string]any{"parrot": pr.Name, "env": env, "real": true}
					})
					c.Eval(fmt.Sprintf("parrot-scr %s %s %s", pr.Name, oc, st.fp()))
				}
			}
			c.End()
		}
	}
}
