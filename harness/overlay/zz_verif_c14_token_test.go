package quic_test

// C14 (b)+(c), end to end: with source address verification on, only a token that the server
// issued for this address and that is still within its lifetime lifts the need for a Retry; the
// amplification limit is checked on the wire by the independent observer in every case.

import (
	"strings"
	"context"
	"fmt"
	"net"
	"sync"
	"testing"
	"testing/synctest"
	"time"

	quic "github.com/refraction-networking/uquic"
	"github.com/refraction-networking/uquic/internal/verif/evlog"
	"github.com/refraction-networking/uquic/internal/verif/quicworld"
	"github.com/refraction-networking/uquic/internal/verif/simworld"
	"github.com/refraction-networking/uquic/internal/verif/wiretap"
	"github.com/refraction-networking/uquic/testutils/simnet"
)

type c14Store struct {
	mu  sync.Mutex
	tok []byte
}

func (s *c14Store) Pop(string) *quic.ClientToken {
	s.mu.Lock()
	defer s.mu.Unlock()
	if s.tok == nil {
		return nil
	}
	return quic.NewClientToken(s.tok)
}
func (s *c14Store) Put(string, *quic.ClientToken) {}

type c14TokCase struct {
	Name    string `json:"name"`
	Variant string `json:"variant"`
	Valid   bool   `json:"valid"` // the token proves the address: no Retry is needed
	Pos     int    `json:"pos,omitempty"`
}

func TestVerifC14Tokens(t *testing.T) {
	l := evlog.Open("C14")
	defer l.Close()
	var cases []c14TokCase
	add := func(v string, valid bool, pos int) {
		cases = append(cases, c14TokCase{Name: fmt.Sprintf("%s/%d", v, pos), Variant: v, Valid: valid, Pos: pos})
	}
	add("newtoken-same-address", true, 0)
	add("newtoken-same-ip-other-port", true, 0) // the token encodes the IP address only
	add("newtoken-other-ip", false, 0)
	add("newtoken-just-before-expiry", true, 0)
	add("newtoken-after-expiry", false, 0)
	add("newtoken-other-key", false, 0)
	add("retrytoken-replayed-after-lifetime", false, 0)
	add("retrytoken-replayed-other-ip", false, 0)
	add("random-bytes", false, 0)
	// a server that does not enforce Retry (VerifySourceAddress nil) still decides from the token whether the
	// address counts as verified (ClientInfo.AddrVerified, and with it the 3x limit)
	add("noretry:newtoken-same-address", true, 0)
	add("noretry:newtoken-other-ip", false, 0)
	add("noretry:newtoken-after-expiry", false, 0)
	add("noretry:retrytoken-fresh", true, 0)
	add("noretry:retrytoken-replayed-after-lifetime", false, 0)
	add("noretry:retrytoken-replayed-other-ip", false, 0)
	add("noretry:random-bytes", false, 0)
	nmut := l.Pick(12, 120)
	for i := 0; i < nmut; i++ {
		add("newtoken-bitflip", false, i)
		add("newtoken-truncated", false, i)
	}
	for i, cs := range cases {
		if !l.Mine(i) {
			continue
		}
		c := l.Begin("C14/token/"+cs.Name, cs)
		if c == nil {
			continue
		}
		synctest.Test(t, func(t *testing.T) { runC14Token(l, c, &cs) })
		c.End()
	}
}

func runC14Token(l *evlog.Log, c *evlog.Case, cs *c14TokCase) {
	viol := func(w *quicworld.World, sig, f string, a ...any) {
		tr := map[string]any{"case": cs}
		if w != nil {
			for i, tp := range w.Wire.Snapshot() {
				tr[fmt.Sprintf("wire%d", i)] = tp.Describe(12)
			}
		}
		c.Violation("C14|token|"+sig, fmt.Sprintf(f, a...), tr)
	}
	const maxAge = 2 * time.Hour
	var keyA, keyB quic.TokenGeneratorKey
	for i := range keyA {
		keyA[i], keyB[i] = byte(i), byte(255-i)
	}
	store := &c14Store{}
	opt := quicworld.Options{RTT: 10 * time.Millisecond, VerifySourceAddress: func(net.Addr) bool { return true },
		ClientConf: &quic.Config{TokenStore: store, HandshakeIdleTimeout: 5 * time.Second},
		ServerConf: &quic.Config{HandshakeIdleTimeout: 5 * time.Second},
		ServerTransport: func(tr *quic.Transport) {
			tr.MaxTokenAge = maxAge
			tr.TokenGeneratorKey = &keyA
		}}
	w, err := quicworld.New(opt)
	if err != nil {
		viol(nil, "harness", "world: %v", err)
		return
	}
	defer func() {
		w.Close()
		time.Sleep(time.Minute)
		synctest.Wait()
		if lk := quicworld.BubbleGoroutines(); len(lk) > 0 {
			viol(w, "leak|goroutines-alive-after-close", "%s", lk[0])
		}
	}()
	// the server accepts whatever completes
	sctx, scancel := context.WithCancel(context.Background())
	var swg sync.WaitGroup
	defer func() {
		scancel()
		w.Close() // ends the accepted connections the server goroutines wait for
		swg.Wait()
	}()
	swg.Add(1)
	go func() {
		defer swg.Done()
		for {
			sc, err := w.Accept(sctx)
			if err != nil {
				return
			}
			swg.Add(1)
			go func() {
				defer swg.Done()
				<-sc.Context().Done()
			}()
		}
	}()
	dial := func(tr *quic.Transport) (*quic.Conn, error) {
		ctx, cancel := context.WithTimeout(context.Background(), 12*time.Second)
		defer cancel()
		return tr.Dial(ctx, quicworld.ServerAddr, w.ClientTLSConf.Clone(), w.Opt.ClientConf.Clone())
	}
	// ---- connection 1: no token -> Retry -> handshake -> NEW_TOKEN
	c1, err := dial(w.ClientTr)
	if err != nil {
		viol(w, "harness|priming-dial-failed", "%v", err)
		return
	}
	time.Sleep(200 * time.Millisecond)
	c1.CloseWithError(0, "")
	time.Sleep(300 * time.Millisecond)
	taps := w.Wire.Snapshot()
	if len(taps) == 0 || len(taps[0].RetryTokens) == 0 || len(taps[0].NewTokens) == 0 {
		viol(w, "harness|no-tokens-observed", "retry tokens %d, NEW_TOKEN tokens %d", len(taps[0].RetryTokens), len(taps[0].NewTokens))
		return
	}
	retryTok, newTok := taps[0].RetryTokens[0], taps[0].NewTokens[0]
	l.Count("priming_connections", 1)

	// ---- connection 2: present the variant
	clientTr := w.ClientTr
	mk := func(ip net.IP, port int) *quic.Transport {
		a := &net.UDPAddr{IP: ip, Port: port}
		pc := simnet.NewBlockingSimConn(a, w.Router)
		tr := &quic.Transport{Conn: pc}
		return tr
	}
	tok := append([]byte(nil), newTok...)
	variant := cs.Variant
	noRetry := strings.HasPrefix(variant, "noretry:")
	var verifiedMu sync.Mutex
	var verified []bool
	if noRetry {
		variant = strings.TrimPrefix(variant, "noretry:")
		// the same server (same token key) comes back without Retry enforcement
		w.Listener.Close()
		w.ServerTr.Close()
		w.ServerPC.Close()
		w.ServerPC = simnet.NewBlockingSimConn(quicworld.ServerAddr, w.Router)
		w.ServerTr = &quic.Transport{Conn: w.ServerPC, MaxTokenAge: maxAge, TokenGeneratorKey: &keyA}
		sconf := w.Opt.ServerConf.Clone()
		sconf.GetConfigForClient = func(info *quic.ClientInfo) (*quic.Config, error) {
			verifiedMu.Lock()
			verified = append(verified, info.AddrVerified)
			verifiedMu.Unlock()
			return nil, nil
		}
		ln, err := w.ServerTr.Listen(w.ServerTLSConf, sconf)
		if err != nil {
			viol(w, "harness", "re-listen: %v", err)
			return
		}
		w.Listener = ln
		scancel()
		sctx, scancel = context.WithCancel(context.Background())
		swg.Add(1)
		go func() {
			defer swg.Done()
			for {
				sc, err := w.Accept(sctx)
				if err != nil {
					return
				}
				swg.Add(1)
				go func() { defer swg.Done(); <-sc.Context().Done() }()
			}
		}()
	}
	switch variant {
	case "retrytoken-fresh":
		tok = append([]byte(nil), retryTok...)
	case "newtoken-same-address":
	case "newtoken-same-ip-other-port":
		clientTr = mk(quicworld.ClientAddr.IP, 9555)
	case "newtoken-other-ip":
		clientTr = mk(net.IPv4(1, 0, 0, 77), quicworld.ClientAddr.Port)
	case "newtoken-just-before-expiry":
		time.Sleep(maxAge - 10*time.Second)
	case "newtoken-after-expiry":
		time.Sleep(maxAge + 10*time.Second)
	case "newtoken-other-key":
		// a server with another token key issued it: restart the server side with key B
		w.Listener.Close()
		w.ServerTr.Close()
		w.ServerPC.Close()
		w.ServerPC = simnet.NewBlockingSimConn(quicworld.ServerAddr, w.Router)
		w.ServerTr = &quic.Transport{Conn: w.ServerPC, VerifySourceAddress: func(net.Addr) bool { return true }, MaxTokenAge: maxAge, TokenGeneratorKey: &keyB}
		ln, err := w.ServerTr.Listen(w.ServerTLSConf, w.Opt.ServerConf)
		if err != nil {
			viol(w, "harness", "re-listen: %v", err)
			return
		}
		w.Listener = ln
		scancel()
		sctx, scancel = context.WithCancel(context.Background())
		swg.Add(1)
		go func() {
			defer swg.Done()
			for {
				sc, err := w.Accept(sctx)
				if err != nil {
					return
				}
				swg.Add(1)
				go func() { defer swg.Done(); <-sc.Context().Done() }()
			}
		}()
	case "retrytoken-replayed-after-lifetime":
		tok = append([]byte(nil), retryTok...)
		time.Sleep(30 * time.Second) // retry tokens live for the handshake timeout (2 x 5 s)
	case "retrytoken-replayed-other-ip":
		tok = append([]byte(nil), retryTok...)
		clientTr = mk(net.IPv4(1, 0, 0, 78), quicworld.ClientAddr.Port)
	case "random-bytes":
		tok = []byte("this is not a token, but it is long enough to look like one....")
	case "newtoken-bitflip":
		bit := (cs.Pos * 37) % (8 * len(tok))
		tok[bit/8] ^= 1 << (bit % 8)
	case "newtoken-truncated":
		tok = tok[:1+(cs.Pos*7)%(len(tok)-1)]
	}
	store.mu.Lock()
	store.tok = tok
	store.mu.Unlock()
	nBefore := len(w.Wire.Snapshot())
	c2, derr := dial(clientTr)
	time.Sleep(100 * time.Millisecond)
	if c2 != nil {
		c2.CloseWithError(0, "")
	}
	if clientTr != w.ClientTr {
		clientTr.Close()
		clientTr.Conn.Close()
	}
	time.Sleep(300 * time.Millisecond)
	taps = w.Wire.Snapshot()
	if len(taps) <= nBefore {
		viol(w, "harness|second-connection-not-observed", "dial: %v", derr)
		return
	}
	tap := taps[len(taps)-1]
	w.Wire.Lock()
	retries := tap.RetrySeen
	presented := false
	for _, d := range tap.FirstFlight {
		for _, p := range d.Packets {
			if p.Kind == wiretap.KindInitial && string(p.Token) == string(tok) {
				presented = true
			}
		}
	}
	anoms := append([]wiretap.Anomaly(nil), tap.Anomalies...)
	ampChecks := tap.Counts["c14_amplification_checks"]
	w.Wire.Unlock()
	if !presented {
		viol(w, "harness|token-not-presented", "the client's first flight did not carry the variant token")
		return
	}
	if noRetry {
		verifiedMu.Lock()
		v := append([]bool(nil), verified...)
		verifiedMu.Unlock()
		switch {
		case len(v) == 0 && !cs.Valid:
			l.Count("noretry_invalid_token_refused", 1) // e.g. INVALID_TOKEN for an expired Retry token: not taken as proof
		case len(v) == 0:
			// (a Retry token presented outside its handshake makes the server echo the token's original
			// destination connection ID, which the client rejects: the dial may fail, the decision is still made)
			viol(w, "harness|noretry-no-decision-observed", "dial: %v, GetConfigForClient calls: %d", derr, len(v))
		case cs.Valid && !v[0]:
			viol(w, "valid-token-not-honoured|"+cs.Variant, "a server without Retry enforcement reports AddrVerified=false for a token that proves the address")
		case !cs.Valid && v[0]:
			viol(w, "invalid-token-accepted-as-proof-of-address|"+cs.Variant, "a server without Retry enforcement reports AddrVerified=true")
		default:
			l.Count("noretry_addr_verified_decisions_checked", 1)
		}
		for _, a := range anoms {
			if a.Prop == "C14" {
				viol(w, "wire|"+a.Sig, "%s", a.Detail)
			}
		}
		c.Eval(cs.Name)
		return
	}
	validatedWithoutRetry := derr == nil && retries == 0
	switch {
	case cs.Valid && !validatedWithoutRetry:
		viol(w, "valid-token-not-honoured|"+cs.Variant, "dial: %v, Retry packets: %d", derr, retries)
	case !cs.Valid && validatedWithoutRetry:
		viol(w, "invalid-token-accepted-as-proof-of-address|"+cs.Variant, "the connection was established without a Retry")
	}
	for _, a := range anoms {
		if a.Prop == "C14" {
			viol(w, "wire|"+a.Sig, "%s", a.Detail)
		}
	}
	l.Count("amplification_checks_on_wire", ampChecks)
	if derr != nil {
		l.Count("second_dial_refused", 1)
	} else if retries > 0 {
		l.Count("second_dial_retried", 1)
	} else {
		l.Count("second_dial_validated_by_token", 1)
	}
	c.Eval(cs.Name)
	c.Sample(cs.Variant, map[string]any{"case": cs.Name, "dial_err": fmt.Sprint(derr), "retries": retries, "token_len": len(tok)})
	_ = simworld.Pass
}
