package quic_test

// C04, connection level (E1): "a receiver accepts all data within the limits it has advertised and
// answers the first byte beyond them with FLOW_CONTROL_ERROR".  A real client and a real server over the
// simulated network.  The limits the victim advertised are read from the wire (its transport parameters,
// raised by the MAX_STREAM_DATA / MAX_DATA frames it emitted; optionally after the peer has genuinely
// sent data that the victim's application consumed).  Then correctly protected packets are forged on
// behalf of the peer: STREAM frames that use a stream's limit, or the connection's limit, exactly to the
// last byte must be accepted (the connection stays up); one more byte - as STREAM data, as a FIN-carrying
// frame or as the final size of a RESET_STREAM - must end the connection with FLOW_CONTROL_ERROR, both at
// the victim's API and in the CONNECTION_CLOSE it puts on the wire.

import (
	"context"
	"errors"
	"fmt"
	"io"
	"net"
	"testing"
	"testing/synctest"
	"time"

	quic "github.com/refraction-networking/uquic"
	"github.com/refraction-networking/uquic/internal/verif/evlog"
	"github.com/refraction-networking/uquic/internal/verif/quicworld"
	"github.com/refraction-networking/uquic/internal/verif/specgen"
	"github.com/refraction-networking/uquic/internal/verif/wiretap"
	tls "github.com/refraction-networking/utls"
)

type c04bCase struct {
	Name    string    `json:"name"`
	Client  string    `json:"client"` // plain | unil | QUICID | QUICID~asym | gen
	Gen     [4]uint64 `json:"gen,omitempty"`  // generated spec: initial_max_data, bidi_local, bidi_remote, uni
	Conf    string    `json:"conf"`   // the victim's Config windows (plain / unil / server victims)
	Victim  string    `json:"victim"` // client | server
	Stream  string    `json:"stream"` // peer-bidi | peer-uni | own-bidi
	Level   string    `json:"level"`  // stream | conn
	Frame   string    `json:"frame"`  // stream | stream-fin | reset
	Consume int       `json:"consume"` // bytes genuinely sent by the peer and read by the victim's application first
}

func c04bConf(name string) *quic.Config {
	c := &quic.Config{HandshakeIdleTimeout: 10 * time.Second, MaxIdleTimeout: 5 * time.Minute}
	switch name {
	case "small":
		c.InitialStreamReceiveWindow, c.MaxStreamReceiveWindow = 16<<10, 64<<10
		c.InitialConnectionReceiveWindow, c.MaxConnectionReceiveWindow = 40<<10, 160<<10
	case "fixed":
		c.InitialStreamReceiveWindow, c.MaxStreamReceiveWindow = 20000, 20000
		c.InitialConnectionReceiveWindow, c.MaxConnectionReceiveWindow = 30000, 30000
	case "conn-below-stream":
		c.InitialStreamReceiveWindow, c.MaxStreamReceiveWindow = 64<<10, 64<<10
		c.InitialConnectionReceiveWindow, c.MaxConnectionReceiveWindow = 24<<10, 24<<10
	case "odd":
		c.InitialStreamReceiveWindow, c.MaxStreamReceiveWindow = 12345, 99999
		c.InitialConnectionReceiveWindow, c.MaxConnectionReceiveWindow = 77777, 300001
	}
	return c
}

func TestVerifC04WireBoundary(t *testing.T) {
	l := evlog.Open("C04")
	defer l.Close()
	var cases []c04bCase
	clients := append([]string{"plain", "unil"}, quicworld.QUICIDNames...)
	for _, id := range quicworld.QUICIDNames {
		clients = append(clients, id+"~asym")
	}
	confs := []string{"default", "small", "fixed", "conn-below-stream", "odd"}
	rng := l.Rand("c04boundary")
	n := l.Pick(2500, 50000)
	for i := 0; i < n; i++ {
		cs := c04bCase{Client: clients[rng.IntN(len(clients))], Victim: []string{"client", "server"}[rng.IntN(2)], Conf: confs[rng.IntN(len(confs))],
			Stream: []string{"peer-bidi", "peer-uni", "own-bidi"}[rng.IntN(3)], Level: []string{"stream", "conn"}[rng.IntN(2)], Frame: []string{"stream", "stream-fin", "reset"}[rng.IntN(3)]}
		if rng.IntN(3) == 0 {
			cs.Client = "gen"
			pick := func(v ...uint64) uint64 { return v[rng.IntN(len(v))] }
			cs.Gen = [4]uint64{pick(4<<10, 64<<10, 100000, 1<<20), pick(1<<10, 16<<10, 50000, 300<<10), pick(1<<10, 16<<10, 50000, 300<<10), pick(1<<10, 16<<10, 50000, 300<<10)}
		}
		switch rng.IntN(4) {
		case 1:
			cs.Consume = 1 + rng.IntN(2000)
		case 2:
			cs.Consume = 5000 + rng.IntN(60000)
		}
		cs.Name = fmt.Sprintf("%05d/%s/%s/%s/%s/%s/%s/c%d", i, cs.Client, cs.Conf, cs.Victim, cs.Stream, cs.Level, cs.Frame, cs.Consume)
		cases = append(cases, cs)
	}
	for i, cs := range cases {
		if !l.Mine(i) {
			continue
		}
		c := l.Begin("C04/boundary/"+cs.Name, cs)
		if c == nil {
			continue
		}
		synctest.Test(t, func(t *testing.T) { runC04Boundary(l, c, &cs) })
		c.End()
	}
}

func runC04Boundary(l *evlog.Log, c *evlog.Case, cs *c04bCase) {
	var world *quicworld.World
	kind := cs.Client
	switch {
	case kind == "plain" || kind == "unil" || kind == "gen":
	case len(kind) > 5 && kind[len(kind)-5:] == "~asym":
		kind = "parrot~asym"
	default:
		kind = "parrot"
	}
	viol := func(sig, f string, a ...any) {
		tr := map[string]any{"case": cs}
		if world != nil {
			if taps := world.Wire.Snapshot(); len(taps) > 0 {
				tr["wire_tail"] = taps[len(taps)-1].Describe(20)
			}
		}
		c.Violation(fmt.Sprintf("C04|boundary|%s|%s|%s|%s|%s", sig, kind, cs.Victim, cs.Stream, cs.Level), fmt.Sprintf(f, a...), tr)
	}
	victimIsClient := cs.Victim == "client"
	vconf := c04bConf(cs.Conf)
	pconf := &quic.Config{HandshakeIdleTimeout: 10 * time.Second, MaxIdleTimeout: 5 * time.Minute, MaxIncomingStreams: 200, MaxIncomingUniStreams: 200}
	vconf.MaxIncomingStreams, vconf.MaxIncomingUniStreams = 200, 200
	opt := quicworld.Options{RTT: 10 * time.Millisecond}
	if victimIsClient {
		opt.ClientConf, opt.ServerConf = vconf, pconf
	} else {
		opt.ClientConf, opt.ServerConf = pconf, vconf
	}
	var spec quic.QUICSpec
	switch {
	case cs.Client == "plain" || cs.Client == "unil":
		opt.ClientKind = cs.Client
	case cs.Client == "gen":
		spec = quic.QUICSpec{ClientHelloSpec: specgen.HelloSpec("small", tls.TransportParameters{tls.MaxUDPPayloadSize(1472), tls.MaxIdleTimeout(300000),
			tls.InitialMaxData(cs.Gen[0]), tls.InitialMaxStreamDataBidiLocal(cs.Gen[1]), tls.InitialMaxStreamDataBidiRemote(cs.Gen[2]), tls.InitialMaxStreamDataUni(cs.Gen[3]),
			tls.InitialMaxStreamsBidi(100), tls.InitialMaxStreamsUni(100), tls.InitialSourceConnectionID([]byte{})})}
		opt.ClientKind, opt.Spec = "spec", &spec
	default:
		o, err := quicworld.OptionsFor(&quicworld.ConnCase{Client: cs.Client, RTTms: 10})
		if err != nil {
			viol("harness", "%v", err)
			return
		}
		opt.ClientKind, opt.Spec = o.ClientKind, o.Spec
	}
	w, err := quicworld.New(opt)
	if err != nil {
		viol("harness", "world: %v", err)
		return
	}
	world = w
	defer func() {
		w.Close()
		time.Sleep(time.Minute)
		synctest.Wait()
		if lk := quicworld.BubbleGoroutines(); len(lk) > 0 {
			viol("leak|goroutines-alive-after-close", "%s", lk[0])
		}
	}()
	ctx, cancel := context.WithTimeout(context.Background(), 5*time.Minute)
	defer cancel()
	type acc struct {
		c   *quic.Conn
		err error
	}
	accCh := make(chan acc, 1)
	go func() {
		sc, err := w.Accept(ctx)
		accCh <- acc{sc, err}
	}()
	cc, err := w.Dial(ctx)
	if err != nil {
		cancel()
		<-accCh
		viol("dial-failed", "%v", err)
		return
	}
	a := <-accCh
	if a.err != nil {
		cc.CloseWithError(0, "")
		viol("accept-failed", "%v", a.err)
		return
	}
	sc := a.c
	victim, peer := sc, cc
	vdir := wiretap.S2C // direction of what the victim emits
	if victimIsClient {
		victim, peer = cc, sc
		vdir = wiretap.C2S
	}
	pdir := vdir.Other() // direction of the peer's data
	defer func() {
		cc.CloseWithError(0, "")
		sc.CloseWithError(0, "")
	}()
	time.Sleep(200 * time.Millisecond)
	synctest.Wait()
	taps := w.Wire.Snapshot()
	if len(taps) == 0 {
		viol("harness", "no tap")
		return
	}
	tap := taps[len(taps)-1]

	// ---- the stream under test, and optionally genuine data that the victim's application consumes
	peerBits, ownBits := uint64(0), uint64(1) // client-initiated, server-initiated
	if victimIsClient {
		peerBits, ownBits = 1, 0
	}
	var id uint64
	switch cs.Stream {
	case "peer-bidi":
		id = peerBits
	case "peer-uni":
		id = peerBits | 2
	case "own-bidi":
		id = ownBits
	}
	streamID := func(j uint64) uint64 { return id + 4*j } // further streams of the same kind
	if cs.Stream == "own-bidi" || cs.Consume > 0 {
		errc := make(chan error, 2)
		payload := make([]byte, cs.Consume)
		go func() { // victim application
			var rd io.Reader
			switch cs.Stream {
			case "own-bidi":
				s, err := victim.OpenStream()
				if err != nil {
					errc <- fmt.Errorf("victim OpenStream: %w", err)
					return
				}
				s.Write([]byte("q"))
				rd = s
			case "peer-bidi":
				s, err := victim.AcceptStream(ctx)
				if err != nil {
					errc <- fmt.Errorf("victim AcceptStream: %w", err)
					return
				}
				rd = s
			default:
				s, err := victim.AcceptUniStream(ctx)
				if err != nil {
					errc <- fmt.Errorf("victim AcceptUniStream: %w", err)
					return
				}
				rd = s
			}
			_, err := io.ReadFull(rd, make([]byte, cs.Consume))
			errc <- err
		}()
		go func() { // peer application
			var wr io.Writer
			switch cs.Stream {
			case "own-bidi":
				s, err := peer.AcceptStream(ctx)
				if err != nil {
					errc <- fmt.Errorf("peer AcceptStream: %w", err)
					return
				}
				wr = s
			case "peer-bidi":
				s, err := peer.OpenStreamSync(ctx)
				if err != nil {
					errc <- fmt.Errorf("peer OpenStreamSync: %w", err)
					return
				}
				wr = s
			default:
				s, err := peer.OpenUniStreamSync(ctx)
				if err != nil {
					errc <- fmt.Errorf("peer OpenUniStreamSync: %w", err)
					return
				}
				wr = s
			}
			if cs.Consume == 0 {
				errc <- nil
				return
			}
			_, err := wr.Write(payload)
			errc <- err
		}()
		for i := 0; i < 2; i++ {
			select {
			case err := <-errc:
				if err != nil {
					viol("data-within-limits-not-delivered", "%v", err)
					return
				}
			case <-time.After(2 * time.Minute):
				viol("data-within-limits-not-delivered", "%d genuine bytes not read by the victim's application after 2 minutes", cs.Consume)
				return
			}
		}
		time.Sleep(500 * time.Millisecond)
		synctest.Wait()
		l.Count("boundary_bytes_consumed_first", int64(cs.Consume))
	}

	// ---- what did the victim advertise?
	connLimit, used, ok := tap.AdvertisedConnLimit(pdir)
	if !ok {
		viol("harness", "the victim's transport parameters were not observed")
		return
	}
	type fill struct{ id, upTo uint64 }
	var plan []fill
	var target fill  // the frame that goes one byte beyond
	room := connLimit - used
	sLimit, _ := tap.AdvertisedStreamLimit(pdir, id)
	h := tap.StreamHighWater(pdir, id)
	if sLimit < h || connLimit < used {
		viol("harness", "limits below what was genuinely sent (stream %d < %d or connection %d < %d)", sLimit, h, connLimit, used)
		return
	}
	level := cs.Level
	if level == "stream" && sLimit-h > room {
		level = "conn" // the stream's limit cannot be reached within the connection's
	}
	if level == "stream" {
		if sLimit > h {
			plan = append(plan, fill{id, sLimit})
		}
		target = fill{id, sLimit + 1}
	} else {
		// use the connection limit exactly: the stream under test first, then further streams of its kind
		left := room
		lastRoom := false
		var last fill
		// streams of the peer's own kind may be opened up to the stream count the victim advertised
		count := uint64(1)
		if cs.Stream != "own-bidi" {
			w.Wire.Lock()
			tp := tap.ServerTP
			if victimIsClient {
				tp = tap.ClientTP
			}
			if cs.Stream == "peer-uni" {
				count = max(tp.Int(wiretap.TPInitialMaxStreamsUni, 0), tap.MaxStreams[vdir][1])
			} else {
				count = max(tp.Int(wiretap.TPInitialMaxStreamsBidi, 0), tap.MaxStreams[vdir][0])
			}
			w.Wire.Unlock()
		}
		nextJ := uint64(0)
		for j := uint64(0); left > 0 && j < min(count, 90); j++ {
			nextJ = j + 1
			sid := streamID(j)
			lim, _ := tap.AdvertisedStreamLimit(pdir, sid)
			hw := tap.StreamHighWater(pdir, sid)
			if lim <= hw {
				continue
			}
			take := min(lim-hw, left)
			plan = append(plan, fill{sid, hw + take})
			left -= take
			last, lastRoom = fill{sid, hw + take}, hw+take < lim
		}
		if left > 0 {
			c.Eval("") // the connection limit cannot be reached with the streams available
			l.Count("boundary_conn_limit_unreachable", 1)
			return
		}
		switch {
		case lastRoom:
			target = fill{last.id, last.upTo + 1}
		case cs.Stream != "own-bidi" && nextJ < count:
			target = fill{streamID(nextJ), 1}
		case len(plan) > 0:
			target = fill{last.id, last.upTo + 1} // also beyond that stream's own limit
		default:
			target = fill{id, max(h, sLimit) + 1}
		}
	}

	w.Router.SetBlackhole(vdir, true)
	defer w.Router.SetBlackhole(vdir, false)
	from, to := net.Addr(quicworld.ServerAddr), net.Addr(quicworld.ClientAddr)
	if !victimIsClient {
		from, to = to, from
	}
	closesSeen := func() int {
		w.Wire.Lock()
		defer w.Wire.Unlock()
		return len(tap.Closes[vdir])
	}
	inject := func(payload []byte) bool {
		pkt, err := tap.ForgeShort(pdir, payload)
		if err != nil {
			viol("harness", "forge: %v", err)
			return false
		}
		w.Router.Inject(pdir, from, to, pkt, 0)
		return true
	}
	for _, f := range plan {
		if !inject(wiretap.StreamFrame(f.id, f.upTo-1, []byte("x"), false)) {
			return
		}
		time.Sleep(20 * time.Millisecond)
	}
	time.Sleep(300 * time.Millisecond)
	synctest.Wait()
	if victim.Context().Err() != nil || closesSeen() > 0 {
		viol("data-within-limits-rejected", "STREAM frames ending at %v (stream limit %d, connection limit %d of which %d genuinely used): the victim closed the connection: %v", plan, sLimit, connLimit, used, context.Cause(victim.Context()))
		return
	}
	if len(plan) > 0 {
		l.Count("boundary_exactly_at_limit_accepted_"+level, 1)
	}
	var payload []byte
	switch cs.Frame {
	case "stream":
		payload = wiretap.StreamFrame(target.id, target.upTo-1, []byte("y"), false)
	case "stream-fin":
		payload = wiretap.StreamFrame(target.id, target.upTo-1, []byte("y"), true)
	default:
		payload = []byte{0x04}
		payload = wiretap.AppendVarint(payload, target.id)
		payload = wiretap.AppendVarint(payload, 11)
		payload = wiretap.AppendVarint(payload, target.upTo)
	}
	if !inject(payload) {
		return
	}
	time.Sleep(300 * time.Millisecond)
	synctest.Wait()
	c.Eval(fmt.Sprintf("%s|%s|%s|%s|%s|%s|consume%v|plan%d", kind, cs.Conf, cs.Victim, cs.Stream, level, cs.Frame, cs.Consume > 0, min(len(plan), 3)))
	if victim.Context().Err() == nil {
		viol("first-byte-beyond-limit-accepted", "%s frame taking stream %d to %d (stream limit %d, connection limit %d, filled by %v): the victim's connection is still up 300 ms later", cs.Frame, target.id, target.upTo, sLimit, connLimit, plan)
		return
	}
	cause := context.Cause(victim.Context())
	var te *quic.TransportError
	if !errors.As(cause, &te) || te.Remote || te.ErrorCode != quic.FlowControlError {
		viol("wrong-error-for-byte-beyond-limit", "%s frame taking stream %d to %d (stream limit %d, connection limit %d, filled by %v): the victim ended with %v, want a local FLOW_CONTROL_ERROR", cs.Frame, target.id, target.upTo, sLimit, connLimit, plan, cause)
		return
	}
	w.Wire.Lock()
	var onWire string
	for _, f := range tap.Closes[vdir] {
		onWire += fmt.Sprintf("type=%#x code=%#x; ", f.Type, f.ErrorCode)
	}
	good := len(tap.Closes[vdir]) > 0 && tap.Closes[vdir][0].Type == wiretap.FtConnClose && tap.Closes[vdir][0].ErrorCode == 0x3
	w.Wire.Unlock()
	if !good {
		viol("peer-not-told-flow-control-error", "CONNECTION_CLOSE frames emitted by the victim: [%s], want a transport CONNECTION_CLOSE with FLOW_CONTROL_ERROR (0x3)", onWire)
		return
	}
	l.Count("boundary_flow_control_errors_verified_"+level, 1)
}
